import Fabio.Model.C06Access
import Fabio.Lemmas.C06
/-!
Helper lemmas for the published-table part of C06 (core Lean only): every `TableStep` preserves "ring and rules are
what was published" and the thread-local invariant of the scan in flight.
-/
namespace Fabio.Lemmas.C06
open Fabio.Model.C06

theorem tLocalInv_init (ring0 : List Nat) (rules0 : List Block) : TLocalInv ring0 rules0 {} := by
  refine ⟨?_, ?_, ?_⟩
  · intro h; cases h
  · intro e he; cases he
  · intro e he; cases he

theorem any_of_getElem {α : Type} (p : α → Bool) (xs : List α) (i : Nat) (x : α) (h : xs[i]? = some x) (hp : p x = true) :
    xs.any p = true := by
  rw [List.any_eq_true]
  exact ⟨x, List.mem_of_getElem? h, hp⟩

theorem any_false_of_all_idx {α : Type} (p : α → Bool) (xs : List α)
    (h : ∀ j, j < xs.length → ∀ b, xs[j]? = some b → p b = false) : xs.any p = false := by
  rw [Bool.eq_false_iff]
  intro hc
  rw [List.any_eq_true] at hc
  obtain ⟨x, hx, hp⟩ := hc
  obtain ⟨j, hj, hjx⟩ := List.getElem_of_mem hx
  have := h j hj x (by rw [List.getElem?_eq_getElem hj, hjx])
  rw [this] at hp
  cases hp

theorem table_step_inv (ring0 : List Nat) (rules0 : List Block) (f : TSt) (hf : TableStep f)
    (s : TState) (l : TLocal) (hI : s.ring = ring0 ∧ s.rules = rules0) (hJ : TLocalInv ring0 rules0 l) :
    ((f s l).1.ring = ring0 ∧ (f s l).1.rules = rules0) ∧ TLocalInv ring0 rules0 (f s l).2 := by
  obtain ⟨hr, hu⟩ := hI
  obtain ⟨h1, h2, h3⟩ := hJ
  cases hf with
  | core g => exact ⟨⟨hr, hu⟩, h1, h2, h3⟩
  | read => exact ⟨⟨hr, hu⟩, h1, h2, h3⟩
  | ring =>
    unfold ringRead
    cases hp : l.core.picks.getLast? with
    | none => exact ⟨⟨hr, hu⟩, h1, h2, h3⟩
    | some i =>
      refine ⟨⟨hr, hu⟩, h1, ?_, h3⟩
      intro e he
      simp only [List.mem_append, List.mem_singleton] at he
      rcases he with he | he
      · exact h2 e he
      · subst he; simp only [hr]
  | begin a =>
    refine ⟨⟨hr, hu⟩, ?_, h2, h3⟩
    intro _
    refine ⟨?_, Nat.zero_le _, ?_⟩
    · show s.rules.length = rules0.length
      rw [hu]
    · intro j hj; exact absurd hj (Nat.not_lt_zero _)
  | iter =>
    unfold scanIter
    cases ha : l.sactive with
    | false => exact ⟨⟨hr, hu⟩, h1, h2, h3⟩
    | true =>
      obtain ⟨hlen, hle, hseen⟩ := h1 ha
      simp only [Bool.not_true, Bool.false_eq_true, if_false]
      by_cases hlt : l.si < l.slen
      · simp only [hlt, if_true]
        have hlt' : l.si < rules0.length := by rw [← hlen]; exact hlt
        have hget : s.rules[l.si]? = some (rules0[l.si]) := by
          rw [hu, List.getElem?_eq_getElem hlt']
        rw [hget]
        simp only []
        by_cases hc : (rules0[l.si]).contains l.scur = true
        · simp only [hc, if_true]
          refine ⟨⟨hr, hu⟩, ?_, h2, ?_⟩
          · intro h; cases h
          · intro e he
            simp only [finishScan, List.mem_append, List.mem_singleton] at he
            rcases he with he | he
            · exact h3 e he
            · subst he
              exact (any_of_getElem (·.contains l.scur) rules0 l.si _ (List.getElem?_eq_getElem hlt') hc).symm
        · have hc' : (rules0[l.si]).contains l.scur = false := by
            cases h : (rules0[l.si]).contains l.scur with
            | true => exact absurd h hc
            | false => rfl
          simp only [hc', Bool.false_eq_true, if_false]
          refine ⟨⟨hr, hu⟩, ?_, h2, h3⟩
          intro _
          refine ⟨hlen, hlt, ?_⟩
          intro j hj b hb
          have hj : j < l.si + 1 := hj
          by_cases hj' : j < l.si
          · exact hseen j hj' b hb
          · have : j = l.si := by omega
            subst this
            rw [List.getElem?_eq_getElem hlt'] at hb
            cases hb
            exact hc'
      · simp only [hlt, if_false]
        refine ⟨⟨hr, hu⟩, ?_, h2, ?_⟩
        · intro h; cases h
        · intro e he
          simp only [finishScan, List.mem_append, List.mem_singleton] at he
          rcases he with he | he
          · exact h3 e he
          · subst he
            have hsi : l.si = rules0.length := by omega
            refine (any_false_of_all_idx (·.contains l.scur) rules0 ?_).symm
            intro j hj b hb
            exact hseen j (by omega) b hb

end Fabio.Lemmas.C06
