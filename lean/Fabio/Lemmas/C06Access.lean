import Fabio.Model.C06Access
import Fabio.Lemmas.C06
/-!
Helper lemmas for the published-table part of C06 (core Lean only): every `TableStep` preserves "ring and rules are
what was published" and the thread-local invariant of the scan in flight.
-/
namespace Fabio.Lemmas.C06
open Fabio.Model.C06

theorem tLocalInv_init (ring0 : List Nat) (rules0 : List Block) : TLocalInv ring0 rules0 {} := by
  refine ⟨?_, ?_, ?_⟩
  · intro h; cases h
  · intro e he; cases he
  · intro e he; cases he

theorem any_of_getElem {α : Type} (p : α → Bool) (xs : List α) (i : Nat) (x : α) (h : xs[i]? = some x) (hp : p x = true) :
    xs.any p = true := by
  rw [List.any_eq_true]
  exact ⟨x, List.mem_of_getElem? h, hp⟩

theorem any_false_of_all_idx {α : Type} (p : α → Bool) (xs : List α)
    (h : ∀ j, j < xs.length → ∀ b, xs[j]? = some b → p b = false) : xs.any p = false := by
  rw [Bool.eq_false_iff]
  intro hc
  rw [List.any_eq_true] at hc
  obtain ⟨x, hx, hp⟩ := hc
  obtain ⟨j, hj, hjx⟩ := List.getElem_of_mem hx
  have := h j hj x (by rw [List.getElem?_eq_getElem hj, hjx])
  rw [this] at hp
  cases hp

theorem table_step_inv (ring0 : List Nat) (rules0 : List Block) (f : TSt) (hf : TableStep f)
    (s : TState) (l : TLocal) (hI : s.ring = ring0 ∧ s.rules = rules0) (hJ : TLocalInv ring0 rules0 l) :
    ((f s l).1.ring = ring0 ∧ (f s l).1.rules = rules0) ∧ TLocalInv ring0 rules0 (f s l).2 := by
  obtain ⟨hr, hu⟩ := hI
  obtain ⟨h1, h2, h3⟩ := hJ
  cases hf with
  | core g => exact ⟨⟨hr, hu⟩, h1, h2, h3⟩
  | read => exact ⟨⟨hr, hu⟩, h1, h2, h3⟩
  | ring =>
    unfold ringRead
    cases hp : l.core.picks.getLast? with
    | none => exact ⟨⟨hr, hu⟩, h1, h2, h3⟩
    | some i =>
      refine ⟨⟨hr, hu⟩, h1, ?_, h3⟩
      intro e he
      simp only [List.mem_append, List.mem_singleton] at he
      rcases he with he | he
      · exact h2 e he
      · subst he; simp only [hr]
  | begin a =>
    refine ⟨⟨hr, hu⟩, ?_, h2, h3⟩
    intro _
    refine ⟨?_, Nat.zero_le _, ?_⟩
    · show s.rules.length = rules0.length
      rw [hu]
    · intro j hj; exact absurd hj (Nat.not_lt_zero _)
  | iter =>
    unfold scanIter
    cases ha : l.sactive with
    | false => exact ⟨⟨hr, hu⟩, h1, h2, h3⟩
    | true =>
      obtain ⟨hlen, hle, hseen⟩ := h1 ha
      simp only [Bool.not_true, Bool.false_eq_true, if_false]
      by_cases hlt : l.si < l.slen
      · simp only [hlt, if_true]
        have hlt' : l.si < rules0.length := by rw [← hlen]; exact hlt
        have hget : s.rules[l.si]? = some (rules0[l.si]) := by
          rw [hu, List.getElem?_eq_getElem hlt']
        rw [hget]
        simp only []
        by_cases hc : (rules0[l.si]).contains l.scur = true
        · simp only [hc, if_true]
          refine ⟨⟨hr, hu⟩, ?_, h2, ?_⟩
          · intro h; cases h
          · intro e he
            simp only [finishScan, List.mem_append, List.mem_singleton] at he
            rcases he with he | he
            · exact h3 e he
            · subst he
              exact (any_of_getElem (·.contains l.scur) rules0 l.si _ (List.getElem?_eq_getElem hlt') hc).symm
        · have hc' : (rules0[l.si]).contains l.scur = false := by
            cases h : (rules0[l.si]).contains l.scur with
            | true => exact absurd h hc
            | false => rfl
          simp only [hc', Bool.false_eq_true, if_false]
          refine ⟨⟨hr, hu⟩, ?_, h2, h3⟩
          intro _
          refine ⟨hlen, hlt, ?_⟩
          intro j hj b hb
          have hj : j < l.si + 1 := hj
          by_cases hj' : j < l.si
          · exact hseen j hj' b hb
          · have : j = l.si := by omega
            subst this
            rw [List.getElem?_eq_getElem hlt'] at hb
            cases hb
            exact hc'
      · simp only [hlt, if_false]
        refine ⟨⟨hr, hu⟩, ?_, h2, ?_⟩
        · intro h; cases h
        · intro e he
          simp only [finishScan, List.mem_append, List.mem_singleton] at he
          rcases he with he | he
          · exact h3 e he
          · subst he
            have hsi : l.si = rules0.length := by omega
            refine (any_false_of_all_idx (·.contains l.scur) rules0 ?_).symm
            intro j hj b hb
            exact hseen j (by omega) b hb

/-! ### projection of a goroutine onto its core micro-steps -/

theorem noncore_frame (op : TOp) (h : op.coreStep = none) (s : TState) (l : TLocal) :
    (op.sem s l).1.core = s.core ∧ (op.sem s l).2.core = l.core := by
  cases op with
  | core f => simp [TOp.coreStep] at h
  | pick N => simp [TOp.coreStep] at h
  | ringRead =>
    simp only [TOp.sem, ringRead]
    cases l.core.picks.getLast? <;> exact ⟨rfl, rfl⟩
  | scanBegin a => exact ⟨rfl, rfl⟩
  | scanIter =>
    simp only [TOp.sem, scanIter]
    repeat' split
    all_goals exact ⟨rfl, rfl⟩
  | tableRead => exact ⟨rfl, rfl⟩

theorem set_same {α : Type} (l : List α) (i : Nat) (a : α) (h : l[i]? = some a) : l.set i a = l := by
  obtain ⟨hi, ha⟩ := List.getElem?_eq_some_iff.mp h
  subst ha
  exact List.set_getElem_self hi

theorem run_proj (sch : List Nat) : ∀ (ts : List STh) (s : TState),
    ∃ (sch' : List Nat) (ts' : List STh),
      (run sch (ts.map STh.toT) s).2 = ts'.map STh.toT ∧
      run sch' (ts.map STh.proj) s.core = ((run sch (ts.map STh.toT) s).1.core, ts'.map STh.proj) := by
  induction sch with
  | nil => intro ts s; exact ⟨[], ts, rfl, rfl⟩
  | cons i sch ih =>
    intro ts s
    simp only [run]
    cases hget : ts[i]? with
    | none =>
      have h1 : stepAt i (ts.map STh.toT) s = (s, ts.map STh.toT) := by
        unfold stepAt; simp [List.getElem?_map, hget]
      rw [h1]; exact ih ts s
    | some t =>
      cases hops : t.ops with
      | nil =>
        have h1 : stepAt i (ts.map STh.toT) s = (s, ts.map STh.toT) := by
          unfold stepAt; simp [List.getElem?_map, hget, STh.toT, hops]
        rw [h1]; exact ih ts s
      | cons op rest =>
        have h1 : stepAt i (ts.map STh.toT) s
            = ((op.sem s t.loc).1, (ts.set i { ops := rest, loc := (op.sem s t.loc).2 }).map STh.toT) := by
          unfold stepAt; simp [List.getElem?_map, hget, STh.toT, hops, List.map_set]
        rw [h1]
        obtain ⟨sch1, ts', e1, e2⟩ := ih (ts.set i { ops := rest, loc := (op.sem s t.loc).2 }) (op.sem s t.loc).1
        cases hc : op.coreStep with
        | some f =>
          have hsem : op.sem = liftCore f := by
            cases op <;> simp [TOp.coreStep] at hc <;> subst hc <;> rfl
          refine ⟨i :: sch1, ts', e1, ?_⟩
          simp only [run]
          have h2 : stepAt i (ts.map STh.proj) s.core
              = ((op.sem s t.loc).1.core,
                 (ts.set i { ops := rest, loc := (op.sem s t.loc).2 }).map STh.proj) := by
            unfold stepAt
            simp [List.getElem?_map, hget, STh.proj, hops, List.map_set, hc, hsem, liftCore]
          rw [h2]; exact e2
        | none =>
          obtain ⟨c1, c2⟩ := noncore_frame op hc s t.loc
          refine ⟨sch1, ts', e1, ?_⟩
          have h3 : (ts.set i { ops := rest, loc := (op.sem s t.loc).2 }).map STh.proj = ts.map STh.proj := by
            rw [List.map_set]
            apply set_same
            simp [List.getElem?_map, hget, STh.proj, hops, hc, c2]
          rw [h3, c1] at e2; exact e2


theorem sem_tableStep (op : TOp) : TableStep op.sem := by
  cases op with
  | core f => exact .core f
  | pick N => exact .core _
  | ringRead => exact .ring
  | scanBegin a => exact .begin a
  | scanIter => exact .iter
  | tableRead => exact .read

theorem filterMap_replicate_none (k : Nat) (op : TOp) (h : op.coreStep = none) :
    (List.replicate k op).filterMap TOp.coreStep = [] := by
  induction k with
  | zero => rfl
  | succ k ih => rw [List.replicate_succ, List.filterMap_cons, h]; exact ih

theorem requestOps_core (N n : Nat) (a : Addr) : (requestOps N n a).filterMap TOp.coreStep = pickRepaired N := by
  unfold requestOps
  rw [List.filterMap_append, filterMap_replicate_none _ _ rfl]
  rfl

theorem requestThread_proj (N n : Nat) (as : List Addr) :
    (requestThread N n as).proj = rrThreadRepaired N as.length := by
  have h : ∀ as : List Addr, (as.flatMap (requestOps N n)).filterMap TOp.coreStep
      = (List.replicate as.length (pickRepaired N)).flatten := by
    intro as
    induction as with
    | nil => rfl
    | cons a as ih =>
      rw [List.flatMap_cons, List.filterMap_append, requestOps_core, ih, List.length_cons, List.replicate_succ,
        List.flatten_cons]
  simp only [STh.proj, requestThread, rrThreadRepaired, mkThread, h]

theorem readerThread_proj (N k : Nat) : (readerThread k).proj = rrThreadRepaired N 0 := by
  have h : (List.replicate k TOp.tableRead).filterMap TOp.coreStep = [] := filterMap_replicate_none k .tableRead rfl
  simp only [STh.proj, readerThread, rrThreadRepaired, mkThread, h]
  rfl

theorem allPicks_proj (ts : List STh) : allPicks (ts.map STh.proj) = allPicksT (ts.map STh.toT) := by
  simp only [allPicks, allPicksT, List.flatMap_map]
  rfl

/-! ### every index handed out is read from the ring: linkage of picks and targets -/

/-- an invariant of single operations of syntactic goroutines is an invariant of every schedule -/
theorem run_syn (Inv : STh → Prop)
    (hstep : ∀ op rest l s, Inv ⟨op :: rest, l⟩ → Inv ⟨rest, (op.sem s l).2⟩) :
    ∀ (sch : List Nat) (ts : List STh) (s : TState), (∀ t ∈ ts, Inv t) →
      ∃ ts' : List STh, (run sch (ts.map STh.toT) s).2 = ts'.map STh.toT ∧ ∀ t ∈ ts', Inv t := by
  intro sch
  induction sch with
  | nil => intro ts s h; exact ⟨ts, rfl, h⟩
  | cons i sch ih =>
    intro ts s h
    simp only [run]
    cases hget : ts[i]? with
    | none =>
      have h1 : stepAt i (ts.map STh.toT) s = (s, ts.map STh.toT) := by
        unfold stepAt; simp [List.getElem?_map, hget]
      rw [h1]; exact ih ts s h
    | some t =>
      cases hops : t.ops with
      | nil =>
        have h1 : stepAt i (ts.map STh.toT) s = (s, ts.map STh.toT) := by
          unfold stepAt; simp [List.getElem?_map, hget, STh.toT, hops]
        rw [h1]; exact ih ts s h
      | cons op rest =>
        have h1 : stepAt i (ts.map STh.toT) s
            = ((op.sem s t.loc).1, (ts.set i { ops := rest, loc := (op.sem s t.loc).2 }).map STh.toT) := by
          unfold stepAt; simp [List.getElem?_map, hget, STh.toT, hops, List.map_set]
        rw [h1]
        apply ih
        intro t' ht'
        rcases List.mem_or_eq_of_mem_set ht' with h2 | h2
        · exact h t' h2
        · subst h2
          have htm : t ∈ ts := List.mem_of_getElem? hget
          have hi := h t htm
          have ht : t = ⟨op :: rest, t.loc⟩ := by
            cases t with
            | mk ops loc => simp only at hops; subst hops; rfl
          rw [ht] at hi
          exact hstep op rest t.loc s hi

/-- every index the goroutine was handed has been read from the ring, except the one whose read is the very next
operation -/
def Linked (t : STh) : Prop :=
  t.loc.core.dead = false ∧
  ∃ p : Bool, wfFrom p t.ops = true ∧
    (p = false → t.loc.core.picks = t.loc.targets.map (·.1)) ∧
    (p = true → ∃ i, t.loc.core.picks = t.loc.targets.map (·.1) ++ [i])

theorem linked_step (op : TOp) (rest : List TOp) (l : TLocal) (s : TState)
    (h : Linked ⟨op :: rest, l⟩) : Linked ⟨rest, (op.sem s l).2⟩ := by
  obtain ⟨hd, p, hwf, h0, h1⟩ := h
  simp only at hd hwf h0 h1
  cases op with
  | core f => cases p <;> simp [wfFrom] at hwf
  | pick N =>
    cases p with
    | true => simp [wfFrom] at hwf
    | false =>
      simp only [wfFrom, Bool.and_eq_true, decide_eq_true_eq] at hwf
      have e := rrFetchAdd_eq N hwf.1 s.core l.core hd
      refine ⟨?_, true, hwf.2, fun hc => (by cases hc), fun _ => ⟨s.core.total % N, ?_⟩⟩
      · show (rrFetchAdd N s.core l.core).2.dead = false
        rw [e]; exact hd
      · show (rrFetchAdd N s.core l.core).2.picks = l.targets.map (·.1) ++ [s.core.total % N]
        rw [e]; simp only; rw [h0 rfl]
  | ringRead =>
    cases p with
    | false => simp [wfFrom] at hwf
    | true =>
      simp only [wfFrom] at hwf
      obtain ⟨i, hi⟩ := h1 rfl
      have hl : l.core.picks.getLast? = some i := by rw [hi]; simp
      refine ⟨?_, false, hwf, fun _ => ?_, fun hc => by cases hc⟩
      · simp only [TOp.sem, ringRead, hl]; exact hd
      · simp only [TOp.sem, ringRead, hl, List.map_append, List.map_cons, List.map_nil]; exact hi
  | scanBegin a =>
    cases p with
    | true => simp [wfFrom] at hwf
    | false => exact ⟨hd, false, by simpa [wfFrom] using hwf, h0, fun hc => by cases hc⟩
  | tableRead =>
    cases p with
    | true => simp [wfFrom] at hwf
    | false => exact ⟨hd, false, by simpa [wfFrom] using hwf, h0, fun hc => by cases hc⟩
  | scanIter =>
    cases p with
    | true => simp [wfFrom] at hwf
    | false =>
      have hwf' : wfFrom false rest = true := by simpa [wfFrom] using hwf
      have hc := (noncore_frame .scanIter rfl s l).2
      have ht : (TOp.scanIter.sem s l).2.targets = l.targets := by
        simp only [TOp.sem, scanIter]
        repeat' split
        all_goals rfl
      refine ⟨?_, false, hwf', fun _ => ?_, fun hc => by cases hc⟩
      · show (TOp.scanIter.sem s l).2.core.dead = false
        rw [hc]; exact hd
      · show (TOp.scanIter.sem s l).2.core.picks = (TOp.scanIter.sem s l).2.targets.map (·.1)
        rw [hc, ht]; exact h0 rfl

theorem wf_replicate_scanIter (k : Nat) (rest : List TOp) :
    wfFrom false (List.replicate k .scanIter ++ rest) = wfFrom false rest := by
  induction k with
  | zero => rfl
  | succ k ih => rw [List.replicate_succ, List.cons_append]; simp only [wfFrom]; exact ih

theorem wf_requests (N n : Nat) (hN : 0 < N) (as : List Addr) : wfFrom false (as.flatMap (requestOps N n)) = true := by
  induction as with
  | nil => rfl
  | cons a as ih =>
    rw [List.flatMap_cons]
    unfold requestOps
    simp only [List.cons_append, List.nil_append, wfFrom, hN, decide_true, Bool.true_and]
    rw [wf_replicate_scanIter]; exact ih

theorem wf_reader (k : Nat) : wfFrom false (List.replicate k .tableRead) = true := by
  induction k with
  | zero => rfl
  | succ k ih => rw [List.replicate_succ]; simp only [wfFrom]; exact ih

theorem linked_request (N n : Nat) (hN : 0 < N) (as : List Addr) : Linked (requestThread N n as) :=
  ⟨rfl, false, wf_requests N n hN as, fun _ => rfl, fun hc => by cases hc⟩

theorem linked_reader (k : Nat) : Linked (readerThread k) :=
  ⟨rfl, false, wf_reader k, fun _ => rfl, fun hc => by cases hc⟩

/-- a finished linked goroutine has read the slot of every index it was handed -/
theorem linked_finished (t : STh) (h : Linked t) (hf : t.ops = []) : t.loc.core.picks = t.loc.targets.map (·.1) := by
  obtain ⟨_, p, hwf, h0, _⟩ := h
  rw [hf] at hwf
  cases p with
  | true => simp [wfFrom] at hwf
  | false => exact h0 rfl


end Fabio.Lemmas.C06
