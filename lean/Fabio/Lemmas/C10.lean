import Fabio.Model.C10
/-! Helper lemmas for C10 (core Lean only). -/
namespace Fabio.Lemmas.C10
open Fabio Fabio.Model.C10

/-! ### the result monad -/

@[simp] theorem ok_bind {α β} (a : α) (f : α → R β) : (R.ok a >>= f) = f a := rfl
@[simp] theorem reject_bind {α β} (s : String) (f : α → R β) : (R.reject s >>= f) = R.reject s := rfl
@[simp] theorem panic_bind {α β} (s : String) (f : α → R β) : (R.panic s >>= f) = R.panic s := rfl
@[simp] theorem pure_eq {α} (a : α) : (pure a : R α) = R.ok a := rfl

@[simp] theorem isPanic_ok {α} (a : α) : (R.ok a).isPanic = false := rfl
@[simp] theorem isPanic_reject {α} (s : String) : (R.reject s : R α).isPanic = false := rfl
@[simp] theorem isPanic_panic {α} (s : String) : (R.panic s : R α).isPanic = true := rfl
@[simp] theorem isReject_ok {α} (a : α) : (R.ok a).isReject = false := rfl
@[simp] theorem isReject_reject {α} (s : String) : (R.reject s : R α).isReject = true := rfl

theorem isPanic_bind {α β} (x : R α) (f : α → R β) (hx : x.isPanic = false)
    (hf : ∀ a, x = .ok a → (f a).isPanic = false) : (x >>= f).isPanic = false := by
  cases x with
  | ok a => exact hf a rfl
  | reject s => rfl
  | panic w => simp at hx

theorem isReject_bind_of_isReject {α β} (x : R α) (f : α → R β) (hx : x.isReject = true) :
    (x >>= f).isReject = true := by
  cases x <;> simp_all [R.isReject]

/-! ### big-endian fields -/

theorem be16_eq (hi lo : UInt8) : be16 hi lo = hi.toNat * 256 + lo.toNat := by
  unfold be16
  have h : lo.toNat < 2 ^ 8 := lo.toNat_lt
  rw [← Nat.shiftLeft_add_eq_or_of_lt h, Nat.shiftLeft_eq]

theorem be24_eq (a b c : UInt8) : be24 a b c = a.toNat * 65536 + b.toNat * 256 + c.toNat := by
  unfold be24
  have hb : b.toNat < 2 ^ 8 := b.toNat_lt
  have hc : c.toNat < 2 ^ 8 := c.toNat_lt
  have hb' : b.toNat <<< 8 < 2 ^ 16 := by rw [Nat.shiftLeft_eq]; omega
  have e1 : a.toNat <<< 16 ||| b.toNat <<< 8 = a.toNat <<< 16 + b.toNat <<< 8 :=
    (Nat.shiftLeft_add_eq_or_of_lt hb' _).symm
  have e2 : a.toNat <<< 16 + b.toNat <<< 8 = (a.toNat * 256 + b.toNat) <<< 8 := by
    simp only [Nat.shiftLeft_eq]; omega
  rw [e1, e2, ← Nat.shiftLeft_add_eq_or_of_lt hc, Nat.shiftLeft_eq]
  omega

theorem be16_lt (hi lo : UInt8) : be16 hi lo < 65536 := by
  rw [be16_eq]; have := hi.toNat_lt; have := lo.toNat_lt; omega

/-! ### checked access -/

theorem idx_ok {d : Bytes} {i : Nat} (h : i < d.length) : idx d i = .ok d[i] := by
  simp [idx, List.getElem?_eq_getElem h]

theorem idx_isPanic {d : Bytes} {i : Nat} (h : i < d.length) : (idx d i).isPanic = false := by
  rw [idx_ok h]; rfl

theorem sliceFrom_ok {d : Bytes} {a : Nat} (h : a ≤ d.length) : sliceFrom d a = .ok (d.drop a) := by
  simp [sliceFrom, h]

theorem sliceTo_ok {d : Bytes} {b : Nat} (h : b ≤ d.length) : sliceTo d b = .ok (d.take b) := by
  simp [sliceTo, h]

theorem slice_ok {d : Bytes} {a b : Nat} (h1 : a ≤ b) (h2 : b ≤ d.length) :
    slice d a b = .ok ((d.take b).drop a) := by
  simp [slice, h1, h2]

end Fabio.Lemmas.C10

namespace Fabio.Lemmas.C10
open Fabio Fabio.Model.C10

/-! ### no panic -/

theorem bufsize_no_panic (d : Bytes) : (clientHelloBufferSize d).isPanic = false := by
  unfold clientHelloBufferSize
  split
  · rfl
  · rename_i h
    have h9 : 9 ≤ d.length := by simp only [peekLen] at h; omega
    simp (disch := omega) only [idx_ok, ok_bind]
    repeat' split
    all_goals rfl


theorem parseHead_no_panic (d : Bytes) : (parseHead d).isPanic = false := by
  unfold parseHead
  simp only [minHelloLen, randomOff, sidLenOff, sidOff, maxSidLen]
  split
  · rfl
  · rename_i h
    simp (disch := omega) only [idx_ok, ok_bind, slice_ok]
    split
    · rfl
    · rename_i h2
      simp (disch := omega) only [ok_bind, slice_ok, sliceFrom_ok]
      rfl

theorem parseCiphers_no_panic (d : Bytes) : (parseCiphers d).isPanic = false := by
  unfold parseCiphers
  split
  · rfl
  · rename_i h
    simp (disch := omega) only [idx_ok, ok_bind]
    split
    · rfl
    · rename_i h2
      simp (disch := omega) only [sliceFrom_ok]
      rfl

theorem parseCompression_no_panic (d : Bytes) : (parseCompression d).isPanic = false := by
  unfold parseCompression
  split
  · rfl
  · rename_i h
    simp (disch := omega) only [idx_ok, ok_bind]
    split
    · rfl
    · rename_i h2
      simp (disch := omega) only [ok_bind, slice_ok, sliceFrom_ok]
      rfl


/-- discharger for the side conditions of the checked-access lemmas -/
macro "bounds" : tactic => `(tactic| first | omega | (simp only [List.length_drop, List.length_take] at *; omega))

theorem nameLoop_no_panic : ∀ (fuel : Nat) (d : Bytes), d.length < fuel → (nameLoop fuel d).isPanic = false
  | 0, d, h => by omega
  | fuel+1, d, h => by
    unfold nameLoop
    split
    · rfl
    split
    · rfl
    simp (disch := bounds) only [idx_ok, ok_bind, sliceFrom_ok]
    split
    · rfl
    split
    · simp (disch := bounds) only [sliceTo_ok, ok_bind]; rfl
    · try simp (disch := bounds) only [sliceFrom_ok, ok_bind]
      apply nameLoop_no_panic
      simp only [List.length_drop]; omega

theorem serverNameExt_no_panic (d cur : Bytes) : (serverNameExt d cur).isPanic = false := by
  unfold serverNameExt
  split
  · rfl
  simp (disch := bounds) only [idx_ok, ok_bind, sliceFrom_ok]
  split
  · rfl
  apply isPanic_bind
  · apply nameLoop_no_panic; omega
  · intro a _; cases a <;> rfl

theorem extLoop_no_panic : ∀ (fuel : Nat) (d cur : Bytes), d.length < fuel → (extLoop fuel d cur).isPanic = false
  | 0, d, _, h => by omega
  | fuel+1, d, cur, h => by
    unfold extLoop
    split
    · rfl
    split
    · rfl
    simp (disch := bounds) only [idx_ok, ok_bind, sliceFrom_ok]
    split
    · rfl
    apply isPanic_bind
    · split
      · simp (disch := bounds) only [sliceTo_ok, ok_bind]
        apply serverNameExt_no_panic
      · rfl
    · intro cur' _
      try simp (disch := bounds) only [sliceFrom_ok, ok_bind]
      apply extLoop_no_panic
      simp only [List.length_drop]; omega

theorem parseExtensions_no_panic (d : Bytes) : (parseExtensions d).isPanic = false := by
  unfold parseExtensions
  split
  · rfl
  split
  · rfl
  simp (disch := bounds) only [idx_ok, ok_bind, sliceFrom_ok]
  split
  · rfl
  apply extLoop_no_panic; omega

theorem unmarshal_no_panic (d : Bytes) : (unmarshal d).isPanic = false := by
  unfold unmarshal
  apply isPanic_bind
  · apply isPanic_bind
    · apply isPanic_bind
      · exact parseHead_no_panic d
      · intro a _; exact parseCiphers_no_panic a
    · intro a _; exact parseCompression_no_panic a
  · intro a _; exact parseExtensions_no_panic a


/-! ### panic-free equations of the stages on lists given by their first elements -/

theorem idx_zero (a : UInt8) (t : Bytes) : idx (a :: t) 0 = .ok a := rfl
theorem idx_succ (a : UInt8) (t : Bytes) (i : Nat) : idx (a :: t) (i+1) = idx t i := by
  simp [idx]

theorem parseCiphers_nil : parseCiphers [] = .reject "cipher-len" := rfl
theorem parseCiphers_one (a : UInt8) : parseCiphers [a] = .reject "cipher-len" := rfl
theorem parseCiphers_cons (a b : UInt8) (t : Bytes) :
    parseCiphers (a :: b :: t) =
      if be16 a b % 2 = 1 ∨ t.length < be16 a b then .reject "cipher-suites" else .ok (t.drop (be16 a b)) := by
  unfold parseCiphers
  have h : ¬ (a :: b :: t).length < 2 := by simp
  rw [if_neg h]
  simp only [idx_zero, idx_succ, ok_bind]
  by_cases c : be16 a b % 2 = 1 ∨ t.length < be16 a b
  · have c' : be16 a b % 2 = 1 ∨ (a :: b :: t).length < 2 + be16 a b := by
      simp only [List.length_cons]; omega
    rw [if_pos c, if_pos c']
  · have c' : ¬ (be16 a b % 2 = 1 ∨ (a :: b :: t).length < 2 + be16 a b) := by
      simp only [List.length_cons]; omega
    rw [if_neg c, if_neg c', sliceFrom_ok (by simp only [List.length_cons]; omega)]
    have : 2 + be16 a b = be16 a b + 1 + 1 := by omega
    rw [this, List.drop_succ_cons, List.drop_succ_cons]

theorem parseCompression_nil : parseCompression [] = .reject "compression-len" := rfl
theorem parseCompression_cons (c : UInt8) (t : Bytes) :
    parseCompression (c :: t) =
      if t.length < c.toNat then .reject "compression-methods" else .ok (t.drop c.toNat) := by
  unfold parseCompression
  have h : ¬ (c :: t).length < 1 := by simp
  rw [if_neg h]
  simp only [idx_zero, ok_bind]
  by_cases k : t.length < c.toNat
  · have k' : (c :: t).length < 1 + c.toNat := by simp only [List.length_cons]; omega
    rw [if_pos k, if_pos k']
  · have k' : ¬ (c :: t).length < 1 + c.toNat := by simp only [List.length_cons]; omega
    rw [if_neg k, if_neg k', slice_ok (by omega) (by simp only [List.length_cons]; omega), ok_bind,
      sliceFrom_ok (by simp only [List.length_cons]; omega)]
    have : 1 + c.toNat = c.toNat + 1 := by omega
    rw [this, List.drop_succ_cons]

theorem parseHead_short (d : Bytes) (h : d.length < 42) : parseHead d = .reject "len<42" := by
  unfold parseHead; rw [if_pos h]

theorem parseHead_eq (d : Bytes) (h : 42 ≤ d.length) :
    parseHead d =
      if (d[38]'(by omega)).toNat > 32 ∨ d.length < 39 + (d[38]'(by omega)).toNat then .reject "session-id"
      else .ok (d.drop (39 + (d[38]'(by omega)).toNat)) := by
  unfold parseHead
  simp only [minHelloLen, randomOff, sidLenOff, sidOff, maxSidLen]
  rw [if_neg (by omega)]
  simp (disch := omega) only [idx_ok, ok_bind, slice_ok]
  split
  · rfl
  · simp (disch := omega) only [ok_bind, slice_ok, sliceFrom_ok]

theorem parseExtensions_nil : parseExtensions [] = .ok [] := rfl
theorem parseExtensions_one (a : UInt8) : parseExtensions [a] = .reject "ext-block-len" := rfl
theorem parseExtensions_cons (a b : UInt8) (t : Bytes) :
    parseExtensions (a :: b :: t) =
      if be16 a b ≠ t.length then .reject "ext-block-length" else extLoop (t.length + 1) t [] := by
  unfold parseExtensions
  have h1 : ¬ (a :: b :: t).length = 0 := by simp
  have h2 : ¬ (a :: b :: t).length < 2 := by simp
  rw [if_neg h1, if_neg h2]
  simp only [idx_zero, idx_succ, ok_bind]
  rw [sliceFrom_ok (by simp)]
  simp only [ok_bind, List.drop_succ_cons, List.drop_zero]

theorem extLoop_nil (fuel : Nat) (cur : Bytes) : extLoop (fuel+1) [] cur = .ok cur := rfl

theorem extLoop_cons (fuel : Nat) (a b c e : UInt8) (t cur : Bytes) :
    extLoop (fuel+1) (a :: b :: c :: e :: t) cur =
      if t.length < be16 c e then .reject "ext-length" else
        (if be16 a b = extensionServerName then serverNameExt (t.take (be16 c e)) cur else .ok cur) >>=
          fun cur' => extLoop fuel (t.drop (be16 c e)) cur' := by
  rw [extLoop]
  have h1 : ¬ (a :: b :: c :: e :: t).length = 0 := by simp
  have h2 : ¬ (a :: b :: c :: e :: t).length < 4 := by simp
  rw [if_neg h1, if_neg h2]
  simp only [idx_zero, idx_succ, ok_bind]
  rw [sliceFrom_ok (by simp)]
  simp only [ok_bind, List.drop_succ_cons, List.drop_zero]
  split
  · rfl
  · rename_i h3
    rw [sliceTo_ok (by omega), sliceFrom_ok (by omega)]
    simp only [ok_bind]

theorem serverNameExt_cons (a b : UInt8) (t cur : Bytes) :
    serverNameExt (a :: b :: t) cur =
      if t.length ≠ be16 a b then .reject "sni-list-length" else
        nameLoop (t.length + 1) t >>= fun r => .ok (r.getD cur) := by
  unfold serverNameExt
  have h2 : ¬ (a :: b :: t).length < 2 := by simp
  rw [if_neg h2]
  simp only [idx_zero, idx_succ, ok_bind]
  rw [sliceFrom_ok (by simp)]
  simp only [ok_bind, List.drop_succ_cons, List.drop_zero]
  split
  · rfl
  · congr 1; funext r; cases r <;> rfl

theorem nameLoop_nil (fuel : Nat) : nameLoop (fuel+1) [] = .ok none := rfl

theorem nameLoop_cons (fuel : Nat) (ty a b : UInt8) (t : Bytes) :
    nameLoop (fuel+1) (ty :: a :: b :: t) =
      if t.length < be16 a b then .reject "name-length" else
        if ty = nameTypeHost then .ok (some (t.take (be16 a b))) else nameLoop fuel (t.drop (be16 a b)) := by
  rw [nameLoop]
  have h1 : ¬ (ty :: a :: b :: t).length = 0 := by simp
  have h2 : ¬ (ty :: a :: b :: t).length < 3 := by simp
  rw [if_neg h1, if_neg h2]
  simp only [idx_zero, idx_succ, ok_bind]
  rw [sliceFrom_ok (by simp)]
  simp only [ok_bind, List.drop_succ_cons, List.drop_zero]
  split
  · rfl
  · rename_i h3
    rw [sliceTo_ok (by omega), sliceFrom_ok (by omega)]
    simp only [ok_bind]


/-! ### the encoder -/

theorem be16_enc16 (n : Nat) (h : n < 65536) : be16 (UInt8.ofNat (n / 256)) (UInt8.ofNat (n % 256)) = n := by
  rw [be16_eq]; simp; omega

theorem be24_enc24 (n : Nat) (h : n < 16777216) :
    be24 (UInt8.ofNat (n / 65536)) (UInt8.ofNat (n / 256 % 256)) (UInt8.ofNat (n % 256)) = n := by
  rw [be24_eq]; simp; omega

theorem enc16_length (n : Nat) : (enc16 n).length = 2 := rfl
theorem enc24_length (n : Nat) : (enc24 n).length = 3 := rfl

theorem nameLoop_enc (entries : List (UInt8 × Bytes)) (hok : ∀ e ∈ entries, e.2.length < 65536) :
    ∀ fuel, (encNameList entries).length < fuel → nameLoop fuel (encNameList entries) = .ok (hostName entries) := by
  induction entries with
  | nil =>
    intro fuel hf
    cases fuel with
    | zero => simp [encNameList] at hf
    | succ f => rfl
  | cons e es ih =>
    intro fuel hf
    cases fuel with
    | zero => omega
    | succ f =>
      have hlen : e.2.length < 65536 := hok e (List.mem_cons_self ..)
      have hshape : encNameList (e :: es) =
          e.1 :: UInt8.ofNat (e.2.length / 256) :: UInt8.ofNat (e.2.length % 256) :: (e.2 ++ encNameList es) := by
        simp [encNameList, encNameEntry, enc16]
      rw [hshape] at hf ⊢
      rw [nameLoop_cons, be16_enc16 _ hlen]
      have h1 : ¬ (e.2 ++ encNameList es).length < e.2.length := by simp
      rw [if_neg h1]
      simp only [hostName, nameTypeHost]
      split
      · rw [List.take_left' rfl]
      · rw [List.drop_left' rfl]
        apply ih (fun x hx => hok x (List.mem_cons_of_mem _ hx))
        simp only [List.length_cons, List.length_append] at hf
        omega

theorem serverNameExt_enc (entries : List (UInt8 × Bytes)) (cur : Bytes)
    (hok : ∀ e ∈ entries, e.2.length < 65536) (hlen : (encNameList entries).length < 65536) :
    serverNameExt (Ext.body (.serverName entries)) cur = .ok ((hostName entries).getD cur) := by
  have hshape : Ext.body (.serverName entries) =
      UInt8.ofNat ((encNameList entries).length / 256) :: UInt8.ofNat ((encNameList entries).length % 256) ::
        encNameList entries := by
    simp [Ext.body, enc16]
  rw [hshape, serverNameExt_cons, be16_enc16 _ hlen]
  simp only [ne_eq, not_true_eq_false, if_false]
  rw [nameLoop_enc entries hok _ (by omega)]
  rfl


theorem extOk_typ_lt {e : Ext} (h : ExtOk e) : e.typ < 65536 := by
  cases e with
  | serverName es => simp [Ext.typ]
  | other t b => exact h.2.1

theorem extOk_body_lt {e : Ext} (h : ExtOk e) : e.body.length < 65536 := by
  cases e with
  | serverName es =>
    have := h.2.2.2
    simp only [Ext.body, List.length_append, enc16_length]; omega
  | other t b => exact h.2.2

theorem encExts_cons_shape (e : Ext) (es : List Ext) :
    encExts (e :: es) =
      UInt8.ofNat (e.typ / 256) :: UInt8.ofNat (e.typ % 256) ::
      UInt8.ofNat (e.body.length / 256) :: UInt8.ofNat (e.body.length % 256) :: (e.body ++ encExts es) := by
  simp [encExts, encExt, enc16]

/-- The extension loop on an encoded extension list of any length and any sizes: every non-`server_name`
extension is skipped by its length, every `server_name` extension is parsed. By induction over the list. -/
theorem extLoop_enc (es : List Ext) (hok : ∀ e ∈ es, ExtOk e) :
    ∀ fuel cur, (encExts es).length < fuel → extLoop fuel (encExts es) cur = .ok (sniFold es cur) := by
  induction es with
  | nil =>
    intro fuel cur hf
    cases fuel with
    | zero => simp [encExts] at hf
    | succ f => rfl
  | cons e es ih =>
    intro fuel cur hf
    cases fuel with
    | zero => omega
    | succ f =>
      have he : ExtOk e := hok e (List.mem_cons_self ..)
      have hes : ∀ x ∈ es, ExtOk x := fun x hx => hok x (List.mem_cons_of_mem _ hx)
      rw [encExts_cons_shape] at hf ⊢
      rw [extLoop_cons, be16_enc16 _ (extOk_typ_lt he), be16_enc16 _ (extOk_body_lt he)]
      have h1 : ¬ (e.body ++ encExts es).length < e.body.length := by simp
      rw [if_neg h1, List.take_left' rfl, List.drop_left' rfl]
      have hf' : (encExts es).length < f := by
        simp only [List.length_cons, List.length_append] at hf; omega
      cases e with
      | serverName entries =>
        have hn : ∀ x ∈ entries, x.2.length < 65536 := fun x hx => (he.2.1 x hx).2.1
        have hl : (encNameList entries).length < 65536 := by have := he.2.2.2; omega
        simp only [Ext.typ, extensionServerName, if_true]
        rw [serverNameExt_enc entries cur hn hl, ok_bind, ih hes _ _ hf']
        rfl
      | other t b =>
        have ht : ¬ ((Ext.other t b).typ = extensionServerName) := he.1
        rw [if_neg ht, ok_bind, ih hes _ _ hf']
        rfl


/-- what the extension loop computes for an optional extension block -/
def foldOf : Option (List Ext) → Bytes
  | none => []
  | some es => sniFold es []

theorem parseExtensions_enc (o : Option (List Ext)) (hok : ExtsOk o) :
    parseExtensions (encExtBlock o) = .ok (foldOf o) := by
  cases o with
  | none => rfl
  | some es =>
    have hshape : encExtBlock (some es) =
        UInt8.ofNat ((encExts es).length / 256) :: UInt8.ofNat ((encExts es).length % 256) :: encExts es := by
      simp [encExtBlock, enc16]
    rw [hshape, parseExtensions_cons, be16_enc16 _ hok.2.2]
    simp only [ne_eq, not_true_eq_false, if_false]
    exact extLoop_enc es hok.1 _ _ (by omega)

/-! ### the message as four consecutive parts -/

/-- handshake header + version + random + session id: what `parseHead` consumes -/
def headPart (h : Hello) : Bytes := 1 :: (enc24 (encBody h).length ++ encHeadBody h)

theorem encode_split (h : Hello) :
    encode h = headPart h ++ (encCipherBlock h ++ (encCompressionBlock h ++ encExtBlock h.extensions)) := by
  simp [encode, encBody, headPart]

theorem headPart_length (h : Hello) (hr : h.random.length = 32) :
    (headPart h).length = 39 + h.sessionId.length := by
  simp [headPart, encHeadBody, enc24, hr]; omega

theorem headPart_get (h : Hello) (hr : h.random.length = 32) (t : Bytes) (hlt : 38 < (headPart h ++ t).length) :
    (headPart h ++ t)[38] = UInt8.ofNat h.sessionId.length := by
  have hshape : headPart h ++ t =
      (1 :: (enc24 (encBody h).length ++ ([h.versHi, h.versLo] ++ h.random))) ++
        (UInt8.ofNat h.sessionId.length :: (h.sessionId ++ t)) := by
    simp [headPart, encHeadBody]
  have hl : (1 :: (enc24 (encBody h).length ++ ([h.versHi, h.versLo] ++ h.random))).length = 38 := by
    simp [enc24, hr]
  have h1 : (headPart h ++ t)[38]? = some (UInt8.ofNat h.sessionId.length) := by
    rw [hshape, List.getElem?_append_right (by omega), hl]; rfl
  exact (List.getElem?_eq_some_iff.mp h1).2

theorem parseHead_headPart (h : Hello) (hr : h.random.length = 32) (hs : h.sessionId.length ≤ 32) (t : Bytes) :
    parseHead (headPart h ++ t) =
      if (headPart h ++ t).length < 42 then .reject "len<42" else .ok t := by
  split
  · rename_i hlt; exact parseHead_short _ hlt
  · rename_i hge
    have h42 : 42 ≤ (headPart h ++ t).length := by omega
    rw [parseHead_eq _ h42, headPart_get h hr t (by omega)]
    have hto : (UInt8.ofNat h.sessionId.length).toNat = h.sessionId.length := by simp; omega
    have hlen : (headPart h ++ t).length = 39 + h.sessionId.length + t.length := by
      rw [List.length_append, headPart_length h hr]
    rw [hto, if_neg (by omega), List.drop_left' (headPart_length h hr)]

theorem encCiphers_length (cs : List (UInt8 × UInt8)) : (encCiphers cs).length = 2 * cs.length := by
  induction cs with
  | nil => rfl
  | cons c cs ih => simp only [encCiphers, List.length_cons, ih]; omega

theorem encCipherBlock_shape (h : Hello) (t : Bytes) :
    encCipherBlock h ++ t =
      UInt8.ofNat ((encCiphers h.cipherSuites).length / 256) :: UInt8.ofNat ((encCiphers h.cipherSuites).length % 256) ::
        (encCiphers h.cipherSuites ++ t) := by
  simp [encCipherBlock, enc16]

theorem parseCiphers_enc (h : Hello) (hc : 2 * h.cipherSuites.length < 65536) (t : Bytes) :
    parseCiphers (encCipherBlock h ++ t) = .ok t := by
  have hl := encCiphers_length h.cipherSuites
  rw [encCipherBlock_shape, parseCiphers_cons, be16_enc16 _ (by omega)]
  rw [if_neg (by simp only [List.length_append]; omega), List.drop_left' rfl]

theorem encCompressionBlock_shape (h : Hello) (t : Bytes) :
    encCompressionBlock h ++ t = UInt8.ofNat h.compressionMethods.length :: (h.compressionMethods ++ t) := by
  simp [encCompressionBlock]

theorem parseCompression_enc (h : Hello) (hc : h.compressionMethods.length < 256) (t : Bytes) :
    parseCompression (encCompressionBlock h ++ t) = .ok t := by
  have hto : (UInt8.ofNat h.compressionMethods.length).toNat = h.compressionMethods.length := by simp; omega
  rw [encCompressionBlock_shape, parseCompression_cons, hto]
  rw [if_neg (by simp only [List.length_append]; omega), List.drop_left' rfl]

/-- `unmarshal` of an encoded well-formed hello runs the extension loop to its end. -/
theorem unmarshal_encode (h : Hello) (hw : WellFormed h) :
    unmarshal (encode h) = .ok (foldOf h.extensions) := by
  unfold unmarshal
  rw [encode_split, parseHead_headPart h hw.random hw.sessionId]
  have hlen : ¬ (headPart h ++ (encCipherBlock h ++ (encCompressionBlock h ++ encExtBlock h.extensions))).length < 42 := by
    simp only [List.length_append, headPart_length h hw.random, encCipherBlock, encCompressionBlock, enc16_length,
      List.length_cons]
    omega
  rw [if_neg hlen, ok_bind, parseCiphers_enc h hw.ciphers, ok_bind, parseCompression_enc h hw.compression, ok_bind]
  exact parseExtensions_enc _ hw.exts


/-! ### with pairwise distinct extension types the fold is "the" server_name extension -/

theorem sniFold_no_sni (es : List Ext) (cur : Bytes) (h : ∀ e ∈ es, e.typ ≠ 0) : sniFold es cur = cur := by
  induction es generalizing cur with
  | nil => rfl
  | cons e es ih =>
    have he := h e (List.mem_cons_self ..)
    cases e with
    | serverName ns => exact absurd rfl he
    | other t b => exact ih cur (fun x hx => h x (List.mem_cons_of_mem _ hx))

theorem sniFold_unique (es : List Ext) (cur : Bytes) (hok : ∀ e ∈ es, ExtOk e) (hn : (es.map Ext.typ).Nodup) :
    sniFold es cur =
      match es.find? (fun e => e.typ == 0) with
      | some (.serverName ns) => (hostName ns).getD cur
      | _ => cur := by
  induction es generalizing cur with
  | nil => rfl
  | cons e es ih =>
    have he := hok e (List.mem_cons_self ..)
    have hes : ∀ x ∈ es, ExtOk x := fun x hx => hok x (List.mem_cons_of_mem _ hx)
    rw [List.map_cons, List.nodup_cons] at hn
    cases e with
    | serverName ns =>
      have hno : ∀ x ∈ es, x.typ ≠ 0 := by
        intro x hx hx0
        apply hn.1
        rw [List.mem_map]
        exact ⟨x, hx, by rw [hx0]; rfl⟩
      simp only [sniFold, List.find?_cons, Ext.typ, beq_self_eq_true]
      exact sniFold_no_sni es _ hno
    | other t b =>
      have ht : t ≠ 0 := he.1
      have hb : ((Ext.other t b).typ == 0) = false := by simp [Ext.typ, ht]
      simp only [sniFold, List.find?_cons, hb]
      exact ih cur hes hn.2

theorem foldOf_eq_sniOf (h : Hello) (hw : WellFormed h) : foldOf h.extensions = sniOf h := by
  unfold sniOf foldOf
  have hx := hw.exts
  cases hext : h.extensions with
  | none => rfl
  | some es =>
    rw [hext] at hx
    exact sniFold_unique es [] hx.1 hx.2.1


/-! ### truncation -/

theorem take_append_ge {α} (a r : List α) (k : Nat) (h : a.length ≤ k) :
    (a ++ r).take k = a ++ r.take (k - a.length) := by
  rw [List.take_append, List.take_of_length_le h]

theorem parseHead_trunc (h : Hello) (hr : h.random.length = 32) (hs : h.sessionId.length ≤ 32) (t : Bytes) (k : Nat)
    (hk : k < (headPart h).length) : (parseHead ((headPart h ++ t).take k)).isReject = true := by
  have hl := headPart_length h hr
  have hlen : ((headPart h ++ t).take k).length = k := by
    rw [List.length_take, List.length_append]; omega
  by_cases h42 : k < 42
  · rw [parseHead_short _ (by omega)]; rfl
  · have hge : 42 ≤ ((headPart h ++ t).take k).length := by omega
    have hg : ((headPart h ++ t).take k)[38]'(by omega) = UInt8.ofNat h.sessionId.length := by
      rw [List.getElem_take]
      exact headPart_get h hr t (by rw [List.length_append]; omega)
    have hto : (UInt8.ofNat h.sessionId.length).toNat = h.sessionId.length := by simp; omega
    rw [parseHead_eq _ hge, hg, hto, if_pos (by omega)]
    rfl

theorem parseCiphers_trunc (h : Hello) (hc : 2 * h.cipherSuites.length < 65536) (t : Bytes) (k : Nat)
    (hk : k < (encCipherBlock h).length) : (parseCiphers ((encCipherBlock h ++ t).take k)).isReject = true := by
  have hl := encCiphers_length h.cipherSuites
  have hbl : (encCipherBlock h).length = 2 + (encCiphers h.cipherSuites).length := by
    simp [encCipherBlock, enc16]; omega
  rw [encCipherBlock_shape]
  match k, hk with
  | 0, _ => rfl
  | 1, _ => rfl
  | k+2, hk =>
    rw [List.take_succ_cons, List.take_succ_cons, parseCiphers_cons, be16_enc16 _ (by omega)]
    rw [if_pos (by
      right
      rw [List.length_take, List.length_append]; omega)]
    rfl

theorem parseCompression_trunc (h : Hello) (hc : h.compressionMethods.length < 256) (t : Bytes) (k : Nat)
    (hk : k < (encCompressionBlock h).length) :
    (parseCompression ((encCompressionBlock h ++ t).take k)).isReject = true := by
  have hto : (UInt8.ofNat h.compressionMethods.length).toNat = h.compressionMethods.length := by simp; omega
  have hbl : (encCompressionBlock h).length = 1 + h.compressionMethods.length := by
    simp [encCompressionBlock]; omega
  rw [encCompressionBlock_shape]
  match k, hk with
  | 0, _ => rfl
  | k+1, hk =>
    rw [List.take_succ_cons, parseCompression_cons, hto]
    rw [if_pos (by rw [List.length_take, List.length_append]; omega)]
    rfl

theorem parseExtensions_trunc (es : List Ext) (hl : (encExts es).length < 65536) (k : Nat) (h0 : 0 < k)
    (hk : k < (encExtBlock (some es)).length) :
    (parseExtensions ((encExtBlock (some es)).take k)).isReject = true := by
  have hshape : encExtBlock (some es) =
      UInt8.ofNat ((encExts es).length / 256) :: UInt8.ofNat ((encExts es).length % 256) :: encExts es := by
    simp [encExtBlock, enc16]
  rw [hshape] at hk ⊢
  match k, h0, hk with
  | 1, _, _ => rfl
  | k+2, _, hk =>
    simp only [List.length_cons] at hk
    rw [List.take_succ_cons, List.take_succ_cons, parseExtensions_cons, be16_enc16 _ hl]
    rw [if_pos (by rw [List.length_take]; omega)]
    rfl

theorem cut_eq (h : Hello) :
    cutAfterCompression h = (headPart h).length + (encCipherBlock h).length + (encCompressionBlock h).length := by
  simp [cutAfterCompression, headPart, enc24]; omega

/-- A strict prefix of an encoded well-formed hello is rejected — unless the cut falls exactly behind the
compression methods. -/
theorem unmarshal_trunc (h : Hello) (hw : WellFormed h) (k : Nat) (hk : k < (encode h).length)
    (hne : k ≠ cutAfterCompression h) : (unmarshal ((encode h).take k)).isReject = true := by
  rw [cut_eq] at hne
  rw [encode_split] at hk ⊢
  simp only [List.length_append] at hk
  unfold unmarshal
  by_cases hA : k < (headPart h).length
  · exact isReject_bind_of_isReject _ _ (isReject_bind_of_isReject _ _ (isReject_bind_of_isReject _ _
      (parseHead_trunc h hw.random hw.sessionId _ k hA)))
  rw [take_append_ge _ _ _ (by omega), parseHead_headPart h hw.random hw.sessionId]
  split
  · rfl
  rw [ok_bind]
  by_cases hB : k - (headPart h).length < (encCipherBlock h).length
  · exact isReject_bind_of_isReject _ _ (isReject_bind_of_isReject _ _
      (parseCiphers_trunc h hw.ciphers _ _ hB))
  rw [take_append_ge _ _ _ (by omega), parseCiphers_enc h hw.ciphers, ok_bind]
  by_cases hC : k - (headPart h).length - (encCipherBlock h).length < (encCompressionBlock h).length
  · exact isReject_bind_of_isReject _ _ (parseCompression_trunc h hw.compression _ _ hC)
  rw [take_append_ge _ _ _ (by omega), parseCompression_enc h hw.compression, ok_bind]
  have hx := hw.exts
  cases hext : h.extensions with
  | none => rw [hext] at hk; simp only [encExtBlock, List.length_nil] at hk; omega
  | some es =>
    rw [hext] at hk hx
    exact parseExtensions_trunc es hx.2.2 _ (by omega) (by omega)

/-- The exception is real: cut exactly behind the compression methods, a hello that has an extension block
is *accepted* as an extension-less hello with an empty server name. -/
theorem unmarshal_cut (h : Hello) (hw : WellFormed h) :
    unmarshal ((encode h).take (cutAfterCompression h)) = .ok [] := by
  rw [cut_eq, encode_split]
  unfold unmarshal
  have hlen : ¬ (headPart h ++ (encCipherBlock h ++ (encCompressionBlock h ++ ([] : Bytes)))).length < 42 := by
    simp only [List.length_append, headPart_length h hw.random, encCipherBlock, encCompressionBlock, enc16_length,
      List.length_cons]
    omega
  rw [take_append_ge _ _ _ (by omega), take_append_ge _ _ _ (by omega), take_append_ge _ _ _ (by omega)]
  have hz : (headPart h).length + (encCipherBlock h).length + (encCompressionBlock h).length - (headPart h).length -
      (encCipherBlock h).length - (encCompressionBlock h).length = 0 := by omega
  rw [hz, List.take_zero, parseHead_headPart h hw.random hw.sessionId, if_neg hlen, ok_bind,
    parseCiphers_enc h hw.ciphers, ok_bind, parseCompression_enc h hw.compression, ok_bind]
  rfl


/-! ### the record layer and the start of ServeTCP -/

theorem bufsize_spec (d : Bytes) (n : Nat) (h : clientHelloBufferSize d = .ok n) :
    ∃ h9 : 9 ≤ d.length,
      d[0] = 0x16 ∧ d[5] = 0x01 ∧ n = be24 d[6] d[7] d[8] + 9 ∧ 0 < be24 d[6] d[7] d[8] ∧
      be24 d[6] d[7] d[8] + 4 ≤ be16 d[3] d[4] ∧ be16 d[3] d[4] ≤ 16384 := by
  unfold clientHelloBufferSize at h
  simp only [peekLen, recTypeHandshake, maxRecordLen, hsTypeClientHello, hsHdrLen] at h
  split at h
  · cases h
  rename_i h9
  have h9' : 9 ≤ d.length := by omega
  refine ⟨h9', ?_⟩
  simp (disch := omega) only [idx_ok, ok_bind] at h
  split at h
  · cases h
  rename_i h0
  split at h
  · cases h
  rename_i hr
  split at h
  · cases h
  rename_i h5
  split at h
  · cases h
  rename_i hh
  cases h
  simp only [bne_iff_ne, ne_eq, Decidable.not_not] at h0 h5
  refine ⟨h0, h5, rfl, by omega, by omega, by omega⟩

theorem bufsize_nine (t v1 v2 r1 r0 ht b2 b1 b0 : UInt8) (ht16 : t = 0x16) (hh1 : ht = 0x01)
    (hr : 0 < be16 r1 r0 ∧ be16 r1 r0 ≤ 16384) (hh : 0 < be24 b2 b1 b0 ∧ be24 b2 b1 b0 + 4 ≤ be16 r1 r0) :
    clientHelloBufferSize [t, v1, v2, r1, r0, ht, b2, b1, b0] = .ok (be24 b2 b1 b0 + 9) := by
  subst ht16 hh1
  unfold clientHelloBufferSize
  simp only [peekLen, recTypeHandshake, maxRecordLen, hsTypeClientHello, hsHdrLen, List.length_cons, List.length_nil,
    idx_zero, idx_succ, ok_bind]
  rw [if_neg (by omega), if_neg (by simp), if_neg (by omega), if_neg (by simp), if_neg (by omega)]

theorem encode_length (h : Hello) : (encode h).length = 4 + (encBody h).length := by
  simp [encode, enc24]
  try omega

theorem encBody_pos (h : Hello) : 0 < (encBody h).length := by
  simp [encBody, encHeadBody]

theorem record_shape (a b : UInt8) (h : Hello) :
    record a b h = 0x16 :: a :: b :: UInt8.ofNat ((encode h).length / 256) :: UInt8.ofNat ((encode h).length % 256) ::
      1 :: UInt8.ofNat ((encBody h).length / 65536) :: UInt8.ofNat ((encBody h).length / 256 % 256) ::
      UInt8.ofNat ((encBody h).length % 256) :: encBody h := by
  simp [record, encode, enc16, enc24]

theorem record_length (a b : UInt8) (h : Hello) : (record a b h).length = 9 + (encBody h).length := by
  rw [record_shape]; simp only [List.length_cons]; omega

theorem record_drop5 (a b : UInt8) (h : Hello) : (record a b h).drop 5 = encode h := by
  simp [record, enc16]

/-- For a hello that fits one record the computed buffer size is exactly the length of that record. -/
theorem bufsize_record (a b : UInt8) (h : Hello) (hf : FitsRecord h) (tail : Bytes) (k : Nat) (hk : 9 ≤ k) :
    clientHelloBufferSize (((record a b h ++ tail).take k).take 9) = .ok (record a b h).length := by
  have hfit : (encode h).length ≤ 16384 := hf
  have hel := encode_length h
  have hpos := encBody_pos h
  rw [List.take_take, Nat.min_eq_left hk, record_length, record_shape]
  simp only [List.cons_append, List.take_succ_cons, List.take_zero]
  rw [bufsize_nine _ _ _ _ _ _ _ _ _ rfl rfl
        (by rw [be16_enc16 _ (by omega)]; omega)
        (by rw [be16_enc16 _ (by omega), be24_enc24 _ (by omega)]; omega),
      be24_enc24 _ (by omega)]
  congr 1; omega


theorem sniRoute_no_panic (s : Bytes) : (sniRoute s).isPanic = false := by
  unfold sniRoute
  simp only [peekLen, recHdrLen]
  split
  · rfl
  rename_i h9
  rw [sliceTo_ok (by omega), ok_bind]
  apply isPanic_bind
  · exact bufsize_no_panic _
  · intro n hn
    obtain ⟨_, _, _, hn', hp, _, _⟩ := bufsize_spec _ _ hn
    split
    · rfl
    rename_i hlen
    rw [sliceTo_ok (by omega), ok_bind, sliceFrom_ok (by rw [List.length_take]; omega), ok_bind]
    exact unmarshal_no_panic _

/-- Whatever arrives: if the proxy gets as far as a server name, it has consumed exactly `n` bytes —
the 9 header bytes plus the handshake length announced in them, at most the first record — and the name is
`readServerName` of exactly those bytes without the record header. -/
theorem sniRoute_exact (s nm : Bytes) (h : sniRoute s = .ok nm) :
    ∃ n, clientHelloBufferSize (s.take 9) = .ok n ∧ 10 ≤ n ∧ n ≤ s.length ∧
      ((s.take n).drop 5).length = n - 5 ∧ unmarshal ((s.take n).drop 5) = .ok nm := by
  unfold sniRoute at h
  simp only [peekLen, recHdrLen] at h
  split at h
  · cases h
  rename_i h9
  rw [sliceTo_ok (by omega), ok_bind] at h
  cases hb : clientHelloBufferSize (s.take 9) with
  | reject e => rw [hb] at h; cases h
  | panic e => rw [hb] at h; cases h
  | ok n =>
    rw [hb, ok_bind] at h
    obtain ⟨_, _, _, hn', hp, _, _⟩ := bufsize_spec _ _ hb
    split at h
    · cases h
    rename_i hlen
    rw [sliceTo_ok (by omega), ok_bind, sliceFrom_ok (by rw [List.length_take]; omega), ok_bind] at h
    refine ⟨n, rfl, by omega, by omega, ?_, h⟩
    rw [List.length_drop, List.length_take]; omega

/-- The first flight of a client — one record holding a well-formed hello, followed by anything — is routed
by the hello's server name. -/
theorem sniRoute_record (a b : UInt8) (h : Hello) (hw : WellFormed h) (hf : FitsRecord h) (tail : Bytes) :
    sniRoute (record a b h ++ tail) = .ok (sniOf h) := by
  have hrl := record_length a b h
  unfold sniRoute
  simp only [peekLen, recHdrLen]
  rw [if_neg (by rw [List.length_append]; omega), sliceTo_ok (by rw [List.length_append]; omega), ok_bind]
  have hb := bufsize_record a b h hf tail (record a b h ++ tail).length (by rw [List.length_append]; omega)
  rw [List.take_length] at hb
  rw [hb, ok_bind, if_neg (by rw [List.length_append]; omega), sliceTo_ok (by rw [List.length_append]; omega),
    ok_bind, List.take_left' rfl, sliceFrom_ok (by omega), ok_bind, record_drop5, unmarshal_encode h hw,
    foldOf_eq_sniOf h hw]

/-- At the proxy a strict prefix of the record is never routed (no exception here): either fewer than 9
bytes arrive, or `io.ReadFull` fails because the announced length is not reached. -/
theorem sniRoute_trunc (a b : UInt8) (h : Hello) (hf : FitsRecord h) (k : Nat) (hk : k < (record a b h).length) :
    (sniRoute ((record a b h).take k)).isReject = true := by
  have hrl := record_length a b h
  have hlen : ((record a b h).take k).length = k := by rw [List.length_take]; omega
  unfold sniRoute
  simp only [peekLen, recHdrLen]
  split
  · rfl
  rename_i h9
  rw [sliceTo_ok (by omega), ok_bind]
  have hb := bufsize_record a b h hf [] k (by omega)
  rw [List.append_nil] at hb
  rw [hb, ok_bind, if_pos (by omega)]
  rfl

end Fabio.Lemmas.C10
