import Fabio.Lemmas.C04Weights
import Mathlib.Algebra.Order.Ring.Abs
/-!
Helper lemmas for C04, slot part: `slotCount` is within one slot of `10⁴·w`, and the total is within the
number of targets of `10⁴` (over ℚ).
-/
namespace Fabio.Lemmas.C04
open Fabio Fabio.Model.Route Fabio.Model.C04

theorem truncZ_of_nonneg (q : Rat) (h : 0 ≤ q) : truncZ q = q.floor := by simp [truncZ, h]

theorem floor_nonneg_of_nonneg (q : Rat) (h : 0 ≤ q) : 0 ≤ q.floor := by
  have := (Rat.le_floor_iff (x := 0) (a := q)).mpr (by simpa using h)
  exact this

theorem slotCount_cases (w : Rat) (hw : 0 ≤ w) :
    let x : Rat := (maxSlots : Rat) * w
    (slotCount w = 1 ∧ 0 < x ∧ x < 1) ∨ (slotCount w = x.floor ∧ (0 < w → 1 ≤ x.floor)) := by
  intro x
  have hx : 0 ≤ x := mul_nonneg (by simp [maxSlots]) hw
  have hfl := Rat.floor_le x
  have hlt := Rat.lt_floor_add_one x
  have hf0 := floor_nonneg_of_nonneg x hx
  have htr : truncZ ((maxSlots : Rat) * w) = x.floor := truncZ_of_nonneg _ hx
  unfold slotCount
  simp only [htr]
  by_cases h : x.floor = 0 ∧ 0 < w
  · left
    refine ⟨by rw [if_pos h], ?_, ?_⟩
    · exact mul_pos (by simp [maxSlots]) h.2
    · rw [h.1] at hlt; simpa using hlt
  · right
    refine ⟨by rw [if_neg h], ?_⟩
    intro hw0
    have : x.floor ≠ 0 := fun h0 => h ⟨h0, hw0⟩
    omega

theorem slotCount_abs (w : Rat) (hw : 0 ≤ w) : |(slotCount w : Rat) - (maxSlots : Rat) * w| < 1 := by
  have hfl := Rat.floor_le ((maxSlots : Rat) * w)
  have hlt := Rat.lt_floor_add_one ((maxSlots : Rat) * w)
  push_cast at hlt
  rcases slotCount_cases w hw with ⟨h1, h2, h3⟩ | ⟨h1, _⟩
  · rw [h1, abs_lt]; push_cast; constructor <;> linarith
  · rw [h1, abs_lt]; constructor <;> linarith

theorem slotCount_nonneg (w : Rat) (hw : 0 ≤ w) : 0 ≤ slotCount w := by
  rcases slotCount_cases w hw with ⟨h1, _, _⟩ | ⟨h1, _⟩
  · omega
  · rw [h1]; exact floor_nonneg_of_nonneg _ (mul_nonneg (by simp [maxSlots]) hw)

theorem slotCount_pos (w : Rat) (hw : 0 < w) : 1 ≤ slotCount w := by
  rcases slotCount_cases w (le_of_lt hw) with ⟨h1, _, _⟩ | ⟨h1, h2⟩
  · omega
  · rw [h1]; exact h2 hw

theorem slotCount_zero : slotCount 0 = 0 := by
  have : Rat.floor 0 = 0 := by
    have := Rat.floor_intCast 0
    simpa using this
  simp [slotCount, truncZ, this]

theorem slots_sum_near (ws : List Rat) (h : ∀ w ∈ ws, 0 ≤ w) :
    |(((ws.map slotCount).sum : Int) : Rat) - (maxSlots : Rat) * ws.sum| ≤ (ws.length : Rat) := by
  induction ws with
  | nil => simp
  | cons w rest ih =>
    have h1 := slotCount_abs w (h w (by simp))
    have h2 := ih (fun x hx => h x (by simp [hx]))
    simp only [List.map_cons, List.sum_cons, List.length_cons]
    push_cast
    have : (slotCount w : Rat) + (((rest.map slotCount).sum : Int) : Rat) - (maxSlots : Rat) * (w + rest.sum)
        = ((slotCount w : Rat) - (maxSlots : Rat) * w) + ((((rest.map slotCount).sum : Int) : Rat) - (maxSlots : Rat) * rest.sum) := by ring
    rw [this]
    calc |_ + _| ≤ |(slotCount w : Rat) - (maxSlots : Rat) * w| + |(((rest.map slotCount).sum : Int) : Rat) - (maxSlots : Rat) * rest.sum| := abs_add_le _ _
      _ ≤ 1 + (rest.length : Rat) := by linarith
      _ = (rest.length : Rat) + 1 := by ring

end Fabio.Lemmas.C04
