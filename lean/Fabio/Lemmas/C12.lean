import Fabio.Model.C12
/-! Helper lemmas for `Props/C12.lean` (core Lean only). -/
namespace Fabio.Lemmas.C12
open Fabio Fabio.Model.C12

theorem testBit_cidrMask (ones bits i : Nat) :
    (cidrMask ones bits).testBit i = (decide (bits - ones ≤ i) && decide (i - (bits - ones) < ones)) := by
  unfold cidrMask
  rw [Nat.testBit_shiftLeft, Nat.testBit_two_pow_sub_one]

/-- Comparing two `bits`-bit numbers under a CIDR mask is comparing their leading `ones` bits. -/
theorem masked_eq_iff_prefix_eq (x y ones bits : Nat) (hx : x < 2^bits) (hy : y < 2^bits) (ho : ones ≤ bits) :
    (x &&& cidrMask ones bits = y &&& cidrMask ones bits) ↔ x >>> (bits - ones) = y >>> (bits - ones) := by
  constructor
  · intro h
    apply Nat.eq_of_testBit_eq
    intro j
    rw [Nat.testBit_shiftRight, Nat.testBit_shiftRight]
    by_cases hj : j < ones
    · have := congrArg (fun n => n.testBit (bits - ones + j)) h
      simp only [Nat.testBit_and, testBit_cidrMask] at this
      have h1 : bits - ones ≤ bits - ones + j := by omega
      have h2 : bits - ones + j - (bits - ones) < ones := by omega
      simpa [h1, h2, hj] using this
    · have hb : bits ≤ bits - ones + j := by omega
      have e1 : x < 2 ^ (bits - ones + j) := Nat.lt_of_lt_of_le hx (Nat.pow_le_pow_right (by omega) hb)
      have e2 : y < 2 ^ (bits - ones + j) := Nat.lt_of_lt_of_le hy (Nat.pow_le_pow_right (by omega) hb)
      rw [Nat.testBit_lt_two_pow e1, Nat.testBit_lt_two_pow e2]
  · intro h
    apply Nat.eq_of_testBit_eq
    intro i
    simp only [Nat.testBit_and, testBit_cidrMask]
    by_cases hi : bits - ones ≤ i
    · have := congrArg (fun n => n.testBit (i - (bits - ones))) h
      simp only [Nat.testBit_shiftRight] at this
      have e : bits - ones + (i - (bits - ones)) = i := by omega
      rw [e] at this
      rw [this]
    · simp [hi]


/-- The low four bytes of a 16-byte CIDR mask of length ≥ 96 are the 4-byte mask of length − 96 (Go: `m = m[12:]`
in `networkNumberAndMask`). -/
theorem cidrMask_low32 (ones : Nat) (h1 : 96 ≤ ones) (h2 : ones ≤ 128) :
    cidrMask ones 128 % 2^32 = cidrMask (ones - 96) 32 := by
  apply Nat.eq_of_testBit_eq
  intro i
  rw [Nat.testBit_mod_two_pow, testBit_cidrMask, testBit_cidrMask]
  have e : 32 - (ones - 96) = 128 - ones := by omega
  rw [e]
  by_cases a : i < 32 <;> by_cases b : 128 - ones ≤ i <;> simp [a, b]
  all_goals omega

/-- the 16-byte form `::ffff:a.b.c.d` of an IPv4 number -/
theorem mapped_val (nn : Nat) (hn : nn < 2^32) :
    (0xffff <<< 32 + nn) >>> 32 = 0xffff ∧ (0xffff <<< 32 + nn) % 2^32 = nn := by
  simp only [Nat.shiftLeft_eq, Nat.shiftRight_eq_div_pow]
  omega

theorem xffDenied_false_all (P : Parsers) (r : Rules) (host : List Char) (xs : List (List Char))
    (h : xffDenied P r host xs = false) :
    ∀ x ∈ xs, trimSpace x ≠ host → ∀ ip, P.parseIP (stripZone (trimSpace x)) = some ip →
      denyByIP r (some ip) = false := by
  induction xs with
  | nil => intro x hx; cases hx
  | cons y ys ih =>
    intro x hx hne ip hp
    simp only [xffDenied] at h
    cases hx with
    | head =>
      simp only [hne, ↓reduceIte, hp] at h
      split at h
      · cases h
      · simpa using ‹¬ denyByIP r (some ip) = true›
    | tail _ hmem =>
      have h' : xffDenied P r host ys = false := by
        split at h
        · exact h
        · split at h
          · exact h
          · split at h
            · cases h
            · exact h
      exact ih h' x hmem hne ip hp

def passes (env : Env) : Step → Bool
  | .lookup => env.found
  | .access => !env.denied
  | .auth => env.authorized
  | .redirect => !env.redirect
  | .upstream => true

theorem beforeUpstream_cons (s : Step) (ss : List Step) (h : s ≠ .upstream) :
    beforeUpstream (s :: ss) = s :: beforeUpstream ss := by
  cases s <;> first | exact absurd rfl h | rfl

theorem runGate_contact (env : Env) (ss : List Step) (h : (runGate env ss false).2 = true) :
    ∀ g ∈ beforeUpstream ss, passes env g = true := by
  induction ss with
  | nil => simp [runGate] at h
  | cons s ss ih =>
    cases s with
    | upstream => intro g hg; simp [beforeUpstream, List.takeWhile] at hg
    | lookup =>
      simp only [runGate] at h
      split at h
      · rename_i hf
        intro g hg
        rw [beforeUpstream_cons _ _ (by decide)] at hg
        rcases List.mem_cons.mp hg with rfl | hg
        · simpa [passes] using hf
        · exact ih h g hg
      · simp at h
    | access =>
      simp only [runGate] at h
      split at h
      · simp at h
      · rename_i hf
        intro g hg
        rw [beforeUpstream_cons _ _ (by decide)] at hg
        rcases List.mem_cons.mp hg with rfl | hg
        · simpa [passes] using hf
        · exact ih h g hg
    | auth =>
      simp only [runGate] at h
      split at h
      · rename_i hf
        intro g hg
        rw [beforeUpstream_cons _ _ (by decide)] at hg
        rcases List.mem_cons.mp hg with rfl | hg
        · simpa [passes] using hf
        · exact ih h g hg
      · simp at h
    | redirect =>
      simp only [runGate] at h
      split at h
      · simp at h
      · rename_i hf
        intro g hg
        rw [beforeUpstream_cons _ _ (by decide)] at hg
        rcases List.mem_cons.mp hg with rfl | hg
        · simpa [passes] using hf
        · exact ih h g hg

/-- The conditions a request has met when it is answered with the route's redirect. -/
def passesR (env : Env) : Step → Bool
  | .lookup => env.found
  | .access => !env.denied
  | .auth => env.authorized
  | .redirect => true
  | .upstream => true

theorem beforeRedirect_cons (s : Step) (ss : List Step) (h : s ≠ .redirect) :
    beforeRedirect (s :: ss) = s :: beforeRedirect ss := by
  cases s <;> first | exact absurd rfl h | rfl

theorem runGate_redirected (env : Env) (ss : List Step) (c : Bool) (h : (runGate env ss c).1 = .redirected) :
    ∀ g ∈ beforeRedirect ss, passesR env g = true := by
  induction ss generalizing c with
  | nil => simp [runGate] at h
  | cons s ss ih =>
    cases s with
    | redirect => intro g hg; simp [beforeRedirect, List.takeWhile] at hg
    | upstream =>
      simp only [runGate] at h
      intro g hg
      rw [beforeRedirect_cons _ _ (by decide)] at hg
      rcases List.mem_cons.mp hg with rfl | hg
      · rfl
      · exact ih _ h g hg
    | lookup =>
      simp only [runGate] at h
      split at h
      · rename_i hf
        intro g hg
        rw [beforeRedirect_cons _ _ (by decide)] at hg
        rcases List.mem_cons.mp hg with rfl | hg
        · simpa [passesR] using hf
        · exact ih _ h g hg
      · simp at h
    | access =>
      simp only [runGate] at h
      split at h
      · simp at h
      · rename_i hf
        intro g hg
        rw [beforeRedirect_cons _ _ (by decide)] at hg
        rcases List.mem_cons.mp hg with rfl | hg
        · simpa [passesR] using hf
        · exact ih _ h g hg
    | auth =>
      simp only [runGate] at h
      split at h
      · rename_i hf
        intro g hg
        rw [beforeRedirect_cons _ _ (by decide)] at hg
        rcases List.mem_cons.mp hg with rfl | hg
        · simpa [passesR] using hf
        · exact ih _ h g hg
      · simp at h

/-- Appending one attempt to a history appends its verdict, computed from the file then in force. -/
theorem runAuth_append_attempt (secrets : List (List Char × List Char)) (h : List AuthOp)
    (c : Option (List Char × List Char)) :
    runAuth secrets (h ++ [.attempt c]) = runAuth secrets h ++ [basicVerdict (fileAfter secrets h) c] := by
  induction h generalizing secrets with
  | nil => simp [runAuth, fileAfter]
  | cons op h ih =>
    cases op with
    | attempt c' => simp [runAuth, fileAfter, ih]
    | reload s => simp [runAuth, fileAfter, ih]

end Fabio.Lemmas.C12
