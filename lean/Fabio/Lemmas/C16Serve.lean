import Fabio.Model.C16Serve
import Fabio.Lemmas.C16
/-! Helper lemmas for `Props/C16Serve.lean` (core Lean only). -/
namespace Fabio.Lemmas.C16Serve
open Fabio.Model.Route (Str Table)
open Fabio.Model.C16 Fabio.Model.C16.Serve Fabio.Lemmas.C16

theorem mem_put {p : Pool} {k : Str} {c : Conn} {kc : Str × Conn} (h : kc ∈ p.put k c) :
    kc = (k, c) ∨ kc ∈ p := by
  induction p with
  | nil => simp [Pool.put] at h; exact Or.inl h
  | cons x r ih =>
    unfold Pool.put at h
    by_cases e : x.1 = k
    · simp [e] at h
      rcases h with h | h
      · exact Or.inl h
      · exact Or.inr (List.mem_cons_of_mem _ h)
    · simp [e] at h
      rcases h with h | h
      · exact Or.inr (by rw [h]; exact List.mem_cons_self)
      · rcases ih h with h | h
        · exact Or.inl h
        · exact Or.inr (List.mem_cons_of_mem _ h)

theorem mem_shutKey {p : Pool} {k : Str} {kc : Str × Conn} (h : kc ∈ p.shutKey k) :
    ∃ kc0 ∈ p, kc.1 = kc0.1 ∧ kc.2.id = kc0.2.id := by
  unfold Pool.shutKey at h
  rw [List.mem_map] at h
  obtain ⟨kc0, hm, e⟩ := h
  refine ⟨kc0, hm, ?_⟩
  by_cases hk : kc0.1 = k
  · simp [hk] at e; rw [← e]; simp [hk]
  · simp [hk] at e; rw [← e]; simp

/-- the interceptor's outcome only relabels the target when the lookup is post-composed with a function -/
theorem intercept_map {T U} (f : T → U) (pp : Str → Option Str) (lookup : Str → Str → Option T)
    (hasMD : Bool) (md : MD) (method : Str) :
    intercept pp (fun h p => (lookup h p).map f) hasMD md method =
      match intercept pp lookup hasMD md method with
      | .internal => .internal
      | .notFound => .notFound
      | .forward t => .forward (f t) := by
  unfold intercept
  cases synthReq pp hasMD md method with
  | none => rfl
  | some r =>
    simp only
    cases lookup r.host r.path <;> rfl

/-- every way a call can go -/
theorem call_cases (pp : Str → Option Str) (lookup : Table → Str → Str → Option Tgt) (gate : Gate)
    (lw : LWorld) (hasMD : Bool) (md : MD) (method : Str) (d : Bool) :
    (intercept pp (lookup lw.w.table) hasMD md method = .internal ∧
      lw.call pp lookup gate hasMD md method d = (lw, .status codeInternal)) ∨
    (intercept pp (lookup lw.w.table) hasMD md method = .notFound ∧
      lw.call pp lookup gate hasMD md method d = (lw, .status codeNotFound)) ∨
    (∃ t, intercept pp (lookup lw.w.table) hasMD md method = .forward t ∧
      ((∃ c, gate t md = some c ∧ lw.call pp lookup gate hasMD md method d = (lw, .status c)) ∨
       (gate t md = none ∧ lw.call pp lookup gate hasMD md method d = lw.dial t d))) := by
  unfold LWorld.call
  cases hi : intercept pp (lookup lw.w.table) hasMD md method with
  | internal => exact Or.inl ⟨rfl, rfl⟩
  | notFound => exact Or.inr (Or.inl ⟨rfl, rfl⟩)
  | forward t =>
    refine Or.inr (Or.inr ⟨t, rfl, ?_⟩)
    dsimp only
    cases hg : gate t md with
    | some c => exact Or.inl ⟨c, rfl, rfl⟩
    | none => exact Or.inr ⟨rfl, rfl⟩

/-- every way director + pool + dialler can go -/
theorem dial_cases (lw : LWorld) (t : Tgt) (d : Bool) :
    (∃ c, lw.w.pool.find t.key = some c ∧ c.shut = false ∧
      lw.dial t d = (lw, .proxied t.key (.reused c.id) lw.secs[c.id]?)) ∨
    (d = true ∧ lw.dial t d =
      ({ lw with w := { lw.w with pool := lw.w.pool.put t.key { id := lw.w.next }, next := lw.w.next + 1,
                                  dialLog := t.key :: lw.w.dialLog },
                 secs := lw.secs ++ [dialSecurity lw.hasCert t] },
       .proxied t.key (.dialled lw.w.next) (lw.secs ++ [dialSecurity lw.hasCert t])[lw.w.next]?)) ∨
    (d = false ∧ lw.dial t d =
      ({ lw with w := { lw.w with dialLog := t.key :: lw.w.dialLog } }, .proxied t.key .error none)) := by
  unfold LWorld.dial
  rcases get_cases lw.w t.key d with ⟨c, hf, hs, e⟩ | ⟨_, hd, e⟩ | ⟨_, hd, e⟩
  · exact Or.inl ⟨c, hf, hs, by rw [e]; simp [GetRes.conn?]⟩
  · exact Or.inr (Or.inl ⟨hd, by rw [e]; simp [GetRes.conn?]⟩)
  · exact Or.inr (Or.inr ⟨hd, by rw [e]; simp [GetRes.conn?]⟩)

end Fabio.Lemmas.C16Serve
