import Fabio.Lemmas.C01Compose
import Fabio.Model.C01Sys
/-!
Helper lemmas for `Props/C01Sys.lean`: the text `listKV` assembles, read by `route.Parse`.
-/
namespace Fabio.Lemmas.C01Sys
open Fabio Fabio.Model.C01 Fabio.Model.C01Sys
open Fabio.Model.Route (RouteDef)
open Fabio.Model.Parse

theorem splitOn_nomem (c : Char) (a : Str) (h : c ∉ a) : splitOn c a = [a] := by
  induction a with
  | nil => rfl
  | cons x xs ih =>
    have hx : x ≠ c := fun e => h (by simp [e])
    have hxs : c ∉ xs := fun e => h (List.mem_cons_of_mem _ e)
    simp only [splitOn, beq_iff_eq, hx, if_false, ih hxs]

theorem dropWhile_snoc_keep {α} (p : α → Bool) (a : α) (ha : p a = false) :
    ∀ l : List α, ∃ l', (l ++ [a]).dropWhile p = l' ++ [a] := by
  intro l
  induction l with
  | nil => exact ⟨[], by simp [ha]⟩
  | cons x xs ih =>
    obtain ⟨l', hl'⟩ := ih
    by_cases hx : p x = true
    · exact ⟨l', by simp [hx, hl']⟩
    · exact ⟨x :: xs, by simp [hx]⟩

theorem head_dropCR (s : Str) (c : Char) (hc : c ≠ '\r') (h : s.head? = some c) : (dropCR s).head? = some c := by
  unfold dropCR
  split
  · next q hq =>
    have hs : s = q.reverse ++ ['\r'] := by
      have := congrArg List.reverse hq
      simpa using this
    cases hqr : q.reverse with
    | nil => rw [hs, hqr] at h; simp at h; exact absurd h.symm hc
    | cons y ys => rw [hs, hqr] at h; simpa using h
  · exact h

theorem head_trimSpace (s : Str) (c : Char) (hc : isUniSpace c = false) (h : s.head? = some c) :
    (trimSpace s).head? = some c := by
  cases s with
  | nil => cases h
  | cons x r =>
    simp only [List.head?_cons, Option.some.injEq] at h
    subst h
    have hl : trimLeft (x :: r) = x :: r := by simp [trimLeft, List.dropWhile, hc]
    unfold trimSpace
    rw [hl]
    unfold trimRight
    rw [List.reverse_cons]
    obtain ⟨l', hl'⟩ := dropWhile_snoc_keep isUniSpace x hc r.reverse
    rw [hl']
    simp

/-- a line that starts with `#` and holds no newline is a comment for `route.Parse`, whatever follows -/
theorem comment_line_parses_empty (pf : ParseFloat) (s : Str) (h : s.head? = some '#') (hnl : '\n' ∉ s)
    (hlen : byteLen s < maxToken) : parse pf s = .ok [] := by
  have hne : s ≠ [] := by intro e; rw [e] at h; cases h
  unfold parse rawLines
  simp only [splitOn_nomem '\n' s hnl]
  have : ([s].getLast? == some []) = false := by
    simp only [List.getLast?_singleton]
    cases s with
    | nil => exact absurd rfl hne
    | cons a b => rfl
  simp only [this, Bool.false_eq_true, if_false]
  simp only [parseLines]
  rw [if_neg (by omega)]
  have h1 := head_dropCR s '#' (by decide) h
  have h2 := head_trimSpace (dropCR s) '#' (by decide) h1
  have hcm : isComment (trimSpace (dropCR s)) = true := by
    cases ht : trimSpace (dropCR s) with
    | nil => rw [ht] at h2; cases h2
    | cons a b =>
      rw [ht] at h2
      simp only [List.head?_cons, Option.some.injEq] at h2
      subst h2
      rfl
  simp [parseLine, hcm]

/-- `strings.Join(items, "\n\n")` is `strings.Join` of the items with an empty line between them -/
theorem join_blank_line : ∀ l : List Str, join ['\n', '\n'] l = join ['\n'] (l.intersperse []) := by
  intro l
  induction l with
  | nil => rfl
  | cons x xs ih =>
    cases xs with
    | nil => rfl
    | cons y r =>
      have : (x :: y :: r).intersperse [] = x :: [] :: (y :: r).intersperse [] := by
        simp [List.intersperse]
      rw [this]
      have hne : (y :: r).intersperse ([] : Str) ≠ [] := by
        cases r <;> simp [List.intersperse]
      show x ++ ['\n', '\n'] ++ join ['\n', '\n'] (y :: r) = _
      rw [ih]
      cases hi : (y :: r).intersperse ([] : Str) with
      | nil => exact absurd hi hne
      | cons z zs => simp [join]

theorem flatMap_intersperse_nil {β} (l : List Str) (f : Str → List β) (h : f [] = []) :
    (l.intersperse []).flatMap f = l.flatMap f := by
  induction l with
  | nil => rfl
  | cons x xs ih =>
    cases xs with
    | nil => rfl
    | cons y r =>
      have : (x :: y :: r).intersperse [] = x :: [] :: (y :: r).intersperse [] := by
        simp [List.intersperse]
      rw [this]
      simp only [List.flatMap_cons, h, List.nil_append, ih]

theorem mem_intersperse_nil (l : List Str) (c : Str) (h : c ∈ l.intersperse []) : c = [] ∨ c ∈ l := by
  induction l with
  | nil => cases h
  | cons x xs ih =>
    cases xs with
    | nil => right; simpa [List.intersperse] using h
    | cons y r =>
      have e : (x :: y :: r).intersperse [] = x :: [] :: (y :: r).intersperse [] := by
        simp [List.intersperse]
      rw [e] at h
      rcases List.mem_cons.1 h with rfl | h
      · right; simp
      · rcases List.mem_cons.1 h with rfl | h
        · left; rfl
        · rcases ih h with h' | h'
          · left; exact h'
          · right; exact List.mem_cons_of_mem _ h'

theorem flatMap_congr' {α β} (l : List α) (f g : α → List β) (h : ∀ a ∈ l, f a = g a) :
    l.flatMap f = l.flatMap g := by
  induction l with
  | nil => rfl
  | cons x xs ih =>
    rw [List.flatMap_cons, List.flatMap_cons, h x (by simp), ih (fun a ha => h a (List.mem_cons_of_mem _ ha))]

end Fabio.Lemmas.C01Sys
