import Fabio.Model.C07Chain
import Fabio.Model.C07Spec
import Fabio.Lemmas.C17
/-!
Helper lemmas for `Props/C07Chain.lean` (core Lean only): the call sequence `Reply.script` of the reverse proxy as
C17's `decision`, `writesOf` and `bareRun` see it.
-/
namespace Fabio.Lemmas.C07Chain
open Fabio.Model Fabio.Model.C07Chain

variable {Z : Type}

/-! ### the call sequence of the reverse proxy, seen by C17's `decision` -/

theorem decision_interim (C : C17.Cfg Z) (cf : Bool) (h : Hdr) (cs : List Nat) (rest : List C17.Op)
    (hcs : ∀ c ∈ cs, C17.informational c = true) :
    C17.decision C cf h (cs.map C17.Op.wh ++ rest) = C17.decision C cf h rest := by
  induction cs with
  | nil => rfl
  | cons c cs ih =>
    have hc : C17.informational c = true := hcs c (by simp)
    simp only [List.map_cons, List.cons_append, C17.decision, hc, if_true]
    exact ih (fun c' hc' => hcs c' (by simp [hc']))

theorem decision_adds (C : C17.Cfg Z) (cf : Bool) (h : Hdr) (l : List (String × String)) (rest : List C17.Op) :
    C17.decision C cf h (l.map (fun kv => C17.Op.add kv.1 kv.2) ++ rest) =
      C17.decision C cf (l.foldl (fun h kv => C17.hadd h kv.1 kv.2) h) rest := by
  induction l generalizing h with
  | nil => rfl
  | cons kv l ih =>
    simp only [List.map_cons, List.cons_append, C17.decision, List.foldl_cons]
    exact ih _

/-- the gzip layer takes its decision at the reverse proxy's `WriteHeader(status)`, on the header map that holds
all of the upstream's lines -/
theorem script_decision (C : C17.Cfg Z) (cf : Bool) (h : Hdr) (r : Reply) (hw : r.wellFormed) :
    C17.decision C cf h r.script = some (r.headersOn h, r.status) := by
  unfold Reply.script
  rw [decision_interim C cf h _ _ hw.1, decision_adds]
  simp [C17.decision, hw.2, Reply.headersOn]

theorem writesOf_whs (cs : List Nat) (rest : List C17.Op) :
    C17.writesOf (cs.map C17.Op.wh ++ rest) = C17.writesOf rest := by
  induction cs with
  | nil => rfl
  | cons c cs ih => simpa [C17.writesOf] using ih

theorem writesOf_adds (l : List (String × String)) (rest : List C17.Op) :
    C17.writesOf (l.map (fun kv => C17.Op.add kv.1 kv.2) ++ rest) = C17.writesOf rest := by
  induction l with
  | nil => rfl
  | cons kv l ih => simpa [C17.writesOf] using ih

theorem writesOf_ws (cs : List Bytes) : C17.writesOf (cs.map C17.Op.w) = cs := by
  induction cs with
  | nil => rfl
  | cons c cs ih => simp [C17.writesOf, ih]

theorem writesOf_script (r : Reply) : C17.writesOf r.script = r.chunks := by
  unfold Reply.script
  rw [writesOf_whs, writesOf_adds]
  simp [C17.writesOf, writesOf_ws]

/-- the reverse proxy's call sequence against the bare writer shows the reply as it is — whatever sniffer and
whatever Flusher capability: this is what `Reply.asIs` abbreviates -/
theorem bare_replay (C : C17.Cfg Z) (cf : Bool) (h0 : Hdr) (r : Reply) (hw : r.wellFormed) :
    (C17.bareRun C cf (h0, {}) r.script).2.obs (C17.bareRun C cf (h0, {}) r.script).1 = r.asIs h0 := by
  rw [Fabio.Lemmas.C17.bare_obs, script_decision C cf h0 r hw]
  simp [Reply.asIs, writesOf_script]

/-! ### `acceptsGzip` against the specification's reading of Accept-Encoding (`C07Spec.gzipAcceptable`) -/

open Fabio.Model.C07Spec in
/-- the first `q` parameter decides in both; the code asks `ParseFloat`, the specification the RFC's literals -/
theorem zeroWeightL_qParam (ps : List (List Char)) :
    C17.zeroWeightL ps = (match qParam ps with | some v => C17.zeroLit v | none => false) := by
  induction ps with
  | nil => rfl
  | cons p ps ih =>
    simp only [C17.zeroWeightL, qParam]
    split <;> simp_all

open Fabio.Model.C07Spec in
/-- every zero of the RFC's `qvalue` grammar is a zero for `strconv.ParseFloat` -/
theorem rfcZero_zeroLit (v : List Char) (h : rfcZero v = true) : C17.zeroLit v = true := by
  simp only [rfcZero, Bool.or_eq_true, beq_iff_eq] at h
  rcases h with (((h | h) | h) | h) | h <;> subst h <;> decide

open Fabio.Model.C07Spec in
/-- an element the specification reads as a refusal is one for the code -/
theorem refused_zeroWeight (e : List Char) (h : refused e = true) : C17.zeroWeight (C17.cut ';' e).2 = true := by
  unfold refused at h
  unfold C17.zeroWeight
  rw [zeroWeightL_qParam]
  split at h
  · next v hv => rw [hv]; exact rfcZero_zeroLit v h
  · cases h

/-- when the walk of `acceptsGzip` says yes, it stopped at an element that names `gzip` and is not weighted zero -/
theorem acceptsL_witness (es : List (List Char)) (h : C17.acceptsL es = true) :
    ∃ e ∈ es, C17.trim (C17.cut ';' e).1 = C17.encGzip.toList ∧ C17.zeroWeight (C17.cut ';' e).2 = false := by
  induction es with
  | nil => cases h
  | cons e es ih =>
    simp only [C17.acceptsL] at h
    split at h
    · next hn =>
      refine ⟨e, List.mem_cons_self, ?_, ?_⟩
      · simpa using hn
      · simpa using h
    · obtain ⟨e', hm, h1, h2⟩ := ih h
      exact ⟨e', List.mem_cons_of_mem _ hm, h1, h2⟩

open Fabio.Model.C07Spec in
theorem acceptsL_acceptableL (es : List (List Char)) (h : C17.acceptsL es = true) : acceptableL es = true := by
  obtain ⟨e, hm, hn, hz⟩ := acceptsL_witness es h
  have hnamed : namesCoding "gzip".toList e = true := by
    simp only [namesCoding, hn]; decide
  have hnr : refused e = false := by
    cases hr : refused e with
    | false => rfl
    | true => rw [refused_zeroWeight e hr] at hz; cases hz
  have hin : e ∈ es.filter (namesCoding "gzip".toList) := List.mem_filter.mpr ⟨hm, hnamed⟩
  unfold acceptableL
  have hne : (es.filter (namesCoding "gzip".toList)).isEmpty = false := by
    cases hl : es.filter (namesCoding "gzip".toList) with
    | nil => rw [hl] at hin; cases hin
    | cons _ _ => rfl
  simp only [hne]
  exact List.any_eq_true.mpr ⟨e, hin, by simp [hnr]⟩

end Fabio.Lemmas.C07Chain
