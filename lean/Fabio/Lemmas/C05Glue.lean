import Fabio.Model.C05Glue
import Fabio.Lemmas.C05Text
import Fabio.Lemmas.C05Del
import Fabio.Lemmas.C05Main
/-!
C05, round 3 — lemmas about the glue model (`Model/C05Glue.lean`): the two readers of the command language
agree, non-finite weights never reach a table, option-derived fields survive the round trip, the admin listing
enumerates the table. Core Lean only.
-/
namespace Fabio.Lemmas.C05Glue
open Fabio Fabio.Model.Route Fabio.Model.Parse Fabio.Model.C05Spec Fabio.Model.C05Glue
open Fabio.Lemmas.C05Text

/-! ### `Parse` is the generic scanner with the limit and `dropCR` -/

theorem parseLines_eq_scan (pf : ParseFloat) (i : Nat) (ls : List Str) :
    parseLines pf i ls = scan true (fun raw => parseLine pf (dropCR raw)) i ls := by
  induction ls generalizing i with
  | nil => rfl
  | cons raw rest ih =>
    simp only [parseLines, scan, Bool.true_and, decide_eq_true_eq]
    split
    · rfl
    · rw [ih]
      rcases parseLine pf (dropCR raw) with (e | v) | (_ | d) <;> try rfl
      generalize scan true (fun raw => parseLine pf (dropCR raw)) (i + 1) rest = x
      cases x <;> rfl

/-! ### `TrimSpace` swallows the `\r` that `dropCR` removes -/

theorem dropWhile_append_single (p : Char → Bool) (s : Str) (c : Char) (hc : p c = true) :
    (s ++ [c]).dropWhile p = if s.dropWhile p = [] then [] else s.dropWhile p ++ [c] := by
  induction s with
  | nil => simp [List.dropWhile, hc]
  | cons x xs ih =>
    simp only [List.cons_append, List.dropWhile_cons]
    cases hx : p x with
    | true => simpa using ih
    | false => simp

theorem trimSpace_append_space (s : Str) (c : Char) (hc : isUniSpace c = true) :
    trimSpace (s ++ [c]) = trimSpace s := by
  unfold trimSpace trimLeft
  rw [dropWhile_append_single isUniSpace s c hc]
  split
  · next h => rw [h]
  · unfold trimRight
    rw [List.reverse_append]
    simp [hc]

theorem dropCR_eq (s : Str) : dropCR s = s ∨ s = dropCR s ++ ['\r'] := by
  unfold dropCR
  split
  · next r heq =>
    right
    have : s = (('\r' :: r)).reverse := by rw [← heq, List.reverse_reverse]
    rw [this]; simp
  · left; rfl

theorem trimSpace_dropCR (s : Str) : trimSpace (dropCR s) = trimSpace s := by
  rcases dropCR_eq s with h | h
  · rw [h]
  · conv => rhs; rw [h]
    rw [trimSpace_append_space _ _ (by decide)]

theorem parseLine_dropCR (pf : ParseFloat) (s : Str) : parseLine pf (dropCR s) = parseLine pf s := by
  unfold parseLine
  rw [trimSpace_dropCR]

theorem parseLineW_dropCR (pf : ParseFloat) (s : Str) : parseLineW pf (dropCR s) = parseLineW pf s := by
  unfold parseLineW
  rw [parseLine_dropCR, trimSpace_dropCR]

/-! ### what a line is, independently of the float parser -/

inductive Shape where
  | skip
  | err (e : SynErr)
  | plain (d : RouteDef)
  | weighted (w : Str) (mk : Rat → RouteDef)

/-- the dispatch of `Parse` and the three command parsers on a trimmed line, with the weight left open -/
def shape (s : Str) : Shape :=
  if isComment s || isBlank s then .skip
  else if (head kAdd s).isSome then
    (match matchAdd s with
     | none => .err .addInvalid
     | some m => .weighted m.weight (fun w =>
         { cmd := .add, service := m.service, src := m.src, dst := m.dst, weight := w,
           tags := parseTags m.tags, opts := parseOpts m.opts }))
  else if (head kDel s).isSome then
    (match matchDelSvcTags s with
     | some (service, tags) => .plain { cmd := .del, service, tags := parseTags tags }
     | none =>
       match matchDelTags s with
       | some tags => .plain { cmd := .del, tags := parseTags tags }
       | none =>
         match matchDel s with
         | some (service, src, dst) => .plain { cmd := .del, service, src, dst }
         | none => .err .delInvalid)
  else if (head kWeight s).isSome then
    (match matchWeightSvc s with
     | some (service, src, w, tags) => .weighted w (fun q => { cmd := .weight, service, src, weight := q, tags := parseTags tags })
     | none =>
       match matchWeightSrc s with
       | some (src, w, tags) => .weighted w (fun q => { cmd := .weight, src, weight := q, tags := parseTags tags })
       | none => .err .weightInvalid)
  else .err .routeExpected

def runShape (pf : ParseFloat) : Shape → Except LineErr (Option RouteDef)
  | .skip => .ok none
  | .err e => .error (.syn e)
  | .plain d => .ok (some d)
  | .weighted w mk =>
    match parseWeight pf w with
    | .ok q => .ok (some (mk q))
    | .error e => .error e

theorem parseLine_shape (pf : ParseFloat) (line : Str) :
    parseLine pf line = runShape pf (shape (trimSpace line)) := by
  unfold parseLine shape
  generalize trimSpace line = s
  dsimp only
  split
  · rfl
  · split
    · unfold parseRouteAdd
      cases matchAdd s with
      | none => rfl
      | some m =>
        simp only [runShape]
        cases parseWeight pf m.weight <;> rfl
    · split
      · unfold parseRouteDel
        cases matchDelSvcTags s with
        | some st => obtain ⟨a, b⟩ := st; rfl
        | none =>
          cases matchDelTags s with
          | some tg => rfl
          | none =>
            cases matchDel s with
            | some x => obtain ⟨a, b, c⟩ := x; rfl
            | none => rfl
      · split
        · unfold parseRouteWeight
          cases matchWeightSvc s with
          | some x =>
            obtain ⟨a, b, c, d⟩ := x
            simp only [runShape]
            cases parseWeight pf c <;> rfl
          | none =>
            cases matchWeightSrc s with
            | some x =>
              obtain ⟨a, b, c⟩ := x
              simp only [runShape]
              cases parseWeight pf b <;> rfl
            | none => rfl
        · rfl

theorem weightTok_shape (s : Str) :
    weightTok s = (match shape s with
      | .weighted w _ => w
      | _ => []) := by
  unfold weightTok shape
  split
  · rfl
  · split
    · cases matchAdd s <;> rfl
    · split
      · cases matchDelSvcTags s with
        | some st => rfl
        | none =>
          cases matchDelTags s with
          | some tg => rfl
          | none => cases matchDel s <;> rfl
      · split
        · cases matchWeightSvc s with
          | some x => rfl
          | none => cases matchWeightSrc s <;> rfl
        · rfl

theorem shape_weighted_cmd {s w : Str} {mk : Rat → RouteDef} (h : shape s = .weighted w mk) (q : Rat) :
    ((mk q).cmd = .add ∨ (mk q).cmd = .weight) ∧ (mk q).weight = q ∧ ∀ q', { mk q with weight := q' } = mk q' := by
  unfold shape at h
  split at h
  · cases h
  · split at h
    · cases hm : matchAdd s with
      | none => rw [hm] at h; cases h
      | some m => rw [hm] at h; injection h with _ h2; subst h2; exact ⟨.inl rfl, rfl, fun _ => rfl⟩
    · split at h
      · cases h1 : matchDelSvcTags s with
        | some st => rw [h1] at h; cases h
        | none =>
          rw [h1] at h
          cases h2 : matchDelTags s with
          | some tg => rw [h2] at h; cases h
          | none =>
            rw [h2] at h
            cases h3 : matchDel s with
            | some x => rw [h3] at h; cases h
            | none => rw [h3] at h; cases h
      · split at h
        · cases h1 : matchWeightSvc s with
          | some x =>
            rw [h1] at h; obtain ⟨a, b, c, d⟩ := x
            injection h with _ h2; subst h2; exact ⟨.inr rfl, rfl, fun _ => rfl⟩
          | none =>
            rw [h1] at h
            cases h2 : matchWeightSrc s with
            | some x =>
              rw [h2] at h; obtain ⟨a, b, c⟩ := x
              injection h with _ h3; subst h3; exact ⟨.inr rfl, rfl, fun _ => rfl⟩
            | none => rw [h2] at h; cases h
        · cases h

/-! ### the float parser matters only through `parseWeight` -/

theorem parseWeight_finPf (pf : ParseFloat) (w : Str) :
    parseWeight (finPf pf) w =
      (match parseWeight pf w with
       | .ok q => .ok q
       | .error (.syn e) => .error (.syn e)
       | .error (.nonFinite _) => .ok 0) := by
  unfold parseWeight finPf
  split
  · rfl
  · cases pf w with
    | none => rfl
    | some v => cases v <;> rfl

theorem parseWeight_nonFinite {pf : ParseFloat} {w : Str} {v : F64} (h : parseWeight pf w = .error (.nonFinite v)) :
    nonFiniteTok pf w = true := by
  unfold parseWeight at h
  unfold nonFiniteTok
  split at h
  · cases h
  · next hne =>
    cases hp : pf w with
    | none => rw [hp] at h; cases h
    | some x =>
      rw [hp] at h
      cases x with
      | fin q => cases h
      | nan => simp [hne]
      | posInf => simp [hne]
      | negInf => simp [hne]

theorem parseWeight_ok {pf : ParseFloat} {w : Str} {q : Rat} (h : parseWeight pf w = .ok q) :
    nonFiniteTok pf w = false := by
  unfold parseWeight at h
  unfold nonFiniteTok
  split at h
  · next he => simp [he]
  · cases hp : pf w with
    | none => rw [hp] at h; cases h
    | some x =>
      rw [hp] at h
      cases x with
      | fin q => simp
      | nan => cases h
      | posInf => cases h
      | negInf => cases h

theorem parseWeight_syn {pf : ParseFloat} {w : Str} {e : SynErr} (h : parseWeight pf w = .error (.syn e)) :
    nonFiniteTok pf w = false := by
  unfold parseWeight at h
  unfold nonFiniteTok
  split at h
  · cases h
  · cases hp : pf w with
    | none => simp
    | some x =>
      rw [hp] at h
      cases x <;> cases h

/-- a line `Parse` accepts is read by the weight-blind parser to the same definition -/
theorem line_ok {pf : ParseFloat} {l : Str} {r : Option RouteDef} (h : parseLine pf l = .ok r) :
    parseLine (finPf pf) l = .ok r := by
  rw [parseLine_shape] at h ⊢
  cases hs : shape (trimSpace l) with
  | skip => rw [hs] at h; exact h
  | err e => rw [hs] at h; cases h
  | plain d => rw [hs] at h; exact h
  | weighted w mk =>
    rw [hs] at h
    simp only [runShape] at h ⊢
    rw [parseWeight_finPf]
    cases hw : parseWeight pf w with
    | ok q => rw [hw] at h; exact h
    | error e => rw [hw] at h; cases h

theorem line_syn {pf : ParseFloat} {l : Str} {e : SynErr} (h : parseLine pf l = .error (.syn e)) :
    parseLine (finPf pf) l = .error (.syn e) := by
  rw [parseLine_shape] at h ⊢
  cases hs : shape (trimSpace l) with
  | skip => rw [hs] at h; cases h
  | err e => rw [hs] at h; exact h
  | plain d => rw [hs] at h; cases h
  | weighted w mk =>
    rw [hs] at h
    simp only [runShape] at h ⊢
    rw [parseWeight_finPf]
    cases hw : parseWeight pf w with
    | ok q => rw [hw] at h; cases h
    | error e' =>
      rw [hw] at h
      cases e' with
      | syn e'' => exact h
      | nonFinite v => cases h

/-- a line `Parse` stops at because of a non-finite weight is an `add` or `weight` command for the weight-blind
parser, flagged as carrying a non-finite weight -/
theorem line_nonFinite {pf : ParseFloat} {l : Str} {v : F64} (h : parseLine pf l = .error (.nonFinite v)) :
    ∃ d, parseLine (finPf pf) l = .ok (some d) ∧ (d.cmd = .add ∨ d.cmd = .weight) ∧
      nonFiniteTok pf (weightTok (trimSpace l)) = true := by
  rw [parseLine_shape] at h
  rw [parseLine_shape, weightTok_shape]
  cases hs : shape (trimSpace l) with
  | skip => rw [hs] at h; cases h
  | err e => rw [hs] at h; cases h
  | plain d => rw [hs] at h; cases h
  | weighted w mk =>
    rw [hs] at h
    simp only [runShape] at h ⊢
    rw [parseWeight_finPf]
    cases hw : parseWeight pf w with
    | ok q => rw [hw] at h; cases h
    | error e' =>
      rw [hw] at h
      cases e' with
      | syn e'' => cases h
      | nonFinite v' =>
        exact ⟨mk 0, rfl, (shape_weighted_cmd hs 0).1, parseWeight_nonFinite hw⟩

theorem line_fin_ok {pf : ParseFloat} {l : Str} {r : Option RouteDef} (h : parseLine (finPf pf) l = .ok r) :
    parseLine pf l = .ok r ∨ ∃ v, parseLine pf l = .error (.nonFinite v) := by
  rw [parseLine_shape] at h ⊢
  cases hs : shape (trimSpace l) with
  | skip => rw [hs] at h; exact .inl h
  | err e => rw [hs] at h; cases h
  | plain d => rw [hs] at h; exact .inl h
  | weighted w mk =>
    rw [hs] at h
    simp only [runShape] at h ⊢
    rw [parseWeight_finPf] at h
    cases hw : parseWeight pf w with
    | ok q => rw [hw] at h; exact .inl h
    | error e' =>
      cases e' with
      | syn e'' => rw [hw] at h; cases h
      | nonFinite v => exact .inr ⟨v, rfl⟩

theorem line_fin_err {pf : ParseFloat} {l : Str} {e : LineErr} (h : parseLine (finPf pf) l = .error e) :
    parseLine pf l = .error e := by
  rw [parseLine_shape] at h ⊢
  cases hs : shape (trimSpace l) with
  | skip => rw [hs] at h; cases h
  | err e => rw [hs] at h; exact h
  | plain d => rw [hs] at h; cases h
  | weighted w mk =>
    rw [hs] at h
    simp only [runShape] at h ⊢
    rw [parseWeight_finPf] at h
    cases hw : parseWeight pf w with
    | ok q => rw [hw] at h; cases h
    | error e' =>
      rw [hw] at h
      cases e' with
      | syn e'' => exact h
      | nonFinite v => cases h

/-- a line `Parse` accepts carries no non-finite weight -/
theorem lineW_ok {pf : ParseFloat} {l : Str} {d : RouteDef} (h : parseLine pf l = .ok (some d)) :
    parseLineW pf l = .ok (some { d, bad := false }) := by
  unfold parseLineW
  rw [line_ok h]
  simp only
  rw [weightTok_shape]
  rw [parseLine_shape] at h
  cases hs : shape (trimSpace l) with
  | skip => rw [hs] at h; cases h
  | err e => rw [hs] at h; cases h
  | plain d' => simp [nonFiniteTok]
  | weighted w mk =>
    rw [hs] at h
    simp only [runShape] at h
    cases hw : parseWeight pf w with
    | ok q => simp only; rw [parseWeight_ok hw]
    | error e => rw [hw] at h; cases h

theorem lineW_none {pf : ParseFloat} {l : Str} (h : parseLine pf l = .ok none) : parseLineW pf l = .ok none := by
  unfold parseLineW
  rw [line_ok h]

theorem lineW_syn {pf : ParseFloat} {l : Str} {e : SynErr} (h : parseLine pf l = .error (.syn e)) :
    parseLineW pf l = .error (.syn e) := by
  unfold parseLineW
  rw [line_syn h]

/-! ### scanning: one step, a trailing blank piece, transfer between two per-line functions -/

theorem byteLen_nil_lt : ¬ (maxToken ≤ byteLen []) := by decide

theorem scan_cons {α : Type} (lim : Bool) (f : Str → Except LineErr (Option α)) (i : Nat) (raw : Str) (rest : List Str) :
    scan lim f i (raw :: rest) =
      if lim && decide (maxToken ≤ byteLen raw) then .error (.tooLong i) else
      match f raw with
      | .error (.syn e) => .error (.syn i e)
      | .error (.nonFinite v) => .error (.nonFinite i v)
      | .ok none => scan lim f (i+1) rest
      | .ok (some d) =>
        match scan lim f (i+1) rest with
        | .error e => .error e
        | .ok ds => .ok (d :: ds) := by
  rw [scan]; rfl

theorem scan_append_blank {α : Type} (lim : Bool) (f : Str → Except LineErr (Option α)) (hf : f [] = .ok none)
    (i : Nat) (ls : List Str) : scan lim f i (ls ++ [[]]) = scan lim f i ls := by
  induction ls generalizing i with
  | nil =>
    simp only [List.nil_append, scan_cons, hf]
    have : (lim && decide (maxToken ≤ byteLen [])) = false := by
      cases lim <;> simp [byteLen_nil_lt]
    rw [this]; rfl
  | cons raw rest ih =>
    simp only [List.cons_append, scan_cons, ih]

theorem parseLine_nil (pf : ParseFloat) : parseLine pf [] = .ok none := by
  rw [parseLine_shape]; rfl

theorem parseLineW_nil (pf : ParseFloat) : parseLineW pf [] = .ok none := by
  unfold parseLineW; rw [parseLine_nil]

/-- `strings.Split(text, "\n")` is the scanner's line list, possibly followed by one empty piece -/
theorem splitOn_rawLines (text : Str) :
    splitOn '\n' text = rawLines text ∨ splitOn '\n' text = rawLines text ++ [[]] := by
  unfold rawLines
  dsimp only
  split
  · next h =>
    right
    have hne : splitOn '\n' text ≠ [] := by intro h0; rw [h0] at h; simp at h
    have h2 := List.dropLast_concat_getLast hne
    rw [List.getLast?_eq_some_getLast hne] at h
    have h : (splitOn '\n' text).getLast hne = [] := by simpa using h
    rw [h] at h2; exact h2.symm
  · left; rfl

/-- what is known about two per-line functions `f` (scanned with the limit `lim`) and `g` (scanned with `lim'`,
which may drop the limit): `g` repeats the successes (through `φ`) and the syntax errors of `f` -/
theorem scan_transfer {α β : Type} (f : Str → Except LineErr (Option α)) (g : Str → Except LineErr (Option β))
    (φ : α → β) (lim lim' : Bool) (hl : lim' = true → lim = true)
    (hok : ∀ raw r, f raw = .ok r → g raw = .ok (r.map φ))
    (hsyn : ∀ raw e, f raw = .error (.syn e) → g raw = .error (.syn e)) (i : Nat) (ls : List Str) :
    (∀ ds, scan lim f i ls = .ok ds → scan lim' g i ls = .ok (ds.map φ)) ∧
    (∀ j e, scan lim f i ls = .error (.syn j e) → scan lim' g i ls = .error (.syn j e)) ∧
    (∀ j, lim' = lim → scan lim f i ls = .error (.tooLong j) → scan lim' g i ls = .error (.tooLong j)) := by
  induction ls generalizing i with
  | nil =>
    refine ⟨?_, ?_, ?_⟩
    · intro ds h; simp only [scan] at h ⊢; injection h with h; subst h; rfl
    · intro j e h; simp only [scan] at h; cases h
    · intro j _ h; simp only [scan] at h; cases h
  | cons raw rest ih =>
    obtain ⟨ih1, ih2, ih3⟩ := ih (i+1)
    have hlim : (lim && decide (maxToken ≤ byteLen raw)) = false →
        (lim' && decide (maxToken ≤ byteLen raw)) = false := by
      intro h
      cases hl' : lim' with
      | false => rfl
      | true => rw [hl hl'] at h; simpa using h
    refine ⟨?_, ?_, ?_⟩
    · intro ds h
      rw [scan_cons] at h ⊢
      cases hc : (lim && decide (maxToken ≤ byteLen raw)) with
      | true => rw [hc] at h; cases h
      | false =>
        rw [hc] at h; rw [hlim hc]
        simp only [Bool.false_eq_true, if_false] at h ⊢
        cases hf : f raw with
        | error e => rw [hf] at h; cases e <;> cases h
        | ok r =>
          rw [hf] at h; rw [hok raw r hf]
          cases r with
          | none => exact ih1 ds h
          | some d =>
            simp only [Option.map] at h ⊢
            cases hr : scan lim f (i+1) rest with
            | error e => rw [hr] at h; cases h
            | ok ds' =>
              rw [hr] at h; injection h with h; subst h
              rw [ih1 ds' hr]; rfl
    · intro j e h
      rw [scan_cons] at h ⊢
      cases hc : (lim && decide (maxToken ≤ byteLen raw)) with
      | true => rw [hc] at h; cases h
      | false =>
        rw [hc] at h; rw [hlim hc]
        simp only [Bool.false_eq_true, if_false] at h ⊢
        cases hf : f raw with
        | error e' =>
          rw [hf] at h
          cases e' with
          | syn e'' =>
            rw [hsyn raw e'' hf]; dsimp only at h ⊢
            injection h with h; rw [h]
          | nonFinite v => cases h
        | ok r =>
          rw [hf] at h; rw [hok raw r hf]
          cases r with
          | none => exact ih2 j e h
          | some d =>
            simp only [Option.map] at h ⊢
            cases hr : scan lim f (i+1) rest with
            | error e' =>
              rw [hr] at h; injection h with h; subst h
              rw [ih2 j e hr]
            | ok ds' => rw [hr] at h; cases h
    · intro j hll h
      subst hll
      rw [scan_cons] at h ⊢
      cases hc : (lim' && decide (maxToken ≤ byteLen raw)) with
      | true =>
        rw [hc] at h
        simp only [if_true] at h ⊢
        injection h with h; rw [h]
      | false =>
        rw [hc] at h
        simp only [Bool.false_eq_true, if_false] at h ⊢
        cases hf : f raw with
        | error e' => rw [hf] at h; cases e' <;> cases h
        | ok r =>
          rw [hf] at h; rw [hok raw r hf]
          cases r with
          | none => exact ih3 j rfl h
          | some d =>
            simp only [Option.map] at h ⊢
            cases hr : scan lim' f (i+1) rest with
            | error e' =>
              rw [hr] at h; injection h with h; subst h
              rw [ih3 j rfl hr]
            | ok ds' => rw [hr] at h; cases h

/-! ### `ParseAliases` against `Parse` -/

/-- the per-line function of `Parse` -/
def fP (pf : ParseFloat) : Str → Except LineErr (Option RouteDef) := fun raw => parseLine pf (dropCR raw)

theorem parse_eq_scan (pf : ParseFloat) (text : Str) : parse pf text = scan true (fP pf) 1 (rawLines text) :=
  parseLines_eq_scan pf 1 (rawLines text)

/-- the final empty piece `strings.Split` keeps (and the scanner drops) is a blank line -/
theorem aliasDefs_rawLines (pf : ParseFloat) (text : Str) :
    aliasDefs pf text = scan false (parseLine (finPf pf)) 1 (rawLines text) := by
  unfold aliasDefs
  rcases splitOn_rawLines text with h | h
  · rw [h]
  · rw [h, scan_append_blank _ _ (parseLine_nil _)]

theorem alias_transfer (pf : ParseFloat) (i : Nat) (ls : List Str) :
    (∀ ds, scan true (fP pf) i ls = .ok ds → scan false (parseLine (finPf pf)) i ls = .ok ds) ∧
    (∀ j e, scan true (fP pf) i ls = .error (.syn j e) → scan false (parseLine (finPf pf)) i ls = .error (.syn j e)) := by
  have := scan_transfer (fP pf) (parseLine (finPf pf)) id true false (by intro h; cases h)
    (by
      intro raw r h
      have h' : parseLine pf raw = .ok r := by rw [← parseLine_dropCR]; exact h
      rw [line_ok h']; cases r <;> rfl)
    (by
      intro raw e h
      have h' : parseLine pf raw = .error (.syn e) := by rw [← parseLine_dropCR]; exact h
      exact line_syn h') i ls
  refine ⟨fun ds h => ?_, this.2.1⟩
  have h2 := this.1 ds h
  rwa [List.map_id] at h2

theorem scan_alias_back (pf : ParseFloat) (i : Nat) (ls : List Str) (ds : List RouteDef)
    (h : scan false (parseLine (finPf pf)) i ls = .ok ds) :
    scan true (fP pf) i ls = .ok ds ∨ (∃ j, scan true (fP pf) i ls = .error (.tooLong j)) ∨
      (∃ j v, scan true (fP pf) i ls = .error (.nonFinite j v)) := by
  induction ls generalizing i ds with
  | nil => left; simp only [scan] at h ⊢; exact h
  | cons raw rest ih =>
    rw [scan_cons] at h ⊢
    simp only [Bool.false_and, Bool.false_eq_true, if_false, Bool.true_and, decide_eq_true_eq] at h ⊢
    by_cases hc : maxToken ≤ byteLen raw
    · right; left; exact ⟨i, by rw [if_pos hc]⟩
    · rw [if_neg hc]
      have hfp : fP pf raw = parseLine pf raw := parseLine_dropCR pf raw
      rw [hfp]
      cases hg : parseLine (finPf pf) raw with
      | error e => rw [hg] at h; cases e <;> cases h
      | ok r =>
        rw [hg] at h
        rcases line_fin_ok hg with h1 | ⟨v, h1⟩
        · rw [h1]
          cases r with
          | none => exact ih (i+1) ds h
          | some d =>
            dsimp only at h ⊢
            cases hr : scan false (parseLine (finPf pf)) (i+1) rest with
            | error e => rw [hr] at h; cases h
            | ok ds' =>
              rw [hr] at h
              rcases ih (i+1) ds' hr with h2 | ⟨j, h2⟩ | ⟨j, v, h2⟩
              · left; rw [h2]; exact h
              · right; left; exact ⟨j, by rw [h2]⟩
              · right; right; exact ⟨j, v, by rw [h2]⟩
        · right; right; exact ⟨i, v, by rw [h1]⟩

/-! ### non-finite weights -/

theorem applyW_fin (env : Env) (t : Table) (x : WDef) (hb : x.bad = false) :
    applyW env t x = liftErr (applyDef env t x.d) := by
  unfold applyW applyDef
  cases hc : x.d.cmd with
  | add =>
    simp only [hb, Bool.false_eq_true, if_false]
    unfold addRoute
    split
    · rfl
    · split
      · rfl
      · rfl
  | weight =>
    simp only [hb, Bool.false_eq_true, if_false]
    unfold weighRoute
    split
    · rfl
    · rfl
  | del => rfl
  | other s => rfl

theorem foldW_fin (env : Env) (xs : List WDef) (hb : ∀ x ∈ xs, x.bad = false) (t0 : Table) :
    xs.foldlM (applyW env) t0 =
      (match (xs.map (·.d)).foldlM (applyDef env) t0 with
       | .ok t => .ok t
       | .error e => .error (.table e)) := by
  induction xs generalizing t0 with
  | nil => rfl
  | cons x rest ih =>
    simp only [List.map_cons, List.foldlM_cons]
    rw [applyW_fin env t0 x (hb x (by simp))]
    cases applyDef env t0 x.d with
    | error e => rfl
    | ok t1 => exact ih (fun y hy => hb y (List.mem_cons_of_mem _ hy)) t1

/-- without non-finite weights `newTableW` is `newTable` -/
theorem newTableW_fin (env : Env) (xs : List WDef) (hb : ∀ x ∈ xs, x.bad = false) :
    newTableW env xs =
      (match newTable env (xs.map (·.d)) with
       | .ok t => .ok t
       | .error e => .error (.table e)) := by
  unfold newTableW newTable buildFrom
  rw [foldW_fin env xs hb]
  cases (xs.map (·.d)).foldlM (applyDef env) ([] : Table) <;> rfl

/-- a command with a non-finite weight is refused on every table -/
theorem applyW_bad (env : Env) (t : Table) (x : WDef) (hb : x.bad = true) (hc : x.d.cmd = .add ∨ x.d.cmd = .weight) :
    ∃ e, applyW env t x = .error e := by
  unfold applyW
  rcases hc with hc | hc <;> rw [hc] <;> simp only [hb, if_true]
  · split
    · exact ⟨_, rfl⟩
    · split <;> exact ⟨_, rfl⟩
  · split <;> exact ⟨_, rfl⟩

theorem foldW_bad (env : Env) (xs : List WDef) (x : WDef) (hx : x ∈ xs)
    (hb : x.bad = true) (hc : x.d.cmd = .add ∨ x.d.cmd = .weight) (t0 : Table) :
    ∃ e, xs.foldlM (applyW env) t0 = .error e := by
  induction xs generalizing t0 with
  | nil => cases hx
  | cons y rest ih =>
    simp only [List.foldlM_cons]
    rcases List.mem_cons.1 hx with rfl | hx'
    · obtain ⟨e, he⟩ := applyW_bad env t0 x hb hc
      rw [he]; exact ⟨e, rfl⟩
    · cases applyW env t0 y with
      | error e => exact ⟨e, rfl⟩
      | ok t1 => exact ih hx' t1

/-- "invalid weight" is reported only for a command that carries a non-finite weight -/
theorem applyW_invalidWeight (env : Env) (t : Table) (x : WDef) (h : applyW env t x = .error .invalidWeight) :
    x.bad = true := by
  cases hb : x.bad with
  | true => rfl
  | false =>
    rw [applyW_fin env t x hb] at h
    cases hd : applyDef env t x.d with
    | ok t1 => rw [hd] at h; cases h
    | error e => rw [hd] at h; cases h

theorem parseW_transfer (pf : ParseFloat) (i : Nat) (ls : List Str) :
    (∀ ds, scan true (fP pf) i ls = .ok ds →
      scan true (fun raw => parseLineW pf (dropCR raw)) i ls = .ok (ds.map (fun d => ({ d, bad := false } : WDef)))) ∧
    (∀ j e, scan true (fP pf) i ls = .error (.syn j e) →
      scan true (fun raw => parseLineW pf (dropCR raw)) i ls = .error (.syn j e)) ∧
    (∀ j, scan true (fP pf) i ls = .error (.tooLong j) →
      scan true (fun raw => parseLineW pf (dropCR raw)) i ls = .error (.tooLong j)) := by
  have := scan_transfer (fP pf) (fun raw => parseLineW pf (dropCR raw)) (fun d => ({ d, bad := false } : WDef))
    true true (fun h => h)
    (by
      intro raw r h
      cases r with
      | none => exact lineW_none h
      | some d => exact lineW_ok h)
    (by intro raw e h; exact lineW_syn h) i ls
  exact ⟨this.1, this.2.1, fun j h => this.2.2 j rfl h⟩

theorem scan_nonFinite (pf : ParseFloat) (i : Nat) (ls : List Str) (j : Nat) (v : F64)
    (h : scan true (fP pf) i ls = .error (.nonFinite j v)) :
    (∃ e, scan true (fun raw => parseLineW pf (dropCR raw)) i ls = .error e) ∨
    (∃ xs, scan true (fun raw => parseLineW pf (dropCR raw)) i ls = .ok xs ∧
      ∃ x ∈ xs, x.bad = true ∧ (x.d.cmd = .add ∨ x.d.cmd = .weight)) := by
  induction ls generalizing i with
  | nil => simp only [scan] at h; cases h
  | cons raw rest ih =>
    rw [scan_cons] at h ⊢
    by_cases hc : (true && decide (maxToken ≤ byteLen raw)) = true
    · rw [if_pos hc] at h; cases h
    · rw [if_neg hc] at h ⊢
      cases hf : fP pf raw with
      | error e =>
        rw [hf] at h
        cases e with
        | syn e' => cases h
        | nonFinite v' =>
          obtain ⟨d, hd, hcmd, hbad⟩ := line_nonFinite (pf := pf) (l := dropCR raw) hf
          have hw : parseLineW pf (dropCR raw) = .ok (some { d, bad := true }) := by
            unfold parseLineW; rw [hd]; dsimp only; rw [hbad]
          rw [hw]; dsimp only
          cases hr : scan true (fun raw => parseLineW pf (dropCR raw)) (i+1) rest with
          | error e => left; exact ⟨e, rfl⟩
          | ok xs => right; exact ⟨_, rfl, { d, bad := true }, by simp, rfl, hcmd⟩
      | ok r =>
        rw [hf] at h
        cases r with
        | none =>
          rw [lineW_none hf]
          exact ih (i+1) h
        | some d =>
          rw [lineW_ok hf]
          dsimp only at h ⊢
          cases hr : scan true (fP pf) (i+1) rest with
          | ok ds => rw [hr] at h; cases h
          | error e =>
            rw [hr] at h
            injection h with h; subst h
            rcases ih (i+1) hr with ⟨e, he⟩ | ⟨xs, hxs, x, hx, hb, hcmd⟩
            · left; rw [he]; exact ⟨e, rfl⟩
            · right; rw [hxs]; exact ⟨_, rfl, x, List.mem_cons_of_mem _ hx, hb, hcmd⟩

/-! ### refinement of the spec machine, total over float64 weights -/

theorem applyW_ok {env : Env} {t t1 : Table} {x : WDef} (h : applyW env t x = .ok t1) : applyDef env t x.d = .ok t1 := by
  unfold applyW at h
  unfold applyDef
  cases hc : x.d.cmd with
  | add =>
    rw [hc] at h; dsimp only at h ⊢
    split at h
    · cases h
    · split at h
      · cases h
      · split at h
        · cases h
        · cases ha : addRoute env t x.d with
          | ok t2 => rw [ha] at h; injection h with h; rw [h]
          | error e => rw [ha] at h; cases h
  | weight =>
    rw [hc] at h; dsimp only at h ⊢
    split at h
    · cases h
    · split at h
      · cases h
      · cases ha : weighRoute t x.d with
        | ok t2 => rw [ha] at h; injection h with h; rw [h]
        | error e => rw [ha] at h; cases h
  | del =>
    rw [hc] at h; dsimp only at h ⊢
    unfold applyDef at h; rw [hc] at h; dsimp only at h
    cases ha : delRoute env t x.d with
    | ok t2 => rw [ha] at h; injection h with h; rw [h]
    | error e => rw [ha] at h; cases h
  | other s =>
    rw [hc] at h; dsimp only at h
    unfold applyDef at h; rw [hc] at h; cases h

theorem map_liftErr (r : Except Err Table) : (liftErr r).map abs = liftSpec (r.map abs) := by
  cases r <;> rfl

theorem applyW_refines {env : Env} {t : Table} (x : WDef) (hg : C05Main.Good env t) :
    (applyW env t x).map abs = specApplyW env (abs t) x := by
  unfold applyW specApplyW
  cases hc : x.d.cmd with
  | add =>
    dsimp only
    split
    · rfl
    · split
      · rfl
      · split
        · rfl
        · rw [map_liftErr, C05Add.add_refines hg.inv hg.hosts]
  | weight =>
    dsimp only
    split
    · rfl
    · split
      · rfl
      · rw [map_liftErr, C05Weight.weigh_refines hg.inv]
  | del =>
    dsimp only
    rw [map_liftErr, C05Main.apply_refines hg]
  | other s =>
    dsimp only
    rw [map_liftErr, C05Main.apply_refines hg]

theorem foldW_refines {env : Env} (xs : List WDef) : ∀ {t : Table}, C05Main.Good env t →
    (xs.foldlM (applyW env) t).map abs = xs.foldlM (specApplyW env) (abs t) := by
  induction xs with
  | nil => intro t _; rfl
  | cons x rest ih =>
    intro t hg
    rw [List.foldlM_cons, List.foldlM_cons]
    have hr := applyW_refines x hg
    cases ha : applyW env t x with
    | error e =>
      rw [ha] at hr
      simp only [Except.map] at hr
      rw [← hr]; rfl
    | ok t2 =>
      rw [ha] at hr
      simp only [Except.map] at hr
      rw [← hr]
      simp only [bind, Except.bind]
      exact ih (C05Main.good_apply hg (applyW_ok ha))

theorem goodW_fold {env : Env} (xs : List WDef) : ∀ {t t1 : Table}, C05Main.Good env t →
    xs.foldlM (applyW env) t = .ok t1 → C05Main.Good env t1 := by
  induction xs with
  | nil => intro t t1 hg h; simp [List.foldlM, pure, Except.pure] at h; subst h; exact hg
  | cons x rest ih =>
    intro t t1 hg h
    rw [List.foldlM_cons] at h
    cases ha : applyW env t x with
    | error e => rw [ha] at h; simp [bind, Except.bind] at h
    | ok t2 =>
      rw [ha] at h
      simp only [bind, Except.bind] at h
      exact ih (C05Main.good_apply hg (applyW_ok ha)) h

/-- **refinement**, total over float64 weights -/
theorem refinesW_spec (env : Env) (xs : List WDef) : (newTableW env xs).map abs = specRunW env xs := by
  unfold newTableW specRunW
  rw [← C05Main.abs_nil, ← foldW_refines xs C05Main.good_nil]
  cases hf : xs.foldlM (applyW env) ([] : Table) with
  | error e => rfl
  | ok t0 =>
    simp only [Except.map]
    have := C05Weight.abs_sort (goodW_fold xs C05Main.good_nil hf).inv.wf
    unfold C05Weight.sortTable at this
    rw [this]

/-! ### option-derived fields -/

theorem lookup_cons' (k : Str) (x : Str × Str) (xs : List (Str × Str)) :
    (x :: xs).lookup k = if k = x.1 then some x.2 else xs.lookup k := by
  obtain ⟨a, b⟩ := x
  rw [List.lookup_cons]
  by_cases h : k = a
  · subst h; simp
  · have : (k == a) = false := by simpa using h
    rw [this]; simp [h]

theorem redirect_range (s : Str) : redirectCode s = 0 ∨ (300 ≤ redirectCode s ∧ redirectCode s ≤ 399) := by
  unfold redirectCode
  generalize stripPlus s = ds
  dsimp only
  split
  · left; rfl
  · split
    · next h => right; simpa using h
    · left; rfl

theorem lookup_optInsert (kv : Str × Str) (m : List (Str × Str)) (k : Str) :
    (optInsert kv m).lookup k = if k = kv.1 then some kv.2 else m.lookup k := by
  induction m with
  | nil =>
    simp only [optInsert, lookup_cons', List.lookup_nil]
  | cons x xs ih =>
    unfold optInsert
    split
    · next he =>
      have he : kv.1 = x.1 := by simpa using he
      simp only [lookup_cons']
      by_cases h : k = kv.1
      · simp [h]
      · have : ¬ k = x.1 := by rw [← he]; exact h
        simp [h, this]
    · next hne =>
      have hne : ¬ kv.1 = x.1 := by simpa using hne
      split
      · simp only [lookup_cons']
      · simp only [lookup_cons', ih]
        by_cases h : k = kv.1
        · subst h; simp [hne]
        · simp [h]

theorem lookup_none_of_not_mem (k : Str) (l : List (Str × Str)) (h : k ∉ l.map (·.1)) : l.lookup k = none := by
  induction l with
  | nil => rfl
  | cons x xs ih =>
    simp only [List.map_cons, List.mem_cons, not_or] at h
    rw [lookup_cons', if_neg h.1]; exact ih h.2

theorem lookup_foldl_optInsert (ps acc : List (Str × Str)) (k : Str) (hn : (ps.map (·.1)).Nodup) :
    (ps.foldl (fun m kv => optInsert kv m) acc).lookup k =
      (match ps.lookup k with
       | some v => some v
       | none => acc.lookup k) := by
  induction ps generalizing acc with
  | nil => rfl
  | cons kv rest ih =>
    simp only [List.map_cons, List.nodup_cons] at hn
    simp only [List.foldl_cons]
    rw [ih _ hn.2, lookup_optInsert, lookup_cons']
    by_cases h : k = kv.1
    · subst h
      rw [lookup_none_of_not_mem _ _ hn.1]
      simp
    · rw [if_neg h, if_neg h]

/-- sorting the options by key (what the text rendering and `parseOpts` do) keeps every lookup -/
theorem lookup_sortOpts (o : List (Str × Str)) (k : Str) (hn : (o.map (·.1)).Nodup) :
    (sortOpts o).lookup k = o.lookup k := by
  unfold sortOpts optsOfPairs
  rw [lookup_foldl_optInsert o [] k hn]
  cases o.lookup k <;> rfl

theorem derive_sortOpts (o : List (Str × Str)) (hn : (o.map (·.1)).Nodup) : derive (sortOpts o) = derive o := by
  unfold derive optGet
  simp only [lookup_sortOpts o _ hn]

/-! ### the admin endpoint -/

theorem splitOn_ne_nil (c : Char) (s : Str) : splitOn c s ≠ [] := by
  cases s with
  | nil => simp [splitOn]
  | cons x xs =>
    unfold splitOn
    split
    · simp
    · split <;> simp

theorem splitOn_append_sep (c : Char) (s : Str) : splitOn c (s ++ [c]) = splitOn c s ++ [[]] := by
  induction s with
  | nil => simp [splitOn]
  | cons x xs ih =>
    simp only [List.cons_append]
    rw [splitOn, splitOn]
    split
    · rw [ih]; rfl
    · rw [ih]
      cases hs : splitOn c xs with
      | nil => exact absurd hs (splitOn_ne_nil c xs)
      | cons h t => rfl

theorem rawLines_append_nl (text : Str) : rawLines (text ++ ['\n']) = splitOn '\n' text := by
  unfold rawLines
  dsimp only
  rw [splitOn_append_sep]
  simp

/-- a newline after the text changes nothing for `Parse`: what `/api/routes?raw` prints (`Fprintln`) reads
exactly like `t.String()` -/
theorem parse_append_nl (pf : ParseFloat) (text : Str) : parse pf (text ++ ['\n']) = parse pf text := by
  rw [parse_eq_scan, parse_eq_scan, rawLines_append_nl]
  rcases splitOn_rawLines text with h | h
  · rw [h]
  · rw [h, scan_append_blank]
    show parseLine pf (dropCR []) = .ok none
    exact parseLine_nil pf

theorem mem_insertHostAsc (h x : Str) (l : List Str) : x ∈ insertHostAsc h l ↔ x = h ∨ x ∈ l := by
  induction l with
  | nil => simp [insertHostAsc]
  | cons y ys ih =>
    unfold insertHostAsc
    split
    · simp
    · simp only [List.mem_cons, ih]
      constructor
      · rintro (h1 | h1 | h1)
        · exact .inr (.inl h1)
        · exact .inl h1
        · exact .inr (.inr h1)
      · rintro (h1 | h1 | h1)
        · exact .inr (.inl h1)
        · exact .inl h1
        · exact .inr (.inr h1)

theorem mem_hostsAsc (t : Table) (x : Str) : x ∈ hostsAsc t ↔ x ∈ t.map (·.1) := by
  unfold hostsAsc
  induction t.map (·.1) with
  | nil => simp
  | cons y ys ih => simp only [List.foldr_cons, mem_insertHostAsc, ih, List.mem_cons]

/-- the JSON listing has exactly one entry per (route, target) of the table -/
theorem mem_apiRoutes (t : Table) (a : ApiRoute) :
    a ∈ apiRoutes t ↔ ∃ h r tg, r ∈ t.get h ∧ tg ∈ r.targets ∧ a = apiEntry r tg := by
  unfold apiRoutes
  simp only [List.mem_flatMap, List.mem_map]
  constructor
  · rintro ⟨h, _, r, hr, tg, htg, rfl⟩
    exact ⟨h, r, tg, hr, htg, rfl⟩
  · rintro ⟨h, r, tg, hr, htg, rfl⟩
    refine ⟨h, ?_, r, hr, tg, htg, rfl⟩
    rw [mem_hostsAsc]
    rcases C05Del.get_mem_or_nil t h with h0 | h0
    · rw [h0] at hr; cases hr
    · exact List.mem_map.2 ⟨_, h0, rfl⟩

theorem find_of_mem_nodup {rs : List Route} {r : Route} (hr : r ∈ rs) (hn : (rs.map (·.path)).Nodup) :
    findRoute rs r.path = some r := by
  induction rs with
  | nil => cases hr
  | cons x xs ih =>
    simp only [List.map_cons, List.nodup_cons] at hn
    unfold findRoute
    rw [List.find?_cons]
    rcases List.mem_cons.1 hr with rfl | hr'
    · simp
    · have : (x.path == r.path) = false := by
        have : x.path ≠ r.path := fun he => hn.1 (by rw [he]; exact List.mem_map.2 ⟨r, hr', rfl⟩)
        simpa using this
      rw [this]
      exact ih hr' hn.2

/-- … and, on a well-formed table, these are exactly the targets of the routing map `abs`, listed under the
host and path they are routed at -/
theorem api_lists_abs {t : Table} (hw : WF t) (a : ApiRoute) :
    a ∈ apiRoutes t ↔ ∃ h p, ∃ tg ∈ abs t h p, a = apiEntry ⟨h, p, abs t h p⟩ tg := by
  rw [mem_apiRoutes]
  constructor
  · rintro ⟨h, r, tg, hr, htg, rfl⟩
    rcases C05Del.get_mem_or_nil t h with h0 | h0
    · rw [h0] at hr; cases hr
    · have hhost : r.host = h := hw.hostOf _ h0 r hr
      have hf : findRoute (t.get h) r.path = some r := find_of_mem_nodup hr (hw.paths _ h0)
      have ha : abs t h r.path = r.targets := by
        show targetsAt t h r.path = _
        unfold targetsAt Table.route
        rw [hf]
      refine ⟨h, r.path, tg, by rw [ha]; exact htg, ?_⟩
      simp only [apiEntry, hhost]
  · rintro ⟨h, p, tg, htg, rfl⟩
    have : targetsAt t h p = abs t h p := rfl
    unfold abs targetsAt at htg
    cases hr : t.route h p with
    | none => rw [hr] at htg; cases htg
    | some r =>
      rw [hr] at htg
      obtain ⟨rs0, hl, hget, hm, hp⟩ := C05Del.route_some hr
      have h0 : (h, rs0) ∈ t := C05Del.mem_of_lookup hl
      have hhost : r.host = h := hw.hostOf _ h0 r hm
      refine ⟨h, r, tg, by rw [hget]; exact hm, htg, ?_⟩
      simp only [apiEntry, hhost, hp]

/-! ### the listing per host and path, in order -/

def atKey (h p : Str) (a : ApiRoute) : Bool := a.host == h && a.path == p

theorem filter_entries_ne (h p : Str) (r : Route) (hne : ¬ (r.host = h ∧ r.path = p)) :
    (r.targets.map (apiEntry r)).filter (atKey h p) = [] := by
  rw [List.filter_eq_nil_iff]
  intro a ha
  obtain ⟨tg, _, rfl⟩ := List.mem_map.1 ha
  simp only [atKey, apiEntry, Bool.and_eq_true, beq_iff_eq]
  exact hne

theorem filter_entries_eq (r : Route) :
    (r.targets.map (apiEntry r)).filter (atKey r.host r.path) = r.targets.map (apiEntry r) := by
  rw [List.filter_eq_self]
  intro a ha
  obtain ⟨tg, _, rfl⟩ := List.mem_map.1 ha
  simp [atKey, apiEntry]

theorem filter_routes (h p : Str) (rs : List Route) (hh : ∀ r ∈ rs, r.host = h) (hn : (rs.map (·.path)).Nodup) :
    (rs.flatMap (fun r => r.targets.map (apiEntry r))).filter (atKey h p) =
      (match findRoute rs p with
       | some r => r.targets.map (apiEntry r)
       | none => []) := by
  induction rs with
  | nil => rfl
  | cons x xs ih =>
    simp only [List.map_cons, List.nodup_cons] at hn
    have hx : x.host = h := hh x (by simp)
    have ih' := ih (fun r hr => hh r (List.mem_cons_of_mem _ hr)) hn.2
    rw [List.flatMap_cons, List.filter_append, ih']
    unfold findRoute
    rw [List.find?_cons]
    by_cases hp : x.path = p
    · have : (x.path == p) = true := by simpa using hp
      rw [this]
      subst hp; subst hx
      rw [filter_entries_eq]
      have hnone : List.find? (fun r => r.path == x.path) xs = none := by
        rw [List.find?_eq_none]
        intro r hr
        have : r.path ≠ x.path := fun he => hn.1 (by rw [← he]; exact List.mem_map.2 ⟨r, hr, rfl⟩)
        simpa using this
      rw [hnone]; simp
    · have : (x.path == p) = false := by simpa using hp
      rw [this, filter_entries_ne h p x (fun hc => hp hc.2)]
      simp

theorem nodup_insertHostAsc (h : Str) (l : List Str) (hn : l.Nodup) (hh : h ∉ l) : (insertHostAsc h l).Nodup := by
  induction l with
  | nil => simp [insertHostAsc]
  | cons y ys ih =>
    simp only [List.nodup_cons] at hn
    simp only [List.mem_cons, not_or] at hh
    unfold insertHostAsc
    split
    · simp only [List.nodup_cons, List.mem_cons, not_or]
      exact ⟨⟨hh.1, hh.2⟩, hn.1, hn.2⟩
    · simp only [List.nodup_cons, mem_insertHostAsc, not_or]
      exact ⟨⟨fun he => hh.1 he.symm, hn.1⟩, ih hn.2 hh.2⟩

theorem nodup_hostsAsc (t : Table) (hn : (t.map (·.1)).Nodup) : (hostsAsc t).Nodup := by
  unfold hostsAsc
  generalize t.map (·.1) = l at hn ⊢
  induction l with
  | nil => exact List.nodup_nil
  | cons y ys ih =>
    simp only [List.nodup_cons] at hn
    simp only [List.foldr_cons]
    apply nodup_insertHostAsc _ _ (ih hn.2)
    intro hm
    have : ∀ (l : List Str) (x : Str), x ∈ l.foldr insertHostAsc [] ↔ x ∈ l := by
      intro l x
      induction l with
      | nil => simp
      | cons z zs ihz => simp only [List.foldr_cons, mem_insertHostAsc, ihz, List.mem_cons]
    exact hn.1 ((this ys y).1 hm)

theorem filter_hosts (F : Str → List ApiRoute) (P : ApiRoute → Bool) (h : Str) (L : List Str) (hn : L.Nodup)
    (hF : ∀ h', h' ≠ h → (F h').filter P = []) :
    (L.flatMap F).filter P = if h ∈ L then (F h).filter P else [] := by
  induction L with
  | nil => simp
  | cons y ys ih =>
    simp only [List.nodup_cons] at hn
    rw [List.flatMap_cons, List.filter_append, ih hn.2]
    by_cases hy : y = h
    · subst hy
      simp [hn.1]
    · rw [hF y hy]
      have : (h ∈ y :: ys) ↔ h ∈ ys := by
        simp only [List.mem_cons]
        constructor
        · rintro (he | he)
          · exact absurd he.symm hy
          · exact he
        · exact .inr
      simp only [List.nil_append, this]

/-- the listing, restricted to one host and path, is the target list of the routing map there — in order -/
theorem api_at_key {t : Table} (hw : WF t) (h p : Str) :
    (apiRoutes t).filter (atKey h p) = (abs t h p).map (apiEntry ⟨h, p, abs t h p⟩) := by
  unfold apiRoutes
  have hF : ∀ h', h' ≠ h →
      ((t.get h').flatMap (fun r => r.targets.map (apiEntry r))).filter (atKey h p) = [] := by
    intro h' hne
    rw [List.filter_eq_nil_iff]
    intro a ha
    simp only [List.mem_flatMap, List.mem_map] at ha
    obtain ⟨r, hr, tg, _, rfl⟩ := ha
    rcases C05Del.get_mem_or_nil t h' with h0 | h0
    · rw [h0] at hr; cases hr
    · have : r.host = h' := hw.hostOf _ h0 r hr
      simp only [atKey, apiEntry, Bool.and_eq_true, beq_iff_eq, this]
      exact fun hc => hne hc.1
  rw [filter_hosts _ _ h _ (nodup_hostsAsc t hw.hosts) hF]
  have habs : abs t h p = (match findRoute (t.get h) p with
      | some r => r.targets
      | none => []) := by
    show targetsAt t h p = _
    unfold targetsAt Table.route
    rfl
  rcases C05Del.get_mem_or_nil t h with h0 | h0
  · -- no such host
    have : abs t h p = [] := by rw [habs, h0]; rfl
    rw [this, h0]
    split <;> rfl
  · have hmem : h ∈ hostsAsc t := (mem_hostsAsc t h).2 (List.mem_map.2 ⟨_, h0, rfl⟩)
    rw [if_pos hmem, filter_routes h p (t.get h) (hw.hostOf _ h0) (hw.paths _ h0), habs]
    cases hf : findRoute (t.get h) p with
    | none => rfl
    | some r =>
      have hr := C05Add.find_some hf
      have hhost : r.host = h := hw.hostOf _ h0 r hr.1
      simp only
      apply List.map_congr_left
      intro tg _
      simp only [apiEntry, hhost, hr.2]

end Fabio.Lemmas.C05Glue
