import Fabio.Model.C20Time
/-! C20: the civil-date function against the Gregorian day count. -/
namespace Fabio.Lemmas.C20Time
open Fabio.Model.C20Time

/-- days before year `n` of an era (years from 1 March) -/
def Y (n : Nat) : Nat := 365 * n + n / 4 - n / 100 + n / 400
def g (doe : Nat) : Nat := doe - doe / 1460 + doe / 36524 - doe / 146096
def yoeOf (doe : Nat) : Nat := g doe / 365

theorem g_step (a : Nat) : g a ≤ g (a + 1) := by
  unfold g; omega

theorem g_mono (a b : Nat) (h : a ≤ b) : g a ≤ g b := by
  induction b with
  | zero =>
    have : a = 0 := by omega
    subst this; exact Nat.le_refl _
  | succ b ih =>
    by_cases hb : a ≤ b
    · exact Nat.le_trans (ih hb) (g_step b)
    · have : a = b + 1 := by omega
      subst this; exact Nat.le_refl _

theorem yoe_mono (a b : Nat) (h : a ≤ b) : yoeOf a ≤ yoeOf b := Nat.div_le_div_right (g_mono a b h)

/-- the year formula at the first and at the last day of every year of an era -/
theorem yoe_ends : ∀ n : Fin 400, yoeOf (Y n.val) = n.val ∧ yoeOf (Y (n.val + 1) - 1) = n.val := by
  decide +kernel

theorem Y_lt_succ (n : Nat) : Y n < Y (n + 1) := by unfold Y; omega

theorem year_exists (doe k : Nat) (h : doe < Y k) : ∃ m, m < k ∧ Y m ≤ doe ∧ doe < Y (m + 1) := by
  induction k with
  | zero => simp [Y] at h
  | succ k ih =>
    by_cases hk : doe < Y k
    · obtain ⟨m, h1, h2, h3⟩ := ih hk
      exact ⟨m, by omega, h2, h3⟩
    · exact ⟨k, by omega, by omega, h⟩

/-- **the year formula is right**: for every day of an era, `yoeOf` is the year that contains it -/
theorem yoe_correct (doe : Nat) (h : doe ≤ 146096) :
    yoeOf doe ≤ 399 ∧ Y (yoeOf doe) ≤ doe ∧ doe < Y (yoeOf doe + 1) := by
  have h400 : Y 400 = 146097 := by decide
  obtain ⟨m, hm, h1, h2⟩ := year_exists doe 400 (by omega)
  obtain ⟨e1, e2⟩ := yoe_ends ⟨m, hm⟩
  simp only at e1 e2
  have l1 := yoe_mono _ _ h1
  have l2 := yoe_mono doe (Y (m + 1) - 1) (by omega)
  have : yoeOf doe = m := by omega
  rw [this]
  exact ⟨by omega, h1, h2⟩

/-- the year of the era, as a natural number with the facts that pin it down -/
theorem yoe_int (doe : Int) (h0 : 0 ≤ doe) (h1 : doe ≤ 146096) :
    ∃ n : Nat, yoeOfDoe doe = (n : Int) ∧ n ≤ 399 ∧
      (365 * n + n / 4 - n / 100 : Nat) ≤ doe.toNat ∧
      doe.toNat < (365 * (n + 1) + (n + 1) / 4 - (n + 1) / 100 + (n + 1) / 400 : Nat) := by
  obtain ⟨c1, c2, c3⟩ := yoe_correct doe.toNat (by omega)
  refine ⟨yoeOf doe.toNat, ?_, c1, ?_, ?_⟩
  · unfold yoeOfDoe yoeOf g; omega
  · unfold Y at c2; omega
  · unfold Y at c3; exact c3

/-- month and day of every day of a year: in range, and `doyOf` gives the day of the year back; the leap day (day
365 of a year from 1 March) is 29 February -/
theorem monthDay_facts : ∀ doy : Fin 366,
    1 ≤ (monthDay doy.val).1 ∧ (monthDay doy.val).1 ≤ 12 ∧ 1 ≤ (monthDay doy.val).2 ∧
    doyOf (monthDay doy.val).1 (monthDay doy.val).2 = doy.val ∧
    ((monthDay doy.val).1 ≤ 2 ↔ 306 ≤ doy.val) ∧
    (monthDay doy.val).2 ≤ (if (monthDay doy.val).1 = 2 then (if doy.val = 365 then 29 else 28)
      else if (monthDay doy.val).1 = 4 ∨ (monthDay doy.val).1 = 6 ∨ (monthDay doy.val).1 = 9 ∨ (monthDay doy.val).1 = 11 then 30 else 31) := by
  decide +kernel

/-- what `civilOfDoe` answers, in terms of the year `n` of the era and the day `k` of that year -/
theorem civilOfDoe_spec (era doe : Int) (h0 : 0 ≤ doe) (h1 : doe ≤ 146096) :
    ∃ (n : Nat) (k : Fin 366), n ≤ 399 ∧ doe = daysBeforeYear n + k.val ∧
      (k.val = 365 → (n + 1) % 4 = 0 ∧ ((n + 1) % 100 ≠ 0 ∨ (n + 1) % 400 = 0)) ∧
      civilOfDoe era doe = (if (monthDay k.val).1 ≤ 2 then (n : Int) + era * 400 + 1 else (n : Int) + era * 400,
        (monthDay k.val).1, (monthDay k.val).2) := by
  obtain ⟨n, hy, hn, c2, c3⟩ := yoe_int doe h0 h1
  have hc400 : (n + 1) / 400 = 0 ∨ n = 399 := by omega
  have hk0 : 0 ≤ doe - daysBeforeYear n := by unfold daysBeforeYear; omega
  have hk1 : doe - daysBeforeYear n ≤ 365 := by
    unfold daysBeforeYear
    rcases hc400 with h | h
    · rw [h] at c3; omega
    · subst h; omega
  refine ⟨n, ⟨(doe - daysBeforeYear n).toNat, by omega⟩, hn, ?_, ?_, ?_⟩
  · simp only; omega
  · simp only
    intro h
    unfold daysBeforeYear at h hk0 hk1
    by_cases hl4 : (n + 1) % 4 = 0
    · by_cases hl100 : (n + 1) % 100 = 0
      · by_cases hl400 : (n + 1) % 400 = 0
        · exact ⟨hl4, Or.inr hl400⟩
        · exfalso
          have : (n + 1) / 400 = 0 := by omega
          rw [this] at c3
          have q4 : (n + 1) / 4 = n / 4 + 1 := by omega
          have q100 : (n + 1) / 100 = n / 100 + 1 := by omega
          rw [q4, q100] at c3
          omega
      · exact ⟨hl4, Or.inl hl100⟩
    · exfalso
      have : (n + 1) / 400 = 0 := by omega
      rw [this] at c3
      have q4 : (n + 1) / 4 = n / 4 := by omega
      have q100 : n / 100 ≤ (n + 1) / 100 := Nat.div_le_div_right (by omega)
      rw [q4] at c3
      omega
  · have e : ((doe - daysBeforeYear n).toNat : Int) = doe - daysBeforeYear n := by omega
    simp only [civilOfDoe, hy, e]

/-- **`civilFromDays` inverts the day count**: the date it answers for day number `z` has day number `z` -/
theorem civil_roundtrip (z : Int) :
    daysFromCivil (civilFromDays z).1 (civilFromDays z).2.1 (civilFromDays z).2.2 = z := by
  unfold civilFromDays
  generalize hE : (z + 719468) / 146097 = era
  have h0 : 0 ≤ z + 719468 - era * 146097 := by omega
  have h1 : z + 719468 - era * 146097 ≤ 146096 := by omega
  obtain ⟨n, k, hn, hd, _, hc⟩ := civilOfDoe_spec era _ h0 h1
  rw [hc]
  obtain ⟨m1, m2, m3, m4, m5, m6⟩ := monthDay_facts k
  simp only [daysFromCivil]
  rw [m4]
  by_cases hm : (monthDay k.val).1 ≤ 2
  · simp only [hm, if_true]
    have e1 : ((n : Int) + era * 400 + 1 - 1) / 400 = era := by omega
    have e2 : (n : Int) + era * 400 + 1 - 1 = n + era * 400 := by omega
    rw [e2] at e1 ⊢
    rw [e1]
    have e3 : (n : Int) + era * 400 - era * 400 = n := by omega
    rw [e3]
    omega
  · simp only [hm, if_false]
    have e1 : ((n : Int) + era * 400) / 400 = era := by omega
    rw [e1]
    have e3 : (n : Int) + era * 400 - era * 400 = n := by omega
    rw [e3]
    omega

/-- **the date is a date of the calendar**: month 1…12, day 1…(length of that month in that year) -/
theorem civil_valid (z : Int) :
    1 ≤ (civilFromDays z).2.1 ∧ (civilFromDays z).2.1 ≤ 12 ∧ 1 ≤ (civilFromDays z).2.2 ∧
      (civilFromDays z).2.2 ≤ daysInMonth (civilFromDays z).1 (civilFromDays z).2.1 := by
  unfold civilFromDays
  generalize hE : (z + 719468) / 146097 = era
  have h0 : 0 ≤ z + 719468 - era * 146097 := by omega
  have h1 : z + 719468 - era * 146097 ≤ 146096 := by omega
  obtain ⟨n, k, hn, hd, hleap, hc⟩ := civilOfDoe_spec era _ h0 h1
  rw [hc]
  obtain ⟨m1, m2, m3, m4, m5, m6⟩ := monthDay_facts k
  refine ⟨m1, m2, m3, ?_⟩
  simp only [daysInMonth]
  by_cases h2 : (monthDay k.val).1 = 2
  · have hle : (monthDay k.val).1 ≤ 2 := by omega
    simp only [h2, if_true] at m6 ⊢
    simp only [show ((2 : Int) ≤ 2) from by omega, if_true]
    by_cases h365 : k.val = 365
    · obtain ⟨l1, l2⟩ := hleap h365
      have : isLeap ((n : Int) + era * 400 + 1) = true := by
        simp only [isLeap, Bool.and_eq_true, beq_iff_eq, Bool.or_eq_true, bne_iff_ne, ne_eq]
        omega
      simp only [this, if_true]
      rw [if_pos h365] at m6
      exact m6
    · rw [if_neg h365] at m6
      split <;> omega
  · simp only [h2, if_false] at m6 ⊢
    exact m6

end Fabio.Lemmas.C20Time