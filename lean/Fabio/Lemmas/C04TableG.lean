import Fabio.Lemmas.C04Table
import Fabio.Model.C04F64
/-!
`Lemmas/C04Table.lean` once more, for the route commands over an arbitrary weighing function (`Ops`,
`Model/C04F64.lean`): every route of every table `newTableG O` builds is non-empty and carries targets that came
out of `O.W`, provided `O.W` maps non-empty lists to non-empty lists. (Generated from `C04Table.lean` by
substituting the parametrised definitions; the generic plumbing lemmas are reused.)
-/
set_option linter.unusedVariables false

namespace Fabio.Lemmas.C04
open Fabio Fabio.Model.Route Fabio.Model.C04

def WeighedG (O : Ops) (r : Route) : Prop := ∃ ts, r.targets = O.W ts
def RouteOKG (O : Ops) (r : Route) : Prop := r.targets ≠ [] ∧ WeighedG O r
def TableOKG (O : Ops) (t : Table) : Prop := ∀ kv ∈ t, ∀ r ∈ kv.2, RouteOKG O r
def TableWG (O : Ops) (t : Table) : Prop := ∀ kv ∈ t, ∀ r ∈ kv.2, WeighedG O r

theorem addTarget_okG (O : Ops) (hW : ∀ ts, ts ≠ [] → O.W ts ≠ []) (r : Route) (service url : Str) (fw : Rat) (tags : List Str) (opts : List (Str × Str))
    (h : (RouteOKG O) r ∨ r.targets = []) : (RouteOKG O) (addTargetG O r service url fw tags opts) := by
  unfold addTargetG
  simp only
  generalize (if fw < 0 then (0 : Rat) else fw) = fw'
  by_cases hany : (r.targets.any (fun t => t.service == service && t.url == url && t.fixedWeight == fw' && t.tags == tags)) = true
  · rw [if_pos hany]
    rcases h with h | h
    · exact h
    · rw [h] at hany; simp at hany
  · rw [if_neg hany]
    exact ⟨hW _ (by simp), _, rfl⟩

theorem filter_weighedG (O : Ops) (hW : ∀ ts, ts ≠ [] → O.W ts ≠ []) (r : Route) (skip : Target → Bool) : (WeighedG O) (filterG O r skip) := ⟨_, rfl⟩

theorem setWeight_okG (O : Ops) (hW : ∀ ts, ts ≠ [] → O.W ts ≠ []) (r : Route) (service : Str) (w : Rat) (tags : List Str) (h : (RouteOKG O) r) :
    (RouteOKG O) (setWeightG O r service w tags).1 := by
  unfold setWeightG
  simp only
  split
  · exact h
  · refine ⟨hW _ ?_, _, rfl⟩
    intro h0
    exact h.1 (List.map_eq_nil_iff.mp h0)

theorem prune_okG (O : Ops) (hW : ∀ ts, ts ≠ [] → O.W ts ≠ []) (t : Table) (h : (TableWG O) t) : (TableOKG O) (prune t) := by
  intro kv hkv r hr
  unfold prune at hkv
  obtain ⟨hkv, _⟩ := List.mem_filter.mp hkv
  obtain ⟨kv0, hkv0, rfl⟩ := List.mem_map.mp hkv
  simp only at hr
  obtain ⟨hr, hne⟩ := List.mem_filter.mp hr
  refine ⟨?_, h kv0 hkv0 r hr⟩
  intro h0; rw [h0] at hne; simp at hne

theorem mapRoutes_weighedG (O : Ops) (hW : ∀ ts, ts ≠ [] → O.W ts ≠ []) (t : Table) (skip : Target → Bool) : (TableWG O) (mapRoutes t (fun r => filterG O r skip)) := by
  intro kv hkv r hr
  unfold mapRoutes at hkv
  obtain ⟨kv0, _, rfl⟩ := List.mem_map.mp hkv
  simp only at hr
  obtain ⟨r0, _, rfl⟩ := List.mem_map.mp hr
  exact filter_weighedG O hW r0 skip

theorem TableOKG.toW (O : Ops) {t : Table} (h : TableOKG O t) : TableWG O t := fun kv hkv r hr => (h kv hkv r hr).2

theorem del_one_okG (O : Ops) (hW : ∀ ts, ts ≠ [] → O.W ts ≠ []) (t : Table) (host : Str) (r : Route) (skip : Target → Bool) (h : (TableOKG O) t) :
    (TableOKG O) (prune (t.set host (replaceRoute (t.get host) (filterG O r skip)))) := by
  apply prune_okG O hW
  apply set_pred (WeighedG O) t host _ (TableOKG.toW O h)
  apply replaceRoute_pred (WeighedG O)
  · exact get_pred (WeighedG O) t host (TableOKG.toW O h)
  · exact filter_weighedG O hW r skip

/-! ### the three commands keep the invariant -/

theorem addRoute_okG (O : Ops) (hW : ∀ ts, ts ≠ [] → O.W ts ≠ []) (env : Env) (t t' : Table) (d : RouteDef) (h : (TableOKG O) t)
    (he : addRouteG O env t d = .ok t') : (TableOKG O) t' := by
  unfold addRouteG at he
  simp only at he
  split at he
  · cases he
  · split at he
    · cases he
    · split at he
      · cases he
      · rename_i url _
        split at he
        · split at he
          · cases he
          · split at he
            · cases he
            · cases he
              apply set_pred (RouteOKG O) t _ _ h
              intro r hr
              simp only [List.mem_singleton] at hr
              rw [hr]; exact addTarget_okG O hW _ _ _ _ _ _ (Or.inr rfl)
        · split at he
          · split at he
            · cases he
            · cases he
              apply set_pred (RouteOKG O) t _ _ h
              intro r hr
              rcases List.mem_append.mp hr with hr | hr
              · exact get_pred (RouteOKG O) t _ h r hr
              · simp only [List.mem_singleton] at hr
                rw [hr]; exact addTarget_okG O hW _ _ _ _ _ _ (Or.inr rfl)
          · rename_i r0 hf
            cases he
            apply set_pred (RouteOKG O) t _ _ h
            apply replaceRoute_pred (RouteOKG O)
            · exact get_pred (RouteOKG O) t _ h
            · exact addTarget_okG O hW _ _ _ _ _ _ (Or.inl (get_pred (RouteOKG O) t _ h r0 (findRoute_mem _ _ _ hf)))

theorem weighRoute_okG (O : Ops) (hW : ∀ ts, ts ≠ [] → O.W ts ≠ []) (t t' : Table) (d : RouteDef) (h : (TableOKG O) t)
    (he : weighRouteG O t d = .ok t') : (TableOKG O) t' := by
  unfold weighRouteG at he
  simp only at he
  split at he
  · cases he
  · split at he
    · cases he
    · rename_i r0 hr0
      split at he
      · cases he
      · cases he
        apply set_pred (RouteOKG O) t _ _ h
        apply replaceRoute_pred (RouteOKG O)
        · exact get_pred (RouteOKG O) t _ h
        · exact setWeight_okG O hW r0 _ _ _ (route_pred (RouteOKG O) t _ _ r0 h hr0)

theorem delRoute_okG (O : Ops) (hW : ∀ ts, ts ≠ [] → O.W ts ≠ []) (env : Env) (t t' : Table) (d : RouteDef) (h : (TableOKG O) t)
    (he : delRouteG O env t d = .ok t') : (TableOKG O) t' := by
  unfold delRouteG at he
  split at he
  · cases he; exact prune_okG O hW _ (mapRoutes_weighedG O hW t _)
  · split at he
    · cases he; exact prune_okG O hW _ (mapRoutes_weighedG O hW t _)
    · split at he
      · simp only at he
        split at he
        · cases he; exact h
        · cases he; exact del_one_okG O hW t _ _ _ h
      · split at he
        · cases he
        · simp only at he
          split at he
          · cases he; exact h
          · cases he; exact del_one_okG O hW t _ _ _ h

theorem applyDef_okG (O : Ops) (hW : ∀ ts, ts ≠ [] → O.W ts ≠ []) (env : Env) (t t' : Table) (d : RouteDef) (h : (TableOKG O) t)
    (he : applyDefG O env t d = .ok t') : (TableOKG O) t' := by
  unfold applyDefG at he
  split at he
  · exact addRoute_okG O hW env t t' d h he
  · exact delRoute_okG O hW env t t' d h he
  · exact weighRoute_okG O hW t t' d h he
  · cases he

theorem foldlM_okG (O : Ops) (hW : ∀ ts, ts ≠ [] → O.W ts ≠ []) (env : Env) (defs : List RouteDef) : ∀ (t t' : Table), (TableOKG O) t →
    defs.foldlM (applyDefG O env) t = .ok t' → (TableOKG O) t' := by
  induction defs with
  | nil => intro t t' h he; simp only [List.foldlM_nil, pure, Except.pure] at he; cases he; exact h
  | cons d rest ih =>
    intro t t' h he
    simp only [List.foldlM_cons, bind, Except.bind] at he
    split at he
    · cases he
    · rename_i t1 h1
      exact ih t1 t' (applyDef_okG O hW env t t1 d h h1) he

theorem newTable_okG (O : Ops) (hW : ∀ ts, ts ≠ [] → O.W ts ≠ []) (env : Env) (defs : List RouteDef) (t : Table) (he : newTableG O env defs = .ok t) :
    (TableOKG O) t := by
  unfold newTableG at he
  split at he
  · cases he
  · rename_i t0 h0
    cases he
    have hok := foldlM_okG O hW env defs [] t0 (by intro kv hkv; cases hkv) h0
    intro kv hkv r hr
    obtain ⟨kv0, hkv0, rfl⟩ := List.mem_map.mp hkv
    exact hok kv0 hkv0 r (sortRoutes_mem _ _ hr)

end Fabio.Lemmas.C04
