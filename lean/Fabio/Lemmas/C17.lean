import Fabio.Model.C17
/-!
Helper lemmas for C17 (core Lean only): header-map algebra, the compressor fold, and the behaviour of the
writer machine before and after its one decision.
-/
namespace Fabio.Lemmas.C17
open Fabio.Model.C17

variable {Z : Type}

/-! ### header maps -/

theorem lookup_filter_self (h : Hdr) (k : String) :
    (h.filter (fun p => !(p.1 == k))).lookup k = none := by
  induction h with
  | nil => rfl
  | cons p r ih =>
    obtain ⟨pk, pv⟩ := p
    by_cases hp : pk = k
    · have : (!(pk == k)) = false := by simp [hp]
      rw [List.filter_cons]; simp only [this]; exact ih
    · have h1 : (!(pk == k)) = true := by simp [hp]
      have h2 : (k == pk) = false := by simp [beq_eq_false_iff_ne, Ne.symm hp]
      rw [List.filter_cons]; simp only [h1, if_true, List.lookup_cons, h2]; exact ih

theorem lookup_filter_ne (h : Hdr) (k k' : String) (hne : k' ≠ k) :
    (h.filter (fun p => !(p.1 == k))).lookup k' = h.lookup k' := by
  induction h with
  | nil => rfl
  | cons p r ih =>
    obtain ⟨pk, pv⟩ := p
    by_cases hp : pk = k
    · have h1 : (!(pk == k)) = false := by simp [hp]
      have h2 : (k' == pk) = false := by simp [beq_eq_false_iff_ne, hp, hne]
      rw [List.filter_cons]; simp only [h1, List.lookup_cons, h2]; exact ih
    · have h1 : (!(pk == k)) = true := by simp [hp]
      rw [List.filter_cons]; simp only [h1, if_true, List.lookup_cons]
      cases (k' == pk) <;> simp [ih]

theorem lookup_append_single (l : Hdr) (k k' : String) (v : List String) :
    (l ++ [(k, v)]).lookup k' = (l.lookup k').or (if k' == k then some v else none) := by
  rw [List.lookup_append]; congr 1
  simp only [List.lookup_cons, List.lookup_nil]
  cases (k' == k) <;> rfl

theorem hraw_hdelRaw_self (h : Hdr) (k : String) : hraw (hdelRaw h k) k = none :=
  lookup_filter_self h k

theorem hraw_hdelRaw_ne (h : Hdr) (k k' : String) (hne : k' ≠ k) : hraw (hdelRaw h k) k' = hraw h k' :=
  lookup_filter_ne h k k' hne

theorem hraw_hsetRaw_self (h : Hdr) (k v : String) : hraw (hsetRaw h k v) k = some [v] := by
  simp [hraw, hsetRaw, lookup_append_single, hdelRaw, lookup_filter_self]

theorem hraw_hsetRaw_ne (h : Hdr) (k k' v : String) (hne : k' ≠ k) : hraw (hsetRaw h k v) k' = hraw h k' := by
  have hk : (k' == k) = false := by simp [beq_eq_false_iff_ne, hne]
  simp only [hraw, hsetRaw, lookup_append_single, hdelRaw, lookup_filter_ne h k k' hne, hk]
  cases h.lookup k' <;> simp

theorem canon_ContentType : canonKey hContentType = hContentType := by decide
theorem canon_ContentLength : canonKey hContentLength = hContentLength := by decide
theorem canon_ContentEncoding : canonKey hContentEncoding = hContentEncoding := by decide
theorem canon_Vary : canonKey hVary = hVary := by decide

/-! ### the compressor fold -/

theorem feed_cons (c : Comp Z) (z : Z) (b : Bytes) (bs : List Bytes) :
    c.feed z (b :: bs) = ((c.feed (c.write z b).1 bs).1, (c.write z b).2 ++ (c.feed (c.write z b).1 bs).2) := rfl

/-! ### the downstream writer once the status line is out -/

theorem down_writeHeader_some {d : Down} {c : Nat} (hs : d.status = some c) (h : Hdr) (code : Nat) :
    d.writeHeader h code = d := by
  simp [Down.writeHeader, hs]

theorem down_writeHeader_info (d : Down) (h : Hdr) {code : Nat} (hi : informational code = true) :
    d.writeHeader h code = d := by
  unfold Down.writeHeader
  cases d.status <;> simp [hi]

theorem down_write_some (C : Cfg Z) {d : Down} {c : Nat} (hs : d.status = some c) (h : Hdr) (b : Bytes) :
    d.write C h b = { d with body := d.body ++ b } := by
  simp [Down.write, Down.implicit, hs]

theorem hops_cons (o : Op) (r : List Op) (h : Hdr) : hops (o :: r) h = hops r (hop o h) := rfl

/-- once decided, `WriteHeader` only forwards (and the downstream ignores it) -/
theorem gw_writeHeader_decided (C : Cfg Z) (s : GW Z) (c code : Nat) (hd : s.dec.isUndecided = false)
    (hs : s.down.status = some c) : GW.writeHeader C s code = s := by
  obtain ⟨dec, hdr, down, pool⟩ := s
  simp only at hs
  unfold GW.writeHeader
  cases dec with
  | undecided => cases hd
  | gzip z => simp [down_writeHeader_some hs]
  | plain => simp [down_writeHeader_some hs]

theorem info200 : informational 200 = false := by decide

/-! ### after the decision nothing but the body moves -/

theorem run_gzip (C : Cfg Z) (ops : List Op) (s : GW Z) (z : Z) (c : Nat)
    (hz : s.dec = .gzip z) (hs : s.down.status = some c) :
    GW.run C s ops =
      { dec := .gzip (C.comp.feed z (writesOf ops)).1, hdr := hops ops s.hdr,
        down := { s.down with body := s.down.body ++ (C.comp.feed z (writesOf ops)).2 }, pool := s.pool } := by
  induction ops generalizing s z with
  | nil =>
    obtain ⟨dec, hdr, ⟨st, sent, body⟩, pool⟩ := s
    simp_all [GW.run, writesOf, Comp.feed, hops]
  | cons o r ih =>
    cases s with
    | mk dec hdr down pool =>
      simp only at hz hs
      subst hz
      cases o with
      | wh code =>
        have h1 := gw_writeHeader_decided C { dec := .gzip z, hdr := hdr, down := down, pool := pool } c code rfl hs
        have := ih { dec := .gzip z, hdr := hdr, down := down, pool := pool } z rfl hs
        simpa [GW.run, GW.step, h1, writesOf, hops, hop] using this
      | fl =>
        have := ih { dec := .gzip z, hdr := hdr, down := down, pool := pool } z rfl hs
        simpa [GW.run, GW.step, writesOf, hops, hop] using this
      | w b =>
        have hs' : ({ down with body := down.body ++ (C.comp.write z b).2 } : Down).status = some c := hs
        have := ih { dec := .gzip (C.comp.write z b).1, hdr := hdr,
                     down := { down with body := down.body ++ (C.comp.write z b).2 }, pool := pool }
                   (C.comp.write z b).1 rfl hs'
        simp only [GW.run, List.foldl_cons, GW.step, GW.write, GW.decideOnWrite, down_write_some C hs] at this ⊢
        rw [this]
        simp [writesOf, feed_cons, hops, hop, List.append_assoc]
      | set k v =>
        have := ih { dec := .gzip z, hdr := hset hdr k v, down := down, pool := pool } z rfl hs
        simpa [GW.run, GW.step, writesOf, hops, hop] using this
      | add k v =>
        have := ih { dec := .gzip z, hdr := hadd hdr k v, down := down, pool := pool } z rfl hs
        simpa [GW.run, GW.step, writesOf, hops, hop] using this
      | del k =>
        have := ih { dec := .gzip z, hdr := hdel hdr k, down := down, pool := pool } z rfl hs
        simpa [GW.run, GW.step, writesOf, hops, hop] using this
      | unset k =>
        have := ih { dec := .gzip z, hdr := hnil hdr k, down := down, pool := pool } z rfl hs
        simpa [GW.run, GW.step, writesOf, hops, hop] using this

theorem run_plain (C : Cfg Z) (ops : List Op) (s : GW Z) (c : Nat)
    (hp : s.dec = .plain) (hs : s.down.status = some c) :
    GW.run C s ops =
      { dec := .plain, hdr := hops ops s.hdr,
        down := { s.down with body := s.down.body ++ (writesOf ops).flatten }, pool := s.pool } := by
  induction ops generalizing s with
  | nil =>
    obtain ⟨dec, hdr, ⟨st, sent, body⟩, pool⟩ := s
    simp_all [GW.run, writesOf, hops]
  | cons o r ih =>
    cases s with
    | mk dec hdr down pool =>
      simp only at hp hs
      subst hp
      cases o with
      | wh code =>
        have h1 := gw_writeHeader_decided C { dec := .plain, hdr := hdr, down := down, pool := pool } c code rfl hs
        have := ih { dec := .plain, hdr := hdr, down := down, pool := pool } rfl hs
        simpa [GW.run, GW.step, h1, writesOf, hops, hop] using this
      | fl =>
        have := ih { dec := .plain, hdr := hdr, down := down, pool := pool } rfl hs
        simpa [GW.run, GW.step, writesOf, hops, hop] using this
      | w b =>
        have hs' : ({ down with body := down.body ++ b } : Down).status = some c := hs
        have := ih { dec := .plain, hdr := hdr, down := { down with body := down.body ++ b }, pool := pool } rfl hs'
        simp only [GW.run, List.foldl_cons, GW.step, GW.write, GW.decideOnWrite, down_write_some C hs] at this ⊢
        rw [this]
        simp [writesOf, hops, hop, List.append_assoc]
      | set k v =>
        have := ih { dec := .plain, hdr := hset hdr k v, down := down, pool := pool } rfl hs
        simpa [GW.run, GW.step, writesOf, hops, hop] using this
      | add k v =>
        have := ih { dec := .plain, hdr := hadd hdr k v, down := down, pool := pool } rfl hs
        simpa [GW.run, GW.step, writesOf, hops, hop] using this
      | del k =>
        have := ih { dec := .plain, hdr := hdel hdr k, down := down, pool := pool } rfl hs
        simpa [GW.run, GW.step, writesOf, hops, hop] using this
      | unset k =>
        have := ih { dec := .plain, hdr := hnil hdr k, down := down, pool := pool } rfl hs
        simpa [GW.run, GW.step, writesOf, hops, hop] using this

theorem bareRun_decided (C : Cfg Z) (cf : Bool) (ops : List Op) (h : Hdr) (d : Down) (c : Nat) (hs : d.status = some c) :
    bareRun C cf (h, d) ops = (hops ops h, { d with body := d.body ++ (writesOf ops).flatten }) := by
  induction ops generalizing h d with
  | nil => simp [bareRun, hops, writesOf]
  | cons o r ih =>
    cases o with
    | wh code =>
      have := ih h d hs
      simpa [bareRun, bareStep, down_writeHeader_some hs, writesOf, hops, hop] using this
    | fl =>
      have := ih h d hs
      simpa [bareRun, bareStep, Down.flush, down_writeHeader_some hs, writesOf, hops, hop] using this
    | w b =>
      have hs' : ({ d with body := d.body ++ b } : Down).status = some c := hs
      have := ih h { d with body := d.body ++ b } hs'
      simp only [bareRun, List.foldl_cons, bareStep, down_write_some C hs] at this ⊢
      rw [this]
      simp [writesOf, hops, hop, List.append_assoc]
    | set k v => simpa [bareRun, bareStep, writesOf, hops, hop] using ih (hset h k v) d hs
    | add k v => simpa [bareRun, bareStep, writesOf, hops, hop] using ih (hadd h k v) d hs
    | del k => simpa [bareRun, bareStep, writesOf, hops, hop] using ih (hdel h k) d hs
    | unset k => simpa [bareRun, bareStep, writesOf, hops, hop] using ih (hnil h k) d hs

/-! ### the whole response: before the decision only the header map moves, then `run_gzip`/`run_plain` -/

/-- what the compress branch leaves behind -/
def gzipDown (C : Cfg Z) (pool : List Z) (h : Hdr) (c : Nat) (ws : List Bytes) : Down :=
  let r := C.comp.feed (C.comp.reset (poolGet C.fresh pool).1) ws
  { status := some c, sent := hset (hdel h hContentLength) hContentEncoding encGzip,
    body := r.2 ++ (C.comp.close r.1).2 }

def gzipPool (C : Cfg Z) (pool : List Z) (ws : List Bytes) : List Z :=
  (C.comp.close (C.comp.feed (C.comp.reset (poolGet C.fresh pool).1) ws).1).1 :: (poolGet C.fresh pool).2

theorem close_run (C : Cfg Z) (ops : List Op) (hdr : Hdr) (pool : List Z) :
    let f := GW.close C (GW.run C { dec := .undecided, hdr := hdr, down := {}, pool := pool } ops)
    (decision C false hdr ops = none → f = { dec := .undecided, hdr := hops ops hdr, down := {}, pool := pool }) ∧
    (∀ h c, decision C false hdr ops = some (h, c) →
      ((bodyAllowedForStatus c && isCompressable C h) = true →
        f.dec.isGzip = true ∧ f.down = gzipDown C pool h c (writesOf ops) ∧ f.pool = gzipPool C pool (writesOf ops)) ∧
      ((bodyAllowedForStatus c && isCompressable C h) = false →
        f.dec.isGzip = false ∧ f.down = { status := some c, sent := h, body := (writesOf ops).flatten } ∧ f.pool = pool)) := by
  induction ops generalizing hdr with
  | nil => simp [decision, GW.run, GW.close, hops]
  | cons o r ih =>
    cases o with
    | set k v => simpa [decision, GW.run, GW.step, hops, hop, writesOf] using ih (hset hdr k v)
    | add k v => simpa [decision, GW.run, GW.step, hops, hop, writesOf] using ih (hadd hdr k v)
    | del k => simpa [decision, GW.run, GW.step, hops, hop, writesOf] using ih (hdel hdr k)
    | unset k => simpa [decision, GW.run, GW.step, hops, hop, writesOf] using ih (hnil hdr k)
    | fl => simpa [decision, GW.run, GW.step, hops, hop, writesOf] using ih hdr
    | wh code =>
      by_cases hinfo : informational code = true
      · have hstep : GW.writeHeader C { dec := .undecided, hdr := hdr, down := {}, pool := pool } code =
            { dec := .undecided, hdr := hdr, down := {}, pool := pool } := by
          simp [GW.writeHeader, hinfo, down_writeHeader_info]
        simpa [decision, hinfo, GW.run, GW.step, hstep, hops, hop, writesOf] using ih hdr
      · have hinfo' : informational code = false := by simpa using hinfo
        simp only [decision, hinfo', GW.run, List.foldl_cons, GW.step, GW.writeHeader, writesOf]
        refine ⟨by simp, ?_⟩
        intro h c hd
        simp only [Bool.false_eq_true, if_false, Option.some.injEq, Prod.mk.injEq] at hd
        obtain ⟨rfl, rfl⟩ := hd
        constructor
        · intro hc
          simp only [Bool.false_eq_true, if_false, hc, if_true]
          rw [show List.foldl (GW.step C) _ r = GW.run C _ r from rfl,
              run_gzip C r _ (C.comp.reset (poolGet C.fresh pool).1) code rfl (by simp [Down.writeHeader, hinfo'])]
          simp [GW.close, Dec.isGzip, gzipDown, gzipPool, Down.writeHeader, hinfo', down_write_some C (c := code)]
        · intro hc
          simp only [Bool.false_eq_true, if_false, hc]
          rw [show List.foldl (GW.step C) _ r = GW.run C _ r from rfl,
              run_plain C r _ code rfl (by simp [Down.writeHeader, hinfo'])]
          simp [GW.close, Dec.isGzip, Down.writeHeader, hinfo']
    | w b =>
      simp only [decision, GW.run, List.foldl_cons, GW.step, writesOf]
      refine ⟨by simp, ?_⟩
      intro h c hd
      simp only [Option.some.injEq, Prod.mk.injEq] at hd
      obtain ⟨rfl, rfl⟩ := hd
      have hfill : (if hhasRaw hdr hContentType = true then
            ({ dec := Dec.undecided, hdr := hdr, down := {}, pool := pool } : GW Z)
          else { dec := Dec.undecided, hdr := hset hdr hContentType (C.sniff b), down := {}, pool := pool }) =
          { dec := Dec.undecided, hdr := (if hhasRaw hdr hContentType = true then hdr else hset hdr hContentType (C.sniff b)),
            down := {}, pool := pool } := by
        split <;> rfl
      constructor
      · intro hc
        simp only [GW.write, GW.decideOnWrite, hfill, GW.writeHeader, info200, Bool.false_eq_true, if_false, hc, if_true]
        rw [show List.foldl (GW.step C) _ r = GW.run C _ r from rfl,
            run_gzip C r _ (C.comp.write (C.comp.reset (poolGet C.fresh pool).1) b).1 200 rfl
              (by simp [Down.writeHeader, Down.write, Down.implicit, info200])]
        simp [GW.close, Dec.isGzip, gzipDown, gzipPool, Down.writeHeader, Down.write, Down.implicit, feed_cons,
              List.append_assoc, info200]
      · intro hc
        simp only [GW.write, GW.decideOnWrite, hfill, GW.writeHeader, info200, Bool.false_eq_true, if_false, hc]
        rw [show List.foldl (GW.step C) _ r = GW.run C _ r from rfl,
            run_plain C r _ 200 rfl (by simp [Down.writeHeader, Down.write, Down.implicit, info200])]
        simp [GW.close, Dec.isGzip, Down.writeHeader, Down.write, Down.implicit, info200]

theorem bare_obs (C : Cfg Z) (cf : Bool) (ops : List Op) (hdr : Hdr) :
    (bareRun C cf (hdr, {}) ops).2.obs (bareRun C cf (hdr, {}) ops).1 =
      match decision C cf hdr ops with
      | none => { status := 200, hdr := hops ops hdr, body := [] }
      | some (h, c) => { status := c, hdr := h, body := (writesOf ops).flatten } := by
  induction ops generalizing hdr with
  | nil => simp [decision, bareRun, Down.obs, hops]
  | cons o r ih =>
    cases o with
    | set k v => simpa [decision, bareRun, bareStep, hops, hop, writesOf] using ih (hset hdr k v)
    | add k v => simpa [decision, bareRun, bareStep, hops, hop, writesOf] using ih (hadd hdr k v)
    | del k => simpa [decision, bareRun, bareStep, hops, hop, writesOf] using ih (hdel hdr k)
    | unset k => simpa [decision, bareRun, bareStep, hops, hop, writesOf] using ih (hnil hdr k)
    | fl =>
      cases cf with
      | false => simpa [decision, bareRun, bareStep, hops, hop, writesOf] using ih hdr
      | true =>
        simp only [decision, if_true, bareRun, List.foldl_cons, bareStep, writesOf]
        rw [show List.foldl (bareStep C true) _ r = bareRun C true _ r from rfl,
            bareRun_decided C true r hdr _ 200 (by simp [Down.flush, Down.writeHeader, info200])]
        simp [Down.obs, Down.flush, Down.writeHeader, info200]
    | wh code =>
      by_cases hinfo : informational code = true
      · have hstep : ({} : Down).writeHeader hdr code = {} := down_writeHeader_info _ _ hinfo
        simpa [decision, hinfo, bareRun, bareStep, hstep, hops, hop, writesOf] using ih hdr
      · have hinfo' : informational code = false := by simpa using hinfo
        simp only [decision, hinfo', Bool.false_eq_true, if_false, bareRun, List.foldl_cons, bareStep, writesOf]
        rw [show List.foldl (bareStep C cf) _ r = bareRun C cf _ r from rfl,
            bareRun_decided C cf r hdr _ code (by simp [Down.writeHeader, hinfo'])]
        simp [Down.obs, Down.writeHeader, hinfo']
    | w b =>
      simp only [decision, bareRun, List.foldl_cons, bareStep, writesOf]
      rw [show List.foldl (bareStep C cf) _ r = bareRun C cf _ r from rfl,
          bareRun_decided C cf r hdr _ 200 (by simp [Down.write, Down.implicit])]
      simp only [Down.obs, Down.write, Down.implicit, hset, canon_ContentType]
      split <;> simp_all

/-- the script with its flush calls removed -/
def dropFlush : List Op → List Op
  | [] => []
  | .fl :: r => dropFlush r
  | o :: r => o :: dropFlush r

/-- a flush is invisible to the gzip writer machine -/
theorem run_without_flush (C : Cfg Z) (ops : List Op) (s : GW Z) :
    GW.run C s ops = GW.run C s (dropFlush ops) := by
  induction ops generalizing s with
  | nil => rfl
  | cons o r ih =>
    cases o with
    | fl => simpa [GW.run, GW.step, dropFlush] using ih s
    | wh c => simpa [GW.run, dropFlush] using ih _
    | w b => simpa [GW.run, dropFlush] using ih _
    | set k v => simpa [GW.run, dropFlush] using ih _
    | add k v => simpa [GW.run, dropFlush] using ih _
    | del k => simpa [GW.run, dropFlush] using ih _
    | unset k => simpa [GW.run, dropFlush] using ih _

/-! ### the pool -/

/-- Ownership invariant: a writer sits in the pool at most once, is held by at most one handler, is never in
the pool while held, and every writer in circulation was created by `New` earlier. -/
structure PInv (s : PState) : Prop where
  pool_nodup : s.pool.Nodup
  held_nodup : (s.held.map Prod.snd).Nodup
  disjoint : ∀ z, z ∈ s.pool → z ∉ s.held.map Prod.snd
  born : ∀ z, z ∈ s.pool ∨ z ∈ s.held.map Prod.snd → z < s.next

theorem snd_unique {l : List (Nat × Nat)} (hn : (l.map Prod.snd).Nodup) {a b z : Nat}
    (ha : (a, z) ∈ l) (hb : (b, z) ∈ l) : a = b := by
  induction l with
  | nil => cases ha
  | cons p r ih =>
    simp only [List.map_cons, List.nodup_cons] at hn
    rcases List.mem_cons.mp ha with ha | ha <;> rcases List.mem_cons.mp hb with hb | hb
    · rw [← ha] at hb; exact (Prod.mk.inj hb).1.symm
    · exact absurd (List.mem_map.mpr ⟨(b, z), hb, by rw [← ha]⟩) hn.1
    · exact absurd (List.mem_map.mpr ⟨(a, z), ha, by rw [← hb]⟩) hn.1
    · exact ih hn.2 ha hb

theorem lookup_mem {l : List (Nat × Nat)} {t z : Nat} (h : l.lookup t = some z) : (t, z) ∈ l := by
  induction l with
  | nil => cases h
  | cons p r ih =>
    obtain ⟨pk, pv⟩ := p
    rw [List.lookup_cons] at h
    by_cases hk : t = pk
    · subst hk; simp at h; subst h; exact List.mem_cons_self
    · have : (t == pk) = false := by simp [hk]
      rw [this] at h; exact List.mem_cons_of_mem _ (ih h)

theorem pstep_inv (s : PState) (e : PEv) (hi : PInv s) : PInv (pstep s e) := by
  cases e with
  | drop i =>
    exact ⟨hi.pool_nodup.sublist (List.eraseIdx_sublist _ _) |> fun h => h, hi.held_nodup,
      fun z hz => hi.disjoint z ((List.eraseIdx_sublist _ _).subset hz),
      fun z hz => hi.born z (hz.imp (fun h => (List.eraseIdx_sublist _ _).subset h) id)⟩
  | get t i =>
    simp only [pstep]
    cases hh : heldBy s t with
    | some z => simpa using hi
    | none =>
      simp only
      by_cases hlt : i < s.pool.length
      · simp only [hlt, dite_true]
        refine ⟨hi.pool_nodup.sublist (List.eraseIdx_sublist _ _), ?_, ?_, ?_⟩
        · simp only [List.map_cons, List.nodup_cons]
          exact ⟨hi.disjoint _ (List.getElem_mem hlt), hi.held_nodup⟩
        · intro z hz
          simp only [List.map_cons, List.mem_cons, not_or]
          refine ⟨?_, hi.disjoint z ((List.eraseIdx_sublist _ _).subset hz)⟩
          intro heq
          obtain ⟨j, hj, hne, hjz⟩ := List.mem_eraseIdx_iff_getElem.mp hz
          have : j = i := (List.getElem?_inj hj hi.pool_nodup).mp (by
            rw [List.getElem?_eq_getElem hj, List.getElem?_eq_getElem hlt, hjz, heq])
          exact hne this
        · intro z hz
          simp only [List.map_cons, List.mem_cons] at hz
          rcases hz with hz | hz | hz
          · exact hi.born z (Or.inl ((List.eraseIdx_sublist _ _).subset hz))
          · exact hi.born z (Or.inl (hz ▸ List.getElem_mem hlt))
          · exact hi.born z (Or.inr hz)
      · simp only [hlt, dite_false]
        have hfresh : ∀ z, z ∈ s.pool ∨ z ∈ s.held.map Prod.snd → z ≠ s.next :=
          fun z hz => Nat.ne_of_lt (hi.born z hz)
        refine ⟨hi.pool_nodup, ?_, ?_, ?_⟩
        · simp only [List.map_cons, List.nodup_cons]
          exact ⟨fun h => hfresh _ (Or.inr h) rfl, hi.held_nodup⟩
        · intro z hz
          simp only [List.map_cons, List.mem_cons, not_or]
          exact ⟨hfresh z (Or.inl hz), hi.disjoint z hz⟩
        · intro z hz
          simp only [List.map_cons, List.mem_cons] at hz
          rcases hz with hz | hz | hz
          · exact Nat.lt_succ_of_lt (hi.born z (Or.inl hz))
          · exact hz ▸ Nat.lt_succ_self _
          · exact Nat.lt_succ_of_lt (hi.born z (Or.inr hz))
  | put t =>
    simp only [pstep]
    cases hh : heldBy s t with
    | none => simpa using hi
    | some z =>
      simp only
      have hmem : (t, z) ∈ s.held := lookup_mem hh
      have hzs : z ∈ s.held.map Prod.snd := List.mem_map.mpr ⟨(t, z), hmem, rfl⟩
      have hsub : ((s.held.filter (fun p => !(p.1 == t))).map Prod.snd).Sublist (s.held.map Prod.snd) :=
        List.Sublist.map _ List.filter_sublist
      have hgone : z ∉ (s.held.filter (fun p => !(p.1 == t))).map Prod.snd := by
        intro hz
        obtain ⟨⟨a, z'⟩, ha, rfl⟩ := List.mem_map.mp hz
        have ha' := List.mem_filter.mp ha
        have : a = t := snd_unique hi.held_nodup ha'.1 hmem
        simp [this] at ha'
      refine ⟨?_, hi.held_nodup.sublist hsub, ?_, ?_⟩
      · simp only [List.nodup_cons]
        exact ⟨fun h => hi.disjoint z h hzs, hi.pool_nodup⟩
      · intro y hy
        rcases List.mem_cons.mp hy with hy | hy
        · exact hy ▸ hgone
        · exact fun h => hi.disjoint y hy (hsub.subset h)
      · intro y hy
        rcases hy with hy | hy
        · rcases List.mem_cons.mp hy with hy | hy
          · exact hi.born y (Or.inr (hy ▸ hzs))
          · exact hi.born y (Or.inl hy)
        · exact hi.born y (Or.inr (hsub.subset hy))

theorem prun_inv (s : PState) (evs : List PEv) (hi : PInv s) : PInv (prun s evs) := by
  induction evs generalizing s with
  | nil => exact hi
  | cons e r ih => exact ih _ (pstep_inv s e hi)

theorem pinv_init : PInv {} where
  pool_nodup := List.nodup_nil
  held_nodup := List.nodup_nil
  disjoint := fun _ h => by simp at h
  born := fun _ h => by simp at h

end Fabio.Lemmas.C17
