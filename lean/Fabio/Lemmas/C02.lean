import Fabio.Model.C02
/-!
Helper lemmas for C02 (core Lean only): the per-thread invariant of the cell machine and its preservation,
the "lookup in flight" simulation, and the invariant of the `watchBackend` step machine.
-/
namespace Fabio.Lemmas.C02
open Fabio Fabio.Model.C02

section cell
variable {T Req Ans : Type}

theorem getElem?_append_some {α} {h : List α} {j : Nat} {x : α} (l : List α) (hx : h[j]? = some x) :
    (h ++ l)[j]? = some x := by
  have hj : j < h.length := (List.getElem?_eq_some_iff.mp hx).1
  rw [List.getElem?_append_left hj]; exact hx

/-- what a thread may hold while the cell's history is `h` -/
def ThreadOk (lk : Lk T Req Ans) (h : List T) : Thread T Req Ans → Prop
  | .reader _ cur done =>
      (∀ f, cur = some f → h[f.idx]? = some f.snap ∧ ∀ r ∈ done, r.idx ≤ f.idx) ∧
      (∀ r ∈ done, ∃ t, h[r.idx]? = some t ∧ r.ans = lk.lookupPure t r.req) ∧
      List.Pairwise (· ≤ ·) (done.map (·.idx))
  | .writer _ => True

theorem ThreadOk.mono (lk : Lk T Req Ans) {h : List T} (l : List T) {th : Thread T Req Ans}
    (ok : ThreadOk lk h th) : ThreadOk lk (h ++ l) th := by
  cases th with
  | writer todo => trivial
  | reader todo cur done =>
    obtain ⟨h1, h2, h3⟩ := ok
    refine ⟨fun f hf => ⟨getElem?_append_some l (h1 f hf).1, (h1 f hf).2⟩, fun r hr => ?_, h3⟩
    obtain ⟨t, ht, ha⟩ := h2 r hr
    exact ⟨t, getElem?_append_some l ht, ha⟩

/-- the cell's value is the last entry of its history -/
def CellOk (c : Cell T) : Prop := c.hist[c.hist.length - 1]? = some c.val

theorem CellOk.init (t0 : T) : CellOk (Cell.init t0) := by simp [CellOk, Cell.init]

theorem CellOk.store {c : Cell T} (t : T) : CellOk (c.store t) := by
  simp [CellOk, Cell.store]

theorem fresh_ok (lk : Lk T Req Ans) (h : List T) {th : Thread T Req Ans} (hf : th.fresh = true) :
    ThreadOk lk h th := by
  cases th with
  | writer todo => trivial
  | reader todo cur done =>
    cases cur with
    | some f => simp [Thread.fresh] at hf
    | none =>
      cases done with
      | cons r rs => simp [Thread.fresh] at hf
      | nil => exact ⟨fun f hf => (by cases hf), fun r hr => (by cases hr), by simp⟩

/-- one micro-step of one thread: the cell stays well-formed, its history only grows (by tables this thread
was going to store), the thread's invariant is kept, its pending stores shrink -/
theorem step_ok (lk : Lk T Req Ans) (c : Cell T) (th : Thread T Req Ans) (hc : CellOk c)
    (ok : ThreadOk lk c.hist th) :
    CellOk (th.step lk c).1 ∧
    (∃ l, (th.step lk c).1.hist = c.hist ++ l ∧ ∀ t ∈ l, t ∈ th.stores) ∧
    ThreadOk lk (th.step lk c).1.hist (th.step lk c).2 ∧
    (∀ t ∈ (th.step lk c).2.stores, t ∈ th.stores) := by
  cases th with
  | writer todo =>
    cases todo with
    | nil => exact ⟨hc, ⟨[], by simp [Thread.step], by simp⟩, trivial, fun t ht => ht⟩
    | cons o rest =>
      cases o with
      | none =>
        refine ⟨hc, ⟨[], by simp [Thread.step, Cell.setTable], by simp⟩, trivial, ?_⟩
        intro t ht; simpa [Thread.step, Thread.stores] using ht
      | some t =>
        refine ⟨CellOk.store t, ⟨[t], by simp [Thread.step, Cell.setTable, Cell.store], ?_⟩, trivial, ?_⟩
        · intro x hx; simp at hx; subst hx; simp [Thread.stores]
        · intro x hx
          simp [Thread.step, Thread.stores] at hx ⊢
          exact Or.inr hx
  | reader todo cur done =>
    obtain ⟨h1, h2, h3⟩ := ok
    cases cur with
    | some f =>
      cases hl : f.left with
      | succ n =>
        refine ⟨by simpa [Thread.step, hl] using hc, ⟨[], by simp [Thread.step, hl], by simp⟩, ?_, ?_⟩
        · simp only [Thread.step, hl]
          refine ⟨fun g hg => ?_, h2, h3⟩
          cases hg
          exact h1 f rfl
        · intro t ht; simp [Thread.step, hl, Thread.stores] at ht
      | zero =>
        refine ⟨by simpa [Thread.step, hl] using hc, ⟨[], by simp [Thread.step, hl], by simp⟩, ?_, ?_⟩
        · simp only [Thread.step, hl]
          refine ⟨fun g hg => (by cases hg), fun r hr => ?_, ?_⟩
          · rcases List.mem_append.mp hr with hr | hr
            · exact h2 r hr
            · simp at hr; subst hr
              exact ⟨f.snap, (h1 f rfl).1, rfl⟩
          · rw [List.map_append, List.pairwise_append]
            refine ⟨h3, by simp, fun a ha b hb => ?_⟩
            simp at hb; subst hb
            obtain ⟨r, hr, rfl⟩ := List.mem_map.mp ha
            exact (h1 f rfl).2 r hr
        · intro t ht; simp [Thread.step, hl, Thread.stores] at ht
    | none =>
      cases todo with
      | nil => exact ⟨hc, ⟨[], by simp [Thread.step], by simp⟩, ⟨h1, h2, h3⟩, fun t ht => ht⟩
      | cons r rest =>
        refine ⟨by simpa [Thread.step] using hc, ⟨[], by simp [Thread.step], by simp⟩, ?_, ?_⟩
        · simp only [Thread.step]
          refine ⟨fun g hg => ?_, h2, h3⟩
          cases hg
          refine ⟨by simpa [Cell.load, CellOk] using hc, fun q hq => ?_⟩
          obtain ⟨t, ht, _⟩ := h2 q hq
          have := (List.getElem?_eq_some_iff.mp ht).1
          simp [Cell.load]; omega
        · intro t ht; simp [Thread.step, Thread.stores] at ht

/-- the global invariant; `S` = the tables the writers were given -/
structure Inv (lk : Lk T Req Ans) (t0 : T) (S : List T) (s : Sys T Req Ans) : Prop where
  cell : CellOk s.cell
  mem : ∀ t ∈ s.cell.hist, t = t0 ∨ t ∈ S
  pend : ∀ th ∈ s.threads, ∀ t ∈ th.stores, t ∈ S
  thr : ∀ th ∈ s.threads, ThreadOk lk s.cell.hist th

theorem Inv.start (lk : Lk T Req Ans) (t0 : T) (ths : List (Thread T Req Ans))
    (hf : ∀ th ∈ ths, th.fresh = true) : Inv lk t0 (ths.flatMap Thread.stores) (Sys.start t0 ths) where
  cell := CellOk.init t0
  mem := by intro t ht; simp [Sys.start, Cell.init] at ht; exact Or.inl ht
  pend := by
    intro th hth t ht
    exact List.mem_flatMap.mpr ⟨th, hth, ht⟩
  thr := fun th hth => fresh_ok lk _ (hf th hth)

theorem Inv.stepAt {lk : Lk T Req Ans} {t0 : T} {S : List T} {s : Sys T Req Ans} (inv : Inv lk t0 S s) (i : Nat) :
    Inv lk t0 S (s.stepAt lk i) ∧ ∃ l, (s.stepAt lk i).cell.hist = s.cell.hist ++ l := by
  unfold Sys.stepAt
  cases hi : s.threads[i]? with
  | none => exact ⟨inv, [], by simp⟩
  | some th =>
    have hmem : th ∈ s.threads := List.mem_of_getElem? hi
    obtain ⟨c1, ⟨l, hl, hls⟩, c3, c4⟩ := step_ok lk s.cell th inv.cell (inv.thr th hmem)
    refine ⟨⟨c1, ?_, ?_, ?_⟩, l, hl⟩
    · intro t ht
      simp only [hl] at ht
      rcases List.mem_append.mp ht with ht | ht
      · exact inv.mem t ht
      · exact Or.inr (inv.pend th hmem t (hls t ht))
    · intro th' hth' t ht
      rcases List.mem_or_eq_of_mem_set hth' with h | h
      · exact inv.pend th' h t ht
      · subst h; exact inv.pend th hmem t (c4 t ht)
    · intro th' hth'
      rcases List.mem_or_eq_of_mem_set hth' with h | h
      · simp only [hl]; exact (inv.thr th' h).mono lk l
      · subst h; exact c3

theorem Inv.run {lk : Lk T Req Ans} {t0 : T} {S : List T} (sch : List Nat) :
    ∀ {s : Sys T Req Ans}, Inv lk t0 S s →
      Inv lk t0 S (Sys.run lk sch s) ∧ ∃ l, (Sys.run lk sch s).cell.hist = s.cell.hist ++ l := by
  induction sch with
  | nil => intro s inv; exact ⟨inv, [], by simp [Sys.run]⟩
  | cons i sch ih =>
    intro s inv
    obtain ⟨inv1, l1, h1⟩ := inv.stepAt i
    obtain ⟨inv2, l2, h2⟩ := ih inv1
    refine ⟨inv2, l1 ++ l2, ?_⟩
    simp only [Sys.run]; rw [h2, h1, List.append_assoc]

theorem run_append (lk : Lk T Req Ans) (a b : List Nat) (s : Sys T Req Ans) :
    Sys.run lk (a ++ b) s = Sys.run lk b (Sys.run lk a s) := by
  induction a generalizing s with
  | nil => rfl
  | cons i a ih => simp [Sys.run, ih]

/-! ### a lookup in flight is answered from its snapshot, whatever happens meanwhile -/

/-- the answer the lookup in flight `f` will give -/
def answerOf (lk : Lk T Req Ans) (f : InFlight T Req) : Result Req Ans :=
  { req := f.req, idx := f.idx, ans := lk.lookupPure f.snap f.req }

/-- thread state reachable from "lookup `f` in flight, `done` completed before it" -/
def Fut (lk : Lk T Req Ans) (f : InFlight T Req) (done : List (Result Req Ans)) (th : Thread T Req Ans) : Prop :=
  (∃ todo n, th = .reader todo (some { f with left := n }) done) ∨
  (∃ todo cur more, th = .reader todo cur (done ++ [answerOf lk f] ++ more))

theorem Fut.step (lk : Lk T Req Ans) {f : InFlight T Req} {done : List (Result Req Ans)} {th : Thread T Req Ans}
    (h : Fut lk f done th) (c : Cell T) : Fut lk f done (th.step lk c).2 := by
  rcases h with ⟨todo, n, rfl⟩ | ⟨todo, cur, more, rfl⟩
  · cases n with
    | succ n => exact Or.inl ⟨todo, n, by simp [Thread.step]⟩
    | zero => exact Or.inr ⟨todo, none, [], by simp [Thread.step, answerOf]⟩
  · right
    cases cur with
    | some g =>
      cases hl : g.left with
      | succ n => exact ⟨todo, some { g with left := n }, more, by simp [Thread.step, hl]⟩
      | zero => exact ⟨todo, none, more ++ [{ req := g.req, idx := g.idx, ans := lk.lookupPure g.snap g.req }], by simp [Thread.step, hl]⟩
    | none =>
      cases todo with
      | nil => exact ⟨[], none, more, by simp [Thread.step]⟩
      | cons r rest => exact ⟨rest, some { req := r, snap := c.load.1, idx := c.load.2, left := lk.k r }, more, by simp [Thread.step]⟩

theorem Fut.run (lk : Lk T Req Ans) {f : InFlight T Req} {done : List (Result Req Ans)} (i : Nat) (sch : List Nat) :
    ∀ (s : Sys T Req Ans), (∃ th, s.threads[i]? = some th ∧ Fut lk f done th) →
      ∃ th, (Sys.run lk sch s).threads[i]? = some th ∧ Fut lk f done th := by
  induction sch with
  | nil => intro s h; exact h
  | cons j sch ih =>
    intro s ⟨th, hth, hf⟩
    apply ih
    unfold Sys.stepAt
    cases hj : s.threads[j]? with
    | none => exact ⟨th, hth, hf⟩
    | some tj =>
      by_cases hij : j = i
      · subst hij
        rw [hth] at hj; cases hj
        have hlt : j < s.threads.length := (List.getElem?_eq_some_iff.mp hth).1
        exact ⟨_, by simp [hlt], hf.step lk s.cell⟩
      · exact ⟨th, by simp [List.getElem?_set_ne hij, hth], hf⟩

/-! ### a system with exactly one writer (the `watchBackend` goroutine) -/

theorem reader_step (lk : Lk T Req Ans) (c : Cell T) (a : List Req) (b : Option (InFlight T Req))
    (d : List (Result Req Ans)) :
    ((Thread.reader a b d).step lk c).1 = c ∧ ∃ a' b' d', ((Thread.reader a b d).step lk c).2 = .reader a' b' d' := by
  cases b with
  | some f =>
    cases hl : f.left with
    | succ n => exact ⟨by simp [Thread.step, hl], _, _, _, by simp [Thread.step, hl]; exact ⟨rfl, rfl, rfl⟩⟩
    | zero => exact ⟨by simp [Thread.step, hl], _, _, _, by simp [Thread.step, hl]; exact ⟨rfl, rfl, rfl⟩⟩
  | none =>
    cases a with
    | nil => exact ⟨rfl, _, _, _, rfl⟩
    | cons r rest => exact ⟨rfl, _, _, _, rfl⟩

/-- thread `w` is the only writer; of the tables `W` it was given, `done` are in the history, `pending` are
still to be stored -/
def OneWriter (t0 : T) (W : List T) (w : Nat) (s : Sys T Req Ans) : Prop :=
  ∃ done pending, s.cell.hist = t0 :: done ∧ s.threads[w]? = some (.writer (pending.map some)) ∧
    done ++ pending = W ∧
    ∀ i th, s.threads[i]? = some th → i ≠ w → ∃ a b d, th = Thread.reader a b d

theorem OneWriter.stepAt (lk : Lk T Req Ans) {t0 : T} {W : List T} {w : Nat} {s : Sys T Req Ans}
    (h : OneWriter t0 W w s) (i : Nat) : OneWriter t0 W w (s.stepAt lk i) := by
  obtain ⟨done, pending, hh, hw, hdp, hrd⟩ := h
  unfold Sys.stepAt
  cases hi : s.threads[i]? with
  | none => exact ⟨done, pending, hh, hw, hdp, hrd⟩
  | some th =>
    have hil : i < s.threads.length := (List.getElem?_eq_some_iff.mp hi).1
    by_cases hiw : i = w
    · subst hiw
      rw [hw] at hi; cases hi
      cases pending with
      | nil =>
        refine ⟨done, [], by simpa [Thread.step] using hh, by simp [Thread.step, hil], hdp, ?_⟩
        intro j th' hj hne
        rw [List.getElem?_set_ne (Ne.symm hne)] at hj
        exact hrd j th' hj hne
      | cons t rest =>
        refine ⟨done ++ [t], rest, by simp [Thread.step, Cell.setTable, Cell.store, hh], by simp [Thread.step, hil],
          by simpa using hdp, ?_⟩
        intro j th' hj hne
        rw [List.getElem?_set_ne (Ne.symm hne)] at hj
        exact hrd j th' hj hne
    · obtain ⟨a, b, d, rfl⟩ := hrd i th hi hiw
      obtain ⟨hc, a', b', d', hth⟩ := reader_step lk s.cell a b d
      refine ⟨done, pending, by show (Thread.step lk s.cell (Thread.reader a b d)).1.hist = _; rw [hc]; exact hh, ?_, hdp, ?_⟩
      · show (s.threads.set i _)[w]? = _
        rw [List.getElem?_set_ne hiw]; exact hw
      · intro j th' hj hne
        change (s.threads.set i _)[j]? = _ at hj
        by_cases hji : j = i
        · subst hji
          rw [List.getElem?_set_self hil] at hj
          cases hj; exact ⟨a', b', d', hth⟩
        · rw [List.getElem?_set_ne (Ne.symm hji)] at hj
          exact hrd j th' hj hne

theorem OneWriter.run (lk : Lk T Req Ans) {t0 : T} {W : List T} {w : Nat} (sch : List Nat) :
    ∀ {s : Sys T Req Ans}, OneWriter t0 W w s → OneWriter t0 W w (Sys.run lk sch s) := by
  induction sch with
  | nil => intro s h; exact h
  | cons i sch ih => intro s h; exact ih (h.stepAt lk i)

theorem OneWriter.start (t0 : T) (W : List T) (rs : List (Thread T Req Ans))
    (hr : ∀ th ∈ rs, ∃ a b d, th = Thread.reader a b d) :
    OneWriter t0 W rs.length (Sys.start t0 (rs ++ [.writer (W.map some)])) := by
  refine ⟨[], W, rfl, by simp [Sys.start], rfl, ?_⟩
  intro i th hi hne
  simp only [Sys.start] at hi
  have hlt : i < rs.length := by
    have := (List.getElem?_eq_some_iff.mp hi).1
    simp at this; omega
  rw [List.getElem?_append_left hlt] at hi
  exact hr th (List.mem_of_getElem? hi)

end cell

/-! ## the `watchBackend` machine -/

section wb
variable {T : Type}

/-- either nothing was installed yet, or `lastTable` is the text the active table was built from -/
def WBInv (build : Text → Option T) (st : WB T) : Prop :=
  st.lastTable = [] ∨ build st.lastTable = some st.active

theorem nextText_ne_nil (st : WB T) : st.nextText ≠ [] := by
  simp [WB.nextText]

theorem recv_lastTable (st : WB T) (e : Ev) : (st.recv e).lastTable = st.lastTable := by
  cases e <;> rfl

theorem recv_active (st : WB T) (e : Ev) : (st.recv e).active = st.active := by
  cases e <;> rfl

theorem WBInv.init (build : Text → Option T) (t0 : T) : WBInv build (WB.init t0) := Or.inl rfl

/-- the loop body, summarised: the active table becomes the table of the new text if it builds, else stays -/
theorem step_active (build : Text → Option T) (st : WB T) (e : Ev) (inv : WBInv build st) :
    (WB.step build st e).active = (build (st.recv e).nextText).getD st.active ∧ WBInv build (WB.step build st e) := by
  unfold WB.step
  simp only
  by_cases heq : (st.recv e).nextText = (st.recv e).lastTable
  · rw [if_pos heq]
    have hne : st.lastTable ≠ [] := by
      rw [← recv_lastTable st e, ← heq]; exact nextText_ne_nil _
    have hb : build st.lastTable = some st.active := by
      rcases inv with h | h
      · exact absurd h hne
      · exact h
    rw [heq, recv_lastTable, hb]
    refine ⟨by simp [recv_active], Or.inr ?_⟩
    rw [recv_lastTable, recv_active]; exact hb
  · rw [if_neg heq]
    cases hb : build (st.recv e).nextText with
    | none =>
      refine ⟨by simp [recv_active], ?_⟩
      simp only [WBInv, recv_lastTable, recv_active]; exact inv
    | some t => exact ⟨by simp, Or.inr (by simpa using hb)⟩

theorem step_eq_noSkip (build : Text → Option T) (st : WB T) (e : Ev) (inv : WBInv build st) :
    WB.step build st e = WB.stepNoSkip build st e := by
  unfold WB.step WB.stepNoSkip
  simp only
  by_cases heq : (st.recv e).nextText = (st.recv e).lastTable
  · rw [if_pos heq]
    have hne : st.lastTable ≠ [] := by
      rw [← recv_lastTable st e, ← heq]; exact nextText_ne_nil _
    have hb : build st.lastTable = some st.active := by
      rcases inv with h | h
      · exact absurd h hne
      · exact h
    rw [heq, recv_lastTable, hb]
    simp only
    rw [← recv_active st e]
    conv => rhs; rw [← recv_lastTable st e]
  · rw [if_neg heq]

theorem WBInv.run (build : Text → Option T) (es : List Ev) : ∀ (st : WB T), WBInv build st → WBInv build (WB.run build st es) := by
  induction es with
  | nil => intro st h; exact h
  | cons e es ih => intro st h; exact ih _ (step_active build st e h).2

theorem lastGood_cons (build : Text → Option T) (a : T) (x : Text) (ts : List Text) :
    lastGood build a (x :: ts) = lastGood build ((build x).getD a) ts := by
  unfold lastGood
  rw [List.reverse_cons, List.findSome?_append]
  cases h : ts.reverse.findSome? build with
  | some t => simp
  | none => cases hb : build x <;> simp [hb]

theorem lastGood_append_one (build : Text → Option T) (a : T) (ts : List Text) (x : Text) :
    lastGood build a (ts ++ [x]) = (build x).getD (lastGood build a ts) := by
  unfold lastGood
  rw [List.reverse_append]
  cases hb : build x <;> simp [hb]

theorem recv_nextText_eq (st : WB T) (e : Ev) (es : List Ev) :
    textsFrom st.svccfg st.mancfg (e :: es) =
      (st.recv e).nextText :: textsFrom (st.recv e).svccfg (st.recv e).mancfg es := by
  cases e <;> simp [textsFrom, WB.recv, WB.nextText]

theorem step_cfg (build : Text → Option T) (st : WB T) (e : Ev) :
    (WB.step build st e).svccfg = (st.recv e).svccfg ∧ (WB.step build st e).mancfg = (st.recv e).mancfg := by
  unfold WB.step
  simp only
  split
  · exact ⟨rfl, rfl⟩
  · split <;> exact ⟨rfl, rfl⟩

theorem run_active (build : Text → Option T) (es : List Ev) : ∀ (st : WB T), WBInv build st →
    (WB.run build st es).active = lastGood build st.active (textsFrom st.svccfg st.mancfg es) := by
  induction es with
  | nil => intro st _; simp [WB.run, textsFrom, lastGood]
  | cons e es ih =>
    intro st inv
    obtain ⟨ha, inv'⟩ := step_active build st e inv
    have := ih _ inv'
    simp only [WB.run, List.foldl_cons] at this ⊢
    rw [this, recv_nextText_eq, lastGood_cons, ha, (step_cfg build st e).1, (step_cfg build st e).2]

/-! ### the `SetTable` calls of the loop -/

theorem step_installed (build : Text → Option T) (st : WB T) (e : Ev) :
    (WB.step build st e).active = (WB.installed build st e).getD st.active := by
  unfold WB.step WB.installed
  simp only
  split
  · simp [recv_active]
  · split <;> simp [*, recv_active]

theorem installs_last (build : Text → Option T) (es : List Ev) : ∀ st : WB T,
    (WB.installs build st es).getLast?.getD st.active = (WB.run build st es).active := by
  induction es with
  | nil => intro st; simp [WB.installs, WB.run]
  | cons e es ih =>
    intro st
    simp only [WB.installs, WB.run, List.foldl_cons]
    have := ih (WB.step build st e)
    simp only [WB.run] at this
    rw [← this, step_installed]
    cases hr : WB.installs build (WB.step build st e) es with
    | nil => cases WB.installed build st e <;> simp
    | cons x xs =>
      have hx : (x :: xs).getLast? = some ((x :: xs).getLast (by simp)) := List.getLast?_eq_some_getLast (by simp)
      rw [List.getLast?_append, hx]
      simp

theorem installs_mem (build : Text → Option T) (es : List Ev) : ∀ (st : WB T) (t : T),
    t ∈ WB.installs build st es → ∃ text ∈ textsFrom st.svccfg st.mancfg es, build text = some t := by
  induction es with
  | nil => intro st t h; simp [WB.installs] at h
  | cons e es ih =>
    intro st t h
    simp only [WB.installs, List.mem_append] at h
    rw [recv_nextText_eq]
    rcases h with h | h
    · refine ⟨_, List.mem_cons_self, ?_⟩
      unfold WB.installed at h
      split at h
      · simp at h
      · simpa using h
    · obtain ⟨text, hm, hb⟩ := ih _ t h
      rw [(step_cfg build st e).1, (step_cfg build st e).2] at hm
      exact ⟨text, List.mem_cons_of_mem _ hm, hb⟩

end wb

end Fabio.Lemmas.C02
