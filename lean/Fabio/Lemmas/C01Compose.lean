import Fabio.Model.C01
import Fabio.Lemmas.C14
/-!
Helper lemmas for the composition of the C01 model with C14 (`routecmd.build`), `Model/Parse.lean` and the route
table: the two copies of the reverse string sort and of the newline join coincide; membership in
`serviceNames`; `route.Parse` of `a ++ "\n" ++ b` reads `a` and `b` independently (both directions).
-/
namespace Fabio.Lemmas.C01Compose
open Fabio Fabio.Model.C01
open Fabio.Model.Parse (parse parseLines rawLines splitOn join)
open Fabio.Model.Route (RouteDef)

/-! ### the model's sort / join are C14's -/

theorem strLt_eq : ∀ a b : Str, Fabio.Model.C01.strLt a b = Fabio.Model.Route.strLt a b
  | [], [] => rfl
  | [], _ :: _ => rfl
  | _ :: _, [] => rfl
  | a :: as, b :: bs => by
    simp only [Fabio.Model.C01.strLt, Fabio.Model.Route.strLt, strLt_eq as bs]

theorem insertDesc_eq (s : Str) (l : List Str) :
    Fabio.Model.C01.insertDesc s l = Fabio.Model.C14.insertDescStr s l := by
  induction l with
  | nil => rfl
  | cons x xs ih => simp only [Fabio.Model.C01.insertDesc, Fabio.Model.C14.insertDescStr, strLt_eq, ih]

theorem sortDesc_eq (l : List Str) : Fabio.Model.C01.sortDesc l = Fabio.Model.C14.sortDesc l := by
  unfold Fabio.Model.C01.sortDesc Fabio.Model.C14.sortDesc
  induction l with
  | nil => rfl
  | cons x xs ih => simp only [List.foldr_cons, ih, insertDesc_eq]

theorem joinLines_eq (l : List Str) : joinLines l = join ['\n'] l := by
  induction l with
  | nil => rfl
  | cons x xs ih =>
    cases xs with
    | nil => rfl
    | cons y r =>
      simp only [joinLines, join, ih]
      simp

theorem concatCfg_eq_join (a b : Str) : concatCfg a b = join ['\n'] [a, b] := by
  simp [concatCfg, join]

/-! ### `serviceNames` -/

theorem mem_serviceNames_aux (l : List Check) (acc : List Str) (name : Str) :
    name ∈ l.foldl (fun acc c => if acc.contains c.serviceName then acc else acc ++ [c.serviceName]) acc ↔
      name ∈ acc ∨ ∃ c ∈ l, c.serviceName = name := by
  induction l generalizing acc with
  | nil => simp
  | cons c cs ih =>
    rw [List.foldl_cons, ih]
    by_cases hc : acc.contains c.serviceName = true
    · simp only [hc, if_true, List.mem_cons, exists_eq_or_imp]
      constructor
      · rintro (h | h)
        · exact .inl h
        · exact .inr (.inr h)
      · rintro (h | h | h)
        · exact .inl h
        · left; rw [← h]; simpa using hc
        · exact .inr h
    · simp only [hc, Bool.false_eq_true, if_false, List.mem_append, List.mem_singleton]
      simp only [List.mem_cons, exists_eq_or_imp]
      constructor
      · rintro ((h | h) | h)
        · exact .inl h
        · exact .inr (.inl h.symm)
        · exact .inr (.inr h)
      · rintro (h | h | h)
        · exact .inl (.inl h)
        · exact .inl (.inr h.symm)
        · exact .inr h

theorem mem_serviceNames (l : List Check) (name : Str) :
    name ∈ serviceNames l ↔ ∃ c ∈ l, c.serviceName = name := by
  unfold serviceNames
  rw [mem_serviceNames_aux]
  simp

/-! ### `route.Parse` of two texts joined by a newline -/

theorem parseLines_append_inv (pf : Fabio.Model.Parse.ParseFloat) (a b : List Str) :
    ∀ (i : Nat) (ds : List RouteDef), parseLines pf i (a ++ b) = .ok ds →
      ∃ da db, parseLines pf i a = .ok da ∧ parseLines pf (i + a.length) b = .ok db ∧ ds = da ++ db := by
  induction a with
  | nil => intro i ds h; exact ⟨[], ds, rfl, by simpa using h, rfl⟩
  | cons x xs ih =>
    intro i ds h
    rw [List.cons_append] at h
    simp only [parseLines] at h ⊢
    split at h
    · cases h
    · next hlen =>
      rw [if_neg hlen]
      cases hp : Fabio.Model.Parse.parseLine pf (Fabio.Model.Parse.dropCR x) with
      | error e => rw [hp] at h; cases e <;> cases h
      | ok o =>
        rw [hp] at h
        have hlen' : i + (x :: xs).length = (i + 1) + xs.length := by simp; omega
        cases o with
        | none =>
          obtain ⟨da, db, h1, h2, h3⟩ := ih _ _ h
          exact ⟨da, db, h1, by rw [hlen']; exact h2, h3⟩
        | some d =>
          simp only at h ⊢
          cases hr : parseLines pf (i+1) (xs ++ b) with
          | error e => rw [hr] at h; cases h
          | ok r =>
            rw [hr] at h
            cases h
            obtain ⟨da, db, h1, h2, h3⟩ := ih _ _ hr
            refine ⟨d :: da, db, ?_, by rw [hlen']; exact h2, by rw [h3]; rfl⟩
            rw [h1]

/-- both directions: the text `a ++ "\n" ++ b` parses iff `a` and `b` parse, and then to the concatenation -/
theorem parse_concat_iff (pf : Fabio.Model.Parse.ParseFloat) (a b : Str) (ds : List RouteDef) :
    parse pf (concatCfg a b) = .ok ds ↔
      ∃ da db, parse pf a = .ok da ∧ parse pf b = .ok db ∧ ds = da ++ db := by
  constructor
  · intro h
    rw [concatCfg_eq_join] at h
    unfold parse at h
    rw [Fabio.Lemmas.C14.parseLines_rawLines, Fabio.Lemmas.C14.splitOn_join_flat '\n' [a, b] (by simp)] at h
    simp only [List.flatMap_cons, List.flatMap_nil, List.append_nil] at h
    obtain ⟨da, db, h1, h2, h3⟩ := parseLines_append_inv pf _ _ _ _ h
    refine ⟨da, db, ?_, ?_, h3⟩
    · unfold parse; rw [Fabio.Lemmas.C14.parseLines_rawLines]; exact h1
    · unfold parse; rw [Fabio.Lemmas.C14.parseLines_rawLines]
      exact Fabio.Lemmas.C14.parseLines_shift pf _ _ 1 _ h2
  · rintro ⟨da, db, h1, h2, rfl⟩
    rw [concatCfg_eq_join]
    have := Fabio.Lemmas.C14.parse_join pf [a, b] (fun c => if c = a then da else db) (by
      intro c hc
      simp only [List.mem_cons, List.mem_nil_iff, or_false] at hc
      by_cases hca : c = a
      · simp only [hca, if_true]; exact h1
      · rcases hc with hc | hc
        · exact absurd hc hca
        · simp only [hca, if_false]; rw [hc]; exact h2)
    rw [this]
    by_cases hba : b = a
    · subst hba
      rw [h1] at h2
      cases h2
      simp
    · simp [hba]

end Fabio.Lemmas.C01Compose
