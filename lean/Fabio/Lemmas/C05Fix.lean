import Fabio.Lemmas.C05Weight
import Fabio.Lemmas.C05Del
import Fabio.Lemmas.C05Glue
import Fabio.Lemmas.C05Main
/-!
C05 (round 4): the text rendering is a *canonical form*. Two well-formed tables without empty routes whose routes
are in the order of the final sort and which route the same targets (up to the computed shares) render to the same
text — `render` is a function of the routing map. Consequence (`Props/C05.lean`, `rendered_text_is_fixpoint`): the
table rebuilt from `t.String()` renders to the text of `t` with the weights rounded to four decimals; rendering,
reading and rendering again changes nothing any more. Core Lean only.
-/
namespace Fabio.Lemmas.C05Fix
open Fabio Fabio.Model.Route Fabio.Model.Parse Fabio.Model.C05Spec Fabio.Lemmas

/-- a target without its computed share -/
def coreT (x : Target) : Target := { x with weight := 0 }

/-- every host's routes are in the order of the final sort -/
def Sorted (t : Table) : Prop := ∀ h, C05Weight.SortedDesc (t.get h)

/-! ### two list facts -/

theorem nodup_of_map {α β : Type} (f : α → β) : ∀ l : List α, (l.map f).Nodup → l.Nodup
  | [], _ => List.nodup_nil
  | x :: xs, h => by
    simp only [List.map_cons, List.nodup_cons] at h ⊢
    exact ⟨fun hx => h.1 (List.mem_map.2 ⟨x, hx, rfl⟩), nodup_of_map f xs h.2⟩

theorem flatMap_congr' {α β : Type} {l : List α} {f g : α → List β} (h : ∀ x ∈ l, f x = g x) :
    l.flatMap f = l.flatMap g := by
  induction l with
  | nil => rfl
  | cons x xs ih =>
    simp only [List.flatMap_cons]
    rw [h x (by simp), ih (fun y hy => h y (List.mem_cons_of_mem _ hy))]

/-! ### members of a well-formed table and the routing map -/

theorem lookup_of_mem {t : Table} (hn : (t.map (·.1)).Nodup) {h : Str} {rs : List Route} (hm : (h, rs) ∈ t) :
    t.lookup h = some rs := by
  induction t with
  | nil => cases hm
  | cons kv t ih =>
    obtain ⟨k, v⟩ := kv
    simp only [List.map_cons, List.nodup_cons] at hn
    rcases List.mem_cons.1 hm with he | hm'
    · injection he with h1 h2
      subst h1; subst h2
      simp [List.lookup]
    · have hne : h ≠ k := fun e => hn.1 (by rw [← e]; exact List.mem_map.2 ⟨(h, rs), hm', rfl⟩)
      have hb : (h == k) = false := by simpa using hne
      simp only [List.lookup, hb]
      exact ih hn.2 hm'

theorem get_of_mem {t : Table} (hw : WF t) {h : Str} {rs : List Route} (hm : (h, rs) ∈ t) : t.get h = rs := by
  unfold Table.get
  rw [lookup_of_mem hw.hosts hm]
  rfl

theorem of_mem_get {t : Table} (hw : WF t) {h : Str} {r : Route} (hr : r ∈ t.get h) :
    (h, t.get h) ∈ t ∧ r.host = h ∧ abs t h r.path = r.targets := by
  rcases C05Del.get_mem_or_nil t h with h0 | h0
  · rw [h0] at hr; cases hr
  · refine ⟨h0, hw.hostOf _ h0 r hr, ?_⟩
    have hf : findRoute (t.get h) r.path = some r := C05Glue.find_of_mem_nodup hr (hw.paths _ h0)
    show targetsAt t h r.path = _
    unfold targetsAt Table.route
    rw [hf]

theorem mem_get_of_abs {t : Table} {h p : Str} (hne : abs t h p ≠ []) :
    ∃ r ∈ t.get h, r.path = p ∧ r.targets = abs t h p := by
  have hd : abs t h p = targetsAt t h p := rfl
  unfold targetsAt at hd
  cases hr : t.route h p with
  | none => rw [hr] at hd; exact absurd hd hne
  | some r =>
    rw [hr] at hd
    obtain ⟨rs0, _, hget, hm, hp⟩ := C05Del.route_some hr
    exact ⟨r, by rw [hget]; exact hm, hp, hd.symm⟩

theorem keys_iff {t : Table} (hw : WF t) (hn : NoEmpty t) (x : Str) : x ∈ t.map (·.1) ↔ ∃ p, abs t x p ≠ [] := by
  constructor
  · intro hx
    obtain ⟨kv, hkv, rfl⟩ := List.mem_map.1 hx
    obtain ⟨k, rs⟩ := kv
    have hne := hn _ hkv
    have hg : t.get k = rs := get_of_mem hw hkv
    cases hrs : rs with
    | nil => exact absurd hrs hne.1
    | cons r l =>
      have hr : r ∈ t.get k := by rw [hg, hrs]; simp
      refine ⟨r.path, ?_⟩
      rw [(of_mem_get hw hr).2.2]
      exact hne.2 r (by rw [hrs]; simp)
  · rintro ⟨p, hp⟩
    obtain ⟨r, hr, _, _⟩ := mem_get_of_abs hp
    exact List.mem_map.2 ⟨_, (of_mem_get hw hr).1, rfl⟩

/-! ### what the text of a route depends on -/

/-- the key of a route inside its host: path and targets without shares -/
def rk (r : Route) : Str × List Target := (r.path, r.targets.map coreT)

/-- the lines of a route, from its host and key -/
def cfgK (h : Str) (k : Str × List Target) : List Str := k.2.map (renderTarget ⟨h, k.1, []⟩)

theorem routeConfig_rk {h : Str} {r : Route} (hh : r.host = h) : routeConfig r = cfgK h (rk r) := by
  subst hh
  unfold routeConfig cfgK rk
  rw [List.map_map]
  rfl

def klt (a b : Str × List Target) : Bool := pathLt a.1 b.1

theorem desc_keys {l : List Route} (hs : C05Weight.SortedDesc l) : C05Weight.Desc klt (l.map rk) := by
  unfold C05Weight.Desc
  rw [List.pairwise_map]
  exact hs

theorem nodup_keys {l : List Route} (hn : (l.map (·.path)).Nodup) : (l.map rk).Nodup := by
  have : (l.map rk).map (·.1) = l.map (·.path) := by rw [List.map_map]; rfl
  rw [← this] at hn
  exact nodup_of_map _ _ hn

variable {a b : Table}

/-- the two tables route the same targets, shares aside -/
def SameCore (a b : Table) : Prop := ∀ h p, (abs a h p).map coreT = (abs b h p).map coreT

theorem SameCore.symm (h : SameCore a b) : SameCore b a := fun x p => (h x p).symm

theorem SameCore.ne (h : SameCore a b) {x p : Str} (hne : abs a x p ≠ []) : abs b x p ≠ [] := by
  intro he
  have := h x p
  rw [he] at this
  simp at this
  exact hne this

theorem keys_sub (hwa : WF a) (hna : NoEmpty a) (hc : SameCore a b) (h : Str) :
    ∀ k ∈ (a.get h).map rk, k ∈ (b.get h).map rk := by
  intro k hk
  obtain ⟨r, hr, rfl⟩ := List.mem_map.1 hk
  obtain ⟨h0, _, habs⟩ := of_mem_get hwa hr
  have hne : abs a h r.path ≠ [] := by rw [habs]; exact (hna _ h0).2 r hr
  obtain ⟨r', hr', hp', ht'⟩ := mem_get_of_abs (hc.ne hne)
  refine List.mem_map.2 ⟨r', hr', ?_⟩
  unfold rk
  rw [hp', ht', ← hc h r.path, habs]

theorem nodup_paths (hw : WF a) (h : Str) : ((a.get h).map (·.path)).Nodup := by
  rcases C05Del.get_mem_or_nil a h with h0 | h0
  · rw [h0]; simp
  · exact hw.paths _ h0

theorem keys_eq (hwa : WF a) (hwb : WF b) (hna : NoEmpty a) (hnb : NoEmpty b) (hsa : Sorted a) (hsb : Sorted b)
    (hc : SameCore a b) (h : Str) : (a.get h).map rk = (b.get h).map rk := by
  apply C05Weight.desc_unique klt (fun _ _ h1 h2 => C05Weight.pathLt_asymm _ _ h1 h2)
  · rw [List.perm_ext_iff_of_nodup (nodup_keys (nodup_paths hwa h)) (nodup_keys (nodup_paths hwb h))]
    intro k
    exact ⟨keys_sub hwa hna hc h k, keys_sub hwb hnb hc.symm h k⟩
  · exact desc_keys (hsa h)
  · exact desc_keys (hsb h)

theorem config_host (hw : WF a) (h : Str) :
    (a.get h).flatMap routeConfig = ((a.get h).map rk).flatMap (cfgK h) := by
  rw [List.flatMap_map]
  apply flatMap_congr'
  intro r hr
  exact routeConfig_rk (of_mem_get hw hr).2.1

theorem hostOrder_same (hwa : WF a) (hwb : WF b) (hna : NoEmpty a) (hnb : NoEmpty b) (hc : SameCore a b) :
    hostOrder a = hostOrder b := by
  rw [C05Weight.hostOrder_eq, C05Weight.hostOrder_eq]
  congr 1
  have hn : ((a.map (·.1)).filter (fun h => !h.isEmpty)).Nodup := List.Nodup.sublist List.filter_sublist hwa.hosts
  have hn' : ((b.map (·.1)).filter (fun h => !h.isEmpty)).Nodup := List.Nodup.sublist List.filter_sublist hwb.hosts
  have hp : ((a.map (·.1)).filter (fun h => !h.isEmpty)).Perm ((b.map (·.1)).filter (fun h => !h.isEmpty)) := by
    rw [List.perm_ext_iff_of_nodup hn hn']
    intro x
    simp only [List.mem_filter]
    rw [keys_iff hwa hna, keys_iff hwb hnb]
    constructor
    · rintro ⟨⟨p, hp⟩, hx⟩; exact ⟨⟨p, hc.ne hp⟩, hx⟩
    · rintro ⟨⟨p, hp⟩, hx⟩; exact ⟨⟨p, hc.symm.ne hp⟩, hx⟩
  apply C05Weight.desc_unique strLt C05Weight.strLt_asymm
  · exact ((C05Weight.isort_perm strLt _).trans hp).trans (C05Weight.isort_perm strLt _).symm
  · exact C05Weight.isort_desc strLt C05Weight.strLt_trans _ (C05Weight.comparable_strs _ hn)
  · exact C05Weight.isort_desc strLt C05Weight.strLt_trans _ (C05Weight.comparable_strs _ hn')

/-- **the rendering is a function of the routing map**: well-formed tables without empty routes, in final-sort
order, that route the same targets (shares aside) have the same text -/
theorem render_canonical (hwa : WF a) (hwb : WF b) (hna : NoEmpty a) (hnb : NoEmpty b) (hsa : Sorted a) (hsb : Sorted b)
    (hc : SameCore a b) : render a = render b := by
  unfold render config
  rw [hostOrder_same hwa hwb hna hnb hc]
  congr 1
  apply flatMap_congr'
  intro h _
  rw [config_host hwa h, config_host hwb h, keys_eq hwa hwb hna hnb hsa hsb hc h]

/-! ### the table with every target as the text carries it -/

def normRoute (r : Route) : Route := { r with targets := r.targets.map norm4 }

/-- every target replaced by what the text carries of it: weight to four decimals, options sorted -/
def normTable (t : Table) : Table := mapRoutes t normRoute

theorem get_norm (t : Table) (h : Str) : (normTable t).get h = (t.get h).map normRoute :=
  C05Del.get_mapRoutes t normRoute h

theorem wf_norm {t : Table} (hw : WF t) : WF (normTable t) := by
  refine ⟨?_, ?_, ?_⟩
  · have : (normTable t).map (·.1) = t.map (·.1) := by
      unfold normTable mapRoutes; rw [List.map_map]; rfl
    rw [this]; exact hw.hosts
  · intro kv hkv
    unfold normTable mapRoutes at hkv
    obtain ⟨kv0, h0, rfl⟩ := List.mem_map.1 hkv
    have : (kv0.2.map normRoute).map (·.path) = kv0.2.map (·.path) := by rw [List.map_map]; rfl
    show ((kv0.2.map normRoute).map (·.path)).Nodup
    rw [this]; exact hw.paths _ h0
  · intro kv hkv r hr
    unfold normTable mapRoutes at hkv
    obtain ⟨kv0, h0, rfl⟩ := List.mem_map.1 hkv
    obtain ⟨r0, hr0, rfl⟩ := List.mem_map.1 hr
    exact hw.hostOf _ h0 r0 hr0

theorem noEmpty_norm {t : Table} (hn : NoEmpty t) : NoEmpty (normTable t) := by
  intro kv hkv
  unfold normTable mapRoutes at hkv
  obtain ⟨kv0, h0, rfl⟩ := List.mem_map.1 hkv
  have := hn _ h0
  refine ⟨by simpa using this.1, ?_⟩
  intro r hr
  obtain ⟨r0, hr0, rfl⟩ := List.mem_map.1 hr
  have := this.2 r0 hr0
  simpa [normRoute] using this

theorem sorted_norm {t : Table} (hs : Sorted t) : Sorted (normTable t) := by
  intro h
  rw [get_norm]
  unfold C05Weight.SortedDesc
  rw [List.pairwise_map]
  exact hs h

theorem find_norm (rs : List Route) (p : Str) : findRoute (rs.map normRoute) p = (findRoute rs p).map normRoute := by
  induction rs with
  | nil => rfl
  | cons x xs ih =>
    unfold findRoute at ih ⊢
    simp only [List.map_cons, List.find?_cons]
    have : (normRoute x).path = x.path := rfl
    rw [this]
    split
    · rfl
    · exact ih

theorem abs_norm (t : Table) (h p : Str) : abs (normTable t) h p = (abs t h p).map norm4 := by
  show targetsAt (normTable t) h p = (targetsAt t h p).map norm4
  unfold targetsAt Table.route
  rw [get_norm, find_norm]
  cases findRoute (t.get h) p <;> rfl

theorem weigh_coreT (ts : List Target) : (weigh ts).map coreT = ts.map coreT := by
  rw [C05Del.weigh_eq, List.map_map]
  apply List.map_congr_left
  intro x _
  simp only [Function.comp, coreT, C05Del.wfun]
  split
  · rfl
  · split <;> rfl

/-- the table `NewTable` returns is in final-sort order -/
theorem newTable_sorted {env : Env} {defs : List RouteDef} {t : Table} (h : newTable env defs = .ok t) : Sorted t := by
  rw [C05Main.newTable_eq] at h
  cases hf : defs.foldlM (applyDef env) ([] : Table) with
  | error e => rw [hf] at h; cases h
  | ok t0 =>
    rw [hf] at h
    simp only [Except.map] at h
    cases h
    have hg := C05Main.good_fold defs C05Main.good_nil hf
    intro x
    rw [C05Weight.get_sortTable]
    exact C05Weight.sortRoutes_sorted _ (nodup_paths hg.inv.wf x)

/-- a table that routes `weigh (targets.map norm4)` wherever `t` routes `targets` renders like `normTable t` -/
theorem render_of_rebuilt {t t2 : Table} (hi : Inv t) (hs : Sorted t) (hi2 : Inv t2) (hs2 : Sorted t2)
    (ha : abs t2 = fun h p => weigh ((abs t h p).map norm4)) : render t2 = render (normTable t) := by
  apply render_canonical hi2.wf (wf_norm hi.wf) hi2.noEmpty (noEmpty_norm hi.noEmpty) hs2 (sorted_norm hs)
  intro h p
  rw [ha, abs_norm]
  exact weigh_coreT _

end Fabio.Lemmas.C05Fix
