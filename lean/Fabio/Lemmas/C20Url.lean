import Fabio.Model.C20Url
/-! C20 helper lemmas about the `net/url` model: `unescape ∘ escape = id`, the alphabet of an escaped path,
the shape of `String()` / `RequestURI()` for the URLs the proxy logs. Core Lean only. -/
namespace Fabio.Lemmas.C20Url
open Fabio.Model.C20Url

theorem hexdigit_roundtrip : ∀ n, n < 16 → unhex (upperhexDigit n) = n ∧ ishex (upperhexDigit n) = true := by
  decide

theorem pct_always_escaped (mode : Mode) : shouldEscape 37 mode = true := by
  cases mode <;> decide

theorem escape_cons (c : Nat) (s : Bytes) (mode : Mode) :
    escape (c :: s) mode = escapeByte mode c ++ escape s mode := by
  simp [escape]

theorem escape_nil (mode : Mode) : escape [] mode = [] := rfl

theorem escape_append (a b : Bytes) (mode : Mode) : escape (a ++ b) mode = escape a mode ++ escape b mode := by
  simp [escape]

theorem unescape_pct (a b : Nat) (rest : Bytes) (ha : ishex a = true) (hb : ishex b = true) :
    unescape (37 :: a :: b :: rest) = (unescape rest).map ((unhex a * 16 + unhex b) :: ·) := by
  conv => lhs; unfold unescape
  simp [ha, hb]

theorem unescape_plain (c : Nat) (rest : Bytes) (h : c ≠ 37) :
    unescape (c :: rest) = (unescape rest).map (c :: ·) := by
  conv => lhs; unfold unescape
  simp only [h, if_false]

/-- decoding what `escape` produced gives the original bytes back, in every mode -/
theorem unescape_escape (mode : Mode) (s : Bytes) (wf : wellFormed s) : unescape (escape s mode) = some s := by
  induction s with
  | nil => simp [escape, unescape]
  | cons c s ih =>
    have hc : c < 256 := wf c (by simp)
    have wf' : wellFormed s := fun x hx => wf x (by simp [hx])
    rw [escape_cons]
    unfold escapeByte
    cases he : shouldEscape c mode
    case true =>
      have h1 := hexdigit_roundtrip (c / 16) (by omega)
      have h2 := hexdigit_roundtrip (c % 16) (by omega)
      simp only [if_true, List.cons_append, List.nil_append]
      rw [unescape_pct _ _ _ h1.2 h2.2, ih wf', h1.1, h2.1]
      simp
      omega
    case false =>
      have hne : c ≠ 37 := by
        intro h; subst h; rw [pct_always_escaped mode] at he; cases he
      simp only [Bool.false_eq_true, if_false, List.cons_append, List.nil_append]
      rw [unescape_plain _ _ hne, ih wf']
      simp

set_option maxRecDepth 100000 in
theorem safe_of_kept : ∀ c, c < 256 → shouldEscape c .path = false → pathSafe c = true := by decide

set_option maxRecDepth 100000 in
theorem safe_of_valid : ∀ c, c < 256 → (validExtra.contains c || !shouldEscape c .path) = true → pathSafe c = true := by
  decide

theorem safe_hexdigit : ∀ n, n < 16 → pathSafe (upperhexDigit n) = true := by decide

theorem escape_path_safe (s : Bytes) (wf : wellFormed s) : ∀ c ∈ escape s .path, pathSafe c = true := by
  induction s with
  | nil => simp [escape]
  | cons x s ih =>
    have hx : x < 256 := wf x (by simp)
    have wf' : wellFormed s := fun y hy => wf y (by simp [hy])
    intro c hc
    rw [escape_cons, List.mem_append] at hc
    rcases hc with hc | hc
    · unfold escapeByte at hc
      cases he : shouldEscape x .path
      case true =>
        simp only [he, if_true, List.mem_cons, List.not_mem_nil, or_false] at hc
        rcases hc with rfl | rfl | rfl
        · decide
        · exact safe_hexdigit _ (by omega)
        · exact safe_hexdigit _ (by omega)
      case false =>
        simp only [he, Bool.false_eq_true, if_false, List.mem_cons, List.not_mem_nil, or_false] at hc
        subst hc
        exact safe_of_kept _ hx he
    · exact ih wf' c hc

theorem validEncoded_safe (s : Bytes) (wf : wellFormed s) (h : validEncoded s .path = true) :
    ∀ c ∈ s, pathSafe c = true := by
  intro c hc
  unfold validEncoded at h
  rw [List.all_eq_true] at h
  exact safe_of_valid c (wf c hc) (h c hc)

/-- whichever branch `EscapedPath` takes, the result decodes to `Path` -/
theorem escapedPath_decodes (u : URL) (wf : wellFormed u.path) : unescape (escapedPath u) = some u.path := by
  unfold escapedPath
  split
  · rename_i h; exact h.2.2
  · split
    · rename_i h; rw [h]; decide
    · exact unescape_escape .path u.path wf

/-- … and consists of path-safe bytes only -/
theorem escapedPath_safe (u : URL) (wf : wellFormed u.path) (wfr : wellFormed u.rawPath) :
    ∀ c ∈ escapedPath u, pathSafe c = true := by
  unfold escapedPath
  split
  · rename_i h; exact validEncoded_safe _ wfr h.2.1
  · split
    · intro c hc; simp at hc; subst hc; decide
    · exact escape_path_safe _ wf

theorem requestURI_noOpaque (u : URL) (h : u.opaq = []) :
    requestURI u = (if escapedPath u = [] then [47] else escapedPath u) ++ queryPart u := by
  simp [requestURI, h]

/-- The URLs the proxy hands to the logger (`requestURL`, `targetURL` in `ServeHTTP`): a scheme, a host, a
path that is empty or absolute, a raw query; no opaque part, user info or fragment. -/
structure ProxyForm (u : URL) : Prop where
  scheme : u.scheme ≠ []
  host : u.host ≠ []
  opaq : u.opaq = []
  user : u.user = none
  fragment : u.fragment = []
  absPath : (escapedPath u).head? = some 47

theorem urlString_proxyForm (u : URL) (h : ProxyForm u) :
    urlString u = u.scheme ++ [58, 47, 47] ++ escape u.host .host ++ requestURI u := by
  have hp : escapedPath u ≠ [] := by
    intro hn; have := h.absPath; rw [hn] at this; simp at this
  have hs0 : (u.scheme ++ [58] : Bytes) ≠ [] := by simp
  rw [requestURI_noOpaque u h.opaq]
  simp [urlString, authority, h.scheme, h.host, h.opaq, h.user, h.fragment, h.absPath, hp]

set_option maxRecDepth 100000 in
theorem pathSafe_printable_byte : ∀ c, c < 256 → pathSafe c = true →
    33 ≤ c ∧ c ≤ 126 ∧ c ≠ 34 ∧ c ≠ 63 ∧ c ≠ 35 ∧ c ≠ 92 := by decide

theorem pathSafe_printable (c : Nat) (h : pathSafe c = true) :
    33 ≤ c ∧ c ≤ 126 ∧ c ≠ 34 ∧ c ≠ 63 ∧ c ≠ 35 ∧ c ≠ 92 := by
  by_cases hc : c < 256
  · exact pathSafe_printable_byte c hc h
  · exfalso
    simp [pathSafe, isAlnum] at h
    omega

end Fabio.Lemmas.C20Url
