import Fabio.Model.C01
/-!
Helper lemmas for C01 (core Lean only): the inner loop of `passingServices` as a fold — its counting
invariant when no check blocks, stickiness of the skip flag, and "a blocking check sets the flag" — and the
characterisation of `keep` by the English rule `HealthyAt`.
-/
namespace Fabio.Lemmas.C01
open Fabio.Model.C01

/-- `c` is a check of the same node and service id as `svc` -/
def same (svc c : Check) : Bool := svc.node == c.node && svc.serviceID == c.serviceID

/-- `c` makes the loop for `svc` take `continue CHECKS` -/
def blocks (svc c : Check) : Bool :=
  svc.node == c.node &&
   ((c.checkID == serf && c.status == critical) || c.checkID == nodeMaint ||
    (c.checkID == svcMaintPfx ++ svc.serviceID && c.status == critical))

theorem inner_noblock (svc : Check) (st : List Str) (a : Acc) (c : Check)
    (ha : a.skip = false) (hc : blocks svc c = false) :
    (inner svc st a c).skip = false ∧
    (inner svc st a c).total = a.total + (if same svc c then 1 else 0) ∧
    (inner svc st a c).passing = a.passing + (if same svc c && hasStatus c st then 1 else 0) := by
  unfold inner
  simp only [ha, Bool.false_eq_true, if_false]
  unfold blocks at hc
  unfold same
  by_cases hn : (svc.node == c.node) = true
  · simp only [hn, Bool.true_and, if_true] at hc ⊢
    simp only [Bool.or_eq_false_iff] at hc
    obtain ⟨⟨h1, h2⟩, h3⟩ := hc
    simp only [h1, h2, h3, Bool.false_eq_true, if_false]
    by_cases hs : (svc.serviceID == c.serviceID) = true
    · by_cases hp : hasStatus c st = true <;> simp [hs, hp]
    · simp [hs, ha]
  · simp [hn, ha]

theorem inner_block (svc : Check) (st : List Str) (a : Acc) (c : Check) (hc : blocks svc c = true) :
    (inner svc st a c).skip = true := by
  unfold inner
  by_cases ha : a.skip = true
  · simp [ha]
  · simp only [ha, Bool.false_eq_true, if_false]
    unfold blocks at hc
    simp only [Bool.and_eq_true, Bool.or_eq_true] at hc
    obtain ⟨hn, hb⟩ := hc
    simp only [hn, if_true]
    rcases hb with (⟨h1, h1'⟩ | h2) | ⟨h3, h3'⟩
    · simp [h1, h1']
    · by_cases h1 : (c.checkID == serf && c.status == critical) = true
      · simp [h1]
      · simp [h1, h2]
    · by_cases h1 : (c.checkID == serf && c.status == critical) = true
      · simp [h1]
      · by_cases h2 : (c.checkID == nodeMaint) = true
        · simp [h1, h2]
        · simp [h2, h3, h3']

theorem fold_skip (svc : Check) (st : List Str) (l : List Check) (a : Acc) (ha : a.skip = true) :
    (l.foldl (inner svc st) a).skip = true := by
  induction l generalizing a with
  | nil => simpa
  | cons c cs ih => simp only [List.foldl_cons]; apply ih; simp [inner, ha]

theorem fold_noblock (svc : Check) (st : List Str) (l : List Check) (a : Acc)
    (ha : a.skip = false) (hb : l.any (blocks svc) = false) :
    (l.foldl (inner svc st) a).skip = false ∧
    (l.foldl (inner svc st) a).total = a.total + (l.filter (same svc)).length ∧
    (l.foldl (inner svc st) a).passing = a.passing + (l.filter (fun c => same svc c && hasStatus c st)).length := by
  induction l generalizing a with
  | nil => simp [ha]
  | cons c cs ih =>
    simp only [List.any_cons, Bool.or_eq_false_iff] at hb
    obtain ⟨hc, hcs⟩ := hb
    simp only [List.foldl_cons]
    obtain ⟨k1, k2, k3⟩ := inner_noblock svc st a c ha hc
    obtain ⟨r1, r2, r3⟩ := ih (inner svc st a c) k1 hcs
    refine ⟨r1, ?_, ?_⟩
    · rw [r2, k2]; simp only [List.filter_cons]; split <;> simp <;> omega
    · rw [r3, k3]; simp only [List.filter_cons]; split <;> simp <;> omega

theorem fold_block (svc : Check) (st : List Str) (l : List Check) (a : Acc)
    (hb : l.any (blocks svc) = true) : (l.foldl (inner svc st) a).skip = true := by
  induction l generalizing a with
  | nil => simp at hb
  | cons c cs ih =>
    simp only [List.foldl_cons]
    simp only [List.any_cons, Bool.or_eq_true] at hb
    rcases hb with hc | hcs
    · exact fold_skip svc st cs _ (inner_block svc st a c hc)
    · exact ih _ hcs

/-- two filters of one list have the same length iff the stronger predicate holds wherever the weaker does -/
theorem filter_and_le {α} (p q : α → Bool) (xs : List α) :
    (xs.filter (fun c => p c && q c)).length ≤ (xs.filter p).length := by
  induction xs with
  | nil => simp
  | cons y ys ihy =>
    simp only [List.filter_cons]
    by_cases hp : p y = true <;> by_cases hq : q y = true <;> simp [hp, hq] <;> omega

theorem filter_and_length_eq {α} (p q : α → Bool) (l : List α) :
    (l.filter p).length = (l.filter (fun c => p c && q c)).length ↔ ∀ c ∈ l, p c = true → q c = true := by
  induction l with
  | nil => simp
  | cons x xs ih =>
    have hle := filter_and_le p q xs
    simp only [List.filter_cons, List.mem_cons, forall_eq_or_imp]
    rw [← ih]
    by_cases hp : p x = true <;> by_cases hq : q x = true <;> simp [hp, hq] <;> omega

theorem filter_length_pos {α} (p : α → Bool) (l : List α) :
    (l.filter p).length ≠ 0 ↔ ∃ c ∈ l, p c = true := by
  induction l with
  | nil => simp
  | cons x xs ih =>
    simp only [List.filter_cons, List.mem_cons, exists_eq_or_imp]
    rw [← ih]
    by_cases hp : p x = true <;> simp [hp]

theorem blocks_false_iff (svc c : Check) :
    blocks svc c = false ↔
      (c.node = svc.node →
        ¬ (c.checkID = serf ∧ c.status = critical) ∧ c.checkID ≠ nodeMaint ∧
        ¬ (c.checkID = svcMaintPfx ++ svc.serviceID ∧ c.status = critical)) := by
  unfold blocks
  by_cases hn : svc.node = c.node
  · simp only [hn, beq_self_eq_true, Bool.true_and, Bool.or_eq_false_iff, Bool.and_eq_false_iff,
      beq_eq_false_iff_ne, ne_eq, true_implies, Classical.not_and_iff_not_or_not]
    constructor
    · rintro ⟨⟨h1, h2⟩, h3⟩; exact ⟨h1, h2, h3⟩
    · rintro ⟨h1, h2, h3⟩; exact ⟨⟨h1, h2⟩, h3⟩
  · have h1 : (svc.node == c.node) = false := by simpa using hn
    have h2 : ¬ c.node = svc.node := fun h => hn h.symm
    simp only [h1, Bool.false_and, h2, false_implies]

theorem any_blocks_iff (cs : List Check) (svc : Check) :
    cs.any (blocks svc) = false ↔
      (∀ c ∈ cs, c.node = svc.node → ¬ (c.checkID = serf ∧ c.status = critical)) ∧
      (∀ c ∈ cs, c.node = svc.node → c.checkID ≠ nodeMaint) ∧
      (∀ c ∈ cs, c.node = svc.node → ¬ (c.checkID = svcMaintPfx ++ svc.serviceID ∧ c.status = critical)) := by
  rw [List.any_eq_false]
  constructor
  · intro h
    refine ⟨?_, ?_, ?_⟩ <;> intro c hc hn
    · exact ((blocks_false_iff svc c).1 (by simpa using h c hc) hn).1
    · exact ((blocks_false_iff svc c).1 (by simpa using h c hc) hn).2.1
    · exact ((blocks_false_iff svc c).1 (by simpa using h c hc) hn).2.2
  · rintro ⟨h1, h2, h3⟩ c hc
    have := (blocks_false_iff svc c).2 (fun hn => ⟨h1 c hc hn, h2 c hc hn, h3 c hc hn⟩)
    simp [this]

/-- The body of the outer loop decides exactly the English rule. -/
theorem keep_iff (cs : List Check) (st : List Str) (strict : Bool) (svc : Check) :
    keep cs st strict svc = true ↔ isServiceCheck svc = true ∧ HealthyAt cs st strict svc.node svc.serviceID := by
  unfold keep
  by_cases hs : isServiceCheck svc = true
  case neg => simp [hs]
  simp only [hs, Bool.not_true, Bool.false_eq_true, if_false, true_and]
  by_cases hb : cs.any (blocks svc) = true
  · -- blocked: the flag is set; HealthyAt fails
    have := fold_block svc st cs {} hb
    simp only [this, if_true, Bool.false_eq_true, false_iff]
    intro hH
    obtain ⟨_, _, h3, h4, h5⟩ := hH
    have hnb := (any_blocks_iff cs svc).2 ⟨h3, h4, h5⟩
    rw [hnb] at hb
    exact Bool.false_ne_true hb
  · have hb' : cs.any (blocks svc) = false := by simpa using hb
    obtain ⟨r1, r2, r3⟩ := fold_noblock svc st cs {} rfl hb'
    obtain ⟨h3, h4, h5⟩ := (any_blocks_iff cs svc).1 hb'
    simp only [r1, Bool.false_eq_true, if_false, r2, r3, Nat.zero_add]
    have hpos := filter_length_pos (fun c => same svc c && hasStatus c st) cs
    have hall := filter_and_length_eq (same svc) (fun c => hasStatus c st) cs
    have hex : (∃ c ∈ cs, (same svc c && hasStatus c st) = true) ↔
        ∃ c ∈ cs, c.node = svc.node ∧ c.serviceID = svc.serviceID ∧ c.status ∈ st := by
      constructor
      · rintro ⟨c, hc, h⟩
        simp [same, hasStatus] at h
        exact ⟨c, hc, h.1.1.symm, h.1.2.symm, h.2⟩
      · rintro ⟨c, hc, h1, h2, h3⟩
        exact ⟨c, hc, by simp [same, hasStatus, h1, h2, h3]⟩
    have hfa : (∀ c ∈ cs, same svc c = true → hasStatus c st = true) ↔
        ∀ c ∈ cs, c.node = svc.node → c.serviceID = svc.serviceID → c.status ∈ st := by
      constructor
      · intro h c hc h1 h2
        have := h c hc (by simp [same, h1, h2])
        simpa [hasStatus] using this
      · intro h c hc hsame
        simp [same] at hsame
        have := h c hc hsame.1.symm hsame.2.symm
        simpa [hasStatus] using this
    unfold HealthyAt
    by_cases hp0 : (cs.filter (fun c => same svc c && hasStatus c st)).length = 0
    · simp only [hp0, beq_self_eq_true, if_true, Bool.false_eq_true, false_iff]
      intro hH
      exact (hpos.2 (hex.2 hH.1)) hp0
    · have hex' := hex.1 (hpos.1 hp0)
      have hne : ((cs.filter (fun c => same svc c && hasStatus c st)).length == 0) = false := by
        simpa using hp0
      simp only [hne, Bool.false_eq_true, if_false]
      cases strict with
      | false =>
        simp only [Bool.false_and, Bool.false_eq_true, if_false, true_iff]
        exact ⟨hex', by simp, h3, h4, h5⟩
      | true =>
        simp only [Bool.true_and]
        by_cases heq : (cs.filter (same svc)).length = (cs.filter (fun c => same svc c && hasStatus c st)).length
        · have : ((cs.filter (same svc)).length != (cs.filter (fun c => same svc c && hasStatus c st)).length) = false := by
            simp [heq]
          simp only [this, Bool.false_eq_true, if_false, true_iff]
          exact ⟨hex', fun _ => hfa.1 (hall.1 heq), h3, h4, h5⟩
        · have : ((cs.filter (same svc)).length != (cs.filter (fun c => same svc c && hasStatus c st)).length) = true := by
            simp [heq]
          simp only [this, if_true, Bool.false_eq_true, false_iff]
          intro hH
          exact heq (hall.2 (hfa.2 (hH.2.1 trivial)))

end Fabio.Lemmas.C01
