import Fabio.Model.C05Spec
/-!
C05 — rebuilding a table from its text: running the `route add` definitions the rendering denotes
(`defsOfTable`) on the *spec machine*, starting from the empty spec, gives back per (host, path) the same target
list with the fixed weights rounded to four decimals and the options sorted (`norm4`), re-weighed.

Layers: one target (`specAdd_step`), one route (`block_run`), a list of routes with pairwise distinct
(host, path) (`run_blocks`), the table (`rebuild_spec`).  `key_of_key` shows that the `src` side condition of
`RebuildOK` holds for every (host, path) that `key` produced, i.e. for tables built by commands.
-/
namespace Fabio.Lemmas.C05Rebuild
open Fabio Fabio.Model.Route Fabio.Model.Parse Fabio.Model.C05Spec

/-! ### `weigh` (as in `Lemmas/C05Del.lean`) -/

/-- the per-target function `weigh` maps over the list (parameters: length, number of fixed, sum of fixed) -/
def wfun (n nf : Nat) (sf : Rat) (t : Target) : Target :=
  if nf = 0 then { t with weight := 1 / (n : Rat) }
  else
    if 0 < t.fixedWeight then
      { t with weight := t.fixedWeight * (if 1 < sf ∨ (nf = n ∧ sf < 1) then 1 / sf else 1) }
    else
      { t with weight := if (1 - sf) / ((n - nf : Nat) : Rat) < 0 then 0 else (1 - sf) / ((n - nf : Nat) : Rat) }

theorem weigh_eq (ts : List Target) :
    weigh ts = ts.map (wfun ts.length (nFixed ts) (sumFixed ts)) := by
  unfold weigh wfun
  split <;> simp [*]

theorem wfun_fixed (n nf : Nat) (sf : Rat) (t : Target) : (wfun n nf sf t).fixedWeight = t.fixedWeight := by
  unfold wfun
  split
  · rfl
  · split <;> rfl

theorem wfun_service (n nf : Nat) (sf : Rat) (t : Target) : (wfun n nf sf t).service = t.service := by
  unfold wfun
  split
  · rfl
  · split <;> rfl

theorem wfun_url (n nf : Nat) (sf : Rat) (t : Target) : (wfun n nf sf t).url = t.url := by
  unfold wfun
  split
  · rfl
  · split <;> rfl

theorem wfun_tags (n nf : Nat) (sf : Rat) (t : Target) : (wfun n nf sf t).tags = t.tags := by
  unfold wfun
  split
  · rfl
  · split <;> rfl

theorem wfun_wfun (n nf : Nat) (sf : Rat) (n' nf' : Nat) (sf' : Rat) (t : Target) :
    wfun n nf sf (wfun n' nf' sf' t) = wfun n nf sf t := by
  have hf := wfun_fixed n' nf' sf' t
  generalize hu : wfun n' nf' sf' t = u at hf
  have : ({ u with weight := t.weight } : Target) = t := by
    subst hu; unfold wfun; split
    · rfl
    · split <;> rfl
  unfold wfun
  rw [hf]
  split
  · rw [← this]
  · split <;> rw [← this]

theorem weigh_nil : weigh [] = [] := by
  rw [weigh_eq]; rfl

theorem weigh_length (ts : List Target) : (weigh ts).length = ts.length := by
  rw [weigh_eq]; simp

theorem nFixed_map (g : Target → Target) (hg : ∀ t, (g t).fixedWeight = t.fixedWeight) (ts : List Target) :
    nFixed (ts.map g) = nFixed ts := by
  unfold nFixed
  induction ts with
  | nil => rfl
  | cons a l ih => simp only [List.map_cons, List.filter_cons, hg]; split <;> simp_all

theorem sumFixed_map (g : Target → Target) (hg : ∀ t, (g t).fixedWeight = t.fixedWeight) (ts : List Target) :
    sumFixed (ts.map g) = sumFixed ts := by
  unfold sumFixed
  have key : ∀ z : Rat,
      ((ts.map g).filter (fun t => decide (0 < t.fixedWeight))).foldl (fun a t => a + t.fixedWeight) z
        = (ts.filter (fun t => decide (0 < t.fixedWeight))).foldl (fun a t => a + t.fixedWeight) z := by
    induction ts with
    | nil => intro z; rfl
    | cons a l ih => intro z; simp only [List.map_cons, List.filter_cons, hg]; split <;> simp_all
  exact key 0

theorem nFixed_weigh (ts : List Target) : nFixed (weigh ts) = nFixed ts := by
  rw [weigh_eq, nFixed_map _ (wfun_fixed _ _ _)]

theorem sumFixed_weigh (ts : List Target) : sumFixed (weigh ts) = sumFixed ts := by
  rw [weigh_eq, sumFixed_map _ (wfun_fixed _ _ _)]

theorem nFixed_append (a b : List Target) : nFixed (a ++ b) = nFixed a + nFixed b := by
  unfold nFixed
  rw [List.filter_append, List.length_append]

theorem sumFixed_append (a b : List Target) :
    sumFixed (a ++ b) = (b.filter (fun t => decide (0 < t.fixedWeight))).foldl (fun a t => a + t.fixedWeight) (sumFixed a) := by
  unfold sumFixed
  rw [List.filter_append, List.foldl_append]

/-- `weigh` reads only the fixed weights and the length: re-weighing after an append forgets the earlier weighing -/
theorem weigh_weigh_append (xs : List Target) (y : Target) : weigh (weigh xs ++ [y]) = weigh (xs ++ [y]) := by
  rw [weigh_eq (weigh xs ++ [y]), weigh_eq (xs ++ [y])]
  rw [nFixed_append, nFixed_append, sumFixed_append, sumFixed_append, nFixed_weigh, sumFixed_weigh]
  simp only [List.length_append, weigh_length, List.map_append]
  congr 1
  rw [weigh_eq, List.map_map]
  apply List.map_congr_left
  intro a _
  simp only [Function.comp, wfun_wfun]

/-- `weigh` changes only the `weight` field, which the duplicate test does not look at -/
theorem isDup_weigh (ts : List Target) (x : Target) : isDup (weigh ts) x = isDup ts x := by
  unfold isDup
  rw [weigh_eq, List.any_map]
  congr 1
  funext t
  simp only [Function.comp, wfun_service, wfun_url, wfun_fixed, wfun_tags]

/-! ### `key` is idempotent on what it produces -/

theorem indexOf_go_append (c : Char) (h rest : Str) (i : Nat) (hn : c ∉ h) :
    indexOf.go c i (h ++ rest) = indexOf.go c (i + h.length) rest := by
  induction h generalizing i with
  | nil => simp
  | cons x xs ih =>
    simp only [List.mem_cons, not_or] at hn
    have : (x == c) = false := by simpa using fun e => hn.1 e.symm
    simp only [List.cons_append, indexOf.go, this, Bool.false_eq_true, if_false, List.length_cons]
    rw [ih _ hn.2]; congr 1; omega

theorem hostpath_eq (h rest : Str) (hs : '/' ∉ h) (hr : rest = [] ∨ ∃ r, rest = '/' :: r) :
    hostpath (h ++ rest) =
      if hasPrefix (h ++ rest) [':'] then (h ++ rest, []) else (h, if rest = [] then ['/'] else rest) := by
  unfold hostpath
  split
  · rfl
  · have hi : indexOf '/' (h ++ rest) = indexOf.go '/' (0 + h.length) rest := indexOf_go_append '/' h rest 0 hs
    rw [hi]
    rcases hr with hr | ⟨r, hr⟩
    · subst hr; simp [indexOf.go]
    · subst hr; simp [indexOf.go]

theorem upper_not_colon : ∀ n, n < 91 → 65 ≤ n → Char.ofNat (n + 32) ≠ ':' := by decide
theorem upper_not_slash : ∀ n, n < 91 → 65 ≤ n → Char.ofNat (n + 32) ≠ '/' := by decide
theorem upper_not_upper : ∀ n, n < 91 → 65 ≤ n →
    ¬ ('A' ≤ Char.ofNat (n + 32) ∧ Char.ofNat (n + 32) ≤ 'Z') := by decide

theorem lowerChar_colon (c : Char) : lowerChar c = ':' ↔ c = ':' := by
  unfold lowerChar
  split
  · rename_i h
    have h1 : 65 ≤ c.toNat := h.1
    have h2 : c.toNat ≤ 90 := h.2
    constructor
    · intro he; exact absurd he (upper_not_colon c.toNat (by omega) h1)
    · intro he; subst he; revert h1; decide
  · exact Iff.rfl

theorem lowerChar_slash (c : Char) : lowerChar c = '/' ↔ c = '/' := by
  unfold lowerChar
  split
  · rename_i h
    have h1 : 65 ≤ c.toNat := h.1
    have h2 : c.toNat ≤ 90 := h.2
    constructor
    · intro he; exact absurd he (upper_not_slash c.toNat (by omega) h1)
    · intro he; subst he; revert h1; decide
  · exact Iff.rfl

theorem lowerChar_idem (c : Char) : lowerChar (lowerChar c) = lowerChar c := by
  by_cases h : 'A' ≤ c ∧ c ≤ 'Z'
  · have h1 : 65 ≤ c.toNat := h.1
    have h2 : c.toNat ≤ 90 := h.2
    have e : lowerChar c = Char.ofNat (c.toNat + 32) := by unfold lowerChar; rw [if_pos h]
    rw [e]
    unfold lowerChar
    rw [if_neg (upper_not_upper c.toNat (by omega) h1)]
  · have e : lowerChar c = c := by unfold lowerChar; rw [if_neg h]
    rw [e, e]

theorem lowerL_idem (s : Str) : lowerL (lowerL s) = lowerL s := by
  simp [lowerL, lowerChar_idem]

theorem slash_not_mem_lowerL (h : Str) (hs : '/' ∉ h) : '/' ∉ lowerL h := by
  unfold lowerL
  intro hm
  obtain ⟨c, hc, he⟩ := List.mem_map.mp hm
  rw [(lowerChar_slash c).mp he] at hc
  exact hs hc

/-- every string is a slash-free head followed by nothing or by `/…` -/
theorem split_slash (s : Str) : ∃ h rest, '/' ∉ h ∧ (rest = [] ∨ ∃ r, rest = '/' :: r) ∧ s = h ++ rest := by
  induction s with
  | nil => exact ⟨[], [], by simp, Or.inl rfl, rfl⟩
  | cons c s ih =>
    by_cases hc : c = '/'
    · exact ⟨[], c :: s, by simp, Or.inr ⟨s, by rw [hc]⟩, rfl⟩
    · obtain ⟨h, rest, h1, h2, h3⟩ := ih
      refine ⟨c :: h, rest, ?_, h2, by rw [h3]; rfl⟩
      simp only [List.mem_cons, not_or]
      exact ⟨fun e => hc e.symm, h1⟩

theorem hasPrefix_lowerL (s : Str) : hasPrefix (lowerL s) [':'] = hasPrefix s [':'] := by
  unfold hasPrefix lowerL
  cases s with
  | nil => rfl
  | cons c s =>
    simp only [List.map_cons, List.isPrefixOf]
    by_cases hc : c = ':'
    · subst hc; rfl
    · have hc' : ¬ lowerChar c = ':' := fun e => hc ((lowerChar_colon c).mp e)
      have e1 : (':' == c) = false := by simpa using fun e => hc e.symm
      have e2 : (':' == lowerChar c) = false := by simpa using fun e => hc' e.symm
      simp [e1, e2]

/-- `hostpath` of (lower-cased host ++ path) gives the same pair back: the `src` condition of `RebuildOK` holds for
every (host, path) a command addressed -/
theorem key_of_key (s : Str) : key ((key s).1 ++ (key s).2) = key s := by
  obtain ⟨h, rest, hs, hr, rfl⟩ := split_slash s
  unfold key
  rw [hostpath_eq h rest hs hr]
  by_cases hp : hasPrefix (h ++ rest) [':'] = true
  · rw [if_pos hp]
    simp only [List.append_nil]
    have hp' : hasPrefix (lowerL (h ++ rest)) [':'] = true := by rw [hasPrefix_lowerL]; exact hp
    have : hostpath (lowerL (h ++ rest)) = (lowerL (h ++ rest), []) := by
      unfold hostpath; rw [if_pos hp']
    rw [this]
    simp only [lowerL_idem]
  · rw [if_neg hp]
    simp only
    have hr' : (if rest = [] then ['/'] else rest) = [] ∨ ∃ r, (if rest = [] then ['/'] else rest) = '/' :: r := by
      rcases hr with hr | ⟨r, hr⟩
      · subst hr; exact Or.inr ⟨[], rfl⟩
      · subst hr; exact Or.inr ⟨r, rfl⟩
    have hne : (if rest = [] then ['/'] else rest) ≠ [] := by
      rcases hr with hr | ⟨r, hr⟩ <;> subst hr <;> simp
    rw [hostpath_eq (lowerL h) _ (slash_not_mem_lowerL h hs) hr']
    have hp2 : ¬ hasPrefix (lowerL h ++ (if rest = [] then ['/'] else rest)) [':'] = true := by
      intro hh
      apply hp
      cases h with
      | nil =>
        rcases hr with hr | ⟨r, hr⟩
        · subst hr; revert hh; decide
        · subst hr; simp [hasPrefix, lowerL, List.isPrefixOf] at hh
      | cons c h =>
        have := hasPrefix_lowerL (c :: h)
        simp only [hasPrefix, lowerL, List.map_cons, List.cons_append, List.isPrefixOf] at this hh ⊢
        rw [← this]; exact hh
    rw [if_neg hp2, if_neg hne]
    simp only [lowerL_idem]

/-! ### one target -/

/-- the de-duplication key `addTarget` will see when the rendered target is re-added -/
def dupKey (tg : Target) : Str × Str × Rat × List Str := (tg.service, tg.url, (norm4 tg).fixedWeight, tg.tags)

theorem round4Rat_nonneg (r : Rat) : 0 ≤ round4Rat r := by
  unfold round4Rat
  rw [Rat.div_def]
  exact Rat.mul_nonneg Rat.natCast_nonneg (by decide +kernel)

theorem defWeight_not_neg (w : Rat) : ¬ (if 0 < w then round4Rat w else 0) < 0 := by
  rw [Rat.not_lt]
  split
  · exact round4Rat_nonneg w
  · exact Rat.le_refl

/-- re-adding the rendered target creates exactly `norm4` of it -/
theorem newTarget_def (r : Route) (tg : Target) : newTarget (defOfTarget r tg) tg.url = norm4 tg := by
  unfold newTarget defOfTarget norm4
  simp only [if_neg (defWeight_not_neg tg.fixedWeight)]

theorem upd_upd (S : Spec) (h p : Str) (a b : List Target) : upd (upd S h p a) h p b = upd S h p b := by
  funext h' p'
  unfold upd
  split <;> simp_all

theorem upd_same (S : Spec) (h p : Str) (a : List Target) : upd S h p a h p = a := by
  unfold upd; simp

theorem upd_other (S : Spec) (h p h' p' : Str) (a : List Target) (hne : ¬ (h' = h ∧ p' = p)) :
    upd S h p a h' p' = S h' p' := by
  unfold upd; rw [if_neg hne]

theorem upd_nil_of_nil (S : Spec) (h p : Str) (hS : S h p = []) : upd S h p [] = S := by
  funext h' p'
  unfold upd
  split
  · rename_i e; rw [e.1, e.2, hS]
  · rfl

theorem isDup_false_of_key (pre : List Target) (tg : Target)
    (hk : ∀ t ∈ pre, dupKey t ≠ dupKey tg) : isDup (pre.map norm4) (norm4 tg) = false := by
  unfold isDup
  rw [List.any_eq_false]
  intro x hx
  obtain ⟨t, ht, rfl⟩ := List.mem_map.mp hx
  intro hh
  apply hk t ht
  simp only [Bool.and_eq_true, beq_iff_eq] at hh
  obtain ⟨⟨⟨h1, h2⟩, h3⟩, h4⟩ := hh
  unfold dupKey
  have e1 : (norm4 t).service = t.service := rfl
  have e2 : (norm4 tg).service = tg.service := rfl
  have e3 : (norm4 t).url = t.url := rfl
  have e4 : (norm4 tg).url = tg.url := rfl
  have e5 : (norm4 t).tags = t.tags := rfl
  have e6 : (norm4 tg).tags = tg.tags := rfl
  rw [← e1, ← e2, ← e3, ← e4, ← e5, ← e6, h1, h2, h3, h4]

/-- what the proof needs of one route (instances of the fields of `RebuildOK`) -/
structure RouteOK (env : Env) (r : Route) : Prop where
  keys : (r.targets.map dupKey).Nodup
  url : ∀ tg ∈ r.targets, tg.url ≠ [] ∧ env.normURL tg.url = some tg.url
  globH : env.globOK r.host = true
  globP : env.globOK r.path = true
  src : r.host ++ r.path ≠ [] ∧ key (r.host ++ r.path) = (r.host, r.path)

/-- one `route add` of the block of `r`: the entry at (r.host, r.path) grows by `norm4 tg` -/
theorem specAdd_step (env : Env) (S : Spec) (r : Route) (pre : List Target) (tg : Target)
    (hsrc : r.host ++ r.path ≠ [] ∧ key (r.host ++ r.path) = (r.host, r.path))
    (hurl : tg.url ≠ [] ∧ env.normURL tg.url = some tg.url)
    (hgh : env.globOK r.host = true) (hgp : env.globOK r.path = true)
    (hk : ∀ t ∈ pre, dupKey t ≠ dupKey tg) :
    specApply env (upd S r.host r.path (weigh (pre.map norm4))) (defOfTarget r tg)
      = .ok (upd S r.host r.path (weigh ((pre ++ [tg]).map norm4))) := by
  have hcmd : (defOfTarget r tg).cmd = .add := rfl
  have hs : (defOfTarget r tg).src = r.host ++ r.path := rfl
  have hd : (defOfTarget r tg).dst = tg.url := rfl
  unfold specApply
  rw [hcmd]
  simp only
  unfold specAdd
  simp only [hs, hd, hsrc.2, hurl.2]
  have e1 : (r.host ++ r.path).isEmpty = false := by
    cases hh : r.host ++ r.path with
    | nil => exact absurd hh hsrc.1
    | cons a l => rfl
  have e2 : tg.url.isEmpty = false := by
    cases hh : tg.url with
    | nil => exact absurd hh hurl.1
    | cons a l => rfl
  rw [e1, e2]
  simp only [Bool.false_eq_true, if_false, hgh, hgp, Bool.not_true, Bool.and_false, upd_same]
  rw [newTarget_def, isDup_weigh, isDup_false_of_key pre tg hk]
  simp only [Bool.false_eq_true, if_false]
  rw [upd_upd, weigh_weigh_append, List.map_append, List.map_cons, List.map_nil]

/-! ### one route -/

def blockDefs (r : Route) : List RouteDef :=
  r.targets.map (defOfTarget r)

theorem foldlM_ok_cons (env : Env) (S S' : Spec) (d : RouteDef) (ds : List RouteDef)
    (h : specApply env S d = .ok S') :
    (d :: ds).foldlM (specApply env) S = ds.foldlM (specApply env) S' := by
  rw [List.foldlM_cons, h]; rfl

theorem foldlM_ok_append (env : Env) (S S' : Spec) (ds es : List RouteDef)
    (h : ds.foldlM (specApply env) S = .ok S') :
    (ds ++ es).foldlM (specApply env) S = es.foldlM (specApply env) S' := by
  rw [List.foldlM_append, h]; rfl

theorem targets_run (env : Env) (S : Spec) (r : Route)
    (hsrc : r.host ++ r.path ≠ [] ∧ key (r.host ++ r.path) = (r.host, r.path))
    (hgh : env.globOK r.host = true) (hgp : env.globOK r.path = true)
    (post : List Target) : ∀ (pre : List Target),
    (∀ tg ∈ post, tg.url ≠ [] ∧ env.normURL tg.url = some tg.url) →
    ((pre ++ post).map dupKey).Nodup →
    (post.map (defOfTarget r)).foldlM (specApply env) (upd S r.host r.path (weigh (pre.map norm4)))
      = .ok (upd S r.host r.path (weigh ((pre ++ post).map norm4))) := by
  induction post with
  | nil => intro pre _ _; simp only [List.map_nil, List.append_nil]; rfl
  | cons tg post ih =>
    intro pre hurl hk
    have hk' : ∀ t ∈ pre, dupKey t ≠ dupKey tg := by
      intro t ht he
      rw [List.map_append, List.map_cons, List.nodup_append] at hk
      exact hk.2.2 _ (List.mem_map_of_mem ht) _ List.mem_cons_self he
    rw [List.map_cons, foldlM_ok_cons env _ _ _ _
      (specAdd_step env S r pre tg hsrc (hurl tg List.mem_cons_self) hgh hgp hk')]
    have := ih (pre ++ [tg]) (fun t ht => hurl t (List.mem_cons_of_mem _ ht))
      (by rw [List.append_assoc]; exact hk)
    rw [this, List.append_assoc]; rfl

theorem block_run (env : Env) (S : Spec) (r : Route) (hr : RouteOK env r) (hS : S r.host r.path = []) :
    (blockDefs r).foldlM (specApply env) S = .ok (upd S r.host r.path (weigh (r.targets.map norm4))) := by
  unfold blockDefs
  have := targets_run env S r hr.src hr.globH hr.globP r.targets [] hr.url (by simpa using hr.keys)
  simp only [List.map_nil, weigh_nil, List.nil_append] at this
  rw [upd_nil_of_nil S _ _ hS] at this
  exact this

/-! ### a list of routes with pairwise distinct (host, path) -/

def step (S : Spec) (r : Route) : Spec := upd S r.host r.path (weigh (r.targets.map norm4))

def Distinct (rs : List Route) : Prop := rs.Pairwise (fun a b => ¬ (b.host = a.host ∧ b.path = a.path))

theorem run_blocks (env : Env) (rs : List Route) : ∀ (S : Spec), (∀ r ∈ rs, RouteOK env r) → Distinct rs →
    (∀ r ∈ rs, S r.host r.path = []) →
    (rs.flatMap blockDefs).foldlM (specApply env) S = .ok (rs.foldl step S) := by
  induction rs with
  | nil => intro S _ _ _; rfl
  | cons r rs ih =>
    intro S hok hd hS
    unfold Distinct at hd
    rw [List.pairwise_cons] at hd
    rw [List.flatMap_cons, foldlM_ok_append env _ _ _ _
      (block_run env S r (hok r List.mem_cons_self) (hS r List.mem_cons_self))]
    rw [List.foldl_cons]
    apply ih _ (fun x hx => hok x (List.mem_cons_of_mem _ hx)) hd.2
    intro x hx
    rw [upd_other _ _ _ _ _ _ (hd.1 x hx)]
    exact hS x (List.mem_cons_of_mem _ hx)

theorem foldl_step_other (rs : List Route) (h p : Str) : ∀ (S : Spec),
    (∀ r ∈ rs, ¬ (h = r.host ∧ p = r.path)) → rs.foldl step S h p = S h p := by
  induction rs with
  | nil => intro S _; rfl
  | cons r rs ih =>
    intro S hn
    rw [List.foldl_cons, ih _ (fun x hx => hn x (List.mem_cons_of_mem _ hx))]
    unfold step
    exact upd_other _ _ _ _ _ _ (hn r List.mem_cons_self)

theorem foldl_step_mem (rs : List Route) (r : Route) : ∀ (S : Spec), Distinct rs → r ∈ rs →
    rs.foldl step S r.host r.path = weigh (r.targets.map norm4) := by
  induction rs with
  | nil => intro S _ hm; cases hm
  | cons x rs ih =>
    intro S hd hm
    unfold Distinct at hd
    rw [List.pairwise_cons] at hd
    rw [List.foldl_cons]
    rcases List.mem_cons.mp hm with he | hm
    · subst he
      rw [foldl_step_other rs _ _ _ (fun y hy hh => hd.1 y hy ⟨hh.1.symm, hh.2.symm⟩)]
      unfold step
      exact upd_same _ _ _ _
    · exact ih _ hd.2 hm

/-! ### the table -/

structure RebuildOK (env : Env) (t : Table) : Prop where
  /-- else re-adding de-duplicates them -/
  keys : ∀ kv ∈ t, ∀ r ∈ kv.2, (r.targets.map dupKey).Nodup
  /-- `url.Parse ∘ String` is idempotent on rendered URLs -/
  url : ∀ kv ∈ t, ∀ r ∈ kv.2, ∀ tg ∈ r.targets, tg.url ≠ [] ∧ env.normURL tg.url = some tg.url
  /-- hosts and paths were accepted by `glob.Compile` when they were added -/
  glob : ∀ kv ∈ t, (env.globOK kv.1 = true ∧ ∀ r ∈ kv.2, env.globOK r.path = true)
  /-- the rendered prefix `host ++ path` is split by `hostpath` into the same host and path -/
  src : ∀ kv ∈ t, ∀ r ∈ kv.2, r.host ++ r.path ≠ [] ∧ key (r.host ++ r.path) = (r.host, r.path)

theorem mem_of_lookup {t : Table} {k : Str} {rs : List Route} (h : t.lookup k = some rs) : (k, rs) ∈ t := by
  obtain ⟨l1, l2, he, _⟩ := List.lookup_eq_some_iff.mp h
  subst he; simp

theorem get_mem_or_nil (t : Table) (k : Str) : t.get k = [] ∨ (k, t.get k) ∈ t := by
  unfold Table.get
  cases h : t.lookup k with
  | none => left; rfl
  | some rs => right; exact mem_of_lookup h

theorem mem_get {t : Table} {h : Str} {r : Route} (hr : r ∈ t.get h) : (h, t.get h) ∈ t := by
  rcases get_mem_or_nil t h with e | e
  · rw [e] at hr; cases hr
  · exact e

/-- the routes in the order `Table.String()` writes them -/
def routesOf (t : Table) : List Route := (hostOrder t).flatMap t.get

theorem defsOfTable_eq (t : Table) : defsOfTable t = (routesOf t).flatMap blockDefs := by
  unfold defsOfTable routesOf
  rw [List.flatMap_assoc]
  rfl

theorem insertHostDesc_perm (h : Str) (l : List Str) : (insertHostDesc h l).Perm (h :: l) := by
  induction l with
  | nil => exact List.Perm.refl _
  | cons y ys ih =>
    unfold insertHostDesc
    split
    · exact List.Perm.refl _
    · exact (List.Perm.cons y ih).trans (List.Perm.swap h y ys)

theorem foldr_insertHostDesc_perm (l : List Str) : (l.foldr insertHostDesc []).Perm l := by
  induction l with
  | nil => exact List.Perm.refl _
  | cons x xs ih =>
    rw [List.foldr_cons]
    exact (insertHostDesc_perm x _).trans (List.Perm.cons x ih)

theorem mem_hostOrder (t : Table) (h : Str) : h ∈ hostOrder t ↔ (h ∈ t.map (·.1) ∧ h ≠ []) ∨ h = [] := by
  unfold hostOrder
  rw [List.mem_append, (foldr_insertHostDesc_perm _).mem_iff, List.mem_filter]
  simp

theorem hostOrder_nodup {t : Table} (hn : (t.map (·.1)).Nodup) : (hostOrder t).Nodup := by
  unfold hostOrder
  rw [List.nodup_append]
  refine ⟨?_, by simp, ?_⟩
  · exact (foldr_insertHostDesc_perm _).symm.nodup (List.Nodup.sublist List.filter_sublist hn)
  · intro a ha b hb
    rw [(foldr_insertHostDesc_perm _).mem_iff, List.mem_filter] at ha
    simp only [List.mem_singleton] at hb
    subst hb
    intro e
    subst e
    simp at ha

theorem key_mem_hostOrder {t : Table} {kv : Str × List Route} (hm : kv ∈ t) : kv.1 ∈ hostOrder t := by
  rw [mem_hostOrder]
  by_cases e : kv.1 = []
  · right; exact e
  · left; exact ⟨List.mem_map_of_mem hm, e⟩

theorem mem_routesOf {t : Table} {r : Route} : r ∈ routesOf t ↔ ∃ kv ∈ t, r ∈ kv.2 ∧ kv.2 = t.get kv.1 := by
  unfold routesOf
  rw [List.mem_flatMap]
  constructor
  · rintro ⟨h, _, hr⟩
    exact ⟨(h, t.get h), mem_get hr, hr, rfl⟩
  · rintro ⟨kv, hm, hr, he⟩
    exact ⟨kv.1, key_mem_hostOrder hm, he ▸ hr⟩

theorem distinct_routesOf {t : Table} (hw : WF t) : Distinct (routesOf t) := by
  unfold Distinct routesOf
  rw [List.pairwise_flatMap]
  constructor
  · intro h _
    rcases get_mem_or_nil t h with e | e
    · rw [e]; exact List.Pairwise.nil
    · have := hw.paths _ e
      unfold List.Nodup at this
      rw [List.pairwise_map] at this
      exact this.imp (fun hne hh => hne hh.2.symm)
  · have := hostOrder_nodup hw.hosts
    unfold List.Nodup at this
    apply this.imp
    intro h1 h2 hne x hx y hy hh
    have e1 := hw.hostOf _ (mem_get hx) x hx
    have e2 := hw.hostOf _ (mem_get hy) y hy
    simp only at e1 e2
    exact hne (e1.symm.trans (hh.1.symm.trans e2))

theorem routeOK_of {env : Env} {t : Table} (hw : WF t) (ho : RebuildOK env t) :
    ∀ r ∈ routesOf t, RouteOK env r := by
  intro r hr
  obtain ⟨kv, hm, hr, _⟩ := mem_routesOf.mp hr
  refine ⟨ho.keys kv hm r hr, ho.url kv hm r hr, ?_, (ho.glob kv hm).2 r hr, ho.src kv hm r hr⟩
  rw [hw.hostOf kv hm r hr]
  exact (ho.glob kv hm).1

theorem find_some {rs : List Route} {p : Str} {r : Route} (h : findRoute rs p = some r) : r ∈ rs ∧ r.path = p := by
  unfold findRoute at h
  exact ⟨List.mem_of_find?_eq_some h, by simpa using List.find?_some h⟩

theorem find_none {rs : List Route} {p : Str} (h : findRoute rs p = none) : ∀ r ∈ rs, r.path ≠ p := by
  unfold findRoute at h
  rw [List.find?_eq_none] at h
  intro r hr
  simpa using h r hr

/-- the rebuilt spec needs only `WF` of the invariant -/
theorem rebuild_spec_wf {env : Env} {t : Table} (hw : WF t) (ho : RebuildOK env t) :
    specRun env (defsOfTable t) = .ok (fun h p => weigh ((abs t h p).map norm4)) := by
  unfold specRun
  rw [defsOfTable_eq, run_blocks env _ specEmpty (routeOK_of hw ho) (distinct_routesOf hw) (fun _ _ => rfl)]
  congr 1
  funext h p
  unfold abs targetsAt Table.route
  cases hf : findRoute (t.get h) p with
  | some r =>
    obtain ⟨hm, hp⟩ := find_some hf
    have hkv := mem_get hm
    have hh : r.host = h := hw.hostOf _ hkv r hm
    have hmem : r ∈ routesOf t := mem_routesOf.mpr ⟨(h, t.get h), hkv, hm, rfl⟩
    have := foldl_step_mem (routesOf t) r specEmpty (distinct_routesOf hw) hmem
    rw [hh, hp] at this
    exact this
  | none =>
    simp only [List.map_nil, weigh_nil]
    rw [foldl_step_other]
    · rfl
    · intro r hr hh
      obtain ⟨kv, hm, hr', he⟩ := mem_routesOf.mp hr
      have e1 : r.host = kv.1 := hw.hostOf kv hm r hr'
      have : r ∈ t.get h := by rw [hh.1, e1, ← he]; exact hr'
      exact find_none hf r this hh.2.symm

theorem rebuild_spec {env : Env} {t : Table} (hi : Inv t) (ho : RebuildOK env t) :
    specRun env (defsOfTable t) = .ok (fun h p => weigh ((abs t h p).map norm4)) :=
  rebuild_spec_wf hi.wf ho

/-- the `src` field of `RebuildOK`, for a (host, path) that `key` produced from any command prefix -/
theorem src_of_key (s : Str) :
    (key s).1 ++ (key s).2 ≠ [] ∧ key ((key s).1 ++ (key s).2) = ((key s).1, (key s).2) := by
  refine ⟨?_, key_of_key s⟩
  unfold key hostpath
  split
  · rename_i hp
    cases s with
    | nil => revert hp; decide
    | cons c s => simp [lowerL]
  · split <;> simp

/-! ### non-vacuity -/

section examples

def env0 : Env := { normURL := fun s => some s, globOK := fun _ => true }

def tA : Target :=
  { service := ['a'], tags := [['x'], ['y']], opts := [(['s'], ['2']), (['p'], ['1'])], url := ['u', 'a'],
    fixedWeight := 1/4, weight := 1/4 }
def tB : Target :=
  { service := ['b'], tags := [], opts := [], url := ['u', 'b'], fixedWeight := 3/4, weight := 3/4 }
def tC : Target :=
  { service := ['c'], tags := [['z']], opts := [], url := ['u', 'c'], fixedWeight := 0, weight := 1 }

/-- two hosts; `h/` has two targets with the fixed shares 1/4 and 3/4, options and tags -/
def tab0 : Table :=
  [(['h'], [⟨['h'], ['/'], [tA, tB]⟩]), (['g'], [⟨['g'], ['/', 'p'], [tC]⟩])]

theorem inv_tab0 : Inv tab0 :=
  ⟨⟨by decide, by decide, by decide⟩, by unfold NoEmpty; decide, by unfold Weighed; decide +kernel⟩

/-- (instance search does not find `Decidable` for the nested bounded quantifier over `Nodup`: go through `all`) -/
theorem keys_tab0 : ∀ kv ∈ tab0, ∀ r ∈ kv.2, (r.targets.map dupKey).Nodup := by
  have h : (tab0.all fun kv => kv.2.all fun r => decide (r.targets.map dupKey).Nodup) = true := by decide +kernel
  intro kv hkv r hr
  exact of_decide_eq_true (List.all_eq_true.mp (List.all_eq_true.mp h kv hkv) r hr)

theorem ok_tab0 : RebuildOK env0 tab0 :=
  ⟨keys_tab0, by decide +kernel, by decide +kernel, by decide +kernel⟩

example : specRun env0 (defsOfTable tab0) = .ok (fun h p => weigh ((abs tab0 h p).map norm4)) :=
  rebuild_spec inv_tab0 ok_tab0

/-- the rendering of `tab0` denotes three definitions (so the run above is not the empty run) -/
example : (defsOfTable tab0).length = 3 := by decide +kernel

/-- what the rebuilt spec holds at `h/`: the same two targets, options of the first one sorted -/
example : weigh ((abs tab0 ['h'] ['/']).map norm4)
    = [{ tA with opts := [(['p'], ['1']), (['s'], ['2'])] }, tB] := by decide +kernel

end examples

end Fabio.Lemmas.C05Rebuild
