import Fabio.Lemmas.C02Scan
/-!
The scanner model delivers EXACTLY the lines: the whole token sequence (core Lean only).
-/
namespace Fabio.Lemmas.C02ScanAll
open Fabio Fabio.Model.C02Buf Fabio.Lemmas.C02Scan

/-- every token `Scan()` delivers until it returns false, and the final scanner state (`n` bounds the number of calls) -/
def scanAll (cfg : ScanCfg) (data : Array Bool) : Nat → Scan → List (Nat × Nat) × Scan
  | 0, s => ([], s)
  | n+1, s =>
    match Scan.next cfg data (data.size + 40) s with
    | (none, s') => ([], s')
    | (some t, s') => let r := scanAll cfg data n s'; (t :: r.1, r.2)

/-- SPECIFICATION, independent of buffers and chunks: the maximal newline-free segments of the source from position
`p` on (position, length), up to the first one of `maxTok` bytes or more (`true` = there is such a segment) -/
def segs (data : Array Bool) (maxTok : Nat) : Nat → Nat → List (Nat × Nat) × Bool
  | 0, _ => ([], false)
  | n+1, p =>
    if data.size ≤ p then ([], false) else
    match findNL data data.size (data.size - p) p with
    | some j => if maxTok ≤ j - p then ([], true) else let r := segs data maxTok n (j+1); ((p, j - p) :: r.1, r.2)
    | none => if maxTok ≤ data.size - p then ([], true) else ([(p, data.size - p)], false)

theorem getElem?_true_lt {data : Array Bool} {i : Nat} (h : data[i]? = some true) : i < data.size := by
  cases hlt : decide (i < data.size) with
  | true => simpa using hlt
  | false =>
    have : ¬ i < data.size := by simpa using hlt
    rw [Array.getElem?_eq_none (by omega)] at h
    cases h

/-- **The scanner delivers exactly the lines.** From any state the scanner can be in, the tokens of all further calls
are the maximal newline-free segments from `s.base` on, up to the first of `maxTok` bytes or more, and the scanner ends
with `ErrTooLong` exactly when there is such a segment. -/
theorem scanAll_eq_segs (cfg : ScanCfg) (data : Array Bool) (hsb : 0 < cfg.startBuf) (hsm : cfg.startBuf ≤ cfg.maxTok) :
    ∀ (n : Nat) (s : Scan), Ok cfg data s → data.size - s.base < n →
      (scanAll cfg data n s).1 = (segs data cfg.maxTok n s.base).1 ∧
      (scanAll cfg data n s).2.tooLong = (segs data cfg.maxTok n s.base).2 := by
  intro n
  induction n with
  | zero => intro s _ h; omega
  | succ n ih =>
    intro s hok hn
    have hfuel : data.size - s.off + (if s.eof then 0 else 1) < data.size + 40 := by split <;> omega
    have hspec := next_spec cfg data hsb hsm (data.size + 40) s hok hfuel
    unfold scanAll segs
    cases hnext : Scan.next cfg data (data.size + 40) s with
    | mk o s' =>
      rw [hnext] at hspec
      cases o with
      | none =>
        simp only at hspec ⊢
        rcases hspec with ⟨hl, hno, hle⟩ | ⟨hl, hb⟩
        · -- ErrTooLong
          have hp : ¬ data.size ≤ s.base := by
            have : 0 < cfg.maxTok := by omega
            omega
          simp only [hp, if_false]
          have hf := findNL_spec data data.size (data.size - s.base) s.base (by omega)
          split at hf
          · rename_i j hj
            obtain ⟨f1, f2, f3, f4⟩ := hf
            have : cfg.maxTok ≤ j - s.base := by
              cases hd : decide (cfg.maxTok ≤ j - s.base) with
              | true => simpa using hd
              | false =>
                have hlt : ¬ cfg.maxTok ≤ j - s.base := by simpa using hd
                exact absurd f3 (hno j f1 (by omega))
            simp [hj, this, hl]
          · rename_i hj
            have : cfg.maxTok ≤ data.size - s.base := by omega
            simp [hj, this, hl]
        · -- the source is exhausted
          have hp : data.size ≤ s.base := by omega
          simp [hp, hl]
      | some t =>
        obtain ⟨p, l⟩ := t
        simp only at hspec ⊢
        obtain ⟨hok', hpb, hno, hlt, hcase⟩ := hspec
        subst hpb
        rcases hcase with ⟨hnl, hb'⟩ | ⟨hl0, hend, hb', heof⟩
        · -- a line ended by a newline at s.base + l
          have hin := getElem?_true_lt hnl
          have hp : ¬ data.size ≤ s.base := by omega
          simp only [hp, if_false]
          have hf := findNL_spec data data.size (data.size - s.base) s.base (by omega)
          split at hf
          · rename_i j hj
            obtain ⟨f1, f2, f3, f4⟩ := hf
            have hjl : j = s.base + l := by
              cases hd1 : decide (j < s.base + l) with
              | true => exact absurd f3 (hno j f1 (by simpa using hd1))
              | false =>
                cases hd2 : decide (s.base + l < j) with
                | true => exact absurd hnl (f4 (s.base + l) (by omega) (by simpa using hd2))
                | false =>
                  have h1 : ¬ j < s.base + l := by simpa using hd1
                  have h2 : ¬ s.base + l < j := by simpa using hd2
                  omega
            have hnot : ¬ cfg.maxTok ≤ j - s.base := by omega
            have hjp : j - s.base = l := by omega
            simp only [hj]
            rw [if_neg hnot]
            have := ih s' hok' (by rw [hb']; omega)
            rw [hb', ← hjl] at this
            simp only [hjp]
            exact ⟨by rw [this.1], this.2⟩
          · rename_i hj
            exact absurd hnl (hf (s.base + l) (by omega) hin)
        · -- the rest of the source
          have hp : ¬ data.size ≤ s.base := by omega
          simp only [hp, if_false]
          have hf := findNL_spec data data.size (data.size - s.base) s.base (by omega)
          split at hf
          · rename_i j hj
            obtain ⟨f1, f2, f3, f4⟩ := hf
            exact absurd f3 (hno j f1 (by omega))
          · rename_i hj
            have hnot : ¬ cfg.maxTok ≤ data.size - s.base := by omega
            have hlen : data.size - s.base = l := by omega
            simp only [hj]
            rw [if_neg hnot]
            simp only [hlen]
            -- nothing follows
            have hn1 : 0 < n := by omega
            obtain ⟨m, rfl⟩ : ∃ m, n = m + 1 := ⟨n - 1, by omega⟩
            have hrest := ih s' hok' (by rw [hb']; omega)
            have hsegs : segs data cfg.maxTok (m + 1) data.size = ([], false) := by
              unfold segs; simp
            rw [hb', hsegs] at hrest
            exact ⟨by rw [hrest.1], hrest.2⟩

end Fabio.Lemmas.C02ScanAll
