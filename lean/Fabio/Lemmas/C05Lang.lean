import Fabio.Model.C05Lang
import Fabio.Model.C05Glue
import Fabio.Lemmas.C05Text
/-!
C05 (round 4): every well-formed route command, written in the command language (`Model/C05Lang.lean`,
`printDef`), is read back by `parseLine` as that very command — all three commands, all eight forms. Core Lean only.
-/
namespace Fabio.Lemmas.C05Lang
open Fabio Fabio.Model.Route Fabio.Model.Parse Fabio.Model.C05Lang Fabio.Model.C05Glue Fabio.Lemmas.C05Text


theorem head_del (s : Str) : head kDel ("route del".toList ++ s) = some s := by
  simp [head, lit, kRoute, kDel, ws1, isReSpace]
theorem head_del_add (s : Str) : head kAdd ("route del".toList ++ s) = none := by
  simp [head, lit, kRoute, kAdd, ws1, isReSpace]
theorem head_weight (s : Str) : head kWeight ("route weight".toList ++ s) = some s := by
  simp [head, lit, kRoute, kWeight, ws1, isReSpace]
theorem head_weight_add (s : Str) : head kAdd ("route weight".toList ++ s) = none := by
  simp [head, lit, kRoute, kAdd, ws1, isReSpace]
theorem head_weight_del (s : Str) : head kDel ("route weight".toList ++ s) = none := by
  simp [head, lit, kRoute, kDel, ws1, isReSpace]

theorem parseLine_r (pf : ParseFloat) (s : Str) (hl : LastOK ('r' :: s)) :
    parseLine pf ('r' :: s) =
      (if (head kAdd ('r' :: s)).isSome then (parseRouteAdd pf ('r' :: s)).map some
       else if (head kDel ('r' :: s)).isSome then (parseRouteDel ('r' :: s)).map some
       else if (head kWeight ('r' :: s)).isSome then (parseRouteWeight pf ('r' :: s)).map some
       else .error (.syn .routeExpected)) := by
  unfold parseLine
  rw [trimSpace_eq (by decide) hl]
  simp [isComment, isBlank, isReSpace]

theorem ws1_sub {s s' : Str} (h : ws1 s = some s') : ∀ c ∈ s', c ∈ s := by
  cases s with
  | nil => simp [ws1] at h
  | cons x xs =>
    simp only [ws1] at h
    split at h
    · injection h with h
      subst h
      intro c hc
      exact List.mem_cons_of_mem _ ((List.dropWhile_suffix _).subset hc)
    · cases h

theorem lit_sub {p s s' : Str} (h : lit p s = some s') : ∀ c ∈ s', c ∈ s := by
  unfold lit at h
  split at h
  · injection h with h
    subst h
    intro c hc
    exact (List.drop_suffix _ _).subset hc
  · cases h

theorem quoted_head {s : Str} {r : Str × Str} (h : quoted s = some r) : '"' ∈ s := by
  cases s with
  | nil => simp [quoted] at h
  | cons x xs =>
    by_cases hx : x = '"'
    · subst hx; simp
    · unfold quoted at h
      split at h
      · next heq => injection heq with h1 _; exact absurd h1 hx
      · cases h

theorem kwQuoted_none (kw s : Str) (h : '"' ∉ s) : kwQuoted kw s = none := by
  cases hr : kwQuoted kw s with
  | none => rfl
  | some r =>
    exfalso
    unfold kwQuoted at hr
    cases h1 : ws1 s with
    | none => simp [h1] at hr
    | some s1 =>
      cases h2 : lit kw s1 with
      | none => simp [h1, h2] at hr
      | some s2 =>
        cases h3 : ws1 s2 with
        | none => simp [h1, h2, h3] at hr
        | some s3 =>
          simp [h1, h2, h3] at hr
          exact h (ws1_sub h1 _ (lit_sub h2 _ (ws1_sub h3 _ (quoted_head hr))))

/-! ### well-formed pieces -/

/-- a token of the command language: non-empty, no white space, no quote -/
def Tok (s : Str) : Prop := s ≠ [] ∧ ∀ c ∈ s, isUniSpace c = false ∧ c ≠ '"'

theorem Tok.re {s : Str} (h : Tok s) : ∀ c ∈ s, isReSpace c = false :=
  fun c hc => not_reSpace_of_not_uniSpace c (h.2 c hc).1

theorem Tok.lastOK {s : Str} (h : Tok s) : LastOK s := LastOK.of_all h.1 (fun c hc => (h.2 c hc).1)

theorem Tok.noQuote {s : Str} (h : Tok s) : '"' ∉ s := fun hc => (h.2 _ hc).2 rfl

/-- a tag list the grammar can carry: no quote, comma or newline inside a tag, tags trimmed, not the single
empty tag -/
structure TagsOK (ts : List Str) : Prop where
  q : ∀ tag ∈ ts, '"' ∉ tag ∧ ',' ∉ tag ∧ '\n' ∉ tag ∧ trimSpace tag = tag
  ne : ts ≠ [] → join [','] ts ≠ []

/-- an option map the grammar can carry, in its canonical (key-sorted, as `parseOpts` builds it) form -/
structure OptsOK (o : List (Str × Str)) : Prop where
  k : ∀ kv ∈ o, '=' ∉ kv.1 ∧ (∀ c ∈ kv.1, isUniSpace c = false ∧ c ≠ '"') ∧ (∀ c ∈ kv.2, isUniSpace c = false ∧ c ≠ '"')
  sorted : sortOpts o = o

/-- the decimal text `w` of a weight `q`: no text = weight 0, else `strconv.ParseFloat` reads `q` from it -/
structure WeightOK (pf : ParseFloat) (w : Str) (q : Rat) : Prop where
  tok : ∀ c ∈ w, isUniSpace c = false ∧ c ≠ '"'
  val : if w.isEmpty then q = 0 else pf w = some (.fin q)

theorem TagsOK.noQuote {ts : List Str} (h : TagsOK ts) : '"' ∉ join [','] ts := by
  intro hc
  rcases mem_join _ _ _ hc with hc | ⟨x, hx, hc⟩
  · revert hc; decide
  · exact (h.q x hx).1 hc

theorem OptsOK.noQuote {o : List (Str × Str)} (h : OptsOK o) : '"' ∉ join [' '] (o.map renderOpt) := by
  intro hc
  rcases mem_join _ _ _ hc with hc | ⟨x, hx, hc⟩
  · revert hc; decide
  · obtain ⟨kv, hkv, rfl⟩ := List.mem_map.1 hx
    have := h.k kv hkv
    simp only [renderOpt, List.mem_append, List.mem_singleton] at hc
    rcases hc with (hc | hc) | hc
    · exact (this.2.1 _ hc).2 rfl
    · revert hc; decide
    · exact (this.2.2 _ hc).2 rfl

theorem WeightOK.parse {pf : ParseFloat} {w : Str} {q : Rat} (h : WeightOK pf w q) : parseWeight pf w = .ok q := by
  have := h.val
  unfold parseWeight
  split
  · next he => rw [if_pos he] at this; rw [this]
  · next he => rw [if_neg he] at this; rw [this]

/-! ### the optional parts -/

/-- what the tag list captures -/
def tagsVal (ts : List Str) : Str := if ts.isEmpty then [] else join [','] ts
def optsVal (o : List (Str × Str)) : Str := if o.isEmpty then [] else join [' '] (o.map renderOpt)

theorem optsPart_cases (o : List (Str × Str)) : optsPart o = [] ∨ ∃ t, optsPart o = ' ' :: 'o' :: t := by
  unfold optsPart
  split
  · exact .inl rfl
  · exact .inr ⟨_, by simp; rfl⟩

theorem tagsPart_cases (ts : List Str) : tagsPart ts = [] ∨ ∃ t, tagsPart ts = ' ' :: 't' :: t := by
  unfold tagsPart
  split
  · exact .inl rfl
  · exact .inr ⟨_, by simp; rfl⟩

theorem startsTO (ts : List Str) (o : List (Str × Str)) : StartsTO (tagsPart ts ++ optsPart o) := by
  rcases tagsPart_cases ts with h | ⟨t, h⟩
  · rw [h, List.nil_append]
    rcases optsPart_cases o with h | ⟨t, h⟩
    · exact .inl h
    · exact .inr (.inr ⟨t, h⟩)
  · rw [h]; exact .inr (.inl ⟨_, rfl⟩)

theorem tagsPart_sp (ts : List Str) : SpOrNil (tagsPart ts) := by
  rcases tagsPart_cases ts with h | ⟨t, h⟩
  · exact .inl h
  · exact .inr ⟨_, h⟩

theorem hO {o : List (Str × Str)} (h : OptsOK o) : optGroup (kwQuoted kOpts) (optsPart o) = (optsVal o, []) := by
  unfold optsPart optsVal
  split
  · exact optGroup_opts_none
  · exact optGroup_opts_some _ h.noQuote

theorem hT {ts : List Str} (h : TagsOK ts) (rest : Str) (hr : rest = [] ∨ ∃ t, rest = ' ' :: 'o' :: t) :
    optGroup (kwQuoted kTags) (tagsPart ts ++ rest) = (tagsVal ts, rest) := by
  unfold tagsPart tagsVal
  split
  · rw [List.nil_append]; exact optGroup_tags_none _ hr
  · exact optGroup_tags_some _ _ h.noQuote

theorem hW {pf : ParseFloat} {w : Str} {q : Rat} (h : WeightOK pf w q) (rest : Str) (hr : StartsTO rest) :
    optGroup (kwTok kWeight) (weightPart w ++ rest) = (w, rest) := by
  unfold weightPart
  split
  · next he => rw [List.isEmpty_iff.1 he, List.nil_append]; exact optGroup_weight_none _ hr
  · next hne =>
    have hne : w ≠ [] := by simpa using hne
    exact optGroup_weight_some w rest hne (fun c hc => not_reSpace_of_not_uniSpace c (h.tok c hc).1) hr.sp

theorem weightPart_sp (w rest : Str) (hr : StartsTO rest) : SpOrNil (weightPart w ++ rest) := by
  unfold weightPart
  split
  · rw [List.nil_append]; exact hr.sp
  · exact .inr ⟨_, by simp; rfl⟩

theorem parseTags_val {ts : List Str} (h : TagsOK ts) : parseTags (tagsVal ts) = ts := by
  unfold tagsVal
  split
  · next he => rw [List.isEmpty_iff.1 he]; rfl
  · next hne =>
    have hne : ts ≠ [] := by simpa using hne
    exact parseTags_join _ hne (h.ne hne) (fun t ht => ⟨(h.q t ht).2.1, (h.q t ht).2.2.2⟩)

theorem parseOpts_val {o : List (Str × Str)} (h : OptsOK o) : parseOpts (optsVal o) = o := by
  unfold optsVal
  split
  · next he => rw [List.isEmpty_iff.1 he]; rfl
  · have := parseOpts_render o (fun kv hkv =>
      ⟨(h.k kv hkv).1, fun c hc => ((h.k kv hkv).2.1 c hc).1, fun c hc => ((h.k kv hkv).2.2 c hc).1⟩)
    rw [h.sorted] at this
    exact this

/-! ### `route add` -/

theorem matchAdd_print {pf : ParseFloat} {w : Str} {d : RouteDef} (hs : Tok d.service) (hsrc : Tok d.src) (hd : Tok d.dst)
    (hw : WeightOK pf w d.weight) (ht : TagsOK d.tags) (ho : OptsOK d.opts) :
    matchAdd ("route add ".toList ++ (d.service ++ ' ' :: (d.src ++ ' ' :: (d.dst ++
      (weightPart w ++ (tagsPart d.tags ++ optsPart d.opts)))))) =
      some { service := d.service, src := d.src, dst := d.dst, weight := w, tags := tagsVal d.tags, opts := optsVal d.opts } :=
  matchAdd_line _ _ _ _ _ _ _ _ _ ⟨hs.1, hs.re⟩ ⟨hsrc.1, hsrc.re⟩ ⟨hd.1, hd.re⟩
    (weightPart_sp w _ (startsTO _ _)) (hW hw _ (startsTO _ _)) (hT ht _ (optsPart_cases _)) (hO ho)

/-! ### `route del` -/

/-- what follows the service in `route del <svc>[ <src>[ <dst>]]` -/
def delRest (src dst : Str) : Str :=
  if src.isEmpty then [] else ' ' :: (src ++ (if dst.isEmpty then [] else ' ' :: dst))

theorem delRest_sp (src dst : Str) : SpOrNil (delRest src dst) := by
  unfold delRest
  split
  · exact .inl rfl
  · exact .inr ⟨_, rfl⟩

theorem delRest_noQuote {src dst : Str} (hs : src = [] ∨ Tok src) (hd : dst = [] ∨ Tok dst) : '"' ∉ delRest src dst := by
  have h1 : '"' ∉ src := by
    rcases hs with rfl | h
    · simp
    · exact h.noQuote
  have h2 : '"' ∉ dst := by
    rcases hd with rfl | h
    · simp
    · exact h.noQuote
  unfold delRest
  split
  · simp
  · split
    · simp [h1]
    · simp [h1, h2]

theorem wsTok_nil : wsTok [] = none := by simp [wsTok, ws1]

theorem wsTok_tok (a s : Str) (ha : Tok a) (hs : SpOrNil s) : wsTok (' ' :: (a ++ s)) = some (a, s) := by
  unfold wsTok
  rw [ws1_tok a s ha.1 ha.re]
  simp only [Option.bind_eq_bind, Option.bind_some]
  exact tok_append a s ha.1 ha.re hs

theorem matchDel_print {svc src dst : Str} (hv : Tok svc) (hs : src = [] ∨ Tok src) (hd : dst = [] ∨ Tok dst)
    (hsd : src = [] → dst = []) :
    matchDel ("route del".toList ++ ' ' :: (svc ++ delRest src dst)) = some (svc, src, dst) := by
  unfold matchDel
  rw [head_del]
  simp only [Option.bind_eq_bind, Option.bind_some]
  rw [ws1_tok svc _ hv.1 hv.re]
  simp only [Option.bind_some]
  rw [tok_append svc _ hv.1 hv.re (delRest_sp _ _)]
  simp only [Option.bind_some]
  rcases hs with rfl | hs
  · have := hsd rfl
    subst this
    simp [delRest, wsTok_nil]
  · have hne : src.isEmpty = false := by
      cases hsrc : src with
      | nil => exact absurd hsrc hs.1
      | cons _ _ => rfl
    rcases hd with rfl | hd
    · have : delRest src [] = ' ' :: (src ++ []) := by simp [delRest, hne]
      rw [this, wsTok_tok src [] hs spOrNil_nil]
      simp [optGroup, wsTok_nil]
    · have hne2 : dst.isEmpty = false := by
        cases hdst : dst with
        | nil => exact absurd hdst hd.1
        | cons _ _ => rfl
      have : delRest src dst = ' ' :: (src ++ ' ' :: (dst ++ [])) := by simp [delRest, hne, hne2]
      rw [this, wsTok_tok src _ hs (spOrNil_cons _)]
      simp only [optGroup, wsTok_tok dst [] hd spOrNil_nil]
      simp

theorem matchDelSvcTags_none_plain {svc src dst : Str} (hv : Tok svc) (hs : src = [] ∨ Tok src) (hd : dst = [] ∨ Tok dst) :
    matchDelSvcTags ("route del".toList ++ ' ' :: (svc ++ delRest src dst)) = none := by
  unfold matchDelSvcTags
  rw [head_del]
  simp only [Option.bind_eq_bind, Option.bind_some]
  rw [ws1_tok svc _ hv.1 hv.re]
  simp only [Option.bind_some]
  rw [tok_append svc _ hv.1 hv.re (delRest_sp _ _)]
  simp only [Option.bind_some]
  rw [kwQuoted_none _ _ (delRest_noQuote hs hd)]
  rfl

theorem matchDelTags_none_plain {svc src dst : Str} (hv : Tok svc) (hs : src = [] ∨ Tok src) (hd : dst = [] ∨ Tok dst) :
    matchDelTags ("route del".toList ++ ' ' :: (svc ++ delRest src dst)) = none := by
  unfold matchDelTags
  rw [head_del]
  simp only [Option.bind_eq_bind, Option.bind_some]
  rw [kwQuoted_none]
  · rfl
  · intro hc
    simp only [List.mem_cons, List.mem_append] at hc
    rcases hc with hc | hc | hc
    · revert hc; decide
    · exact hv.noQuote hc
    · exact delRest_noQuote hs hd hc

/-- the tag clause of a non-empty list, spelled out -/
theorem tagsPart_ne {ts : List Str} (hne : ts ≠ []) :
    tagsPart ts = ' ' :: (kTags ++ ' ' :: '"' :: (join [','] ts ++ '"' :: [])) := by
  unfold tagsPart
  have : ts.isEmpty = false := by
    cases hts : ts with
    | nil => exact absurd hts hne
    | cons _ _ => rfl
  simp [this, kTags]

theorem tagsVal_ne {ts : List Str} (hne : ts ≠ []) : tagsVal ts = join [','] ts := by
  unfold tagsVal
  have : ts.isEmpty = false := by
    cases hts : ts with
    | nil => exact absurd hts hne
    | cons _ _ => rfl
  simp [this]

theorem kwQuoted_quote (kw s : Str) (hk : kw.head? ≠ some '"') (hkne : kw ≠ []) : kwQuoted kw (' ' :: '"' :: s) = none := by
  unfold kwQuoted
  rw [ws1_quote]
  simp only [Option.bind_eq_bind, Option.bind_some]
  have : lit kw ('"' :: s) = none := by
    cases kw with
    | nil => exact absurd rfl hkne
    | cons x xs =>
      have hx : x ≠ '"' := fun e => hk (by simp [e])
      simp [lit, List.isPrefixOf, hx]
  rw [this]
  rfl

theorem matchDelSvcTags_tagsOnly {ts : List Str} (hne : ts ≠ []) :
    matchDelSvcTags ("route del".toList ++ tagsPart ts) = none := by
  unfold matchDelSvcTags
  rw [head_del, tagsPart_ne hne]
  simp only [Option.bind_eq_bind, Option.bind_some]
  rw [ws1_tok kTags _ (by decide) kw_noSp.2.1]
  simp only [Option.bind_some]
  rw [tok_append kTags _ (by decide) kw_noSp.2.1 (spOrNil_cons _)]
  simp only [Option.bind_some]
  rw [kwQuoted_quote kTags _ (by decide) (by decide)]
  rfl

theorem matchDelTags_tagsOnly {ts : List Str} (hne : ts ≠ []) (ht : TagsOK ts) :
    matchDelTags ("route del".toList ++ tagsPart ts) = some (tagsVal ts) := by
  unfold matchDelTags
  rw [head_del, tagsPart_ne hne, tagsVal_ne hne]
  simp only [Option.bind_eq_bind, Option.bind_some]
  rw [kwQuoted_ok kTags _ [] (by decide) kw_noSp.2.1 ht.noQuote]
  simp

theorem matchDelSvcTags_print {svc : Str} {ts : List Str} (hv : Tok svc) (hne : ts ≠ []) (ht : TagsOK ts) :
    matchDelSvcTags ("route del".toList ++ ' ' :: (svc ++ tagsPart ts)) = some (svc, tagsVal ts) := by
  unfold matchDelSvcTags
  rw [head_del]
  simp only [Option.bind_eq_bind, Option.bind_some]
  rw [ws1_tok svc _ hv.1 hv.re]
  simp only [Option.bind_some]
  rw [tok_append svc _ hv.1 hv.re (tagsPart_sp _)]
  simp only [Option.bind_some]
  rw [tagsPart_ne hne, tagsVal_ne hne, kwQuoted_ok kTags _ [] (by decide) kw_noSp.2.1 ht.noQuote]
  simp

/-! ### `route weight` -/

theorem weightClause (w rest : Str) : " weight ".toList ++ (w ++ rest) = ' ' :: (kWeight ++ ' ' :: (w ++ rest)) := by
  simp [kWeight]

theorem hTagsOnly {ts : List Str} (h : TagsOK ts) : optGroup (kwQuoted kTags) (tagsPart ts) = (tagsVal ts, []) := by
  have := hT h [] (.inl rfl)
  rwa [List.append_nil] at this

theorem matchWeightSvc_print {pf : ParseFloat} {svc src w : Str} {q : Rat} {ts : List Str} (hv : Tok svc) (hs : Tok src)
    (hne : w ≠ []) (hw : WeightOK pf w q) (ht : TagsOK ts) :
    matchWeightSvc ("route weight".toList ++ ' ' :: (svc ++ ' ' :: (src ++ (" weight ".toList ++ (w ++ tagsPart ts))))) =
      some (svc, src, w, tagsVal ts) := by
  unfold matchWeightSvc
  rw [head_weight]
  simp only [Option.bind_eq_bind, Option.bind_some]
  rw [ws1_tok svc _ hv.1 hv.re]
  simp only [Option.bind_some]
  rw [tok_append svc _ hv.1 hv.re (spOrNil_cons _)]
  simp only [Option.bind_some]
  rw [ws1_tok src _ hs.1 hs.re]
  simp only [Option.bind_some]
  rw [weightClause, tok_append src _ hs.1 hs.re (spOrNil_cons _)]
  simp only [Option.bind_some]
  rw [kwTok_ok kWeight w _ (by decide) kw_noSp.1 hne (fun c hc => not_reSpace_of_not_uniSpace c (hw.tok c hc).1) (tagsPart_sp _)]
  simp only [Option.bind_some, hTagsOnly ht]
  simp

theorem kwTok_weight_number (w rest : Str) (hne : w ≠ []) (hw : ∀ c ∈ w, isReSpace c = false) (h1 : w.head? ≠ some 'w') :
    kwTok kWeight (' ' :: (w ++ rest)) = none := by
  unfold kwTok
  rw [ws1_tok w rest hne hw]
  simp only [Option.bind_eq_bind, Option.bind_some]
  have : lit kWeight (w ++ rest) = none := by
    cases w with
    | nil => exact absurd rfl hne
    | cons x xs =>
      have hx : x ≠ 'w' := fun e => h1 (by simp [e])
      have hx' : ¬ 'w' = x := fun e => hx e.symm
      simp [lit, kWeight, List.isPrefixOf, hx']
  rw [this]
  rfl

theorem matchWeightSvc_none {pf : ParseFloat} {src w : Str} {q : Rat} {ts : List Str} (hs : Tok src)
    (hne : w ≠ []) (hw : WeightOK pf w q) (h1 : w.head? ≠ some 'w') :
    matchWeightSvc ("route weight".toList ++ ' ' :: (src ++ (" weight ".toList ++ (w ++ tagsPart ts)))) = none := by
  unfold matchWeightSvc
  rw [head_weight]
  simp only [Option.bind_eq_bind, Option.bind_some]
  rw [ws1_tok src _ hs.1 hs.re]
  simp only [Option.bind_some]
  rw [weightClause, tok_append src _ hs.1 hs.re (spOrNil_cons _)]
  simp only [Option.bind_some]
  rw [ws1_tok kWeight _ (by decide) kw_noSp.1]
  simp only [Option.bind_some]
  rw [tok_append kWeight _ (by decide) kw_noSp.1 (spOrNil_cons _)]
  simp only [Option.bind_some]
  rw [kwTok_weight_number w _ hne (fun c hc => not_reSpace_of_not_uniSpace c (hw.tok c hc).1) h1]
  rfl

theorem matchWeightSrc_print {pf : ParseFloat} {src w : Str} {q : Rat} {ts : List Str} (hs : Tok src)
    (hne : w ≠ []) (hw : WeightOK pf w q) (htne : ts ≠ []) (ht : TagsOK ts) :
    matchWeightSrc ("route weight".toList ++ ' ' :: (src ++ (" weight ".toList ++ (w ++ tagsPart ts)))) =
      some (src, w, tagsVal ts) := by
  unfold matchWeightSrc
  rw [head_weight]
  simp only [Option.bind_eq_bind, Option.bind_some]
  rw [ws1_tok src _ hs.1 hs.re]
  simp only [Option.bind_some]
  rw [weightClause, tok_append src _ hs.1 hs.re (spOrNil_cons _)]
  simp only [Option.bind_some]
  rw [kwTok_ok kWeight w _ (by decide) kw_noSp.1 hne (fun c hc => not_reSpace_of_not_uniSpace c (hw.tok c hc).1) (tagsPart_sp _)]
  simp only [Option.bind_some]
  rw [tagsPart_ne htne, tagsVal_ne htne, kwQuoted_ok kTags _ [] (by decide) kw_noSp.2.1 ht.noQuote]
  simp

/-! ### well-formed commands -/

/-- a command the language can carry, with the decimal text `w` of its weight: tokens where the grammar wants
tokens, a `del` either by tags (then nothing else but an optional service) or by service (source and destination
optional, no destination without source), a `weight` with a weight text and — when it names no service — tags; a
number does not start with the letter `w` (the source-only form of `route weight` is recognised by the keyword
`weight` in second position); `del` and `weight` carry no options, `del` no weight -/
def DefOK (pf : ParseFloat) (w : Str) (d : RouteDef) : Prop :=
  match d.cmd with
  | .add => Tok d.service ∧ Tok d.src ∧ Tok d.dst ∧ WeightOK pf w d.weight ∧ TagsOK d.tags ∧ OptsOK d.opts
  | .del => w = [] ∧ d.weight = 0 ∧ d.opts = [] ∧ TagsOK d.tags ∧
      (if d.tags.isEmpty then Tok d.service ∧ (d.src = [] ∨ Tok d.src) ∧ (d.dst = [] ∨ Tok d.dst) ∧ (d.src = [] → d.dst = [])
       else (d.service = [] ∨ Tok d.service) ∧ d.src = [] ∧ d.dst = [])
  | .weight => w ≠ [] ∧ w.head? ≠ some 'w' ∧ WeightOK pf w d.weight ∧ d.dst = [] ∧ d.opts = [] ∧ TagsOK d.tags ∧ Tok d.src ∧
      (if d.service.isEmpty then d.tags ≠ [] else Tok d.service)
  | .other _ => False

theorem tagsPart_nilOrLast (ts : List Str) : NilOrLast (tagsPart ts) := by
  unfold tagsPart
  split
  · exact .inl rfl
  · exact .inr (lastOK_quote _)

theorem optsPart_nilOrLast (o : List (Str × Str)) : NilOrLast (optsPart o) := by
  unfold optsPart
  split
  · exact .inl rfl
  · exact .inr (lastOK_quote _)

theorem weightPart_nilOrLast {pf : ParseFloat} {w : Str} {q : Rat} (h : WeightOK pf w q) : NilOrLast (weightPart w) := by
  unfold weightPart
  split
  · exact .inl rfl
  · next hne =>
    have hne : w ≠ [] := by simpa using hne
    exact .inr ((LastOK.of_all hne (fun c hc => (h.tok c hc).1)).append_right _)

theorem delRest_nilOrLast {src dst : Str} (hs : src = [] ∨ Tok src) (hd : dst = [] ∨ Tok dst) : NilOrLast (delRest src dst) := by
  unfold delRest
  split
  · exact .inl rfl
  · next hne =>
    have hne : src ≠ [] := by simpa using hne
    have hs : Tok src := hs.resolve_left hne
    split
    · rw [List.append_nil]; exact .inr (hs.lastOK.append_right [' '])
    · next hne2 =>
      have hne2 : dst ≠ [] := by simpa using hne2
      have hd : Tok dst := hd.resolve_left hne2
      have : ' ' :: (src ++ ' ' :: dst) = (' ' :: (src ++ [' '])) ++ dst := by simp
      rw [this]
      exact .inr (hd.lastOK.append_right _)

/-! no newline inside a printed command -/

abbrev NoNL (s : Str) : Prop := '\n' ∉ s

theorem NoNL.append {a b : Str} (ha : NoNL a) (hb : NoNL b) : NoNL (a ++ b) := by
  intro hc
  rcases List.mem_append.1 hc with hc | hc
  · exact ha hc
  · exact hb hc

theorem NoNL.cons {c : Char} {a : Str} (hc : c ≠ '\n') (ha : NoNL a) : NoNL (c :: a) := by
  intro h
  rcases List.mem_cons.1 h with h | h
  · exact hc h.symm
  · exact ha h

theorem noNL_nil : NoNL [] := by simp [NoNL]

theorem noNL_of_uni {s : Str} (h : ∀ c ∈ s, isUniSpace c = false ∧ c ≠ '"') : NoNL s :=
  nl_not_uniSpace_free (fun c hc => (h c hc).1)

theorem Tok.noNL {s : Str} (h : Tok s) : NoNL s := noNL_of_uni h.2

theorem noNL_orTok {s : Str} (h : s = [] ∨ Tok s) : NoNL s := by
  rcases h with rfl | h
  · exact noNL_nil
  · exact h.noNL

theorem tagsPart_noNL {ts : List Str} (h : TagsOK ts) : NoNL (tagsPart ts) := by
  unfold tagsPart
  split
  · exact noNL_nil
  · refine NoNL.append (NoNL.append (by decide) ?_) (by decide)
    intro hc
    rcases mem_join _ _ _ hc with hc | ⟨x, hx, hc⟩
    · revert hc; decide
    · exact (h.q x hx).2.2.1 hc

theorem optsPart_noNL {o : List (Str × Str)} (h : OptsOK o) : NoNL (optsPart o) := by
  unfold optsPart
  split
  · exact noNL_nil
  · refine NoNL.append (NoNL.append (by decide) ?_) (by decide)
    intro hc
    rcases mem_join _ _ _ hc with hc | ⟨x, hx, hc⟩
    · revert hc; decide
    · obtain ⟨kv, hkv, rfl⟩ := List.mem_map.1 hx
      have := h.k kv hkv
      simp only [renderOpt, List.mem_append, List.mem_singleton] at hc
      rcases hc with (hc | hc) | hc
      · exact noNL_of_uni this.2.1 hc
      · revert hc; decide
      · exact noNL_of_uni this.2.2 hc

theorem weightPart_noNL {pf : ParseFloat} {w : Str} {q : Rat} (h : WeightOK pf w q) : NoNL (weightPart w) := by
  unfold weightPart
  split
  · exact noNL_nil
  · exact NoNL.append (by decide) (noNL_of_uni h.tok)

theorem delRest_noNL {src dst : Str} (hs : src = [] ∨ Tok src) (hd : dst = [] ∨ Tok dst) : NoNL (delRest src dst) := by
  unfold delRest
  split
  · exact noNL_nil
  · refine NoNL.cons (by decide) (NoNL.append (noNL_orTok hs) ?_)
    split
    · exact noNL_nil
    · exact NoNL.cons (by decide) (noNL_orTok hd)

theorem def_ext (a b : RouteDef) (h1 : a.cmd = b.cmd) (h2 : a.service = b.service) (h3 : a.src = b.src)
    (h4 : a.dst = b.dst) (h5 : a.weight = b.weight) (h6 : a.tags = b.tags) (h7 : a.opts = b.opts) : a = b := by
  cases a; cases b; simp_all

/-- the printed command: shape, last character, no newline, and what `parseLine` makes of it -/
theorem printDef_facts {pf : ParseFloat} {w : Str} {d : RouteDef} (h : DefOK pf w d) :
    (∃ s, printDef w d = 'r' :: s) ∧ LastOK (printDef w d) ∧ NoNL (printDef w d) ∧
    (LastOK (printDef w d) → parseLine pf (printDef w d) = .ok (some d)) := by
  unfold DefOK at h
  cases hc : d.cmd with
  | other s => rw [hc] at h; exact h.elim
  | add =>
    rw [hc] at h
    obtain ⟨hv, hs, hd, hw, ht, ho⟩ := h
    have hp : printDef w d = "route add ".toList ++ (d.service ++ ' ' :: (d.src ++ ' ' :: (d.dst ++
        (weightPart w ++ (tagsPart d.tags ++ optsPart d.opts))))) := by
      unfold printDef; rw [hc]
    refine ⟨⟨_, by rw [hp]; rfl⟩, ?_, ?_, ?_⟩
    · rw [hp]
      apply LastOK.append_right
      apply LastOK.append_right
      rw [← List.singleton_append]
      apply LastOK.append_right
      apply LastOK.append_right
      rw [← List.singleton_append]
      apply LastOK.append_right
      exact hd.lastOK.append_nilOrLast
        ((weightPart_nilOrLast hw).append ((tagsPart_nilOrLast _).append (optsPart_nilOrLast _)))
    · rw [hp]
      exact NoNL.append (by decide) (NoNL.append hv.noNL (NoNL.cons (by decide) (NoNL.append hs.noNL
        (NoNL.cons (by decide) (NoNL.append hd.noNL (NoNL.append (weightPart_noNL hw)
          (NoNL.append (tagsPart_noNL ht) (optsPart_noNL ho))))))))
    · intro hl
      obtain ⟨s, hs'⟩ : ∃ s, printDef w d = 'r' :: s := ⟨_, by rw [hp]; rfl⟩
      rw [hs'] at hl ⊢
      rw [parseLine_r pf s hl, ← hs', hp, head_add]
      simp only [Option.isSome_some, if_true]
      unfold parseRouteAdd
      rw [matchAdd_print hv hs hd hw ht ho]
      simp only [hw.parse, parseTags_val ht, parseOpts_val ho]
      show Except.map some (Except.ok _) = _
      simp only [Except.map]
      congr 2
      exact def_ext _ _ hc.symm rfl rfl rfl rfl rfl rfl
  | del =>
    rw [hc] at h
    obtain ⟨hw0, hwt, hop, ht, hrest⟩ := h
    by_cases hte : d.tags.isEmpty = true
    · rw [if_pos hte] at hrest
      obtain ⟨hv, hs, hd, hsd⟩ := hrest
      have hp : printDef w d = "route del".toList ++ ' ' :: (d.service ++ delRest d.src d.dst) := by
        unfold printDef delRest; rw [hc]; simp only [hte, if_true]; rfl
      refine ⟨⟨_, by rw [hp]; rfl⟩, ?_, ?_, ?_⟩
      · rw [hp]
        apply LastOK.append_right
        rw [← List.singleton_append]
        apply LastOK.append_right
        exact hv.lastOK.append_nilOrLast (delRest_nilOrLast hs hd)
      · rw [hp]
        exact NoNL.append (by decide) (NoNL.cons (by decide) (NoNL.append hv.noNL (delRest_noNL hs hd)))
      · intro hl
        obtain ⟨s, hs'⟩ : ∃ s, printDef w d = 'r' :: s := ⟨_, by rw [hp]; rfl⟩
        rw [hs'] at hl ⊢
        rw [parseLine_r pf s hl, ← hs', hp, head_del_add, head_del]
        simp only [Option.isSome_none, Option.isSome_some, Bool.false_eq_true, if_false, if_true]
        unfold parseRouteDel
        rw [matchDelSvcTags_none_plain hv hs hd, matchDelTags_none_plain hv hs hd, matchDel_print hv hs hd hsd]
        simp only [Except.map]
        congr 2
        exact def_ext _ _ hc.symm rfl rfl rfl hwt.symm (List.isEmpty_iff.1 hte).symm hop.symm
    · have hte' : d.tags.isEmpty = false := by simpa using hte
      have htne : d.tags ≠ [] := by
        intro e; rw [e] at hte'; cases hte'
      rw [if_neg hte] at hrest
      obtain ⟨hv, hs0, hd0⟩ := hrest
      by_cases hse : d.service.isEmpty = true
      · have hp : printDef w d = "route del".toList ++ tagsPart d.tags := by
          unfold printDef; rw [hc]; simp only [hte', hse, if_true, Bool.false_eq_true, if_false]
        have hl0 : LastOK (printDef w d) := by
          rw [hp]
          exact ((tagsPart_nilOrLast d.tags).resolve_left (by rw [tagsPart_ne htne]; simp)).append_right _
        refine ⟨⟨_, by rw [hp]; rfl⟩, hl0, ?_, ?_⟩
        · rw [hp]; exact NoNL.append (by decide) (tagsPart_noNL ht)
        · intro hl
          obtain ⟨s, hs'⟩ : ∃ s, printDef w d = 'r' :: s := ⟨_, by rw [hp]; rfl⟩
          rw [hs'] at hl ⊢
          rw [parseLine_r pf s hl, ← hs', hp, head_del_add, head_del]
          simp only [Option.isSome_none, Option.isSome_some, Bool.false_eq_true, if_false, if_true]
          unfold parseRouteDel
          rw [matchDelSvcTags_tagsOnly htne, matchDelTags_tagsOnly htne ht]
          simp only [Except.map, parseTags_val ht]
          congr 2
          exact def_ext _ _ hc.symm (List.isEmpty_iff.1 hse).symm hs0.symm hd0.symm hwt.symm rfl hop.symm
      · have hsne : d.service ≠ [] := by
          intro e; rw [e] at hse; exact hse rfl
        have hv : Tok d.service := hv.resolve_left hsne
        have hse' : d.service.isEmpty = false := by simpa using hse
        have hp : printDef w d = "route del".toList ++ ' ' :: (d.service ++ tagsPart d.tags) := by
          unfold printDef; rw [hc]; simp only [hte', hse', Bool.false_eq_true, if_false]; rfl
        have hl0 : LastOK (printDef w d) := by
          rw [hp]
          apply LastOK.append_right
          rw [← List.singleton_append]
          apply LastOK.append_right
          exact hv.lastOK.append_nilOrLast (tagsPart_nilOrLast _)
        refine ⟨⟨_, by rw [hp]; rfl⟩, hl0, ?_, ?_⟩
        · rw [hp]; exact NoNL.append (by decide) (NoNL.cons (by decide) (NoNL.append hv.noNL (tagsPart_noNL ht)))
        · intro hl
          obtain ⟨s, hs'⟩ : ∃ s, printDef w d = 'r' :: s := ⟨_, by rw [hp]; rfl⟩
          rw [hs'] at hl ⊢
          rw [parseLine_r pf s hl, ← hs', hp, head_del_add, head_del]
          simp only [Option.isSome_none, Option.isSome_some, Bool.false_eq_true, if_false, if_true]
          unfold parseRouteDel
          rw [matchDelSvcTags_print hv htne ht]
          simp only [Except.map, parseTags_val ht]
          congr 2
          exact def_ext _ _ hc.symm rfl hs0.symm hd0.symm hwt.symm rfl hop.symm
  | weight =>
    rw [hc] at h
    obtain ⟨hwne, hw1, hw, hd0, hop, ht, hs, hrest⟩ := h
    have hwl : LastOK w := LastOK.of_all hwne (fun c hc => (hw.tok c hc).1)
    by_cases hse : d.service.isEmpty = true
    · rw [if_pos hse] at hrest
      have hp : printDef w d = "route weight".toList ++ ' ' :: (d.src ++ (" weight ".toList ++ (w ++ tagsPart d.tags))) := by
        unfold printDef; rw [hc]; simp only [hse, if_true]; rfl
      have hl0 : LastOK (printDef w d) := by
        rw [hp]
        apply LastOK.append_right
        rw [← List.singleton_append]
        apply LastOK.append_right
        apply LastOK.append_right
        apply LastOK.append_right
        exact hwl.append_nilOrLast (tagsPart_nilOrLast _)
      refine ⟨⟨_, by rw [hp]; rfl⟩, hl0, ?_, ?_⟩
      · rw [hp]
        exact NoNL.append (by decide) (NoNL.cons (by decide) (NoNL.append hs.noNL (NoNL.append (by decide)
          (NoNL.append (noNL_of_uni hw.tok) (tagsPart_noNL ht)))))
      · intro hl
        obtain ⟨s, hs'⟩ : ∃ s, printDef w d = 'r' :: s := ⟨_, by rw [hp]; rfl⟩
        rw [hs'] at hl ⊢
        rw [parseLine_r pf s hl, ← hs', hp, head_weight_add, head_weight_del, head_weight]
        simp only [Option.isSome_none, Option.isSome_some, Bool.false_eq_true, if_false, if_true]
        unfold parseRouteWeight
        rw [matchWeightSvc_none hs hwne hw hw1, matchWeightSrc_print hs hwne hw hrest ht]
        simp only [hw.parse, parseTags_val ht]
        show Except.map some (Except.ok _) = _
        simp only [Except.map]
        congr 2
        exact def_ext _ _ hc.symm (List.isEmpty_iff.1 hse).symm rfl hd0.symm rfl rfl hop.symm
    · rw [if_neg hse] at hrest
      have hse' : d.service.isEmpty = false := by simpa using hse
      have hp : printDef w d = "route weight".toList ++ ' ' :: (d.service ++ ' ' :: (d.src ++ (" weight ".toList ++ (w ++ tagsPart d.tags)))) := by
        unfold printDef; rw [hc]; simp only [hse', Bool.false_eq_true, if_false]; rfl
      have hl0 : LastOK (printDef w d) := by
        rw [hp]
        apply LastOK.append_right
        rw [← List.singleton_append]
        apply LastOK.append_right
        apply LastOK.append_right
        rw [← List.singleton_append]
        apply LastOK.append_right
        apply LastOK.append_right
        apply LastOK.append_right
        exact hwl.append_nilOrLast (tagsPart_nilOrLast _)
      refine ⟨⟨_, by rw [hp]; rfl⟩, hl0, ?_, ?_⟩
      · rw [hp]
        exact NoNL.append (by decide) (NoNL.cons (by decide) (NoNL.append hrest.noNL (NoNL.cons (by decide)
          (NoNL.append hs.noNL (NoNL.append (by decide) (NoNL.append (noNL_of_uni hw.tok) (tagsPart_noNL ht)))))))
      · intro hl
        obtain ⟨s, hs'⟩ : ∃ s, printDef w d = 'r' :: s := ⟨_, by rw [hp]; rfl⟩
        rw [hs'] at hl ⊢
        rw [parseLine_r pf s hl, ← hs', hp, head_weight_add, head_weight_del, head_weight]
        simp only [Option.isSome_none, Option.isSome_some, Bool.false_eq_true, if_false, if_true]
        unfold parseRouteWeight
        rw [matchWeightSvc_print hrest hs hwne hw ht]
        simp only [hw.parse, parseTags_val ht]
        show Except.map some (Except.ok _) = _
        simp only [Except.map]
        congr 2
        exact def_ext _ _ hc.symm rfl rfl hd0.symm rfl rfl hop.symm

/-! ### a command list as text -/

theorem printDef_ne {pf : ParseFloat} {w : Str} {d : RouteDef} (h : DefOK pf w d) : printDef w d ≠ [] := by
  obtain ⟨⟨s, hs⟩, _⟩ := printDef_facts h
  rw [hs]; simp

theorem parseLine_printDef {pf : ParseFloat} {w : Str} {d : RouteDef} (h : DefOK pf w d) :
    parseLine pf (printDef w d) = .ok (some d) :=
  (printDef_facts h).2.2.2 (printDef_facts h).2.1

theorem parseLines_print (pf : ParseFloat) (cs : List (Str × RouteDef))
    (h : ∀ x ∈ cs, DefOK pf x.1 x.2 ∧ byteLen (printDef x.1 x.2) < maxToken) (i : Nat) :
    parseLines pf i (cs.map (fun x => printDef x.1 x.2)) = .ok (cs.map (·.2)) := by
  induction cs generalizing i with
  | nil => rfl
  | cons x l ih =>
    have hx := h x (by simp)
    simp only [List.map_cons, parseLines]
    rw [if_neg (Nat.not_le.2 hx.2), dropCR_lastOK (printDef_facts hx.1).2.1, parseLine_printDef hx.1]
    simp only [ih (fun y hy => h y (List.mem_cons_of_mem _ hy))]

/-- `Parse` reads the text of a well-formed command list back as that list -/
theorem parse_scriptText (pf : ParseFloat) (cs : List (Str × RouteDef))
    (h : ∀ x ∈ cs, DefOK pf x.1 x.2 ∧ byteLen (printDef x.1 x.2) < maxToken) :
    parse pf (scriptText cs) = .ok (cs.map (·.2)) := by
  unfold parse scriptText
  rw [rawLines_join]
  · exact parseLines_print pf cs h 1
  · intro l hl
    obtain ⟨x, hx, rfl⟩ := List.mem_map.1 hl
    exact ⟨printDef_ne (h x hx).1, (printDef_facts (h x hx).1).2.2.1⟩

/-! ### float64 weights: the weight token of a printed command, `parseLineW`, `parseW` -/

theorem weightTok_r (s : Str) :
    weightTok ('r' :: s) =
      (if (head kAdd ('r' :: s)).isSome then
        (match matchAdd ('r' :: s) with
         | some m => m.weight
         | none => [])
      else if (head kDel ('r' :: s)).isSome then []
      else if (head kWeight ('r' :: s)).isSome then
        (match matchWeightSvc ('r' :: s) with
         | some (_, _, w, _) => w
         | none =>
           match matchWeightSrc ('r' :: s) with
           | some (_, w, _) => w
           | none => [])
      else []) := by
  have h1 : isComment ('r' :: s) = false := by simp [isComment]
  have h2 : isBlank ('r' :: s) = false := by simp [isBlank, isReSpace]
  unfold weightTok
  simp only [h1, h2, Bool.or_false, Bool.false_eq_true, if_false]
  rfl

/-- the weight token `Parse`'s grammar captures on a printed command is the weight text it was printed with -/
theorem weightTok_printDef {pf : ParseFloat} {w : Str} {d : RouteDef} (h : DefOK pf w d) :
    weightTok (printDef w d) = w := by
  unfold DefOK at h
  cases hc : d.cmd with
  | other s => rw [hc] at h; exact h.elim
  | add =>
    rw [hc] at h
    obtain ⟨hv, hs, hd, hw, ht, ho⟩ := h
    have hp : printDef w d = "route add ".toList ++ (d.service ++ ' ' :: (d.src ++ ' ' :: (d.dst ++
        (weightPart w ++ (tagsPart d.tags ++ optsPart d.opts))))) := by
      unfold printDef; rw [hc]
    obtain ⟨s, hs'⟩ : ∃ s, printDef w d = 'r' :: s := ⟨_, by rw [hp]; rfl⟩
    rw [hs', weightTok_r, ← hs', hp, head_add]
    simp only [Option.isSome_some, if_true]
    rw [matchAdd_print hv hs hd hw ht ho]
  | del =>
    rw [hc] at h
    obtain ⟨hw0, _, _, _, _⟩ := h
    have hr : ∃ s, printDef w d = "route del".toList ++ s := by
      unfold printDef; rw [hc]; dsimp only
      by_cases hte : d.tags.isEmpty = true
      · rw [if_pos hte]
        exact ⟨' ' :: (d.service ++ (if d.src.isEmpty then [] else ' ' :: (d.src ++ (if d.dst.isEmpty then [] else ' ' :: d.dst)))), rfl⟩
      · rw [if_neg hte]
        by_cases hse : d.service.isEmpty = true
        · rw [if_pos hse]; exact ⟨tagsPart d.tags, rfl⟩
        · rw [if_neg hse]; exact ⟨' ' :: (d.service ++ tagsPart d.tags), rfl⟩
    obtain ⟨s0, hp⟩ := hr
    obtain ⟨s, hs'⟩ : ∃ s, printDef w d = 'r' :: s := ⟨_, by rw [hp]; rfl⟩
    rw [hs', weightTok_r, ← hs', hp, head_del_add, head_del, hw0]
    simp
  | weight =>
    rw [hc] at h
    obtain ⟨hwne, hw1, hw, _, _, ht, hs, hrest⟩ := h
    by_cases hse : d.service.isEmpty = true
    · rw [if_pos hse] at hrest
      have hp : printDef w d = "route weight".toList ++ ' ' :: (d.src ++ (" weight ".toList ++ (w ++ tagsPart d.tags))) := by
        unfold printDef; rw [hc]; simp only [hse, if_true]; rfl
      obtain ⟨s, hs'⟩ : ∃ s, printDef w d = 'r' :: s := ⟨_, by rw [hp]; rfl⟩
      rw [hs', weightTok_r, ← hs', hp, head_weight_add, head_weight_del, head_weight]
      simp only [Option.isSome_none, Option.isSome_some, Bool.false_eq_true, if_false, if_true]
      rw [matchWeightSvc_none hs hwne hw hw1, matchWeightSrc_print hs hwne hw hrest ht]
    · rw [if_neg hse] at hrest
      have hse' : d.service.isEmpty = false := by simpa using hse
      have hp : printDef w d = "route weight".toList ++ ' ' :: (d.service ++ ' ' :: (d.src ++ (" weight ".toList ++ (w ++ tagsPart d.tags)))) := by
        unfold printDef; rw [hc]; simp only [hse', Bool.false_eq_true, if_false]; rfl
      obtain ⟨s, hs'⟩ : ∃ s, printDef w d = 'r' :: s := ⟨_, by rw [hp]; rfl⟩
      rw [hs', weightTok_r, ← hs', hp, head_weight_add, head_weight_del, head_weight]
      simp only [Option.isSome_none, Option.isSome_some, Bool.false_eq_true, if_false, if_true]
      rw [matchWeightSvc_print hrest hs hwne hw ht]

/-- the command `Parse` delivers for a printed command when weights are float64: `DefOK` is asked of the reader that
maps NaN/±Inf to 0 (`finPf`, what Go's `parseWeight` leaves in the definition is irrelevant then), the flag says
whether the weight text denotes a non-finite value -/
theorem parseLineW_printDef {pf : ParseFloat} {w : Str} {d : RouteDef} (h : DefOK (finPf pf) w d) :
    parseLineW pf (printDef w d) = .ok (some { d, bad := nonFiniteTok pf w }) := by
  unfold parseLineW
  rw [parseLine_printDef h]
  have hl := (printDef_facts h).2.1
  obtain ⟨s, hs⟩ := (printDef_facts h).1
  have htrim : trimSpace (printDef w d) = printDef w d := by
    rw [hs] at hl ⊢; exact trimSpace_eq (by decide) hl
  simp only [htrim, weightTok_printDef h]

theorem scanW_print (pf : ParseFloat) (cs : List (Str × RouteDef))
    (h : ∀ x ∈ cs, DefOK (finPf pf) x.1 x.2 ∧ byteLen (printDef x.1 x.2) < maxToken) (i : Nat) :
    scan true (fun raw => parseLineW pf (dropCR raw)) i (cs.map (fun x => printDef x.1 x.2)) =
      .ok (cs.map (fun x => ({ d := x.2, bad := nonFiniteTok pf x.1 } : WDef))) := by
  induction cs generalizing i with
  | nil => rfl
  | cons x l ih =>
    have hx := h x (by simp)
    simp only [List.map_cons, scan]
    have hlt : decide (maxToken ≤ byteLen (printDef x.1 x.2)) = false := by
      simpa using hx.2
    simp only [hlt, Bool.and_false, Bool.false_eq_true, if_false]
    rw [dropCR_lastOK (printDef_facts hx.1).2.1, parseLineW_printDef hx.1]
    simp only [ih (fun y hy => h y (List.mem_cons_of_mem _ hy))]

/-- `Parse`, total over float64 weights, reads the text of a command list back as that list with the non-finite
weights flagged -/
theorem parseW_scriptText (pf : ParseFloat) (cs : List (Str × RouteDef))
    (h : ∀ x ∈ cs, DefOK (finPf pf) x.1 x.2 ∧ byteLen (printDef x.1 x.2) < maxToken) :
    parseW pf (scriptText cs) = .ok (cs.map (fun x => ({ d := x.2, bad := nonFiniteTok pf x.1 } : WDef))) := by
  unfold parseW scriptText
  rw [rawLines_join]
  · exact scanW_print pf cs h 1
  · intro l hl
    obtain ⟨x, hx, rfl⟩ := List.mem_map.1 hl
    exact ⟨printDef_ne (h x hx).1, (printDef_facts (h x hx).1).2.2.1⟩

/-! ### decidability (for the examples) -/

instance (s : Str) : Decidable (Tok s) := by unfold Tok; exact inferInstance

instance (ts : List Str) : Decidable (TagsOK ts) :=
  decidable_of_iff ((∀ tag ∈ ts, '"' ∉ tag ∧ ',' ∉ tag ∧ '\n' ∉ tag ∧ trimSpace tag = tag) ∧ (ts ≠ [] → join [','] ts ≠ []))
    ⟨fun h => ⟨h.1, h.2⟩, fun h => ⟨h.q, h.ne⟩⟩

instance (o : List (Str × Str)) : Decidable (OptsOK o) :=
  decidable_of_iff ((∀ kv ∈ o, '=' ∉ kv.1 ∧ (∀ c ∈ kv.1, isUniSpace c = false ∧ c ≠ '"') ∧ (∀ c ∈ kv.2, isUniSpace c = false ∧ c ≠ '"')) ∧
      sortOpts o = o)
    ⟨fun h => ⟨h.1, h.2⟩, fun h => ⟨h.k, h.sorted⟩⟩

instance (pf : ParseFloat) (w : Str) (q : Rat) : Decidable (WeightOK pf w q) :=
  decidable_of_iff ((∀ c ∈ w, isUniSpace c = false ∧ c ≠ '"') ∧ (if w.isEmpty then q = 0 else pf w = some (.fin q)))
    ⟨fun h => ⟨h.1, h.2⟩, fun h => ⟨h.tok, h.val⟩⟩

instance (pf : ParseFloat) (w : Str) (d : RouteDef) : Decidable (DefOK pf w d) := by
  unfold DefOK
  split <;> exact inferInstance

/-! ### non-vacuity: one command of every form -/

def pfEx : ParseFloat := fun s =>
  if s == "0.25".toList then some (.fin (1/4)) else if s == "1".toList then some (.fin 1) else none

def csEx : List (Str × RouteDef) :=
  [("0.25".toList, { cmd := .add, service := "svc".toList, src := "Foo.com/a".toList, dst := "http://h:1/".toList, weight := 1/4, tags := ["a".toList, "b c".toList], opts := [("k".toList, "v=w".toList), ("strip".toList, "/a".toList)] }),
   ([], { cmd := .add, service := "svc".toList, src := "/".toList, dst := "http://h:2/".toList }),
   ([], { cmd := .del, service := "svc".toList }),
   ([], { cmd := .del, service := "svc".toList, src := "foo.com/a".toList }),
   ([], { cmd := .del, service := "tags".toList, src := "foo.com/a".toList, dst := "http://h:1/".toList }),
   ([], { cmd := .del, tags := ["a".toList] }),
   ([], { cmd := .del, service := "svc".toList, tags := ["a".toList, "a".toList] }),
   ("1".toList, { cmd := .weight, service := "svc".toList, src := "weight".toList, weight := 1 }),
   ("0.25".toList, { cmd := .weight, src := "/".toList, weight := 1/4, tags := ["b c".toList] })]

theorem csEx_ok : ∀ x ∈ csEx, DefOK pfEx x.1 x.2 ∧ byteLen (printDef x.1 x.2) < maxToken := by
  have : csEx.all (fun x => decide (DefOK pfEx x.1 x.2 ∧ byteLen (printDef x.1 x.2) < maxToken)) = true := by decide +kernel
  intro x hx
  exact of_decide_eq_true (List.all_eq_true.1 this x hx)

example : parse pfEx (scriptText csEx) = .ok (csEx.map (·.2)) := parse_scriptText pfEx csEx csEx_ok
example : (csEx.head?.map (fun x => printDef x.1 x.2)) =
    some "route add svc Foo.com/a http://h:1/ weight 0.25 tags \"a,b c\" opts \"k=v=w strip=/a\"".toList := by decide +kernel

/-- a list whose commands all succeed: two adds, a `weight` by tag on the first (host in another letter case), a
`del` of the second -/
def csT : List (Str × RouteDef) :=
  csEx.take 2 ++
  [("0.25".toList, { cmd := .weight, src := "FOO.com/a".toList, weight := 1/4, tags := ["b c".toList] }),
   ([], { cmd := .del, service := "svc".toList, src := "/".toList })]

theorem csT_ok : ∀ x ∈ csT, DefOK pfEx x.1 x.2 ∧ byteLen (printDef x.1 x.2) < maxToken := by
  have : csT.all (fun x => decide (DefOK pfEx x.1 x.2 ∧ byteLen (printDef x.1 x.2) < maxToken)) = true := by decide +kernel
  intro x hx
  exact of_decide_eq_true (List.all_eq_true.1 this x hx)

/-- a reader that knows `nan` and `0.5`, and a list with a non-finite weight text: an add, a `weight … nan` on it, a del -/
def pfN : ParseFloat := fun s =>
  if s == "nan".toList then some .nan else if s == "0.5".toList then some (.fin (1/2)) else none

def csN : List (Str × RouteDef) :=
  [("0.5".toList, { cmd := .add, service := "s".toList, src := "h/".toList, dst := "http://a:1/".toList, weight := 1/2 }),
   ("nan".toList, { cmd := .weight, service := "s".toList, src := "h/".toList, weight := 0 }),
   ([], { cmd := .del, service := "s".toList })]

theorem csN_ok : ∀ x ∈ csN, DefOK (finPf pfN) x.1 x.2 ∧ byteLen (printDef x.1 x.2) < maxToken := by
  have : csN.all (fun x => decide (DefOK (finPf pfN) x.1 x.2 ∧ byteLen (printDef x.1 x.2) < maxToken)) = true := by decide +kernel
  intro x hx
  exact of_decide_eq_true (List.all_eq_true.1 this x hx)

end Fabio.Lemmas.C05Lang
