import Fabio.Model.C05Spec
/-!
C05 — `route del`: the concrete `delRoute` preserves the table invariant and refines the spec machine's
`specDel` under the abstraction `abs`.
-/
namespace Fabio.Lemmas.C05Del
open Fabio Fabio.Model.Route Fabio.Model.C05Spec

/-! ### `weigh` -/

/-- the per-target function `weigh` maps over the list (parameters: length, number of fixed, sum of fixed) -/
def wfun (n nf : Nat) (sf : Rat) (t : Target) : Target :=
  if nf = 0 then { t with weight := 1 / (n : Rat) }
  else
    if 0 < t.fixedWeight then
      { t with weight := t.fixedWeight * (if 1 < sf ∨ (nf = n ∧ sf < 1) then 1 / sf else 1) }
    else
      { t with weight := if (1 - sf) / ((n - nf : Nat) : Rat) < 0 then 0 else (1 - sf) / ((n - nf : Nat) : Rat) }

theorem weigh_eq (ts : List Target) :
    weigh ts = ts.map (wfun ts.length (nFixed ts) (sumFixed ts)) := by
  unfold weigh wfun
  split <;> simp [*]

theorem wfun_fixed (n nf : Nat) (sf : Rat) (t : Target) : (wfun n nf sf t).fixedWeight = t.fixedWeight := by
  unfold wfun
  split
  · rfl
  · split <;> rfl

theorem wfun_wfun (n nf : Nat) (sf : Rat) (n' nf' : Nat) (sf' : Rat) (t : Target) :
    wfun n nf sf (wfun n' nf' sf' t) = wfun n nf sf t := by
  have hf := wfun_fixed n' nf' sf' t
  generalize hu : wfun n' nf' sf' t = u at hf
  have : ({ u with weight := t.weight } : Target) = t := by
    subst hu; unfold wfun; split
    · rfl
    · split <;> rfl
  unfold wfun
  rw [hf]
  split
  · rw [← this]
  · split <;> rw [← this]

theorem weigh_nil : weigh [] = [] := by
  rw [weigh_eq]; rfl

theorem weigh_length (ts : List Target) : (weigh ts).length = ts.length := by
  rw [weigh_eq]; simp

theorem nFixed_map (g : Target → Target) (hg : ∀ t, (g t).fixedWeight = t.fixedWeight) (ts : List Target) :
    nFixed (ts.map g) = nFixed ts := by
  unfold nFixed
  induction ts with
  | nil => rfl
  | cons a l ih => simp only [List.map_cons, List.filter_cons, hg]; split <;> simp_all

theorem sumFixed_map (g : Target → Target) (hg : ∀ t, (g t).fixedWeight = t.fixedWeight) (ts : List Target) :
    sumFixed (ts.map g) = sumFixed ts := by
  unfold sumFixed
  have key : ∀ z : Rat,
      ((ts.map g).filter (fun t => decide (0 < t.fixedWeight))).foldl (fun a t => a + t.fixedWeight) z
        = (ts.filter (fun t => decide (0 < t.fixedWeight))).foldl (fun a t => a + t.fixedWeight) z := by
    induction ts with
    | nil => intro z; rfl
    | cons a l ih => intro z; simp only [List.map_cons, List.filter_cons, hg]; split <;> simp_all
  exact key 0

theorem weigh_weigh (ts : List Target) : weigh (weigh ts) = weigh ts := by
  rw [weigh_eq (weigh ts)]
  rw [weigh_eq ts]
  simp only [List.map_map, List.length_map]
  apply List.map_congr_left
  intro a _
  simp only [Function.comp]
  rw [wfun_wfun]
  rw [nFixed_map _ (wfun_fixed _ _ _), sumFixed_map _ (wfun_fixed _ _ _)]

/-! ### association lists -/

theorem lookup_map_snd (f : List Route → List Route) (t : Table) (k : Str) :
    (t.map (fun kv => (kv.1, f kv.2))).lookup k = (t.lookup k).map f := by
  induction t with
  | nil => rfl
  | cons a l ih =>
    obtain ⟨k', v⟩ := a
    simp only [List.map_cons, List.lookup_cons]
    cases hk : (k == k') <;> simp [ih]

theorem keys_map_snd (f : List Route → List Route) (t : Table) :
    (t.map (fun kv => (kv.1, f kv.2))).map (·.1) = t.map (·.1) := by
  simp [List.map_map, Function.comp_def]

theorem lookup_filter (P : List Route → Bool) (t : Table) (k : Str) (hn : (t.map (·.1)).Nodup) :
    (t.filter (fun kv => P kv.2)).lookup k = (t.lookup k).filter P := by
  induction t with
  | nil => rfl
  | cons a l ih =>
    obtain ⟨k', v⟩ := a
    simp only [List.map_cons, List.nodup_cons] at hn
    have ih := ih hn.2
    cases hk : (k == k')
    · simp only [List.filter_cons]
      split
      · simp only [List.lookup_cons, hk, ih]
      · simp only [List.lookup_cons, hk, ih]
    · have hkk : k = k' := by simpa using hk
      subst hkk
      simp only [List.filter_cons, List.lookup_cons, hk]
      cases hP : P v
      · simp only [Option.filter, hP, Bool.false_eq_true, if_false]
        rw [List.lookup_eq_none_iff]
        intro p hp
        have hp' : p ∈ l := (List.mem_filter.mp hp).1
        have : p.1 ∈ l.map (·.1) := List.mem_map_of_mem hp'
        simp only [bne_iff_ne, ne_eq]
        intro he; rw [← he] at this; exact hn.1 this
      · simp [Option.filter, hP]

theorem mem_of_lookup {t : Table} {k : Str} {rs : List Route} (h : t.lookup k = some rs) : (k, rs) ∈ t := by
  obtain ⟨l1, l2, he, _⟩ := List.lookup_eq_some_iff.mp h
  subst he; simp

theorem get_mem_or_nil (t : Table) (k : Str) : t.get k = [] ∨ (k, t.get k) ∈ t := by
  unfold Table.get
  cases h : t.lookup k with
  | none => left; rfl
  | some rs => right; exact mem_of_lookup h

theorem get_prune (t : Table) (h : Str) (hn : (t.map (·.1)).Nodup) :
    (prune t).get h = (t.get h).filter (fun r => !r.targets.isEmpty) := by
  unfold prune Table.get
  rw [lookup_filter (fun rs => !rs.isEmpty) _ _ (by rw [keys_map_snd]; exact hn), lookup_map_snd]
  cases t.lookup h with
  | none => rfl
  | some rs =>
    simp only [Option.map, Option.filter, Option.getD]
    cases hh : (List.filter (fun r => !r.targets.isEmpty) rs) <;> simp

theorem get_mapRoutes (t : Table) (f : Route → Route) (h : Str) :
    (mapRoutes t f).get h = (t.get h).map f := by
  unfold mapRoutes Table.get
  rw [lookup_map_snd (fun rs => rs.map f)]
  cases t.lookup h <;> rfl

/-! ### route lists -/

/-- targets of the route for `p` in a route list -/
def tgs (rs : List Route) (p : Str) : List Target :=
  match findRoute rs p with
  | some r => r.targets
  | none => []

theorem targetsAt_eq (t : Table) (h p : Str) : targetsAt t h p = tgs (t.get h) p := rfl

theorem tgs_nil (p : Str) : tgs [] p = [] := rfl

theorem tgs_cons (r : Route) (rs : List Route) (p : Str) :
    tgs (r :: rs) p = if r.path == p then r.targets else tgs rs p := by
  unfold tgs findRoute
  rw [List.find?_cons]
  cases (r.path == p) <;> rfl

theorem tgs_of_not_mem (rs : List Route) (p : Str) (h : p ∉ rs.map (·.path)) : tgs rs p = [] := by
  induction rs with
  | nil => rfl
  | cons r rs ih =>
    simp only [List.map_cons, List.mem_cons, not_or] at h
    rw [tgs_cons, ih h.2]
    have : (r.path == p) = false := by simpa using fun e => h.1 e.symm
    simp [this]

theorem tgs_filter_nonempty (rs : List Route) (p : Str) (hn : (rs.map (·.path)).Nodup) :
    tgs (rs.filter (fun r => !r.targets.isEmpty)) p = tgs rs p := by
  induction rs with
  | nil => rfl
  | cons r rs ih =>
    simp only [List.map_cons, List.nodup_cons] at hn
    have ih := ih hn.2
    rw [List.filter_cons]
    cases he : r.targets.isEmpty
    · simp only [Bool.not_false, if_true, tgs_cons, ih]
    · simp only [Bool.not_true, Bool.false_eq_true, if_false, tgs_cons, ih]
      cases hp : (r.path == p)
      · rfl
      · have hpp : r.path = p := by simpa using hp
        have hnil : r.targets = [] := by simpa using he
        simp only [if_true, hnil]
        rw [← ih]
        apply tgs_of_not_mem
        intro hm
        obtain ⟨x, hx, hxp⟩ := List.mem_map.mp hm
        have hx' : x ∈ rs := (List.mem_filter.mp hx).1
        apply hn.1
        rw [hpp, ← hxp]
        exact List.mem_map_of_mem hx'

theorem tgs_map_filter (rs : List Route) (skip : Target → Bool) (p : Str) :
    tgs (rs.map (fun r => r.filter skip)) p = weigh ((tgs rs p).filter (fun t => !skip t)) := by
  induction rs with
  | nil => simp [tgs_nil, weigh_nil]
  | cons r rs ih =>
    simp only [List.map_cons, tgs_cons, ih]
    have : (r.filter skip).path = r.path := rfl
    rw [this]
    cases (r.path == p) <;> rfl

theorem tgs_replace_ne (rs : List Route) (r' : Route) (p : Str) (h : p ≠ r'.path) :
    tgs (replaceRoute rs r') p = tgs rs p := by
  induction rs with
  | nil => rfl
  | cons x rs ih =>
    unfold replaceRoute at ih ⊢
    simp only [List.map_cons, tgs_cons, ih]
    cases hx : (x.path == r'.path)
    · rfl
    · have hxp : x.path = r'.path := by simpa using hx
      have h1 : (r'.path == p) = false := by simpa using fun e => h e.symm
      simp [hxp, h1]

theorem tgs_replace_eq (rs : List Route) (r' : Route) (h : ∃ x ∈ rs, x.path = r'.path) :
    tgs (replaceRoute rs r') r'.path = r'.targets := by
  induction rs with
  | nil => obtain ⟨x, hx, _⟩ := h; cases hx
  | cons x rs ih =>
    unfold replaceRoute at ih ⊢
    simp only [List.map_cons, tgs_cons]
    cases hx : (x.path == r'.path)
    · have hxp : x.path ≠ r'.path := by simpa using hx
      simp only [Bool.false_eq_true, if_false, hx]
      apply ih
      obtain ⟨y, hy, hyp⟩ := h
      cases hy with
      | head => exact absurd hyp hxp
      | tail _ hy => exact ⟨y, hy, hyp⟩
    · simp

theorem replace_paths (rs : List Route) (r' : Route) : (replaceRoute rs r').map (·.path) = rs.map (·.path) := by
  unfold replaceRoute
  rw [List.map_map]
  apply List.map_congr_left
  intro x _
  simp only [Function.comp]
  cases hx : (x.path == r'.path)
  · rfl
  · have : x.path = r'.path := by simpa using hx
    simp [this]

theorem mem_replace {rs : List Route} {r' x : Route} (h : x ∈ replaceRoute rs r') : x = r' ∨ x ∈ rs := by
  unfold replaceRoute at h
  obtain ⟨y, hy, hyx⟩ := List.mem_map.mp h
  split at hyx
  · left; exact hyx.symm
  · right; rw [← hyx]; exact hy

/-! ### `Table.set` on a present host -/

theorem set_eq_map {t : Table} {host : Str} {rs0 : List Route} (rs' : List Route)
    (hh : t.lookup host = some rs0) :
    t.set host rs' = t.map (fun kv => if kv.1 == host then (host, rs') else kv) := by
  unfold Table.set
  have : t.any (fun kv => kv.1 == host) = true := by
    rw [List.any_eq_true]
    exact ⟨(host, rs0), mem_of_lookup hh, by simp⟩
  rw [if_pos this]

theorem lookup_setmap (t : Table) (host : Str) (rs' : List Route) (k : Str) :
    (t.map (fun kv => if kv.1 == host then (host, rs') else kv)).lookup k
      = if k = host then (t.lookup host).map (fun _ => rs') else t.lookup k := by
  induction t with
  | nil => simp
  | cons a l ih =>
    obtain ⟨k', v⟩ := a
    simp only [List.map_cons]
    by_cases h1 : k' = host
    · subst h1
      simp only [beq_self_eq_true, if_true, List.lookup_cons, ih]
      by_cases h2 : k = k'
      · subst h2; simp
      · have : (k == k') = false := by simpa using h2
        simp [this, h2]
    · have h1' : (k' == host) = false := by simpa using h1
      simp only [h1', Bool.false_eq_true, if_false, List.lookup_cons, ih]
      by_cases h2 : k = k'
      · subst h2; simp [h1]
      · have : (k == k') = false := by simpa using h2
        have h3 : (host == k') = false := by simpa using fun e => h1 e.symm
        simp [this, h3]

theorem get_set {t : Table} {host : Str} {rs0 : List Route} (rs' : List Route)
    (hh : t.lookup host = some rs0) (k : Str) :
    (t.set host rs').get k = if k = host then rs' else t.get k := by
  rw [set_eq_map rs' hh]
  unfold Table.get
  rw [lookup_setmap, hh]
  split <;> rfl

theorem keys_setmap (t : Table) (host : Str) (rs' : List Route) :
    (t.map (fun kv => if kv.1 == host then (host, rs') else kv)).map (·.1) = t.map (·.1) := by
  rw [List.map_map]
  apply List.map_congr_left
  intro kv _
  simp only [Function.comp]
  by_cases h : kv.1 = host
  · simp [h]
  · have : (kv.1 == host) = false := by simpa using h
    simp [this]

/-! ### the invariants under `mapRoutes`, `prune`, `Table.set` -/

theorem wf_mapRoutes {t : Table} (f : Route → Route) (hp : ∀ r, (f r).path = r.path)
    (hh : ∀ r, (f r).host = r.host) (hw : WF t) : WF (mapRoutes t f) := by
  unfold mapRoutes
  refine ⟨?_, ?_, ?_⟩
  · rw [keys_map_snd (fun rs => rs.map f)]; exact hw.hosts
  · intro kv hkv
    obtain ⟨kv0, h0, he⟩ := List.mem_map.mp hkv
    subst he
    have : (kv0.2.map f).map (·.path) = kv0.2.map (·.path) := by
      rw [List.map_map]; apply List.map_congr_left; intro r _; exact hp r
    simp only [this]
    exact hw.paths kv0 h0
  · intro kv hkv r hr
    obtain ⟨kv0, h0, he⟩ := List.mem_map.mp hkv
    subst he
    obtain ⟨r0, hr0, he⟩ := List.mem_map.mp hr
    subst he
    rw [hh]; exact hw.hostOf kv0 h0 r0 hr0

theorem mem_prune {t : Table} {kv : Str × List Route} (h : kv ∈ prune t) :
    ∃ kv0 ∈ t, kv = (kv0.1, kv0.2.filter (fun r => !r.targets.isEmpty)) ∧ kv.2 ≠ [] := by
  unfold prune at h
  obtain ⟨hm, hne⟩ := List.mem_filter.mp h
  obtain ⟨kv0, h0, he⟩ := List.mem_map.mp hm
  exact ⟨kv0, h0, he.symm, by simpa using hne⟩

theorem wf_prune {t : Table} (hw : WF t) : WF (prune t) := by
  refine ⟨?_, ?_, ?_⟩
  · unfold prune
    apply List.Nodup.sublist _ hw.hosts
    rw [← keys_map_snd (fun rs => rs.filter (fun r => !r.targets.isEmpty)) t]
    exact List.Sublist.map _ List.filter_sublist
  · intro kv hkv
    obtain ⟨kv0, h0, he, _⟩ := mem_prune hkv
    subst he
    exact List.Nodup.sublist (List.Sublist.map _ List.filter_sublist) (hw.paths kv0 h0)
  · intro kv hkv r hr
    obtain ⟨kv0, h0, he, _⟩ := mem_prune hkv
    subst he
    exact hw.hostOf kv0 h0 r (List.mem_filter.mp hr).1

theorem prune_noEmpty (t : Table) : NoEmpty (prune t) := by
  intro kv hkv
  obtain ⟨kv0, h0, he, hne⟩ := mem_prune hkv
  refine ⟨hne, ?_⟩
  subst he
  intro r hr
  have := (List.mem_filter.mp hr).2
  simpa using this

theorem weighed_prune {t : Table} (hw : Weighed t) : Weighed (prune t) := by
  intro kv hkv r hr
  obtain ⟨kv0, h0, he, _⟩ := mem_prune hkv
  subst he
  exact hw kv0 h0 r (List.mem_filter.mp hr).1

theorem weighed_mapFilter (t : Table) (skip : Target → Bool) : Weighed (mapRoutes t (fun r => r.filter skip)) := by
  unfold mapRoutes
  intro kv hkv r hr
  obtain ⟨kv0, h0, he⟩ := List.mem_map.mp hkv
  subst he
  obtain ⟨r0, hr0, he⟩ := List.mem_map.mp hr
  subst he
  exact weigh_weigh _

theorem mem_set {t : Table} {host : Str} {rs0 rs' : List Route} (hh : t.lookup host = some rs0)
    {kv : Str × List Route} (h : kv ∈ t.set host rs') : kv = (host, rs') ∨ kv ∈ t := by
  rw [set_eq_map rs' hh] at h
  obtain ⟨kv0, h0, he⟩ := List.mem_map.mp h
  split at he
  · left; exact he.symm
  · right; rw [← he]; exact h0

theorem wf_set {t : Table} {host : Str} {rs0 rs' : List Route} (hw : WF t) (hh : t.lookup host = some rs0)
    (hp : (rs'.map (·.path)).Nodup) (hho : ∀ r ∈ rs', r.host = host) : WF (t.set host rs') := by
  refine ⟨?_, ?_, ?_⟩
  · rw [set_eq_map rs' hh, keys_setmap]; exact hw.hosts
  · intro kv hkv
    rcases mem_set hh hkv with he | hm
    · subst he; exact hp
    · exact hw.paths kv hm
  · intro kv hkv
    rcases mem_set hh hkv with he | hm
    · subst he; exact hho
    · exact hw.hostOf kv hm

/-- under WF, pruning does not change what the table routes -/
theorem targetsAt_prune {t : Table} (hw : WF t) (h p : Str) : targetsAt (prune t) h p = targetsAt t h p := by
  rw [targetsAt_eq, targetsAt_eq, get_prune t h hw.hosts]
  rcases get_mem_or_nil t h with he | hm
  · rw [he]; rfl
  · exact tgs_filter_nonempty _ _ (hw.paths _ hm)

/-! ### the two shapes of `delRoute`'s result -/

/-- whole-table delete -/
def delAll (t : Table) (skip : Target → Bool) : Table := prune (mapRoutes t (fun r => r.filter skip))

/-- delete within one route -/
def delOne (t : Table) (host path : Str) (skip : Target → Bool) : Table :=
  match t.route host path with
  | none => t
  | some r => prune (t.set host (replaceRoute (t.get host) (r.filter skip)))

theorem wf_mapFilter {t : Table} (skip : Target → Bool) (hw : WF t) :
    WF (mapRoutes t (fun r => r.filter skip)) :=
  wf_mapRoutes _ (fun _ => rfl) (fun _ => rfl) hw

theorem inv_delAll {t : Table} (skip : Target → Bool) (hw : WF t) : Inv (delAll t skip) :=
  ⟨wf_prune (wf_mapFilter skip hw), prune_noEmpty _, weighed_prune (weighed_mapFilter t skip)⟩

theorem abs_delAll {t : Table} (skip : Target → Bool) (hw : WF t) :
    abs (delAll t skip) = fun h p => dropSel skip (abs t h p) := by
  funext h p
  unfold abs delAll
  rw [targetsAt_prune (wf_mapFilter skip hw), targetsAt_eq, get_mapRoutes, tgs_map_filter]
  rfl

/-- facts about a found route -/
theorem route_some {t : Table} {host path : Str} {r : Route} (h : t.route host path = some r) :
    ∃ rs0, t.lookup host = some rs0 ∧ t.get host = rs0 ∧ r ∈ rs0 ∧ r.path = path := by
  unfold Table.route Table.get at h
  cases hl : t.lookup host with
  | none => rw [hl] at h; cases h
  | some rs0 =>
    rw [hl] at h
    unfold findRoute at h
    refine ⟨rs0, rfl, by simp [Table.get, hl], List.mem_of_find?_eq_some h, ?_⟩
    simpa using List.find?_some h

theorem wf_setReplace {t : Table} {host path : Str} {r : Route} (skip : Target → Bool) (hw : WF t)
    (h : t.route host path = some r) :
    WF (t.set host (replaceRoute (t.get host) (r.filter skip))) := by
  obtain ⟨rs0, hl, hg, hr, hp⟩ := route_some h
  have hm := mem_of_lookup hl
  rw [hg]
  apply wf_set hw hl
  · rw [replace_paths]; exact hw.paths _ hm
  · intro x hx
    rcases mem_replace hx with he | hx
    · subst he; exact hw.hostOf _ hm r hr
    · exact hw.hostOf _ hm x hx

theorem inv_delOne {t : Table} (host path : Str) (skip : Target → Bool) (hi : Inv t) :
    Inv (delOne t host path skip) := by
  unfold delOne
  split
  · exact hi
  · rename_i r h
    refine ⟨wf_prune (wf_setReplace skip hi.wf h), prune_noEmpty _, weighed_prune ?_⟩
    obtain ⟨rs0, hl, hg, hr, hp⟩ := route_some h
    intro kv hkv x hx
    rcases mem_set hl hkv with he | hm
    · subst he
      rcases mem_replace hx with he | hx
      · subst he; exact weigh_weigh _
      · rw [hg] at hx; exact hi.weighed _ (mem_of_lookup hl) x hx
    · exact hi.weighed kv hm x hx

theorem upd_self (S : Spec) (h p : Str) (sel : Target → Bool) (hS : S h p = []) :
    upd S h p (dropSel sel (S h p)) = S := by
  funext h' p'
  unfold upd
  split
  · rename_i he
    rw [he.1, he.2, hS]
    simp [dropSel, weigh_nil]
  · rfl

theorem abs_delOne {t : Table} (host path : Str) (skip : Target → Bool) (hw : WF t) :
    abs (delOne t host path skip) = upd (abs t) host path (dropSel skip (abs t host path)) := by
  unfold delOne
  split
  · rename_i h
    rw [upd_self]
    simp only [abs, targetsAt, h]
  · rename_i r h
    obtain ⟨rs0, hl, hg, hr, hp⟩ := route_some h
    have habs : abs t host path = r.targets := by simp only [abs, targetsAt, h]
    funext h' p'
    unfold abs at habs ⊢
    rw [targetsAt_prune (wf_setReplace skip hw h), targetsAt_eq, get_set _ hl]
    unfold upd
    by_cases hh : h' = host
    · subst hh
      rw [if_pos rfl]
      by_cases hpp : p' = path
      · subst hpp
        rw [if_pos ⟨rfl, rfl⟩, habs]
        have : (r.filter skip).path = p' := hp
        rw [← this, tgs_replace_eq]
        · rfl
        · exact ⟨r, by rw [hg]; exact hr, rfl⟩
      · rw [if_neg (fun h => hpp h.2)]
        rw [tgs_replace_ne]
        · rfl
        · intro he; apply hpp; rw [he]; exact hp
    · rw [if_neg hh, if_neg (fun h => hh h.1)]
      rfl

/-! ### `delRoute` in terms of the two shapes -/

theorem delRoute_eq (env : Env) (t : Table) (d : RouteDef) : delRoute env t d =
    if !d.tags.isEmpty then .ok (delAll t (delSelTags d))
    else if d.src.isEmpty && d.dst.isEmpty then .ok (delAll t (delSelSvc d))
    else if d.dst.isEmpty then .ok (delOne t (key d.src).1 (key d.src).2 (delSelSvc d))
    else match env.normURL d.dst with
      | none => .error .badURL
      | some url => .ok (delOne t (key d.src).1 (key d.src).2 (delSelSvcDst d url)) := by
  unfold delRoute delOne delAll key
  generalize hostpath d.src = hp
  obtain ⟨a, b⟩ := hp
  dsimp only
  split
  · rfl
  · split
    · rfl
    · split
      · cases t.route (lowerL a) b <;> rfl
      · cases env.normURL d.dst with
        | none => rfl
        | some url => dsimp only; cases t.route (lowerL a) b <;> rfl

/-! ### main theorems -/

section main
variable {env : Env} {t t1 : Table} {d : RouteDef}

theorem inv_del (hi : Inv t) (h : delRoute env t d = .ok t1) : Inv t1 := by
  rw [delRoute_eq] at h
  split at h
  · cases h; exact inv_delAll _ hi.wf
  · split at h
    · cases h; exact inv_delAll _ hi.wf
    · split at h
      · cases h; exact inv_delOne _ _ _ hi
      · split at h
        · cases h
        · cases h; exact inv_delOne _ _ _ hi

theorem del_refines (hi : Inv t) : (delRoute env t d).map abs = specDel env (abs t) d := by
  rw [delRoute_eq]
  unfold specDel
  dsimp only
  split
  · simp only [Except.map, abs_delAll _ hi.wf]
  · split
    · simp only [Except.map, abs_delAll _ hi.wf]
    · split
      · simp only [Except.map, abs_delOne _ _ _ hi.wf]
      · cases env.normURL d.dst with
        | none => rfl
        | some url => simp only [Except.map, abs_delOne _ _ _ hi.wf]

theorem del_leaves_no_empty (hn : NoEmpty t) (h : delRoute env t d = .ok t1) : NoEmpty t1 := by
  have hOne : ∀ host path skip, NoEmpty (delOne t host path skip) := by
    intro host path skip
    unfold delOne
    split
    · exact hn
    · exact prune_noEmpty _
  rw [delRoute_eq] at h
  split at h
  · cases h; exact prune_noEmpty _
  · split at h
    · cases h; exact prune_noEmpty _
    · split at h
      · cases h; exact hOne _ _ _
      · split at h
        · cases h
        · cases h; exact hOne _ _ _

theorem host_case_del (s' : Str) (hk : key d.src = key s') (he : d.src.isEmpty = s'.isEmpty) :
    delRoute env t d = delRoute env t { d with src := s' } := by
  rw [delRoute_eq, delRoute_eq]
  simp only [hk, he]
  rfl

end main

/-! ### non-vacuity: concrete tables on which the hypotheses hold and the conclusions say something -/

section examples

def env0 : Env := { normURL := fun s => some s, globOK := fun _ => true }

def tA (w : Rat) : Target :=
  { service := ['a'], tags := [['x']], opts := [], url := ['u', 'a'], fixedWeight := 0, weight := w }
def tB (w : Rat) : Target :=
  { service := ['b'], tags := [['y']], opts := [], url := ['u', 'b'], fixedWeight := 0, weight := w }

/-- host `h`: `/` ↦ a (1/2), b (1/2); `/p` ↦ a (1) -/
def tab0 : Table :=
  [(['h'], [⟨['h'], ['/'], [tA (1/2), tB (1/2)]⟩, ⟨['h'], ['/', 'p'], [tA 1]⟩])]

/-- after `route del a`: target a is gone from `/`, route `/p` is gone -/
def tab1 : Table := [(['h'], [⟨['h'], ['/'], [tB 1]⟩])]

/-- after `route del a H/p`: only route `/p` is gone -/
def tab2 : Table := [(['h'], [⟨['h'], ['/'], [tA (1/2), tB (1/2)]⟩])]

/-- after `route del a h/ ua`: target a is gone from `/` only -/
def tab3 : Table := [(['h'], [⟨['h'], ['/'], [tB 1]⟩, ⟨['h'], ['/', 'p'], [tA 1]⟩])]

def dSvc : RouteDef := { cmd := .del, service := ['a'] }
def dTags : RouteDef := { cmd := .del, tags := [['x']] }
def dSrc : RouteDef := { cmd := .del, service := ['a'], src := ['H', '/', 'p'] }
def dDst : RouteDef := { cmd := .del, service := ['a'], src := ['h', '/'], dst := ['u', 'a'] }

theorem inv_tab0 : Inv tab0 :=
  ⟨⟨by decide, by decide, by decide⟩, by unfold NoEmpty; decide, by unfold Weighed; decide +kernel⟩

/-- `Except Err Table` has no `DecidableEq` instance in core: decide through a Boolean test -/
def okIs (x : Except Err Table) (t : Table) : Bool :=
  match x with
  | .ok y => decide (y = t)
  | .error _ => false

theorem eq_of_okIs {x : Except Err Table} {t : Table} (h : okIs x t = true) : x = .ok t := by
  cases x with
  | error e => simp [okIs] at h
  | ok y => simp only [okIs, decide_eq_true_eq] at h; rw [h]

theorem del_svc : delRoute env0 tab0 dSvc = .ok tab1 := eq_of_okIs (by decide +kernel)
theorem del_tags : delRoute env0 tab0 dTags = .ok tab1 := eq_of_okIs (by decide +kernel)
theorem del_src : delRoute env0 tab0 dSrc = .ok tab2 := eq_of_okIs (by decide +kernel)
theorem del_dst : delRoute env0 tab0 dDst = .ok tab3 := eq_of_okIs (by decide +kernel)

-- `inv_del`: the hypotheses hold and the result is a different table (a target and a route really went away)
example : Inv tab1 ∧ tab1 ≠ tab0 := ⟨inv_del inv_tab0 del_svc, by decide +kernel⟩
example : Inv tab1 := inv_del inv_tab0 del_tags
example : Inv tab2 ∧ tab2 ≠ tab0 := ⟨inv_del inv_tab0 del_src, by decide +kernel⟩
example : Inv tab3 ∧ tab3 ≠ tab0 := ⟨inv_del inv_tab0 del_dst, by decide +kernel⟩

-- `del_refines`: both sides are `.ok`, and the common value differs from `abs tab0`
example : specDel env0 (abs tab0) dSvc = .ok (abs tab1) := by
  rw [← del_refines inv_tab0, del_svc]; rfl
example : specDel env0 (abs tab0) dSrc = .ok (abs tab2) := by
  rw [← del_refines inv_tab0, del_src]; rfl
example : specDel env0 (abs tab0) dDst = .ok (abs tab3) := by
  rw [← del_refines inv_tab0, del_dst]; rfl
example : abs tab0 ['h'] ['/', 'p'] = [tA 1] ∧ abs tab1 ['h'] ['/', 'p'] = [] ∧
    abs tab0 ['h'] ['/'] = [tA (1/2), tB (1/2)] ∧ abs tab1 ['h'] ['/'] = [tB 1] := by decide +kernel
-- the error branch is refined too
example : (delRoute { env0 with normURL := fun _ => none } tab0 dDst).map abs = .error .badURL := by
  rw [del_refines inv_tab0]; rfl

-- `del_leaves_no_empty`
example : NoEmpty tab1 := del_leaves_no_empty inv_tab0.noEmpty del_svc
example : NoEmpty tab2 := del_leaves_no_empty inv_tab0.noEmpty del_src

-- `prune_noEmpty`: pruning really removes an empty route and then its host
example : prune [(['g'], [⟨['g'], ['/'], []⟩]), (['h'], [⟨['h'], ['/'], [tB 1]⟩, ⟨['h'], ['/', 'q'], []⟩])] = tab1 := by
  decide +kernel
example : NoEmpty (prune [(['g'], [⟨['g'], ['/'], []⟩]), (['h'], [⟨['h'], ['/'], [tB 1]⟩, ⟨['h'], ['/', 'q'], []⟩])]) :=
  prune_noEmpty _
example : ¬ NoEmpty [(['g'], [⟨['g'], ['/'], ([] : List Target)⟩])] := by unfold NoEmpty; decide

-- `host_case_del`: `H/p` and `h/p` delete the same thing
example : delRoute env0 tab0 dSrc = delRoute env0 tab0 { dSrc with src := ['h', '/', 'p'] } :=
  host_case_del ['h', '/', 'p'] (by decide) (by decide)
example : dSrc.src ≠ ['h', '/', 'p'] := by decide

end examples

end Fabio.Lemmas.C05Del
