import Fabio.Model.C04F64
import Fabio.Lemmas.C04Slots
/-!
Rounding-error lemmas for `roundF64` (`Model/C04Spec.lean`), the rounding of `Arith.f64`: the result is within
half a unit in the last place of the argument, and a unit in the last place is at most `2⁻⁵²` times the argument
unless the result is a denormal.
-/
namespace Fabio.Lemmas.C04
open Fabio Fabio.Model.Route Fabio.Model.C04

theorem pow2_eq_zpow (e : Int) : pow2 e = (2 : Rat) ^ e := by
  unfold pow2
  split
  · rename_i h
    have : e = (e.toNat : Int) := (Int.toNat_of_nonneg h).symm
    conv_rhs => rw [this]
    rw [zpow_natCast]; push_cast; rfl
  · rename_i h
    have hneg : 0 ≤ -e := by omega
    have : e = -((-e).toNat : Int) := by rw [Int.toNat_of_nonneg hneg]; omega
    conv_rhs => rw [this]
    rw [zpow_neg, zpow_natCast]; push_cast
    rw [one_div]

theorem pow2_pos' (e : Int) : 0 < pow2 e := by rw [pow2_eq_zpow]; exact zpow_pos (by norm_num) _

theorem half_zpow (k : Int) : (1 / 2 : Rat) * (2 : Rat) ^ k = (2 : Rat) ^ (k - 1) := by
  rw [zpow_sub_one₀ (by norm_num : (2 : Rat) ≠ 0)]; ring

/-- round to nearest: the chosen integer is within 1/2 of the scaled argument -/
theorem rne_close (m : Rat) :
    let r := m.floor
    let frac := m - (r : Rat)
    |(((if (1 / 2 : Rat) < frac then r + 1 else if frac = 1 / 2 then (if r % 2 = 0 then r else r + 1) else r : Int) : Rat)) - m|
      ≤ 1 / 2 := by
  intro r frac
  have h1 : (r : Rat) ≤ m := Rat.floor_le m
  have h2 : m < (r : Rat) + 1 := by
    have := Rat.lt_floor_add_one m
    push_cast at this
    exact this
  have hf : frac = m - (r : Rat) := rfl
  split_ifs with ha hb hc
  · push_cast; rw [abs_le]; constructor <;> linarith
  · rw [abs_le]; constructor <;> linarith
  · push_cast; rw [abs_le]; constructor <;> linarith
  · have : frac < 1 / 2 := lt_of_le_of_ne (not_lt.mp ha) hb
    rw [abs_le]; constructor <;> linarith

/-- the exponent chosen by `roundF64` is at most `log₂ q` -/
theorem exp_le (q : Rat) (hq : 0 < q) :
    pow2 (if pow2 ((Nat.log2 q.num.toNat : Int) - (Nat.log2 q.den : Int)) ≤ q
      then (Nat.log2 q.num.toNat : Int) - (Nat.log2 q.den : Int)
      else (Nat.log2 q.num.toNat : Int) - (Nat.log2 q.den : Int) - 1) ≤ q := by
  split
  · rename_i h; exact h
  · -- 2^(log2 num) ≤ num and den < 2^(log2 den + 1)
    have hnum : 0 < q.num := Rat.num_pos.mpr hq
    have hn0 : q.num.toNat ≠ 0 := by omega
    have h1 : 2 ^ Nat.log2 q.num.toNat ≤ q.num.toNat := Nat.log2_self_le hn0
    have h2 : q.den < 2 ^ (Nat.log2 q.den + 1) := Nat.lt_log2_self
    have hq' : q = (q.num.toNat : Rat) / (q.den : Rat) := by
      have : ((q.num.toNat : Nat) : Int) = q.num := Int.toNat_of_nonneg (le_of_lt hnum)
      have e : ((q.num.toNat : Nat) : Rat) = (q.num : Rat) := by exact_mod_cast congrArg (fun z : Int => (z : Rat)) this
      rw [e]; exact (Rat.num_div_den q).symm
    rw [pow2_eq_zpow]
    have hden : (0 : Rat) < (q.den : Rat) := by exact_mod_cast q.den_pos
    have e1 : ((2 : Rat) ^ (Nat.log2 q.num.toNat)) ≤ (q.num.toNat : Rat) := by exact_mod_cast h1
    have e2 : (q.den : Rat) ≤ (2 : Rat) ^ (Nat.log2 q.den + 1) := by exact_mod_cast le_of_lt h2
    have : (2 : Rat) ^ ((Nat.log2 q.num.toNat : Int) - (Nat.log2 q.den : Int) - 1)
        = (2 : Rat) ^ (Nat.log2 q.num.toNat) / (2 : Rat) ^ (Nat.log2 q.den + 1) := by
      rw [show ((Nat.log2 q.num.toNat : Int) - (Nat.log2 q.den : Int) - 1) = (Nat.log2 q.num.toNat : Int) - ((Nat.log2 q.den + 1 : Nat) : Int) by push_cast; ring]
      rw [zpow_sub₀ (by norm_num : (2 : Rat) ≠ 0), zpow_natCast, zpow_natCast]
    rw [this]
    conv_rhs => rw [hq']
    have hp : (0 : Rat) < (2 : Rat) ^ (Nat.log2 q.den + 1) := by positivity
    rw [div_le_div_iff₀ hp hden]
    calc (2 : Rat) ^ (Nat.log2 q.num.toNat) * (q.den : Rat)
        ≤ (q.num.toNat : Rat) * (q.den : Rat) := by apply mul_le_mul_of_nonneg_right e1 (le_of_lt hden)
      _ ≤ (q.num.toNat : Rat) * (2 : Rat) ^ (Nat.log2 q.den + 1) := by
          apply mul_le_mul_of_nonneg_left e2; exact_mod_cast Nat.zero_le _

/-- **`roundF64 q` is within half an ulp of `q`**, and the ulp is `2⁻⁵²·2^e ≤ 2⁻⁵²·q` unless it is the denormal
spacing `2⁻¹⁰⁷⁴`: `|roundF64 q − q| ≤ max(2⁻¹⁰⁷⁵, 2⁻⁵³·q)`. -/
theorem roundF64_err (q : Rat) (hq : 0 < q) :
    |roundF64 q - q| ≤ pow2 (-1075) ∨ |roundF64 q - q| ≤ q * pow2 (-53) := by
  unfold roundF64
  rw [if_neg (not_le.mpr hq)]
  simp only
  generalize he : (if pow2 ((Nat.log2 q.num.toNat : Int) - (Nat.log2 q.den : Int)) ≤ q
      then (Nat.log2 q.num.toNat : Int) - (Nat.log2 q.den : Int)
      else (Nat.log2 q.num.toNat : Int) - (Nat.log2 q.den : Int) - 1) = e
  have hle : pow2 e ≤ q := by rw [← he]; exact exp_le q hq
  generalize hu : (if e - 52 < -1074 then (-1074 : Int) else e - 52) = u
  have hpu := pow2_pos' u
  have hclose := rne_close (q / pow2 u)
  simp only at hclose
  -- result − q = (r' − m)·2^u
  have key : ∀ r' : Int, (r' : Rat) * pow2 u - q = ((r' : Rat) - q / pow2 u) * pow2 u := by
    intro r'; field_simp
  rw [key, abs_mul, abs_of_pos hpu]
  have hb : |(((if (1 / 2 : Rat) < q / pow2 u - ((q / pow2 u).floor : Rat) then (q / pow2 u).floor + 1
      else if q / pow2 u - ((q / pow2 u).floor : Rat) = 1 / 2 then (if (q / pow2 u).floor % 2 = 0 then (q / pow2 u).floor else (q / pow2 u).floor + 1)
      else (q / pow2 u).floor : Int) : Rat)) - q / pow2 u| * pow2 u ≤ 1 / 2 * pow2 u :=
    mul_le_mul_of_nonneg_right hclose (le_of_lt hpu)
  by_cases hsub : e - 52 < -1074
  · left
    rw [if_pos hsub] at hu; subst hu
    refine le_trans hb (le_of_eq ?_)
    rw [pow2_eq_zpow, pow2_eq_zpow, half_zpow]
    norm_num
  · right
    rw [if_neg hsub] at hu; subst hu
    refine le_trans hb ?_
    have : (1 / 2 : Rat) * pow2 (e - 52) = pow2 e * pow2 (-53) := by
      rw [pow2_eq_zpow, pow2_eq_zpow, pow2_eq_zpow, ← zpow_add₀ (by norm_num : (2 : Rat) ≠ 0), half_zpow]
      congr 1; ring
    rw [this]
    exact mul_le_mul_of_nonneg_right hle (le_of_lt (pow2_pos' _))

theorem rne_nonneg' (r : Int) (hr : 0 ≤ r) (frac half : Rat) :
    0 ≤ (if half < frac then r + 1 else if frac = half then (if r % 2 = 0 then r else r + 1) else r) := by
  split_ifs <;> omega

theorem roundF64_nonneg' (q : Rat) : 0 ≤ roundF64 q := by
  unfold roundF64
  split
  · exact le_refl _
  · rename_i hq
    have hq : 0 < q := not_le.mp hq
    simp only
    refine mul_nonneg ?_ (le_of_lt (pow2_pos' _))
    have h := rne_nonneg' _ (floor_nonneg_of_nonneg _ (div_nonneg (le_of_lt hq) (le_of_lt (pow2_pos'
      (if (if pow2 ((Nat.log2 q.num.toNat : Int) - (Nat.log2 q.den : Int)) ≤ q
        then (Nat.log2 q.num.toNat : Int) - (Nat.log2 q.den : Int)
        else (Nat.log2 q.num.toNat : Int) - (Nat.log2 q.den : Int) - 1) - 52 < -1074 then -1074
        else (if pow2 ((Nat.log2 q.num.toNat : Int) - (Nat.log2 q.den : Int)) ≤ q
        then (Nat.log2 q.num.toNat : Int) - (Nat.log2 q.den : Int)
        else (Nat.log2 q.num.toNat : Int) - (Nat.log2 q.den : Int) - 1) - 52)))))
    exact_mod_cast h _ _

/-- for arguments up to 2·10⁴ (a slot product `10⁴·w`, `w ≤ 2`) the rounding error is below 10⁻⁶ -/
theorem roundF64_err_small (q : Rat) (hq : 0 < q) (hle : q ≤ 20000) : |roundF64 q - q| ≤ 1 / 1000000 := by
  rcases roundF64_err q hq with h | h
  · exact le_trans h (by decide +kernel)
  · refine le_trans h ?_
    have hp : (0 : Rat) ≤ pow2 (-53) := le_of_lt (pow2_pos' _)
    calc q * pow2 (-53) ≤ 20000 * pow2 (-53) := mul_le_mul_of_nonneg_right hle hp
      _ ≤ 1 / 1000000 := by decide +kernel

/-- **"To within the resolution of 10,000 slots" in float64:** for every weight `0 ≤ w ≤ 2` (effective weights
are at most 1 up to rounding) the slot
count the code computes — `int(float64(maxSlots) * w)` with the product rounded to float64, bumped to 1 for a
positive weight — differs from `10⁴·w` by less than `1 + 10⁻⁶`. (Over ℚ the bound is `< 1`,
`slot_error_lt_one`; the specification evaluated on the implementation uses exactly this tolerance.) -/
theorem slot_error_f64 (w : Rat) (h0 : 0 ≤ w) (h1 : w ≤ 2) :
    |(slotCountA Arith.f64 w : Rat) - 10000 * w| < 1 + 1 / 1000000 := by
  have hrnd : Arith.f64.rnd ((maxSlots : Rat) * w) = roundF64 (10000 * w) := by
    show roundF64S _ = _
    unfold roundF64S
    rw [if_neg (not_lt.mpr (mul_nonneg (by simp [maxSlots]) h0))]
    simp [maxSlots]
  unfold slotCountA
  rw [hrnd]
  by_cases hw : w = 0
  · subst hw
    have : roundF64 (10000 * 0) = 0 := by decide +kernel
    rw [this]
    have : truncZ 0 = 0 := by decide +kernel
    simp [this]
    norm_num
  · have hwp : 0 < w := lt_of_le_of_ne h0 (Ne.symm hw)
    have hq : (0 : Rat) < 10000 * w := by positivity
    have hle : 10000 * w ≤ 20000 := by linarith
    have herr := roundF64_err_small _ hq hle
    have hx0 : 0 ≤ roundF64 (10000 * w) := roundF64_nonneg' _
    rw [truncZ_of_nonneg _ hx0]
    have hfl := Rat.floor_le (roundF64 (10000 * w))
    have hlt := Rat.lt_floor_add_one (roundF64 (10000 * w))
    push_cast at hlt
    rw [abs_le] at herr
    obtain ⟨e1, e2⟩ := herr
    simp only
    split
    · -- bumped to one slot: the rounded product is below 1
      rename_i hb
      have hz : (roundF64 (10000 * w)).floor = 0 := hb.1
      rw [hz] at hlt
      norm_num at hlt
      push_cast
      rw [abs_lt]; constructor <;> linarith
    · rw [abs_lt]; constructor <;> linarith

end Fabio.Lemmas.C04
