import Fabio.Model.C16
/-! Helper lemmas for C16: association-list facts about the pool and the one-step invariants. -/
namespace Fabio.Lemmas.C16
open Fabio.Model.Route (Str Table)
open Fabio.Model.C16

theorem find_put_same (p : Pool) (k : Str) (c : Conn) : (p.put k c).find k = some c := by
  induction p with
  | nil => simp [Pool.put, Pool.find]
  | cons kc r ih =>
    obtain ⟨k', c'⟩ := kc
    by_cases h : k' = k
    · simp [Pool.put, Pool.find, h]
    · simp [Pool.put, Pool.find, h, ih]

theorem find_put_other (p : Pool) (k k' : Str) (c : Conn) (h : k' ≠ k) :
    (p.put k c).find k' = p.find k' := by
  induction p with
  | nil => simp [Pool.put, Pool.find]; intro e; exact absurd e.symm h
  | cons kc r ih =>
    obtain ⟨k0, c0⟩ := kc
    by_cases h0 : k0 = k
    · subst h0
      have : ¬ k0 = k' := fun e => h e.symm
      simp [Pool.put, Pool.find, this]
    · by_cases h1 : k0 = k'
      · subst h1
        simp [Pool.put, Pool.find, h0]
      · simp [Pool.put, Pool.find, h0, h1, ih]

theorem mem_keys_put (p : Pool) (k x : Str) (c : Conn) :
    x ∈ (p.put k c).keys ↔ x = k ∨ x ∈ p.keys := by
  induction p with
  | nil => simp [Pool.put, Pool.keys]
  | cons kc r ih =>
    obtain ⟨k0, c0⟩ := kc
    by_cases h0 : k0 = k
    · subst h0; simp [Pool.put, Pool.keys]
    · have hp : Pool.put ((k0, c0) :: r) k c = (k0, c0) :: Pool.put r k c := by simp [Pool.put, h0]
      have ih' : x ∈ List.map Prod.fst (Pool.put r k c) ↔ x = k ∨ x ∈ List.map Prod.fst r := ih
      rw [hp]
      simp only [Pool.keys, List.map_cons, List.mem_cons]
      rw [ih']
      constructor
      · rintro (h | h | h)
        · exact Or.inr (Or.inl h)
        · exact Or.inl h
        · exact Or.inr (Or.inr h)
      · rintro (h | h | h)
        · exact Or.inr (Or.inl h)
        · exact Or.inl h
        · exact Or.inr (Or.inr h)

theorem nodup_keys_put (p : Pool) (k : Str) (c : Conn) (h : p.keys.Nodup) : (p.put k c).keys.Nodup := by
  induction p with
  | nil => simp [Pool.put, Pool.keys]
  | cons kc r ih =>
    obtain ⟨k0, c0⟩ := kc
    simp only [Pool.keys, List.map_cons, List.nodup_cons] at h
    by_cases h0 : k0 = k
    · subst h0
      simp only [Pool.put, if_true, Pool.keys, List.map_cons, List.nodup_cons]
      exact h
    · simp only [Pool.put, h0, if_false, Pool.keys, List.map_cons, List.nodup_cons]
      refine ⟨?_, ih h.2⟩
      intro hm
      have := (mem_keys_put r k k0 c).mp hm
      rcases this with e | e
      · exact h0 e
      · exact h.1 e

theorem keys_shutKey (p : Pool) (k : Str) : (p.shutKey k).keys = p.keys := by
  induction p with
  | nil => rfl
  | cons kc r ih =>
    simp only [Pool.shutKey, Pool.keys, List.map_cons] at ih ⊢
    rw [ih]
    split <;> rfl

theorem find_shutKey_other (p : Pool) (k k' : Str) (h : k' ≠ k) : (p.shutKey k').find k = p.find k := by
  induction p with
  | nil => rfl
  | cons kc r ih =>
    obtain ⟨k0, c0⟩ := kc
    have ih' : Pool.find (Pool.shutKey r k') k = Pool.find r k := ih
    show Pool.find ((if k0 = k' then (k0, { c0 with shut := true }) else (k0, c0)) :: Pool.shutKey r k') k = _
    by_cases h0 : k0 = k'
    · have hk : ¬ k0 = k := by intro e; exact h (h0.symm.trans e)
      rw [if_pos h0]
      simp only [Pool.find]
      rw [if_neg hk, if_neg hk]
      exact ih'
    · rw [if_neg h0]
      simp only [Pool.find]
      by_cases h1 : k0 = k
      · simp [h1]
      · simp [h1, ih']

theorem cleanup_cons (k0 : Str) (c0 : Conn) (r : Pool) (urls : List Str) :
    Pool.cleanup ((k0, c0) :: r) urls =
      if (!c0.shut && urls.contains k0) = true then (k0, c0) :: Pool.cleanup r urls else Pool.cleanup r urls := by
  simp only [Pool.cleanup, List.filter_cons]

theorem keys_cleanup_sublist (p : Pool) (urls : List Str) : (p.cleanup urls).keys.Sublist p.keys := by
  unfold Pool.cleanup Pool.keys
  exact (List.filter_sublist (l := p)).map _

theorem nodup_keys_cleanup (p : Pool) (urls : List Str) (h : p.keys.Nodup) : (p.cleanup urls).keys.Nodup :=
  (keys_cleanup_sublist p urls).nodup h

theorem mem_cleanup {p : Pool} {urls : List Str} {kc : Str × Conn} (h : kc ∈ p.cleanup urls) :
    kc ∈ p ∧ kc.2.shut = false ∧ kc.1 ∈ urls := by
  unfold Pool.cleanup at h
  rw [List.mem_filter] at h
  obtain ⟨hm, hc⟩ := h
  simp only [Bool.and_eq_true, Bool.not_eq_true', List.contains_eq_mem, decide_eq_true_eq] at hc
  exact ⟨hm, hc.1, hc.2⟩

theorem find_cleanup (p : Pool) (urls : List Str) (k : Str) (c : Conn)
    (hf : p.find k = some c) (hl : c.shut = false) (hu : urls.contains k = true) :
    (p.cleanup urls).find k = some c := by
  induction p with
  | nil => simp [Pool.find] at hf
  | cons kc r ih =>
    obtain ⟨k0, c0⟩ := kc
    rw [cleanup_cons]
    by_cases h0 : k0 = k
    · subst h0
      simp [Pool.find] at hf
      subst hf
      have hm : k0 ∈ urls := by simpa using hu
      simp [hl, hm, Pool.find]
    · simp [Pool.find, h0] at hf
      have := ih hf
      split
      · simp [Pool.find, h0]; exact this
      · exact this

theorem find_mem {p : Pool} {k : Str} {c : Conn} (h : p.find k = some c) : (k, c) ∈ p := by
  induction p with
  | nil => simp [Pool.find] at h
  | cons kc r ih =>
    obtain ⟨k0, c0⟩ := kc
    by_cases h0 : k0 = k
    · subst h0; simp [Pool.find] at h; subst h; exact List.mem_cons_self
    · simp [Pool.find, h0] at h; exact List.mem_cons_of_mem _ (ih h)

theorem find_none_of_not_mem_keys {p : Pool} {k : Str} (h : k ∉ p.keys) : p.find k = none := by
  induction p with
  | nil => rfl
  | cons kc r ih =>
    obtain ⟨k0, c0⟩ := kc
    simp only [Pool.keys, List.map_cons, List.mem_cons, not_or] at h
    have h0 : ¬ k0 = k := fun e => h.1 e.symm
    simp [Pool.find, h0]
    exact ih h.2

/-! ### `World.get` -/

theorem get_hit (w : World) (k : Str) (d : Bool) (c : Conn) (hf : w.pool.find k = some c) (hl : c.shut = false) :
    w.get k d = (w, .reused c.id) := by
  simp [World.get, hf, hl]

theorem get_miss_ok (w : World) (k : Str) (hm : ∀ c, w.pool.find k = some c → c.shut = true) :
    w.get k true = ({ w with pool := w.pool.put k { id := w.next }, next := w.next + 1, dialLog := k :: w.dialLog }, .dialled w.next) := by
  unfold World.get
  cases hf : w.pool.find k with
  | none => simp
  | some c => simp [hm c hf]

theorem get_miss_err (w : World) (k : Str) (hm : ∀ c, w.pool.find k = some c → c.shut = true) :
    w.get k false = ({ w with dialLog := k :: w.dialLog }, .error) := by
  unfold World.get
  cases hf : w.pool.find k with
  | none => simp
  | some c => simp [hm c hf]

/-- every way `get` can go, in one statement -/
theorem get_cases (w : World) (k : Str) (d : Bool) :
    (∃ c, w.pool.find k = some c ∧ c.shut = false ∧ w.get k d = (w, .reused c.id)) ∨
    ((∀ c, w.pool.find k = some c → c.shut = true) ∧ d = true ∧
      w.get k d = ({ w with pool := w.pool.put k { id := w.next }, next := w.next + 1, dialLog := k :: w.dialLog }, .dialled w.next)) ∨
    ((∀ c, w.pool.find k = some c → c.shut = true) ∧ d = false ∧
      w.get k d = ({ w with dialLog := k :: w.dialLog }, .error)) := by
  cases hf : w.pool.find k with
  | none =>
    have hm : ∀ c, w.pool.find k = some c → c.shut = true := by intro c h; rw [hf] at h; cases h
    cases d
    · exact Or.inr (Or.inr ⟨by simp, rfl, get_miss_err w k hm⟩)
    · exact Or.inr (Or.inl ⟨by simp, rfl, get_miss_ok w k hm⟩)
  | some c =>
    cases hs : c.shut
    · exact Or.inl ⟨c, rfl, hs, get_hit w k d c hf hs⟩
    · have hm : ∀ c', w.pool.find k = some c' → c'.shut = true := by
        intro c' h; rw [hf] at h; cases h; exact hs
      cases d
      · refine Or.inr (Or.inr ⟨?_, rfl, get_miss_err w k hm⟩)
        intro c' h; cases h; exact hs
      · refine Or.inr (Or.inl ⟨?_, rfl, get_miss_ok w k hm⟩)
        intro c' h; cases h; exact hs

end Fabio.Lemmas.C16
