import Fabio.Model.C16Relay
/-! Helper lemmas for the liveness theorems of the relay model of C16: the backend → caller half of the relay
as a small transition system of its own (`Down`), the projection lemma, and the progress measure. -/
namespace Fabio.Lemmas.C16RelayLive
open Fabio.Model.C16.Spec (SMD)
open Fabio.Model.C16.Relay

/-- the part of the state the backend → caller direction reads and writes -/
structure Down where
  bHdr : SMD
  bFin : Option (SMD × Status)
  qC : List Msg
  c2s : C2S
  first : Bool
  qD : List Item
  dFin : Option (SMD × Status)
  cHdr : Option SMD
  cGot : List Msg
  cFin : Option (SMD × Status)
deriving DecidableEq

def down (s : St) : Down :=
  { bHdr := s.bHdr, bFin := s.bFin, qC := s.qC, c2s := s.c2s, first := s.first, qD := s.qD, dFin := s.dFin,
    cHdr := s.cHdr, cGot := s.cGot, cFin := s.cFin }

/-- `forwardClientToServer`'s micro-step on the projection -/
def dC2S (d : Down) : Down :=
  match d.c2s with
  | .recv =>
    match d.qC with
    | m :: r => { d with qC := r, c2s := if d.first then .hdr m else .send m }
    | [] =>
      match d.bFin with
      | some (tr, st) => { d with c2s := .done tr st }
      | none => d
  | .hdr m => { d with qD := d.qD ++ [.header d.bHdr], first := false, c2s := .send m }
  | .send m => { d with qD := d.qD ++ [.msg m], c2s := .recv }
  | .done _ _ => d

def dSel (d : Down) : Down :=
  match d.c2s with
  | .done tr st => if d.dFin.isNone then { d with dFin := some (tr, st.norm) } else d
  | _ => d

def dRecv (d : Down) : Down :=
  match d.qD with
  | .header h :: r => { d with qD := r, cHdr := some h }
  | .msg m :: r => { d with qD := r, cGot := d.cGot ++ [m] }
  | [] =>
    match d.dFin with
    | some f => { d with cFin := some f }
    | none => d

theorem down_c2s (s : St) : down (step s .c2sStep) = dC2S (down s) := by
  cases hc : s.c2s with
  | recv =>
    cases hq : s.qC with
    | cons m r => simp [step, dC2S, down, hc, hq]
    | nil =>
      cases hb : s.bFin with
      | none => simp [step, dC2S, down, hc, hq, hb]
      | some f => obtain ⟨tr, st⟩ := f; simp [step, dC2S, down, hc, hq, hb]
  | hdr m => simp [step, dC2S, down, hc]
  | send m => simp [step, dC2S, down, hc]
  | done tr st => simp [step, dC2S, down, hc]

theorem down_sel (s : St) : down (step s .selC2S) = dSel (down s) := by
  cases hc : s.c2s with
  | done tr st =>
    cases hd : s.dFin with
    | none => simp [step, dSel, down, hc, hd]
    | some f => simp [step, dSel, down, hc, hd]
  | recv => simp [step, dSel, down, hc]
  | hdr m => simp [step, dSel, down, hc]
  | send m => simp [step, dSel, down, hc]

theorem down_recv (s : St) : down (step s .callerRecv) = dRecv (down s) := by
  cases hq : s.qD with
  | cons i r => cases i <;> simp [step, dRecv, down, hq]
  | nil =>
    cases hd : s.dFin with
    | none => simp [step, dRecv, down, hq, hd]
    | some f => simp [step, dRecv, down, hq, hd]

/-- the caller → backend events of a round do not touch the other direction -/
theorem down_s2c (s : St) : down (step s .s2cStep) = down s := by
  cases hc : s.s2c with
  | recv =>
    cases hd : s.dFin with
    | some f => simp [step, down, hc, hd]
    | none =>
      cases hq : s.qA with
      | cons m r => simp [step, down, hc, hd, hq]
      | nil => cases hcl : s.cClosed <;> simp [step, down, hc, hd, hq, hcl]
  | send m => simp [step, down, hc]
  | eof => simp [step, down, hc]
  | failed => simp [step, down, hc]

theorem down_selS2C (s : St) : down (step s .selS2C) = down s := by
  simp only [step, down]; split <;> rfl

theorem down_backendRecv (s : St) (h : s.bFin.isSome = true) : down (step s .backendRecv) = down s := by
  simp only [step, h, if_true]

/-- one round on the projection, when the backend has finished -/
def dRound (d : Down) : Down := dRecv (dSel (dC2S d))

theorem step_bFin_round (s : St) (e : Ev) (he : e ∈ round) : (step s e).bFin = s.bFin := by
  simp only [round, List.mem_cons, List.mem_nil_iff, or_false] at he
  rcases he with h | h | h | h | h | h <;> subst h <;> simp only [step] <;> (repeat' split) <;> rfl

theorem down_round (s : St) (h : s.bFin.isSome = true) : down (run s round) = dRound (down s) := by
  simp only [run, round, List.foldl_cons, List.foldl_nil, dRound]
  have b1 : (step s .s2cStep).bFin = s.bFin := step_bFin_round s _ (by simp [round])
  have b2 : (step (step s .s2cStep) .selS2C).bFin = s.bFin := (step_bFin_round _ _ (by simp [round])).trans b1
  rw [down_recv, down_sel, down_c2s, down_backendRecv _ (by rw [b2]; exact h), down_selS2C, down_s2c]

theorem bFin_round (s : St) : (run s round).bFin = s.bFin := by
  simp only [run, round, List.foldl_cons, List.foldl_nil]
  rw [step_bFin_round _ _ (by simp [round]), step_bFin_round _ _ (by simp [round]),
    step_bFin_round _ _ (by simp [round]), step_bFin_round _ _ (by simp [round]),
    step_bFin_round _ _ (by simp [round]), step_bFin_round _ _ (by simp [round])]

/-- work left in the backend → caller direction -/
def wC2S : C2S → Nat
  | .recv => 1
  | .hdr _ => 6
  | .send _ => 3
  | .done _ _ => 0

def nu (d : Down) : Nat :=
  6 * d.qC.length + wC2S d.c2s + d.qD.length + (if d.dFin.isNone then 1 else 0) + (if d.cFin.isNone then 1 else 0)

theorem dRound_bFin (d : Down) : (dRound d).bFin = d.bFin := by
  simp only [dRound, dRecv, dSel, dC2S]
  repeat' split
  all_goals rfl

theorem nu_dC2S (d : Down) (hb : d.bFin.isSome = true) :
    nu (dC2S d) ≤ nu d ∧ ((∀ tr st, d.c2s ≠ .done tr st) → nu (dC2S d) < nu d) := by
  cases hc : d.c2s with
  | recv =>
    cases hq : d.qC with
    | cons m r =>
      cases hf : d.first <;> simp [dC2S, nu, hc, hq, hf, wC2S] <;> omega
    | nil =>
      cases hbf : d.bFin with
      | none => rw [hbf] at hb; cases hb
      | some f => obtain ⟨tr, st⟩ := f; simp [dC2S, nu, hc, hq, hbf, wC2S]
  | hdr m => simp [dC2S, nu, hc, wC2S]; omega
  | send m => simp [dC2S, nu, hc, wC2S]; omega
  | done tr st => simp [dC2S, nu, hc]

theorem nu_dSel (d : Down) :
    nu (dSel d) ≤ nu d ∧ (∀ tr st, d.c2s = .done tr st → d.dFin = none → nu (dSel d) < nu d) := by
  cases hc : d.c2s with
  | done tr st =>
    cases hd : d.dFin with
    | none => simp [dSel, nu, hc, hd]
    | some f => simp [dSel, nu, hc, hd]
  | recv => simp [dSel, hc]
  | hdr m => simp [dSel, hc]
  | send m => simp [dSel, hc]

theorem nu_dRecv (d : Down) :
    nu (dRecv d) ≤ nu d ∧ (d.cFin = none → (d.qD ≠ [] ∨ d.dFin.isSome = true) → nu (dRecv d) < nu d) := by
  cases hq : d.qD with
  | cons i r => cases i <;> simp [dRecv, nu, hq]
  | nil =>
    cases hd : d.dFin with
    | none => simp [dRecv, nu, hq, hd]
    | some f =>
      refine ⟨?_, ?_⟩
      · cases hcf : d.cFin <;> simp [dRecv, nu, hq, hd, hcf]
      · intro hcf _; simp [dRecv, nu, hq, hd, hcf]

theorem dC2S_keeps (d : Down) : (dC2S d).cFin = d.cFin ∧ (dC2S d).dFin = d.dFin ∧ (dC2S d).bFin = d.bFin := by
  simp only [dC2S]; repeat' split
  all_goals exact ⟨rfl, rfl, rfl⟩

theorem dSel_keeps (d : Down) : (dSel d).cFin = d.cFin ∧ (dSel d).qD = d.qD ∧ (dSel d).c2s = d.c2s := by
  simp only [dSel]; repeat' split
  all_goals exact ⟨rfl, rfl, rfl⟩

theorem dRecv_cFin_some (d : Down) (h : d.cFin.isSome = true) : (dRecv d).cFin.isSome = true := by
  simp only [dRecv]; repeat' split
  all_goals first | exact h | rfl

theorem dRound_cFin_some (d : Down) (h : d.cFin.isSome = true) : (dRound d).cFin.isSome = true := by
  apply dRecv_cFin_some
  rw [(dSel_keeps _).1, (dC2S_keeps _).1]; exact h

/-- a round makes progress as long as the caller has not seen the end of a call whose backend has finished -/
theorem nu_dRound (d : Down) (hb : d.bFin.isSome = true) (hc : d.cFin = none) : nu (dRound d) < nu d := by
  unfold dRound
  obtain ⟨a1, a2⟩ := nu_dC2S d hb
  obtain ⟨b1, b2⟩ := nu_dSel (dC2S d)
  obtain ⟨c1, c2⟩ := nu_dRecv (dSel (dC2S d))
  by_cases hdone : ∀ tr st, d.c2s ≠ .done tr st
  · have := a2 hdone; omega
  · have hd : ∃ tr st, d.c2s = .done tr st := by
      cases hcs : d.c2s with
      | done tr st => exact ⟨tr, st, rfl⟩
      | recv => exact absurd (by intro tr st; rw [hcs]; intro h; cases h) hdone
      | hdr m => exact absurd (by intro tr st; rw [hcs]; intro h; cases h) hdone
      | send m => exact absurd (by intro tr st; rw [hcs]; intro h; cases h) hdone
    obtain ⟨tr, st, hcs⟩ := hd
    have e1 : dC2S d = d := by simp [dC2S, hcs]
    rw [e1] at b1 b2 c1 c2 ⊢
    cases hdf : d.dFin with
    | none => have := b2 tr st hcs hdf; omega
    | some f =>
      have e2 : dSel d = d := by simp [dSel, hcs, hdf]
      rw [e2] at c1 c2 ⊢
      exact c2 hc (Or.inr (by rw [hdf]; rfl))

def dRounds : Nat → Down → Down
  | 0, d => d
  | n + 1, d => dRounds n (dRound d)

theorem dRounds_complete (n : Nat) (d : Down) (hb : d.bFin.isSome = true) (hn : nu d ≤ n) :
    (dRounds n d).cFin.isSome = true := by
  induction n generalizing d with
  | zero =>
    cases hc : d.cFin with
    | some f => simp [dRounds, hc]
    | none => simp [nu, hc] at hn
  | succ n ih =>
    simp only [dRounds]
    cases hc : d.cFin with
    | some f =>
      have h1 : (dRound d).cFin.isSome = true := dRound_cFin_some d (by rw [hc]; rfl)
      -- once the end has been seen it stays seen
      have keep : ∀ (m : Nat) (e : Down), e.cFin.isSome = true → (dRounds m e).cFin.isSome = true := by
        intro m
        induction m with
        | zero => intro e he; exact he
        | succ m ihm => intro e he; exact ihm (dRound e) (dRound_cFin_some e he)
      exact keep n _ h1
    | none =>
      have := nu_dRound d hb hc
      exact ih (dRound d) (by rw [dRound_bFin]; exact hb) (by omega)

theorem settle_rounds (n : Nat) (s : St) (hb : s.bFin.isSome = true) :
    down (run s (settle n)) = dRounds n (down s) ∧ (run s (settle n)).bFin = s.bFin := by
  induction n generalizing s with
  | zero => exact ⟨rfl, rfl⟩
  | succ n ih =>
    have hr : run s (settle (n + 1)) = run (run s round) (settle n) := by
      simp only [settle, run, List.foldl_append]
    have hb' : (run s round).bFin.isSome = true := by rw [bFin_round]; exact hb
    obtain ⟨h1, h2⟩ := ih (run s round) hb'
    rw [hr, h1, h2, down_round s hb, bFin_round]
    exact ⟨rfl, rfl⟩

/-! ### the caller → backend half -/

/-- the part of the state the caller → backend direction reads and writes while the backend has not finished -/
structure Up where
  cClosed : Bool
  qA : List Msg
  s2c : S2C
  qB : List Msg
  bClosed : Bool
  s2cSeen : Bool
  bGot : List Msg
  bEOF : Bool
deriving DecidableEq

def up (s : St) : Up :=
  { cClosed := s.cClosed, qA := s.qA, s2c := s.s2c, qB := s.qB, bClosed := s.bClosed, s2cSeen := s.s2cSeen,
    bGot := s.bGot, bEOF := s.bEOF }

/-- "the call is still open": the backend has not finished, so the handler has not returned -/
def Open (s : St) : Prop := s.bFin = none ∧ s.dFin = none ∧ ∀ tr st, s.c2s ≠ .done tr st

def uS2C (u : Up) : Up :=
  match u.s2c with
  | .recv =>
    match u.qA with
    | m :: r => { u with qA := r, s2c := .send m }
    | [] => if u.cClosed then { u with s2c := .eof } else u
  | .send m => { u with qB := u.qB ++ [m], s2c := .recv }
  | .eof => u
  | .failed => u

def uSel (u : Up) : Up :=
  if u.s2c = .eof && !u.s2cSeen then { u with s2cSeen := true, bClosed := true } else u

def uRecv (u : Up) : Up :=
  match u.qB with
  | m :: r => { u with qB := r, bGot := u.bGot ++ [m] }
  | [] => if u.bClosed then { u with bEOF := true } else u

def uRound (u : Up) : Up := uRecv (uSel (uS2C u))

theorem up_s2c (s : St) (h : s.dFin = none) : up (step s .s2cStep) = uS2C (up s) := by
  cases hc : s.s2c with
  | recv =>
    cases hq : s.qA with
    | cons m r => simp [step, up, uS2C, hc, h, hq]
    | nil => cases hcl : s.cClosed <;> simp [step, up, uS2C, hc, h, hq, hcl]
  | send m => simp [step, up, uS2C, hc]
  | eof => simp [step, up, uS2C, hc]
  | failed => simp [step, up, uS2C, hc]

theorem up_sel (s : St) (h : s.dFin = none) : up (step s .selS2C) = uSel (up s) := by
  cases hc : s.s2c <;> cases hs : s.s2cSeen <;> simp [step, up, uSel, h, hc, hs]

theorem up_recv (s : St) (h : s.bFin = none) : up (step s .backendRecv) = uRecv (up s) := by
  cases hq : s.qB with
  | cons m r => simp [step, up, uRecv, h, hq]
  | nil => cases hb : s.bClosed <;> simp [step, up, uRecv, h, hq, hb]

theorem open_step_up (s : St) (e : Ev) (he : e = .s2cStep ∨ e = .selS2C ∨ e = .backendRecv ∨ e = .callerRecv)
    (h : Open s) : Open (step s e) := by
  obtain ⟨h1, h2, h3⟩ := h
  rcases he with he | he | he | he <;> subst he <;> simp only [step, Open] <;> (repeat' split) <;>
    first | exact ⟨h1, h2, h3⟩ | simp_all

theorem open_c2s (s : St) (h : Open s) : Open (step s .c2sStep) ∧ up (step s .c2sStep) = up s := by
  obtain ⟨h1, h2, h3⟩ := h
  cases hc : s.c2s with
  | recv =>
    cases hq : s.qC with
    | cons m r =>
      refine ⟨⟨by simp [step, hc, hq, h1], by simp [step, hc, hq, h2], ?_⟩, by simp [step, up, hc, hq]⟩
      intro tr st; simp only [step, hc, hq]; split <;> simp
    | nil =>
      exact ⟨⟨by simp [step, hc, hq, h1], by simp [step, hc, hq, h1, h2], by simp [step, hc, hq, h1]⟩,
        by simp [step, up, hc, hq, h1]⟩
  | hdr m => exact ⟨⟨by simp [step, hc, h1], by simp [step, hc, h2], by simp [step, hc]⟩, by simp [step, up, hc]⟩
  | send m => exact ⟨⟨by simp [step, hc, h1], by simp [step, hc, h2], by simp [step, hc]⟩, by simp [step, up, hc]⟩
  | done tr st => exact absurd hc (h3 tr st)

theorem open_selC2S (s : St) (h : Open s) : step s .selC2S = s := by
  obtain ⟨_, _, h3⟩ := h
  cases hc : s.c2s with
  | done tr st => exact absurd hc (h3 tr st)
  | recv => simp [step, hc]
  | hdr m => simp [step, hc]
  | send m => simp [step, hc]

theorem up_callerRecv (s : St) : up (step s .callerRecv) = up s := by
  simp only [step, up]; repeat' split
  all_goals rfl

theorem up_round (s : St) (h : Open s) : Open (run s round) ∧ up (run s round) = uRound (up s) := by
  simp only [run, round, List.foldl_cons, List.foldl_nil, uRound]
  have o1 := open_step_up s .s2cStep (Or.inl rfl) h
  have o2 := open_step_up _ .selS2C (Or.inr (Or.inl rfl)) o1
  have o3 := open_step_up _ .backendRecv (Or.inr (Or.inr (Or.inl rfl))) o2
  obtain ⟨o4, u4⟩ := open_c2s _ o3
  have e5 := open_selC2S _ o4
  rw [e5]
  have o6 := open_step_up _ .callerRecv (Or.inr (Or.inr (Or.inr rfl))) o4
  refine ⟨o6, ?_⟩
  rw [up_callerRecv, u4, up_recv _ o2.1, up_sel _ o1.2.1, up_s2c _ h.2.1]

def wS2C : S2C → Nat
  | .recv => 1
  | .send _ => 3
  | .eof => 0
  | .failed => 0

def mu (u : Up) : Nat :=
  3 * u.qA.length + wS2C u.s2c + (if u.s2cSeen then 0 else 1) + u.qB.length + (if u.bEOF then 0 else 1)

/-- the shape the caller → backend half has in every reachable state of an open call -/
def UpOK (u : Up) : Prop := u.cClosed = true ∧ u.s2c ≠ .failed ∧ u.bClosed = u.s2cSeen

theorem upOK_uS2C (u : Up) (h : UpOK u) : UpOK (uS2C u) := by
  obtain ⟨h1, h2, h3⟩ := h
  cases hc : u.s2c with
  | recv =>
    cases hq : u.qA with
    | cons m r => simp [uS2C, hc, hq, UpOK, h1, h3]
    | nil => simp [uS2C, hc, hq, UpOK, h1, h3]
  | send m => simp [uS2C, hc, UpOK, h1, h3]
  | eof => simp [uS2C, hc, UpOK, h1, h3]
  | failed => exact absurd hc h2

theorem upOK_uSel (u : Up) (h : UpOK u) : UpOK (uSel u) := by
  obtain ⟨h1, h2, h3⟩ := h
  cases hc : u.s2c <;> cases hs : u.s2cSeen <;> simp_all [uSel, UpOK]

theorem upOK_uRecv (u : Up) (h : UpOK u) : UpOK (uRecv u) := by
  obtain ⟨h1, h2, h3⟩ := h
  cases hq : u.qB with
  | cons m r => simp only [uRecv, hq, UpOK]; exact ⟨h1, h2, h3⟩
  | nil => cases hb : u.bClosed <;> simp only [uRecv, hq, hb, UpOK] <;> simp_all

theorem upOK_round (u : Up) (h : UpOK u) : UpOK (uRound u) :=
  upOK_uRecv _ (upOK_uSel _ (upOK_uS2C u h))

theorem mu_uS2C (u : Up) (h : UpOK u) :
    mu (uS2C u) ≤ mu u ∧ (u.s2c ≠ .eof → mu (uS2C u) < mu u) := by
  obtain ⟨h1, h2, _⟩ := h
  cases hc : u.s2c with
  | recv =>
    cases hq : u.qA with
    | cons m r => simp [uS2C, hc, hq, mu, wS2C]; omega
    | nil => simp [uS2C, hc, hq, h1, mu, wS2C]
  | send m => simp [uS2C, hc, mu, wS2C]; omega
  | eof => simp [uS2C, hc]
  | failed => exact absurd hc h2

theorem mu_uSel (u : Up) :
    mu (uSel u) ≤ mu u ∧ (u.s2c = .eof → u.s2cSeen = false → mu (uSel u) < mu u) := by
  cases hc : u.s2c <;> cases hs : u.s2cSeen <;> simp [uSel, mu, hc, hs]

theorem mu_uRecv (u : Up) :
    mu (uRecv u) ≤ mu u ∧ (u.bEOF = false → (u.qB ≠ [] ∨ u.bClosed = true) → mu (uRecv u) < mu u) := by
  cases hq : u.qB with
  | cons m r => simp [uRecv, hq, mu]
  | nil =>
    cases hb : u.bClosed with
    | false => simp [uRecv, hq, hb]
    | true =>
      refine ⟨?_, ?_⟩
      · cases he : u.bEOF <;> simp [uRecv, hq, hb, mu, he]
      · intro he _; simp [uRecv, hq, hb, mu, he]

theorem mu_uRound (u : Up) (h : UpOK u) (he : u.bEOF = false) : mu (uRound u) < mu u := by
  unfold uRound
  obtain ⟨a1, a2⟩ := mu_uS2C u h
  obtain ⟨b1, b2⟩ := mu_uSel (uS2C u)
  obtain ⟨c1, c2⟩ := mu_uRecv (uSel (uS2C u))
  by_cases hc : u.s2c = .eof
  · have e1 : uS2C u = u := by simp [uS2C, hc]
    rw [e1] at b1 b2 c1 c2 ⊢
    cases hs : u.s2cSeen with
    | false => have := b2 hc hs; omega
    | true =>
      have e2 : uSel u = u := by simp [uSel, hs]
      rw [e2] at c1 c2 ⊢
      exact c2 he (Or.inr (by rw [h.2.2, hs]))
  · have := a2 hc; omega

theorem uRound_bEOF (u : Up) (h : u.bEOF = true) : (uRound u).bEOF = true := by
  simp only [uRound, uRecv, uSel, uS2C]
  repeat' split
  all_goals first | exact h | rfl

def uRounds : Nat → Up → Up
  | 0, u => u
  | n + 1, u => uRounds n (uRound u)

theorem uRounds_complete (n : Nat) (u : Up) (h : UpOK u) (hn : mu u ≤ n) : (uRounds n u).bEOF = true := by
  induction n generalizing u with
  | zero =>
    cases he : u.bEOF with
    | true => simpa [uRounds] using he
    | false => simp [mu, he] at hn
  | succ n ih =>
    simp only [uRounds]
    cases he : u.bEOF with
    | true =>
      have keep : ∀ (m : Nat) (v : Up), v.bEOF = true → (uRounds m v).bEOF = true := by
        intro m
        induction m with
        | zero => intro v hv; exact hv
        | succ m ihm => intro v hv; exact ihm (uRound v) (uRound_bEOF v hv)
      exact keep n _ (uRound_bEOF u he)
    | false =>
      have := mu_uRound u h he
      exact ih (uRound u) (upOK_round u h) (by omega)

theorem settle_rounds_up (n : Nat) (s : St) (h : Open s) :
    up (run s (settle n)) = uRounds n (up s) ∧ Open (run s (settle n)) := by
  induction n generalizing s with
  | zero => exact ⟨rfl, h⟩
  | succ n ih =>
    have hr : run s (settle (n + 1)) = run (run s round) (settle n) := by
      simp only [settle, run, List.foldl_append]
    obtain ⟨o, u⟩ := up_round s h
    obtain ⟨h1, h2⟩ := ih (run s round) o
    rw [hr, h1, u]
    exact ⟨rfl, h2⟩

/-- two small invariants of every reachable state -/
def Ctl (s : St) : Prop := (s.s2c = .failed → s.dFin.isSome = true) ∧ s.bClosed = s.s2cSeen

theorem ctl_init (method : String) (md : SMD) : Ctl (init method md) := by
  simp [Ctl, init]

theorem ctl_step (s : St) (e : Ev) (h : Ctl s) : Ctl (step s e) := by
  obtain ⟨h1, h2⟩ := h
  cases e <;> simp only [step, Ctl] <;> (repeat' split) <;> simp_all

theorem ctl_run (s : St) (es : List Ev) (h : Ctl s) : Ctl (run s es) := by
  induction es generalizing s with
  | nil => exact h
  | cons e es ih => exact ih (step s e) (ctl_step s e h)

end Fabio.Lemmas.C16RelayLive
