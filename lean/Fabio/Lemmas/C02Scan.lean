import Fabio.Model.C02Buf
/-!
The scanner model of `Model/C02Buf.lean` delivers LINES (core Lean only).

`Scan.next` mimics `bufio.Scanner.Scan` on positions: buffer capacity, `start`, `end`, bytes read, EOF. This file
proves what a call returns, for every source, every state the scanner can be in and both `bufio` constants:

* a token `(p, l)` starts where the previous one ended (`p = s.base`), contains no newline, is shorter than the token
  limit, and is followed by a newline — or is the non-empty rest of the source when the end has been reached;
* `false` with `ErrTooLong` only when the next `maxTok` bytes hold no newline; `false` without error only when the
  source is exhausted (given enough fuel, which `data.size - s.off + 2` always is).

So the tokens are exactly the maximal newline-free segments, up to the first one of `maxTok` bytes or more: the
line-level model of `route.Parse` (`Parse.rawLines`, `maxToken ≤ byteLen raw`) and the chunked reader agree.
-/
namespace Fabio.Lemmas.C02Scan
open Fabio Fabio.Model.C02Buf

/-- no newline in `[a, b)` -/
def NoNL (data : Array Bool) (a b : Nat) : Prop := ∀ i, a ≤ i → i < b → data[i]? ≠ some true

theorem findNL_spec (data : Array Bool) (hi : Nat) : ∀ (fuel i : Nat), hi - i ≤ fuel →
    match findNL data hi fuel i with
    | some j => i ≤ j ∧ j < hi ∧ data[j]? = some true ∧ NoNL data i j
    | none => NoNL data i hi := by
  intro fuel
  induction fuel with
  | zero =>
    intro i h
    simp only [findNL]
    intro k hk1 hk2; omega
  | succ fuel ih =>
    intro i h
    unfold findNL
    by_cases hlt : i < hi
    · simp only [hlt, if_true]
      by_cases hd : (data[i]? == some true) = true
      · simp only [hd, if_true]
        refine ⟨Nat.le_refl _, hlt, by simpa using hd, ?_⟩
        intro k hk1 hk2; omega
      · simp only [hd]
        have := ih (i+1) (by omega)
        split at this
        · rename_i j hj
          simp only [hj]
          obtain ⟨h1, h2, h3, h4⟩ := this
          refine ⟨by omega, h2, h3, ?_⟩
          intro k hk1 hk2
          by_cases hki : k = i
          · subst hki; intro hc; apply hd; simp [hc]
          · exact h4 k (by omega) hk2
        · rename_i hj
          simp only [hj]
          intro k hk1 hk2
          by_cases hki : k = i
          · subst hki; intro hc; apply hd; simp [hc]
          · exact this k (by omega) hk2
    · simp only [hlt, if_false]
      intro k hk1 hk2; omega

/-- what holds of the scanner between two steps -/
structure Ok (cfg : ScanCfg) (data : Array Bool) (s : Scan) : Prop where
  se : s.start ≤ s.end_
  ec : s.end_ ≤ s.cap
  ho : s.end_ - s.start ≤ s.off
  ol : s.off ≤ data.size
  eo : s.eof = true → s.off = data.size
  ee : s.eof = true → s.end_ < s.cap
  nl : s.tooLong = false
  cm : s.cap ≤ cfg.maxTok

theorem Ok.init (cfg : ScanCfg) (data : Array Bool) : Ok cfg data {} :=
  ⟨Nat.le_refl _, Nat.le_refl _, Nat.zero_le _, Nat.zero_le _, by simp, by simp, rfl, Nat.zero_le _⟩

theorem shift_ok {cfg : ScanCfg} {data : Array Bool} {s : Scan} (h : Ok cfg data s) (he : s.eof = false) :
    Ok cfg data s.shift ∧ s.shift.base = s.base ∧ s.shift.held = s.held ∧ s.shift.eof = false ∧ s.shift.off = s.off := by
  unfold Scan.shift
  split
  · refine ⟨⟨by simp, ?_, ?_, h.ol, by simp [he], by simp [he], h.nl, h.cm⟩, ?_, ?_, he, rfl⟩
    · have := h.ec; have := h.se; simp [Scan.held]; omega
    · have := h.ho; simp [Scan.held]; omega
    · simp [Scan.base, Scan.held]
    · simp [Scan.held]
  · exact ⟨h, rfl, rfl, he, rfl⟩

theorem grow_ok {cfg : ScanCfg} {data : Array Bool} {s : Scan} (hsb : 0 < cfg.startBuf) (hsm : cfg.startBuf ≤ cfg.maxTok)
    (h : Ok cfg data s) (he : s.eof = false) (hf : s.full cfg = false) :
    Ok cfg data (s.grow cfg) ∧ (s.grow cfg).base = s.base ∧ (s.grow cfg).held = s.held ∧ (s.grow cfg).eof = false ∧
      (s.grow cfg).off = s.off ∧ (s.grow cfg).end_ < (s.grow cfg).cap := by
  have hse := h.se; have hec := h.ec; have hho := h.ho; have hcm := h.cm
  by_cases hfull : s.end_ = s.cap
  · have hlt : s.cap < cfg.maxTok := by
      unfold Scan.full at hf
      simp only [hfull, beq_self_eq_true, Bool.true_and, decide_eq_false_iff_not, ge_iff_le, Nat.not_le] at hf
      exact hf
    by_cases hz : s.cap = 0
    · have hg : s.grow cfg = { s with cap := cfg.startBuf, end_ := s.end_ - s.start, start := 0 } := by
        unfold Scan.grow; simp [hfull, hz]
      rw [hg]
      refine ⟨⟨Nat.zero_le _, ?_, ?_, h.ol, ?_, ?_, h.nl, hsm⟩, ?_, ?_, he, rfl, ?_⟩
      · show s.end_ - s.start ≤ cfg.startBuf; omega
      · show s.end_ - s.start - 0 ≤ s.off; omega
      · intro h1; rw [he] at h1; cases h1
      · intro h1; rw [he] at h1; cases h1
      · show s.off - (s.end_ - s.start - 0) = s.off - (s.end_ - s.start); omega
      · show s.end_ - s.start - 0 = s.end_ - s.start; omega
      · show s.end_ - s.start < cfg.startBuf; omega
    · have hg : s.grow cfg = { s with cap := min (s.cap * 2) cfg.maxTok, end_ := s.end_ - s.start, start := 0 } := by
        unfold Scan.grow; simp [hfull, hz]
      rw [hg]
      have hmin : s.cap < min (s.cap * 2) cfg.maxTok := by simp [Nat.lt_min]; omega
      refine ⟨⟨Nat.zero_le _, ?_, ?_, h.ol, ?_, ?_, h.nl, Nat.min_le_right _ _⟩, ?_, ?_, he, rfl, ?_⟩
      · show s.end_ - s.start ≤ min (s.cap * 2) cfg.maxTok; omega
      · show s.end_ - s.start - 0 ≤ s.off; omega
      · intro h1; rw [he] at h1; cases h1
      · intro h1; rw [he] at h1; cases h1
      · show s.off - (s.end_ - s.start - 0) = s.off - (s.end_ - s.start); omega
      · show s.end_ - s.start - 0 = s.end_ - s.start; omega
      · show s.end_ - s.start < min (s.cap * 2) cfg.maxTok; omega
  · have hg : s.grow cfg = s := by unfold Scan.grow; simp [hfull]
    rw [hg]
    exact ⟨h, rfl, rfl, he, rfl, by omega⟩

theorem read_ok {cfg : ScanCfg} {data : Array Bool} {s : Scan} (h : Ok cfg data s) (he : s.eof = false)
    (hlt : s.end_ < s.cap) :
    Ok cfg data (s.read data) ∧ (s.read data).base = s.base ∧
      data.size - (s.read data).off + (if (s.read data).eof then 0 else 1) < data.size - s.off + 1 := by
  have hse := h.se; have hec := h.ec; have hho := h.ho; have hol := h.ol
  by_cases hr : data.size - s.off = 0
  · have hg : s.read data = { s with eof := true } := by unfold Scan.read; simp [hr]
    rw [hg]
    refine ⟨⟨hse, hec, hho, hol, fun _ => ?_, fun _ => hlt, h.nl, h.cm⟩, rfl, ?_⟩
    · show s.off = data.size; omega
    · show data.size - s.off + (if true = true then 0 else 1) < data.size - s.off + 1
      simp
  · have hn1 : 1 ≤ min (s.cap - s.end_) (data.size - s.off) := by simp [Nat.le_min]; omega
    have hn2 : min (s.cap - s.end_) (data.size - s.off) ≤ s.cap - s.end_ := Nat.min_le_left _ _
    have hn3 : min (s.cap - s.end_) (data.size - s.off) ≤ data.size - s.off := Nat.min_le_right _ _
    have hg : s.read data = { s with end_ := s.end_ + min (s.cap - s.end_) (data.size - s.off),
                                      off := s.off + min (s.cap - s.end_) (data.size - s.off) } := by
      unfold Scan.read; simp [hr]
    rw [hg]
    generalize min (s.cap - s.end_) (data.size - s.off) = n at *
    refine ⟨⟨?_, ?_, ?_, ?_, ?_, ?_, h.nl, h.cm⟩, ?_, ?_⟩
    · show s.start ≤ s.end_ + n; omega
    · show s.end_ + n ≤ s.cap; omega
    · show s.end_ + n - s.start ≤ s.off + n; omega
    · show s.off + n ≤ data.size; omega
    · intro h1; rw [he] at h1; cases h1
    · intro h1; rw [he] at h1; cases h1
    · show s.off + n - (s.end_ + n - s.start) = s.off - (s.end_ - s.start); omega
    · show data.size - (s.off + n) + (if s.eof = true then 0 else 1) < data.size - s.off + 1
      simp [he]; omega

/-- **What one call of `Scan()` returns.** -/
theorem next_spec (cfg : ScanCfg) (data : Array Bool) (hsb : 0 < cfg.startBuf) (hsm : cfg.startBuf ≤ cfg.maxTok) :
    ∀ (fuel : Nat) (s : Scan), Ok cfg data s →
      data.size - s.off + (if s.eof then 0 else 1) < fuel →
      match Scan.next cfg data fuel s with
      | (some (p, l), s') =>
          Ok cfg data s' ∧ p = s.base ∧ NoNL data p (p + l) ∧ l < cfg.maxTok ∧
          ((data[p + l]? = some true ∧ s'.base = p + l + 1) ∨
           (0 < l ∧ p + l = data.size ∧ s'.base = data.size ∧ s'.eof = true))
      | (none, s') =>
          (s'.tooLong = true ∧ NoNL data s.base (s.base + cfg.maxTok) ∧ s.base + cfg.maxTok ≤ data.size) ∨
          (s'.tooLong = false ∧ s.base = data.size) := by
  intro fuel
  induction fuel with
  | zero => intro s _ hf; omega
  | succ fuel ih =>
    intro s h hf
    have hse := h.se; have hec := h.ec; have hho := h.ho; have hol := h.ol; have hcm := h.cm
    have hfind := findNL_spec data s.off (s.held + 1) s.base (by simp [Scan.base, Scan.held]; omega)
    unfold Scan.next
    cases htok : s.token data with
    | some tk =>
      obtain ⟨p, l, adv⟩ := tk
      simp only
      unfold Scan.token at htok
      split at htok
      · rename_i hcond
        split at htok
        · -- a newline in the buffer
          rename_i i hi
          rw [hi] at hfind
          obtain ⟨f1, f2, f3, f4⟩ := hfind
          simp only [Option.some.injEq, Prod.mk.injEq] at htok
          obtain ⟨rfl, rfl, rfl⟩ := htok
          have hb : s.base + s.held = s.off := by simp [Scan.base, Scan.held]; omega
          have hh : s.held = s.end_ - s.start := rfl
          refine ⟨⟨by simp; omega, hec, by simp; omega, hol, h.eo, h.ee, h.nl, hcm⟩, rfl, ?_, by omega, Or.inl ⟨?_, ?_⟩⟩
          · intro k hk1 hk2; exact f4 k hk1 (by omega)
          · have : s.base + (i - s.base) = i := by omega
            rw [this]; exact f3
          · simp [Scan.base, Scan.held]; omega
        · -- no newline
          rename_i hnone
          rw [hnone] at hfind
          split at htok
          · rename_i hfin
            simp only [Bool.and_eq_true, decide_eq_true_eq] at hfin
            simp only [Option.some.injEq, Prod.mk.injEq] at htok
            obtain ⟨rfl, rfl, rfl⟩ := htok
            have heo := h.eo hfin.1
            have hee := h.ee hfin.1
            have hb : s.base + s.held = s.off := by simp [Scan.base, Scan.held]; omega
            have hh : s.held = s.end_ - s.start := rfl
            refine ⟨⟨by simp; omega, hec, by simp; omega, hol, h.eo, h.ee, h.nl, hcm⟩, rfl, ?_, by omega,
              Or.inr ⟨hfin.2, by omega, ?_, hfin.1⟩⟩
            · intro k hk1 hk2; exact hfind k hk1 (by omega)
            · simp [Scan.base, Scan.held]; omega
          · cases htok
      · cases htok
    | none =>
      simp only
      -- nothing to deliver from what is held
      have hnoNL : NoNL data s.base s.off ∧ (s.eof = true → s.held = 0) := by
        unfold Scan.token at htok
        split at htok
        · split at htok
          · cases htok
          · rename_i hnone
            rw [hnone] at hfind
            split at htok
            · cases htok
            · rename_i hfin
              refine ⟨hfind, fun he => ?_⟩
              simp only [he, Bool.true_and, decide_eq_true_eq, Nat.not_lt, Nat.le_zero_eq] at hfin
              exact hfin
        · rename_i hcond
          simp only [Bool.or_eq_true, decide_eq_true_eq, not_or, Nat.not_lt, Nat.le_zero_eq, Bool.not_eq_true] at hcond
          refine ⟨?_, fun _ => hcond.1⟩
          intro k hk1 hk2
          have : s.base = s.off := by simp [Scan.base, hcond.1]
          omega
      by_cases he : s.eof = true
      · simp only [he, if_true]
        right
        refine ⟨h.nl, ?_⟩
        have := hnoNL.2 he
        have := h.eo he
        simp [Scan.base]; omega
      · have he' : s.eof = false := by simpa using he
        simp only [he', Bool.false_eq_true, if_false]
        obtain ⟨hok1, hb1, hh1, he1, ho1⟩ := shift_ok h he'
        by_cases hfull : s.shift.full cfg = true
        · simp only [hfull, if_true]
          left
          refine ⟨by first | rfl | trivial, ?_, ?_⟩
          · -- the buffer is full, as large as it may get, and holds no newline
            unfold Scan.full at hfull
            simp only [Bool.and_eq_true, beq_iff_eq, decide_eq_true_eq] at hfull
            have hheld : cfg.maxTok ≤ s.held := by
              rw [← hh1]
              have hsh := hok1.se
              -- a full buffer after the shift starts at 0
              have hstart : s.shift.start = 0 ∨ s.shift = s := by
                unfold Scan.shift; split <;> simp
              rcases hstart with h0 | hsame
              · simp [Scan.held, h0]; omega
              · -- no shift happened: then start = 0 or the buffer is not full
                have hcond : ¬ (s.start > 0 && (s.end_ == s.cap || s.start > s.cap / 2)) = true := by
                  intro hc
                  have : s.shift = { s with end_ := s.held, start := 0 } := by unfold Scan.shift; simp [hc]
                  rw [this] at hfull
                  simp only [Bool.and_eq_true, decide_eq_true_eq, Bool.or_eq_true, beq_iff_eq] at hc
                  simp [Scan.held] at hfull
                  omega
                rw [hsame] at hfull
                simp only [Bool.and_eq_true, decide_eq_true_eq, Bool.or_eq_true, beq_iff_eq, not_and, not_or] at hcond
                by_cases hs0 : s.start = 0
                · simp [Scan.held, hsame, hs0]; omega
                · have := (hcond (by omega)).1
                  omega
            intro k hk1 hk2
            apply hnoNL.1 k hk1
            have : s.base + s.held = s.off := by simp [Scan.base, Scan.held]; omega
            omega
          · unfold Scan.full at hfull
            simp only [Bool.and_eq_true, beq_iff_eq, decide_eq_true_eq] at hfull
            have hb : s.base + s.held = s.off := by simp [Scan.base, Scan.held]; omega
            have hhs : s.shift.held ≤ s.shift.cap := by have := hok1.ec; simp [Scan.held]; omega
            have hstart : s.shift.start = 0 ∨ s.shift = s := by
              unfold Scan.shift; split <;> simp
            have hheld : cfg.maxTok ≤ s.held := by
              rw [← hh1]
              rcases hstart with h0 | hsame
              · simp [Scan.held, h0]; omega
              · have hcond : ¬ (s.start > 0 && (s.end_ == s.cap || s.start > s.cap / 2)) = true := by
                  intro hc
                  have : s.shift = { s with end_ := s.held, start := 0 } := by unfold Scan.shift; simp [hc]
                  rw [this] at hfull
                  simp only [Bool.and_eq_true, decide_eq_true_eq, Bool.or_eq_true, beq_iff_eq] at hc
                  simp [Scan.held] at hfull
                  omega
                rw [hsame] at hfull
                simp only [Bool.and_eq_true, decide_eq_true_eq, Bool.or_eq_true, beq_iff_eq, not_and, not_or] at hcond
                by_cases hs0 : s.start = 0
                · simp [Scan.held, hsame, hs0]; omega
                · have := (hcond (by omega)).1
                  omega
            omega
        · have hfull' : s.shift.full cfg = false := by simpa using hfull
          simp only [hfull', Bool.false_eq_true, if_false]
          obtain ⟨hok2, hb2, hh2, he2, ho2, hlt2⟩ := grow_ok hsb hsm hok1 he1 hfull'
          obtain ⟨hok3, hb3, hm3⟩ := read_ok hok2 he2 hlt2
          have hbase : ((s.shift.grow cfg).read data).base = s.base := by rw [hb3, hb2, hb1]
          have hmeasure : data.size - ((s.shift.grow cfg).read data).off +
              (if ((s.shift.grow cfg).read data).eof then 0 else 1) < fuel := by
            rw [ho2, ho1] at hm3
            simp only [he', Bool.false_eq_true, if_false] at hf
            omega
          have := ih _ hok3 hmeasure
          rw [hbase] at this
          exact this

end Fabio.Lemmas.C02Scan
