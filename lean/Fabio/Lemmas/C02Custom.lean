import Fabio.Lemmas.C02
import Fabio.Model.C02Custom
/-!
Helper lemmas for the custom backend's poll loop as the one writer of the cell (core Lean only): the single-writer
invariant for a writer whose program contains `SetTable(nil)` calls, and the connection between the list of calls
and the sequential machine `customRun`.
-/
namespace Fabio.Lemmas.C02Custom
open Fabio Fabio.Model.C02 Fabio.Model.C02Custom Fabio.Lemmas.C02

section cell
variable {T Req Ans : Type}

/-- thread `w` is the only writer; of the calls `P` it was given, `done` are made (the non-nil ones are in the
history, in order), `pending` are still to be made -/
def OneWriterO (t0 : T) (P : List (Option T)) (w : Nat) (s : Sys T Req Ans) : Prop :=
  ∃ done pending, done ++ pending = P ∧ s.cell.hist = t0 :: done.filterMap id ∧
    s.threads[w]? = some (.writer pending) ∧
    ∀ i th, s.threads[i]? = some th → i ≠ w → ∃ a b d, th = Thread.reader a b d

theorem OneWriterO.stepAt (lk : Lk T Req Ans) {t0 : T} {P : List (Option T)} {w : Nat} {s : Sys T Req Ans}
    (h : OneWriterO t0 P w s) (i : Nat) : OneWriterO t0 P w (s.stepAt lk i) := by
  obtain ⟨done, pending, hdp, hh, hw, hrd⟩ := h
  unfold Sys.stepAt
  cases hi : s.threads[i]? with
  | none => exact ⟨done, pending, hdp, hh, hw, hrd⟩
  | some th =>
    have hil : i < s.threads.length := (List.getElem?_eq_some_iff.mp hi).1
    by_cases hiw : i = w
    · subst hiw
      rw [hw] at hi; cases hi
      cases pending with
      | nil =>
        refine ⟨done, [], hdp, by simpa [Thread.step] using hh, by simp [Thread.step, hil], ?_⟩
        intro j th' hj hne
        rw [List.getElem?_set_ne (Ne.symm hne)] at hj
        exact hrd j th' hj hne
      | cons p rest =>
        refine ⟨done ++ [p], rest, by simpa using hdp, ?_, by simp [Thread.step, hil], ?_⟩
        · cases p with
          | none => simpa [Thread.step, Cell.setTable] using hh
          | some t => simp [Thread.step, Cell.setTable, Cell.store, hh]
        · intro j th' hj hne
          rw [List.getElem?_set_ne (Ne.symm hne)] at hj
          exact hrd j th' hj hne
    · obtain ⟨a, b, d, rfl⟩ := hrd i th hi hiw
      obtain ⟨hc, a', b', d', hth⟩ := reader_step lk s.cell a b d
      refine ⟨done, pending, hdp, by show (Thread.step lk s.cell (Thread.reader a b d)).1.hist = _; rw [hc]; exact hh, ?_, ?_⟩
      · show (s.threads.set i _)[w]? = _
        rw [List.getElem?_set_ne hiw]; exact hw
      · intro j th' hj hne
        change (s.threads.set i _)[j]? = _ at hj
        by_cases hji : j = i
        · subst hji
          rw [List.getElem?_set_self hil] at hj
          cases hj; exact ⟨a', b', d', hth⟩
        · rw [List.getElem?_set_ne (Ne.symm hji)] at hj
          exact hrd j th' hj hne

theorem OneWriterO.run (lk : Lk T Req Ans) {t0 : T} {P : List (Option T)} {w : Nat} (sch : List Nat) :
    ∀ {s : Sys T Req Ans}, OneWriterO t0 P w s → OneWriterO t0 P w (Sys.run lk sch s) := by
  induction sch with
  | nil => intro s h; exact h
  | cons i sch ih => intro s h; exact ih (h.stepAt lk i)

theorem OneWriterO.start (t0 : T) (P : List (Option T)) (rs : List (Thread T Req Ans))
    (hr : ∀ th ∈ rs, ∃ a b d, th = Thread.reader a b d) :
    OneWriterO t0 P rs.length (Sys.start t0 (rs ++ [.writer P])) := by
  refine ⟨[], P, rfl, rfl, by simp [Sys.start], ?_⟩
  intro i th hi hne
  simp only [Sys.start] at hi
  have hlt : i < rs.length := by
    have := (List.getElem?_eq_some_iff.mp hi).1
    simp at this; omega
  rw [List.getElem?_append_left hlt] at hi
  exact hr th (List.mem_of_getElem? hi)

/-- the last entry of the history a list of `SetTable` calls produces is what `setTable` folds to: nil calls vanish -/
theorem getLast_calls (l : List (Option T)) : ∀ t0 : T,
    (t0 :: l.filterMap id).getLast? = some (l.foldl setTable t0) := by
  induction l with
  | nil => intro t0; rfl
  | cons p r ih =>
    intro t0
    cases p with
    | none => simpa [setTable] using ih t0
    | some t =>
      have := ih t
      simp only [List.filterMap_cons, id, List.foldl_cons, setTable]
      rw [List.getLast?_cons_cons]
      exact this

end cell

section poll
variable {T D : Type}

@[simp] theorem calls_http (b : D → Option T) (ps : List (Poll D)) : calls b (.httpError :: ps) = calls b ps := rfl
@[simp] theorem calls_decode (b : D → Option T) (ps : List (Poll D)) : calls b (.decodeError :: ps) = calls b ps := rfl
@[simp] theorem calls_null (b : D → Option T) (ps : List (Poll D)) : calls b (.null :: ps) = none :: calls b ps := rfl
@[simp] theorem calls_defs (b : D → Option T) (ds : D) (ps : List (Poll D)) :
    calls b (.defs ds :: ps) = b ds :: calls b ps := rfl

/-- the poll machine of `Model/C02.lean` does exactly these calls: its active table is `setTable` folded over them -/
theorem customRun_eq_calls (buildDefs : D → Option T) (ps : List (Poll D)) : ∀ a : T,
    customRun (newTableCustom buildDefs) a ps = .ok ((calls buildDefs ps).foldl setTable a) := by
  induction ps with
  | nil => intro a; rfl
  | cons p ps ih =>
    intro a
    cases p with
    | httpError => simpa [customRun, customStep] using ih a
    | decodeError => simpa [customRun, customStep] using ih a
    | null => simpa [customRun, customStep, newTableCustom, Outcome.map, setTable] using ih a
    | defs ds =>
      have := ih (setTable a (buildDefs ds))
      simpa [customRun, customStep, newTableCustom, Outcome.map] using this

theorem calls_fold_lastGood (buildDefs : D → Option T) (ps : List (Poll D)) : ∀ a : T,
    (calls buildDefs ps).foldl setTable a = lastGoodPoll buildDefs a ps := by
  induction ps with
  | nil => intro a; rfl
  | cons p ps ih =>
    intro a
    cases p with
    | httpError => simpa [lastGoodPoll] using ih a
    | decodeError => simpa [lastGoodPoll] using ih a
    | null => simpa [lastGoodPoll, setTable] using ih a
    | defs ds =>
      have := ih (setTable a (buildDefs ds))
      cases hb : buildDefs ds <;> simpa [lastGoodPoll, setTable, hb] using this

/-- a table among the non-nil calls was built from one of the polled documents -/
theorem calls_mem (buildDefs : D → Option T) (ps : List (Poll D)) (t : T)
    (h : t ∈ (calls buildDefs ps).filterMap id) : ∃ ds, Poll.defs ds ∈ ps ∧ buildDefs ds = some t := by
  simp only [calls, List.mem_filterMap, id] at h
  obtain ⟨o, ⟨p, hp, hc⟩, ho⟩ := h
  subst ho
  cases p with
  | httpError => simp [callOf] at hc
  | decodeError => simp [callOf] at hc
  | null => simp [callOf] at hc
  | defs ds => exact ⟨ds, hp, by simpa [callOf] using hc⟩

end poll
end Fabio.Lemmas.C02Custom
