import Fabio.Model.C07
import Fabio.Model.C07Spec
/-! Helper lemmas for C07: the `net/url` fragment (unescape/escape/validEncoded) and `dropEscaped`. Core only. -/
namespace Fabio.Lemmas.C07
open Fabio.Model.C07

/-! ### bytes, exhaustively -/

def hexRoundTrip (c : UInt8) : Bool :=
  isHex (upperhex (c >>> 4)) && isHex (upperhex (c &&& 15)) &&
  ((unhex (upperhex (c >>> 4)) <<< 4 ||| unhex (upperhex (c &&& 15))) == c)

set_option maxRecDepth 100000 in
theorem hexRoundTrip_fin : ∀ n : Fin 256, hexRoundTrip (UInt8.ofNat n.val) = true := by decide

theorem hexRoundTrip_all (c : UInt8) : hexRoundTrip c = true := by
  have := hexRoundTrip_fin ⟨c.toNat, c.toNat_lt⟩
  simpa using this

def escByteOK (c : UInt8) : Bool :=
  (escByte c).all validByte && (unescape (escByte c) == some [c])

set_option maxRecDepth 100000 in
theorem escByteOK_fin : ∀ n : Fin 256, escByteOK (UInt8.ofNat n.val) = true := by decide

theorem escByteOK_all (c : UInt8) : escByteOK c = true := by
  have := escByteOK_fin ⟨c.toNat, c.toNat_lt⟩
  simpa using this

/-! ### unescape -/

theorem unescape_nil : unescape [] = some [] := by rfl

theorem unescape_cons_ne (c : UInt8) (s : Bytes) (h : c ≠ PCT) :
    unescape (c :: s) = (unescape s).map (c :: ·) := by
  conv => lhs; unfold unescape
  simp [h]

theorem unescape_pct (a b : UInt8) (s : Bytes) :
    unescape (PCT :: a :: b :: s) =
      if isHex a && isHex b then (unescape s).map ((unhex a <<< 4 ||| unhex b) :: ·) else none := by
  conv => lhs; unfold unescape
  simp

theorem unescape_pct1 (a : UInt8) : unescape [PCT, a] = none := by
  unfold unescape; simp

theorem unescape_pct0 : unescape [PCT] = none := by
  unfold unescape; simp

/-- `unescape` distributes over `++` when the left part decodes on its own -/
theorem unescape_append (a b : Bytes) (x : Bytes) (h : unescape a = some x) :
    unescape (a ++ b) = (unescape b).map (x ++ ·) := by
  induction a using unescape.induct generalizing x with
  | case1 => simp [unescape_nil] at h; subst h; simp
  | case2 a' b' rest' hh ih =>
    rw [unescape_pct] at h
    simp only [List.cons_append]
    rw [unescape_pct]
    simp only [hh, if_true] at h ⊢
    cases hr : unescape rest' with
    | none => simp [hr] at h
    | some y =>
      simp [hr] at h; subst h
      rw [ih y hr]
      cases unescape b <;> simp
  | case3 a' b' rest' hh =>
    rw [unescape_pct] at h; simp [hh] at h
  | case4 rest hne =>
    exfalso
    match rest, hne with
    | [], _ => simp [unescape_pct0] at h
    | [_], _ => simp [unescape_pct1] at h
    | a' :: b' :: r, hne => exact hne a' b' r rfl
  | case5 c rest hc ih =>
    rw [unescape_cons_ne c rest hc] at h
    simp only [List.cons_append]
    rw [unescape_cons_ne c _ hc]
    cases hr : unescape rest with
    | none => simp [hr] at h
    | some y =>
      simp [hr] at h; subst h
      rw [ih y hr]
      cases unescape b <;> simp

/-! ### escape, validEncoded -/

theorem validEncoded_append (a b : Bytes) : validEncoded (a ++ b) = (validEncoded a && validEncoded b) := by
  simp [validEncoded, List.all_append]

theorem validEncoded_cons (c : UInt8) (s : Bytes) : validEncoded (c :: s) = (validByte c && validEncoded s) := by
  simp [validEncoded]

theorem escByte_valid (c : UInt8) : validEncoded (escByte c) = true := by
  have := escByteOK_all c
  simp [escByteOK] at this
  simpa [validEncoded] using this.1

theorem escByte_unescape (c : UInt8) : unescape (escByte c) = some [c] := by
  have := escByteOK_all c
  simp [escByteOK] at this
  exact this.2

theorem unescape_escape (p : Bytes) : unescape (escape p) = some p := by
  induction p with
  | nil => rfl
  | cons c s ih =>
    simp only [escape]
    rw [unescape_append _ _ _ (escByte_unescape c), ih]; simp

theorem validEncoded_escape (p : Bytes) : validEncoded (escape p) = true := by
  induction p with
  | nil => rfl
  | cons c s ih => simp only [escape]; rw [validEncoded_append, escByte_valid, ih]; rfl

/-! ### dropEscaped -/

theorem dropEscaped_nil (n : Nat) : dropEscaped n [] = [] := by cases n <;> rfl

/-- cutting the escaped prefix that decodes to `n` bytes: the escaped string splits there, the front decodes to
the first `n` decoded bytes, the rest to the others -/
theorem dropEscaped_spec (n : Nat) : ∀ (w d : Bytes), unescape w = some d →
    ∃ a, w = a ++ dropEscaped n w ∧ unescape a = some (d.take n) ∧ unescape (dropEscaped n w) = some (d.drop n) := by
  induction n with
  | zero => intro w d h; exact ⟨[], by simp [dropEscaped], by simp [unescape_nil], by simpa [dropEscaped] using h⟩
  | succ n ih =>
    intro w d h
    match w, h with
    | [], h =>
      simp [unescape_nil] at h; subst h
      exact ⟨[], by simp [dropEscaped], by simp [unescape_nil], by simp [dropEscaped, unescape_nil]⟩
    | c :: s, h =>
      by_cases hc : c = PCT
      · subst hc
        match s, h with
        | [], h => simp [unescape_pct0] at h
        | [_], h => simp [unescape_pct1] at h
        | a' :: b' :: rest, h =>
          rw [unescape_pct] at h
          by_cases hh : (isHex a' && isHex b') = true
          · simp only [hh, if_true] at h
            cases hr : unescape rest with
            | none => simp [hr] at h
            | some y =>
              simp [hr] at h; subst h
              obtain ⟨a0, h1, h2, h3⟩ := ih rest y hr
              refine ⟨PCT :: a' :: b' :: a0, ?_, ?_, ?_⟩
              · simp only [dropEscaped, if_true, List.drop_succ_cons, List.drop_zero, List.cons_append]
                rw [← h1]
              · rw [unescape_pct]; simp [hh, h2]
              · simpa [dropEscaped] using h3
          · simp [hh] at h
      · rw [unescape_cons_ne c s hc] at h
        cases hr : unescape s with
        | none => simp [hr] at h
        | some y =>
          simp [hr] at h; subst h
          obtain ⟨a0, h1, h2, h3⟩ := ih s y hr
          refine ⟨c :: a0, ?_, ?_, ?_⟩
          · simp only [dropEscaped, hc, if_false, List.cons_append]; rw [← h1]
          · rw [unescape_cons_ne c a0 hc]; simp [h2]
          · simpa [dropEscaped, hc] using h3

theorem dropEscaped_valid (n : Nat) (w d : Bytes) (h : unescape w = some d) (hv : validEncoded w = true) :
    validEncoded (dropEscaped n w) = true := by
  obtain ⟨a, h1, _, _⟩ := dropEscaped_spec n w d h
  rw [h1, validEncoded_append] at hv
  simp at hv; exact hv.2

/-- the cut is unique: whatever front decodes to `x`, what follows it is `dropEscaped x.length` -/
theorem dropEscaped_unique (a : Bytes) : ∀ (b x : Bytes), unescape a = some x → dropEscaped x.length (a ++ b) = b := by
  induction a using unescape.induct with
  | case1 => intro b x h; simp [unescape_nil] at h; subst h; simp [dropEscaped]
  | case2 a' b' rest' hh ih =>
    intro b x h
    rw [unescape_pct] at h
    simp only [hh, if_true] at h
    cases hr : unescape rest' with
    | none => simp [hr] at h
    | some y =>
      simp [hr] at h; subst h
      simpa [dropEscaped] using ih b y hr
  | case3 a' b' rest' hh => intro b x h; rw [unescape_pct] at h; simp [hh] at h
  | case4 rest hne =>
    intro b x h
    exfalso
    match rest, hne with
    | [], _ => simp [unescape_pct0] at h
    | [_], _ => simp [unescape_pct1] at h
    | a' :: b' :: r, hne => exact hne a' b' r rfl
  | case5 c rest hc ih =>
    intro b x h
    rw [unescape_cons_ne c rest hc] at h
    cases hr : unescape rest with
    | none => simp [hr] at h
    | some y =>
      simp [hr] at h; subst h
      simpa [dropEscaped, hc] using ih b y hr

/-! ### the brute-force reference of the specification agrees with `dropEscaped` -/

open Fabio.Model.C07Spec in
theorem mem_splits (w a b : Bytes) (h : (a, b) ∈ splits w) : w = a ++ b := by
  simp only [splits, List.mem_map, List.mem_range] at h
  obtain ⟨k, _, hk⟩ := h
  cases hk
  exact (List.take_append_drop k w).symm

open Fabio.Model.C07Spec in
theorem splits_mem (a b : Bytes) : (a, b) ∈ splits (a ++ b) := by
  simp only [splits, List.mem_map, List.mem_range]
  refine ⟨a.length, by simp; omega, ?_⟩
  simp

open Fabio.Model.C07Spec in
theorem escapedRemainder_eq (strip client p : Bytes) (h : unescape client = some p)
    (hp : strip.isPrefixOf p = true) :
    escapedRemainder strip client = some (dropEscaped strip.length client) := by
  obtain ⟨a, h1, h2, _⟩ := dropEscaped_spec strip.length client p h
  have htake : p.take strip.length = strip := by
    have := List.isPrefixOf_iff_prefix.mp hp
    obtain ⟨t, ht⟩ := this
    subst ht; simp
  rw [htake] at h2
  unfold escapedRemainder
  have hmem : (a, dropEscaped strip.length client) ∈ splits client := by
    have := splits_mem a (dropEscaped strip.length client)
    rw [← h1] at this; exact this
  cases hf : (splits client).find? (fun ab => unescape ab.1 = some strip) with
  | none =>
    have := List.find?_eq_none.mp hf _ hmem
    simp [h2] at this
  | some ab =>
    have hpred := List.find?_some hf
    have hin := List.mem_of_find?_eq_some hf
    obtain ⟨a', b'⟩ := ab
    have hw := mem_splits client a' b' hin
    simp only [decide_eq_true_eq] at hpred
    have := dropEscaped_unique a' b' strip hpred
    rw [← hw] at this
    simp [this]

/-! ### EscapedPath -/

theorem escapedPath_raw (u : URL) (h0 : u.rawPath ≠ []) (hv : validEncoded u.rawPath = true)
    (hu : unescape u.rawPath = some u.path) : u.escapedPath = u.rawPath := by
  simp [URL.escapedPath, h0, hv, hu]

theorem startsWithSlash_ne_nil {s : Bytes} (h : startsWithSlash s = true) : s ≠ [] := by
  cases s <;> simp [startsWithSlash] at h ⊢

/-- what the server parsed gives back the client's bytes (origin-form, validly encoded) -/
theorem escapedPath_parsed (client p rp : Bytes) (hparse : setPath client = some (p, rp))
    (hs : startsWithSlash client = true) (hv : validEncoded client = true) (u : URL)
    (hu : u.path = p ∧ u.rawPath = rp) : u.escapedPath = client ∧ unescape client = some p := by
  unfold setPath at hparse
  cases hd : unescape client with
  | none => simp [hd] at hparse
  | some d =>
    simp [hd] at hparse
    obtain ⟨h1, h2⟩ := hparse
    subst h1
    refine ⟨?_, rfl⟩
    by_cases he : escape d = client
    · simp [he] at h2
      subst h2
      have hstar : d ≠ [STAR] := by
        intro hx; subst hx
        rw [← he] at hs; revert hs; decide
      simp [URL.escapedPath, hu.1, hu.2, hstar, he]
    · simp [he] at h2
      have hne : client ≠ [] := startsWithSlash_ne_nil hs
      apply (escapedPath_raw u (by rw [hu.2, ← h2]; exact hne) (by rw [hu.2, ← h2]; exact hv)
        (by rw [hu.2, ← h2, hu.1]; exact hd)).trans
      rw [hu.2, ← h2]

/-- the option's own escaped form -/
theorem optEscaped (p : Bytes) :
    validEncoded (({ path := p } : URL).escapedPath) = true ∧ unescape (({ path := p } : URL).escapedPath) = some p := by
  by_cases hs : p = [STAR]
  · subst hs; decide
  · simp [URL.escapedPath, hs, validEncoded_escape, unescape_escape]

/-! ### the pair (decoded path, escaped path) through strip and prepend -/

/-- the escaped form is validly encoded and decodes to the decoded form -/
def Inv (pr : Bytes × Bytes) : Prop := validEncoded pr.2 = true ∧ unescape pr.2 = some pr.1

theorem inv_absolutise (pr : Bytes × Bytes) (h : Inv pr) : Inv (absolutise pr) := by
  unfold absolutise
  split
  · exact h
  · refine ⟨?_, ?_⟩
    · simp only []; rw [validEncoded_cons, h.1]; decide
    · simp only []; rw [unescape_cons_ne SLASH _ (by decide), h.2]; rfl

theorem inv_strip (strip reqPath : Bytes) (pr : Bytes × Bytes) (h : Inv pr) : Inv (stripStep strip reqPath pr) := by
  unfold stripStep
  split
  · apply inv_absolutise
    obtain ⟨_, _, _, h3⟩ := dropEscaped_spec strip.length pr.2 pr.1 h.2
    exact ⟨dropEscaped_valid _ _ _ h.2 h.1, h3⟩
  · exact h

theorem inv_prepend (prepend : Bytes) (pr : Bytes × Bytes) (h : Inv pr) : Inv (prependStep prepend pr) := by
  unfold prependStep
  split
  · apply inv_absolutise
    have ho := optEscaped prepend
    refine ⟨?_, ?_⟩
    · simp only []; rw [validEncoded_append, ho.1, h.1]; rfl
    · simp only []; rw [unescape_append _ _ _ ho.2, h.2]; rfl
  · exact h

theorem inv_rewrite (t : Target) (u : URL) (h : Inv (u.path, u.escapedPath)) : Inv (rewritePath t u) :=
  inv_prepend _ _ (inv_strip _ _ _ h)

/-- with a consistent pair, the outgoing URL's `EscapedPath` is the escaped form when it is absolute, else Go's
canonical encoding of the decoded path -/
theorem escapedPath_target (t : Target) (u : URL) (h : Inv (u.path, u.escapedPath)) :
    (targetURL t u).escapedPath =
      if startsWithSlash (rewritePath t u).2 = true then (rewritePath t u).2
      else if (rewritePath t u).1 = [STAR] then [STAR] else escape (rewritePath t u).1 := by
  have hi := inv_rewrite t u h
  by_cases hs : startsWithSlash (rewritePath t u).2 = true
  · rw [if_pos hs]
    have : (targetURL t u).rawPath = (rewritePath t u).2 := by simp [targetURL, hs]
    have hp : (targetURL t u).path = (rewritePath t u).1 := by simp [targetURL]
    rw [← this]
    exact escapedPath_raw _ (by rw [this]; exact startsWithSlash_ne_nil hs) (by rw [this]; exact hi.1)
      (by rw [this, hp]; exact hi.2)
  · rw [if_neg hs]
    simp [URL.escapedPath, targetURL, hs]

open Fabio.Model.C07Spec in
theorem slashed_eq_absolutise (d w : Bytes) : slashed d w = absolutise (d, w) := by
  match d with
  | [] => rfl
  | c :: s =>
    by_cases hc : c = 47
    · subst hc; rfl
    · have h1 : slashed (c :: s) w = (47 :: c :: s, 47 :: w) := by
        unfold slashed
        split
        · rename_i heq; cases heq; exact absurd rfl hc
        · rfl
      rw [h1]
      simp [absolutise, startsWithSlash, SLASH, hc]

open Fabio.Model.C07Spec in
/-- the specification's expected (decoded, wire) pair is the model's rewritten pair -/
theorem expectedPath_eq (t : Target) (u : URL) (client : Bytes) (hc : u.escapedPath = client)
    (hd : unescape client = some u.path) :
    expectedPath t.strip t.prepend client = some (rewritePath t u) := by
  unfold expectedPath rewritePath
  simp only [hd, Option.bind_some, bind, pure]
  by_cases hs : t.strip ≠ [] ∧ t.strip.isPrefixOf u.path = true
  · rw [if_pos hs, escapedRemainder_eq t.strip client u.path hd hs.2]
    simp only [Option.bind_some]
    have : stripStep t.strip u.path (u.path, u.escapedPath) =
        absolutise (u.path.drop t.strip.length, dropEscaped t.strip.length client) := by
      simp [stripStep, hasPrefix, hs, hc]
    rw [this, slashed_eq_absolutise]
    by_cases hp : t.prepend ≠ []
    · simp [prependStep, hp, slashed_eq_absolutise]
    · simp [prependStep, hp, slashed_eq_absolutise]
  · rw [if_neg hs]
    have : stripStep t.strip u.path (u.path, u.escapedPath) = (u.path, client) := by
      have hs' : ¬(t.strip ≠ [] ∧ hasPrefix t.strip u.path = true) := hs
      simp only [stripStep]; rw [if_neg hs', hc]
    rw [this]
    by_cases hp : t.prepend ≠ []
    · simp [prependStep, hp, slashed_eq_absolutise]
    · simp [prependStep, hp]

/-! ### the cut of `dropEscaped` in the specification's way of counting -/

section Count
open Fabio.Model.C07Spec

theorem decodedCount_nil : decodedCount [] = 0 := by simp [decodedCount]
theorem decodedCount_cons (c : UInt8) (s : Bytes) :
    decodedCount (c :: s) = if c = PCT then 1 + decodedCount (s.drop 2) else 1 + decodedCount s := by
  rw [decodedCount]

/-- `dropEscaped` leaves a suffix: `s = front ++ dropEscaped n s`, and the front stands for `min n (all)` bytes -/
theorem dropEscaped_count : ∀ (n : Nat) (s : Bytes),
    ∃ a, s = a ++ dropEscaped n s ∧ decodedCount a = min n (decodedCount s) := by
  intro n
  induction n with
  | zero => intro s; exact ⟨[], by simp [dropEscaped], by simp [decodedCount_nil]⟩
  | succ n ih =>
    intro s
    cases s with
    | nil => exact ⟨[], by simp [dropEscaped], by simp [decodedCount_nil]⟩
    | cons c s =>
      by_cases hc : c = PCT
      · obtain ⟨a, h1, h2⟩ := ih (s.drop 2)
        refine ⟨c :: s.take 2 ++ a, ?_, ?_⟩
        · simp only [dropEscaped, hc, if_true, List.cons_append, List.append_assoc]
          rw [← h1, List.take_append_drop]
        · have hd : (s.take 2 ++ a).drop 2 = (if s.length < 2 then [] else a) := by
            by_cases hl : s.length < 2
            · have hs : s.drop 2 = [] := List.drop_eq_nil_of_le (by omega)
              rw [hs] at h1 h2
              have ha : a = [] := by
                have := congrArg List.length h1; simp at this; exact List.eq_nil_of_length_eq_zero (by omega)
              subst ha
              simp [hl]
            · have : (s.take 2).length = 2 := by simp; omega
              simp [hl, this]
          rw [List.cons_append, decodedCount_cons, if_pos hc, hd, decodedCount_cons, if_pos hc]
          by_cases hl : s.length < 2
          · have hs : s.drop 2 = [] := List.drop_eq_nil_of_le (by omega)
            simp [hl, hs, decodedCount_nil]
          · simp only [hl, if_false, h2]; omega
      · obtain ⟨a, h1, h2⟩ := ih s
        refine ⟨c :: a, ?_, ?_⟩
        · simp only [dropEscaped, hc, if_false, List.cons_append]; rw [← h1]
        · rw [decodedCount_cons, if_neg hc, decodedCount_cons, if_neg hc, h2]; omega


end Count

end Fabio.Lemmas.C07
