import Fabio.Props.C09
import Fabio.Model.C09Compose
/-! Functional correctness of the bufio model (what `Peek`/`ReadFull` return, not only that nothing is
lost) and the characterisation of `sniServe` by the client's stream alone. Core Lean only. -/
namespace Fabio.Lemmas.C09Compose
open Fabio.Model.C09 Fabio.Lemmas.C09

theorem connRead_len (cap : Nat) (s : Script) : (connRead cap s).1.length ≤ cap := by
  induction s with
  | nil => simp [connRead]
  | cons e r ih =>
    cases e with
    | eof => simp [connRead]
    | err => simp [connRead]
    | chunk bs =>
      simp only [connRead]
      split
      · exact ih
      · split
        · assumption
        · simp [List.length_take]; omega

theorem fill_size (b : BufReader) : b.fill.size = b.size := by
  unfold BufReader.fill; split; rfl

theorem peekLoop_size (n : Nat) : ∀ (fuel : Nat) (b : BufReader), (BufReader.peekLoop n fuel b).size = b.size := by
  intro fuel
  induction fuel with
  | zero => intro b; rfl
  | succ f ih =>
    intro b
    simp only [BufReader.peekLoop]
    split
    · rw [ih, fill_size]
    · rfl

/-- `Peek(n)` (with `n ≤ size`) succeeds iff the stream still has `n` bytes, and then returns its first `n`
bytes — whatever the segmentation. -/
theorem peek_char (n : Nat) (b : BufReader) (hb : WF b) (hn : n ≤ b.size) :
    (n ≤ (rest b).length → (b.peek n).2.1 = none ∧ (b.peek n).1 = (rest b).take n) ∧
    ((rest b).length < n → (b.peek n).2.1 ≠ none) := by
  have hl := peekLoop_ok n (n + 1) b hb
  have hs := peekLoop_size n (n + 1) b
  have ht := Fabio.Props.C09.bufio_peek_terminates n b
  simp only at ht
  unfold BufReader.peek
  simp only
  generalize BufReader.peekLoop n (n + 1) b = b' at hl hs ht
  have hR : rest b = b'.buf ++ streamOf b'.conn := hl.2.symm
  rw [if_neg (by omega)]
  by_cases hlt : b'.buf.length < n
  · rw [if_pos hlt]
    have herr : b'.err ≠ none := fun he => ht ⟨hlt, by omega, he⟩
    cases he : b'.err with
    | none => exact absurd he herr
    | some e =>
      have := hl.1 e he
      rw [this, List.append_nil] at hR
      constructor
      · intro h; rw [hR] at h; omega
      · intro _; simp
  · rw [if_neg hlt]
    constructor
    · intro _
      refine ⟨rfl, ?_⟩
      simp only
      rw [hR, List.take_append_of_le_length (by omega)]
    · intro h; rw [hR, List.length_append] at h; omega

theorem read_len (n : Nat) (b : BufReader) : (b.read n).1.length ≤ n := by
  unfold BufReader.read
  split
  · split <;> simp
  · split
    · split
      · simp
      · split
        · have := connRead_len n b.conn
          rcases hcr : connRead n b.conn with ⟨bs, e, c'⟩
          rw [hcr] at this; exact this
        · rcases hcr : connRead b.size b.conn with ⟨bs, e, c'⟩
          simp only
          split
          · simp
          · simp [List.length_take]; omega
    · simp [List.length_take]; omega

theorem read_size (n : Nat) (b : BufReader) : (b.read n).2.2.size = b.size := by
  unfold BufReader.read
  split
  · split <;> rfl
  · split
    · split
      · rfl
      · split
        · rcases hcr : connRead n b.conn with ⟨bs, e, c'⟩; rfl
        · rcases hcr : connRead b.size b.conn with ⟨bs, e, c'⟩
          simp only
          split <;> rfl
    · rfl

/-- A `Read` that reports an error hands out nothing, and the stream is over. -/
theorem read_err (n : Nat) (b : BufReader) (hb : WF b) (hn : 0 < n) (e : RdErr)
    (h : (b.read n).2.1 = some e) : (b.read n).1 = [] ∧ rest (b.read n).2.2 = [] := by
  unfold BufReader.read at h ⊢
  rw [if_neg (by omega)] at h ⊢
  by_cases hbuf : b.buf = []
  · rw [if_pos hbuf] at h ⊢
    cases he : b.err with
    | some x =>
      simp only [he] at h ⊢
      exact ⟨trivial, by simp [rest, hbuf, hb x he]⟩
    | none =>
      simp only [he] at h ⊢
      by_cases hsz : n ≥ b.size
      · rw [if_pos hsz] at h ⊢
        rcases hcr : connRead n b.conn with ⟨bs, e', c'⟩
        rw [hcr] at h
        simp only at h ⊢
        have := connRead_err n b.conn e (by rw [hcr]; exact h)
        rw [hcr] at this
        exact ⟨this.1, by simp [rest, hbuf, this.2.2.2]⟩
      · rw [if_neg hsz] at h ⊢
        rcases hcr : connRead b.size b.conn with ⟨bs, e', c'⟩
        rw [hcr] at h
        simp only at h ⊢
        by_cases hbs : bs = []
        · rw [if_pos hbs] at h ⊢
          simp only at h ⊢
          have := connRead_err b.size b.conn e (by rw [hcr]; exact h)
          rw [hcr] at this
          exact ⟨trivial, by simp [rest, hbuf, this.2.2.2]⟩
        · rw [if_neg hbs] at h; simp at h
  · rw [if_neg hbuf] at h; simp at h

/-- A `Read` without an error hands out at least one byte. -/
theorem read_progress (n : Nat) (b : BufReader) (hn : 0 < n) (hs : 0 < b.size)
    (h : (b.read n).2.1 = none) : (b.read n).1 ≠ [] := by
  unfold BufReader.read at h ⊢
  rw [if_neg (by omega)] at h ⊢
  by_cases hbuf : b.buf = []
  · rw [if_pos hbuf] at h ⊢
    cases he : b.err with
    | some x => simp only [he] at h; simp at h
    | none =>
      simp only [he] at h ⊢
      by_cases hsz : n ≥ b.size
      · rw [if_pos hsz] at h ⊢
        have hp := connRead_progress n hn b.conn
        rcases hcr : connRead n b.conn with ⟨bs, e', c'⟩
        rw [hcr] at h hp
        exact hp h
      · rw [if_neg hsz] at h ⊢
        have hp := connRead_progress b.size hs b.conn
        rcases hcr : connRead b.size b.conn with ⟨bs, e', c'⟩
        rw [hcr] at h hp
        simp only at h hp ⊢
        by_cases hbs : bs = []
        · rw [if_pos hbs] at h
          simp only at h
          exact absurd hbs (hp h)
        · rw [if_neg hbs]
          simp only
          intro ht
          have : (bs.take n).length = 0 := by rw [ht]; rfl
          rw [List.length_take] at this
          have : 0 < bs.length := List.length_pos_iff.mpr hbs
          omega
  · rw [if_neg hbuf]
    simp only
    intro ht
    have : (b.buf.take n).length = 0 := by rw [ht]; rfl
    rw [List.length_take] at this
    have : 0 < b.buf.length := List.length_pos_iff.mpr hbuf
    omega

/-- The `ReadFull` loop: the result is never longer than asked for, a success means the full count, and
with enough stream and enough fuel it succeeds. -/
theorem readFullLoop_char (want : Nat) : ∀ (fuel : Nat) (acc : Bytes) (b : BufReader), WF b → 0 < b.size →
    acc.length ≤ want →
    ((BufReader.readFullLoop want fuel acc b).1.length ≤ want) ∧
    ((BufReader.readFullLoop want fuel acc b).2.1 = none → want ≤ (BufReader.readFullLoop want fuel acc b).1.length) ∧
    (want ≤ (acc ++ rest b).length → want < acc.length + fuel →
      (BufReader.readFullLoop want fuel acc b).2.1 = none) := by
  intro fuel
  induction fuel with
  | zero =>
    intro acc b _ _ hacc
    simp only [BufReader.readFullLoop]
    refine ⟨hacc, ?_, ?_⟩
    · intro h; split at h <;> simp_all
    · intro _ h2; omega
  | succ f ih =>
    intro acc b hb hs hacc
    simp only [BufReader.readFullLoop]
    by_cases hge : acc.length ≥ want
    · rw [if_pos hge]; exact ⟨hacc, fun _ => hge, fun _ _ => rfl⟩
    · rw [if_neg hge]
      have hn : 0 < want - acc.length := by omega
      have hok := read_ok (want - acc.length) b hb
      have hlen := read_len (want - acc.length) b
      have hsz := read_size (want - acc.length) b
      have herr := read_err (want - acc.length) b hb hn
      have hprog := read_progress (want - acc.length) b hn hs
      rcases hrd : b.read (want - acc.length) with ⟨bs, e, b'⟩
      rw [hrd] at hok hlen hsz herr hprog
      simp only at hok hlen hsz herr hprog ⊢
      have hacc' : (acc ++ bs).length ≤ want := by rw [List.length_append]; omega
      cases e with
      | none =>
        simp only
        have hne : bs ≠ [] := hprog rfl
        have hpos : 0 < bs.length := List.length_pos_iff.mpr hne
        have := ih (acc ++ bs) b' hok.1 (by omega) hacc'
        refine ⟨this.1, this.2.1, ?_⟩
        intro h1 h2
        apply this.2.2
        · rw [List.append_assoc, hok.2]; exact h1
        · rw [List.length_append]; omega
      | some e =>
        have he := herr e rfl
        simp only
        split
        · next hfull => exact ⟨hacc', fun _ => hfull, fun _ _ => rfl⟩
        · next hnf =>
          have hstream : (acc ++ rest b).length = (acc ++ bs).length := by
            rw [← hok.2, he.1, he.2]; simp
          split
          · refine ⟨hacc', fun h => by simp at h, ?_⟩
            intro h1 _; omega
          · refine ⟨hacc', fun h => by simp at h, ?_⟩
            intro h1 _; omega

/-- `io.ReadFull(reader, want bytes)` succeeds iff the stream still has `want` bytes, and then returns its
first `want` bytes — whatever the segmentation. -/
theorem readFull_char (want : Nat) (b : BufReader) (hb : WF b) (hs : 0 < b.size) :
    (want ≤ (rest b).length → (b.readFull want).2.1 = none ∧ (b.readFull want).1 = (rest b).take want) ∧
    ((rest b).length < want → (b.readFull want).2.1 ≠ none) := by
  have hc := readFullLoop_char want (want + 1) [] b hb hs (Nat.zero_le _)
  have hok := readFull_ok want b hb
  unfold BufReader.readFull at hok ⊢
  generalize BufReader.readFullLoop want (want + 1) [] b = r at hc hok
  constructor
  · intro h
    have hnone := hc.2.2 (by simpa using h) (by simp)
    refine ⟨hnone, ?_⟩
    have hl : r.1.length = want := Nat.le_antisymm hc.1 (hc.2.1 hnone)
    rw [← hok.2, List.take_append_of_le_length (by omega), ← hl, List.take_length]
  · intro h hnone
    have h1 := hc.2.1 hnone
    have := congrArg List.length hok.2
    rw [List.length_append] at this
    omega

/-! ### `sniServe` is a function of the client's stream -/

/-- What `SNIProxy.ServeTCP` does depends on the segmentation only through the stream: fewer than 9 bytes →
`Peek` fails; a header the size function rejects → dropped; fewer bytes than announced → `ReadFull` fails;
otherwise `data` is exactly the first `want` bytes and the routing decision decides. Nothing is written to an
upstream unless the tunnel stage is reached. -/
theorem sniServe_char (src : CopySrc) (routed : Bool) (line : Bytes) (script : Script) :
    let st := streamOf script
    let r := sniServe src routed line script
    (st.length < 9 → r.stage = .peekFailed ∧ r.upstream = []) ∧
    (9 ≤ st.length → helloSize (st.take 9) = none → r.stage = .badHeader ∧ r.upstream = []) ∧
    (9 ≤ st.length → ∀ want, helloSize (st.take 9) = some want →
      (st.length < want → r.stage = .readFullFailed ∧ r.upstream = []) ∧
      (want ≤ st.length → r.hello = st.take want ∧
        (routed = false → r.stage = .noRoute ∧ r.upstream = []) ∧ (routed = true → r.stage = .tunnel))) := by
  have hwf0 := wf_new script defaultBufSize
  have hp := peek_ok 9 (BufReader.new script) hwf0
  have hpc := peek_char 9 (BufReader.new script) hwf0 (by simp [BufReader.new, defaultBufSize])
  rw [rest_new] at hp hpc
  have hsz1 : ((BufReader.new script).peek 9).2.2.size = defaultBufSize := by
    unfold BufReader.peek
    have : (BufReader.peekLoop 9 (9 + 1) (BufReader.new script)).size = defaultBufSize :=
      peekLoop_size 9 (9 + 1) (BufReader.new script)
    simp only
    split
    · exact this
    · split
      · split <;> exact this
      · exact this
  simp only
  unfold sniServe
  rcases hpk : (BufReader.new script).peek 9 with ⟨hdr, pe, rd1⟩
  rw [hpk] at hp hpc hsz1
  simp only at hp hpc hsz1 ⊢
  cases pe with
  | some e =>
    simp only [hpk]
    refine ⟨fun _ => ⟨trivial, trivial⟩, ?_, ?_⟩
    · intro h9; exact absurd (hpc.1 h9).1 (by simp)
    · intro h9; exact absurd (hpc.1 h9).1 (by simp)
  | none =>
    have h9 : 9 ≤ (streamOf script).length := by
      refine Nat.le_of_not_lt (fun hlt => hpc.2 hlt rfl)
    have hhdr : hdr = (streamOf script).take 9 := (hpc.1 h9).2
    subst hhdr
    simp only [hpk]
    refine ⟨fun h => by omega, ?_, ?_⟩
    · intro _ hnone; simp [hnone]
    · intro _ want hw
      simp only [hw]
      have hrc := readFull_char want rd1 hp.1 (by rw [hsz1]; decide)
      have hro := readFull_ok want rd1 hp.1
      rw [hp.2] at hrc
      rcases hrf : rd1.readFull want with ⟨data, fe, rd2⟩
      rw [hrf] at hrc hro
      simp only at hrc hro ⊢
      cases fe with
      | some e =>
        simp only
        refine ⟨fun _ => by simp, ?_⟩
        intro hle; exact absurd (hrc.1 hle).1 (by simp)
      | none =>
        simp only
        have hle : want ≤ (streamOf script).length := Nat.le_of_not_lt (fun hlt => hrc.2 hlt rfl)
        refine ⟨fun h => by omega, fun _ => ?_⟩
        cases routed with
        | false => exact ⟨(hrc.1 hle).2, by simp, by simp⟩
        | true => exact ⟨(hrc.1 hle).2, by simp, by simp⟩

end Fabio.Lemmas.C09Compose
