import Fabio.Model.C02Loop
import Fabio.Lemmas.C02
/-!
C02, round 3 — helper lemmas for `Props/C02Loop.lean` (one iteration of the loop with its glue; the line loop of
the parser model keeps one definition per command line).
-/
namespace Fabio.Lemmas.C02Loop
open Fabio Fabio.Model.C02 Fabio.Model.C02Loop Fabio.Model.Parse Fabio.Model.Route

/-- whatever the calls do, an iteration that returns is `WB.step` -/
theorem stepO_refines_step {T : Type} (g : Glue T) (st st' : WB T) (e : Ev) (h : (stepO g st e).2 = .ok st') :
    st' = WB.step g.buildOpt st e := by
  unfold stepO at h
  unfold WB.step Glue.buildOpt
  by_cases hs : (st.recv e).nextText = (st.recv e).lastTable
  · simp only [hs, if_true] at h ⊢
    exact (Outcome.ok.inj h).symm
  · simp only [hs, if_false] at h ⊢
    cases ha : g.aliases (st.recv e).nextText with
    | panic w => simp [ha] at h
    | ok al =>
      cases hr : g.register al with
      | panic w => simp [ha, hr] at h
      | ok u =>
        cases hb : g.build (st.recv e).nextText with
        | panic w => simp [ha, hr, hb] at h
        | ok o =>
          cases o with
          | none => simp [ha, hr, hb] at h; simp [h]
          | some t =>
            cases hl : g.log t (st.recv e).lastTable (st.recv e).nextText with
            | panic w => simp [ha, hr, hb, hl] at h
            | ok u2 => simp [ha, hr, hb, hl] at h; simp [h]

section loop
variable {T : Type}

theorem stepO_never_panics (g : Glue T) (hg : g.Total) (st : WB T) (e : Ev) : ((stepO g st e).2).isPanic = false := by
  unfold stepO
  by_cases hs : (st.recv e).nextText = (st.recv e).lastTable
  · simp [hs, Outcome.isPanic]
  · simp only [hs, if_false]
    have ha := hg.aliases (st.recv e).nextText
    cases hal : g.aliases (st.recv e).nextText with
    | panic w => simp [hal, Outcome.isPanic] at ha
    | ok al =>
      have hr := hg.register al
      cases hrl : g.register al with
      | panic w => simp [hrl, Outcome.isPanic] at hr
      | ok u =>
        have hb := hg.build (st.recv e).nextText
        cases hbl : g.build (st.recv e).nextText with
        | panic w => simp [hbl, Outcome.isPanic] at hb
        | ok o =>
          cases o with
          | none => simp [hrl, Outcome.isPanic]
          | some t =>
            have hl := hg.log t (st.recv e).lastTable (st.recv e).nextText
            cases hll : g.log t (st.recv e).lastTable (st.recv e).nextText with
            | panic w => simp [hll, Outcome.isPanic] at hl
            | ok u2 => simp [hrl, hll, Outcome.isPanic]

/-- the `SetTable` effect of one iteration is `WB.installed` -/
theorem installsOf_stepO (g : Glue T) (st st' : WB T) (e : Ev) (h : (stepO g st e).2 = .ok st') :
    installsOf (stepO g st e).1 = (WB.installed g.buildOpt st e).toList := by
  unfold stepO at h ⊢
  unfold WB.installed Glue.buildOpt
  by_cases hs : (st.recv e).nextText = (st.recv e).lastTable
  · simp [hs, installsOf]
  · simp only [hs, if_false] at h ⊢
    cases ha : g.aliases (st.recv e).nextText with
    | panic w => simp [ha] at h
    | ok al =>
      cases hr : g.register al with
      | panic w => simp [ha, hr] at h
      | ok u =>
        cases hb : g.build (st.recv e).nextText with
        | panic w => simp [ha, hr, hb] at h
        | ok o =>
          cases o with
          | none => simp [hr, installsOf]
          | some t =>
            cases hl : g.log t (st.recv e).lastTable (st.recv e).nextText with
            | panic w => simp [ha, hr, hb, hl] at h
            | ok u2 => simp [hr, hl, installsOf]

theorem installsOf_append (a b : List (Eff T)) : installsOf (a ++ b) = installsOf a ++ installsOf b := by
  induction a with
  | nil => rfl
  | cons x xs ih => cases x <;> simp [installsOf, ih]

end loop

theorem parseLine_none_iff (pf : ParseFloat) (raw : Str) (o : Option RouteDef)
    (h : parseLine pf (dropCR raw) = .ok o) : o.isSome = isCommandLine raw := by
  unfold parseLine at h
  unfold isCommandLine
  by_cases hc : (isComment (trimSpace (dropCR raw)) || isBlank (trimSpace (dropCR raw))) = true
  · simp only [hc, if_true] at h
    cases h; simp [hc]
  · simp only [hc] at h ⊢
    simp only [Bool.false_eq_true, if_false] at h
    split at h
    · cases hh : parseRouteAdd pf (trimSpace (dropCR raw)) <;> simp [hh, Except.map] at h; cases h; simp
    · split at h
      · cases hh : parseRouteDel (trimSpace (dropCR raw)) <;> simp [hh, Except.map] at h; cases h; simp
      · split at h
        · cases hh : parseRouteWeight pf (trimSpace (dropCR raw)) <;> simp [hh, Except.map] at h; cases h; simp
        · cases h

theorem parseLines_complete (pf : ParseFloat) (ls : List Str) : ∀ (i : Nat) (ds : List RouteDef),
    parseLines pf i ls = .ok ds → ds.length = (ls.filter isCommandLine).length := by
  induction ls with
  | nil => intro i ds h; simp [parseLines] at h; cases h; rfl
  | cons raw rest ih =>
    intro i ds h
    unfold parseLines at h
    split at h
    · cases h
    · cases hl : parseLine pf (dropCR raw) with
      | error e => cases e <;> simp [hl] at h
      | ok o =>
        have hc := parseLine_none_iff pf raw o hl
        cases o with
        | none =>
          simp only [hl] at h
          have := ih (i+1) ds h
          simp only [Option.isSome] at hc
          simp [List.filter, ← hc, this]
        | some d =>
          simp only [hl] at h
          cases hr : parseLines pf (i+1) rest with
          | error e => simp [hr] at h
          | ok ds' =>
            simp only [hr] at h
            cases h
            have := ih (i+1) ds' hr
            simp only [Option.isSome] at hc
            simp [List.filter, ← hc, this]

end Fabio.Lemmas.C02Loop
