import Fabio.Model.C14
import Fabio.Lemmas.C05Text
import Fabio.Lemmas.C05Main
/-!
C14 — helper lemmas (core Lean only).

1. one line: the line `render i` of an intent that fits the grammar is read back by `parse` as exactly the
   definition that is meant, and a table accepts it (`denotes_of_expressible`);
2. many lines: `parse` of commands joined with newlines is the concatenation of what `parse` reads from each
   (`parse_join`), whatever the commands contain;
3. tables: a list of `route add` definitions each of which an empty table accepts is accepted as a whole, the
   table holds a target for every definition and nothing else (`specRun_adds`).
-/
namespace Fabio.Lemmas.C14
open Fabio Fabio.Model.Route Fabio.Model.C05Spec Fabio.Model.C14 Fabio.Lemmas.C05Text
open Fabio.Model.Parse hiding render config

/-! ### the grammar-fit predicate as a proposition -/

structure Expressible (env : Env) (pf : ParseFloat) (i : Intent) : Prop where
  svc_ne : i.service ≠ []
  svc_tok : ∀ c ∈ i.service, isReSpace c = false
  src_ne : i.src ≠ []
  src_tok : ∀ c ∈ i.src, isReSpace c = false
  dst_ne : i.dst ≠ []
  dst_tok : ∀ c ∈ i.dst, isUniSpace c = false
  weight : i.weight = [] ∨ ((∀ c ∈ i.weight, isUniSpace c = false) ∧ ∃ q, pf i.weight = some (.fin q))
  tags_q : ∀ t ∈ i.tags, '"' ∉ t ∧ ',' ∉ t ∧ '\n' ∉ t ∧ trimSpace t = t
  tags_ne : i.tags ≠ [] → join [','] i.tags ≠ []
  opts_q : ∀ o ∈ i.opts, o ≠ [] ∧ (∀ c ∈ o, isUniSpace c = false) ∧ '"' ∉ o
  short : byteLen (render i) < maxToken
  url : ∃ u, env.normURL i.dst = some u
  globHost : env.globOK (lowerL (hostpath i.src).1) = true
  globPath : env.globOK (hostpath i.src).2 = true

theorem all_not {p : Char → Bool} {s : Str} (h : s.all (fun c => !p c) = true) : ∀ c ∈ s, p c = false := by
  intro c hc
  have := List.all_eq_true.1 h c hc
  simpa using this

theorem not_contains {s : Str} {c : Char} (h : (!s.contains c) = true) : c ∉ s := by
  simpa using h

theorem expressible_of_B {env : Env} {pf : ParseFloat} {i : Intent} (h : expressibleB env pf i = true) :
    Expressible env pf i := by
  unfold expressibleB at h
  simp only [Bool.and_eq_true] at h
  obtain ⟨⟨⟨⟨⟨⟨⟨⟨⟨⟨⟨⟨⟨h1, h2⟩, h3⟩, h4⟩, h5⟩, h6⟩, h7⟩, h8⟩, h9⟩, h10⟩, h11⟩, h12⟩, h13⟩, h14⟩ := h
  refine ⟨?_, all_not h2, ?_, all_not h4, ?_, all_not h6, ?_, ?_, ?_, ?_, ?_, ?_, h13, h14⟩
  · intro e; simp [e] at h1
  · intro e; simp [e] at h3
  · intro e; simp [e] at h5
  · rw [Bool.or_eq_true] at h7
    rcases h7 with hw | hw
    · exact .inl (List.isEmpty_iff.1 hw)
    · simp only [Bool.and_eq_true] at hw
      refine .inr ⟨all_not hw.1, ?_⟩
      revert hw
      cases pf i.weight with
      | none => simp
      | some v => cases v <;> simp
  · intro t ht
    have := List.all_eq_true.1 h8 t ht
    simp only [Bool.and_eq_true, beq_iff_eq] at this
    exact ⟨not_contains this.1.1.1, not_contains this.1.1.2, not_contains this.1.2, this.2⟩
  · intro hne
    rw [Bool.or_eq_true] at h9
    rcases h9 with hw | hw
    · exact absurd (List.isEmpty_iff.1 hw) hne
    · intro e; simp [e] at hw
  · intro o ho
    have := List.all_eq_true.1 h10 o ho
    simp only [Bool.and_eq_true] at this
    refine ⟨?_, all_not this.1.2, not_contains this.2⟩
    intro e; have := this.1.1; simp [e] at this
  · exact of_decide_eq_true h11
  · cases hu : env.normURL i.dst with
    | none => simp [hu] at h12
    | some u => exact ⟨u, rfl⟩

/-! ### the parts of a rendered line -/

def wP (i : Intent) : Str := if i.weight.isEmpty then [] else " weight ".toList ++ i.weight
def tP (i : Intent) : Str := if i.tags.isEmpty then [] else " tags \"".toList ++ join [','] i.tags ++ ['"']
def oP (i : Intent) : Str := if i.opts.isEmpty then [] else " opts \"".toList ++ join [' '] i.opts ++ ['"']

theorem render_eq (i : Intent) :
    render i = "route add ".toList ++ (i.service ++ ' ' :: (i.src ++ ' ' :: (i.dst ++ (wP i ++ (tP i ++ oP i))))) := by
  unfold render headText wP tP oP
  simp only [List.append_assoc, List.cons_append, List.nil_append]

theorem oP_cases (i : Intent) : oP i = [] ∨ ∃ t, oP i = ' ' :: 'o' :: t := by
  unfold oP; split
  · exact .inl rfl
  · exact .inr ⟨_, by simp; rfl⟩

theorem tP_cases (i : Intent) : tP i = [] ∨ ∃ t, tP i = ' ' :: 't' :: t := by
  unfold tP; split
  · exact .inl rfl
  · exact .inr ⟨_, by simp; rfl⟩

theorem startsTO (i : Intent) : StartsTO (tP i ++ oP i) := by
  rcases tP_cases i with h | ⟨t, h⟩
  · rw [h, List.nil_append]
    rcases oP_cases i with h | ⟨t, h⟩
    · exact .inl h
    · exact .inr (.inr ⟨t, h⟩)
  · rw [h]; exact .inr (.inl ⟨_, rfl⟩)

variable {env : Env} {pf : ParseFloat} {i : Intent}

theorem Expressible.weight_tok (h : Expressible env pf i) : ∀ c ∈ i.weight, isReSpace c = false := by
  rcases h.weight with e | ⟨hw, _⟩
  · rw [e]; intro c hc; cases hc
  · intro c hc; exact not_reSpace_of_not_uniSpace c (hw c hc)

theorem Expressible.tags_noQuote (h : Expressible env pf i) : '"' ∉ join [','] i.tags := by
  intro hc
  rcases mem_join _ _ _ hc with hc | ⟨t, ht, hc⟩
  · simp at hc
  · exact (h.tags_q t ht).1 hc

theorem Expressible.opts_noQuote (h : Expressible env pf i) : '"' ∉ join [' '] i.opts := by
  intro hc
  rcases mem_join _ _ _ hc with hc | ⟨t, ht, hc⟩
  · simp at hc
  · exact (h.opts_q t ht).2.2 hc

theorem Expressible.hO (h : Expressible env pf i) : optGroup (kwQuoted kOpts) (oP i) = (join [' '] i.opts, []) := by
  unfold oP
  split
  · next he => rw [List.isEmpty_iff.1 he]; exact optGroup_opts_none
  · exact optGroup_opts_some _ h.opts_noQuote

theorem Expressible.hT (h : Expressible env pf i) :
    optGroup (kwQuoted kTags) (tP i ++ oP i) = (join [','] i.tags, oP i) := by
  unfold tP
  split
  · next he =>
    rw [List.isEmpty_iff.1 he, List.nil_append]
    exact optGroup_tags_none _ (by
      rcases oP_cases i with h | ⟨t, h⟩
      · exact .inl h
      · exact .inr ⟨t, h⟩)
  · exact optGroup_tags_some _ _ h.tags_noQuote

theorem Expressible.hW (h : Expressible env pf i) :
    optGroup (kwTok kWeight) (wP i ++ (tP i ++ oP i)) = (i.weight, tP i ++ oP i) := by
  unfold wP
  split
  · next he =>
    rw [List.isEmpty_iff.1 he, List.nil_append]
    exact optGroup_weight_none _ (startsTO i)
  · next hne =>
    have hne' : i.weight ≠ [] := fun e => hne (by simp [e])
    exact optGroup_weight_some _ _ hne' h.weight_tok (startsTO i).sp

theorem wP_sp (i : Intent) : SpOrNil (wP i ++ (tP i ++ oP i)) := by
  unfold wP
  split
  · rw [List.nil_append]; exact (startsTO i).sp
  · exact .inr ⟨_, by simp; rfl⟩

theorem Expressible.matchAdd (h : Expressible env pf i) :
    matchAdd (render i) = some ⟨i.service, i.src, i.dst, i.weight, join [','] i.tags, join [' '] i.opts⟩ := by
  rw [render_eq]
  exact matchAdd_line _ _ _ _ _ _ _ _ _ ⟨h.svc_ne, h.svc_tok⟩ ⟨h.src_ne, h.src_tok⟩
    ⟨h.dst_ne, fun c hc => not_reSpace_of_not_uniSpace c (h.dst_tok c hc)⟩ (wP_sp i) h.hW h.hT h.hO

theorem Expressible.parseTags (h : Expressible env pf i) : parseTags (join [','] i.tags) = i.tags := by
  by_cases he : i.tags = []
  · rw [he]; rfl
  · exact parseTags_join _ he (h.tags_ne he) (fun t ht => ⟨(h.tags_q t ht).2.1, (h.tags_q t ht).2.2.2⟩)

theorem Expressible.parseOpts (h : Expressible env pf i) :
    parseOpts (join [' '] i.opts) = optsOfPairs (i.opts.map splitKV) := by
  unfold Fabio.Model.Parse.parseOpts
  rw [fields_join i.opts (fun o ho => (h.opts_q o ho).1) (fun o ho => (h.opts_q o ho).2.1)]

theorem Expressible.parseWeight_ok (h : Expressible env pf i) : ∃ q, parseWeight pf i.weight = .ok q := by
  unfold parseWeight
  split
  · exact ⟨0, rfl⟩
  · next hne =>
    rcases h.weight with e | ⟨_, q, hq⟩
    · exact absurd (by simp [e]) hne
    · exact ⟨q, by rw [hq]⟩

/-! ### the whole line -/

theorem wP_nilOrLast (h : Expressible env pf i) : NilOrLast (wP i) := by
  unfold wP
  split
  · exact .inl rfl
  · next hne =>
    rcases h.weight with e | ⟨hw, _⟩
    · exact absurd (by simp [e]) hne
    · exact .inr ((LastOK.of_all (fun e => hne (by simp [e])) hw).append_right _)

theorem tP_nilOrLast (i : Intent) : NilOrLast (tP i) := by
  unfold tP; split
  · exact .inl rfl
  · exact .inr (lastOK_quote _)

theorem oP_nilOrLast (i : Intent) : NilOrLast (oP i) := by
  unfold oP; split
  · exact .inl rfl
  · exact .inr (lastOK_quote _)

theorem Expressible.lastOK (h : Expressible env pf i) : LastOK (render i) := by
  rw [render_eq]
  apply LastOK.append_right
  apply LastOK.append_right
  rw [← List.singleton_append]
  apply LastOK.append_right
  apply LastOK.append_right
  rw [← List.singleton_append]
  apply LastOK.append_right
  exact (LastOK.of_all h.dst_ne h.dst_tok).append_nilOrLast
    ((wP_nilOrLast h).append ((tP_nilOrLast i).append (oP_nilOrLast i)))

theorem Expressible.noNL (h : Expressible env pf i) : '\n' ∉ render i := by
  rw [render_eq]
  have hw : '\n' ∉ wP i := by
    unfold wP; split
    · simp
    · intro hc
      simp only [List.mem_append] at hc
      rcases hc with hc | hc
      · revert hc; decide
      · exact nl_not_reSpace_free h.weight_tok hc
  have ht : '\n' ∉ tP i := by
    unfold tP; split
    · simp
    · intro hc
      simp only [List.mem_append, List.mem_singleton] at hc
      rcases hc with (hc | hc) | hc
      · revert hc; decide
      · rcases mem_join _ _ _ hc with hc | ⟨t, ht, hc⟩
        · simp at hc
        · exact (h.tags_q t ht).2.2.1 hc
      · cases hc
  have ho : '\n' ∉ oP i := by
    unfold oP; split
    · simp
    · intro hc
      simp only [List.mem_append, List.mem_singleton] at hc
      rcases hc with (hc | hc) | hc
      · revert hc; decide
      · rcases mem_join _ _ _ hc with hc | ⟨t, ht, hc⟩
        · simp at hc
        · exact nl_not_uniSpace_free (h.opts_q t ht).2.1 hc
      · cases hc
  intro hc
  simp only [List.mem_append, List.mem_cons] at hc
  rcases hc with hc | hc | hc | hc | hc | hc | hc | hc | hc
  · revert hc; decide
  · exact nl_not_reSpace_free h.svc_tok hc
  · cases hc
  · exact nl_not_reSpace_free h.src_tok hc
  · cases hc
  · exact nl_not_uniSpace_free h.dst_tok hc
  · exact hw hc
  · exact ht hc
  · exact ho hc

theorem render_ne (i : Intent) : render i ≠ [] := by
  rw [render_eq]; intro h
  have := congrArg List.length h
  simp at this

/-- the definition an expressible intent means -/
theorem Expressible.wantDef_some (h : Expressible env pf i) : ∃ d, wantDef pf i = some d := by
  obtain ⟨q, hq⟩ := h.parseWeight_ok
  exact ⟨_, by unfold wantDef; rw [hq]⟩

theorem Expressible.parseLine (h : Expressible env pf i) {d : RouteDef} (hd : wantDef pf i = some d) :
    parseLine pf (render i) = .ok (some d) := by
  obtain ⟨s, hs⟩ : ∃ s, render i = 'r' :: s := ⟨_, by rw [render_eq]; rfl⟩
  have hlast := h.lastOK
  have htrim : trimSpace (render i) = render i := by
    rw [hs] at hlast ⊢; exact trimSpace_eq (by decide) hlast
  have hc : isComment (render i) = false := by rw [hs]; simp [isComment]
  have hb : isBlank (render i) = false := by rw [hs]; simp [isBlank, isReSpace]
  have hh : (head kAdd (render i)).isSome = true := by rw [render_eq, head_add]; rfl
  obtain ⟨q, hq⟩ := h.parseWeight_ok
  unfold wantDef at hd
  rw [hq] at hd
  simp only [Option.some.injEq] at hd
  subst hd
  unfold Fabio.Model.Parse.parseLine
  simp only [htrim, hc, hb, hh, Bool.or_false, Bool.false_eq_true, if_false, if_true]
  unfold parseRouteAdd
  rw [h.matchAdd]
  simp only [hq, h.parseTags, h.parseOpts]
  rfl

/-- **one line**: fabio's parser reads the line of an expressible intent as exactly the definition meant -/
theorem Expressible.parse (h : Expressible env pf i) {d : RouteDef} (hd : wantDef pf i = some d) :
    parse pf (render i) = .ok [d] := by
  unfold Fabio.Model.Parse.parse
  have : rawLines (render i) = [render i] := by
    have := rawLines_join [render i] (by
      intro l hl; simp only [List.mem_singleton] at hl; subst hl; exact ⟨render_ne i, h.noNL⟩)
    simpa [join] using this
  rw [this]
  simp only [parseLines]
  rw [if_neg (Nat.not_le.2 h.short), dropCR_lastOK h.lastOK, h.parseLine hd]

/-! ### acceptance by a table -/

theorem accepted_iff (env : Env) (d : RouteDef) (hc : d.cmd = .add) :
    accepted env d = true ↔ ∃ t, addRoute env [] d = .ok t := by
  unfold accepted newTable buildFrom
  simp only [List.foldlM_cons, List.foldlM_nil, applyDef, hc]
  cases addRoute env [] d with
  | error e => simp [bind, Except.bind]
  | ok t => simp [bind, Except.bind, pure, Except.pure]

/-- what an empty table checks before it accepts a `route add` -/
structure AddOK (env : Env) (d : RouteDef) : Prop where
  cmd : d.cmd = .add
  src : d.src ≠ []
  dst : d.dst ≠ []
  url : ∃ u, env.normURL d.dst = some u
  globHost : env.globOK (key d.src).1 = true
  globPath : env.globOK (key d.src).2 = true

theorem addRoute_nil_iff (env : Env) (d : RouteDef) (hc : d.cmd = .add) :
    (∃ t, addRoute env [] d = .ok t) ↔ AddOK env d := by
  have hk1 : (key d.src).1 = lowerL (hostpath d.src).1 := rfl
  have hk2 : (key d.src).2 = (hostpath d.src).2 := rfl
  have hhas : ∀ h : Str, Table.has ([] : Table) h = false := fun _ => rfl
  unfold addRoute
  rcases hhp : hostpath d.src with ⟨h0, p⟩
  rw [hhp] at hk1 hk2
  simp only [hhas, Bool.not_false, if_true]
  constructor
  · intro ⟨t, ht⟩
    by_cases hs : d.src = []
    · simp [hs] at ht
    by_cases hd : d.dst = []
    · simp [hs, hd] at ht
    cases hu : env.normURL d.dst with
    | none => simp [hs, hd, hu] at ht
    | some u =>
      by_cases hg : env.globOK (lowerL h0) = true
      · by_cases hp : env.globOK p = true
        · exact ⟨hc, hs, hd, ⟨u, hu⟩, by rw [hk1]; exact hg, by rw [hk2]; exact hp⟩
        · simp [hs, hd, hu, hg, hp] at ht
      · simp [hs, hd, hu, hg] at ht
  · intro h
    obtain ⟨u, hu⟩ := h.url
    have hg := h.globHost
    have hp := h.globPath
    rw [hk1] at hg
    rw [hk2] at hp
    simp [h.src, h.dst, hu, hg, hp]

theorem Expressible.addOK (h : Expressible env pf i) {d : RouteDef} (hd : wantDef pf i = some d) : AddOK env d := by
  obtain ⟨q, hq⟩ := h.parseWeight_ok
  unfold wantDef at hd
  rw [hq] at hd
  simp only [Option.some.injEq] at hd
  subst hd
  exact ⟨rfl, h.src_ne, h.dst_ne, h.url, h.globHost, h.globPath⟩

theorem wantDef_cmd {d : RouteDef} (hd : wantDef pf i = some d) : d.cmd = .add := by
  unfold wantDef at hd
  split at hd
  · cases hd
  · simp only [Option.some.injEq] at hd; subst hd; rfl

/-! ### `denotes` -/

theorem denotes_iff (env : Env) (pf : ParseFloat) (cmd : Str) (i : Intent) :
    denotes env pf cmd i = true ↔ ∃ d, parse pf cmd = .ok [d] ∧ wantDef pf i = some d ∧ accepted env d = true := by
  unfold denotes
  constructor
  · intro h
    split at h
    · next d w hp hw =>
      simp only [Bool.and_eq_true, beq_iff_eq] at h
      exact ⟨d, hp, by rw [hw, h.1], h.2⟩
    · cases h
  · intro ⟨d, hp, hw, ha⟩
    rw [hp, hw]
    simp [ha]

/-- **completeness of the validation**: an intent that fits the grammar passes it -/
theorem denotes_of_expressible (h : Expressible env pf i) : denotes env pf (render i) i = true := by
  obtain ⟨d, hd⟩ := h.wantDef_some
  rw [denotes_iff]
  exact ⟨d, h.parse hd, hd, (accepted_iff env d (wantDef_cmd hd)).2 ((addRoute_nil_iff env d (wantDef_cmd hd)).2 (h.addOK hd))⟩

/-! ### many lines: `parse` distributes over `join "\n"` -/

theorem splitOn_ne_nil (c : Char) (s : Str) : splitOn c s ≠ [] := by
  cases s with
  | nil => simp [splitOn]
  | cons x xs =>
    unfold splitOn
    split
    · simp
    · split <;> simp

theorem splitOn_append_sep (c : Char) (a s : Str) : splitOn c (a ++ c :: s) = splitOn c a ++ splitOn c s := by
  induction a with
  | nil => simp [splitOn]
  | cons x xs ih =>
    rw [List.cons_append]
    by_cases hx : x = c
    · subst hx
      simp only [splitOn, beq_self_eq_true, if_true, ih, List.cons_append]
    · have hxb : (x == c) = false := by simpa using hx
      simp only [splitOn, hxb, Bool.false_eq_true, if_false, ih]
      cases hsp : splitOn c xs with
      | nil => exact absurd hsp (splitOn_ne_nil c xs)
      | cons h t => rfl

theorem splitOn_join_flat (c : Char) (l : List Str) (hne : l ≠ []) :
    splitOn c (join [c] l) = l.flatMap (splitOn c) := by
  induction l with
  | nil => exact absurd rfl hne
  | cons x l ih =>
    cases l with
    | nil => simp [join]
    | cons y r =>
      rw [join_cons_ne [c] x (y :: r) (by simp), List.append_assoc, List.singleton_append,
        splitOn_append_sep, ih (by simp)]
      simp

theorem dropLast_snoc_of_getLast? {α} (l : List α) (a : α) (h : l.getLast? = some a) : l.dropLast ++ [a] = l := by
  have hne : l ≠ [] := by intro e; simp [e] at h
  have h2 := List.dropLast_concat_getLast hne
  rw [List.getLast?_eq_some_getLast hne] at h
  cases h
  exact h2

theorem parseLines_blank (pf : ParseFloat) (i : Nat) : parseLines pf i [[]] = .ok [] := by
  simp [parseLines, byteLen, maxToken, dropCR, Fabio.Model.Parse.parseLine, trimSpace, trimLeft, trimRight,
    isComment, isBlank]

theorem parseLines_snoc_blank (pf : ParseFloat) (a : List Str) (i : Nat) :
    parseLines pf i (a ++ [[]]) = parseLines pf i a := by
  induction a generalizing i with
  | nil => rw [List.nil_append, parseLines_blank]; rfl
  | cons x xs ih =>
    rw [List.cons_append]
    simp only [parseLines, ih]

theorem parseLines_rawLines (pf : ParseFloat) (c : Str) (i : Nat) :
    parseLines pf i (rawLines c) = parseLines pf i (splitOn '\n' c) := by
  unfold rawLines
  simp only
  split
  · next h =>
    have h : (splitOn '\n' c).getLast? = some [] := by simpa using h
    have := dropLast_snoc_of_getLast? _ _ h
    conv => rhs; rw [← this]
    rw [parseLines_snoc_blank]
  · rfl

theorem parseLines_shift (pf : ParseFloat) (ls : List Str) : ∀ (i j : Nat) (ds : List RouteDef),
    parseLines pf i ls = .ok ds → parseLines pf j ls = .ok ds := by
  induction ls with
  | nil => intro i j ds h; simpa [parseLines] using h
  | cons x xs ih =>
    intro i j ds h
    simp only [parseLines] at h ⊢
    split at h
    · cases h
    · next hlen =>
      rw [if_neg hlen]
      cases hp : Fabio.Model.Parse.parseLine pf (dropCR x) with
      | error e => rw [hp] at h; cases e <;> cases h
      | ok o =>
        rw [hp] at h
        cases o with
        | none => exact ih _ _ _ h
        | some d =>
          simp only at h ⊢
          cases hr : parseLines pf (i+1) xs with
          | error e => rw [hr] at h; cases h
          | ok r =>
            rw [hr] at h
            rw [ih _ (j+1) _ hr]
            exact h

theorem parseLines_append (pf : ParseFloat) (a b : List Str) : ∀ (i j : Nat) (da db : List RouteDef),
    parseLines pf i a = .ok da → parseLines pf j b = .ok db → parseLines pf i (a ++ b) = .ok (da ++ db) := by
  induction a with
  | nil =>
    intro i j da db ha hb
    simp only [parseLines] at ha
    cases ha
    exact parseLines_shift pf b j i db hb
  | cons x xs ih =>
    intro i j da db ha hb
    rw [List.cons_append]
    simp only [parseLines] at ha ⊢
    split at ha
    · cases ha
    · next hlen =>
      rw [if_neg hlen]
      cases hp : Fabio.Model.Parse.parseLine pf (dropCR x) with
      | error e => rw [hp] at ha; cases e <;> cases ha
      | ok o =>
        rw [hp] at ha
        cases o with
        | none => exact ih _ j _ _ ha hb
        | some d =>
          simp only at ha ⊢
          cases hr : parseLines pf (i+1) xs with
          | error e => rw [hr] at ha; cases ha
          | ok r =>
            rw [hr] at ha
            cases ha
            rw [ih _ j _ _ hr hb]
            rfl

theorem parseLines_flat (pf : ParseFloat) (cmds : List Str) (ds : Str → List RouteDef)
    (h : ∀ c ∈ cmds, parse pf c = .ok (ds c)) (i : Nat) :
    parseLines pf i (cmds.flatMap (splitOn '\n')) = .ok (cmds.flatMap ds) := by
  induction cmds generalizing i with
  | nil => rfl
  | cons c cs ih =>
    rw [List.flatMap_cons, List.flatMap_cons]
    have hc : parseLines pf 1 (splitOn '\n' c) = .ok (ds c) := by
      rw [← parseLines_rawLines]; exact h c (by simp)
    exact parseLines_append pf _ _ i i _ _ (parseLines_shift pf _ 1 i _ hc)
      (ih (fun x hx => h x (List.mem_cons_of_mem _ hx)) i)

/-- **many lines**: whatever the commands contain, `route.Parse` reads the newline-joined text as the
concatenation of what it reads from each command alone. -/
theorem parse_join (pf : ParseFloat) (cmds : List Str) (ds : Str → List RouteDef)
    (h : ∀ c ∈ cmds, parse pf c = .ok (ds c)) :
    parse pf (join ['\n'] cmds) = .ok (cmds.flatMap ds) := by
  by_cases hne : cmds = []
  · subst hne; rfl
  · unfold Fabio.Model.Parse.parse
    rw [parseLines_rawLines, splitOn_join_flat '\n' cmds hne]
    exact parseLines_flat pf cmds ds h 1

/-! ### tables: a list of `route add` definitions an empty table accepts one by one -/

/-- a target without its computed share -/
def core (x : Target) : Target := { x with weight := 0 }

theorem weigh_core (ts : List Target) : (weigh ts).map core = ts.map core := by
  rw [C05Del.weigh_eq, List.map_map]
  apply List.map_congr_left
  intro x _
  simp only [Function.comp, core, C05Del.wfun]
  split
  · rfl
  · split <;> rfl

theorem isDup_core (ts : List Target) (x : Target) : isDup ts x = isDup (ts.map core) x := by
  unfold isDup
  rw [List.any_map]
  rfl

theorem isDup_weigh (ts : List Target) (x : Target) : isDup (weigh ts) x = isDup ts x := by
  rw [isDup_core, weigh_core, ← isDup_core]

theorem isDup_append_left (a b : List Target) (x : Target) (h : isDup a x = true) : isDup (a ++ b) x = true := by
  unfold isDup at h ⊢
  rw [List.any_append, h]; rfl

theorem isDup_self (a : List Target) (x : Target) : isDup (a ++ [x]) x = true := by
  unfold isDup
  rw [List.any_append]
  simp

/-- `S` holds a target for every definition of `done` (up to `addTarget`'s duplicate test: same service, URL,
fixed weight and tags), and every target of `S` is what some definition of `done` describes — service, URL,
tags, options, fixed weight, under the (host, path) of its source. -/
structure Exact (env : Env) (S : Spec) (done : List RouteDef) : Prop where
  present : ∀ d ∈ done, ∃ u, env.normURL d.dst = some u ∧
    isDup (S (key d.src).1 (key d.src).2) (newTarget d u) = true
  asked : ∀ h p x, x ∈ S h p → ∃ d ∈ done, ∃ u, env.normURL d.dst = some u ∧ key d.src = (h, p) ∧
    core x = core (newTarget d u)

theorem exact_empty (env : Env) : Exact env specEmpty [] :=
  ⟨fun _ h => (nomatch h), fun _ _ _ h => (nomatch h)⟩

theorem upd_same (S : Spec) (h p : Str) (ts : List Target) : upd S h p ts h p = ts := by
  simp [upd]

theorem upd_other (S : Spec) (h p h' p' : Str) (ts : List Target) (hne : ¬(h' = h ∧ p' = p)) :
    upd S h p ts h' p' = S h' p' := by
  simp [upd, hne]

theorem specAdd_step {env : Env} {S : Spec} {done : List RouteDef} {d : RouteDef}
    (hE : Exact env S done) (hd : AddOK env d) :
    ∃ S', specAdd env S d = .ok S' ∧ Exact env S' (done ++ [d]) := by
  obtain ⟨u, hu⟩ := hd.url
  have hs : d.src.isEmpty = false := by simpa using hd.src
  have hdst : d.dst.isEmpty = false := by simpa using hd.dst
  unfold specAdd
  simp only [hs, hdst, hu, hd.globHost, hd.globPath, Bool.false_eq_true, if_false, Bool.not_true, Bool.and_false]
  by_cases hdup : isDup (S (key d.src).1 (key d.src).2) (newTarget d u) = true
  · rw [if_pos hdup]
    refine ⟨S, rfl, ?_, ?_⟩
    · intro d' hd'
      rcases List.mem_append.1 hd' with h | h
      · exact hE.present d' h
      · simp only [List.mem_singleton] at h; subst h; exact ⟨u, hu, hdup⟩
    · intro h p x hx
      obtain ⟨d', hd', r⟩ := hE.asked h p x hx
      exact ⟨d', List.mem_append_left _ hd', r⟩
  · rw [if_neg hdup]
    refine ⟨_, rfl, ?_, ?_⟩
    · intro d' hd'
      rcases List.mem_append.1 hd' with h | h
      · obtain ⟨u', hu', hp⟩ := hE.present d' h
        refine ⟨u', hu', ?_⟩
        by_cases hk : (key d'.src).1 = (key d.src).1 ∧ (key d'.src).2 = (key d.src).2
        · rw [hk.1, hk.2, upd_same, isDup_weigh]
          rw [hk.1, hk.2] at hp
          exact isDup_append_left _ _ _ hp
        · rw [upd_other _ _ _ _ _ _ hk]; exact hp
      · simp only [List.mem_singleton] at h; subst h
        exact ⟨u, hu, by rw [upd_same, isDup_weigh]; exact isDup_self _ _⟩
    · intro h p x hx
      by_cases hk : h = (key d.src).1 ∧ p = (key d.src).2
      · obtain ⟨rfl, rfl⟩ := hk
        rw [upd_same] at hx
        have : core x ∈ (weigh (S (key d.src).1 (key d.src).2 ++ [newTarget d u])).map core :=
          List.mem_map.2 ⟨x, hx, rfl⟩
        rw [weigh_core] at this
        obtain ⟨y, hy, hxy⟩ := List.mem_map.1 this
        rcases List.mem_append.1 hy with hy | hy
        · obtain ⟨d', hd', u', hu', hk', hc⟩ := hE.asked _ _ y hy
          exact ⟨d', List.mem_append_left _ hd', u', hu', hk', by rw [← hxy, hc]⟩
        · simp only [List.mem_singleton] at hy; subst hy
          exact ⟨d, by simp, u, hu, rfl, hxy.symm⟩
      · rw [upd_other _ _ _ _ _ _ hk] at hx
        obtain ⟨d', hd', r⟩ := hE.asked h p x hx
        exact ⟨d', List.mem_append_left _ hd', r⟩

theorem specFold_adds {env : Env} (defs : List RouteDef) : ∀ (S : Spec) (done : List RouteDef),
    Exact env S done → (∀ d ∈ defs, AddOK env d) →
    ∃ S', defs.foldlM (specApply env) S = .ok S' ∧ Exact env S' (done ++ defs) := by
  induction defs with
  | nil => intro S done hE _; exact ⟨S, rfl, by simpa using hE⟩
  | cons d ds ih =>
    intro S done hE h
    have hd := h d (by simp)
    obtain ⟨S1, h1, hE1⟩ := specAdd_step hE hd
    obtain ⟨S2, h2, hE2⟩ := ih S1 (done ++ [d]) hE1 (fun x hx => h x (List.mem_cons_of_mem _ hx))
    refine ⟨S2, ?_, by simpa using hE2⟩
    rw [List.foldlM_cons]
    have : specApply env S d = .ok S1 := by unfold specApply; rw [hd.cmd]; exact h1
    rw [this]
    exact h2

/-- **tables**: `route.NewTable` accepts any list of `route add` definitions each of which an empty table
accepts, and the table is exactly what they ask for. -/
theorem newTable_adds {env : Env} (defs : List RouteDef) (h : ∀ d ∈ defs, AddOK env d) :
    ∃ t, newTable env defs = .ok t ∧ Exact env (abs t) defs := by
  obtain ⟨S, hS, hE⟩ := specFold_adds defs specEmpty [] (exact_empty env) h
  have hr := C05Main.refines_spec (env := env) defs
  unfold specRun at hr
  rw [hS] at hr
  cases hn : newTable env defs with
  | error e => rw [hn] at hr; cases hr
  | ok t =>
    rw [hn] at hr
    simp only [Except.map] at hr
    cases hr
    exact ⟨t, rfl, by simpa using hE⟩

/-! ### the reverse sort of `makeConfig` only reorders -/

theorem mem_insertDescStr (x : Str) (l : List Str) (y : Str) : y ∈ insertDescStr x l ↔ y = x ∨ y ∈ l := by
  induction l with
  | nil => simp [insertDescStr]
  | cons z zs ih =>
    unfold insertDescStr
    split
    · simp
    · simp only [List.mem_cons, ih]
      constructor
      · rintro (h | h | h)
        · exact .inr (.inl h)
        · exact .inl h
        · exact .inr (.inr h)
      · rintro (h | h | h)
        · exact .inr (.inl h)
        · exact .inl h
        · exact .inr (.inr h)

theorem mem_sortDesc (l : List Str) (y : Str) : y ∈ sortDesc l ↔ y ∈ l := by
  unfold sortDesc
  induction l with
  | nil => simp
  | cons x xs ih => rw [List.foldr_cons, mem_insertDescStr, ih]; simp

end Fabio.Lemmas.C14
