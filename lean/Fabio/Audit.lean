import Lean
/-!
`#audit Ns` prints one JSON line listing every theorem whose name starts with `Ns` and that is declared in
the module that declares namespace-root theorems (i.e. not auto-generated equation lemmas), each with the
axioms it depends on.  The check accepts a theorem iff its axioms ⊆ {propext, Classical.choice, Quot.sound}.
-/
open Lean Elab Command

elab "#audit " ns:ident : command => do
  let env ← getEnv
  let mut out : Array Json := #[]
  let consts := env.constants.fold (fun acc n ci => acc.push (n, ci)) (#[] : Array (Name × ConstantInfo))
  for (n, ci) in consts do
    if ns.getId.isPrefixOf n && !n.isInternalDetail then
      if let .thmInfo _ := ci then
        -- skip auto-generated lemmas (eq_1, injEq, sizeOf_spec, …)
        let last := n.getString!
        if last.startsWith "eq_" || last == "injEq" || last == "sizeOf_spec" || last == "inj"
           || last.endsWith "_def" && false then
          continue
        let axs ← liftCoreM <| Lean.collectAxioms n
        out := out.push (Json.mkObj [("theorem", toString n),
          ("axioms", Json.arr (axs.map (fun a => Json.str (toString a))))])
  let sorted := out.qsort (fun a b => a.compress < b.compress)
  IO.println s!"AUDIT {(Json.arr sorted).compress}"
