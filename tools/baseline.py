#!/usr/bin/env python3
"""Run the repository's pinned suite with the verif guard OFF and compare with /root/.vp/BASELINE.json:
every test in stable_pass must pass.  Usage: tools/baseline.py [repo_dir]"""
import json, subprocess, sys, os
repo = sys.argv[1] if len(sys.argv) > 1 else "/repo"
base = json.load(open("/root/.vp/BASELINE.json"))
want = set(base["stable_pass"])
env = dict(os.environ, GOFLAGS="-mod=mod", GOPROXY="off")
p = subprocess.run(["go", "test", "-json", "-vet=off", "-count=1", "-timeout", "25m", "./..."], cwd=repo, env=env,
                   stdout=subprocess.PIPE, stderr=subprocess.STDOUT, text=True, errors="replace")
res = {}
for line in p.stdout.splitlines():
    try:
        e = json.loads(line)
    except json.JSONDecodeError:
        continue
    if e.get("Test") and e.get("Action") in ("pass", "fail", "skip"):
        res[e["Package"] + "::" + e["Test"]] = e["Action"]
missing = sorted(t for t in want if res.get(t) != "pass")
print("stable tests passing: %d/%d" % (len(want) - len(missing), len(want)))
for t in missing:
    print("NOT PASSING:", t, res.get(t))
sys.exit(1 if missing else 0)
