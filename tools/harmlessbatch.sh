#!/bin/sh
# tools/harmlessbatch.sh C03 C07 … — run each behaviour-preserving refactoring /tmp/harmlessout/<P>/h*/patch.diff
# against the property's check (scratch worktree via VERIF_REPO); the expected outcome is exit 0.
for p in "$@"; do
  for m in /tmp/harmlessout/$p/h*; do
    [ -f "$m/patch.diff" ] || continue
    [ -f "$m/result.json" ] && continue
    mkdir "$m/.claim" 2>/dev/null || continue
    /verif/tools/seedeval.py "$m" --skip-confirm > "$m/result.json.tmp" 2> "$m/result.err"
    mv "$m/result.json.tmp" "$m/result.json"
    rmdir "$m/.claim"
    echo "$m $(python3 -c "
import json;d=json.load(open('$m/result.json'))
for p,c in d.get('checks',{}).items(): print(p,'exit',c['rc'],'FALSE-ALARM' if c['rc']!=0 else 'quiet', [v.split('replay=')[-1][-60:] for v in c['violations']][:2])
print('apply',d.get('apply_rc'),'build',d.get('build_rc'))" 2>/dev/null | tr '\n' ' ')"
  done
done
