#!/usr/bin/env python3
"""Regenerate /verif/MANIFEST.json from checks/*.json (one file per claimed property)."""
import json, os, glob, subprocess
V = os.path.dirname(os.path.dirname(os.path.abspath(__file__)))
base = json.load(open("/root/.vp/BASELINE.json"))
props = [json.loads(l) for l in open(os.path.join(V, "properties.jsonl"))]
cfgs = {}
for f in sorted(glob.glob(os.path.join(V, "checks", "C[0-9][0-9].json"))):
    c = json.load(open(f))
    cfgs[c["property"]] = c
hooks = subprocess.run(["git", "-C", "/repo", "log", "--format=%h %s"], stdout=subprocess.PIPE, text=True).stdout.splitlines()
hook_commits = [l.split()[0] for l in hooks if l.split(" ", 1)[1].startswith("verif:")]
na_reasons = {}
try:
    na_reasons = json.load(open(os.path.join(V, "checks", "not_applicable.json")))
except FileNotFoundError:
    pass
checks, na = [], []
for p in props:
    pid = p["id"]
    c = cfgs.get(pid)
    if not c or c.get("disabled"):
        na.append({"property_id": pid, "reason": na_reasons.get(pid, "no check registered yet: model, theorems and correspondence for this property are not built in this tree (design in DESIGN.md section 7)")})
        continue
    checks.append({
        "property_id": pid,
        "quick_cmd": "./check %s --tier quick" % pid,
        "thorough_cmd": "./check %s --tier thorough" % pid,
        "evidence_file": "/verif/evidence/%s.json" % pid,
        "replay_cmd_template": "./check %s --replay {path}" % pid,
        "engine": "lean-model",
        "level_claimed": {"category": c.get("level", "proof"), "text": c.get("level_text", ""), "design_ref": "DESIGN.md section 7, " + pid},
        "level_note": c.get("level_note", ""),
        "technique": c.get("technique", "Lean 4 theorems over an executable model; regenerated source facts; Go/Lean differential correspondence"),
    })
claimed = [c["property_id"] for c in checks]
m = {
    "version": 1,
    "setup_cmd": "./setup.sh",
    "hooks": {"guard": "verif",
              "enable": "go build -tags verif (hooks are new files only, each '//go:build verif'; the harness module replaces github.com/fabiolb/fabio with /repo)",
              "baseline_off_cmd": base["cmd"], "source_commits": hook_commits, "add_only": True},
    "engines": [
        {"name": "lean-model", "path": "/verif/lean", "serves_properties": claimed, "kind_free_text": "Lean 4 executable models, specifications and theorems; axiom audit; per-property model driver (lean_exe)"},
        {"name": "factgen", "path": "/verif/tools/factgen", "serves_properties": [p for p in claimed if cfgs[p].get("facts")], "kind_free_text": "go/ast extractor regenerating Lean facts from /repo on every run; obligations over them are re-checked by lake build"},
        {"name": "fvh-harness", "path": "/verif/harness", "serves_properties": claimed, "kind_free_text": "Go correspondence harness calling the real code in-process (-tags verif); line protocol to the Lean driver, which also evaluates the specification predicate on the implementation's output"}],
    "checks": checks,
    "not_applicable": na,
    "notes": "See DESIGN.md. Every check: regenerate facts -> lake build Props+Facts -> axiom audit -> build harness from /repo working tree -> correspondence streams -> on a broken obligation or disagreement: shrink + widened search; VIOLATION with a failing input as replay, or 'no-failing-input-found' naming the obligation/stream.",
}
json.dump(m, open(os.path.join(V, "MANIFEST.json"), "w"), indent=1)
# merge per-property findings files into known_findings.json (the only file the check reads)
kf = {"findings": [], "fixed": []}
for f in sorted(glob.glob(os.path.join(V, "checks", "C*.findings.json"))):
    d = json.load(open(f))
    kf["findings"] += d.get("findings", [])
    kf["fixed"] += d.get("fixed", [])
json.dump(kf, open(os.path.join(V, "known_findings.json"), "w"), indent=1)
print("claimed:", claimed)
