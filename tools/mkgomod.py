#!/usr/bin/env python3
"""Write harness/go.mod: module verif/harness, the same go directive and requirement set as the repository
(so that version selection is pinned to what /repo's go.sum and the offline module cache hold), and a replace
of github.com/fabiolb/fabio by the repository tree.  Usage: mkgomod.py [repo_dir] [out_file]"""
import re, sys, os
repo = sys.argv[1] if len(sys.argv) > 1 else "/repo"
out = sys.argv[2] if len(sys.argv) > 2 else os.path.join(os.path.dirname(os.path.dirname(os.path.abspath(__file__))), "harness", "go.mod")
src = open(os.path.join(repo, "go.mod")).read()
go = re.search(r"^go\s+(\S+)", src, re.M).group(1)
reqs = []
for blk in re.findall(r"^require\s*\((.*?)^\)", src, re.M | re.S):
    for l in blk.splitlines():
        l = l.split("//")[0].strip()
        if l:
            reqs.append(l)
for l in re.findall(r"^require\s+([^\s(]+\s+\S+)", src, re.M):
    reqs.append(l.strip())
repl = [l.strip() for blk in re.findall(r"^replace\s*\((.*?)^\)", src, re.M | re.S) for l in blk.splitlines() if l.strip() and not l.strip().startswith("//")]
repl += [l.strip() for l in re.findall(r"^replace\s+([^\s(].*)$", src, re.M)]
txt = "module verif/harness\n\ngo %s\n\nrequire github.com/fabiolb/fabio v0.0.0\n\nrequire (\n" % go
txt += "".join("\t%s\n" % r for r in sorted(set(reqs))) + ")\n\nreplace github.com/fabiolb/fabio => %s\n" % repo
for r in repl:
    txt += "\nreplace %s\n" % r
tmp = out + ".tmp"
open(tmp, "w").write(txt)
os.replace(tmp, out)
