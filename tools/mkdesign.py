#!/usr/bin/env python3
"""Refresh the generated tables at the end of DESIGN.md (everything after the TABLES marker)."""
import os, subprocess
V = os.path.dirname(os.path.dirname(os.path.abspath(__file__)))
p = os.path.join(V, "DESIGN.md")
s = open(p).read()
mark = "<!-- TABLES -->"
head = s[: s.index(mark) + len(mark)]
tables = subprocess.run(["python3", os.path.join(V, "tools/mktables.py")], stdout=subprocess.PIPE, text=True).stdout
open(p, "w").write(head + "\n\n" + tables)
