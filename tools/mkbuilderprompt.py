#!/usr/bin/env python3
"""tools/mkbuilderprompt.py <P> [specific.md] [seeds.md] — prompt for the round-3 builder of one property."""
import sys, os
V = os.path.dirname(os.path.dirname(os.path.abspath(__file__)))
pid = sys.argv[1]
spec = open(sys.argv[2]).read() if len(sys.argv) > 2 and sys.argv[2] != "-" else ""
seeds = open(sys.argv[3]).read() if len(sys.argv) > 3 and sys.argv[3] != "-" else ""
s = open(os.path.join(V, "tools/prompts/builder_round3.md")).read()
print(s.replace("{SPECIFIC}", spec).replace("{SEEDS}", seeds).replace("{ID}", pid))
