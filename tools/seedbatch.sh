#!/bin/sh
# tools/seedbatch.sh C12 C08 ...  — evaluate every /tmp/seedout/<P>/m*/ that has no result.json yet.
# Several instances may run side by side: a mutation is claimed with an atomic mkdir.
for p in "$@"; do
  for m in /tmp/seedout/$p/m*; do
    [ -f "$m/patch.diff" ] || continue
    [ -f "$m/result.json" ] && continue
    mkdir "$m/.claim" 2>/dev/null || continue
    /verif/tools/seedeval.py "$m" > "$m/result.json.tmp" 2> "$m/result.err"
    rc=$?
    mv "$m/result.json.tmp" "$m/result.json"
    rmdir "$m/.claim"
    echo "$m rc=$rc $(python3 -c "import json;d=json.load(open('$m/result.json'));print('confirmed',d.get('confirmed'),'caught',d.get('caught'))" 2>/dev/null)"
  done
done
