#!/bin/sh
# tools/seedbatch.sh C12 C08 ...  — evaluate every /tmp/seedout/<P>/m*/ that has no result.json yet
for p in "$@"; do
  for m in /tmp/seedout/$p/m*; do
    [ -f "$m/patch.diff" ] || continue
    [ -f "$m/result.json" ] && continue
    /verif/tools/seedeval.py "$m" > "$m/result.json" 2> "$m/result.err"
    echo "$m rc=$? $(python3 -c "import json;d=json.load(open('$m/result.json'));print('confirmed',d.get('confirmed'),'caught',d.get('caught'))" 2>/dev/null)"
  done
done
