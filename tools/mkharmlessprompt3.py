#!/usr/bin/env python3
"""Later-round prompt (used kinds read from the archive /verif/harmless) for behaviour-preserving refactorings: h4..h6, different kinds from the first round."""
import json, sys, glob, os
pid, wt, out = sys.argv[1], sys.argv[2], sys.argv[3]
tpl = open("/verif/tools/prompts/harmless_template.md").read()
for l in open("/verif/properties.jsonl"):
    p = json.loads(l)
    if p["id"] == pid:
        break
s = (tpl.replace("{WT}", wt).replace("{OUT}", out).replace("{ID}", pid).replace("{TITLE}", p["title"])
      .replace("{STATEMENT}", p["statement"]).replace("{FILES}", ", ".join(p["anchors"]["files"])))
s = s.replace("For each change k = 1, 2, 3 write", "For each change k = 4, 5, 6 write")
used = []
for m in sorted(glob.glob("/verif/harmless/%s-h*/meta.json" % pid)):
    try:
        used.append("- " + json.load(open(m))["kind"][:200].replace("\n", " "))
    except Exception:
        pass
s += ("\n\nNumber your three changes h4, h5 and h6 (directories " + out + "/h4, h5, h6). Another author has already produced refactorings of the following kinds; yours should be of OTHER kinds or touch OTHER functions of the anchored code, and should be a little bolder while remaining strictly behaviour-preserving — for example: reordering independent statements or declarations; splitting one function into two or merging a small helper back into its caller; changing a loop form (`for i := 0; i < n; i++` vs `range`, `for cond {}` vs `for { if !cond { break } }`); hoisting a repeated sub-expression into a local or inlining a single-use local; flipping an if/else by negating the condition; replacing a library call by an exactly equivalent one (`strings.ReplaceAll` vs `Replace(..., -1)`, `strings.Contains` vs `Index >= 0`, `errors.Is` only where the error is never wrapped, `time.Since`); renaming unexported functions, types, fields or package-level variables (not the ones used by the package's `verif_*.go` files); changing parameter names or the receiver name; moving functions between files of the same package; adding doc comments and log lines at debug level:\n" + "\n".join(used) + "\n")
print(s)
