#!/usr/bin/env python3
"""Evaluate one seeded change against the checks.

  tools/seedeval.py <mutation_dir> [--props C05,C02] [--inplace] [--tier quick]

<mutation_dir> holds patch.diff, meta.json and the demonstration (demo_test.go or a program).
Steps: (1) scratch worktree of /repo HEAD under /tmp/eval; demonstration must PASS there; (2) apply the patch;
`go build ./...`; the demonstration must FAIL; the existing tests of the touched packages must still pass;
(3) run the checks of the named properties against the patched tree (VERIF_REPO=<worktree>, or with --inplace
apply to /repo itself, run, and `git checkout -- .` straight afterwards); (4) print a JSON summary and remove the
worktree.  Exit 0 when the change was confirmed AND at least one check reported a VIOLATION."""
import argparse, json, os, re, shutil, subprocess, sys, time

ENV = dict(os.environ, GOFLAGS="-mod=mod", GOPROXY="off")
ENV.pop("GOSUMDB", None); ENV.pop("GOTOOLCHAIN", None)
FLAKY = re.compile(r"TestProxyProducesCorrectXForwardedSomethingHeader|TestProxyLogOutput|TestCustomRoutes|TestGracefulShutdown|TestProxyWSUpstream|TestTCP|TestConsulSource|TestVaultSource|TestVaultPKISource")


def sh(cmd, cwd=None, env=None, timeout=1800):
    p = subprocess.run(cmd, cwd=cwd, env=env or ENV, shell=isinstance(cmd, str), stdout=subprocess.PIPE, stderr=subprocess.STDOUT, text=True, errors="replace", timeout=timeout)
    return p.returncode, p.stdout


def clean_untracked_tests(wt):
    rc, out = sh("git ls-files --others --exclude-standard", cwd=wt)
    for f in out.split():
        if f.endswith("_test.go") or "/seeddemo" in f or f.startswith("seeddemo"):
            try:
                os.remove(os.path.join(wt, f))
            except OSError:
                pass


def run_demo_once(wt, mdir, meta):
    d = meta.get("demo", {})
    pkg = d.get("pkg_dir", ".")
    cmd = d.get("run", "")
    cmd = re.sub(r"/tmp/seed/C\d+", wt, cmd)
    cmd = re.sub(r"/tmp/seedout/C\d+/m\d+", mdir, cmd)
    cmd = cmd.replace("<repo>", wt).replace("$REPO", wt).replace("${REPO}", wt)
    if not cmd:
        return None, "no demo command"
    # a relative source of a `cp` that exists in the mutation directory is the demonstration itself: make it
    # absolute, then everything runs from the root of the tree under test
    def _abs(m):
        f = m.group(2)
        return "cp " + (os.path.join(mdir, f) if os.path.exists(os.path.join(mdir, f)) else (m.group(1) or "") + f) + " "
    cmd = re.sub(r"\bcp\s+(\./)?([\w.\-]+\.go)\s+", _abs, cmd)
    cwd = wt
    if "cp " not in cmd:
        for f in os.listdir(mdir):
            if f.endswith("_test.go"):
                shutil.copyfile(os.path.join(mdir, f), os.path.join(wt, pkg, f))
    rc, out = sh(cmd, cwd=cwd, timeout=900)
    clean_untracked_tests(wt)
    return rc, out[-3000:]


def run_demo(wt, mdir, meta, want_pass):
    """Runs the demonstration against the tree `wt` (the recorded command refers to the seeding worktree; it is
    rewritten). Socket-level demonstrations can flake under load: when a pass is wanted, retry twice."""
    rc, out = run_demo_once(wt, mdir, meta)
    tries = 0
    while want_pass and rc not in (0, None) and tries < 2:
        time.sleep(1)
        rc, out = run_demo_once(wt, mdir, meta)
        tries += 1
    return rc, out


def main():
    ap = argparse.ArgumentParser()
    ap.add_argument("mdir")
    ap.add_argument("--props", default="")
    ap.add_argument("--inplace", action="store_true")
    ap.add_argument("--tier", default="quick")
    ap.add_argument("--skip-confirm", action="store_true")
    ap.add_argument("--save-extra", action="store_true", help="also write the result to <mdir>/extra-<props>.json (cross-property evaluation)")
    a = ap.parse_args()
    mdir = os.path.abspath(a.mdir)
    meta = json.load(open(os.path.join(mdir, "meta.json")))
    props = [p for p in a.props.split(",") if p] or [meta["property"]]
    name = os.path.basename(os.path.dirname(mdir)) + "-" + os.path.basename(mdir)
    wt = "/tmp/eval/%s-%s-%d" % (name, "+".join(props), os.getpid())   # unique per evaluation: concurrent runs never share a tree
    res = {"mutation": mdir, "property": meta["property"], "checks": {}}
    sh("git -C /repo worktree remove --force %s" % wt)
    shutil.rmtree(wt, ignore_errors=True)
    os.makedirs("/tmp/eval", exist_ok=True)
    rc, out = sh("git -C /repo worktree add -q --detach %s HEAD" % wt)
    if rc != 0:
        print(out); sys.exit(2)
    try:
        patch = os.path.join(mdir, "patch.diff")
        if not a.skip_confirm:
            rc0, out0 = run_demo(wt, mdir, meta, True)
            res["demo_clean_rc"] = rc0
            if rc0 != 0:
                res["demo_clean_out"] = out0
        rc, out = sh("git apply --3way %s || git apply %s" % (patch, patch), cwd=wt)
        if rc != 0:
            # the change no longer applies to HEAD (a later fix: commit touched the same lines): use the newest
            # hand-rebased copy kept next to it, if any (patch-rebased*.diff), and say so in the result
            import glob as _g
            sh("git reset -q --hard && git clean -fdq", cwd=wt)
            for alt in sorted(_g.glob(os.path.join(mdir, "patch-rebased*.diff")), key=os.path.getmtime, reverse=True):
                rc2, out2 = sh("git apply --3way %s || git apply %s" % (alt, alt), cwd=wt)
                if rc2 == 0:
                    rc, out, patch = 0, out2, alt
                    res["patch_used"] = os.path.basename(alt)
                    break
                sh("git reset -q --hard && git clean -fdq", cwd=wt)
        res["apply_rc"] = rc
        if rc != 0:
            res["apply_out"] = out[-2000:]
            print(json.dumps(res, indent=1)); sys.exit(2)
        sh("git reset -q", cwd=wt)
        rc, out = sh("go build ./... && go vet -tags verif ./... >/dev/null 2>&1; go build -tags verif ./...", cwd=wt)
        res["build_rc"] = rc
        if rc != 0:
            res["build_out"] = out[-2000:]
        if not a.skip_confirm:
            rc1, out1 = run_demo(wt, mdir, meta, False)
            res["demo_patched_rc"] = rc1
            res["demo_patched_tail"] = (out1 or "")[-600:]
            rcd, outd = sh("git diff --name-only", cwd=wt)
            pkgs = sorted({"./" + os.path.dirname(f) + "/..." if os.path.dirname(f) else "." for f in outd.split() if f.endswith(".go")})
            rct, outt = sh("go test -vet=off -count=1 %s" % " ".join(pkgs), cwd=wt, timeout=1500)
            fails = [l for l in outt.splitlines() if l.startswith("--- FAIL")]
            real = [l for l in fails if not FLAKY.search(l)]
            res["existing_tests"] = {"pkgs": pkgs, "rc": rct, "fails": fails, "non_flaky_fails": real}
        for p in props:
            t0 = time.time()
            if a.inplace:
                rc, out = sh("git -C /repo apply %s" % patch)
                try:
                    rc, out = sh("./check %s --tier %s" % (p, a.tier), cwd="/verif", env=dict(ENV), timeout=3600)
                finally:
                    sh("git -C /repo checkout -- .")
            else:
                rc, out = sh("./check %s --tier %s" % (p, a.tier), cwd="/verif", env=dict(ENV, VERIF_REPO=wt), timeout=3600)
            viol = [l for l in out.splitlines() if l.startswith("VIOLATION")]
            info = {"rc": rc, "violations": viol, "wall_s": round(time.time() - t0, 1), "tail": out[-1500:]}
            for v in viol[:3]:
                m = re.search(r"replay=(\S+)", v)
                if m and os.path.exists(m.group(1)):
                    r = json.load(open(m.group(1)))
                    info.setdefault("replays", []).append({k: r.get(k) for k in ("stream", "kind", "obligation", "input") if k in r})
            res["checks"][p] = info
        res["confirmed"] = a.skip_confirm or (res.get("demo_clean_rc") == 0 and res.get("demo_patched_rc") not in (0, None) and res.get("build_rc") == 0 and not res.get("existing_tests", {}).get("non_flaky_fails"))
        res["caught"] = any(c["rc"] == 1 and c["violations"] for c in res["checks"].values())
    finally:
        sh("git -C /repo worktree remove --force %s" % wt)
        shutil.rmtree(wt, ignore_errors=True)
    if a.save_extra:
        json.dump(res, open(os.path.join(mdir, "extra-%s.json" % "-".join(props)), "w"), indent=1)
    print(json.dumps(res, indent=1))
    sys.exit(0 if res.get("confirmed") and res.get("caught") else 1)


if __name__ == "__main__":
    main()
