#!/usr/bin/env python3
"""tools/mkprompt.py seed|harmless <P> <worktree> <outdir> <start>  — prompt for an independent author (a fresh
sub-agent that sees nothing of /verif): three changes numbered start..start+2, of a different nature from the ones
archived under seeded/<P>-m*/ resp. harmless/<P>-h*/ (only their one-line descriptions are passed on)."""
import json, sys, glob, os
kind, pid, wt, out, start = sys.argv[1], sys.argv[2], sys.argv[3], sys.argv[4], int(sys.argv[5])
V = os.path.dirname(os.path.dirname(os.path.abspath(__file__)))
tpl = open(os.path.join(V, "tools/prompts/%s_template.md" % kind)).read()
for l in open(os.path.join(V, "properties.jsonl")):
    p = json.loads(l)
    if p["id"] == pid:
        break
s = (tpl.replace("{WT}", wt).replace("{OUT}", out).replace("{ID}", pid).replace("{TITLE}", p["title"])
      .replace("{STATEMENT}", p["statement"]).replace("{QUANT}", p["quantifier"]["text"])
      .replace("{FILES}", ", ".join(p["anchors"]["files"])))
letter = "m" if kind == "seed" else "h"
s = s.replace("k = 1, 2, 3 write", "k = %d, %d, %d write" % (start, start + 1, start + 2))
used = []
for m in sorted(glob.glob(os.path.join(V, "seeded" if kind == "seed" else "harmless", "%s-%s[0-9]*" % (pid, letter), "meta.json"))):
    try:
        d = json.load(open(m))
        used.append("- " + (d.get("breaks") or d.get("kind") or "")[:260].replace("\n", " "))
    except Exception:
        pass
if used:
    s += ("\n\nNumber your three changes %s%d, %s%d and %s%d (directories under %s). Other authors have already produced "
          "the following changes; yours must be of a DIFFERENT nature (a different code site or a different mechanism, and "
          "where possible a different sentence of the property / a different kind of refactoring):\n" % (letter, start, letter, start + 1, letter, start + 2, out)) + "\n".join(used) + "\n"
print(s)
