#!/bin/sh
# tools/runall.sh [tier] — every check once, sequentially, against /repo; summary on stdout, logs under .work/runall/
cd "$(dirname "$0")/.."
export GOFLAGS=-mod=mod GOPROXY=off
tier=${1:-quick}
mkdir -p .work/runall
rc=0
for p in $(ls checks | grep -v findings | sed 's/\.json$//'); do
  s=$(date +%s)
  ./check $p --tier $tier > .work/runall/$p.log 2>&1
  e=$?
  [ $e -ne 0 ] && rc=1
  echo "$p exit=$e $(( $(date +%s)-s ))s violations=$(grep -c '^VIOLATION' .work/runall/$p.log) known=$(grep -c '^KNOWN-FINDING' .work/runall/$p.log)"
done
exit $rc
