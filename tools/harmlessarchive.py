#!/usr/bin/env python3
"""Copy the behaviour-preserving refactorings from /tmp/harmlessout/<P>/h<k>/ into /verif/harmless/<P>-h<k>/
(patch.diff, meta.json extended with the check's verdict). Expected verdict: exit 0 (quiet)."""
import json, os, shutil, glob
for d in sorted(glob.glob("/tmp/harmlessout/*/h*")):
    if not os.path.exists(os.path.join(d, "patch.diff")):
        continue
    name = os.path.basename(os.path.dirname(d)) + "-" + os.path.basename(d)
    out = os.path.join("/verif/harmless", name)
    os.makedirs(out, exist_ok=True)
    shutil.copyfile(os.path.join(d, "patch.diff"), os.path.join(out, "patch.diff"))
    meta = json.load(open(os.path.join(d, "meta.json")))
    hist = []
    for r in sorted(glob.glob(os.path.join(d, "result*.json"))):
        try:
            rr = json.load(open(r))
        except Exception:
            continue
        for p, c in rr.get("checks", {}).items():
            hist.append({"run": os.path.basename(r), "property": p, "exit": c["rc"], "violations": c["violations"][:2]})
    meta["check_runs"] = hist
    meta["quiet_now"] = bool(hist) and all(h["exit"] == 0 for h in hist if h["run"] == "result.json")
    json.dump(meta, open(os.path.join(out, "meta.json"), "w"), indent=1)
    print(name, "quiet" if meta["quiet_now"] else "ALARM")
