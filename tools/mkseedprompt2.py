#!/usr/bin/env python3
"""Second-round seeding prompt: same task, new numbering (m4..m6), and the list of ideas already used."""
import json, sys, glob, os
pid, wt, out = sys.argv[1], sys.argv[2], sys.argv[3]
start = int(sys.argv[4]) if len(sys.argv) > 4 else 4
tpl = open("/verif/tools/prompts/seed_template.md").read()
for l in open("/verif/properties.jsonl"):
    p = json.loads(l)
    if p["id"] == pid:
        break
s = (tpl.replace("{WT}", wt).replace("{OUT}", out).replace("{ID}", pid).replace("{TITLE}", p["title"])
      .replace("{STATEMENT}", p["statement"]).replace("{QUANT}", p["quantifier"]["text"])
      .replace("{FILES}", ", ".join(p["anchors"]["files"])))
s = s.replace("For each change k = 1, 2, 3 write", "For each change k = %d, %d, %d write" % (start, start+1, start+2))
used = []
for m in sorted(glob.glob(os.path.join(out, "m[0-9]*", "meta.json"))):
    try:
        used.append("- " + json.load(open(m))["breaks"][:300].replace("\n", " "))
    except Exception:
        pass
s += "\n\nNumber your three changes m%d, m%d and m%d (directories under " % (start, start+1, start+2) + out + "). Another author has already produced the following changes; yours must be of a DIFFERENT nature (different code site or different mechanism, different sentence of the property where possible):\n" + "\n".join(used) + "\n"
print(s)
