#!/usr/bin/env python3
"""Second-round seeding prompt: same task, new numbering (m4..m6), and the list of ideas already used."""
import json, sys, glob, os
pid, wt, out = sys.argv[1], sys.argv[2], sys.argv[3]
tpl = open("/tmp/prompts/seed_template.md").read()
for l in open("/verif/properties.jsonl"):
    p = json.loads(l)
    if p["id"] == pid:
        break
s = (tpl.replace("{WT}", wt).replace("{OUT}", out).replace("{ID}", pid).replace("{TITLE}", p["title"])
      .replace("{STATEMENT}", p["statement"]).replace("{QUANT}", p["quantifier"]["text"])
      .replace("{FILES}", ", ".join(p["anchors"]["files"])))
s = s.replace("For each change k = 1, 2, 3 write", "For each change k = 4, 5, 6 write").replace("m{k}", "m{k}")
used = []
for m in sorted(glob.glob(os.path.join(out, "m[123]", "meta.json"))):
    try:
        used.append("- " + json.load(open(m))["breaks"][:300].replace("\n", " "))
    except Exception:
        pass
s += "\n\nNumber your three changes m4, m5 and m6 (directories " + out + "/m4, m5, m6). Another author has already produced the following changes; yours must be of a DIFFERENT nature (different code site or different mechanism, different sentence of the property where possible):\n" + "\n".join(used) + "\n"
print(s)
