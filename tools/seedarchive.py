#!/usr/bin/env python3
"""Copy confirmed seeded changes from /tmp/seedout/<P>/m<k>/ into /verif/seeded/<P>-m<k>/ (patch.diff, the
demonstration, meta.json extended with what was run and which check caught it)."""
import json, os, shutil, subprocess, sys, glob
base = subprocess.run(["git", "-C", "/repo", "rev-parse", "--short", "HEAD"], stdout=subprocess.PIPE, text=True).stdout.strip()
for res in sorted(glob.glob("/tmp/seedout/*/m*/result.json")):
    d = os.path.dirname(res)
    try:
        r = json.load(open(res))
    except Exception:
        continue
    if not r.get("confirmed"):
        continue
    name = os.path.basename(os.path.dirname(d)) + "-" + os.path.basename(d)
    out = os.path.join("/verif/seeded", name)
    os.makedirs(out, exist_ok=True)
    for f in os.listdir(d):
        if f in ("result.json", "result.err", "result.first.json") or f.startswith("extra-") or f.startswith("result") or f == ".claim":
            continue
        # a patch already in the archive is never overwritten: builders rebase archived patches in place when a later
        # fix: commit touches the same lines (the original is then kept as patch.orig.diff)
        if f == "patch.diff" and os.path.exists(os.path.join(out, f)):
            continue
        shutil.copyfile(os.path.join(d, f), os.path.join(out, f))
    meta = json.load(open(os.path.join(d, "meta.json")))
    meta["confirmed_by"] = {
        "procedure": "tools/seedeval.py: scratch worktree of /repo HEAD; demonstration passes on the clean tree; patch applied; go build ./... and go build -tags verif ./... succeed; demonstration fails; existing tests of the touched packages pass (known flaky tests ignored)",
        "demo_clean_rc": r.get("demo_clean_rc"), "demo_patched_rc": r.get("demo_patched_rc"), "build_rc": r.get("build_rc"),
        "existing_tests": r.get("existing_tests"),
    }
    meta["checks"] = {p: {"exit": c["rc"], "violations": c["violations"], "wall_s": c["wall_s"], "replays": c.get("replays", [])[:2]} for p, c in r.get("checks", {}).items()}
    for ex in sorted(glob.glob(os.path.join(d, "extra-*.json"))):
        try:
            er = json.load(open(ex))
        except Exception:
            continue
        for p_, c in er.get("checks", {}).items():
            meta["checks"][p_] = {"exit": c["rc"], "violations": c["violations"], "wall_s": c["wall_s"], "replays": c.get("replays", [])[:2], "cross_property": True}
    first = os.path.join(d, "result.first.json")
    if os.path.exists(first):
        try:
            fr = json.load(open(first))
            meta["first_verdict"] = {"note": "verdict of the checks as they were when the change arrived, before any strengthening",
                                     "caught": fr.get("caught"),
                                     "checks": {p: {"exit": c["rc"], "violations": c["violations"]} for p, c in fr.get("checks", {}).items()}}
        except Exception:
            pass
    meta["caught"] = any(c["exit"] == 1 and c["violations"] for c in meta["checks"].values())
    meta.setdefault("evaluated_at_repo_commit", base)
    json.dump(meta, open(os.path.join(out, "meta.json"), "w"), indent=1)
    print(name, "caught" if meta.get("caught") else "MISSED")
