#!/usr/bin/env python3
"""Print the prompt for a seeding agent: only the property's own text and its scratch worktree."""
import json, sys
pid, wt, out = sys.argv[1], sys.argv[2], sys.argv[3]
tpl = open("/verif/tools/prompts/seed_template.md").read()
for l in open("/verif/properties.jsonl"):
    p = json.loads(l)
    if p["id"] == pid:
        break
print(tpl.replace("{WT}", wt).replace("{OUT}", out).replace("{ID}", pid).replace("{TITLE}", p["title"])
      .replace("{STATEMENT}", p["statement"]).replace("{QUANT}", p["quantifier"]["text"])
      .replace("{FILES}", ", ".join(p["anchors"]["files"])))
