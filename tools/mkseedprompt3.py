#!/usr/bin/env python3
"""Later seeding rounds: same task as seed_template.md, numbering from <start>, and the ideas already archived under
/verif/seeded/<P>-m*/ handed over as text (the author never sees /verif).  usage: mkseedprompt3.py C05 <wt> <out> <start>"""
import json, sys, glob, os
pid, wt, out, start = sys.argv[1], sys.argv[2], sys.argv[3], int(sys.argv[4])
tpl = open("/verif/tools/prompts/seed_template.md").read()
for l in open("/verif/properties.jsonl"):
    p = json.loads(l)
    if p["id"] == pid:
        break
s = (tpl.replace("{WT}", wt).replace("{OUT}", out).replace("{ID}", pid).replace("{TITLE}", p["title"])
      .replace("{STATEMENT}", p["statement"]).replace("{QUANT}", p["quantifier"]["text"])
      .replace("{FILES}", ", ".join(p["anchors"]["files"])))
s = s.replace("For each change k = 1, 2, 3 write", "For each change k = %d, %d, %d write" % (start, start+1, start+2))
used = []
for m in sorted(glob.glob("/verif/seeded/%s-m*/meta.json" % pid)):
    try:
        used.append("- " + json.load(open(m))["breaks"][:260].replace("\n", " "))
    except Exception:
        pass
s += ("\n\nNumber your three changes m%d, m%d and m%d (directories under %s). Earlier authors have already produced the "
      "following changes; yours must be of a DIFFERENT nature (different code site or different mechanism, a different "
      "sentence of the property where possible, and code further away from the obvious core — callers, wiring, option "
      "handling, error paths, alternative entry points — is welcome as long as the property itself becomes false):\n"
      % (start, start+1, start+2, out)) + "\n".join(used) + "\n"
print(s)
