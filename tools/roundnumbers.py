#!/usr/bin/env python3
"""tools/roundnumbers.py m10 m11 m12 — first and final verdicts of the seeded changes with these suffixes (from seeded/*/meta.json)."""
import json, glob, os, sys
V = os.path.dirname(os.path.dirname(os.path.abspath(__file__)))
suf = sys.argv[1:] or ["m10", "m11", "m12"]
def cls(checks):
    v = [x for c in checks.values() for x in c.get("violations", [])]
    rc1 = any(c.get("exit") == 1 for c in checks.values())
    if not (rc1 and v): return "missed"
    return "nfi" if all("no-failing-input-found" in x for x in v) else "input"
first = {"input": [], "nfi": [], "missed": [], "unknown": []}
final = {"input": [], "nfi": [], "missed": []}
for d in sorted(glob.glob(os.path.join(V, "seeded", "*"))):
    n = os.path.basename(d)
    if n.split("-")[-1] not in suf: continue
    m = json.load(open(os.path.join(d, "meta.json")))
    fv = m.get("first_verdict")
    own = {p: c for p, c in m.get("checks", {}).items() if not c.get("cross_property")}
    first[cls(fv["checks"]) if fv and fv.get("checks") else "unknown"].append(n)
    final[cls(own)].append(n)
tot = sum(len(v) for v in final.values())
print("%d changes. First verdict (checks as they stood): %d caught with a failing input, %d caught only as no-failing-input-found (%s), %d missed (%s)%s." % (
    tot, len(first["input"]), len(first["nfi"]), ", ".join(first["nfi"]), len(first["missed"]), ", ".join(first["missed"]),
    (", %d first verdict not recorded (%s)" % (len(first["unknown"]), ", ".join(first["unknown"]))) if first["unknown"] else ""))
print("Final verdict (checks as committed): %d caught with a failing input, %d only as no-failing-input-found (%s), %d missed (%s)." % (
    len(final["input"]), len(final["nfi"]), ", ".join(final["nfi"]), len(final["missed"]), ", ".join(final["missed"])))
