#!/usr/bin/env python3
"""tools/mkbuilderprompt4.py <P> <hours> [specific.md] — prompt for the round-4 builder of one property."""
import sys, os
V = os.path.dirname(os.path.dirname(os.path.abspath(__file__)))
pid, hours = sys.argv[1], sys.argv[2]
spec = open(sys.argv[3]).read() if len(sys.argv) > 3 and sys.argv[3] != "-" else ""
s = open(os.path.join(V, "tools/prompts/builder_round4.md")).read()
print(s.replace("{SPECIFIC}", spec).replace("{HOURS}", hours).replace("{ID}", pid))
