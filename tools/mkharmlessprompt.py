#!/usr/bin/env python3
import json, sys
pid, wt, out = sys.argv[1], sys.argv[2], sys.argv[3]
tpl = open("/verif/tools/prompts/harmless_template.md").read()
for l in open("/verif/properties.jsonl"):
    p = json.loads(l)
    if p["id"] == pid:
        break
print(tpl.replace("{WT}", wt).replace("{OUT}", out).replace("{ID}", pid).replace("{TITLE}", p["title"])
      .replace("{STATEMENT}", p["statement"]).replace("{FILES}", ", ".join(p["anchors"]["files"])))
