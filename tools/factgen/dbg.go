package main

import "os"

// DBG: print the normalised source of one function (FACTGEN_DBG="dir:recv:name"), for developing extractors.
func init() {
	register("DBG", func(x *X) error {
		spec := os.Getenv("FACTGEN_DBG")
		if spec == "" {
			return nil
		}
		var dir, recv, name string
		parts := splitN(spec, ':', 3)
		dir, recv, name = parts[0], parts[1], parts[2]
		if os.Getenv("FACTGEN_DBG_RAW") == "" {
			x.UseNormalizedAST()
		}
		if fd := x.funcDecl(dir, recv, name); fd != nil {
			x.defStr("src", x.src(fd.Body))
		}
		return nil
	})
}

func splitN(s string, sep byte, n int) []string {
	out := []string{}
	cur := ""
	for i := 0; i < len(s); i++ {
		if s[i] == sep && len(out) < n-1 {
			out = append(out, cur)
			cur = ""
		} else {
			cur += string(s[i])
		}
	}
	out = append(out, cur)
	for len(out) < n {
		out = append(out, "")
	}
	return out
}
