package main

import (
	"fmt"
	"go/ast"
	"go/token"
	"os"
	"regexp"
	"strconv"
	"strings"
)

// C07 facts: what the models of proxy/http_proxy.go ServeHTTP, the director of proxy/http_handler.go and the
// status/size wrapper silently rely on — pinned as MEANING, not spelling.
//
// The extractor runs on the normalised AST (package constants inlined, string concatenations folded, safe switches
// rewritten to if/else-if) and turns a function into an ordered list of EVENTS
//
//	<guards> ⊢ store <lhs> = <rhs>      <guards> ⊢ call <callee>(<args>)      <guards> ⊢ return
//
// where
//   - every identifier is printed by its ROLE, not its spelling: the receiver is `recv`, the parameters of ServeHTTP
//     are `w` and `req`, a local is named after the expression that first defined it (`$(req.URL.EscapedPath())`;
//     a few long ones get an alias: target, turl, raw, status, html, handler, rw);
//   - a call to an unexported function or method of the same package is followed into its body with the parameters
//     replaced by the (role-printed) arguments, `return e` becoming a store to the variable the call was assigned to
//     (so extracting or inlining a helper, or renaming it, leaves the events as they are); inside expressions such a
//     call is printed as `helper(args)`;
//   - the guards are the conditions on the path: `if c { A } else { B }` gives `c ⊢ A`, `!(c) ⊢ B`, and the
//     statements after an `if c { …; return }` are guarded by `past:!(c)` (so an early return and an else branch
//     give the same events);
//   - `x == ""`, `len(x) == 0` print as `empty(x)`; `x != ""`, `len(x) > 0`, `len(x) != 0` as `nonempty(x)`.
//
// Facts:
//
//	serveOrder      the recognised events of ServeHTTP, each once, in order (everything else is skipped)
//	gatePrefix      the `past:` guards of the target-URL construction: it is reached only past these returns
//	noRouteEvents   the events of the `target == nil` branch; noRouteLo/Hi/Default parsed out of them
//	urlEvents       every store to the target URL, the escaped path, the request's Host and URL, with its guards
//	directorStores  the stores of the Director function literal to its request parameter
//	directorEffects every store to and every method call on the outgoing request in the Director (guards dropped)
//	rw*             the wrapper handed to h.ServeHTTP forwards WriteHeader and Write
//	request*        what ServeHTTP, its helpers in the package and trace.CreateSpan/spanName/InjectHeaders do to the
//	                incoming request: requestCalls (methods called on it or on its fields, as selector paths),
//	                requestStores (fields assigned), requestBodyMentions (Body/Form/PostForm/MultipartForm/GetBody/Trailer
//	                referred to at all) — sorted, unique
//	noroute*        noroute/store.go: the package variable is an atomic.Value, SetHTML/GetHTML as events
//	main*           the wiring in main.go no harness executes: the fields of the HTTPProxy literal, the Lookup closure,
//	                the no-route page watcher
func init() {
	register("C07", func(x *X) error {
		x.UseNormalizedAST()
		fd := x.funcDecl("proxy", "HTTPProxy", "ServeHTTP")
		if fd == nil || fd.Body == nil {
			return nil
		}
		w := newC07Walker(x, "proxy")
		top := w.topFrame(fd, []string{"w", "req"})
		// roles that are visible only from a use: the handler whose ServeHTTP is called and the writer handed to it
		ast.Inspect(fd.Body, func(n ast.Node) bool {
			if c, ok := n.(*ast.CallExpr); ok {
				if se, ok := c.Fun.(*ast.SelectorExpr); ok && se.Sel.Name == "ServeHTTP" && len(c.Args) == 2 {
					if id, ok := se.X.(*ast.Ident); ok {
						top.locals[id.Name] = "handler"
					}
					if id, ok := c.Args[0].(*ast.Ident); ok {
						top.locals[id.Name] = "rw"
					}
				}
			}
			return true
		})
		w.alias = map[string]string{
			"$(recv.Lookup(req))":           "target",
			"$(req.URL.EscapedPath())":      "raw",
			"$(recv.Config.NoRouteStatus)":  "status",
			"$(noroute.GetHTML())":          "html",
			"$(req.Header.Get(\"Upgrade\"))": "upgrade",
			"$(req.Header.Get(\"Accept\"))":  "accept",
		}
		w.aliasPrefix = map[string]string{"$(&url.URL{Scheme: target.URL.Scheme,": "turl"}
		w.block(fd.Body.List, nil, top, "")
		if os.Getenv("FACTGEN_C07_DBG") != "" {
			for _, e := range w.events {
				fmt.Fprintln(os.Stderr, c07render(e.guards, e.act))
			}
		}

		// ---- serveOrder
		var order []string
		seen := map[string]bool{}
		add := func(k string) {
			if !seen[k] {
				seen[k] = true
				order = append(order, k)
			}
		}
		has := func(gs []string, sub string) bool {
			for _, g := range gs {
				if strings.Contains(g, sub) {
					return true
				}
			}
			return false
		}
		for _, e := range w.events {
			switch {
			case strings.HasPrefix(e.act, "store target = recv.Lookup("):
				add("lookup")
			case e.act == "return" && len(c07live(e.guards)) == 1 && c07live(e.guards)[0] == "target == nil":
				add("noroute-return")
			case strings.HasPrefix(e.act, "call http.Redirect("):
				add("redirect")
			case strings.HasPrefix(e.act, "store turl = "):
				add("url-build")
			case strings.HasPrefix(e.act, "store raw = req.URL.EscapedPath()"):
				add("rawpath-init")
			case strings.HasPrefix(e.act, "store turl.RawQuery = "):
				add("query-merge")
			case strings.HasPrefix(e.act, "store turl.Path = ") && has(e.guards, "target.StripPath"):
				add("strip")
			case strings.HasPrefix(e.act, "store turl.Path = ") && has(e.guards, "target.PrependPath"):
				add("prepend")
			case strings.HasPrefix(e.act, "store turl.RawPath = "):
				add("rawpath-set")
			case strings.HasPrefix(e.act, "enter helper(") && strings.Contains(e.act, "target.StripPath"):
				add("addHeaders")
			case strings.HasPrefix(e.act, "store req.Host = "):
				add("host-override")
			case strings.HasPrefix(e.act, "store handler = "):
				add("handler-choice")
			case strings.HasPrefix(e.act, "call handler.ServeHTTP("):
				add("serve")
			}
			if has(e.guards, "target.AccessDeniedHTTP(req)") {
				add("access")
			}
			if has(e.guards, "target.Authorized(req, w, recv.AuthSchemes)") {
				add("auth")
			}
		}
		x.defStrList("serveOrder", order)
		for _, k := range []string{"lookup", "noroute-return", "url-build", "query-merge", "host-override", "strip", "prepend", "handler-choice", "serve"} {
			if !seen[k] {
				x.fail("proxy.ServeHTTP: event %q not recognised any more", k)
			}
		}

		// ---- the no-route branch
		var nr, nrActs []string
		for _, e := range w.events {
			if lv := c07live(e.guards); len(lv) > 0 && lv[0] == "target == nil" && !strings.HasPrefix(e.act, "enter ") {
				nr = append(nr, c07render(lv[1:], e.act))
				nrActs = append(nrActs, e.act)
			}
		}
		x.defStrList("noRouteEvents", nr)
		x.defStrList("noRouteActions", nrActs) // the same with the guards dropped: what the branch can do at all
		c07bounds(x, nr)

		// ---- the target URL, the escaped path, the request's Host and URL
		var gate, urlEv []string
		for _, e := range w.events {
			if !strings.HasPrefix(e.act, "store ") {
				continue
			}
			lhs := strings.TrimPrefix(e.act, "store ")
			lhs = lhs[:strings.Index(lhs, " ")]
			if lhs == "turl" || strings.HasPrefix(lhs, "turl.") || lhs == "raw" || lhs == "req.Host" || lhs == "req.URL" {
				var gs []string
				for _, g := range e.guards {
					if strings.HasPrefix(g, "past:") {
						if lhs == "turl" {
							gate = append(gate, g)
						}
						continue
					}
					gs = append(gs, g)
				}
				urlEv = append(urlEv, c07render(gs, e.act))
			}
		}
		x.defStrList("gatePrefix", gate)
		x.defStrList("urlEvents", urlEv)

		c07director(x, w)
		c07responseWriter(x, fd)
		c07requestTouch(x, fd)
		c07gateTouch(x)
		// ---- the cut of the escaped path that goes with a strip option (`escapedLen` today), regenerated from the
		// source by the translator (xlate.go); the model's `dropEscaped` is proved equal to it in Props/C07Xlate.lean.
		// The function is found by ROLE — the package function ServeHTTP calls with (<escaped path>, len(<target>.StripPath))
		// — so a rename leaves the generated module unchanged; when there is no such function any more (inlined, replaced
		// by a library call) an interface stub is written, Props/C07Xlate stops building and the change detector fires.
		cutName := ""
		ast.Inspect(fd.Body, func(n ast.Node) bool {
			c, ok := n.(*ast.CallExpr)
			if !ok || len(c.Args) != 2 {
				return true
			}
			id, ok := c.Fun.(*ast.Ident)
			if !ok {
				return true
			}
			if l, ok := c.Args[1].(*ast.CallExpr); ok && len(l.Args) == 1 {
				if li, ok := l.Fun.(*ast.Ident); ok && li.Name == "len" {
					if se, ok := l.Args[0].(*ast.SelectorExpr); ok && se.Sel.Name == "StripPath" {
						if cd := x.anyFuncDecl("proxy", id.Name); cd != nil && cd.Recv == nil {
							cutName = id.Name
						}
					}
				}
			}
			return true
		})
		if cutName != "" {
			xlateEmit(x, c07fileOf(x, "proxy", cutName), []xlSpec{
				{"", cutName, "XEscapedLen", []string{"auto"}, []string{"p0:Bytes:[]", "p1:Int:0"}, "Int"},
			})
		} else {
			x.imports = append(x.imports, "Fabio.Xlate.Rt")
			x.opens = append(x.opens, "Fabio.Xlate")
			x.defRaw("namespace XEscapedLen\n\n/-- NOT TRANSLATED (ServeHTTP calls no package function with (escaped path, len(StripPath)) any more): interface stub -/\nstructure St where\n  p0 : Bytes := []\n  p1 : Int := 0\n\nabbrev Rho := Int\n\ndef run (_ : St) : V (Rho × St) := .panic \"not translated\"\n\ndef translated : Bool := false\n\nend XEscapedLen")
			x.defStrList("xlateNotes", []string{"no function in the role of escapedLen"})
		}
		c07mainWiring(x)
		c07norouteStore(x)
		return nil
	})
}

// c07live drops the guards that only say "an earlier early return was not taken".
func c07live(guards []string) []string {
	var out []string
	for _, g := range guards {
		if !strings.HasPrefix(g, "past:") {
			out = append(out, g)
		}
	}
	return out
}

func c07render(guards []string, act string) string {
	if len(guards) == 0 {
		return act
	}
	return strings.Join(guards, ", ") + " ⊢ " + act
}

// ---------------------------------------------------------------------------------------------------------
// the event walker
// ---------------------------------------------------------------------------------------------------------

type c07ev struct {
	guards []string
	act    string
}

type c07frame struct {
	fd     *ast.FuncDecl
	params []string
	recv   string
	// for an inlined helper: the caller's frame and the call's receiver/arguments; nil parent = top frame
	parent  *c07frame
	recvArg ast.Expr
	args    []ast.Expr
	roles   []string          // top frame: role names of the parameters
	locals  map[string]string // spelling -> canonical name
	depth   int
}

type c07walker struct {
	x           *X
	dir         string
	events      []c07ev
	alias       map[string]string
	aliasPrefix map[string]string
	stack       map[string]bool
}

func newC07Walker(x *X, dir string) *c07walker {
	return &c07walker{x: x, dir: dir, alias: map[string]string{}, aliasPrefix: map[string]string{}, stack: map[string]bool{}}
}

func (w *c07walker) topFrame(fd *ast.FuncDecl, roles []string) *c07frame {
	recv, params, _ := w.x.LocalNames(fd)
	return &c07frame{fd: fd, params: params, recv: recv, roles: roles, locals: map[string]string{}}
}

func (w *c07walker) emit(guards []string, act string) {
	w.events = append(w.events, c07ev{append([]string(nil), guards...), act})
}

// helperDecl returns the declaration of an unexported function/method of the package that the call goes to.
func (w *c07walker) helperDecl(c *ast.CallExpr) (*ast.FuncDecl, ast.Expr) {
	switch f := c.Fun.(type) {
	case *ast.Ident:
		if !ast.IsExported(f.Name) && (f.Obj == nil || f.Obj.Kind == ast.Fun) {
			if fd := w.x.anyFuncDecl(w.dir, f.Name); fd != nil && fd.Recv == nil {
				return fd, nil
			}
		}
	case *ast.SelectorExpr:
		if !ast.IsExported(f.Sel.Name) {
			if fd := w.x.anyFuncDecl(w.dir, f.Sel.Name); fd != nil && fd.Recv != nil {
				return fd, f.X
			}
		}
	}
	return nil, nil
}

func (w *c07walker) name(s string) string {
	if a, ok := w.alias[s]; ok {
		return a
	}
	for p, a := range w.aliasPrefix {
		if strings.HasPrefix(s, p) {
			return a
		}
	}
	return s
}

// expr prints an expression with identifiers replaced by roles.
func (w *c07walker) expr(e ast.Expr, fr *c07frame) string {
	switch v := e.(type) {
	case nil:
		return ""
	case *ast.Ident:
		if c, ok := fr.locals[v.Name]; ok {
			return c
		}
		for i, p := range fr.params {
			if p == v.Name {
				if fr.parent == nil {
					if i < len(fr.roles) {
						return fr.roles[i]
					}
					return "p" + strconv.Itoa(i)
				}
				if i < len(fr.args) {
					return w.expr(fr.args[i], fr.parent)
				}
			}
		}
		if v.Name == fr.recv && fr.recv != "" {
			if fr.parent == nil {
				return "recv"
			}
			return w.expr(fr.recvArg, fr.parent)
		}
		return v.Name
	case *ast.BasicLit:
		return v.Value
	case *ast.ParenExpr:
		return "(" + w.expr(v.X, fr) + ")"
	case *ast.SelectorExpr:
		return w.expr(v.X, fr) + "." + v.Sel.Name
	case *ast.StarExpr:
		return "*" + w.expr(v.X, fr)
	case *ast.UnaryExpr:
		return v.Op.String() + w.expr(v.X, fr)
	case *ast.BinaryExpr:
		// emptiness tests in one spelling
		if s, ok := w.emptiness(v, fr); ok {
			return s
		}
		return w.expr(v.X, fr) + " " + v.Op.String() + " " + w.expr(v.Y, fr)
	case *ast.CallExpr:
		var args []string
		for _, a := range v.Args {
			args = append(args, w.expr(a, fr))
		}
		if fd, _ := w.helperDecl(v); fd != nil {
			return "helper(" + strings.Join(args, ", ") + ")"
		}
		return w.expr(v.Fun, fr) + "(" + strings.Join(args, ", ") + ")"
	case *ast.IndexExpr:
		return w.expr(v.X, fr) + "[" + w.expr(v.Index, fr) + "]"
	case *ast.SliceExpr:
		return w.expr(v.X, fr) + "[" + w.expr(v.Low, fr) + ":" + w.expr(v.High, fr) + "]"
	case *ast.KeyValueExpr:
		return w.x.src(v.Key) + ": " + w.expr(v.Value, fr)
	case *ast.CompositeLit:
		var el []string
		for _, a := range v.Elts {
			el = append(el, w.expr(a, fr))
		}
		return w.x.src(v.Type) + "{" + strings.Join(el, ", ") + "}"
	case *ast.TypeAssertExpr:
		return w.expr(v.X, fr) + ".(" + w.x.src(v.Type) + ")"
	case *ast.FuncLit:
		return "func{…}"
	}
	return w.x.src(e)
}

func (w *c07walker) emptiness(v *ast.BinaryExpr, fr *c07frame) (string, bool) {
	isLit := func(e ast.Expr, val string) bool {
		b, ok := e.(*ast.BasicLit)
		return ok && b.Value == val
	}
	lenOf := func(e ast.Expr) (ast.Expr, bool) {
		c, ok := e.(*ast.CallExpr)
		if !ok || len(c.Args) != 1 {
			return nil, false
		}
		if id, ok := c.Fun.(*ast.Ident); ok && id.Name == "len" {
			return c.Args[0], true
		}
		return nil, false
	}
	switch {
	case v.Op == token.EQL && isLit(v.Y, `""`):
		return "empty(" + w.expr(v.X, fr) + ")", true
	case v.Op == token.NEQ && isLit(v.Y, `""`):
		return "nonempty(" + w.expr(v.X, fr) + ")", true
	}
	if a, ok := lenOf(v.X); ok && isLit(v.Y, "0") {
		switch v.Op {
		case token.EQL, token.LEQ:
			return "empty(" + w.expr(a, fr) + ")", true
		case token.NEQ, token.GTR:
			return "nonempty(" + w.expr(a, fr) + ")", true
		}
	}
	return "", false
}

func c07terminates(b *ast.BlockStmt) bool {
	if b == nil || len(b.List) == 0 {
		return false
	}
	switch s := b.List[len(b.List)-1].(type) {
	case *ast.ReturnStmt, *ast.BranchStmt:
		return true
	case *ast.ExprStmt:
		if c, ok := s.X.(*ast.CallExpr); ok {
			if id, ok := c.Fun.(*ast.Ident); ok && id.Name == "panic" {
				return true
			}
		}
	}
	return false
}

// inline walks the body of a helper the call goes to; ret is the (role-printed) variable the call's value is
// stored in ("" when the value is not used).
func (w *c07walker) inline(c *ast.CallExpr, fd *ast.FuncDecl, recvArg ast.Expr, guards []string, fr *c07frame, ret string) bool {
	if fr.depth >= 3 || w.stack[fd.Name.Name] {
		return false
	}
	var args []string
	for _, a := range c.Args {
		args = append(args, w.expr(a, fr))
	}
	w.emit(guards, "enter helper("+strings.Join(args, ", ")+")")
	recv, params, _ := w.x.LocalNames(fd)
	nf := &c07frame{fd: fd, params: params, recv: recv, parent: fr, recvArg: recvArg, args: c.Args, locals: map[string]string{}, depth: fr.depth + 1}
	w.stack[fd.Name.Name] = true
	w.block(fd.Body.List, guards, nf, ret)
	delete(w.stack, fd.Name.Name)
	return true
}

func (w *c07walker) define(id *ast.Ident, canonical string, fr *c07frame) {
	if id.Name == "_" {
		return
	}
	if _, preset := fr.locals[id.Name]; preset && fr.locals[id.Name] == "handler" || fr.locals[id.Name] == "rw" {
		return
	}
	fr.locals[id.Name] = w.name(canonical)
}

// block walks statements under the given guards. ret: see inline.
func (w *c07walker) block(stmts []ast.Stmt, guards []string, fr *c07frame, ret string) {
	for i, s := range stmts {
		switch v := s.(type) {
		case *ast.BlockStmt:
			w.block(v.List, guards, fr, ret)
		case *ast.DeclStmt:
			if gd, ok := v.Decl.(*ast.GenDecl); ok && gd.Tok == token.VAR {
				for _, sp := range gd.Specs {
					vs := sp.(*ast.ValueSpec)
					for j, n := range vs.Names {
						if j < len(vs.Values) {
							rhs := w.expr(vs.Values[j], fr)
							w.define(n, "$("+rhs+")", fr)
							w.emit(guards, "store "+w.expr(n, fr)+" = "+rhs)
						} else if _, ok := fr.locals[n.Name]; !ok {
							fr.locals[n.Name] = "$var:" + w.x.src(vs.Type)
						}
					}
				}
			}
		case *ast.AssignStmt:
			w.assign(v, guards, fr)
		case *ast.ExprStmt:
			if c, ok := v.X.(*ast.CallExpr); ok {
				if fd, recvArg := w.helperDecl(c); fd != nil && w.inline(c, fd, recvArg, guards, fr, "") {
					continue
				}
				w.emit(guards, "call "+w.expr(c, fr))
			}
		case *ast.ReturnStmt:
			switch {
			case fr.parent == nil:
				w.emit(guards, "return")
			case ret != "" && len(v.Results) == 1:
				w.emit(guards, "store "+ret+" = "+w.expr(v.Results[0], fr))
			}
		case *ast.IfStmt:
			if v.Init != nil {
				w.block([]ast.Stmt{v.Init}, guards, fr, ret)
			}
			c := w.expr(v.Cond, fr)
			w.block(v.Body.List, append(append([]string(nil), guards...), c), fr, ret)
			neg := "!(" + c + ")"
			if v.Else != nil {
				w.block([]ast.Stmt{v.Else}, append(append([]string(nil), guards...), neg), fr, ret)
			}
			if c07terminates(v.Body) && v.Else == nil {
				// in a helper whose value is stored, "return a" under c and "return b" after it are the two arms
				// of an if/else; anywhere else the rest merely runs past an early return
				g := "past:" + neg
				if fr.parent != nil && ret != "" {
					g = neg
				}
				w.block(stmts[i+1:], append(append([]string(nil), guards...), g), fr, ret)
				return
			}
		case *ast.ForStmt:
			w.block(v.Body.List, append(append([]string(nil), guards...), "loop"), fr, ret)
		case *ast.RangeStmt:
			w.block(v.Body.List, append(append([]string(nil), guards...), "loop"), fr, ret)
		case *ast.DeferStmt:
			w.emit(guards, "defer "+w.expr(v.Call, fr))
		case *ast.GoStmt:
			w.emit(guards, "go "+w.expr(v.Call, fr))
		case *ast.SwitchStmt, *ast.TypeSwitchStmt, *ast.SelectStmt:
			w.emit(guards, "unnormalised "+strings.SplitN(w.x.src(s), "{", 2)[0])
		}
	}
}

func (w *c07walker) assign(v *ast.AssignStmt, guards []string, fr *c07frame) {
	if len(v.Lhs) == len(v.Rhs) {
		// the right-hand sides are evaluated before any left-hand side is (re)defined
		rhs := make([]string, len(v.Rhs))
		for i := range v.Rhs {
			rhs[i] = w.expr(v.Rhs[i], fr)
		}
		for i := range v.Lhs {
			if v.Tok == token.DEFINE {
				if id, ok := v.Lhs[i].(*ast.Ident); ok {
					if _, known := fr.locals[id.Name]; !known || (fr.locals[id.Name] != "handler" && fr.locals[id.Name] != "rw") {
						w.define(id, "$("+rhs[i]+")", fr)
					}
				}
			}
			lhs := w.expr(v.Lhs[i], fr)
			if c, ok := v.Rhs[i].(*ast.CallExpr); ok {
				if fd, recvArg := w.helperDecl(c); fd != nil && w.inline(c, fd, recvArg, guards, fr, lhs) {
					continue
				}
			}
			op := "="
			if v.Tok != token.ASSIGN && v.Tok != token.DEFINE {
				op = v.Tok.String()
			}
			w.emit(guards, "store "+lhs+" "+op+" "+rhs[i])
		}
		return
	}
	// a, b := f()
	if len(v.Rhs) == 1 {
		r := w.expr(v.Rhs[0], fr)
		for i, l := range v.Lhs {
			if v.Tok == token.DEFINE {
				if id, ok := l.(*ast.Ident); ok {
					w.define(id, "$"+strconv.Itoa(i)+"("+r+")", fr)
				}
			}
		}
		var ls []string
		for _, l := range v.Lhs {
			ls = append(ls, w.expr(l, fr))
		}
		w.emit(guards, "store "+strings.Join(ls, ", ")+" = "+r)
	}
}

// ---------------------------------------------------------------------------------------------------------
// derived facts
// ---------------------------------------------------------------------------------------------------------

var c07boundRe = regexp.MustCompile(`^status < (-?\d+) \|\| status > (-?\d+) ⊢ store status = (\S+)$`)

func c07bounds(x *X, nr []string) {
	for _, e := range nr {
		m := c07boundRe.FindStringSubmatch(e)
		if m == nil {
			continue
		}
		lo, _ := strconv.ParseInt(m[1], 10, 64)
		hi, _ := strconv.ParseInt(m[2], 10, 64)
		known := map[string]int64{"http.StatusNotFound": 404}
		dv, ok := known[m[3]]
		if !ok {
			if n, err := strconv.ParseInt(m[3], 10, 64); err == nil {
				dv, ok = n, true
			}
		}
		if !ok {
			x.fail("proxy.ServeHTTP: no-route default status %q is not a known constant", m[3])
			return
		}
		x.defInt("noRouteLo", lo)
		x.defInt("noRouteHi", hi)
		x.defInt("noRouteDefault", dv)
		return
	}
	x.fail("proxy.ServeHTTP: the bounds check of the no-route status was not recognised")
}

// c07director: the function literal given as Director of the reverse proxy, wherever it is built.
func c07director(x *X, w *c07walker) {
	found := false
	for _, f := range x.files("proxy") {
		for _, d := range f.Decls {
			fd, ok := d.(*ast.FuncDecl)
			if !ok || fd.Body == nil {
				continue
			}
			ast.Inspect(fd.Body, func(n ast.Node) bool {
				kv, ok := n.(*ast.KeyValueExpr)
				if !ok || x.src(kv.Key) != "Director" {
					return true
				}
				fl, ok := kv.Value.(*ast.FuncLit)
				if !ok || fl.Type.Params == nil || len(fl.Type.Params.List) != 1 || len(fl.Type.Params.List[0].Names) != 1 || found {
					return true
				}
				found = true
				// roles: the literal's parameter is the outgoing request, the first parameter of the enclosing
				// function is the target URL it was built for
				dw := newC07Walker(x, "proxy")
				fr := dw.topFrame(fd, []string{"turl"})
				fr.locals[fl.Type.Params.List[0].Names[0].Name] = "out"
				dw.block(fl.Body.List, nil, fr, "")
				var stores, effects []string
				for _, e := range dw.events {
					if strings.HasPrefix(e.act, "store out.") || strings.HasPrefix(e.act, "store out ") {
						stores = append(stores, c07render(e.guards, e.act))
					}
					// everything the director does to the outgoing request, guards dropped: stores and method calls
					if strings.HasPrefix(e.act, "store out.") || strings.HasPrefix(e.act, "store out ") || strings.HasPrefix(e.act, "call out.") {
						effects = append(effects, e.act)
					}
				}
				x.defStrList("directorStores", stores)
				x.defStrList("directorEffects", effects)
				return false
			})
		}
	}
	if !found {
		x.fail("proxy: no Director function literal found")
	}
}

// c07responseWriter: the wrapper ServeHTTP hands to the handler passes every WriteHeader and Write on. The wrapper
// type is found from its use (`rw := &T{…}` … `h.ServeHTTP(rw, r)`), its methods by their (interface) names.
func c07responseWriter(x *X, serve *ast.FuncDecl) {
	typ := ""
	wrapped := false
	var rwName string
	ast.Inspect(serve.Body, func(n ast.Node) bool {
		if c, ok := n.(*ast.CallExpr); ok {
			if se, ok := c.Fun.(*ast.SelectorExpr); ok && se.Sel.Name == "ServeHTTP" && len(c.Args) == 2 {
				if id, ok := c.Args[0].(*ast.Ident); ok {
					rwName = id.Name
				}
			}
		}
		return true
	})
	ast.Inspect(serve.Body, func(n ast.Node) bool {
		as, ok := n.(*ast.AssignStmt)
		if !ok || len(as.Lhs) != 1 || len(as.Rhs) != 1 {
			return true
		}
		if id, ok := as.Lhs[0].(*ast.Ident); ok && id.Name == rwName && rwName != "" {
			if u, ok := as.Rhs[0].(*ast.UnaryExpr); ok && u.Op == token.AND {
				if cl, ok := u.X.(*ast.CompositeLit); ok {
					if t, ok := cl.Type.(*ast.Ident); ok {
						typ = t.Name
						// the wrapper is built around ServeHTTP's own writer (its first parameter)
						_, params, _ := x.LocalNames(serve)
						for _, el := range cl.Elts {
							if kv, ok := el.(*ast.KeyValueExpr); ok && len(params) > 0 && x.src(kv.Value) == params[0] {
								wrapped = true
							}
						}
					}
				}
			}
		}
		return true
	})
	x.defBool("serveUsesResponseWriter", wrapped && typ != "")
	if typ == "" {
		x.fail("proxy.ServeHTTP: the writer handed to h.ServeHTTP is not a wrapper built in ServeHTTP")
		return
	}
	events := func(method string, roles []string) []string {
		fd := x.funcDecl("proxy", typ, method)
		if fd == nil || fd.Body == nil {
			return nil
		}
		w := newC07Walker(x, "proxy")
		fr := w.topFrame(fd, roles)
		w.block(fd.Body.List, nil, fr, "")
		var out []string
		for _, e := range w.events {
			if !strings.HasPrefix(e.act, "enter ") {
				out = append(out, c07render(e.guards, e.act))
			}
		}
		return out
	}
	// WriteHeader: the call on a field of the receiver with the code is unguarded; the code is recorded unguarded
	wh := events("WriteHeader", []string{"code"})
	fwd, rec := false, false
	fieldCall := regexp.MustCompile(`^call recv\.\w+\.WriteHeader\(code\)$`)
	fieldStore := regexp.MustCompile(`^store recv\.\w+ = code$`)
	codeChanged := false
	for _, e := range wh {
		// the code that is passed on is the code that was given: no store to the parameter anywhere in the method
		if strings.Contains(e, "store code ") {
			codeChanged = true
		}
		fwd = fwd || fieldCall.MatchString(e)
		rec = rec || fieldStore.MatchString(e)
	}
	fwd = fwd && !codeChanged
	x.defBool("rwWriteHeaderForwards", fwd)
	x.defBool("rwWriteHeaderRecords", rec)
	x.defStrList("rwWriteHeaderEvents", wh)
	// Write: hands its argument to a field of the receiver and returns that call's count
	wr := x.funcDecl("proxy", typ, "Write")
	ok := false
	if wr != nil && wr.Body != nil {
		_, params, _ := x.LocalNames(wr)
		var nVar string
		ast.Inspect(wr.Body, func(n ast.Node) bool {
			if as, isAs := n.(*ast.AssignStmt); isAs && len(as.Rhs) == 1 && len(as.Lhs) >= 1 {
				if c, isCall := as.Rhs[0].(*ast.CallExpr); isCall && len(c.Args) == 1 && len(params) == 1 && x.src(c.Args[0]) == params[0] {
					if se, isSel := c.Fun.(*ast.SelectorExpr); isSel && se.Sel.Name == "Write" {
						if id, isID := as.Lhs[0].(*ast.Ident); isID {
							nVar = id.Name
						}
					}
				}
			}
			if rt, isRet := n.(*ast.ReturnStmt); isRet && nVar != "" && len(rt.Results) == 2 && x.src(rt.Results[0]) == nVar {
				ok = true
			}
			if rt, isRet := n.(*ast.ReturnStmt); isRet && len(rt.Results) == 1 {
				// return rw.w.Write(b) — only without the size bookkeeping; accepted as forwarding
				if c, isCall := rt.Results[0].(*ast.CallExpr); isCall && len(c.Args) == 1 && len(params) == 1 && x.src(c.Args[0]) == params[0] {
					if se, isSel := c.Fun.(*ast.SelectorExpr); isSel && se.Sel.Name == "Write" {
						ok = true
					}
				}
			}
			return true
		})
	}
	x.defBool("rwWriteForwards", ok)
}

// ---------------------------------------------------------------------------------------------------------
// what happens TO the request before the handler gets it
// ---------------------------------------------------------------------------------------------------------

// c07root splits a selector chain rooted at an identifier: r.URL.Path -> ("r", "URL.Path"); r.Header["X"] -> ("r", "Header[]").
func c07root(e ast.Expr) (string, string) {
	switch v := e.(type) {
	case *ast.Ident:
		return v.Name, ""
	case *ast.SelectorExpr:
		r, p := c07root(v.X)
		if r == "" {
			return "", ""
		}
		if p == "" {
			return r, v.Sel.Name
		}
		return r, p + "." + v.Sel.Name
	case *ast.IndexExpr:
		r, p := c07root(v.X)
		return r, p + "[]"
	case *ast.ParenExpr:
		return c07root(v.X)
	case *ast.StarExpr:
		return c07root(v.X)
	}
	return "", ""
}

// c07touches collects what the body of fd (package dir) does to its parameter `param`, following calls that hand
// the parameter on to functions of the same package and to the functions of package trace.
func c07touches(x *X, dir string, fd *ast.FuncDecl, param string, depth int, seen map[string]bool, out map[string]bool) {
	key := dir + "." + fd.Name.Name + "/" + param
	if fd.Body == nil || depth > 4 || seen[key] {
		return
	}
	seen[key] = true
	paramOf := func(callee *ast.FuncDecl, i int) string {
		k := 0
		if callee.Type.Params == nil {
			return ""
		}
		for _, p := range callee.Type.Params.List {
			for _, n := range p.Names {
				if k == i {
					return n.Name
				}
				k++
			}
		}
		return ""
	}
	ast.Inspect(fd.Body, func(n ast.Node) bool {
		switch v := n.(type) {
		case *ast.AssignStmt:
			for _, l := range v.Lhs {
				if r, p := c07root(l); r == param && p != "" {
					out["store "+p] = true
				}
			}
		case *ast.IncDecStmt:
			if r, p := c07root(v.X); r == param && p != "" {
				out["store "+p] = true
			}
		case *ast.SelectorExpr:
			if r, p := c07root(v); r == param {
				for _, f := range []string{"Body", "Form", "PostForm", "MultipartForm", "GetBody", "Trailer"} {
					if p == f || strings.HasPrefix(p, f+".") {
						out["mention "+f] = true
					}
				}
			}
		case *ast.CallExpr:
			if r, p := c07root(v.Fun); r == param && p != "" {
				out["call "+p] = true
			}
			// the request handed on
			for i, a := range v.Args {
				id, ok := a.(*ast.Ident)
				if !ok || id.Name != param {
					continue
				}
				var callee *ast.FuncDecl
				cdir := dir
				switch f := v.Fun.(type) {
				case *ast.Ident:
					callee = x.anyFuncDecl(dir, f.Name)
				case *ast.SelectorExpr:
					if pk, ok := f.X.(*ast.Ident); ok && pk.Name == "trace" && dir != "trace" {
						cdir = "trace"
						callee = x.anyFuncDecl("trace", f.Sel.Name)
					} else if c07followMethods {
						callee = x.anyFuncDecl(dir, f.Sel.Name) // a method of the package, found by name
					}
				}
				if callee != nil && (callee.Recv == nil || c07followMethods) {
					if pn := paramOf(callee, i); pn != "" {
						c07touches(x, cdir, callee, pn, depth+1, seen, out)
					}
				}
			}
		}
		return true
	})
}

// c07fileOf: the file (relative to the repo root) that declares the package-level function `name` of package dir.
func c07fileOf(x *X, dir, name string) string {
	for _, f := range x.files(dir) {
		for _, d := range f.Decls {
			if fd, ok := d.(*ast.FuncDecl); ok && fd.Recv == nil && fd.Name.Name == name {
				return strings.TrimPrefix(strings.TrimPrefix(x.fset.Position(f.Pos()).Filename, x.repo), "/")
			}
		}
	}
	return dir + "/http_proxy.go"
}

// c07followMethods: the walk of c07touches also follows the request into methods of the same package (by name).
var c07followMethods bool

// c07gateTouch: what the stages that stand between the client's request and the handler, but live outside package
// proxy, do to the request they are handed: the lookup (route.Table.Lookup), the access gate
// (route.Target.AccessDeniedHTTP), the authorization gate (route.Target.Authorized and every implementation of
// auth.AuthScheme: each method named Authorized in package auth that takes a *http.Request). They judge the request;
// the model hands the same request on to the URL construction and the header stage.
//
//	gateCalls / gateStores / gateBodyMentions  as request* above, over all of them
//	gateWalked                                 the functions of package route the walk started from
//	gateSchemes                                the Authorized methods of package auth it covered
func c07gateTouch(x *X) {
	c07followMethods = true
	defer func() { c07followMethods = false }()
	out := map[string]bool{}
	var walked, schemes []string
	reqParam := func(fd *ast.FuncDecl) string {
		if fd == nil || fd.Type.Params == nil {
			return ""
		}
		for _, p := range fd.Type.Params.List {
			if strings.HasSuffix(x.src(p.Type), "http.Request") && len(p.Names) > 0 {
				return p.Names[0].Name
			}
		}
		return ""
	}
	start := func(dir, recv, name string) {
		fd := x.funcDecl(dir, recv, name)
		if pn := reqParam(fd); pn != "" {
			c07touches(x, dir, fd, pn, 0, map[string]bool{}, out)
			walked = append(walked, dir+"."+recv+"."+name)
		} else {
			x.fail("%s: %s.%s takes no *http.Request any more", dir, recv, name)
		}
	}
	start("route", "Table", "Lookup")
	start("route", "Target", "AccessDeniedHTTP")
	start("route", "Target", "Authorized")
	for _, f := range x.files("auth") {
		for _, d := range f.Decls {
			fd, ok := d.(*ast.FuncDecl)
			if !ok || fd.Recv == nil || fd.Body == nil || fd.Name.Name != "Authorized" {
				continue
			}
			if pn := reqParam(fd); pn != "" {
				c07touches(x, "auth", fd, pn, 0, map[string]bool{}, out)
				t := fd.Recv.List[0].Type
				if st, ok := t.(*ast.StarExpr); ok {
					t = st.X
				}
				schemes = append(schemes, "auth."+x.src(t)+".Authorized")
			}
		}
	}
	var calls, stores, mentions []string
	for k := range out {
		switch {
		case strings.HasPrefix(k, "call "):
			calls = append(calls, strings.TrimPrefix(k, "call "))
		case strings.HasPrefix(k, "store "):
			stores = append(stores, strings.TrimPrefix(k, "store "))
		default:
			mentions = append(mentions, strings.TrimPrefix(k, "mention "))
		}
	}
	x.defSortedStrList("gateCalls", calls)
	x.defSortedStrList("gateStores", stores)
	x.defSortedStrList("gateBodyMentions", mentions)
	x.defSortedStrList("gateWalked", walked)
	x.defSortedStrList("gateSchemes", schemes) // the implementations of auth.AuthScheme the walk found
}

func c07requestTouch(x *X, serve *ast.FuncDecl) {
	_, params, _ := x.LocalNames(serve)
	if len(params) != 2 {
		x.fail("proxy.ServeHTTP: expected (w, r) parameters")
		return
	}
	out := map[string]bool{}
	c07touches(x, "proxy", serve, params[1], 0, map[string]bool{}, out)
	var calls, stores, mentions []string
	for k := range out {
		switch {
		case strings.HasPrefix(k, "call "):
			calls = append(calls, strings.TrimPrefix(k, "call "))
		case strings.HasPrefix(k, "store "):
			stores = append(stores, strings.TrimPrefix(k, "store "))
		default:
			mentions = append(mentions, strings.TrimPrefix(k, "mention "))
		}
	}
	x.defSortedStrList("requestCalls", calls)
	x.defSortedStrList("requestStores", stores)
	x.defSortedStrList("requestBodyMentions", mentions)
	// did the walk reach the span-name code at all?
	reached := false
	if fd := x.anyFuncDecl("trace", "CreateSpan"); fd != nil {
		for _, c := range x.calls(serve.Body, "trace.CreateSpan") {
			reached = reached || len(c.Args) > 0
		}
	}
	x.defBool("requestTouchCoversCreateSpan", reached)
}

// ---------------------------------------------------------------------------------------------------------
// main.go: the wiring around HTTPProxy that no harness executes
// ---------------------------------------------------------------------------------------------------------

func c07mainWiring(x *X) {
	var fields, lookup []string
	found := false
	for _, f := range x.files(".") {
		for _, d := range f.Decls {
			fd, ok := d.(*ast.FuncDecl)
			if !ok || fd.Body == nil {
				continue
			}
			ast.Inspect(fd.Body, func(n ast.Node) bool {
				cl, ok := n.(*ast.CompositeLit)
				if !ok || x.src(cl.Type) != "proxy.HTTPProxy" || found {
					return true
				}
				found = true
				for _, el := range cl.Elts {
					kv, ok := el.(*ast.KeyValueExpr)
					if !ok {
						continue
					}
					if fl, isFn := kv.Value.(*ast.FuncLit); isFn && x.src(kv.Key) == "Lookup" {
						// the closure: role-named events, its parameter is `req`
						w := newC07Walker(x, ".")
						fr := &c07frame{fd: fd, locals: map[string]string{}}
						if fl.Type.Params != nil && len(fl.Type.Params.List) == 1 && len(fl.Type.Params.List[0].Names) == 1 {
							fr.locals[fl.Type.Params.List[0].Names[0].Name] = "req"
						}
						w.aliasPrefix = map[string]string{"$(route.GetTable().Lookup(": "target"}
						w.closure(fl.Body.List, nil, fr, &lookup)
						continue
					}
					fields = append(fields, x.src(kv.Key)+": "+x.src(kv.Value))
				}
				return false
			})
		}
	}
	if !found {
		x.fail("main: no proxy.HTTPProxy literal found")
	}
	x.defSortedStrList("mainProxyFields", fields)
	x.defStrList("mainLookupEvents", lookup)
	// derived: the closure returns what the table lookup gave it for this very request and stores nothing into the request
	fromTable, returnsIt := false, len(lookup) > 0
	var reqStores []string
	for _, e := range lookup {
		act := e
		if i := strings.Index(e, " ⊢ "); i >= 0 {
			act = e[i+len(" ⊢ "):]
		}
		if strings.HasPrefix(act, "store target = route.GetTable().Lookup(req,") {
			fromTable = true
		}
		if strings.HasPrefix(act, "return") && act != "return target" {
			returnsIt = false
		}
		if strings.HasPrefix(act, "store req.") || strings.HasPrefix(act, "store req ") || strings.HasPrefix(act, "store target.") || strings.HasPrefix(act, "store *target") {
			reqStores = append(reqStores, act)
		}
	}
	x.defBool("mainLookupIsTableLookup", fromTable && returnsIt)
	x.defStrList("mainLookupStores", reqStores)

	// the no-route page: a goroutine started from main runs a loop that hands what the registry delivers to noroute.SetHTML
	var watcher []string
	started := false
	var wfd *ast.FuncDecl
	for _, f := range x.files(".") {
		for _, d := range f.Decls {
			fd, ok := d.(*ast.FuncDecl)
			if !ok || fd.Body == nil {
				continue
			}
			if len(x.calls(fd.Body, "noroute.SetHTML")) > 0 {
				wfd = fd
			}
		}
	}
	if wfd == nil {
		x.fail("main: no function calls noroute.SetHTML")
	} else {
		w := newC07Walker(x, ".")
		fr := w.topFrame(wfd, nil)
		w.alias = map[string]string{"$(registry.Default.WatchNoRouteHTML())": "pages", "$(<-pages)": "next"}
		w.closure(wfd.Body.List, nil, fr, &watcher)
		for _, f := range x.files(".") {
			ast.Inspect(f, func(n ast.Node) bool {
				if g, ok := n.(*ast.GoStmt); ok {
					if id, ok := g.Call.Fun.(*ast.Ident); ok && id.Name == wfd.Name.Name {
						started = true
					}
				}
				return true
			})
		}
	}
	x.defStrList("watcherEvents", watcher)
	x.defBool("mainStartsWatcher", started)
}

// closure walks statements like block, with `continue` printed as an event and a return's value shown; the rendered
// events are appended to out.
func (w *c07walker) closure(stmts []ast.Stmt, guards []string, fr *c07frame, out *[]string) {
	for i, s := range stmts {
		switch v := s.(type) {
		case *ast.ReturnStmt:
			var rs []string
			for _, r := range v.Results {
				rs = append(rs, w.expr(r, fr))
			}
			*out = append(*out, c07render(guards, strings.TrimSpace("return "+strings.Join(rs, ", "))))
		case *ast.BranchStmt:
			*out = append(*out, c07render(guards, v.Tok.String()))
		case *ast.IfStmt:
			if v.Init != nil {
				w.closure([]ast.Stmt{v.Init}, guards, fr, out)
			}
			c := w.expr(v.Cond, fr)
			w.closure(v.Body.List, append(append([]string(nil), guards...), c), fr, out)
			if v.Else != nil {
				w.closure([]ast.Stmt{v.Else}, append(append([]string(nil), guards...), "!("+c+")"), fr, out)
			}
			if c07terminates(v.Body) && v.Else == nil {
				w.closure(stmts[i+1:], append(append([]string(nil), guards...), "past:!("+c+")"), fr, out)
				return
			}
		case *ast.BlockStmt:
			w.closure(v.List, guards, fr, out)
		case *ast.ForStmt:
			w.closure(v.Body.List, append(append([]string(nil), guards...), "loop"), fr, out)
		case *ast.RangeStmt:
			w.closure(v.Body.List, append(append([]string(nil), guards...), "loop"), fr, out)
		default:
			n := len(w.events)
			w.block([]ast.Stmt{s}, guards, fr, "")
			for _, e := range w.events[n:] {
				*out = append(*out, c07render(e.guards, e.act))
			}
		}
	}
}

// ---------------------------------------------------------------------------------------------------------
// noroute/store.go
// ---------------------------------------------------------------------------------------------------------

func c07norouteStore(x *X) {
	typ := ""
	for _, f := range x.files("noroute") {
		for _, d := range f.Decls {
			gd, ok := d.(*ast.GenDecl)
			if !ok || gd.Tok != token.VAR {
				continue
			}
			for _, sp := range gd.Specs {
				vs := sp.(*ast.ValueSpec)
				if len(vs.Names) == 1 && vs.Type != nil {
					typ = vs.Names[0].Name + " " + x.src(vs.Type)
				}
			}
		}
	}
	name := ""
	if i := strings.Index(typ, " "); i > 0 {
		name, typ = typ[:i], typ[i+1:]
	}
	x.defStr("norouteVarType", typ)
	ev := func(fn string, roles []string) []string {
		fd := x.funcDecl("noroute", "", fn)
		var out []string
		if fd == nil || fd.Body == nil {
			return out
		}
		w := newC07Walker(x, "noroute")
		w.closure(fd.Body.List, nil, w.topFrame(fd, roles), &out)
		for i := range out { // the package variable by role
			if name != "" {
				out[i] = regexp.MustCompile(`\b`+regexp.QuoteMeta(name)+`\.`).ReplaceAllString(out[i], "pagevar.")
			}
		}
		return out
	}
	x.defStrList("norouteSetEvents", ev("SetHTML", []string{"page"}))
	x.defStrList("norouteGetEvents", ev("GetHTML", nil))
}
