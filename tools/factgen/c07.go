package main

import (
	"go/ast"
	"go/token"
	"strconv"
	"strings"
)

// C07 facts: what the model of proxy/http_proxy.go ServeHTTP and proxy/http_handler.go silently relies on.
//   serveOrder        the recognised statements of ServeHTTP in source order (everything else is skipped, so
//                     an unrelated statement moving around is not an alarm)
//   noRoute*          the bounds and the default of the no-route status, the calls made in that branch
//   *Stmts            the statements of the query merge, host override, strip and prepend blocks (rendered)
//   directorFields    the fields of req.URL the director assigns, each from the same field of target
//   wsReplacesURL     the websocket case assigns r.URL = targetURL
func init() {
	register("C07", func(x *X) error {
		fd := x.funcDecl("proxy", "HTTPProxy", "ServeHTTP")
		if fd == nil || fd.Body == nil {
			return nil
		}
		var order []string
		seen := map[string]bool{}
		add := func(k string) {
			order = append(order, k)
			seen[k] = true
		}
		flat := func(b *ast.BlockStmt) []string {
			var out []string
			for _, s := range b.List {
				out = append(out, c07stmts(x, s)...)
			}
			return out
		}
		for _, st := range fd.Body.List {
			switch s := st.(type) {
			case *ast.AssignStmt:
				if len(s.Lhs) != 1 || len(s.Rhs) != 1 {
					continue
				}
				l, r := x.src(s.Lhs[0]), x.src(s.Rhs[0])
				switch {
				case l == "t" && r == "p.Lookup(r)":
					add("lookup")
				case l == "targetURL" && strings.HasPrefix(r, "&url.URL{"):
					add("url-build")
					x.defStr("urlBuild", r)
				case l == "rawPath":
					add("rawpath-init")
					x.defStr("rawPathInit", r)
				}
			case *ast.IfStmt:
				cond := x.src(s.Cond)
				switch {
				case cond == "t == nil":
					add("noroute-return")
					c07noroute(x, s.Body)
				case cond == "t.AccessDeniedHTTP(r)":
					add("access")
				case cond == "!t.Authorized(r, w, p.AuthSchemes)":
					add("auth")
				case strings.HasPrefix(cond, "t.RedirectCode != 0"):
					add("redirect")
				case strings.Contains(cond, "t.URL.RawQuery") && strings.Contains(cond, "r.URL.RawQuery"):
					add("query-merge")
					x.defStrList("queryMergeStmts", c07stmts(x, s))
				case strings.HasPrefix(cond, "t.Host =="):
					add("host-override")
					x.defStrList("hostStmts", c07stmts(x, s))
				case strings.Contains(cond, "t.StripPath"):
					add("strip")
					x.defStrList("stripStmts", c07stmts(x, s))
				case strings.Contains(cond, "t.PrependPath"):
					add("prepend")
					x.defStrList("prependStmts", c07stmts(x, s))
				case strings.Contains(cond, "rawPath"):
					add("rawpath-set")
					x.defStrList("rawPathSetStmts", c07stmts(x, s))
				case s.Init != nil && strings.Contains(x.src(s.Init), "addHeaders(r,"):
					add("addHeaders")
				}
			case *ast.SwitchStmt:
				if s.Tag == nil && len(x.calls(s, "newHTTPProxy")) > 0 {
					add("handler-choice")
					c07switch(x, s)
				}
			case *ast.ExprStmt:
				if c, ok := s.X.(*ast.CallExpr); ok && x.src(c.Fun) == "h.ServeHTTP" {
					add("serve")
				}
			}
			_ = flat
		}
		x.defStrList("serveOrder", order)
		for _, k := range []string{"lookup", "noroute-return", "url-build", "query-merge", "host-override", "strip", "prepend", "handler-choice", "serve"} {
			if !seen[k] {
				x.fail("proxy.ServeHTTP: statement %q not recognised any more", k)
			}
		}

		// the director
		nd := x.funcDecl("proxy", "", "newHTTPProxy")
		if nd != nil {
			var fields, others []string
			copies := true
			found := false
			ast.Inspect(nd, func(n ast.Node) bool {
				kv, ok := n.(*ast.KeyValueExpr)
				if !ok || x.src(kv.Key) != "Director" {
					return true
				}
				fl, ok := kv.Value.(*ast.FuncLit)
				if !ok {
					return true
				}
				found = true
				ast.Inspect(fl.Body, func(m ast.Node) bool {
					as, ok := m.(*ast.AssignStmt)
					if !ok {
						return true
					}
					for i, l := range as.Lhs {
						ls := x.src(l)
						if strings.HasPrefix(ls, "req.URL.") {
							f := strings.TrimPrefix(ls, "req.URL.")
							fields = append(fields, f)
							if i >= len(as.Rhs) || x.src(as.Rhs[i]) != "target."+f {
								copies = false
							}
						} else if strings.HasPrefix(ls, "req.") || strings.HasPrefix(ls, "*req") || ls == "req" {
							others = append(others, ls)
						}
					}
					return true
				})
				return false
			})
			if !found {
				x.fail("proxy.newHTTPProxy: Director function literal not found")
			}
			x.defStrList("directorFields", fields)
			x.defBool("directorCopiesSameField", copies)
			x.defStrList("directorOtherWrites", others)
		}
		c07responseWriter(x)
		return nil
	})
}

// c07responseWriter: the status/size wrapper passes every WriteHeader and Write on to the wrapped writer.
//   rwWriteHeaderForwards   `rw.w.WriteHeader(statusCode)` is a top-level statement of WriteHeader and nothing
//                           before it can leave the function or is conditional
//   rwWriteHeaderRecords    `rw.code = statusCode` is a top-level statement
//   rwWriteForwards         Write hands its argument to `rw.w.Write` and returns that call's results
func c07responseWriter(x *X) {
	wh := x.funcDecl("proxy", "responseWriter", "WriteHeader")
	if wh != nil && wh.Body != nil && wh.Type.Params != nil && len(wh.Type.Params.List) == 1 && len(wh.Type.Params.List[0].Names) == 1 {
		arg := wh.Type.Params.List[0].Names[0].Name
		forwards, records, clean := false, false, true
		var top []string
		for _, st := range wh.Body.List {
			top = append(top, c07stmts(x, st)...)
			switch s := st.(type) {
			case *ast.ExprStmt:
				if x.src(s.X) == "rw.w.WriteHeader("+arg+")" {
					forwards = forwards || clean
				}
			case *ast.AssignStmt:
				if len(s.Lhs) == 1 && len(s.Rhs) == 1 && x.src(s.Lhs[0]) == "rw.code" && x.src(s.Rhs[0]) == arg && s.Tok == token.ASSIGN {
					records = true
				}
			default:
				// an if/switch/return/defer/go… in front of the forwarding call could skip or alter it
				if !forwards {
					clean = false
				}
			}
		}
		x.defBool("rwWriteHeaderForwards", forwards)
		x.defBool("rwWriteHeaderRecords", records)
		x.defStrList("rwWriteHeaderStmts", top)
	} else {
		x.fail("proxy.responseWriter.WriteHeader: not found or unexpected signature")
	}
	wr := x.funcDecl("proxy", "responseWriter", "Write")
	if wr != nil && wr.Body != nil && len(wr.Body.List) > 0 {
		fw := false
		if as, ok := wr.Body.List[0].(*ast.AssignStmt); ok && len(as.Rhs) == 1 && x.src(as.Rhs[0]) == "rw.w.Write(b)" && x.src(as.Lhs[0]) == "n" {
			if rt, ok := wr.Body.List[len(wr.Body.List)-1].(*ast.ReturnStmt); ok && len(rt.Results) == 2 && x.src(rt.Results[0]) == "n" {
				fw = true
			}
		}
		x.defBool("rwWriteForwards", fw)
	} else {
		x.fail("proxy.responseWriter.Write: not found")
	}
	// ServeHTTP hands the wrapper, not the bare writer, to the handler
	fd := x.funcDecl("proxy", "HTTPProxy", "ServeHTTP")
	wrapped := false
	if fd != nil {
		for _, c := range x.calls(fd, "h.ServeHTTP") {
			if len(c.Args) == 2 && x.src(c.Args[0]) == "rw" {
				wrapped = true
			}
		}
	}
	x.defBool("serveUsesResponseWriter", wrapped)
}

// c07stmts renders a statement as a flat list: conditions as "if <cond>", "else", assignments and calls as source.
func c07stmts(x *X, s ast.Stmt) []string {
	switch v := s.(type) {
	case *ast.IfStmt:
		out := []string{"if " + x.src(v.Cond)}
		if v.Init != nil {
			out = []string{"if " + x.src(v.Init) + "; " + x.src(v.Cond)}
		}
		for _, b := range v.Body.List {
			out = append(out, c07stmts(x, b)...)
		}
		out = append(out, "end")
		if v.Else != nil {
			out = append(out, "else")
			out = append(out, c07stmts(x, v.Else)...)
		}
		return out
	case *ast.BlockStmt:
		var out []string
		for _, b := range v.List {
			out = append(out, c07stmts(x, b)...)
		}
		return append(out, "end")
	default:
		return []string{x.src(s)}
	}
}

func c07noroute(x *X, b *ast.BlockStmt) {
	var calls []string
	ast.Inspect(b, func(n ast.Node) bool {
		if c, ok := n.(*ast.CallExpr); ok {
			calls = append(calls, x.src(c.Fun))
		}
		return true
	})
	x.defStrList("noRouteCalls", calls)
	_, ret := b.List[len(b.List)-1].(*ast.ReturnStmt)
	x.defBool("noRouteEndsWithReturn", len(b.List) > 0 && ret)
	x.defStrList("noRouteStmts", func() []string {
		var out []string
		for _, s := range b.List {
			out = append(out, c07stmts(x, s)...)
		}
		return out
	}())
	// status := p.Config.NoRouteStatus; if status < LO || status > HI { status = DEFAULT }
	found := false
	for _, s := range b.List {
		ifs, ok := s.(*ast.IfStmt)
		if !ok {
			continue
		}
		be, ok := ifs.Cond.(*ast.BinaryExpr)
		if !ok || be.Op != token.LOR {
			continue
		}
		lo, ok1 := be.X.(*ast.BinaryExpr)
		hi, ok2 := be.Y.(*ast.BinaryExpr)
		if !ok1 || !ok2 || lo.Op != token.LSS || hi.Op != token.GTR || x.src(lo.X) != "status" || x.src(hi.X) != "status" {
			continue
		}
		lv, e1 := strconv.ParseInt(x.src(lo.Y), 10, 64)
		hv, e2 := strconv.ParseInt(x.src(hi.Y), 10, 64)
		if e1 != nil || e2 != nil || len(ifs.Body.List) != 1 {
			continue
		}
		as, ok := ifs.Body.List[0].(*ast.AssignStmt)
		if !ok || len(as.Lhs) != 1 || x.src(as.Lhs[0]) != "status" {
			continue
		}
		name := x.src(as.Rhs[0])
		known := map[string]int64{"http.StatusNotFound": 404}
		dv, ok := known[name]
		if !ok {
			if n, err := strconv.ParseInt(name, 10, 64); err == nil {
				dv, ok = n, true
			}
		}
		if !ok {
			x.fail("proxy.ServeHTTP: no-route default status %q is not a known constant", name)
			continue
		}
		x.defInt("noRouteLo", lv)
		x.defInt("noRouteHi", hv)
		x.defInt("noRouteDefault", dv)
		x.defStr("noRouteDefaultName", name)
		found = true
	}
	if !found {
		x.fail("proxy.ServeHTTP: the bounds check of the no-route status was not recognised")
	}
}

func c07switch(x *X, s *ast.SwitchStmt) {
	var cases []string
	ws := false
	for _, c := range s.Body.List {
		cc, ok := c.(*ast.CaseClause)
		if !ok {
			continue
		}
		if cc.List == nil {
			cases = append(cases, "default")
		} else {
			var cs []string
			for _, e := range cc.List {
				cs = append(cs, x.src(e))
			}
			cases = append(cases, strings.Join(cs, ", "))
		}
		if len(cc.List) > 0 && strings.Contains(x.src(cc.List[0]), "upgrade") {
			for _, b := range cc.Body {
				if x.src(b) == "r.URL = targetURL" {
					ws = true
				}
			}
			kind := "ws"
			if len(x.calls(cc, "newWSHandler")) == 0 {
				kind = "?"
			}
			x.defStr("wsCaseHandler", kind)
		}
	}
	x.defStrList("handlerCases", cases)
	x.defBool("wsReplacesURL", ws)
}
