package main

// Canonical, refactoring-insensitive description of a Go function as an ordered list of guarded events
// (used by the C03 extractor; see design/C03.md "Behaviour-preserving refactorings").
//
//   * receiver -> recv, i-th parameter -> p<i>, named result -> res<i>;
//   * a local that is assigned exactly once from one expression (`n := len(r.Targets)`,
//     `isTLS := req.TLS != nil`) is replaced by that expression wherever it is used (hoisting a sub-expression
//     into a local, or inlining it again, changes nothing); a local defined by a multi-value call is named after
//     the callee (`g, err := c.Get(p)` -> Get.0, Get.1); range variables are key(X) / val(X); every other local
//     is var<k> in order of first appearance;
//   * a call to an unexported function of the same package whose body is a single `return e` is replaced by
//     e with the arguments bound; a call to any other unexported same-package function that is not an ANCHOR is
//     followed: its events are emitted in place with its parameters bound to the caller's arguments, so
//     extracting or inlining a helper changes nothing; anchors (functions the facts talk about) stay calls;
//   * every event carries its guards: the conditions of the enclosing if-branches (conjunctions split), the
//     negated conditions of else-branches, and the negated conditions of earlier ifs of the same block whose
//     body always leaves the block (return / continue / break) — so `if c { … return }; rest` and
//     `if !c { rest }`, guard clauses, if/else chains and (after UseNormalizedAST) switches describe the same
//     events; guards are printed sorted; operands of == and != are printed in lexical order;
//   * comparisons have one spelling: a > b is printed as b < a, a >= b as b <= a, x <= 1 as x < 2;
//   * named constants and literal concatenations are already folded by UseNormalizedAST.

import (
	"fmt"
	"go/ast"
	"go/token"
	"sort"
	"strconv"
	"strings"
)

type cEvent struct {
	Kind   string // call | assign | store | range | return | freturn
	Callee string // for calls: last component of the callee
	Text   string
	Guards []string
}

func (e cEvent) String() string {
	g := append([]string(nil), e.Guards...)
	sort.Strings(g)
	// drop duplicates
	out := g[:0]
	for i, s := range g {
		if i == 0 || s != g[i-1] {
			out = append(out, s)
		}
	}
	if len(out) == 0 {
		return e.Kind + " " + e.Text
	}
	return e.Kind + " " + e.Text + " | " + strings.Join(out, " & ")
}

type cText struct {
	s    string
	prec int // token precedence of the top operator; 100 = atomic
}

type canon struct {
	x       *X
	dir     string
	anchors map[string]bool   // unexported same-package callees that stay calls
	alias   map[string]string // identifier (function value or callee) -> role name
	events  []cEvent
	nvar    *int
	depth   int
	stack   map[string]bool
}

// cScope is the naming of one function instance.
type cScope struct {
	ren     map[string]cText
	assigns map[string]int
	stored  map[string]bool
	params  map[string]bool
	top     map[ast.Stmt]bool // the statements of the function's outermost block
	nfunc   *int
}

func newCanon(x *X, dir string, anchors []string, alias map[string]string) *canon {
	c := &canon{x: x, dir: dir, anchors: map[string]bool{}, alias: alias, nvar: new(int), stack: map[string]bool{}}
	for _, a := range anchors {
		c.anchors[a] = true
	}
	if c.alias == nil {
		c.alias = map[string]string{}
	}
	return c
}

func c03Atom(s string) cText { return cText{s, 100} }

func c03Paren(t cText, min int) string {
	if t.prec < min {
		return "(" + t.s + ")"
	}
	return t.s
}

// classify counts assignments per identifier in body.
func c03Classify(body ast.Node, sc *cScope) {
	base := func(e ast.Expr) string {
		for {
			switch v := e.(type) {
			case *ast.IndexExpr:
				e = v.X
			case *ast.SelectorExpr:
				e = v.X
			case *ast.StarExpr:
				e = v.X
			case *ast.ParenExpr:
				e = v.X
			case *ast.Ident:
				return v.Name
			default:
				return ""
			}
		}
	}
	ast.Inspect(body, func(n ast.Node) bool {
		switch v := n.(type) {
		case *ast.AssignStmt:
			for _, l := range v.Lhs {
				if id, ok := l.(*ast.Ident); ok {
					sc.assigns[id.Name]++
					if v.Tok != token.DEFINE && v.Tok != token.ASSIGN {
						sc.assigns[id.Name]++ // x += … : not a single definition
					}
				} else if b := base(l); b != "" {
					sc.stored[b] = true
				}
			}
		case *ast.IncDecStmt:
			if b := base(v.X); b != "" {
				sc.assigns[b] += 2
			}
		case *ast.ValueSpec:
			for _, id := range v.Names {
				sc.assigns[id.Name]++
				if len(v.Values) == 0 {
					sc.assigns[id.Name]++ // declared without a value: assigned later
				}
			}
		case *ast.RangeStmt:
			for _, e := range []ast.Expr{v.Key, v.Value} {
				if id, ok := e.(*ast.Ident); ok {
					sc.assigns[id.Name] += 0
				}
			}
		case *ast.UnaryExpr:
			if v.Op == token.AND {
				if b := base(v.X); b != "" {
					sc.stored[b] = true
				}
			}
		}
		return true
	})
}

func (c *canon) scopeFor(fd *ast.FuncDecl, recv cText, args []cText) *cScope {
	sc := &cScope{ren: map[string]cText{}, assigns: map[string]int{}, stored: map[string]bool{}, params: map[string]bool{}, top: map[ast.Stmt]bool{}, nfunc: new(int)}
	if fd.Body != nil {
		for _, st := range fd.Body.List {
			sc.top[st] = true
		}
	}
	if fd.Recv != nil && len(fd.Recv.List) == 1 && len(fd.Recv.List[0].Names) == 1 {
		sc.ren[fd.Recv.List[0].Names[0].Name] = recv
	}
	i := 0
	if fd.Type.Params != nil {
		for _, p := range fd.Type.Params.List {
			for _, n := range p.Names {
				sc.params[n.Name] = true
				if args != nil && i < len(args) {
					sc.ren[n.Name] = args[i]
				} else {
					sc.ren[n.Name] = c03Atom(fmt.Sprintf("p%d", i))
				}
				i++
			}
		}
	}
	if fd.Type.Results != nil {
		j := 0
		for _, p := range fd.Type.Results.List {
			for _, n := range p.Names {
				sc.ren[n.Name] = c03Atom(fmt.Sprintf("res%d", j))
				sc.assigns[n.Name] += 2
				j++
			}
		}
	}
	if fd.Body != nil {
		c03Classify(fd.Body, sc)
	}
	return sc
}

func (c *canon) varName(sc *cScope, name string) cText {
	if t, ok := sc.ren[name]; ok {
		return t
	}
	t := c03Atom(fmt.Sprintf("var%d", *c.nvar))
	*c.nvar++
	sc.ren[name] = t
	return t
}

func c03Callee(f ast.Expr) string {
	switch v := f.(type) {
	case *ast.Ident:
		return v.Name
	case *ast.SelectorExpr:
		return v.Sel.Name
	case *ast.ParenExpr:
		return c03Callee(v.X)
	}
	return ""
}

// helperDecl returns the declaration of an unexported same-package function/method that may be looked into.
func (c *canon) helperDecl(call *ast.CallExpr) *ast.FuncDecl {
	name := ""
	switch f := call.Fun.(type) {
	case *ast.Ident:
		name = f.Name
	case *ast.SelectorExpr:
		if id, ok := f.X.(*ast.Ident); ok && (id.Obj == nil) {
			// pkg.Func: another package (identifiers of local variables have Obj set)
			return nil
		}
		name = f.Sel.Name
	}
	if name == "" || ast.IsExported(name) || c.anchors[name] || c.stack[name] || c.depth > 4 {
		return nil
	}
	return c.x.anyFuncDecl(c.dir, name)
}

func c03SingleReturn(fd *ast.FuncDecl) ast.Expr {
	if fd.Body == nil || len(fd.Body.List) != 1 {
		return nil
	}
	if r, ok := fd.Body.List[0].(*ast.ReturnStmt); ok && len(r.Results) == 1 {
		return r.Results[0]
	}
	return nil
}

func (c *canon) bind(sc *cScope, call *ast.CallExpr, fd *ast.FuncDecl) *cScope {
	recv := c03Atom("recv")
	if se, ok := call.Fun.(*ast.SelectorExpr); ok {
		recv = c.expr(sc, se.X)
	}
	var args []cText
	for _, a := range call.Args {
		args = append(args, c.expr(sc, a))
	}
	return c.scopeFor(fd, recv, args)
}

func (c *canon) expr(sc *cScope, e ast.Expr) cText {
	switch v := e.(type) {
	case nil:
		return c03Atom("")
	case *ast.Ident:
		if t, ok := sc.ren[v.Name]; ok {
			return t
		}
		if a, ok := c.alias[v.Name]; ok {
			return c03Atom(a)
		}
		return c03Atom(v.Name)
	case *ast.BasicLit:
		return c03Atom(v.Value)
	case *ast.ParenExpr:
		return c.expr(sc, v.X)
	case *ast.SelectorExpr:
		name := v.Sel.Name
		if a, ok := c.alias[name]; ok {
			name = a
		}
		return c03Atom(c03Paren(c.expr(sc, v.X), 100) + "." + name)
	case *ast.StarExpr:
		return cText{"*" + c03Paren(c.expr(sc, v.X), 100), 6}
	case *ast.UnaryExpr:
		return cText{v.Op.String() + c03Paren(c.expr(sc, v.X), 100), 6}
	case *ast.BinaryExpr:
		// one spelling per comparison: a > b is b < a, a >= b is b <= a, x <= 1 is x < 2
		switch v.Op {
		case token.GTR:
			return c.expr(sc, &ast.BinaryExpr{X: v.Y, Op: token.LSS, Y: v.X})
		case token.GEQ:
			return c.expr(sc, &ast.BinaryExpr{X: v.Y, Op: token.LEQ, Y: v.X})
		case token.LEQ:
			if lit, ok := v.Y.(*ast.BasicLit); ok && lit.Kind == token.INT {
				if n, err := strconv.Atoi(lit.Value); err == nil {
					return c.expr(sc, &ast.BinaryExpr{X: v.X, Op: token.LSS, Y: &ast.BasicLit{Kind: token.INT, Value: strconv.Itoa(n + 1)}})
				}
			}
			if lit, ok := v.X.(*ast.BasicLit); ok && lit.Kind == token.INT {
				if n, err := strconv.Atoi(lit.Value); err == nil {
					return c.expr(sc, &ast.BinaryExpr{X: &ast.BasicLit{Kind: token.INT, Value: strconv.Itoa(n - 1)}, Op: token.LSS, Y: v.Y})
				}
			}
		}
		p := v.Op.Precedence()
		l, r := c03Paren(c.expr(sc, v.X), p), c03Paren(c.expr(sc, v.Y), p+1)
		if (v.Op == token.EQL || v.Op == token.NEQ) && r < l {
			l, r = r, l
		}
		return cText{l + " " + v.Op.String() + " " + r, p}
	case *ast.IndexExpr:
		return c03Atom(c03Paren(c.expr(sc, v.X), 100) + "[" + c.expr(sc, v.Index).s + "]")
	case *ast.SliceExpr:
		s := c03Paren(c.expr(sc, v.X), 100) + "[" + c.expr(sc, v.Low).s + ":" + c.expr(sc, v.High).s
		if v.Slice3 {
			s += ":" + c.expr(sc, v.Max).s
		}
		return c03Atom(s + "]")
	case *ast.KeyValueExpr:
		return c03Atom(c.expr(sc, v.Key).s + ": " + c.expr(sc, v.Value).s)
	case *ast.CompositeLit:
		var es []string
		for _, el := range v.Elts {
			es = append(es, c.expr(sc, el).s)
		}
		ty := ""
		if v.Type != nil {
			ty = c.x.src(v.Type)
		}
		return c03Atom(ty + "{" + strings.Join(es, ", ") + "}")
	case *ast.FuncLit:
		return c03Atom("func")
	case *ast.TypeAssertExpr:
		ty := "type"
		if v.Type != nil {
			ty = c.x.src(v.Type)
		}
		return c03Atom(c03Paren(c.expr(sc, v.X), 100) + ".(" + ty + ")")
	case *ast.CallExpr:
		if fd := c.helperDecl(v); fd != nil {
			if re := c03SingleReturn(fd); re != nil {
				name := fd.Name.Name
				c.stack[name] = true
				c.depth++
				t := c.expr(c.bind(sc, v, fd), re)
				c.depth--
				delete(c.stack, name)
				return t
			}
		}
		var as []string
		for _, a := range v.Args {
			as = append(as, c.expr(sc, a).s)
		}
		s := c03Paren(c.expr(sc, v.Fun), 100) + "(" + strings.Join(as, ", ")
		if v.Ellipsis.IsValid() {
			s += "..."
		}
		return c03Atom(s + ")")
	}
	return c03Atom(c.x.src(e))
}

func c03Flip(op token.Token) (token.Token, bool) {
	switch op {
	case token.EQL:
		return token.NEQ, true
	case token.NEQ:
		return token.EQL, true
	case token.LSS:
		return token.GEQ, true
	case token.GEQ:
		return token.LSS, true
	case token.GTR:
		return token.LEQ, true
	case token.LEQ:
		return token.GTR, true
	}
	return op, false
}

// posGuards: the conjuncts that hold when e is true.
func (c *canon) posGuards(sc *cScope, e ast.Expr) []string {
	switch v := e.(type) {
	case *ast.ParenExpr:
		return c.posGuards(sc, v.X)
	case *ast.BinaryExpr:
		if v.Op == token.LAND {
			return append(c.posGuards(sc, v.X), c.posGuards(sc, v.Y)...)
		}
	case *ast.UnaryExpr:
		if v.Op == token.NOT {
			return c.negGuards(sc, v.X)
		}
	}
	return []string{c.expr(sc, e).s}
}

// negGuards: the conjuncts that hold when e is false.
func (c *canon) negGuards(sc *cScope, e ast.Expr) []string {
	switch v := e.(type) {
	case *ast.ParenExpr:
		return c.negGuards(sc, v.X)
	case *ast.UnaryExpr:
		if v.Op == token.NOT {
			return c.posGuards(sc, v.X)
		}
	case *ast.BinaryExpr:
		if v.Op == token.LOR {
			return append(c.negGuards(sc, v.X), c.negGuards(sc, v.Y)...)
		}
		if op, ok := c03Flip(v.Op); ok {
			return []string{c.expr(sc, &ast.BinaryExpr{X: v.X, Op: op, Y: v.Y}).s}
		}
	}
	return []string{"!" + c03Paren(c.expr(sc, e), 100)}
}

func (c *canon) emit(kind, callee, text string, g []string) {
	c.events = append(c.events, cEvent{Kind: kind, Callee: callee, Text: text, Guards: append([]string(nil), g...)})
}

// exprEvents emits the calls inside e in evaluation order.
func (c *canon) exprEvents(sc *cScope, e ast.Expr, g []string) {
	switch v := e.(type) {
	case nil:
		return
	case *ast.ParenExpr:
		c.exprEvents(sc, v.X, g)
	case *ast.BinaryExpr:
		c.exprEvents(sc, v.X, g)
		switch v.Op {
		case token.LAND:
			c.exprEvents(sc, v.Y, append(append([]string(nil), g...), c.posGuards(sc, v.X)...))
		case token.LOR:
			c.exprEvents(sc, v.Y, append(append([]string(nil), g...), c.negGuards(sc, v.X)...))
		default:
			c.exprEvents(sc, v.Y, g)
		}
	case *ast.UnaryExpr:
		c.exprEvents(sc, v.X, g)
	case *ast.StarExpr:
		c.exprEvents(sc, v.X, g)
	case *ast.SelectorExpr:
		c.exprEvents(sc, v.X, g)
	case *ast.IndexExpr:
		c.exprEvents(sc, v.X, g)
		c.exprEvents(sc, v.Index, g)
	case *ast.SliceExpr:
		c.exprEvents(sc, v.X, g)
		c.exprEvents(sc, v.Low, g)
		c.exprEvents(sc, v.High, g)
	case *ast.KeyValueExpr:
		c.exprEvents(sc, v.Value, g)
	case *ast.CompositeLit:
		for _, el := range v.Elts {
			c.exprEvents(sc, el, g)
		}
	case *ast.TypeAssertExpr:
		c.exprEvents(sc, v.X, g)
	case *ast.FuncLit:
		c.funcLit(sc, v, g)
	case *ast.CallExpr:
		for _, a := range v.Args {
			c.exprEvents(sc, a, g)
		}
		if se, ok := v.Fun.(*ast.SelectorExpr); ok {
			c.exprEvents(sc, se.X, g)
		}
		if fl, ok := v.Fun.(*ast.FuncLit); ok {
			c.funcLit(sc, fl, g)
			return
		}
		if fd := c.helperDecl(v); fd != nil {
			name := fd.Name.Name
			c.stack[name] = true
			c.depth++
			inner := c.bind(sc, v, fd)
			if re := c03SingleReturn(fd); re != nil {
				c.exprEvents(inner, re, g)
			} else if fd.Body != nil {
				mark := len(c.events)
				c.block(inner, fd.Body.List, g)
				// the returns of a helper that was looked into are plumbing, not events of the caller
				kept := c.events[:mark]
				for _, ev := range c.events[mark:] {
					if ev.Kind != "return" {
						kept = append(kept, ev)
					}
				}
				c.events = kept
			}
			c.depth--
			delete(c.stack, name)
			return
		}
		name := c03Callee(v.Fun)
		if a, ok := c.alias[name]; ok {
			name = a
		}
		c.emit("call", name, c.expr(sc, v).s, g)
	}
}

func (c *canon) funcLit(sc *cScope, fl *ast.FuncLit, g []string) {
	inner := &cScope{ren: map[string]cText{}, assigns: map[string]int{}, stored: map[string]bool{}, params: sc.params, top: map[ast.Stmt]bool{}, nfunc: sc.nfunc}
	for k, v := range sc.ren {
		inner.ren[k] = v
	}
	for k, v := range sc.assigns {
		inner.assigns[k] = v
	}
	for k, v := range sc.stored {
		inner.stored[k] = v
	}
	i := 0
	if fl.Type.Params != nil {
		for _, p := range fl.Type.Params.List {
			for _, n := range p.Names {
				inner.ren[n.Name] = c03Atom(fmt.Sprintf("a%d", i))
				i++
			}
		}
	}
	if fl.Type.Results != nil {
		j := 0
		for _, p := range fl.Type.Results.List {
			for _, n := range p.Names {
				inner.ren[n.Name] = c03Atom(fmt.Sprintf("fres%d", j))
				inner.assigns[n.Name] += 2
				j++
			}
		}
	}
	// (the enclosing function's classification already covers the literal's body)
	mark := len(c.events)
	c.block(inner, fl.Body.List, g)
	for k := mark; k < len(c.events); k++ {
		if c.events[k].Kind == "return" {
			c.events[k].Kind = "freturn"
		}
	}
}

func c03Terminates(l []ast.Stmt) bool {
	if len(l) == 0 {
		return false
	}
	switch v := l[len(l)-1].(type) {
	case *ast.ReturnStmt:
		return true
	case *ast.BranchStmt:
		return v.Tok == token.CONTINUE || v.Tok == token.BREAK || v.Tok == token.GOTO
	case *ast.BlockStmt:
		return c03Terminates(v.List)
	case *ast.IfStmt:
		if v.Else == nil {
			return false
		}
		t := c03Terminates(v.Body.List)
		switch e := v.Else.(type) {
		case *ast.BlockStmt:
			return t && c03Terminates(e.List)
		case *ast.IfStmt:
			return t && c03Terminates([]ast.Stmt{e})
		}
	case *ast.ExprStmt:
		if call, ok := v.X.(*ast.CallExpr); ok {
			if id, ok := call.Fun.(*ast.Ident); ok && id.Name == "panic" {
				return true
			}
		}
	}
	return false
}

func (c *canon) define(sc *cScope, name string, rhs ast.Expr, g []string, top bool) {
	if name == "_" {
		return
	}
	// a parameter that is overwritten once, unconditionally, at the top of the function (`host =
	// strings.ToLower(host)`) is the same as a fresh local; a conditional overwrite is an event
	if sc.assigns[name] == 1 && !sc.stored[name] && (!sc.params[name] || top) {
		if _, isFunc := rhs.(*ast.FuncLit); !isFunc {
			sc.ren[name] = c.expr(sc, rhs)
			return
		}
	}
	c.emit("assign", "", c.varName(sc, name).s+" = "+c.expr(sc, rhs).s, g)
}

// block walks a statement list; it returns the guards that hold for whatever follows the list (from ifs
// whose body always leaves).
func (c *canon) block(sc *cScope, stmts []ast.Stmt, g0 []string) (adds []string) {
	g := append([]string(nil), g0...)
	for _, s := range stmts {
		a := c.stmt(sc, s, g)
		g = append(g, a...)
		adds = append(adds, a...)
	}
	return adds
}

func (c *canon) stmt(sc *cScope, s ast.Stmt, g []string) (adds []string) {
	switch v := s.(type) {
	case *ast.ExprStmt:
		c.exprEvents(sc, v.X, g)
	case *ast.DeferStmt:
		c.exprEvents(sc, v.Call, g)
	case *ast.GoStmt:
		c.exprEvents(sc, v.Call, g)
	case *ast.IncDecStmt:
		c.emit("assign", "", c.expr(sc, v.X).s+v.Tok.String(), g)
	case *ast.DeclStmt:
		if gd, ok := v.Decl.(*ast.GenDecl); ok {
			for _, sp := range gd.Specs {
				if vs, ok := sp.(*ast.ValueSpec); ok {
					for i, n := range vs.Names {
						if i < len(vs.Values) {
							c.exprEvents(sc, vs.Values[i], g)
							c.define(sc, n.Name, vs.Values[i], g, sc.top[s])
						}
					}
				}
			}
		}
	case *ast.AssignStmt:
		for _, r := range v.Rhs {
			c.exprEvents(sc, r, g)
		}
		if len(v.Lhs) == len(v.Rhs) {
			for i, l := range v.Lhs {
				if id, ok := l.(*ast.Ident); ok {
					if v.Tok == token.DEFINE || v.Tok == token.ASSIGN {
						c.define(sc, id.Name, v.Rhs[i], g, sc.top[s])
					} else {
						c.emit("assign", "", c.varName(sc, id.Name).s+" "+v.Tok.String()+" "+c.expr(sc, v.Rhs[i]).s, g)
					}
				} else {
					c.exprEvents(sc, l, g)
					c.emit("store", "", c.expr(sc, l).s+" "+v.Tok.String()+" "+c.expr(sc, v.Rhs[i]).s, g)
				}
			}
		} else if len(v.Rhs) == 1 {
			src := "multi"
			switch r := v.Rhs[0].(type) {
			case *ast.CallExpr:
				src = c03Callee(r.Fun)
				if a, ok := c.alias[src]; ok {
					src = a
				}
			case *ast.IndexExpr:
				src = "index(" + c.expr(sc, r).s + ")"
			case *ast.TypeAssertExpr:
				src = "assert(" + c.expr(sc, r).s + ")"
			}
			for i, l := range v.Lhs {
				if id, ok := l.(*ast.Ident); ok && id.Name != "_" {
					if sc.assigns[id.Name] == 1 && !sc.stored[id.Name] {
						sc.ren[id.Name] = c03Atom(fmt.Sprintf("%s.%d", src, i))
					} else {
						c.emit("assign", "", fmt.Sprintf("%s = %s.%d", c.varName(sc, id.Name).s, src, i), g)
					}
				}
			}
		}
	case *ast.ReturnStmt:
		var rs []string
		for _, r := range v.Results {
			c.exprEvents(sc, r, g)
			rs = append(rs, c.expr(sc, r).s)
		}
		c.emit("return", "", strings.Join(rs, ", "), g)
	case *ast.BlockStmt:
		return c.block(sc, v.List, g)
	case *ast.LabeledStmt:
		return c.stmt(sc, v.Stmt, g)
	case *ast.IfStmt:
		// `if !x {A} else {B}` is `if x {B} else {A}`: the two branches are mutually exclusive, their order in
		// the source carries no meaning
		if eb, ok := v.Else.(*ast.BlockStmt); ok {
			cond := v.Cond
			for {
				pe, ok := cond.(*ast.ParenExpr)
				if !ok {
					break
				}
				cond = pe.X
			}
			if ue, ok := cond.(*ast.UnaryExpr); ok && ue.Op == token.NOT {
				v = &ast.IfStmt{If: v.If, Init: v.Init, Cond: ue.X, Body: eb, Else: v.Body}
			}
		}
		if v.Init != nil {
			c.stmt(sc, v.Init, g)
		}
		c.exprEvents(sc, v.Cond, g)
		pos, neg := c.posGuards(sc, v.Cond), c.negGuards(sc, v.Cond)
		thenAdds := c.block(sc, v.Body.List, append(append([]string(nil), g...), pos...))
		tThen := c03Terminates(v.Body.List)
		tElse := false
		var elseAdds []string
		if v.Else != nil {
			ge := append(append([]string(nil), g...), neg...)
			switch e := v.Else.(type) {
			case *ast.BlockStmt:
				elseAdds = c.block(sc, e.List, ge)
				tElse = c03Terminates(e.List)
			case *ast.IfStmt:
				elseAdds = c.stmt(sc, e, ge)
				tElse = c03Terminates([]ast.Stmt{e})
			}
		}
		switch {
		case tThen && !tElse:
			return append(neg, elseAdds...)
		case !tThen && tElse:
			return append(pos, thenAdds...)
		}
	case *ast.ForStmt:
		if v.Init != nil {
			c.stmt(sc, v.Init, g)
		}
		gg := g
		if v.Cond != nil {
			c.exprEvents(sc, v.Cond, g)
			gg = append(append([]string(nil), g...), c.posGuards(sc, v.Cond)...)
		}
		c.block(sc, v.Body.List, gg)
		if v.Post != nil {
			c.stmt(sc, v.Post, gg)
		}
	case *ast.RangeStmt:
		c.exprEvents(sc, v.X, g)
		xs := c.expr(sc, v.X).s
		c.emit("range", "", xs, g)
		if id, ok := v.Key.(*ast.Ident); ok && id.Name != "_" {
			sc.ren[id.Name] = c03Atom("key(" + xs + ")")
		}
		if id, ok := v.Value.(*ast.Ident); ok && id.Name != "_" {
			sc.ren[id.Name] = c03Atom("val(" + xs + ")")
		}
		c.block(sc, v.Body.List, g)
	case *ast.BranchStmt:
		// leaves the block: handled through terminatesList
	case *ast.SwitchStmt:
		// a switch that UseNormalizedAST could not rewrite: describe the branches under their case conditions
		if v.Init != nil {
			c.stmt(sc, v.Init, g)
		}
		tag := ""
		if v.Tag != nil {
			c.exprEvents(sc, v.Tag, g)
			tag = c.expr(sc, v.Tag).s + " == "
		}
		for _, cl := range v.Body.List {
			cc := cl.(*ast.CaseClause)
			var cs []string
			for _, e := range cc.List {
				cs = append(cs, tag+c.expr(sc, e).s)
			}
			gg := append([]string(nil), g...)
			if len(cs) > 0 {
				gg = append(gg, strings.Join(cs, " || "))
			} else {
				gg = append(gg, "default")
			}
			c.block(sc, cc.Body, gg)
		}
	default:
		// other statements (select, type switch, send …): calls inside, unguarded detail
		ast.Inspect(s, func(n ast.Node) bool {
			if call, ok := n.(*ast.CallExpr); ok {
				c.emit("call", c03Callee(call.Fun), c.x.src(call), g)
				return false
			}
			return true
		})
	}
	return nil
}

// describe returns the events of fd.
func (c *canon) describe(fd *ast.FuncDecl) []cEvent {
	c.events = nil
	*c.nvar = 0
	c.stack[fd.Name.Name] = true
	sc := c.scopeFor(fd, c03Atom("recv"), nil)
	if fd.Body != nil {
		c.block(sc, fd.Body.List, nil)
	}
	delete(c.stack, fd.Name.Name)
	return c.events
}

// pick renders the events that pass keep.
func c03Pick(evs []cEvent, keep func(e cEvent) bool) []string {
	out := []string{}
	for _, e := range evs {
		if keep(e) {
			out = append(out, e.String())
		}
	}
	return out
}

func c03Kinds(ks ...string) func(e cEvent) bool {
	return func(e cEvent) bool {
		for _, k := range ks {
			if e.Kind == k {
				return true
			}
			if strings.HasPrefix(k, "call:") && e.Kind == "call" && e.Callee == k[5:] {
				return true
			}
		}
		return false
	}
}
