package main

import (
	"fmt"
	"go/ast"
	"go/token"
	"regexp"
	"sort"
	"strconv"
	"strings"
)

// C20: the constants and tables the Lean model of the access logger silently depends on, and the
// call-shape facts behind "time fields are rendered in UTC", "Response is never nil", "the renderers only
// read the event".
func init() {
	register("C20", func(x *X) error {
		// ---- logger: the table of log fields, the documented list, the format constants ----
		var fieldsLit *ast.CompositeLit
		if e := x.valueSpec("logger", "fields"); e != nil {
			x.defSortedStrList("fieldNames", x.mapKeys(e))
			fieldsLit, _ = e.(*ast.CompositeLit)
		}
		x.defStrList("docFields", c20DocFields(x))
		for _, c := range []string{"CommonFormat", "CombinedFormat"} {
			if e := x.valueSpec("logger", c); e != nil {
				if s, ok := x.strLit(e); ok {
					x.defStr(c, s)
				} else {
					x.fail("logger.%s is not a string literal", c)
				}
			}
		}
		if e := x.valueSpec("logger", "shortMonthNames"); e != nil {
			x.defStrList("shortMonthNames", c20StrElems(x, e))
		}

		// ---- atoi: scratch array size and the pad arguments at its call sites ----
		if fd := x.funcDecl("logger", "", "atoi"); fd != nil {
			x.defNat("atoiBufLen", c20ArrayLen(x, fd, "d"))
		}
		pads := map[uint64]bool{}
		for _, f := range x.files("logger") {
			for _, c := range x.calls(f, "atoi") {
				if len(c.Args) != 3 {
					x.fail("atoi call with %d arguments", len(c.Args))
					continue
				}
				lit, ok := c.Args[2].(*ast.BasicLit)
				if !ok || lit.Kind != token.INT {
					x.fail("atoi pad argument is not an integer literal: %s", x.src(c))
					continue
				}
				v, _ := strconv.ParseUint(lit.Value, 0, 64)
				pads[v] = true
			}
		}
		var padList []uint64
		for p := range pads {
			padList = append(padList, p)
		}
		sort.Slice(padList, func(i, j int) bool { return padList[i] < padList[j] })
		x.defRaw("def atoiPads : List Nat := " + c20NatList(padList))

		// ---- the field functions: where the calendar fields come from; writes to the event ----
		calendar := map[string]bool{"Year": true, "Month": true, "Day": true, "Hour": true, "Minute": true, "Second": true, "Nanosecond": true}
		var counts []string
		var notUTC, eventWrites, endUses []string
		if fieldsLit != nil {
			for _, el := range fieldsLit.Elts {
				kv, ok := el.(*ast.KeyValueExpr)
				if !ok {
					continue
				}
				name, _ := x.strLit(kv.Key)
				fn, ok := kv.Value.(*ast.FuncLit)
				if !ok {
					x.fail("field %s is not a function literal", name)
					continue
				}
				// local variables bound to e.End.UTC()
				utcVars := map[string]bool{}
				ast.Inspect(fn, func(n ast.Node) bool {
					if as, ok := n.(*ast.AssignStmt); ok && len(as.Lhs) == 1 && len(as.Rhs) == 1 {
						if id, ok := as.Lhs[0].(*ast.Ident); ok {
							if x.src(as.Rhs[0]) == "e.End.UTC()" {
								utcVars[id.Name] = true
							} else {
								delete(utcVars, id.Name)
							}
						}
					}
					return true
				})
				n := 0
				ast.Inspect(fn, func(nd ast.Node) bool {
					switch v := nd.(type) {
					case *ast.CallExpr:
						if sel, ok := v.Fun.(*ast.SelectorExpr); ok {
							recv := x.src(sel.X)
							if calendar[sel.Sel.Name] {
								n++
								id, isID := sel.X.(*ast.Ident)
								if !(recv == "e.End.UTC()" || (isID && utcVars[id.Name])) {
									notUTC = append(notUTC, name+": "+x.src(v))
								}
							}
							if recv == "e.End" {
								endUses = append(endUses, sel.Sel.Name)
							}
						}
					case *ast.AssignStmt:
						for _, l := range v.Lhs {
							if c20RootedAt(l, "e") {
								eventWrites = append(eventWrites, name+": "+x.src(v))
							}
						}
					case *ast.IncDecStmt:
						if c20RootedAt(v.X, "e") {
							eventWrites = append(eventWrites, name+": "+x.src(v))
						}
					}
					return true
				})
				if strings.HasPrefix(name, "$time_") && !strings.HasPrefix(name, "$time_unix") {
					counts = append(counts, fmt.Sprintf("(%s, %d)", leanStr(name), n))
				} else if n > 0 {
					notUTC = append(notUTC, name+": calendar accessor outside the time fields")
				}
			}
		}
		sort.Strings(counts)
		x.defRaw("/-- per wall-clock time field: number of calendar accessor calls (Year … Nanosecond) in its renderer -/\ndef timeFieldAccessorCalls : List (String × Nat) := [" + strings.Join(counts, ", ") + "]")
		x.defStrList("calendarAccessorsNotOnUTC", notUTC)
		sort.Strings(endUses)
		x.defStrList("methodsCalledOnEnd", c20Uniq(endUses))
		x.defStrList("rendererWritesToEvent", eventWrites)

		// pattern.write: the early return on an empty buffer (D26) and the single newline
		if fd := x.funcDecl("logger", "pattern", "write"); fd != nil {
			skip := false
			nl := 0
			ast.Inspect(fd, func(n ast.Node) bool {
				if is, ok := n.(*ast.IfStmt); ok && x.src(is.Cond) == "b.Len() == 0" && len(is.Body.List) == 1 {
					if _, ok := is.Body.List[0].(*ast.ReturnStmt); ok {
						skip = true
					}
				}
				if c, ok := n.(*ast.CallExpr); ok && x.src(c) == `b.WriteRune('\n')` {
					nl++
				}
				return true
			})
			x.defBool("writeReturnsEarlyOnEmptyBuffer", skip)
			x.defNat("writeNewlineCalls", uint64(nl))
		}

		// ---- Logger.Log: order of pool.Get / render / Lock / Write / Unlock / pool.Put; the logger's state ----
		if fd := x.funcDecl("logger", "logger", "Log"); fd != nil {
			var calls []string
			writeArg := ""
			deferred := false
			ast.Inspect(fd.Body, func(n ast.Node) bool {
				switch v := n.(type) {
				case *ast.DeferStmt, *ast.GoStmt:
					deferred = true
				case *ast.CallExpr:
					calls = append(calls, x.src(v.Fun))
					if x.src(v.Fun) == "l.w.Write" && len(v.Args) == 1 {
						writeArg = x.src(v.Args[0])
					}
				}
				return true
			})
			x.defStrList("logCalls", calls)
			x.defStr("logWriteArg", writeArg)
			x.defBool("logUsesDeferOrGo", deferred)
		}
		{
			var fieldsOf []string
			for _, f := range x.files("logger") {
				ast.Inspect(f, func(n ast.Node) bool {
					ts, ok := n.(*ast.TypeSpec)
					if !ok || ts.Name.Name != "logger" {
						return true
					}
					if st, ok := ts.Type.(*ast.StructType); ok {
						for _, fl := range st.Fields.List {
							for _, nm := range fl.Names {
								fieldsOf = append(fieldsOf, nm.Name+" "+x.src(fl.Type))
							}
							if len(fl.Names) == 0 {
								fieldsOf = append(fieldsOf, x.src(fl.Type))
							}
						}
					}
					return true
				})
			}
			if len(fieldsOf) == 0 {
				x.fail("logger: struct type logger not found")
			}
			x.defStrList("loggerStructFields", fieldsOf)
			if e := x.valueSpec("logger", "pool"); e != nil {
				t := x.src(e)
				if cl, ok := e.(*ast.CompositeLit); ok {
					t = x.src(cl.Type)
				}
				x.defStr("poolType", t)
			}
		}

		// ---- the call site in ServeHTTP ----
		site := map[string]string{}
		for _, f := range x.files("proxy") {
			ast.Inspect(f, func(n ast.Node) bool {
				cl, ok := n.(*ast.CompositeLit)
				if !ok || x.src(cl.Type) != "logger.Event" {
					return true
				}
				for _, el := range cl.Elts {
					if kv, ok := el.(*ast.KeyValueExpr); ok {
						v := x.src(kv.Value)
						if u, ok := kv.Value.(*ast.UnaryExpr); ok && u.Op == token.AND {
							if inner, ok := u.X.(*ast.CompositeLit); ok {
								v = "&" + x.src(inner.Type) + "{…}"
							}
						}
						site[x.src(kv.Key)] = v
					}
				}
				return true
			})
		}
		if len(site) == 0 {
			x.fail("no logger.Event literal found in package proxy")
		}
		var keys []string
		for k := range site {
			keys = append(keys, k)
		}
		sort.Strings(keys)
		var pairs []string
		for _, k := range keys {
			pairs = append(pairs, fmt.Sprintf("(%s, %s)", leanStr(k), leanStr(site[k])))
		}
		x.defRaw("/-- the `logger.Event{…}` literal handed to `Logger.Log` in proxy/http_proxy.go: field ↦ expression -/\ndef eventSite : List (String × String) := [" + strings.Join(pairs, ", ") + "]")

		// ---- proxy/http_headers.go ----
		if e := x.valueSpec("proxy", "digit16"); e != nil {
			s, ok := "", false
			if c, isCall := e.(*ast.CallExpr); isCall && len(c.Args) == 1 && x.src(c.Fun) == "[]byte" {
				s, ok = x.strLit(c.Args[0])
			}
			if !ok {
				x.fail("proxy.digit16 is not []byte(\"…\")")
			}
			x.defStr("digit16", s)
		}
		if fd := x.funcDecl("proxy", "", "i32toa"); fd != nil {
			x.defNat("i32toaBufLen", c20ArrayLen(x, fd, "buf"))
		}
		if fd := x.funcDecl("proxy", "", "uint16base16"); fd != nil {
			// b[k] = digit16[n&MASK>>SHIFT] : (k, mask, shift)
			var trip []string
			ast.Inspect(fd, func(n ast.Node) bool {
				as, ok := n.(*ast.AssignStmt)
				if !ok || len(as.Lhs) != 1 || len(as.Rhs) != 1 {
					return true
				}
				li, ok1 := as.Lhs[0].(*ast.IndexExpr)
				ri, ok2 := as.Rhs[0].(*ast.IndexExpr)
				if !ok1 || !ok2 || x.src(ri.X) != "digit16" {
					return true
				}
				k, _ := strconv.ParseUint(x.src(li.Index), 0, 64)
				mask, shift := uint64(0), uint64(0)
				idx := ri.Index
				if be, ok := idx.(*ast.BinaryExpr); ok && be.Op == token.SHR {
					shift, _ = strconv.ParseUint(x.src(be.Y), 0, 64)
					idx = be.X
				}
				if be, ok := idx.(*ast.BinaryExpr); ok && be.Op == token.AND && x.src(be.X) == "n" {
					mask, _ = strconv.ParseUint(x.src(be.Y), 0, 64)
				} else {
					x.fail("uint16base16: unrecognised index expression %s", x.src(ri.Index))
				}
				trip = append(trip, fmt.Sprintf("(%d, %d, %d)", k, mask, shift))
				return true
			})
			sort.Strings(trip)
			x.defRaw("/-- uint16base16: (position in \"0x0000\", mask, shift) of each digit; Go parses `n&m>>s` as `(n&m)>>s` -/\ndef uint16Digits : List (Nat × Nat × Nat) := [" + strings.Join(trip, ", ") + "]")
			if e := c20FirstStrArg(x, fd); e != "" {
				x.defStr("uint16Template", e)
			}
		}

		// ---- uuid/format.go ----
		if e := x.valueSpec("uuid", "halfbyte2hexchar"); e != nil {
			x.defRaw("def halfbyte2hexchar : List Nat := " + c20NatList(c20IntElems(x, e)))
		}
		if fd := x.funcDecl("uuid", "", "ToString"); fd != nil {
			var idx []uint64
			var dashes []uint64
			ast.Inspect(fd, func(n ast.Node) bool {
				switch v := n.(type) {
				case *ast.RangeStmt:
					idx = c20IntElems(x, v.X)
				case *ast.AssignStmt:
					if len(v.Lhs) == 1 && len(v.Rhs) == 1 {
						if ie, ok := v.Lhs[0].(*ast.IndexExpr); ok && x.src(ie.X) == "b" && x.src(v.Rhs[0]) == "'-'" {
							k, err := strconv.ParseUint(x.src(ie.Index), 0, 64)
							if err != nil {
								x.fail("uuid.ToString: dash position is not a literal: %s", x.src(v))
							}
							dashes = append(dashes, k)
						}
					}
				}
				return true
			})
			x.defRaw("def uuidIdx : List Nat := " + c20NatList(idx))
			x.defRaw("def uuidDashes : List Nat := " + c20NatList(dashes))
			x.defNat("uuidBufLen", c20ArrayLen(x, fd, "b"))
		}
		return nil
	})
}

var c20DocLine = regexp.MustCompile(`^\s*(\$[A-Za-z0-9_.<>-]+)\s+-\s`)

// c20DocFields: the field names listed in the package comment of logger/logger.go, in order.
func c20DocFields(x *X) []string {
	var out []string
	for _, f := range x.files("logger") {
		if f.Doc == nil {
			continue
		}
		for _, l := range strings.Split(f.Doc.Text(), "\n") {
			if m := c20DocLine.FindStringSubmatch(l); m != nil {
				out = append(out, m[1])
			}
		}
	}
	if len(out) == 0 {
		x.fail("no documented log fields found in the package comment of logger")
	}
	return out
}

func c20RootedAt(e ast.Expr, name string) bool {
	for {
		switch v := e.(type) {
		case *ast.SelectorExpr:
			e = v.X
		case *ast.IndexExpr:
			e = v.X
		case *ast.StarExpr:
			e = v.X
		case *ast.ParenExpr:
			e = v.X
		case *ast.Ident:
			return v.Name == name
		default:
			return false
		}
	}
}

func c20StrElems(x *X, e ast.Expr) []string {
	cl, ok := e.(*ast.CompositeLit)
	if !ok {
		x.fail("not a composite literal: %s", x.src(e))
		return nil
	}
	var out []string
	for _, el := range cl.Elts {
		s, ok := x.strLit(el)
		if !ok {
			x.fail("not a string literal: %s", x.src(el))
		}
		out = append(out, s)
	}
	return out
}

func c20IntElems(x *X, e ast.Expr) []uint64 {
	cl, ok := e.(*ast.CompositeLit)
	if !ok {
		x.fail("not a composite literal: %s", x.src(e))
		return nil
	}
	var out []uint64
	for _, el := range cl.Elts {
		v, err := strconv.ParseUint(x.src(el), 0, 64)
		if err != nil {
			x.fail("not an integer literal: %s", x.src(el))
		}
		out = append(out, v)
	}
	return out
}

func c20NatList(vs []uint64) string {
	s := make([]string, len(vs))
	for i, v := range vs {
		s[i] = strconv.FormatUint(v, 10)
	}
	return "[" + strings.Join(s, ", ") + "]"
}

func c20Uniq(xs []string) []string {
	var out []string
	for i, s := range xs {
		if i == 0 || xs[i-1] != s {
			out = append(out, s)
		}
	}
	return out
}

// c20ArrayLen: length N of the local `var name [N]byte` / `name := [N]byte{}` in fd.
func c20ArrayLen(x *X, fd *ast.FuncDecl, name string) uint64 {
	var n uint64
	found := false
	arr := func(t ast.Expr) {
		if at, ok := t.(*ast.ArrayType); ok && at.Len != nil {
			if v, err := strconv.ParseUint(x.src(at.Len), 0, 64); err == nil {
				n, found = v, true
			}
		}
	}
	ast.Inspect(fd, func(nd ast.Node) bool {
		switch v := nd.(type) {
		case *ast.ValueSpec:
			for _, id := range v.Names {
				if id.Name == name && v.Type != nil {
					arr(v.Type)
				}
			}
		case *ast.AssignStmt:
			if len(v.Lhs) == 1 && len(v.Rhs) == 1 && v.Tok == token.DEFINE {
				if id, ok := v.Lhs[0].(*ast.Ident); ok && id.Name == name {
					if cl, ok := v.Rhs[0].(*ast.CompositeLit); ok {
						arr(cl.Type)
					}
				}
			}
		}
		return true
	})
	if !found {
		x.fail("%s: no fixed-size array %q", fd.Name.Name, name)
	}
	return n
}

// c20FirstStrArg: the string inside the first []byte("…") conversion in fd.
func c20FirstStrArg(x *X, fd *ast.FuncDecl) string {
	out := ""
	ast.Inspect(fd, func(n ast.Node) bool {
		if c, ok := n.(*ast.CallExpr); ok && out == "" && x.src(c.Fun) == "[]byte" && len(c.Args) == 1 {
			if s, ok := x.strLit(c.Args[0]); ok {
				out = s
			}
		}
		return true
	})
	return out
}
