package main

import (
	"fmt"
	"go/ast"
	"go/token"
	"regexp"
	"sort"
	"strconv"
	"strings"
)

// C20: the constants and tables the Lean model of the access logger depends on, and the call-shape facts
// behind "time fields are rendered in UTC", "Response is never nil", "the renderers only read the event",
// "the pooled buffer is put back after the write".
//
// The facts are about MEANING, not spelling (see normalize.go): package constants are inlined, switches are
// if-chains, calls into unexported same-package helpers are followed, variables are identified by role
// (i-th parameter, "assigned from e.End.UTC()", "the table indexed here", "the fixed-size byte array of this
// function"), and only callee / method / field names and standard-library type names are emitted. The only
// unexported names looked up by spelling are those the hooks in verif_c20.go reference themselves (fields,
// atoi, lex, parse, write, i32toa, uint16base16): renaming one of them breaks the harness build anyway.
func init() {
	register("C20", func(x *X) error {
		x.UseNormalizedAST()

		// ---- the hand-optimised formatters TRANSLATED to Lean (xlate.go): the model regenerated from the source on
		// every run; Props/C20Xlate.lean proves them equal to the hand-written model, the driver runs them on every case.
		// Fuel (one expression per `for` loop, source order) is proved sufficient, never assumed: running out of it is a
		// panic value and the equalities cover panics.
		xlateEmitFiles(x, []xlFileSpec{
			{"proxy/http_headers.go", []xlSpec{
				{"", "uint16base16", "XUint16", nil, []string{"p0:UInt16:0"}, "Bytes"},
				// the digit loop of i32toa runs at most 10 times (an int32 has at most 10 decimal digits)
				{"", "i32toa", "XI32toa", []string{"11"}, []string{"p0:Int:0"}, "Bytes"},
			}},
			{"uuid/format.go", []xlSpec{
				{"", "ToString", "XUuid", nil, []string{"p0:Bytes:[]"}, "Bytes"},
			}},
			{"logger/pattern.go", []xlSpec{
				{"", "hostport", "XHostport", nil, []string{"p0:Bytes:[]"}, "(Bytes × Bytes)"},
				// digit loop: at most 19 digits; padding loop: at most 128 stores before the bounds check panics
				{"", "atoi", "XAtoi", []string{"20", "130"}, []string{"p0:Bytes:[]", "p1:Int:0", "p2:Int:0"}, "Unit"},
				// the format lexer: a `range` loop over the runes (no fuel), a closure that is a pure predicate
				{"", "lex", "XLex", nil, []string{"p0:(List Int):[]"}, "(Int × Int)"},
			}},
		})

		// Extraction problems inside a soft section concern change detectors only (Props/C20Pins.lean): they are
		// reported as `pinNotes`, not as a failure of the extractor.
		var pinNotes []string
		soft := func(f func()) {
			n := len(x.errs)
			f()
			pinNotes = append(pinNotes, x.errs[n:]...)
			x.errs = x.errs[:n]
		}

		// ---- logger: the table of log fields, the documented list, the format constants ----
		var fieldsLit *ast.CompositeLit
		if e := x.valueSpec("logger", "fields"); e != nil {
			x.defSortedStrList("fieldNames", x.mapKeys(e))
			fieldsLit, _ = e.(*ast.CompositeLit)
		}
		x.defStrList("docFields", c20DocFields(x))
		soft(func() {
			for _, c := range []string{"CommonFormat", "CombinedFormat"} {
				if e := x.valueSpec("logger", c); e != nil {
					if s, ok := x.strLit(e); ok {
						x.defStr(c, s)
					} else {
						x.fail("logger.%s is not a string literal", c)
					}
				}
			}
		})

		// ---- atoi: scratch array size and the pad arguments at its call sites ----
		soft(func() {
			if fd := x.funcDecl("logger", "", "atoi"); fd != nil {
				x.defNat("atoiBufLen", c20ByteArrayLen(x, "logger", fd))
			}
			pads := map[uint64]bool{}
			for _, f := range x.files("logger") {
				for _, c := range x.calls(f, "atoi") {
					if len(c.Args) != 3 {
						x.fail("atoi call with %d arguments", len(c.Args))
						continue
					}
					v, ok := c20ConstInt(x, "logger", c.Args[2])
					if !ok {
						x.fail("atoi pad argument is not an integer constant: %s", x.src(c))
						continue
					}
					pads[v] = true
				}
			}
			var padList []uint64
			for p := range pads {
				padList = append(padList, p)
			}
			sort.Slice(padList, func(i, j int) bool { return padList[i] < padList[j] })
			x.defRaw("def atoiPads : List Nat := " + c20NatList(padList))
		})

		// ---- the field functions: where the calendar fields come from; writes to the event ----
		tw := &c20TimeWalk{x: x, dir: "logger"}
		var counts []string
		if fieldsLit != nil {
			for _, el := range fieldsLit.Elts {
				kv, ok := el.(*ast.KeyValueExpr)
				if !ok {
					continue
				}
				name, _ := x.strLit(kv.Key)
				fn, ok := kv.Value.(*ast.FuncLit)
				if !ok {
					x.fail("field %s is not a function literal", name)
					continue
				}
				// role: the event is the last parameter of a field function
				env := c20Env{event: map[string]bool{}, end: map[string]bool{}, utc: map[string]bool{}}
				if ps := c20ParamNames(fn.Type); len(ps) > 0 {
					env.event[ps[len(ps)-1]] = true
				}
				tw.field, tw.n = name, 0
				tw.walk(fn.Body, env, 0)
				if strings.HasPrefix(name, "$time_") && !strings.HasPrefix(name, "$time_unix") {
					counts = append(counts, fmt.Sprintf("(%s, %d)", leanStr(name), tw.n))
				} else if tw.n > 0 {
					tw.notUTC = append(tw.notUTC, name+": location-dependent time method outside the wall-clock fields")
				}
			}
		}
		sort.Strings(counts)
		x.defRaw("/-- per wall-clock time field: number of location-dependent time.Time method calls (Year … Nanosecond,\nDate, Clock, Format, …) reached from its renderer, helpers included -/\ndef timeFieldAccessorCalls : List (String × Nat) := [" + strings.Join(counts, ", ") + "]")
		x.defStrList("calendarAccessorsNotOnUTC", tw.notUTC)
		sort.Strings(tw.endUses)
		x.defStrList("methodsCalledOnEnd", c20Uniq(tw.endUses))
		x.defStrList("rendererWritesToEvent", tw.eventWrites)
		soft(func() {
			if tw.months != "" {
				if e := x.valueSpec("logger", tw.months); e != nil {
					x.defStrList("shortMonthNames", c20StrElems(x, e))
				}
			} else {
				x.fail("logger: no month-name table ([]string indexed by a wall-clock renderer) found")
			}
		})

		// pattern.write: no newline for an empty buffer (D26) and the single newline call, in either form:
		// `if buf.Len() == 0 { return }; newline` or `if buf.Len() != 0 { newline }`
		soft(func() {
			fd := x.anyFuncDecl("logger", "write")
			if fd == nil {
				x.fail("logger: method write not found")
				return
			}
			skip := false
			nl := 0
			buf := ""
			if ps := c20ParamNames(fd.Type); len(ps) > 0 {
				buf = ps[0] // role: the buffer is the first parameter
			}
			isNewline := func(n ast.Node) bool {
				c, ok := n.(*ast.CallExpr)
				if !ok || len(c.Args) != 1 {
					return false
				}
				sel, ok := c.Fun.(*ast.SelectorExpr)
				if !ok {
					return false
				}
				switch sel.Sel.Name {
				case "WriteRune", "WriteByte", "WriteString":
					s, ok := x.strLit(c.Args[0])
					return ok && s == "\n"
				}
				return false
			}
			x.WalkInlined("logger", fd, func(n ast.Node) bool {
				if is, ok := n.(*ast.IfStmt); ok && is.Else == nil {
					if len(is.Body.List) == 1 {
						if _, ok := is.Body.List[0].(*ast.ReturnStmt); ok && c20IsLenZero(is.Cond, buf) {
							skip = true
						}
					}
					if c20IsLenNonZero(is.Cond, buf) {
						guarded := false
						ast.Inspect(is.Body, func(k ast.Node) bool { guarded = guarded || isNewline(k); return true })
						skip = skip || guarded
					}
				}
				if isNewline(n) {
					nl++
				}
				return true
			})
			x.defBool("writeSkipsNewlineOnEmptyBuffer", skip)
			x.defNat("writeNewlineCalls", uint64(nl))
		})

		// ---- Logger.Log: order of Pool.Get / render / Lock / Write / Unlock / Pool.Put; the logger's state ----
		poolVars := map[string]bool{}
		for _, f := range x.files("logger") {
			for _, d := range f.Decls {
				gd, ok := d.(*ast.GenDecl)
				if !ok || gd.Tok != token.VAR {
					continue
				}
				for _, sp := range gd.Specs {
					vs := sp.(*ast.ValueSpec)
					for i, n := range vs.Names {
						t := ""
						if vs.Type != nil {
							t = x.src(vs.Type)
						} else if i < len(vs.Values) {
							if cl, ok := vs.Values[i].(*ast.CompositeLit); ok {
								t = x.src(cl.Type)
							}
						}
						if t == "sync.Pool" {
							poolVars[n.Name] = true
						}
					}
				}
			}
		}
		x.defNat("syncPoolVars", uint64(len(poolVars)))
		var logFd *ast.FuncDecl
		for _, f := range x.files("logger") {
			for _, d := range f.Decls {
				if fd, ok := d.(*ast.FuncDecl); ok && fd.Name.Name == "Log" && fd.Recv != nil && fd.Body != nil && len(fd.Body.List) > 0 {
					if logFd != nil {
						x.fail("logger: more than one Log method with a body")
					}
					logFd = fd
				}
			}
		}
		if logFd == nil {
			x.fail("logger: no Log method with a body")
		} else {
			// events by method / callee name only; Get and Put count when the receiver is a package-level sync.Pool.
			// Calls are taken in evaluation order (arguments before the call, then the body of an unexported
			// same-package callee with its parameters bound to the arguments), so extracting a helper or a method
			// (getBuffer, emit) leaves the list as it is.
			lw := &c20LogWalk{x: x, dir: "logger", poolVars: poolVars, evIdx: map[*ast.CallExpr]int{}, stack: map[string]bool{}}
			lw.walk(logFd, map[string]int{}, 0)
			calls, writeArg, deferred := lw.calls, lw.writeArg, lw.deferred
			x.defStrList("logCalls", calls)
			x.defStr("logWriteArg", writeArg)
			x.defBool("logUsesDeferOrGo", deferred)
			// the receiver's struct: standard-library field types and the number of fields
			var std []string
			nf := 0
			if rt := c20RecvTypeName(logFd); rt != "" {
				for _, f := range x.files("logger") {
					ast.Inspect(f, func(n ast.Node) bool {
						ts, ok := n.(*ast.TypeSpec)
						if !ok || ts.Name.Name != rt {
							return true
						}
						if st, ok := ts.Type.(*ast.StructType); ok {
							for _, fl := range st.Fields.List {
								k := len(fl.Names)
								if k == 0 {
									k = 1
								}
								nf += k
								if t := x.src(fl.Type); strings.Contains(t, ".") {
									for i := 0; i < k; i++ {
										std = append(std, t)
									}
								}
							}
						}
						return true
					})
				}
			}
			sort.Strings(std)
			x.defStrList("loggerStdFieldTypes", std)
			x.defNat("loggerFieldCount", uint64(nf))
		}

		// ---- the call site in ServeHTTP ----
		found := false
		for _, f := range x.files("proxy") {
			for _, d := range f.Decls {
				fd, ok := d.(*ast.FuncDecl)
				if !ok || fd.Body == nil {
					continue
				}
				ast.Inspect(fd.Body, func(n ast.Node) bool {
					cl, ok := n.(*ast.CompositeLit)
					if !ok || x.src(cl.Type) != "logger.Event" {
						return true
					}
					found = true
					site := map[string]ast.Expr{}
					for _, el := range cl.Elts {
						if kv, ok := el.(*ast.KeyValueExpr); ok {
							site[x.src(kv.Key)] = kv.Value
						}
					}
					// Response: the address of an http.Response literal (never nil), written in place or through a
					// local that is assigned exactly once, from such a literal
					respLitOf := func(e ast.Expr) *ast.CompositeLit {
						if u, ok := e.(*ast.UnaryExpr); ok && u.Op == token.AND {
							if inner, ok := u.X.(*ast.CompositeLit); ok && x.src(inner.Type) == "http.Response" {
								return inner
							}
						}
						return nil
					}
					resp := respLitOf(site["Response"])
					if id, ok := site["Response"].(*ast.Ident); ok && resp == nil {
						assigns := 0
						ast.Inspect(fd.Body, func(k ast.Node) bool {
							if as, ok := k.(*ast.AssignStmt); ok {
								for i, l := range as.Lhs {
									if li, ok := l.(*ast.Ident); ok && li.Name == id.Name {
										assigns++
										if len(as.Lhs) == len(as.Rhs) {
											resp = respLitOf(as.Rhs[i])
										}
									}
								}
							}
							return true
						})
						if assigns != 1 {
							resp = nil
						}
					}
					respLit := resp != nil
					// StatusCode / ContentLength of that literal: fields of one and the same variable, and that
					// variable is the ResponseWriter handed to the handler (`h.ServeHTTP(rw, r)`)
					fromWriter := false
					if resp != nil {
						vals := map[string]ast.Expr{}
						for _, el := range resp.Elts {
							if kv, ok := el.(*ast.KeyValueExpr); ok {
								vals[x.src(kv.Key)] = kv.Value
							}
						}
						root := func(e ast.Expr) string {
							name := ""
							ast.Inspect(e, func(k ast.Node) bool {
								if se, ok := k.(*ast.SelectorExpr); ok {
									if id, ok := se.X.(*ast.Ident); ok && name == "" {
										name = id.Name
									}
								}
								return true
							})
							return name
						}
						if vals["StatusCode"] != nil && vals["ContentLength"] != nil {
							a, b := root(vals["StatusCode"]), root(vals["ContentLength"])
							if a != "" && a == b {
								handedToHandler := func(body ast.Node, name string) bool {
									hit := false
									ast.Inspect(body, func(k ast.Node) bool {
										if c, ok := k.(*ast.CallExpr); ok && len(c.Args) >= 1 {
											if se, ok := c.Fun.(*ast.SelectorExpr); ok && se.Sel.Name == "ServeHTTP" {
												if id, ok := c.Args[0].(*ast.Ident); ok && id.Name == name {
													hit = true
												}
											}
										}
										return true
									})
									return hit
								}
								fromWriter = handedToHandler(fd.Body, a)
								// the literal sits in an unexported helper and the writer is one of its parameters: the
								// argument at the helper's (only) call sites must be the writer handed to the handler there
								if !fromWriter && !ast.IsExported(fd.Name.Name) {
									idx := -1
									for i, pn := range c20ParamNames(fd.Type) {
										if pn == a {
											idx = i
										}
									}
									sites, good := 0, 0
									if idx >= 0 {
										for _, f2 := range x.files("proxy") {
											for _, d2 := range f2.Decls {
												caller, ok := d2.(*ast.FuncDecl)
												if !ok || caller.Body == nil {
													continue
												}
												ast.Inspect(caller.Body, func(k ast.Node) bool {
													c, ok := k.(*ast.CallExpr)
													if !ok || idx >= len(c.Args) {
														return true
													}
													nm := ""
													switch fn := c.Fun.(type) {
													case *ast.Ident:
														nm = fn.Name
													case *ast.SelectorExpr:
														nm = fn.Sel.Name
													}
													if nm != fd.Name.Name {
														return true
													}
													sites++
													if id, ok := c.Args[idx].(*ast.Ident); ok && handedToHandler(caller.Body, id.Name) {
														good++
													}
													return true
												})
											}
										}
									}
									fromWriter = sites > 0 && sites == good
								}
							}
						}
					}
					// UpstreamAddr: the Host field of the very value passed as UpstreamURL
					addrIsHost := false
					if se, ok := site["UpstreamAddr"].(*ast.SelectorExpr); ok && se.Sel.Name == "Host" && site["UpstreamURL"] != nil {
						addrIsHost = x.src(se.X) == x.src(site["UpstreamURL"])
					}
					// Request: a parameter of the enclosing handler
					reqIsParam := false
					if id, ok := site["Request"].(*ast.Ident); ok {
						for _, p := range c20ParamNames(fd.Type) {
							reqIsParam = reqIsParam || p == id.Name
						}
					}
					var keys []string
					for k := range site {
						keys = append(keys, k)
					}
					sort.Strings(keys)
					x.defStrList("eventSiteKeys", keys)
					x.defBool("eventSiteResponseIsLiteral", respLit)
					x.defBool("eventSiteStatusAndSizeFromHandlerWriter", fromWriter)
					x.defBool("eventSiteUpstreamAddrIsHostOfUpstreamURL", addrIsHost)
					x.defBool("eventSiteRequestIsHandlerParam", reqIsParam)
					x.defStr("eventSiteFunc", fd.Name.Name)
					return false
				})
			}
		}
		if !found {
			x.fail("no logger.Event literal found in package proxy")
		}

		// ---- proxy: i32toa, uint16base16; uuid.ToString (change detectors) ----
		soft(func() {
			if fd := x.funcDecl("proxy", "", "i32toa"); fd != nil {
				x.defNat("i32toaBufLen", c20ByteArrayLen(x, "proxy", fd))
			}
			if fd := x.funcDecl("proxy", "", "uint16base16"); fd != nil {
				// b[k] = TABLE[…n…] : position k and the nibble of n it shows; TABLE is whatever package-level table is indexed
				n := ""
				if ps := c20ParamNames(fd.Type); len(ps) > 0 {
					n = ps[0]
				}
				var pairs []string
				table := ""
				ast.Inspect(fd, func(nd ast.Node) bool {
					as, ok := nd.(*ast.AssignStmt)
					if !ok || len(as.Lhs) != 1 || len(as.Rhs) != 1 {
						return true
					}
					li, ok1 := as.Lhs[0].(*ast.IndexExpr)
					ri, ok2 := as.Rhs[0].(*ast.IndexExpr)
					if !ok1 || !ok2 {
						return true
					}
					tid, ok := ri.X.(*ast.Ident)
					if !ok {
						return true
					}
					if table != "" && table != tid.Name {
						x.fail("uint16base16: two different digit tables")
					}
					table = tid.Name
					k, okk := c20ConstInt(x, "proxy", li.Index)
					nib, okn := c20Nibble(x, ri.Index, n)
					if !okk || !okn {
						x.fail("uint16base16: unrecognised digit assignment %s", x.src(as))
						return true
					}
					pairs = append(pairs, fmt.Sprintf("(%d, %d)", k, nib))
					return true
				})
				sort.Strings(pairs)
				x.defRaw("/-- uint16base16: (position in the template, which 4-bit group of n, 0 = least significant) per digit -/\ndef uint16Nibbles : List (Nat × Nat) := [" + strings.Join(pairs, ", ") + "]")
				if e := c20FirstStrArg(x, fd); e != "" {
					x.defStr("uint16Template", e)
				}
				if table == "" {
					x.fail("uint16base16: no digit table")
				} else if e := x.valueSpec("proxy", table); e != nil {
					if s, ok := c20ByteTable(x, "proxy", e); ok {
						x.defStr("digit16", s)
					} else {
						x.fail("proxy.%s is not a byte table", table)
					}
				}
			}

			// ---- uuid/format.go ----
			if fd := x.funcDecl("uuid", "", "ToString"); fd != nil {
				var idx []uint64
				var dashes []uint64
				hexTable := ""
				ast.Inspect(fd, func(n ast.Node) bool {
					switch v := n.(type) {
					case *ast.RangeStmt:
						e := v.X
						if id, ok := e.(*ast.Ident); ok { // a package-level table
							if ve := x.valueSpec("uuid", id.Name); ve != nil {
								e = ve
							}
						}
						idx = c20IntElems(x, e)
					case *ast.AssignStmt:
						if len(v.Lhs) == 1 && len(v.Rhs) == 1 {
							if ie, ok := v.Lhs[0].(*ast.IndexExpr); ok {
								if s, ok := x.strLit(v.Rhs[0]); ok && s == "-" {
									k, ok := c20ConstInt(x, "uuid", ie.Index)
									if !ok {
										x.fail("uuid.ToString: dash position is not a constant: %s", x.src(v))
									}
									dashes = append(dashes, k)
								}
								if ri, ok := v.Rhs[0].(*ast.IndexExpr); ok {
									if id, ok := ri.X.(*ast.Ident); ok {
										hexTable = id.Name
									}
								}
							}
						}
					}
					return true
				})
				x.defRaw("def uuidIdx : List Nat := " + c20NatList(idx))
				x.defRaw("def uuidDashes : List Nat := " + c20NatList(dashes))
				x.defNat("uuidBufLen", c20ByteArrayLen(x, "uuid", fd))
				if hexTable == "" {
					x.fail("uuid.ToString: no hex table indexed")
				} else if e := x.valueSpec("uuid", hexTable); e != nil {
					if s, ok := c20ByteTable(x, "uuid", e); ok {
						var vs []uint64
						for _, c := range []byte(s) {
							vs = append(vs, uint64(c))
						}
						x.defRaw("def halfbyte2hexchar : List Nat := " + c20NatList(vs))
					} else {
						x.fail("uuid.%s is not a byte table", hexTable)
					}
				}
			}
		})

		// ---- the formatters write to nothing but their own locals (they run on many request goroutines at once) ----
		var shared []string
		for _, fn := range [][2]string{{"logger", "atoi"}, {"logger", "hostport"}, {"logger", "lex"}, {"proxy", "i32toa"}, {"proxy", "uint16base16"}, {"uuid", "ToString"}} {
			if fd := x.funcDecl(fn[0], "", fn[1]); fd != nil {
				shared = append(shared, c20SharedWrites(x, fn[0], fd)...)
			}
		}
		x.defStrList("formatterSharedWrites", shared)

		// ---- main.go: how the access logger and the proxy are wired together (no harness runs main) ----
		c20MainWiring(x)

		x.defStrList("pinNotes", pinNotes)
		return nil
	})
}

// c20MainWiring: in the function of package main that builds the proxy.HTTPProxy literal —
//
//	mainFormatAliases  the names that stand for a format constant: `<format> == "name"` guarding
//	                   `<format> = logger.<Const>` (switch or if-chain), as "name=Const"
//	mainLoggerFromNew  the literal's Logger field is the (only) result variable of logger.New(w, <format>), where
//	                   <format> is the variable the aliases assign to, initialised from the access format of the config
//	mainProxyKeys      the fields the literal sets (UUID / Time absent: ServeHTTP falls back to uuid.NewUUID / time.Now)
func c20MainWiring(x *X) {
	var fn *ast.FuncDecl
	var lit *ast.CompositeLit
	for _, f := range x.files(".") {
		for _, d := range f.Decls {
			fd, ok := d.(*ast.FuncDecl)
			if !ok || fd.Body == nil {
				continue
			}
			ast.Inspect(fd.Body, func(n ast.Node) bool {
				if cl, ok := n.(*ast.CompositeLit); ok && x.src(cl.Type) == "proxy.HTTPProxy" {
					if lit != nil && fn != fd {
						x.fail("main: more than one function builds a proxy.HTTPProxy literal")
					}
					fn, lit = fd, cl
				}
				return true
			})
		}
	}
	if lit == nil {
		x.fail("main: no proxy.HTTPProxy literal found")
		return
	}
	var keys []string
	fields := map[string]ast.Expr{}
	for _, el := range lit.Elts {
		if kv, ok := el.(*ast.KeyValueExpr); ok {
			keys = append(keys, x.src(kv.Key))
			fields[x.src(kv.Key)] = kv.Value
		}
	}
	x.defSortedStrList("mainProxyKeys", keys)

	// the logger.New call and its result variable
	var newCalls []*ast.CallExpr
	resVar, fmtVar := "", ""
	ast.Inspect(fn.Body, func(n ast.Node) bool {
		as, ok := n.(*ast.AssignStmt)
		if !ok || len(as.Rhs) != 1 {
			return true
		}
		if c, ok := as.Rhs[0].(*ast.CallExpr); ok && x.src(c.Fun) == "logger.New" && len(c.Args) == 2 && len(as.Lhs) >= 1 {
			newCalls = append(newCalls, c)
			resVar, fmtVar = x.src(as.Lhs[0]), x.src(c.Args[1])
		}
		return true
	})
	assigned := func(name string) int { // assignments to a variable in the function, its declaration included
		n := 0
		ast.Inspect(fn.Body, func(k ast.Node) bool {
			switch v := k.(type) {
			case *ast.AssignStmt:
				for _, l := range v.Lhs {
					if x.src(l) == name {
						n++
					}
				}
			case *ast.ValueSpec:
				for _, id := range v.Names {
					if id.Name == name {
						n++
					}
				}
			}
			return true
		})
		return n
	}
	fromNew := len(newCalls) == 1 && fields["Logger"] != nil && x.src(fields["Logger"]) == resVar && assigned(resVar) == 1

	// aliases: `fmtVar == "name"` (or a case clause of `switch fmtVar`) guarding `fmtVar = logger.Const`
	var aliases []string
	fmtInit := ""
	nonAlias := 0
	var walk func(n ast.Node, guard string)
	lit2 := func(e ast.Expr) (string, bool) { return x.strLit(e) }
	walk = func(n ast.Node, guard string) {
		switch v := n.(type) {
		case nil:
		case *ast.BlockStmt:
			for _, st := range v.List {
				walk(st, guard)
			}
		case *ast.IfStmt:
			g := ""
			if be, ok := v.Cond.(*ast.BinaryExpr); ok && be.Op == token.EQL {
				if s, ok := lit2(be.Y); ok && x.src(be.X) == fmtVar {
					g = "=" + s
				} else if s, ok := lit2(be.X); ok && x.src(be.Y) == fmtVar {
					g = "=" + s
				}
			}
			walk(v.Body, g)
			if v.Else != nil {
				walk(v.Else, "")
			}
		case *ast.SwitchStmt:
			for _, c := range v.Body.List {
				cc := c.(*ast.CaseClause)
				g := ""
				if v.Tag != nil && x.src(v.Tag) == fmtVar && len(cc.List) == 1 {
					if s, ok := lit2(cc.List[0]); ok {
						g = "=" + s
					}
				}
				for _, st := range cc.Body {
					walk(st, g)
				}
			}
		case *ast.AssignStmt:
			for i, l := range v.Lhs {
				if x.src(l) != fmtVar || len(v.Lhs) != len(v.Rhs) {
					continue
				}
				rhs := x.src(v.Rhs[i])
				switch {
				case v.Tok == token.DEFINE:
					fmtInit = rhs
				case strings.HasPrefix(guard, "=") && strings.HasPrefix(rhs, "logger."):
					aliases = append(aliases, guard[1:]+"="+strings.TrimPrefix(rhs, "logger."))
				default:
					nonAlias++
				}
			}
		case *ast.ForStmt:
			walk(v.Body, "")
		case *ast.RangeStmt:
			walk(v.Body, "")
		}
	}
	if fmtVar != "" {
		walk(fn.Body, "")
	}
	sort.Strings(aliases)
	x.defStrList("mainFormatAliases", aliases)
	x.defBool("mainLoggerFromNew", fromNew && nonAlias == 0 && strings.HasSuffix(fmtInit, ".Log.AccessFormat"))
}

// ---- time / event data flow through the field functions and their helpers ----

// location-dependent methods of time.Time
var c20Calendar = map[string]bool{"Year": true, "Month": true, "Day": true, "Hour": true, "Minute": true, "Second": true,
	"Nanosecond": true, "Date": true, "Clock": true, "YearDay": true, "Weekday": true, "ISOWeek": true, "Format": true,
	"AppendFormat": true, "String": true, "Zone": true, "MarshalText": true, "MarshalJSON": true}

// methods that change the value they are called on (http.Header, url.Values, io.Reader/Writer/Closer, bytes.Buffer)
var c20Mutating = map[string]bool{"Set": true, "Add": true, "Del": true, "Write": true, "WriteString": true, "WriteByte": true,
	"Read": true, "Close": true, "Reset": true, "Truncate": true, "ParseForm": true, "ParseMultipartForm": true,
	"SetBasicAuth": true, "AddCookie": true}

// c20SharedWrites: assignments in fd (helpers followed) whose target is a package-level variable, or an element
// of a local that merely aliases a package-level slice or map (`b := table`, `b := table[:]`).
func c20SharedWrites(x *X, dir string, fd *ast.FuncDecl) []string {
	pkgVars := map[string]bool{} // name -> true when slice/map/pointer-like (aliasing on plain assignment)
	for _, f := range x.files(dir) {
		for _, d := range f.Decls {
			gd, ok := d.(*ast.GenDecl)
			if !ok || gd.Tok != token.VAR {
				continue
			}
			for _, sp := range gd.Specs {
				vs := sp.(*ast.ValueSpec)
				for i, n := range vs.Names {
					refLike := false
					var t ast.Expr = vs.Type
					if t == nil && i < len(vs.Values) {
						switch v := vs.Values[i].(type) {
						case *ast.CompositeLit:
							t = v.Type
						case *ast.CallExpr: // []byte("…"), make(…), new(…)
							if at, ok := v.Fun.(*ast.ArrayType); ok {
								t = at
							} else {
								refLike = true
							}
						case *ast.UnaryExpr:
							refLike = v.Op == token.AND
						}
					}
					switch tt := t.(type) {
					case *ast.ArrayType:
						refLike = tt.Len == nil
					case *ast.MapType, *ast.StarExpr, *ast.ChanType:
						refLike = true
					}
					pkgVars[n.Name] = refLike
				}
			}
		}
	}
	_, params, locals := x.LocalNames(fd)
	local := map[string]bool{}
	for _, n := range append(params, locals...) {
		local[n] = true
	}
	alias := map[string]bool{}
	var out []string
	root := func(e ast.Expr) (string, bool) { // root identifier, and whether the target is an element / field of it
		inner := false
		for {
			switch v := e.(type) {
			case *ast.SelectorExpr:
				e, inner = v.X, true
			case *ast.IndexExpr:
				e, inner = v.X, true
			case *ast.StarExpr:
				e, inner = v.X, true
			case *ast.SliceExpr:
				e, inner = v.X, true
			case *ast.ParenExpr:
				e = v.X
			case *ast.Ident:
				return v.Name, inner
			default:
				return "", inner
			}
		}
	}
	check := func(lhs ast.Expr, stmt ast.Node) {
		name, inner := root(lhs)
		switch {
		case name == "":
		case local[name] && alias[name] && inner:
			out = append(out, fd.Name.Name+": writes through a local that aliases a package-level variable")
		case !local[name]:
			if _, isPkg := pkgVars[name]; isPkg {
				out = append(out, fd.Name.Name+": writes to a package-level variable")
			}
		}
	}
	x.WalkInlined(dir, fd, func(n ast.Node) bool {
		switch v := n.(type) {
		case *ast.AssignStmt:
			for _, l := range v.Lhs {
				check(l, v)
			}
			if len(v.Lhs) == len(v.Rhs) {
				for i, l := range v.Lhs {
					if id, ok := l.(*ast.Ident); ok && local[id.Name] {
						r := v.Rhs[i]
						if se, ok := r.(*ast.SliceExpr); ok {
							r = se.X
						}
						if rid, ok := c20Paren(r).(*ast.Ident); ok && !local[rid.Name] && pkgVars[rid.Name] {
							alias[id.Name] = true
						} else {
							delete(alias, id.Name)
						}
					}
				}
			}
		case *ast.IncDecStmt:
			check(v.X, v)
		}
		return true
	})
	return c20Uniq(out)
}

// roles of the identifiers in scope: the event, values that are e.End, values that are e.End.UTC()
type c20Env struct{ event, end, utc map[string]bool }

type c20TimeWalk struct {
	x           *X
	dir         string
	field       string
	n           int
	notUTC      []string
	endUses     []string
	eventWrites []string
	months      string
}

func c20ParamNames(ft *ast.FuncType) []string {
	var ps []string
	if ft != nil && ft.Params != nil {
		for _, p := range ft.Params.List {
			if len(p.Names) == 0 {
				ps = append(ps, "_")
			}
			for _, n := range p.Names {
				ps = append(ps, n.Name)
			}
		}
	}
	return ps
}

func c20Paren(e ast.Expr) ast.Expr {
	for {
		p, ok := e.(*ast.ParenExpr)
		if !ok {
			return e
		}
		e = p.X
	}
}

func (env c20Env) isEvent(e ast.Expr) bool {
	id, ok := c20Paren(e).(*ast.Ident)
	return ok && env.event[id.Name]
}

// isEnd: <event>.End or a variable holding it
func (env c20Env) isEnd(e ast.Expr) bool {
	switch v := c20Paren(e).(type) {
	case *ast.Ident:
		return env.end[v.Name]
	case *ast.SelectorExpr:
		return v.Sel.Name == "End" && env.isEvent(v.X)
	}
	return false
}

// isUTC: <end>.UTC(), <utc>.UTC() or a variable holding one
func (env c20Env) isUTC(e ast.Expr) bool {
	switch v := c20Paren(e).(type) {
	case *ast.Ident:
		return env.utc[v.Name]
	case *ast.CallExpr:
		if sel, ok := v.Fun.(*ast.SelectorExpr); ok && sel.Sel.Name == "UTC" && len(v.Args) == 0 {
			return env.isEnd(sel.X) || env.isUTC(sel.X)
		}
	}
	return false
}

func (env c20Env) bind(name string, rhs ast.Expr) {
	delete(env.event, name)
	delete(env.end, name)
	delete(env.utc, name)
	switch {
	case env.isUTC(rhs):
		env.utc[name] = true
	case env.isEnd(rhs):
		env.end[name] = true
	case env.isEvent(rhs):
		env.event[name] = true
	case c20MentionsTime(rhs, env):
		env.end[name] = false // tracked: a time derived from End that is neither End nor End.UTC()
	}
}

func (w *c20TimeWalk) walk(body ast.Node, env c20Env, depth int) {
	x := w.x
	ast.Inspect(body, func(nd ast.Node) bool {
		switch v := nd.(type) {
		case *ast.AssignStmt:
			for _, l := range v.Lhs {
				if c20RootedIn(l, env.event) {
					if _, plain := l.(*ast.Ident); !plain {
						w.eventWrites = append(w.eventWrites, w.field+": "+x.src(v))
					}
				}
			}
			if len(v.Lhs) == len(v.Rhs) {
				for i, l := range v.Lhs {
					if id, ok := l.(*ast.Ident); ok {
						env.bind(id.Name, v.Rhs[i])
					}
				}
			}
		case *ast.IncDecStmt:
			if c20RootedIn(v.X, env.event) {
				w.eventWrites = append(w.eventWrites, w.field+": "+x.src(v))
			}
		case *ast.IndexExpr:
			// the month-name table: the package-level []string that a wall-clock renderer indexes
			if id, ok := v.X.(*ast.Ident); ok && strings.HasPrefix(w.field, "$time_") {
				if e := c20ValueSpec(x, w.dir, id.Name); e != nil {
					if cl, ok := e.(*ast.CompositeLit); ok && x.src(cl.Type) == "[]string" {
						w.months = id.Name
					}
				}
			}
		case *ast.CallExpr:
			if sel, ok := v.Fun.(*ast.SelectorExpr); ok {
				if c20Mutating[sel.Sel.Name] && c20RootedIn(sel.X, env.event) {
					w.eventWrites = append(w.eventWrites, w.field+": "+sel.Sel.Name+" on a value reached through the event")
				}
				if env.isEnd(sel.X) {
					w.endUses = append(w.endUses, sel.Sel.Name)
					if c20Calendar[sel.Sel.Name] {
						w.n++
						w.notUTC = append(w.notUTC, w.field+": "+sel.Sel.Name+" on End in its own location")
					}
				} else if c20Calendar[sel.Sel.Name] && len(v.Args) <= 1 && c20TimeLike(sel.X, env) {
					w.n++
					if !env.isUTC(sel.X) {
						w.notUTC = append(w.notUTC, w.field+": "+sel.Sel.Name+" on a time value not known to be End.UTC()")
					}
				}
			}
			// follow unexported same-package helpers, binding parameters to the roles of the arguments
			name := ""
			switch f := v.Fun.(type) {
			case *ast.Ident:
				name = f.Name
			case *ast.SelectorExpr:
				name = f.Sel.Name
			}
			if name != "" && !ast.IsExported(name) && depth < 4 && name != "atoi" && name != "hostport" {
				if callee := x.anyFuncDecl(w.dir, name); callee != nil {
					ps := c20ParamNames(callee.Type)
					cenv := c20Env{event: map[string]bool{}, end: map[string]bool{}, utc: map[string]bool{}}
					for i, a := range v.Args {
						if i < len(ps) {
							switch {
							case env.isUTC(a):
								cenv.utc[ps[i]] = true
							case env.isEnd(a):
								cenv.end[ps[i]] = true
							case env.isEvent(a):
								cenv.event[ps[i]] = true
							default:
								if c20MentionsTime(a, env) {
									// a time derived some other way (e.g. End.In(loc)): not UTC
									cenv.end[ps[i]] = false
								}
							}
						}
					}
					w.walk(callee.Body, cenv, depth+1)
				}
			}
		}
		return true
	})
}

// c20TimeLike: the receiver of a calendar-named method is a time value we track (UTC/End variable or an
// expression built from the event's End); other receivers (a bytes.Buffer's String(), …) are not counted.
func c20TimeLike(e ast.Expr, env c20Env) bool {
	if env.isUTC(e) || env.isEnd(e) {
		return true
	}
	if id, ok := c20Paren(e).(*ast.Ident); ok {
		if _, tracked := env.end[id.Name]; tracked { // bound to a time that is neither End nor End.UTC()
			return true
		}
		return false
	}
	return c20MentionsTime(e, env)
}

// c20MentionsTime: the expression is derived from the event's End (e.g. e.End.In(loc), e.End.Local())
func c20MentionsTime(e ast.Expr, env c20Env) bool {
	found := false
	ast.Inspect(e, func(n ast.Node) bool {
		if ex, ok := n.(ast.Expr); ok && (env.isEnd(ex) || env.isUTC(ex)) {
			found = true
		}
		return !found
	})
	return found
}

// c20ValueSpec: initialiser of a package-level var/const, nil when there is none (no error recorded)
func c20ValueSpec(x *X, dir, name string) ast.Expr {
	for _, f := range x.files(dir) {
		for _, d := range f.Decls {
			gd, ok := d.(*ast.GenDecl)
			if !ok {
				continue
			}
			for _, s := range gd.Specs {
				if vs, ok := s.(*ast.ValueSpec); ok {
					for i, n := range vs.Names {
						if n.Name == name && i < len(vs.Values) {
							return vs.Values[i]
						}
					}
				}
			}
		}
	}
	return nil
}

func c20RootedIn(e ast.Expr, names map[string]bool) bool {
	for {
		switch v := e.(type) {
		case *ast.SelectorExpr:
			e = v.X
		case *ast.IndexExpr:
			e = v.X
		case *ast.StarExpr:
			e = v.X
		case *ast.ParenExpr:
			e = v.X
		case *ast.Ident:
			return names[v.Name]
		default:
			return false
		}
	}
}

// c20IsLenZero: `<buf>.Len() == 0`, `0 == <buf>.Len()`, `<buf>.Len() <= 0`, `<buf>.Len() < 1`, `len(<buf>.Bytes()) == 0`
func c20IsLenZero(cond ast.Expr, buf string) bool {
	be, ok := c20Paren(cond).(*ast.BinaryExpr)
	if !ok {
		return false
	}
	isLen := func(e ast.Expr) bool {
		c, ok := c20Paren(e).(*ast.CallExpr)
		if !ok {
			return false
		}
		if sel, ok := c.Fun.(*ast.SelectorExpr); ok && sel.Sel.Name == "Len" && len(c.Args) == 0 {
			id, ok := sel.X.(*ast.Ident)
			return ok && id.Name == buf
		}
		if id, ok := c.Fun.(*ast.Ident); ok && id.Name == "len" && len(c.Args) == 1 {
			if ic, ok := c.Args[0].(*ast.CallExpr); ok {
				if sel, ok := ic.Fun.(*ast.SelectorExpr); ok && (sel.Sel.Name == "Bytes" || sel.Sel.Name == "String") {
					id, ok := sel.X.(*ast.Ident)
					return ok && id.Name == buf
				}
			}
		}
		return false
	}
	lit := func(e ast.Expr, v string) bool {
		l, ok := c20Paren(e).(*ast.BasicLit)
		return ok && l.Kind == token.INT && l.Value == v
	}
	switch be.Op {
	case token.EQL:
		return (isLen(be.X) && lit(be.Y, "0")) || (isLen(be.Y) && lit(be.X, "0"))
	case token.LEQ:
		return isLen(be.X) && lit(be.Y, "0")
	case token.LSS:
		return isLen(be.X) && lit(be.Y, "1")
	}
	return false
}

// c20IsLenNonZero: `<buf>.Len() != 0`, `<buf>.Len() > 0`, `<buf>.Len() >= 1`, `0 < <buf>.Len()`
func c20IsLenNonZero(cond ast.Expr, buf string) bool {
	be, ok := c20Paren(cond).(*ast.BinaryExpr)
	if !ok {
		return false
	}
	flip := map[token.Token]token.Token{token.NEQ: token.EQL, token.GTR: token.LEQ, token.GEQ: token.LSS}
	if op, ok := flip[be.Op]; ok {
		return c20IsLenZero(&ast.BinaryExpr{X: be.X, Op: op, Y: be.Y}, buf)
	}
	if be.Op == token.LSS { // 0 < len
		return c20IsLenZero(&ast.BinaryExpr{X: be.Y, Op: token.LEQ, Y: be.X}, buf)
	}
	return false
}

func c20RecvTypeName(fd *ast.FuncDecl) string {
	if fd.Recv == nil || len(fd.Recv.List) != 1 {
		return ""
	}
	t := fd.Recv.List[0].Type
	if st, ok := t.(*ast.StarExpr); ok {
		t = st.X
	}
	if id, ok := t.(*ast.Ident); ok {
		return id.Name
	}
	return ""
}

var c20DocLine = regexp.MustCompile(`^\s*(\$[A-Za-z0-9_.<>-]+)\s+-\s`)

// c20DocFields: the field names listed in the package comment of logger/logger.go, in order.
func c20DocFields(x *X) []string {
	var out []string
	for _, f := range x.files("logger") {
		if f.Doc == nil {
			continue
		}
		for _, l := range strings.Split(f.Doc.Text(), "\n") {
			if m := c20DocLine.FindStringSubmatch(l); m != nil {
				out = append(out, m[1])
			}
		}
	}
	if len(out) == 0 {
		x.fail("no documented log fields found in the package comment of logger")
	}
	return out
}

func c20StrElems(x *X, e ast.Expr) []string {
	cl, ok := e.(*ast.CompositeLit)
	if !ok {
		x.fail("not a composite literal: %s", x.src(e))
		return nil
	}
	var out []string
	for _, el := range cl.Elts {
		s, ok := x.strLit(el)
		if !ok {
			x.fail("not a string literal: %s", x.src(el))
		}
		out = append(out, s)
	}
	return out
}

// c20ConstInt evaluates an integer literal, a character literal, or a package-level constant naming one.
func c20ConstInt(x *X, dir string, e ast.Expr) (uint64, bool) {
	switch v := c20Paren(e).(type) {
	case *ast.BasicLit:
		switch v.Kind {
		case token.INT:
			n, err := strconv.ParseUint(v.Value, 0, 64)
			return n, err == nil
		case token.CHAR:
			if s, err := strconv.Unquote(v.Value); err == nil && len(s) == 1 {
				return uint64(s[0]), true
			}
		}
	case *ast.Ident:
		// a constant of the package, declared at package level or inside a function
		var val ast.Expr
		for _, f := range x.files(dir) {
			ast.Inspect(f, func(n ast.Node) bool {
				gd, ok := n.(*ast.GenDecl)
				if !ok || gd.Tok != token.CONST {
					return true
				}
				for _, sp := range gd.Specs {
					vs := sp.(*ast.ValueSpec)
					for i, n := range vs.Names {
						if n.Name == v.Name && i < len(vs.Values) && val == nil {
							val = vs.Values[i]
						}
					}
				}
				return false
			})
		}
		if val != nil {
			return c20ConstInt(x, dir, val)
		}
	}
	return 0, false
}

func c20IntElems(x *X, e ast.Expr) []uint64 {
	cl, ok := e.(*ast.CompositeLit)
	if !ok {
		x.fail("not a composite literal: %s", x.src(e))
		return nil
	}
	var out []uint64
	for _, el := range cl.Elts {
		v, ok := c20ConstInt(x, "uuid", el)
		if !ok {
			x.fail("not an integer constant: %s", x.src(el))
		}
		out = append(out, v)
	}
	return out
}

// c20ByteTable: the bytes of `[]byte("…")` or `[]byte{…}` (integer or character elements).
func c20ByteTable(x *X, dir string, e ast.Expr) (string, bool) {
	switch v := e.(type) {
	case *ast.CallExpr:
		if x.src(v.Fun) == "[]byte" && len(v.Args) == 1 {
			return x.strLit(v.Args[0])
		}
	case *ast.CompositeLit:
		var b []byte
		for _, el := range v.Elts {
			n, ok := c20ConstInt(x, dir, el)
			if !ok || n > 255 {
				return "", false
			}
			b = append(b, byte(n))
		}
		return string(b), true
	}
	return "", false
}

// c20Nibble: which 4-bit group of n the index expression selects: (n & (0xf<<s)) >> s, (n >> s) & 0xf, n & 0xf.
func c20Nibble(x *X, e ast.Expr, n string) (uint64, bool) {
	isN := func(e ast.Expr) bool {
		id, ok := c20Paren(e).(*ast.Ident)
		return ok && id.Name == n
	}
	e = c20Paren(e)
	be, ok := e.(*ast.BinaryExpr)
	if !ok {
		return 0, false
	}
	switch be.Op {
	case token.SHR: // (n & mask) >> s
		s, ok1 := c20ConstInt(x, "proxy", be.Y)
		in, ok2 := c20Paren(be.X).(*ast.BinaryExpr)
		if ok1 && ok2 && in.Op == token.AND {
			var mask uint64
			var okm bool
			switch {
			case isN(in.X):
				mask, okm = c20ConstInt(x, "proxy", in.Y)
			case isN(in.Y):
				mask, okm = c20ConstInt(x, "proxy", in.X)
			}
			if okm && s%4 == 0 && mask == 0xf<<s {
				return s / 4, true
			}
		}
	case token.AND: // n & 0xf, (n >> s) & 0xf, n & (0xf << 0)
		for _, pr := range [][2]ast.Expr{{be.X, be.Y}, {be.Y, be.X}} {
			mask, okm := c20ConstInt(x, "proxy", pr[1])
			if !okm {
				continue
			}
			if isN(pr[0]) && mask == 0xf {
				return 0, true
			}
			if sh, ok := c20Paren(pr[0]).(*ast.BinaryExpr); ok && sh.Op == token.SHR && isN(sh.X) && mask == 0xf {
				if s, ok := c20ConstInt(x, "proxy", sh.Y); ok && s%4 == 0 {
					return s / 4, true
				}
			}
		}
	}
	return 0, false
}

func c20NatList(vs []uint64) string {
	s := make([]string, len(vs))
	for i, v := range vs {
		s[i] = strconv.FormatUint(v, 10)
	}
	return "[" + strings.Join(s, ", ") + "]"
}

func c20Uniq(xs []string) []string {
	var out []string
	for i, s := range xs {
		if i == 0 || xs[i-1] != s {
			out = append(out, s)
		}
	}
	return out
}

// c20ByteArrayLen: length N of THE fixed-size byte array local of fd (`var v [N]byte` / `v := [N]byte{}`),
// whatever it is called; N may be a literal or a package-level constant.
func c20ByteArrayLen(x *X, dir string, fd *ast.FuncDecl) uint64 {
	var lens []uint64
	arr := func(t ast.Expr) {
		if at, ok := t.(*ast.ArrayType); ok && at.Len != nil && x.src(at.Elt) == "byte" {
			if v, ok := c20ConstInt(x, dir, at.Len); ok {
				lens = append(lens, v)
			}
		}
	}
	ast.Inspect(fd, func(nd ast.Node) bool {
		switch v := nd.(type) {
		case *ast.ValueSpec:
			if v.Type != nil {
				arr(v.Type)
			}
			for _, e := range v.Values {
				if cl, ok := e.(*ast.CompositeLit); ok && v.Type == nil {
					arr(cl.Type)
				}
			}
		case *ast.AssignStmt:
			if v.Tok == token.DEFINE {
				for _, e := range v.Rhs {
					if cl, ok := e.(*ast.CompositeLit); ok {
						arr(cl.Type)
					}
				}
			}
		}
		return true
	})
	if len(lens) != 1 {
		x.fail("%s: expected exactly one fixed-size byte array, found %d", fd.Name.Name, len(lens))
		return 0
	}
	return lens[0]
}

// c20FirstStrArg: the string inside the first []byte("…") conversion in fd.
func c20FirstStrArg(x *X, fd *ast.FuncDecl) string {
	out := ""
	ast.Inspect(fd, func(n ast.Node) bool {
		if c, ok := n.(*ast.CallExpr); ok && out == "" && x.src(c.Fun) == "[]byte" && len(c.Args) == 1 {
			if s, ok := x.strLit(c.Args[0]); ok {
				out = s
			}
		}
		return true
	})
	return out
}

// c20LogWalk lists the events of Logger.Log in evaluation order, following unexported same-package callees with
// their parameters bound to the arguments. For the Write event it decides what is handed to the writer: the result
// of a `Bytes()` call — written in place, or reaching the call through locals / parameters that were bound to it —
// with no event in between that could change or give away the buffer (Reset, render, Pool.Put, Pool.Get).
type c20LogWalk struct {
	x        *X
	dir      string
	poolVars map[string]bool
	calls    []string
	evIdx    map[*ast.CallExpr]int // Bytes() call -> index of its event
	writeArg string
	deferred bool
	stack    map[string]bool
}

func (w *c20LogWalk) walk(fd *ast.FuncDecl, env map[string]int, depth int) {
	if fd == nil || fd.Body == nil || w.stack[fd.Name.Name] || depth > 4 {
		return
	}
	w.stack[fd.Name.Name] = true
	defer delete(w.stack, fd.Name.Name)
	var stack []ast.Node
	ast.Inspect(fd.Body, func(n ast.Node) bool {
		if n != nil {
			switch n.(type) {
			case *ast.DeferStmt, *ast.GoStmt:
				w.deferred = true
			case *ast.FuncLit:
				w.deferred = true // a closure: when it runs is not known here
			}
			stack = append(stack, n)
			return true
		}
		top := stack[len(stack)-1]
		stack = stack[:len(stack)-1]
		switch v := top.(type) {
		case *ast.AssignStmt: // line := b.Bytes()  /  line = other
			if len(v.Lhs) == len(v.Rhs) {
				for i, l := range v.Lhs {
					if id, ok := l.(*ast.Ident); ok {
						if k, ok := w.bytesOf(v.Rhs[i], env); ok {
							env[id.Name] = k
						} else {
							delete(env, id.Name)
						}
					}
				}
			}
		case *ast.CallExpr: // its arguments have been visited
			w.call(v, env, depth)
		}
		return true
	})
}

// bytesOf: is e the result of a Bytes() call (in place, or through a bound name)? Which event?
func (w *c20LogWalk) bytesOf(e ast.Expr, env map[string]int) (int, bool) {
	switch v := e.(type) {
	case *ast.ParenExpr:
		return w.bytesOf(v.X, env)
	case *ast.CallExpr:
		k, ok := w.evIdx[v]
		return k, ok
	case *ast.Ident:
		k, ok := env[v.Name]
		return k, ok
	}
	return 0, false
}

func (w *c20LogWalk) call(v *ast.CallExpr, env map[string]int, depth int) {
	name := ""
	var recv ast.Expr
	switch f := v.Fun.(type) {
	case *ast.Ident:
		name = f.Name
	case *ast.SelectorExpr:
		name, recv = f.Sel.Name, f.X
	}
	if recv != nil {
		switch name {
		case "Get", "Put":
			if id, ok := recv.(*ast.Ident); ok && w.poolVars[id.Name] {
				w.calls = append(w.calls, "Pool."+name)
			}
		case "Lock", "Unlock", "Reset", "String":
			w.calls = append(w.calls, name)
		case "Bytes":
			if len(v.Args) == 0 {
				w.evIdx[v] = len(w.calls)
			}
			w.calls = append(w.calls, name)
		case "write":
			w.calls = append(w.calls, "render")
		case "Write":
			w.writeArg = "other"
			if len(v.Args) == 1 {
				if k, ok := w.bytesOf(v.Args[0], env); ok {
					clean := true
					for _, ev := range w.calls[k+1:] {
						if ev == "Reset" || ev == "render" || ev == "Pool.Put" || ev == "Pool.Get" {
							clean = false
						}
					}
					if clean {
						w.writeArg = "Bytes() of a buffer, untouched until the Write"
					}
				}
			}
			w.calls = append(w.calls, "Write")
		}
	}
	if name == "" || ast.IsExported(name) {
		return
	}
	callee := w.x.anyFuncDecl(w.dir, name)
	if callee == nil {
		return
	}
	// bind the callee's parameters to what the arguments stand for
	inner := map[string]int{}
	j := 0
	if callee.Type.Params != nil {
		for _, p := range callee.Type.Params.List {
			for _, pn := range p.Names {
				if j < len(v.Args) {
					if k, ok := w.bytesOf(v.Args[j], env); ok {
						inner[pn.Name] = k
					}
				}
				j++
			}
		}
	}
	w.walk(callee, inner, depth+1)
}
