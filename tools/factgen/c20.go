package main

func init() {
	register("C20", func(x *X) error {
		// the table of log fields
		if e := x.valueSpec("logger", "fields"); e != nil {
			x.defSortedStrList("fieldNames", x.mapKeys(e))
		}
		for _, c := range []string{"CommonFormat", "CombinedFormat"} {
			if e := x.valueSpec("logger", c); e != nil {
				if s, ok := x.strLit(e); ok {
					x.defStr(c, s)
				} else {
					x.fail("logger.%s is not a string literal", c)
				}
			}
		}
		return nil
	})
}
