package main

import (
	"go/ast"
	"go/token"
	"strings"
)

// events lists, in source order, the calls ("f", "x.f"), channel receives ("<-x.f()") and go statements
// ("go") that occur inside a node. Function literals are entered (their bodies belong to the enclosing
// function for the purposes of "what does this function do, in which order").
func (x *X) c18events(n ast.Node) []string {
	var out []string
	ast.Inspect(n, func(m ast.Node) bool {
		switch v := m.(type) {
		case *ast.CallExpr:
			if _, lit := v.Fun.(*ast.FuncLit); lit {
				out = append(out, "func")
			} else {
				out = append(out, x.src(v.Fun))
			}
		case *ast.UnaryExpr:
			if v.Op == token.ARROW {
				out = append(out, "<-"+x.src(v.X))
			}
		case *ast.GoStmt:
			out = append(out, "go")
		}
		return true
	})
	return out
}

func c18usesIdent(n ast.Node, name string) bool {
	found := false
	ast.Inspect(n, func(m ast.Node) bool {
		if id, ok := m.(*ast.Ident); ok && id.Name == name {
			found = true
		}
		return !found
	})
	return found
}

func c18paramName(fd *ast.FuncDecl, i int) string {
	k := 0
	for _, f := range fd.Type.Params.List {
		for _, n := range f.Names {
			if k == i {
				return n.Name
			}
			k++
		}
		if len(f.Names) == 0 {
			k++
		}
	}
	return ""
}

func init() {
	register("C18", func(x *X) error {
		// ---- proxy.Shutdown: registry swap, one WithTimeout(…, timeout) per server, WaitGroup ----
		if fd := x.funcDecl("proxy", "", "Shutdown"); fd != nil {
			x.defStrList("shutdownEvents", x.c18events(fd.Body))
			param := c18paramName(fd, 0)
			x.defStr("shutdownParam", param)
			// the statement `servers = make(map[string]Server)` (a fresh, empty registry)
			resets := false
			ast.Inspect(fd.Body, func(m ast.Node) bool {
				if as, ok := m.(*ast.AssignStmt); ok && len(as.Lhs) == 1 && len(as.Rhs) == 1 && x.src(as.Lhs[0]) == "servers" {
					if c, ok := as.Rhs[0].(*ast.CallExpr); ok && x.src(c.Fun) == "make" && len(c.Args) == 1 {
						resets = true
					}
				}
				return true
			})
			x.defBool("shutdownInstallsEmptyRegistry", resets)
			// inside the `for … range` loop: a go statement whose function literal derives its context with
			// context.WithTimeout(<anything>, <the parameter>) and hands that context to srv.Shutdown
			perServer, passesCtx, timeoutArg := false, false, ""
			ast.Inspect(fd.Body, func(m ast.Node) bool {
				rs, ok := m.(*ast.RangeStmt)
				if !ok {
					return true
				}
				ast.Inspect(rs.Body, func(k ast.Node) bool {
					gs, ok := k.(*ast.GoStmt)
					if !ok {
						return true
					}
					wts := x.calls(gs.Call.Fun, "context.WithTimeout")
					if len(wts) == 1 && len(wts[0].Args) == 2 {
						perServer = true
						timeoutArg = x.src(wts[0].Args[1])
					}
					for _, c := range x.calls(gs.Call.Fun, "srv.Shutdown") {
						if len(c.Args) == 1 && x.src(c.Args[0]) == "ctx" {
							passesCtx = true
						}
					}
					return true
				})
				return true
			})
			x.defBool("shutdownOneTimeoutCtxPerServer", perServer)
			x.defStr("shutdownTimeoutArg", timeoutArg)
			x.defBool("shutdownPassesCtxToServer", passesCtx)
		}
		// ---- serve(): registers under the listener's address before serving ----
		if fd := x.funcDecl("proxy", "", "serve"); fd != nil {
			registers := false
			ast.Inspect(fd.Body, func(m ast.Node) bool {
				if as, ok := m.(*ast.AssignStmt); ok && len(as.Lhs) == 1 {
					if ix, ok := as.Lhs[0].(*ast.IndexExpr); ok && x.src(ix.X) == "servers" {
						registers = true
					}
				}
				return true
			})
			x.defBool("serveRegisters", registers)
			x.defStrList("serveEvents", x.c18events(fd.Body))
		}
		// what is called while the registry lock `mu` is held, per function of proxy/serve.go that takes it:
		// the events between every mu.Lock and the next mu.Unlock, in source order
		for _, fn := range []string{"CloseProxy", "Close", "Shutdown", "serve"} {
			if fd := x.funcDecl("proxy", "", fn); fd != nil {
				var under []string
				held, locks := false, 0
				for _, e := range x.c18events(fd.Body) {
					switch {
					case e == "mu.Lock":
						held = true
						locks++
					case e == "mu.Unlock":
						held = false
					case held:
						under = append(under, e)
					}
				}
				if locks == 0 {
					x.fail("proxy.%s no longer takes mu", fn)
				}
				x.defStrList("underLock"+strings.ToUpper(fn[:1])+fn[1:], under)
			}
		}
		// every ListenAndServe* goes through serve()
		var las []string
		for _, f := range x.files("proxy") {
			for _, d := range f.Decls {
				if fd, ok := d.(*ast.FuncDecl); ok && fd.Recv == nil && len(fd.Name.Name) > 14 && fd.Name.Name[:14] == "ListenAndServe" {
					if len(x.calls(fd.Body, "serve")) == 0 {
						las = append(las, fd.Name.Name)
					}
				}
			}
		}
		x.defSortedStrList("listenAndServeNotThroughServe", las)

		// ---- tcp.Server.Shutdown: closeListeners, <-ctx.Done(), closeConns ----
		if fd := x.funcDecl("proxy/tcp", "Server", "Shutdown"); fd != nil {
			x.defStrList("tcpShutdownEvents", x.c18events(fd.Body))
		}
		if fd := x.funcDecl("proxy/tcp", "Server", "closeListeners"); fd != nil {
			x.defStrList("tcpCloseListenersEvents", x.c18events(fd.Body))
		}
		if fd := x.funcDecl("proxy/tcp", "Server", "closeConns"); fd != nil {
			x.defStrList("tcpCloseConnsEvents", x.c18events(fd.Body))
		}
		// ---- gRPCServer.Shutdown: does it look at its context? ----
		if fd := x.funcDecl("proxy", "gRPCServer", "Shutdown"); fd != nil {
			p := c18paramName(fd, 0)
			x.defStr("grpcShutdownParam", p)
			x.defBool("grpcShutdownUsesCtx", p != "" && p != "_" && c18usesIdent(fd.Body, p))
			x.defStrList("grpcShutdownEvents", x.c18events(fd.Body))
		}
		// ---- InetAfTCPProxyServer.Shutdown: outer listener first, children get the same ctx ----
		if fd := x.funcDecl("proxy", "InetAfTCPProxyServer", "Shutdown"); fd != nil {
			x.defStrList("inetafShutdownEvents", x.c18events(fd.Body))
			ok := false
			for _, c := range x.calls(fd.Body, "sl.s.Shutdown") {
				if len(c.Args) == 1 && x.src(c.Args[0]) == c18paramName(fd, 0) {
					ok = true
				}
			}
			x.defBool("inetafChildrenGetCtx", ok)
		}
		// ---- exit.Listen: the signal registration and the call of the handler. Only the events that matter:
		// anything from os/signal, the channel receives, and the call of the handler parameter ----
		if fd := x.funcDecl("exit", "", "Listen"); fd != nil {
			hp := c18paramName(fd, 0)
			var ev []string
			for _, e := range x.c18events(fd.Body) {
				if strings.HasPrefix(e, "signal.") || strings.HasPrefix(e, "<-") || e == hp {
					if e == hp {
						e = "handler"
					}
					ev = append(ev, e)
				}
			}
			x.defStrList("exitListenEvents", ev)
		}
		// ---- main.go: the exit handler handed to exit.Listen, and the tcp-dynamic refresher ----
		if fd := x.funcDecl(".", "", "main"); fd != nil {
			ls := x.calls(fd.Body, "exit.Listen")
			if len(ls) != 1 || len(ls[0].Args) != 1 {
				x.fail("main: expected exactly one exit.Listen(func…) call")
			} else if fl, ok := ls[0].Args[0].(*ast.FuncLit); !ok {
				x.fail("main: exit.Listen argument is not a function literal")
			} else {
				x.defStrList("exitHandlerEvents", x.c18events(fl.Body))
				arg := func(fn string) string {
					cs := x.calls(fl.Body, fn)
					if len(cs) == 1 && len(cs[0].Args) == 1 {
						return x.src(cs[0].Args[0])
					}
					return ""
				}
				x.defStr("exitHandlerSleepArg", arg("time.Sleep"))
				x.defStr("exitHandlerShutdownArg", arg("proxy.Shutdown"))
			}
		}
		if fd := x.funcDecl(".", "", "startServers"); fd != nil {
			found := false
			ast.Inspect(fd.Body, func(m ast.Node) bool {
				cc, ok := m.(*ast.CaseClause)
				if !ok || len(cc.List) != 1 {
					return true
				}
				if s, ok := x.strLit(cc.List[0]); ok && s == "tcp-dynamic" {
					found = true
					x.defBool("refresherLooksAtShuttingDown", func() bool {
						for _, st := range cc.Body {
							if c18usesIdent(st, "shuttingDown") {
								return true
							}
						}
						return false
					}())
					starts := false
					for _, st := range cc.Body {
						if len(x.calls(st, "proxy.ListenAndServeTCP")) > 0 {
							starts = true
						}
					}
					x.defBool("refresherStartsListeners", starts)
					// the refresh loop: the outermost `for { … }` of the clause that sleeps. Its body, flattened in
					// source order to the three things that matter: "sleep" (time.Sleep), "test" (a reference to
					// shuttingDown), "listen" (net.Listen or proxy.ListenAndServeTCP).
					var loop *ast.ForStmt
					for _, st := range cc.Body {
						ast.Inspect(st, func(k ast.Node) bool {
							if fs, ok := k.(*ast.ForStmt); ok && loop == nil && fs.Cond == nil && len(x.calls(fs.Body, "time.Sleep")) > 0 {
								loop = fs
							}
							return loop == nil
						})
					}
					var ev []string
					if loop == nil {
						x.fail("startServers: tcp-dynamic refresh loop (for { … time.Sleep … }) not found")
					} else {
						ast.Inspect(loop.Body, func(k ast.Node) bool {
							switch v := k.(type) {
							case *ast.CallExpr:
								switch x.src(v.Fun) {
								case "time.Sleep":
									ev = append(ev, "sleep")
								case "net.Listen", "proxy.ListenAndServeTCP":
									ev = append(ev, "listen")
								}
							case *ast.Ident:
								if v.Name == "shuttingDown" {
									ev = append(ev, "test")
								}
							}
							return true
						})
					}
					x.defStrList("refresherLoopEvents", ev)
				}
				return true
			})
			if !found {
				x.fail("startServers: case \"tcp-dynamic\" not found")
			}
		}
		return nil
	})
}
