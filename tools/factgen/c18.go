package main

// C18 facts. Everything is pinned by MEANING, not spelling:
//   - event lists are built with x.WalkInlined, so extracting / inlining an unexported helper does not change them;
//     a call to an unexported same-package function that has a body produces no event of its own (its body does);
//   - a call is named by its callee only: "pkg.Func" for a call into an imported package, ".Method" for any other
//     selector call (whatever the receiver expression is called), the bare name for builtins, "local()" for a call
//     of a local function value, "handler"/"p<i>()" for a call of the i-th parameter;
//   - `x.Close()` where x is the loop variable of a `range recv.<field>` is named by the field's declared TYPE:
//     "close-listener" (…net.Listener…) or "close-conn" (…net.Conn…), so fields, helpers and locals may be renamed;
//   - a channel receive is named by the role of its operand: "<-p0.Done" (method of the i-th parameter),
//     "<-notified" (the channel handed to signal.Notify), "<-pkgvar" (package-level channel), "<-local";
//   - unexported package-level names are found by role: the registry = the package-level map that is stored into
//     right before a `.Serve(` call; the registry lock = the package-level sync.Mutex; the gRPC server type = the
//     struct with a *grpc.Server field; the shutting-down flag = the operand of the exit handler's
//     atomic.StoreInt32; the refresher = the condition-less for loop reachable from the function that has the
//     case "tcp-dynamic" which sleeps and listens.
// Exported names (Shutdown, Close, CloseProxy, ListenAndServe*, tcp.Server, InetAfTCPProxyServer, exit.Listen) and
// the config-facing literal "tcp-dynamic" are the anchors.

import (
	"strconv"
	"go/ast"
	"go/token"
	"sort"
	"strings"
)

var c18builtins = map[string]bool{"make": true, "len": true, "delete": true, "append": true, "close": true, "cap": true,
	"copy": true, "panic": true, "new": true, "recover": true, "print": true, "println": true, "min": true, "max": true, "clear": true}

type c18ctx struct {
	x       *X
	dir     string
	imports map[string]bool   // import names used in the package
	pkgVars map[string]string // package-level var name -> declared type / initialiser source
	fields  map[string]string // struct field name -> declared type source (all structs of the package)
}

func (x *X) c18context(dir string) *c18ctx {
	c := &c18ctx{x: x, dir: dir, imports: map[string]bool{}, pkgVars: map[string]string{}, fields: map[string]string{}}
	for _, f := range x.files(dir) {
		for _, im := range f.Imports {
			p := strings.Trim(im.Path.Value, `"`)
			name := p[strings.LastIndex(p, "/")+1:]
			if im.Name != nil {
				name = im.Name.Name
			}
			c.imports[name] = true
			// go-proxyproto, grpc-proxy etc. are imported under explicit names in this repo; the last path
			// element is right for everything else the facts look at (context, time, net, signal, atomic, log, proxy)
		}
		for _, d := range f.Decls {
			gd, ok := d.(*ast.GenDecl)
			if !ok {
				continue
			}
			for _, s := range gd.Specs {
				switch v := s.(type) {
				case *ast.ValueSpec:
					if gd.Tok == token.VAR {
						for i, n := range v.Names {
							t := ""
							if v.Type != nil {
								t = x.src(v.Type)
							} else if i < len(v.Values) {
								t = x.src(v.Values[i])
							}
							c.pkgVars[n.Name] = t
						}
					}
				case *ast.TypeSpec:
					if st, ok := v.Type.(*ast.StructType); ok {
						for _, fl := range st.Fields.List {
							for _, n := range fl.Names {
								c.fields[n.Name] = x.src(fl.Type)
							}
						}
					}
				}
			}
		}
	}
	return c
}

// params of fd by name -> index
func c18params(fd *ast.FuncDecl) map[string]int {
	out := map[string]int{}
	k := 0
	if fd.Type.Params != nil {
		for _, f := range fd.Type.Params.List {
			for _, n := range f.Names {
				out[n.Name] = k
				k++
			}
			if len(f.Names) == 0 {
				k++
			}
		}
	}
	return out
}

func c18rootIdent(e ast.Expr) *ast.Ident {
	for {
		switch v := e.(type) {
		case *ast.Ident:
			return v
		case *ast.SelectorExpr:
			e = v.X
		case *ast.CallExpr:
			e = v.Fun
		case *ast.ParenExpr:
			e = v.X
		case *ast.StarExpr:
			e = v.X
		case *ast.UnaryExpr:
			e = v.X
		case *ast.IndexExpr:
			e = v.X
		default:
			return nil
		}
	}
}

// events of fd (helpers inlined) by meaning; see the header.
func (c *c18ctx) events(fd *ast.FuncDecl) []string {
	x := c.x
	params := c18params(fd)
	var out []string
	rangeKind := map[string]string{} // loop variable -> "listener" | "conn"
	notified := map[string]bool{}    // channel variables handed to signal.Notify
	x.WalkInlined(c.dir, fd, func(n ast.Node) bool {
		switch v := n.(type) {
		case *ast.RangeStmt:
			if se, ok := v.X.(*ast.SelectorExpr); ok {
				t := c.fields[se.Sel.Name]
				kind := ""
				switch {
				case strings.Contains(t, "net.Listener"):
					kind = "listener"
				case strings.Contains(t, "net.Conn"):
					kind = "conn"
				}
				if kind != "" {
					for _, e := range []ast.Expr{v.Key, v.Value} {
						if id, ok := e.(*ast.Ident); ok && id.Name != "_" {
							rangeKind[id.Name] = kind
						}
					}
				}
			}
		case *ast.AssignStmt:
			if len(v.Lhs) == 1 {
				if ix, ok := v.Lhs[0].(*ast.IndexExpr); ok {
					if id, ok := ix.X.(*ast.Ident); ok && c.isMapVar(id.Name) {
						out = append(out, "store-registry")
					}
				}
			}
		case *ast.GoStmt:
			out = append(out, "go")
		case *ast.UnaryExpr:
			if v.Op == token.ARROW {
				out = append(out, c.recvName(v.X, params, notified))
			}
		case *ast.CallExpr:
			switch f := v.Fun.(type) {
			case *ast.FuncLit:
				out = append(out, "func")
			case *ast.Ident:
				switch {
				case c18builtins[f.Name]:
					out = append(out, f.Name)
				case !ast.IsExported(f.Name) && x.anyFuncDecl(c.dir, f.Name) != nil:
					// inlined by WalkInlined
				default:
					if i, ok := params[f.Name]; ok && f.Obj != nil {
						if i == 0 {
							out = append(out, "handler")
						} else {
							out = append(out, "p"+string(rune('0'+i))+"()")
						}
					} else if x.anyFuncDecl(c.dir, f.Name) != nil {
						out = append(out, f.Name) // exported same-package function
					} else {
						out = append(out, "local()")
					}
				}
			case *ast.SelectorExpr:
				if id, ok := f.X.(*ast.Ident); ok && c.imports[id.Name] && id.Obj == nil {
					name := id.Name + "." + f.Sel.Name
					out = append(out, name)
					if name == "signal.Notify" && len(v.Args) > 0 {
						if ch, ok := v.Args[0].(*ast.Ident); ok {
							notified[ch.Name] = true
						}
					}
					break
				}
				if !ast.IsExported(f.Sel.Name) && x.anyFuncDecl(c.dir, f.Sel.Name) != nil {
					break // inlined method
				}
				if id, ok := f.X.(*ast.Ident); ok && f.Sel.Name == "Close" && rangeKind[id.Name] != "" {
					out = append(out, "close-"+rangeKind[id.Name])
					break
				}
				out = append(out, "."+f.Sel.Name)
			default:
				out = append(out, "call")
			}
		}
		return true
	})
	return out
}

// paths enumerates the event sequences of fd along its control-flow paths: both branches of every if statement are
// followed, a return statement ends its path, loop bodies are taken once, everything else contributes its events in
// source order (helpers inlined by events). At most 64 paths are followed.
func (c *c18ctx) paths(fd *ast.FuncDecl) [][]string {
	evOf := func(st ast.Stmt) []string {
		synth := &ast.FuncDecl{Name: fd.Name, Recv: fd.Recv, Type: fd.Type, Body: &ast.BlockStmt{List: []ast.Stmt{st}}}
		return c.events(synth)
	}
	evExpr := func(e ast.Expr) []string {
		if e == nil {
			return nil
		}
		return evOf(&ast.ExprStmt{X: e})
	}
	extend := func(open [][]string, ev []string) [][]string {
		if len(ev) == 0 {
			return open
		}
		out := make([][]string, len(open))
		for i, p := range open {
			out[i] = append(append([]string{}, p...), ev...)
		}
		return out
	}
	var done [][]string
	var walk func(stmts []ast.Stmt, open [][]string) [][]string
	walk = func(stmts []ast.Stmt, open [][]string) [][]string {
		for _, st := range stmts {
			if len(open) == 0 {
				return open
			}
			if len(open)+len(done) > 64 {
				open = open[:1]
			}
			switch v := st.(type) {
			case *ast.BlockStmt:
				open = walk(v.List, open)
			case *ast.IfStmt:
				if v.Init != nil {
					open = extend(open, evOf(v.Init))
				}
				open = extend(open, evExpr(v.Cond))
				thenOpen := walk(v.Body.List, open)
				elseOpen := open
				if v.Else != nil {
					elseOpen = walk([]ast.Stmt{v.Else}, open)
				}
				open = append(append([][]string{}, thenOpen...), elseOpen...)
			case *ast.ReturnStmt:
				done = append(done, extend(open, evOf(v))...)
				open = nil
			default:
				open = extend(open, evOf(st))
			}
		}
		return open
	}
	rest := walk(fd.Body.List, [][]string{{}})
	return append(done, rest...)
}

func (c *c18ctx) isMapVar(name string) bool {
	t, ok := c.pkgVars[name]
	return ok && strings.Contains(t, "map[")
}

func (c *c18ctx) recvName(e ast.Expr, params map[string]int, notified map[string]bool) string {
	root := c18rootIdent(e)
	suffix := ""
	if call, ok := e.(*ast.CallExpr); ok {
		if se, ok := call.Fun.(*ast.SelectorExpr); ok {
			suffix = "." + se.Sel.Name
		}
	}
	if root == nil {
		return "<-expr" + suffix
	}
	if i, ok := params[root.Name]; ok {
		return "<-p" + string(rune('0'+i)) + suffix
	}
	if notified[root.Name] {
		return "<-notified" + suffix
	}
	if _, ok := c.pkgVars[root.Name]; ok {
		return "<-pkgvar" + suffix
	}
	return "<-local" + suffix
}

// the package-level map variable that some function stores into (`X[k] = v`) and then calls `.Serve(`
func (c *c18ctx) registryVar() string {
	for _, f := range c.x.files(c.dir) {
		for _, d := range f.Decls {
			fd, ok := d.(*ast.FuncDecl)
			if !ok || fd.Body == nil {
				continue
			}
			name, serves := "", false
			ast.Inspect(fd.Body, func(n ast.Node) bool {
				switch v := n.(type) {
				case *ast.AssignStmt:
					if len(v.Lhs) == 1 {
						if ix, ok := v.Lhs[0].(*ast.IndexExpr); ok {
							if id, ok := ix.X.(*ast.Ident); ok && c.isMapVar(id.Name) {
								name = id.Name
							}
						}
					}
				case *ast.CallExpr:
					if se, ok := v.Fun.(*ast.SelectorExpr); ok && se.Sel.Name == "Serve" && name != "" {
						serves = true
					}
				}
				return true
			})
			if name != "" && serves {
				return name
			}
		}
	}
	return ""
}

// the registry lock: the package-level sync.Mutex; when the package has several, the one that is locked by the
// function which stores into the registry map `reg`
func (c *c18ctx) lockVar(reg string) string {
	cands := map[string]bool{}
	var names []string
	for n, t := range c.pkgVars {
		if t == "sync.Mutex" || t == "sync.RWMutex" {
			cands[n] = true
			names = append(names, n)
		}
	}
	sort.Strings(names)
	if len(names) == 1 {
		return names[0]
	}
	used := map[string]bool{}
	for _, f := range c.x.files(c.dir) {
		for _, d := range f.Decls {
			fd, ok := d.(*ast.FuncDecl)
			if !ok || fd.Body == nil {
				continue
			}
			stores := false
			var locks []string
			ast.Inspect(fd.Body, func(n ast.Node) bool {
				switch v := n.(type) {
				case *ast.AssignStmt:
					if len(v.Lhs) == 1 {
						if ix, ok := v.Lhs[0].(*ast.IndexExpr); ok {
							if id, ok := ix.X.(*ast.Ident); ok && id.Name == reg {
								stores = true
							}
						}
					}
				case *ast.CallExpr:
					if se, ok := v.Fun.(*ast.SelectorExpr); ok && se.Sel.Name == "Lock" {
						if id, ok := se.X.(*ast.Ident); ok && cands[id.Name] {
							locks = append(locks, id.Name)
						}
					}
				}
				return true
			})
			if stores {
				for _, l := range locks {
					used[l] = true
				}
			}
		}
	}
	if len(used) == 1 {
		for l := range used {
			return l
		}
	}
	return ""
}

// fieldPath drops the root identifier of a selector chain: cfg.Proxy.ShutdownWait -> ".Proxy.ShutdownWait"
func (x *X) c18fieldPath(e ast.Expr) string {
	s := x.src(e)
	if root := c18rootIdent(e); root != nil && strings.HasPrefix(s, root.Name) {
		return s[len(root.Name):]
	}
	return s
}

func c18usesIdent(n ast.Node, name string) bool {
	found := false
	ast.Inspect(n, func(m ast.Node) bool {
		if id, ok := m.(*ast.Ident); ok && id.Name == name {
			found = true
		}
		return !found
	})
	return found
}

func c18paramName(fd *ast.FuncDecl, i int) string {
	for n, k := range c18params(fd) {
		if k == i {
			return n
		}
	}
	return ""
}

func c18between(ev []string, open, close string) (under []string, opens int) {
	held := false
	for _, e := range ev {
		switch {
		case e == open:
			held = true
			opens++
		case e == close:
			held = false
		case held:
			under = append(under, e)
		}
	}
	return
}

func init() {
	register("C18", func(x *X) error {
		x.UseNormalizedAST()
		px := x.c18context("proxy")
		reg := px.registryVar()
		lock := px.lockVar(reg)
		if reg == "" {
			x.fail("proxy: no package-level map that is stored into before a .Serve( call (the server registry)")
		}
		if lock == "" {
			x.fail("proxy: no package-level sync.Mutex that is locked where the registry is stored into (the registry lock)")
		}

		// ---- proxy.Shutdown ----
		if fd := x.funcDecl("proxy", "", "Shutdown"); fd != nil {
			ev := px.events(fd)
			x.defStrList("shutdownEvents", ev)
			param := c18paramName(fd, 0)
			resets, perServer, timeoutIsParam, passesCtx := false, false, false, false
			x.WalkInlined("proxy", fd, func(m ast.Node) bool {
				switch v := m.(type) {
				case *ast.AssignStmt: // <registry> = make(map…): a fresh, empty registry
					if len(v.Lhs) == 1 && len(v.Rhs) == 1 {
						if id, ok := v.Lhs[0].(*ast.Ident); ok && id.Name == reg {
							if c, ok := v.Rhs[0].(*ast.CallExpr); ok && x.src(c.Fun) == "make" && len(c.Args) == 1 {
								resets = true
							}
						}
					}
				case *ast.RangeStmt:
					// in the loop: a go statement whose function derives its context with
					// context.WithTimeout(_, <parameter 0>) and hands the result to a .Shutdown( call
					ast.Inspect(v.Body, func(k ast.Node) bool {
						gs, ok := k.(*ast.GoStmt)
						if !ok {
							return true
						}
						ctxVar := ""
						ast.Inspect(gs.Call.Fun, func(j ast.Node) bool {
							if as, ok := j.(*ast.AssignStmt); ok && len(as.Rhs) == 1 && len(as.Lhs) >= 1 {
								if c, ok := as.Rhs[0].(*ast.CallExpr); ok && x.src(c.Fun) == "context.WithTimeout" && len(c.Args) == 2 {
									perServer = true
									if id, ok := c.Args[1].(*ast.Ident); ok && id.Name == param && param != "" {
										timeoutIsParam = true
									}
									if id, ok := as.Lhs[0].(*ast.Ident); ok {
										ctxVar = id.Name
									}
								}
							}
							return true
						})
						ast.Inspect(gs.Call.Fun, func(j ast.Node) bool {
							if c, ok := j.(*ast.CallExpr); ok {
								if se, ok := c.Fun.(*ast.SelectorExpr); ok && se.Sel.Name == "Shutdown" && len(c.Args) == 1 {
									if id, ok := c.Args[0].(*ast.Ident); ok && id.Name == ctxVar && ctxVar != "" {
										passesCtx = true
									}
								}
							}
							return true
						})
						return true
					})
				}
				return true
			})
			// websocket sessions: the package-level variable the hijacking handler (the function that calls
			// .Hijack()) touches is also touched by Shutdown (helpers inlined), inside a goroutine of the same
			// WaitGroup, with a context.WithTimeout(_, <parameter 0>)
			hijackVars := map[string]bool{}
			for _, f := range x.files("proxy") {
				for _, d := range f.Decls {
					hfd, ok := d.(*ast.FuncDecl)
					if !ok || hfd.Body == nil {
						continue
					}
					hijacks := false
					ast.Inspect(hfd.Body, func(k ast.Node) bool {
						if ce, ok := k.(*ast.CallExpr); ok {
							if se, ok := ce.Fun.(*ast.SelectorExpr); ok && se.Sel.Name == "Hijack" {
								hijacks = true
							}
						}
						return true
					})
					if !hijacks {
						continue
					}
					ast.Inspect(hfd.Body, func(k ast.Node) bool {
						if ce, ok := k.(*ast.CallExpr); ok {
							if se, ok := ce.Fun.(*ast.SelectorExpr); ok {
								if id, ok := se.X.(*ast.Ident); ok && id.Obj == nil {
									if t, ok := px.pkgVars[id.Name]; ok && !strings.Contains(t, "int") {
										hijackVars[id.Name] = true
									}
								}
							}
						}
						return true
					})
				}
			}
			waitsWS, wsTimeoutIsParam := false, false
			ast.Inspect(fd.Body, func(k ast.Node) bool {
				gs, ok := k.(*ast.GoStmt)
				if !ok {
					return true
				}
				touches, done, ctxOK := false, false, false
				ctxVar := ""
				ast.Inspect(gs.Call.Fun, func(j ast.Node) bool {
					switch v := j.(type) {
					case *ast.AssignStmt:
						if len(v.Rhs) == 1 && len(v.Lhs) >= 1 {
							if c, ok := v.Rhs[0].(*ast.CallExpr); ok && x.src(c.Fun) == "context.WithTimeout" && len(c.Args) == 2 {
								if id, ok := c.Args[1].(*ast.Ident); ok && id.Name == param && param != "" {
									ctxOK = true
								}
								if id, ok := v.Lhs[0].(*ast.Ident); ok {
									ctxVar = id.Name
								}
							}
						}
					case *ast.CallExpr:
						if se, ok := v.Fun.(*ast.SelectorExpr); ok {
							if se.Sel.Name == "Done" {
								done = true
							}
							if id, ok := se.X.(*ast.Ident); ok && hijackVars[id.Name] && len(v.Args) == 1 {
								if a, ok := v.Args[0].(*ast.Ident); ok && a.Name == ctxVar && ctxVar != "" {
									touches = true
								}
							}
						}
					}
					return true
				})
				if touches && done {
					waitsWS = true
					wsTimeoutIsParam = ctxOK
				}
				return true
			})
			x.defBool("shutdownWaitsForHijacked", waitsWS)
			x.defBool("shutdownHijackedTimeoutIsParam", wsTimeoutIsParam)
			x.defBool("shutdownInstallsEmptyRegistry", resets)
			x.defBool("shutdownOneTimeoutCtxPerServer", perServer)
			x.defBool("shutdownTimeoutIsParam", timeoutIsParam)
			x.defBool("shutdownPassesCtxToServer", passesCtx)
		}

		// ---- registration: the function(s) that store into the registry, and every ListenAndServe* reaches one ----
		var las []string
		var serveEv []string
		var underLock []string
		var holders []string
		for _, f := range x.files("proxy") {
			for _, d := range f.Decls {
				fd, ok := d.(*ast.FuncDecl)
				if !ok || fd.Body == nil {
					continue
				}
				// does this function itself (not a helper) take the registry lock / store into the registry?
				takes, stores := false, false
				ast.Inspect(fd.Body, func(m ast.Node) bool {
					switch v := m.(type) {
					case *ast.CallExpr:
						if se, ok := v.Fun.(*ast.SelectorExpr); ok && se.Sel.Name == "Lock" {
							if id, ok := se.X.(*ast.Ident); ok && id.Name == lock {
								takes = true
							}
						}
					case *ast.AssignStmt:
						if len(v.Lhs) == 1 {
							if ix, ok := v.Lhs[0].(*ast.IndexExpr); ok {
								if id, ok := ix.X.(*ast.Ident); ok && id.Name == reg {
									stores = true
								}
							}
						}
					}
					return true
				})
				if takes {
					ev := px.events(fd)
					u, _ := c18between(ev, ".Lock", ".Unlock")
					underLock = append(underLock, u...)
					holders = append(holders, fd.Name.Name)
				}
				if stores && fd.Recv == nil {
					serveEv = append(serveEv, px.events(fd)...)
				}
				if fd.Recv == nil && strings.HasPrefix(fd.Name.Name, "ListenAndServe") {
					reaches := false
					for _, e := range px.events(fd) {
						if e == "store-registry" {
							reaches = true
						}
					}
					if !reaches {
						las = append(las, fd.Name.Name)
					}
				}
			}
		}
		// ---- the way from a ListenAndServe* call to the registration: one bind, nothing waits, nothing retries.
		// A start that could still be waiting (for its address, for a timer, for a channel) when proxy.Shutdown takes
		// its snapshot would register afterwards, in the fresh registry, which nothing ever shuts down.
		waits := func(e string) bool {
			switch e {
			case "time.Sleep", "time.After", "time.NewTimer", "time.Tick", "time.NewTicker", "time.AfterFunc", ".Wait":
				return true
			}
			return strings.HasPrefix(e, "<-")
		}
		var pathWaits []string
		listenLoops := false
		for _, f := range x.files("proxy") {
			for _, d := range f.Decls {
				fd, ok := d.(*ast.FuncDecl)
				if !ok || fd.Body == nil || fd.Recv != nil {
					continue
				}
				isLAS := strings.HasPrefix(fd.Name.Name, "ListenAndServe")
				isListen := fd.Name.Name == "ListenTCP"
				if !isLAS && !isListen {
					continue
				}
				for _, e := range px.events(fd) {
					if e == "store-registry" {
						break // what follows is the serving itself
					}
					if waits(e) {
						pathWaits = append(pathWaits, fd.Name.Name+":"+e)
					}
				}
				if isListen {
					// a bind inside a loop or a select is a retry
					ast.Inspect(fd.Body, func(m ast.Node) bool {
						switch v := m.(type) {
						case *ast.ForStmt, *ast.RangeStmt, *ast.SelectStmt:
							ast.Inspect(v, func(k ast.Node) bool {
								if ce, ok := k.(*ast.CallExpr); ok {
									if se, ok := ce.Fun.(*ast.SelectorExpr); ok {
										if id, ok := se.X.(*ast.Ident); ok && id.Name == "net" && strings.HasPrefix(se.Sel.Name, "Listen") {
											listenLoops = true
										}
									}
								}
								return true
							})
						}
						return true
					})
				}
			}
		}
		x.defSortedStrList("listenPathWaits", pathWaits)
		x.defBool("listenBindRetried", listenLoops)
		x.defStrList("serveEvents", serveEv)
		x.defSortedStrList("listenAndServeNotRegistering", las)
		// everything that happens between Lock and Unlock of the registry lock, in any function that takes it
		// (helpers called under the lock inlined); the exported ones must be among the holders
		x.defStrList("underRegistryLock", underLock)
		x.defSortedStrList("registryLockHolders", holders)

		// ---- tcp.Server.Shutdown ----
		tx := x.c18context("proxy/tcp")
		if fd := x.funcDecl("proxy/tcp", "Server", "Shutdown"); fd != nil {
			x.defStrList("tcpShutdownEvents", tx.events(fd))
			// the same events path by path: both branches of every `if` are walked, a `return` ends its path
			// (an early-return branch contributes its own sequence), unexported helpers are inlined
			paths := tx.paths(fd)
			var rows []string
			for _, p := range paths {
				var q []string
				for _, e := range p {
					q = append(q, leanStr(e))
				}
				rows = append(rows, "["+strings.Join(q, ", ")+"]")
			}
			x.defRaw("def tcpShutdownPaths : List (List String) := [" + strings.Join(rows, ", ") + "]")
		}
		// ---- the gRPC server: the struct with a *grpc.Server field; its Shutdown ----
		grpcType := ""
		for _, f := range x.files("proxy") {
			for _, d := range f.Decls {
				if gd, ok := d.(*ast.GenDecl); ok && gd.Tok == token.TYPE {
					for _, s := range gd.Specs {
						ts := s.(*ast.TypeSpec)
						if st, ok := ts.Type.(*ast.StructType); ok {
							for _, fl := range st.Fields.List {
								if x.src(fl.Type) == "*grpc.Server" {
									grpcType = ts.Name.Name
								}
							}
						}
					}
				}
			}
		}
		if grpcType == "" {
			x.fail("proxy: no struct with a *grpc.Server field")
		} else if fd := x.funcDecl("proxy", grpcType, "Shutdown"); fd != nil {
			p := c18paramName(fd, 0)
			x.defBool("grpcShutdownUsesCtx", p != "" && p != "_" && c18usesIdent(fd.Body, p))
			x.defStrList("grpcShutdownEvents", px.events(fd))
		}
		// ---- InetAfTCPProxyServer.Shutdown ----
		if fd := x.funcDecl("proxy", "InetAfTCPProxyServer", "Shutdown"); fd != nil {
			x.defStrList("inetafShutdownEvents", px.events(fd))
			ok := false
			p := c18paramName(fd, 0)
			x.WalkInlined("proxy", fd, func(m ast.Node) bool {
				if c, isCall := m.(*ast.CallExpr); isCall {
					if se, isSel := c.Fun.(*ast.SelectorExpr); isSel && se.Sel.Name == "Shutdown" && len(c.Args) == 1 {
						if id, isId := c.Args[0].(*ast.Ident); isId && id.Name == p && p != "" {
							ok = true
						}
					}
				}
				return true
			})
			x.defBool("inetafChildrenGetCtx", ok)
		}
		// ---- exit.Listen: os/signal calls, channel receives, the call of the handler ----
		ex := x.c18context("exit")
		if fd := x.funcDecl("exit", "", "Listen"); fd != nil {
			var ev []string
			for _, e := range ex.events(fd) {
				if strings.HasPrefix(e, "signal.") || strings.HasPrefix(e, "<-") || e == "handler" {
					ev = append(ev, e)
				}
			}
			x.defStrList("exitListenEvents", ev)
			// every wait for a signal must also watch the channel exit.Exit closes: a receive that is not a case of
			// a select which has a case receiving from a package-level channel is a wait that Exit/Fatal cannot end
			commRecv := func(st ast.Stmt) *ast.UnaryExpr {
				var e ast.Expr
				switch v := st.(type) {
				case *ast.ExprStmt:
					e = v.X
				case *ast.AssignStmt:
					if len(v.Rhs) == 1 {
						e = v.Rhs[0]
					}
				}
				if u, ok := e.(*ast.UnaryExpr); ok && u.Op == token.ARROW {
					return u
				}
				return nil
			}
			isPkgChan := func(u *ast.UnaryExpr) bool {
				id := c18rootIdent(u.X)
				if id == nil {
					return false
				}
				_, ok := ex.pkgVars[id.Name]
				return ok
			}
			covered := map[*ast.UnaryExpr]bool{}
			selects := 0
			ast.Inspect(fd.Body, func(m ast.Node) bool {
				sel, ok := m.(*ast.SelectStmt)
				if !ok {
					return true
				}
				var recvs []*ast.UnaryExpr
				watchesQuit := false
				for _, cl := range sel.Body.List {
					if cc, ok := cl.(*ast.CommClause); ok && cc.Comm != nil {
						if u := commRecv(cc.Comm); u != nil {
							recvs = append(recvs, u)
							if isPkgChan(u) {
								watchesQuit = true
							}
						}
					}
				}
				if watchesQuit {
					selects++
					for _, u := range recvs {
						covered[u] = true
					}
				}
				return true
			})
			bare := 0
			ast.Inspect(fd.Body, func(m ast.Node) bool {
				if u, ok := m.(*ast.UnaryExpr); ok && u.Op == token.ARROW && !covered[u] {
					bare++
				}
				return true
			})
			// the channel handed to signal.Notify: its capacity, and whether Notify sits inside a loop (a channel per
			// iteration misses what arrives between two registrations)
			chanCap, notifyInLoop := uint64(0), false
			notifyChans := map[string]bool{}
			for _, c := range x.calls(fd.Body, "signal.Notify") {
				if len(c.Args) > 0 {
					if id, ok := c.Args[0].(*ast.Ident); ok {
						notifyChans[id.Name] = true
					}
				}
			}
			ast.Inspect(fd.Body, func(m ast.Node) bool {
				switch v := m.(type) {
				case *ast.AssignStmt:
					if len(v.Lhs) == 1 && len(v.Rhs) == 1 {
						if id, ok := v.Lhs[0].(*ast.Ident); ok && notifyChans[id.Name] {
							if c, ok := v.Rhs[0].(*ast.CallExpr); ok && x.src(c.Fun) == "make" && len(c.Args) == 2 {
								if bl, ok := c.Args[1].(*ast.BasicLit); ok && bl.Kind == token.INT {
									n, _ := strconv.ParseUint(bl.Value, 10, 64)
									chanCap = n
								}
							}
						}
					}
				case *ast.ForStmt:
					if len(x.calls(v.Body, "signal.Notify")) > 0 {
						notifyInLoop = true
					}
				case *ast.RangeStmt:
					if len(x.calls(v.Body, "signal.Notify")) > 0 {
						notifyInLoop = true
					}
				}
				return true
			})
			x.defNat("exitListenChanCap", chanCap)
			x.defBool("exitListenNotifyInLoop", notifyInLoop)
			x.defNat("exitListenSelectsWithQuit", uint64(selects))
			x.defNat("exitListenReceivesWithoutQuit", uint64(bare))
		}
		// ---- package main: the exit handler handed to exit.Listen, and the tcp-dynamic refresher ----
		mx := x.c18context(".")
		flag := ""
		if fd := x.funcDecl(".", "", "main"); fd != nil {
			ls := x.calls(fd.Body, "exit.Listen")
			if len(ls) != 1 || len(ls[0].Args) != 1 {
				x.fail("main: expected exactly one exit.Listen(func…) call")
			} else if fl, ok := ls[0].Args[0].(*ast.FuncLit); !ok {
				x.fail("main: exit.Listen argument is not a function literal")
			} else {
				synth := &ast.FuncDecl{Name: ast.NewIdent("exitHandler"), Type: fl.Type, Body: fl.Body}
				x.defStrList("exitHandlerEvents", mx.events(synth))
				arg := func(fn string) string {
					cs := x.calls(fl.Body, fn)
					if len(cs) == 1 && len(cs[0].Args) == 1 {
						return x.c18fieldPath(cs[0].Args[0])
					}
					return ""
				}
				x.defStr("exitHandlerSleepArg", arg("time.Sleep"))
				x.defStr("exitHandlerShutdownArg", arg("proxy.Shutdown"))
				// the shutting-down flag: what the handler's atomic.StoreInt32 writes
				if cs := x.calls(fl.Body, "atomic.StoreInt32"); len(cs) >= 1 && len(cs[0].Args) == 2 {
					if id := c18rootIdent(cs[0].Args[0]); id != nil {
						flag = id.Name
					}
				}
			}
		}
		if flag == "" {
			x.fail("main: the exit handler does not set a flag with atomic.StoreInt32")
		}
		// the function with the case "tcp-dynamic"
		var starter *ast.FuncDecl
		for _, f := range x.files(".") {
			for _, d := range f.Decls {
				if fd, ok := d.(*ast.FuncDecl); ok && fd.Body != nil {
					ast.Inspect(fd.Body, func(m ast.Node) bool {
						if bl, ok := m.(*ast.BasicLit); ok && bl.Kind == token.STRING && bl.Value == `"tcp-dynamic"` {
							starter = fd
						}
						return starter == nil
					})
				}
			}
		}
		if starter == nil {
			x.fail("main: no function mentions \"tcp-dynamic\"")
		} else {
			// the refresh loop: the first condition-less for loop reachable from it (helpers inlined) that sleeps
			// and, directly or through helpers, listens
			var loop *ast.ForStmt
			classify := func(body *ast.BlockStmt) []string {
				var ev []string
				synth := &ast.FuncDecl{Name: ast.NewIdent("refreshLoop"), Type: &ast.FuncType{Params: &ast.FieldList{}}, Body: body}
				x.WalkInlined(".", synth, func(k ast.Node) bool {
					switch v := k.(type) {
					case *ast.CallExpr:
						switch x.src(v.Fun) {
						case "time.Sleep":
							ev = append(ev, "sleep")
						case "net.Listen", "proxy.ListenAndServeTCP":
							ev = append(ev, "listen")
						}
					case *ast.Ident:
						if v.Name == flag && flag != "" {
							ev = append(ev, "test")
						}
					}
					return true
				})
				return ev
			}
			var loopEv []string
			x.WalkInlined(".", starter, func(m ast.Node) bool {
				if fs, ok := m.(*ast.ForStmt); ok && loop == nil && fs.Cond == nil {
					ev := classify(fs.Body)
					hasS, hasL := false, false
					for _, e := range ev {
						hasS = hasS || e == "sleep"
						hasL = hasL || e == "listen"
					}
					if hasS && hasL {
						loop, loopEv = fs, ev
					}
				}
				return true
			})
			if loop == nil {
				x.fail("main: tcp-dynamic refresh loop (for { … sleep … listen … }) not found")
			}
			x.defStrList("refresherLoopEvents", loopEv)
		}
		return nil
	})
}
