package main

import (
	"fmt"
	"go/ast"
	"go/importer"
	"go/token"
	"go/types"
	"os"
	"path/filepath"
	"sort"
	"strings"
)

// C06: the facts that pin the model's micro-step lists to the code.
//
//   rrPicker        — how many times Route.total is read plainly, how many atomic adds there are, and whether the
//                     ring index is computed from the RESULT of the atomic add (single fetch-add) or from a
//                     separate read.
//   GlobCache.Get   — whether GlobCache has a sync.Mutex, and the shared accesses of Get in source order, split
//                     into those before the Lock (lock-free fast path) and those between Lock and Unlock.
//   lookupWrites    — every store / atomic op / sync.Map mutation on memory of an in-package struct type, a Table,
//                     or a package-level variable, in the functions reachable from Table.Lookup / LookupHost
//                     (call graph inside package route, pickers and matchers included), as (function, kind, what).
//                     Writes inside a method whose receiver is — at every call site on the lookup path — a local
//                     copy (`x := *p`) are "local-copy" writes (kind "copy").
//   proxyTargetWrites — assignments through the target variable in HTTPProxy.ServeHTTP.
//
// The package is type-checked with go/types and a stub importer (imports resolve to empty packages, errors are
// ignored): identifiers and selections of in-package types resolve, which is all the extraction needs.

type c06StubImporter struct{ pkgs map[string]*types.Package }

func (s c06StubImporter) Import(path string) (*types.Package, error) {
	if p, ok := s.pkgs[path]; ok && p != nil {
		return p, nil
	}
	name := path[strings.LastIndex(path, "/")+1:]
	p := types.NewPackage(path, name)
	if path == "net/url" {
		c06DeclareURL(p)
	}
	p.MarkComplete()
	s.pkgs[path] = p
	return p, nil
}

// c06DeclareURL gives the stub of net/url its one struct the route package exposes everywhere (Target.URL,
// Target.RedirectURL): with the field types known, `t.URL.Host` handed to a function is a string value, not a
// reference into the table.
func c06DeclareURL(p *types.Package) {
	str := types.Typ[types.String]
	boolT := types.Typ[types.Bool]
	ui := types.NewNamed(types.NewTypeName(token.NoPos, p, "Userinfo", nil), types.NewStruct(nil, nil), nil)
	p.Scope().Insert(ui.Obj())
	var fields []*types.Var
	for _, f := range []string{"Scheme", "Opaque"} {
		fields = append(fields, types.NewField(token.NoPos, p, f, str, false))
	}
	fields = append(fields, types.NewField(token.NoPos, p, "User", types.NewPointer(ui), false))
	for _, f := range []string{"Host", "Path", "RawPath"} {
		fields = append(fields, types.NewField(token.NoPos, p, f, str, false))
	}
	fields = append(fields, types.NewField(token.NoPos, p, "OmitHost", boolT, false), types.NewField(token.NoPos, p, "ForceQuery", boolT, false))
	for _, f := range []string{"RawQuery", "Fragment", "RawFragment"} {
		fields = append(fields, types.NewField(token.NoPos, p, f, str, false))
	}
	u := types.NewNamed(types.NewTypeName(token.NoPos, p, "URL", nil), types.NewStruct(fields, nil), nil)
	p.Scope().Insert(u.Obj())
}

var _ = importer.Default

type c06Write struct{ fn, kind, what string }

type c06 struct {
	x     *X
	info  *types.Info
	pkg   *types.Package
	funcs map[types.Object]*ast.FuncDecl
	// alias: local variables of the function under analysis that hold a reference obtained from shared memory
	// (`c := target.redirectCache`, `u := t.URL`, `for _, r := range t[host]`), with what they refer to
	alias map[types.Object]string
	// lockedHelpers: unexported helpers that run only inside GlobCache.Get's critical section
	lockedHelpers map[types.Object]bool
	// routePkg: when another package is analysed (external writes), the type-checked package route: its named
	// types count as shared memory there too
	routePkg *types.Package
	// paramAlias: parameters of in-package functions that receive, at some call site of the analysed reach, a
	// reference into shared memory (`promote(rules, i)` with `rules := t.accessRules[tag]`): inside the callee the
	// parameter denotes that memory. Conservative: one shared call site makes the parameter shared.
	paramAlias map[types.Object]string
}

func c06FuncName(fd *ast.FuncDecl) string {
	if fd.Recv != nil && len(fd.Recv.List) == 1 {
		t := fd.Recv.List[0].Type
		if st, ok := t.(*ast.StarExpr); ok {
			t = st.X
		}
		if id, ok := t.(*ast.Ident); ok {
			return id.Name + "." + fd.Name.Name
		}
	}
	return fd.Name.Name
}

func (c *c06) load(dir string) bool { return c.loadWith(dir, nil) }

// loadWith type-checks a package directory; `known` are packages served to its imports as they are (the checked
// package route, so that route.Target and its fields resolve in the packages that use it).
func (c *c06) loadWith(dir string, known map[string]*types.Package) bool {
	files := c.x.files(dir)
	if len(files) == 0 {
		return false
	}
	c.info = &types.Info{
		Types:      map[ast.Expr]types.TypeAndValue{},
		Defs:       map[*ast.Ident]types.Object{},
		Uses:       map[*ast.Ident]types.Object{},
		Selections: map[*ast.SelectorExpr]*types.Selection{},
	}
	pkgs := map[string]*types.Package{}
	for k, v := range known {
		pkgs[k] = v
	}
	conf := types.Config{Importer: c06StubImporter{pkgs}, Error: func(error) {}, DisableUnusedImportCheck: true}
	path := "github.com/fabiolb/fabio/" + dir
	if dir == "" {
		path = "github.com/fabiolb/fabio"
	}
	c.pkg, _ = conf.Check(path, c.x.fset, files, c.info)
	c.funcs = map[types.Object]*ast.FuncDecl{}
	for _, f := range files {
		for _, d := range f.Decls {
			if fd, ok := d.(*ast.FuncDecl); ok && fd.Body != nil {
				if o := c.info.Defs[fd.Name]; o != nil {
					c.funcs[o] = fd
				}
			}
			// package-level `var f = func(…) {…}` (randIntn): a function of the call graph like any other
			if gd, ok := d.(*ast.GenDecl); ok && gd.Tok == token.VAR {
				for _, sp := range gd.Specs {
					vs, ok := sp.(*ast.ValueSpec)
					if !ok {
						continue
					}
					for i, n := range vs.Names {
						if i < len(vs.Values) {
							if lit, ok := vs.Values[i].(*ast.FuncLit); ok {
								if o := c.info.Defs[n]; o != nil {
									c.funcs[o] = &ast.FuncDecl{Name: n, Type: lit.Type, Body: lit.Body}
								}
							}
						}
					}
				}
			}
		}
	}
	return c.pkg != nil
}

// namedOf strips pointers and returns the in-package named type of t ("" if none).
func (c *c06) namedOf(t types.Type) string {
	for {
		p, ok := t.(*types.Pointer)
		if !ok {
			break
		}
		t = p.Elem()
	}
	if n, ok := t.(*types.Named); ok && n.Obj().Pkg() != nil && (n.Obj().Pkg() == c.pkg || n.Obj().Pkg() == c.routePkg) {
		return n.Obj().Name()
	}
	return ""
}

// c06RootIdent returns the identifier an lvalue/operand expression is rooted at.
func c06RootIdent(e ast.Expr) *ast.Ident {
	for {
		switch v := e.(type) {
		case *ast.Ident:
			return v
		case *ast.SelectorExpr:
			e = v.X
		case *ast.IndexExpr:
			e = v.X
		case *ast.StarExpr:
			e = v.X
		case *ast.ParenExpr:
			e = v.X
		case *ast.UnaryExpr:
			e = v.X
		case *ast.SliceExpr:
			e = v.X
		default:
			return nil
		}
	}
}

// describe classifies the memory an lvalue denotes: "Type.field" for a field of an in-package struct,
// "Table[]" for an element of a Table/in-package map or slice type, "var <name>" for a package-level variable;
// "" for everything else (locals, memory of foreign types such as the request).
func (c *c06) describe(e ast.Expr) string {
	switch v := e.(type) {
	case *ast.ParenExpr:
		return c.describe(v.X)
	case *ast.SelectorExpr:
		if sel := c.info.Selections[v]; sel != nil && sel.Kind() == types.FieldVal {
			if n := c.namedOf(sel.Recv()); n != "" {
				return n + "." + v.Sel.Name
			}
		}
		return c.describe(v.X) // a field of a foreign struct stored inside in-package memory
	case *ast.IndexExpr:
		if tv, ok := c.info.Types[v.X]; ok {
			if n := c.namedOf(tv.Type); n != "" {
				return n + "[]"
			}
		}
		return c.describe(v.X)
	case *ast.StarExpr:
		if tv, ok := c.info.Types[v.X]; ok {
			if n := c.namedOf(tv.Type); n != "" {
				return "*" + n
			}
		}
		return c.describe(v.X)
	case *ast.Ident:
		if o := c.info.Uses[v]; o != nil {
			if vr, ok := o.(*types.Var); ok && !vr.IsField() && vr.Parent() == c.pkg.Scope() {
				return "var:" + c.varKind(vr)
			}
			if a, ok := c.alias[o]; ok {
				return a
			}
			if a, ok := c.paramAlias[o]; ok {
				return a
			}
		}
	case *ast.TypeAssertExpr:
		return c.describe(v.X)
	case *ast.UnaryExpr:
		if v.Op == token.AND {
			return c.describe(v.X)
		}
	case *ast.SliceExpr:
		return c.describe(v.X)
	}
	return ""
}

// varKind names a package-level variable by what it is — its declared type, or the callee of its initialiser —
// so that renaming it does not change a fact ("var:sync.Once", "var:rand.New()").
func (c *c06) varKind(vr *types.Var) string {
	if c.routePkg != nil {
		return vr.Name()
	}
	for _, f := range c.x.files("route") {
		for _, d := range f.Decls {
			gd, ok := d.(*ast.GenDecl)
			if !ok || gd.Tok != token.VAR {
				continue
			}
			for _, sp := range gd.Specs {
				vs := sp.(*ast.ValueSpec)
				for i, n := range vs.Names {
					if c.info.Defs[n] != vr {
						continue
					}
					if vs.Type != nil {
						return c.x.src(vs.Type)
					}
					if i < len(vs.Values) {
						if call, ok := vs.Values[i].(*ast.CallExpr); ok {
							return c.x.src(call.Fun) + "()"
						}
						if _, ok := vs.Values[i].(*ast.CompositeLit); ok {
							return c.x.src(vs.Values[i].(*ast.CompositeLit).Type)
						}
					}
					return "untyped"
				}
			}
		}
	}
	return "?"
}

// pickerFunc: the function registered under a strategy name in the exported map route.Picker (a role, not a name).
func (c *c06) pickerFunc(key string) (types.Object, *ast.FuncDecl) {
	e := c.x.valueSpec("route", "Picker")
	cl, ok := e.(*ast.CompositeLit)
	if !ok {
		c.x.fail("route.Picker is not a composite literal")
		return nil, nil
	}
	for _, el := range cl.Elts {
		kv, ok := el.(*ast.KeyValueExpr)
		if !ok {
			continue
		}
		if k, ok := c.x.strLit(kv.Key); ok && k == key {
			if id, ok := kv.Value.(*ast.Ident); ok {
				if o := c.info.Uses[id]; o != nil {
					return o, c.funcs[o]
				}
			}
		}
	}
	c.x.fail("route.Picker[%q] not found", key)
	return nil, nil
}

// externalCalls: every call reachable from fd inside the package (helpers and func-literal variables are followed)
// whose callee is not an in-package function: by callee text, with a package-level receiver named by its kind.
func (c *c06) externalCalls(fd *ast.FuncDecl) []string {
	seen := map[*ast.FuncDecl]bool{}
	out := map[string]bool{}
	var walk func(fd *ast.FuncDecl, depth int)
	walk = func(fd *ast.FuncDecl, depth int) {
		if fd == nil || fd.Body == nil || seen[fd] || depth > 4 {
			return
		}
		seen[fd] = true
		ast.Inspect(fd.Body, func(n ast.Node) bool {
			call, ok := n.(*ast.CallExpr)
			if !ok {
				return true
			}
			switch f := call.Fun.(type) {
			case *ast.FuncLit:
			case *ast.Ident:
				if o := c.info.Uses[f]; o != nil {
					if callee, ok := c.funcs[o]; ok {
						walk(callee, depth+1)
						return true
					}
				}
				out[f.Name] = true
			case *ast.SelectorExpr:
				if o := c.info.Uses[f.Sel]; o != nil {
					if callee, ok := c.funcs[o]; ok {
						walk(callee, depth+1)
						return true
					}
				}
				if id, ok := f.X.(*ast.Ident); ok {
					if vr, ok := c.info.Uses[id].(*types.Var); ok && !vr.IsField() && vr.Parent() == c.pkg.Scope() {
						out["var:"+c.varKind(vr)+"."+f.Sel.Name] = true
						return true
					}
				}
				out[c.x.src(f)] = true
			}
			return true
		})
	}
	walk(fd, 0)
	var l []string
	for k := range out {
		l = append(l, k)
	}
	sort.Strings(l)
	return l
}

// computeAliases fills c.alias for one function: a local assigned from (a reference into) shared memory keeps
// referring to it. A by-value struct copy (`x := *p`) is not an alias (its own fields are per-request), but what
// its pointer fields refer to still is — see the depth rule in writes.
func (c *c06) computeAliases(fd *ast.FuncDecl) {
	c.alias = map[types.Object]string{}
	bind := func(l ast.Expr, r ast.Expr) {
		id, ok := l.(*ast.Ident)
		if !ok || id.Name == "_" {
			return
		}
		o := c.info.Defs[id]
		if o == nil {
			o = c.info.Uses[id]
		}
		if o == nil {
			return
		}
		if _, isCopy := r.(*ast.StarExpr); isCopy {
			return
		}
		if call, ok := r.(*ast.CallExpr); ok {
			// a method called on shared memory hands back something that may refer into it: x := c.Load()
			if se, ok := call.Fun.(*ast.SelectorExpr); ok {
				if d := c.describe(se.X); d != "" && !strings.HasPrefix(d, "var ") {
					if _, inPkg := c.funcs[c.info.Uses[se.Sel]]; !inPkg {
						c.alias[o] = d + "." + se.Sel.Name + "()"
					}
				}
			}
			return
		}
		if d := c.describe(r); d != "" {
			// scalars read out of shared memory are values, not references: only keep reference-like types
			if tv, ok := c.info.Types[r]; ok && tv.Type != nil {
				switch u := tv.Type.Underlying().(type) {
				case *types.Basic:
					if u.Kind() != types.Invalid {
						return
					}
				}
			}
			c.alias[o] = d
		}
	}
	for pass := 0; pass < 3; pass++ {
		ast.Inspect(fd.Body, func(n ast.Node) bool {
			switch v := n.(type) {
			case *ast.AssignStmt:
				if len(v.Lhs) == len(v.Rhs) {
					for i := range v.Lhs {
						bind(v.Lhs[i], v.Rhs[i])
					}
				} else if len(v.Rhs) == 1 && len(v.Lhs) >= 1 {
					bind(v.Lhs[0], v.Rhs[0])
				}
			case *ast.RangeStmt:
				if v.Value != nil {
					bind(v.Value, &ast.IndexExpr{X: v.X, Index: ast.NewIdent("_")})
				}
			}
			return true
		})
	}
}

// c06ReadOnly: methods of foreign types that only read (or only synchronise); every other method called on a
// receiver rooted in shared memory is reported as a "call" write.
var c06ReadOnly = map[string]bool{"Load": true, "String": true, "Match": true, "Get": true, "Len": true,
	"Hostname": true, "Port": true, "Query": true, "EscapedPath": true, "EscapedFragment": true, "IsAbs": true,
	"RequestURI": true, "Redacted": true, "Contains": true, "Equal": true, "Error": true, "Values": true,
	"Lock": true, "Unlock": true, "RLock": true, "RUnlock": true}

// fieldDepth: number of selector/index/deref steps between the root identifier and the denoted memory.
func fieldDepth(e ast.Expr) int {
	switch v := e.(type) {
	case *ast.SelectorExpr:
		return 1 + fieldDepth(v.X)
	case *ast.IndexExpr:
		return 1 + fieldDepth(v.X)
	case *ast.StarExpr:
		return 1 + fieldDepth(v.X)
	case *ast.ParenExpr:
		return fieldDepth(v.X)
	}
	return 0
}

// firstField: the field selected directly on the root identifier (x.f.g.h -> f).
func firstField(e ast.Expr) string {
	for {
		switch v := e.(type) {
		case *ast.SelectorExpr:
			if _, ok := v.X.(*ast.Ident); ok {
				return v.Sel.Name
			}
			e = v.X
		case *ast.IndexExpr:
			e = v.X
		case *ast.StarExpr:
			e = v.X
		case *ast.ParenExpr:
			e = v.X
		default:
			return ""
		}
	}
}

// freshFields: fields of `root` that this function assigns a freshly allocated value (&T{…}, T{…}, new, make).
func (c *c06) freshFields(fd *ast.FuncDecl, root types.Object) map[string]bool {
	out := map[string]bool{}
	ast.Inspect(fd.Body, func(n ast.Node) bool {
		as, ok := n.(*ast.AssignStmt)
		if !ok {
			return true
		}
		for i, l := range as.Lhs {
			se, ok := l.(*ast.SelectorExpr)
			if !ok || i >= len(as.Rhs) {
				continue
			}
			id, ok := se.X.(*ast.Ident)
			if !ok || c.info.Uses[id] != root {
				continue
			}
			r := as.Rhs[i]
			if u, ok := r.(*ast.UnaryExpr); ok && u.Op == token.AND {
				r = u.X
			}
			switch v := r.(type) {
			case *ast.CompositeLit:
				out[se.Sel.Name] = true
			case *ast.CallExpr:
				if f, ok := v.Fun.(*ast.Ident); ok && (f.Name == "new" || f.Name == "make") {
					out[se.Sel.Name] = true
				}
			}
		}
		return true
	})
	return out
}

// isLocalCopy reports whether id names a local variable declared as `id := *expr` (a by-value copy).
func (c *c06) isLocalCopy(fd *ast.FuncDecl, id *ast.Ident) bool {
	obj := c.info.Uses[id]
	if obj == nil {
		obj = c.info.Defs[id]
	}
	found := false
	ast.Inspect(fd.Body, func(n ast.Node) bool {
		as, ok := n.(*ast.AssignStmt)
		if !ok || as.Tok != token.DEFINE {
			return true
		}
		for i, l := range as.Lhs {
			li, ok := l.(*ast.Ident)
			if !ok || c.info.Defs[li] != obj || i >= len(as.Rhs) {
				continue
			}
			if _, ok := as.Rhs[i].(*ast.StarExpr); ok {
				found = true
			}
		}
		return true
	})
	return found
}

var c06Atomic = map[string]bool{"AddUint64": true, "AddInt64": true, "AddUint32": true, "AddInt32": true,
	"StoreUint64": true, "StoreInt64": true, "StoreUint32": true, "StoreInt32": true, "StorePointer": true,
	"SwapUint64": true, "CompareAndSwapUint64": true, "CompareAndSwapInt64": true, "CompareAndSwapUint32": true, "CompareAndSwapInt32": true}

var c06MapMut = map[string]bool{"Store": true, "Delete": true, "LoadOrStore": true, "LoadAndDelete": true, "Swap": true, "CompareAndSwap": true, "CompareAndDelete": true, "Range": false}

// writes lists the shared writes of one function body. recvLocal: the receiver is a per-request copy.
func (c *c06) writes(fd *ast.FuncDecl, recvLocal bool) []c06Write {
	name := c06FuncName(fd)
	var recvObj types.Object
	if fd.Recv != nil && len(fd.Recv.List) == 1 && len(fd.Recv.List[0].Names) == 1 {
		recvObj = c.info.Defs[fd.Recv.List[0].Names[0]]
	}
	var out []c06Write
	c.computeAliases(fd)
	lockPos, hasLock := c06LockPos(c.x, fd)
	if c.lockedHelpers[c.info.Defs[fd.Name]] {
		lockPos, hasLock = token.NoPos, true // runs only inside the caller's critical section
	}
	// isCopyWrite: the memory belongs to a per-request by-value copy: a field of the copy itself, or something
	// reached through a field that this function freshly allocated on the copy. Anything else reached THROUGH
	// a (shallow) copy is still the shared object's.
	isCopyWrite := func(e ast.Expr) bool {
		id := c06RootIdent(e)
		if id == nil {
			return false
		}
		o := c.info.Uses[id]
		if o == nil {
			return false
		}
		if !((o == recvObj && recvLocal) || (o != recvObj && c.isLocalCopy(fd, id))) {
			return false
		}
		return fieldDepth(e) <= 1 || c.freshFields(fd, o)[firstField(e)]
	}
	add := func(pos token.Pos, kind string, lhs ast.Expr) {
		what := c.describe(lhs)
		if what == "" {
			return
		}
		if isCopyWrite(lhs) {
			kind = "copy"
		}
		if kind == "plain" && hasLock && pos > lockPos {
			kind = "locked"
		}
		out = append(out, c06Write{name, kind, what})
	}
	ast.Inspect(fd.Body, func(n ast.Node) bool {
		switch v := n.(type) {
		case *ast.AssignStmt:
			for _, l := range v.Lhs {
				if id, ok := l.(*ast.Ident); ok {
					// rebinding a local (even one that aliases shared memory) writes nothing shared; only a
					// package-level variable counts
					vr, isVar := c.info.Uses[id].(*types.Var)
					if v.Tok == token.DEFINE || !isVar || vr.Parent() != c.pkg.Scope() {
						continue
					}
				}
				add(v.Pos(), "plain", l)
			}
		case *ast.IncDecStmt:
			add(v.Pos(), "plain", v.X)
		case *ast.CallExpr:
			if se, ok := v.Fun.(*ast.SelectorExpr); ok {
				if pk, ok := se.X.(*ast.Ident); ok && pk.Name == "atomic" && c06Atomic[se.Sel.Name] && len(v.Args) > 0 {
					if u, ok := v.Args[0].(*ast.UnaryExpr); ok && u.Op == token.AND {
						add(v.Pos(), "atomic", u.X)
					}
				}
				// any method of a foreign type called on a receiver rooted in shared memory (a sync.Map, atomic.Value,
				// sync.Once, a metrics handle, a *url.URL … field of Table/Route/Target/GlobCache, directly or through
				// a local alias or a shallow copy), unless the method is known to be read-only. Methods of in-package
				// types are followed by the call graph instead.
				_, isPkg := c.info.Uses[c06RootIdentOrNil(se.X)].(*types.PkgName)
				_, inPkg := c.funcs[c.info.Uses[se.Sel]]
				if !isPkg && !inPkg && !c06ReadOnly[se.Sel.Name] {
					if what := c.describe(se.X); what != "" && fieldDepth(se.X) >= 0 {
						kind := "call"
						if c.isFreshThroughCopy(fd, se.X, recvObj, recvLocal) {
							kind = "copy"
						} else if hasLock && v.Pos() > lockPos {
							kind = "locked"
						}
						out = append(out, c06Write{name, kind, what + "." + se.Sel.Name})
					}
				}
			}
			// append(x.f, …) assigned back is caught by the assignment; delete(m, k) on shared maps:
			if id, ok := v.Fun.(*ast.Ident); ok && id.Name == "delete" && len(v.Args) == 2 {
				add(v.Pos(), "plain", &ast.IndexExpr{X: v.Args[0], Index: v.Args[1]})
			}
		}
		return true
	})
	out = append(out, c.foreignCallWrites(fd, name, isCopyWrite, hasLock, lockPos)...)
	return out
}

func c06RootIdentOrNil(e ast.Expr) *ast.Ident {
	if id := c06RootIdent(e); id != nil {
		return id
	}
	return ast.NewIdent("_")
}

// isFreshThroughCopy: the receiver expression is reached through a field that this function freshly allocated on
// a per-request copy.
func (c *c06) isFreshThroughCopy(fd *ast.FuncDecl, e ast.Expr, recvObj types.Object, recvLocal bool) bool {
	id := c06RootIdent(e)
	if id == nil {
		return false
	}
	o := c.info.Uses[id]
	if o == nil {
		return false
	}
	if !((o == recvObj && recvLocal) || (o != recvObj && c.isLocalCopy(fd, id))) {
		return false
	}
	return c.freshFields(fd, o)[firstField(e)]
}

// globEvents lists, in evaluation order, the accesses of one function to the fields of GlobCache ("read n", "write l",
// "m.Store", …) with "LOCK" / "DEFER-UNLOCK" markers; a call to an in-package function or method with a body is
// replaced by that function's own events (depth ≤ 4). Helpers spliced in while the lock is held are recorded.
func (c *c06) globEvents(fd *ast.FuncDecl, depth int, stack map[*ast.FuncDecl]bool, locked bool, helpers map[types.Object]bool) []string {
	if fd == nil || fd.Body == nil || depth > 4 || stack[fd] {
		return nil
	}
	stack[fd] = true
	defer delete(stack, fd)
	type ev struct {
		pos  token.Pos
		seq  int
		what string
		call types.Object
	}
	var evs []ev
	seq := 0
	add := func(pos token.Pos, what string, call types.Object) {
		seq++
		evs = append(evs, ev{pos, seq, what, call})
	}
	written := map[ast.Node]bool{}
	ast.Inspect(fd.Body, func(n ast.Node) bool {
		switch v := n.(type) {
		case *ast.DeferStmt:
			if se, ok := v.Call.Fun.(*ast.SelectorExpr); ok && (se.Sel.Name == "Unlock" || se.Sel.Name == "RUnlock") {
				add(v.Pos(), "DEFER-UNLOCK", nil)
				return false
			}
		case *ast.AssignStmt:
			for _, l := range v.Lhs {
				if d := c.describe(l); strings.HasPrefix(d, "GlobCache.") {
					base := l
					if ie, ok := l.(*ast.IndexExpr); ok {
						base = ie.X
					}
					written[base] = true
					// `c.h = (c.h+1) % c.n` evaluates its right-hand side first: the write goes to the end
					add(v.End(), "write "+strings.TrimPrefix(d, "GlobCache."), nil)
				}
			}
		case *ast.IncDecStmt:
			if d := c.describe(v.X); strings.HasPrefix(d, "GlobCache.") {
				add(v.Pos(), "read "+strings.TrimPrefix(d, "GlobCache."), nil)
				add(v.End(), "write "+strings.TrimPrefix(d, "GlobCache."), nil)
				written[v.X] = true
			}
		case *ast.CallExpr:
			if se, ok := v.Fun.(*ast.SelectorExpr); ok {
				if inner, ok := se.X.(*ast.SelectorExpr); ok && c.describe(inner) == "GlobCache.m" {
					written[inner] = true
					add(v.End(), "m."+se.Sel.Name, nil)
				}
				if se.Sel.Name == "Lock" && len(v.Args) == 0 {
					add(v.Pos(), "LOCK", nil)
				}
				if o := c.info.Uses[se.Sel]; o != nil {
					if _, ok := c.funcs[o]; ok {
						add(v.End(), "", o)
					}
				}
			}
			if id, ok := v.Fun.(*ast.Ident); ok {
				if o := c.info.Uses[id]; o != nil {
					if _, ok := c.funcs[o]; ok {
						add(v.End(), "", o)
					}
				}
			}
		}
		return true
	})
	ast.Inspect(fd.Body, func(n ast.Node) bool {
		if se, ok := n.(*ast.SelectorExpr); ok && !written[se] {
			if d := c.describe(se); d == "GlobCache.l" || d == "GlobCache.h" || d == "GlobCache.n" {
				add(se.Pos(), "read "+strings.TrimPrefix(d, "GlobCache."), nil)
			}
		}
		return true
	})
	sort.SliceStable(evs, func(i, j int) bool {
		if evs[i].pos != evs[j].pos {
			return evs[i].pos < evs[j].pos
		}
		return evs[i].seq < evs[j].seq
	})
	var out []string
	ownLock, ownDefer := false, false
	for _, e := range evs {
		switch {
		case e.call != nil:
			if locked && depth+1 <= 4 {
				helpers[e.call] = true
			}
			out = append(out, c.globEvents(c.funcs[e.call], depth+1, stack, locked, helpers)...)
		default:
			if e.what == "LOCK" {
				locked = true
				ownLock = true
			}
			if e.what == "DEFER-UNLOCK" && ownLock {
				ownDefer = true
			}
			out = append(out, e.what)
		}
	}
	// a helper that takes the lock itself and defers the unlock releases it when it returns: what the caller does
	// afterwards is outside the critical section
	if depth > 0 && ownLock && ownDefer {
		out = append(out, "UNLOCK")
	}
	return out
}

// c06LockPos: position of the first `<recv>.<mutex>.Lock()` statement of the body.
func c06LockPos(x *X, fd *ast.FuncDecl) (token.Pos, bool) {
	var pos token.Pos
	found := false
	ast.Inspect(fd.Body, func(n ast.Node) bool {
		if found {
			return false
		}
		if c, ok := n.(*ast.CallExpr); ok {
			if se, ok := c.Fun.(*ast.SelectorExpr); ok && se.Sel.Name == "Lock" && len(c.Args) == 0 {
				pos, found = c.Pos(), true
			}
		}
		return true
	})
	return pos, found
}

// callees returns the in-package functions referenced (called or taken as values) in fd.
func (c *c06) callees(fd *ast.FuncDecl) []types.Object {
	var out []types.Object
	ast.Inspect(fd.Body, func(n ast.Node) bool {
		if id, ok := n.(*ast.Ident); ok {
			if o := c.info.Uses[id]; o != nil {
				if _, isFn := c.funcs[o]; isFn {
					out = append(out, o)
				}
			}
		}
		return true
	})
	return out
}

// funcsInVar: functions named in the composite literal of a package-level map (Picker, Matcher).
func (c *c06) funcsInVar(dir, name string) []types.Object {
	var out []types.Object
	e := c.x.valueSpec(dir, name)
	if e == nil {
		return nil
	}
	ast.Inspect(e, func(n ast.Node) bool {
		if id, ok := n.(*ast.Ident); ok {
			if o := c.info.Uses[id]; o != nil {
				if _, isFn := c.funcs[o]; isFn {
					out = append(out, o)
				}
			}
		}
		return true
	})
	return out
}


// refLike: the static type of e can carry a reference into the memory e is rooted in (slice, map, pointer, channel,
// interface, function — or a foreign type the stub importer could not resolve); strings and numbers are values.
func (c *c06) refLike(e ast.Expr) bool {
	tv, ok := c.info.Types[e]
	if !ok || tv.Type == nil {
		return true
	}
	switch u := tv.Type.Underlying().(type) {
	case *types.Basic:
		return u.Kind() == types.Invalid
	case *types.Struct, *types.Array:
		return false // passed by value
	}
	return true
}

// paramObjs: the parameter objects of an in-package function, in order.
func (c *c06) paramObjs(fd *ast.FuncDecl) []types.Object {
	var out []types.Object
	if fd.Type == nil || fd.Type.Params == nil {
		return nil
	}
	for _, f := range fd.Type.Params.List {
		if len(f.Names) == 0 {
			out = append(out, nil)
		}
		for _, n := range f.Names {
			out = append(out, c.info.Defs[n])
		}
	}
	return out
}

// bindParams propagates shared references through in-package calls: for every call `f(a0, a1, …)` in the functions
// of `order` whose argument a_i is a reference rooted in shared memory, the i-th parameter of f is recorded as an
// alias of that memory. Iterated to a fixpoint (aliases travel through chains of helpers).
func (c *c06) bindParams(order []types.Object) {
	if c.paramAlias == nil {
		c.paramAlias = map[types.Object]string{}
	}
	for pass := 0; pass < 6; pass++ {
		changed := false
		for _, o := range order {
			fd := c.funcs[o]
			if fd == nil || fd.Body == nil {
				continue
			}
			c.computeAliases(fd)
			ast.Inspect(fd.Body, func(n ast.Node) bool {
				call, ok := n.(*ast.CallExpr)
				if !ok {
					return true
				}
				var callee types.Object
				switch f := call.Fun.(type) {
				case *ast.Ident:
					callee = c.info.Uses[f]
				case *ast.SelectorExpr:
					callee = c.info.Uses[f.Sel]
				}
				cfd, ok := c.funcs[callee]
				if !ok {
					return true
				}
				ps := c.paramObjs(cfd)
				for i, a := range call.Args {
					if i >= len(ps) || ps[i] == nil {
						break
					}
					if !c.refLike(a) {
						continue
					}
					if d := c.describe(a); d != "" {
						if _, have := c.paramAlias[ps[i]]; !have {
							c.paramAlias[ps[i]] = d
							changed = true
						}
					}
				}
				return true
			})
		}
		if !changed {
			break
		}
	}
}

// c06PureFuncs: functions of foreign packages (and builtins) that do not write through their arguments. Every other
// foreign function that is handed a reference rooted in shared memory (`sort.Slice(r.Targets, …)`,
// `copy(t.ring, …)`, `rand.Shuffle`, `append(r.wTargets, …)` — which may write into the shared backing array) is
// reported as a "call" write.
var c06PurePkgs = map[string]bool{"fmt": true, "log": true, "strings": true, "strconv": true, "errors": true,
	"bytes": true, "path": true, "filepath": true, "utf8": true, "unicode": true, "math": true, "time": true}
var c06PureFuncs = map[string]bool{"len": true, "cap": true, "panic": true, "print": true, "println": true,
	"string": true, "float64": true, "int": true, "uint64": true, "int64": true, "uint": true,
	"sort.SearchStrings": true, "sort.SearchInts": true, "sort.Search": true, "sort.IsSorted": true,
	"sort.SliceIsSorted": true, "sort.StringsAreSorted": true,
	"slices.Contains": true, "slices.Index": true, "slices.Equal": true, "slices.Clone": true, "slices.IndexFunc": true,
	"slices.ContainsFunc": true, "slices.BinarySearch": true, "maps.Clone": true, "maps.Keys": true, "maps.Values": true,
	"net.SplitHostPort": true, "net.ParseIP": true, "net.JoinHostPort": true,
	"url.Parse": true, "url.QueryUnescape": true, "url.PathUnescape": true,
	"atomic.LoadUint64": true, "atomic.LoadInt64": true, "atomic.LoadUint32": true, "atomic.LoadInt32": true, "atomic.LoadPointer": true,
	"reflect.DeepEqual": true, "reflect.TypeOf": true, "reflect.ValueOf": true, "http.Error": true, "http.Redirect": true}

// foreignCallWrites: calls of foreign functions / builtins in fd that receive a reference rooted in shared memory.
func (c *c06) foreignCallWrites(fd *ast.FuncDecl, name string, isCopy func(ast.Expr) bool, hasLock bool, lockPos token.Pos) []c06Write {
	var out []c06Write
	ast.Inspect(fd.Body, func(n ast.Node) bool {
		call, ok := n.(*ast.CallExpr)
		if !ok {
			return true
		}
		fn := ""
		switch f := call.Fun.(type) {
		case *ast.Ident:
			if o := c.info.Uses[f]; o != nil {
				if _, isB := o.(*types.Builtin); !isB {
					return true // in-package function, conversion to a named type, local func value
				}
			}
			fn = f.Name
		case *ast.SelectorExpr:
			pk, ok := f.X.(*ast.Ident)
			if !ok {
				return true
			}
			if _, isPkg := c.info.Uses[pk].(*types.PkgName); !isPkg {
				return true
			}
			if c06PurePkgs[pk.Name] {
				return true
			}
			fn = pk.Name + "." + f.Sel.Name
			if pk.Name == "atomic" && c06Atomic[f.Sel.Name] {
				return true // reported as kind "atomic"
			}
		default:
			return true
		}
		if c06PureFuncs[fn] {
			return true
		}
		for ai, a := range call.Args {
			if _, isFn := a.(*ast.FuncLit); isFn {
				continue
			}
			if (fn == "copy" || fn == "append") && ai > 0 {
				continue // only the destination is written: copy(dst, shared) / append(local, shared...) read
			}
			if !c.refLike(a) {
				continue
			}
			d := c.describe(a)
			if d == "" {
				continue
			}
			kind := "call"
			if isCopy(a) {
				kind = "copy"
			} else if hasLock && call.Pos() > lockPos {
				kind = "locked"
			}
			out = append(out, c06Write{name, kind, fn + "(" + d + ")"})
		}
		return true
	})
	return out
}


// externalMethodRoots: exported methods with receiver Table / Route / Target that some non-test, non-verif file of
// another package of the repository (one that imports package route) calls, matched by method name.
func (c *c06) externalMethodRoots() []types.Object {
	byName := map[string][]types.Object{}
	for o, fd := range c.funcs {
		if fd.Recv == nil || !fd.Name.IsExported() {
			continue
		}
		n := c06FuncName(fd)
		if strings.HasPrefix(n, "Table.") || strings.HasPrefix(n, "Route.") || strings.HasPrefix(n, "Target.") {
			byName[fd.Name.Name] = append(byName[fd.Name.Name], o)
		}
	}
	called := map[types.Object]bool{}
	var dirs []string
	filepath.WalkDir(c.x.repo, func(p string, d os.DirEntry, err error) error {
		if err != nil || !d.IsDir() {
			return nil
		}
		b := d.Name()
		if p != c.x.repo && (strings.HasPrefix(b, ".") || strings.HasPrefix(b, "_") || b == "vendor" || b == "docs" || b == "demo" || b == "testdata") {
			return filepath.SkipDir
		}
		rel, _ := filepath.Rel(c.x.repo, p)
		if rel != "route" {
			dirs = append(dirs, rel)
		}
		return nil
	})
	sort.Strings(dirs)
	for _, dir := range dirs {
		ents, _ := os.ReadDir(filepath.Join(c.x.repo, dir))
		hasGo := false
		for _, e := range ents {
			if !e.IsDir() && strings.HasSuffix(e.Name(), ".go") && !strings.HasSuffix(e.Name(), "_test.go") && !strings.HasPrefix(e.Name(), "verif_") {
				hasGo = true
			}
		}
		if !hasGo {
			continue
		}
		for _, f := range c.x.files(dir) {
			imports := false
			for _, im := range f.Imports {
				if strings.Trim(im.Path.Value, `"`) == "github.com/fabiolb/fabio/route" {
					imports = true
				}
			}
			if !imports {
				continue
			}
			ast.Inspect(f, func(n ast.Node) bool {
				call, ok := n.(*ast.CallExpr)
				if !ok {
					return true
				}
				if se, ok := call.Fun.(*ast.SelectorExpr); ok {
					for _, o := range byName[se.Sel.Name] {
						called[o] = true
					}
				}
				return true
			})
		}
	}
	var out []types.Object
	for o := range called {
		out = append(out, o)
	}
	sort.Slice(out, func(i, j int) bool { return c06FuncName(c.funcs[out[i]]) < c06FuncName(c.funcs[out[j]]) })
	return out
}


// externalWrites: writes to memory of package route's types (Table, Route, Target, GlobCache, …) from the OTHER
// packages of the repository that import it — assignments, ++/--, delete, atomic ops, non-read-only method calls on
// receivers rooted in such memory, foreign mutating calls — in every function of those packages (no reach
// computation: whatever they do to a table they did not build is done to a published one). Each package is
// type-checked with the checked package route served to its imports, so route.Target's fields resolve there.
func (c *c06) externalWrites() []string {
	var out []string
	mf := c.metricsFields()
	seenW := map[string]bool{}
	var dirs []string
	filepath.WalkDir(c.x.repo, func(p string, d os.DirEntry, err error) error {
		if err != nil || !d.IsDir() {
			return nil
		}
		b := d.Name()
		if p != c.x.repo && (strings.HasPrefix(b, ".") || strings.HasPrefix(b, "_") || b == "vendor" || b == "docs" || b == "demo" || b == "testdata") {
			return filepath.SkipDir
		}
		rel, _ := filepath.Rel(c.x.repo, p)
		if rel == "." {
			rel = ""
		}
		if rel != "route" {
			dirs = append(dirs, rel)
		}
		return nil
	})
	sort.Strings(dirs)
	for _, dir := range dirs {
		ents, _ := os.ReadDir(filepath.Join(c.x.repo, dir))
		hasGo := false
		for _, e := range ents {
			if !e.IsDir() && strings.HasSuffix(e.Name(), ".go") && !strings.HasSuffix(e.Name(), "_test.go") && !strings.HasPrefix(e.Name(), "verif_") {
				hasGo = true
			}
		}
		if !hasGo {
			continue
		}
		imports := false
		for _, f := range c.x.files(dir) {
			for _, im := range f.Imports {
				if strings.Trim(im.Path.Value, `"`) == "github.com/fabiolb/fabio/route" {
					imports = true
				}
			}
		}
		if !imports {
			continue
		}
		c2 := &c06{x: c.x, routePkg: c.pkg, lockedHelpers: map[types.Object]bool{}}
		if !c2.loadWith(dir, map[string]*types.Package{"github.com/fabiolb/fabio/route": c.pkg}) {
			continue
		}
		var order []types.Object
		for o := range c2.funcs {
			order = append(order, o)
		}
		sort.Slice(order, func(i, j int) bool { return c2.funcs[order[i]].Pos() < c2.funcs[order[j]].Pos() })
		c2.bindParams(order)
		for _, o := range order {
			for _, w := range c2.writes(c2.funcs[o], false) {
				if w.kind == "copy" {
					continue
				}
				isRoute := false
				for _, pre := range []string{"Table", "Route", "Target", "GlobCache", "*Table", "*Route", "*Target", "*GlobCache"} {
					if strings.HasPrefix(w.what, pre+".") || strings.HasPrefix(w.what, pre+"[") || w.what == pre ||
						strings.Contains(w.what, "("+pre+".") || strings.Contains(w.what, "("+pre+"[") {
						isRoute = true
					}
				}
				if !isRoute {
					continue
				}
				k := w.kind + " " + w.what
				if w.kind == "call" && c06IsMetricsCall(mf, w.what) {
					k = "metrics " + w.what
				}
				if !seenW[k] {
					seenW[k] = true
					out = append(out, k)
				}
			}
		}
	}
	sort.Strings(out)
	return out
}


// metricsFields: the fields of package route's structs whose declared type comes from a metrics package
// (github.com/go-kit/kit/metrics, fabio's own metrics): "Target.Timer", "Target.RxCounter", … Calls on them are
// internally synchronised counters and no routing input; they are classified "metrics" by the TYPE of the field, so
// that a new counter, or an existing one used at a new place, is not a new kind of write.
func (c *c06) metricsFields() map[string]bool {
	out := map[string]bool{}
	for _, f := range c.x.files("route") {
		alias := map[string]bool{}
		for _, im := range f.Imports {
			path := strings.Trim(im.Path.Value, `"`)
			if path == "github.com/go-kit/kit/metrics" || path == "github.com/fabiolb/fabio/metrics" {
				name := "metrics"
				if im.Name != nil {
					name = im.Name.Name
				}
				alias[name] = true
			}
		}
		for _, d := range f.Decls {
			gd, ok := d.(*ast.GenDecl)
			if !ok || gd.Tok != token.TYPE {
				continue
			}
			for _, sp := range gd.Specs {
				ts, ok := sp.(*ast.TypeSpec)
				if !ok {
					continue
				}
				st, ok := ts.Type.(*ast.StructType)
				if !ok {
					continue
				}
				for _, fl := range st.Fields.List {
					se, ok := fl.Type.(*ast.SelectorExpr)
					if !ok {
						continue
					}
					if pk, ok := se.X.(*ast.Ident); ok && alias[pk.Name] {
						for _, n := range fl.Names {
							out[ts.Name.Name+"."+n.Name] = true
						}
					}
				}
			}
		}
	}
	return out
}

// isMetricsCall: "Target.Timer.Observe" with Target.Timer a metrics field.
func c06IsMetricsCall(mf map[string]bool, what string) bool {
	i := strings.LastIndex(what, ".")
	return i > 0 && mf[what[:i]]
}

func c06LeanTriples(name string, ws []c06Write) string {
	sort.Slice(ws, func(i, j int) bool {
		if ws[i].fn != ws[j].fn {
			return ws[i].fn < ws[j].fn
		}
		if ws[i].kind != ws[j].kind {
			return ws[i].kind < ws[j].kind
		}
		return ws[i].what < ws[j].what
	})
	var parts []string
	var last c06Write
	for i, w := range ws {
		if i > 0 && w == last {
			continue
		}
		last = w
		parts = append(parts, fmt.Sprintf("(%s, %s, %s)", leanStr(w.fn), leanStr(w.kind), leanStr(w.what)))
	}
	return fmt.Sprintf("def %s : List (String × String × String) := [%s]", name, strings.Join(parts, ",\n  "))
}

func init() {
	register("C06", func(x *X) error {
		x.UseNormalizedAST() // named constants = literals, switch = if-chain
		c := &c06{x: x}
		if !c.load("route") {
			x.fail("route: type check produced no package")
			return nil
		}

		// ---- rrPicker ----
		if _, fd := c.pickerFunc("rr"); fd != nil {
			plainReads, atomics := 0, 0
			indexFromAtomic := false
			atomicResult := map[types.Object]bool{}
			inAtomicArg := map[ast.Node]bool{}
			ast.Inspect(fd.Body, func(n ast.Node) bool {
				switch v := n.(type) {
				case *ast.AssignStmt:
					for i, r := range v.Rhs {
						if call, ok := r.(*ast.CallExpr); ok && strings.HasPrefix(x.src(call.Fun), "atomic.Add") && i < len(v.Lhs) {
							if id, ok := v.Lhs[i].(*ast.Ident); ok {
								if o := c.info.Defs[id]; o != nil {
									atomicResult[o] = true
								} else if o := c.info.Uses[id]; o != nil {
									atomicResult[o] = true
								}
							}
						}
					}
				case *ast.CallExpr:
					if strings.HasPrefix(x.src(v.Fun), "atomic.") {
						atomics++
						for _, a := range v.Args {
							ast.Inspect(a, func(m ast.Node) bool {
								if m != nil {
									inAtomicArg[m] = true
								}
								return true
							})
						}
					}
				}
				return true
			})
			ast.Inspect(fd.Body, func(n ast.Node) bool {
				switch v := n.(type) {
				case *ast.SelectorExpr:
					if c.describe(v) == "Route.total" && !inAtomicArg[v] {
						plainReads++
					}
				case *ast.IndexExpr:
					if c.describe(v.X) == "Route.wTargets" {
						uses, other := false, false
						ast.Inspect(v.Index, func(m ast.Node) bool {
							if id, ok := m.(*ast.Ident); ok {
								if o := c.info.Uses[id]; o != nil && atomicResult[o] {
									uses = true
								}
							}
							if se, ok := m.(*ast.SelectorExpr); ok && c.describe(se) == "Route.total" {
								other = true
							}
							if call, ok := m.(*ast.CallExpr); ok && strings.HasPrefix(x.src(call.Fun), "atomic.Add") {
								uses = true
							}
							return true
						})
						indexFromAtomic = uses && !other
					}
				}
				return true
			})
			x.defNat("rrPlainReadsOfTotal", uint64(plainReads))
			x.defNat("rrAtomicOps", uint64(atomics))
			x.defBool("rrIndexFromAtomicResult", indexFromAtomic)
			var acc []string
			for i := 0; i < plainReads; i++ {
				acc = append(acc, "read Route.total")
			}
			for i := 0; i < atomics; i++ {
				acc = append(acc, "atomic.AddUint64 Route.total")
			}
			x.defStrList("rrAccesses", acc)
		}

		// ---- rndPicker / randIntn: which generator ----
		// (a) package-level variables of route/ that hold a generator of their own (*rand.Rand, rand.Source): a
		//     value of these types is NOT safe for concurrent use, unlike math/rand's top-level functions
		var randVars []string
		for _, f := range x.files("route") {
			for _, d := range f.Decls {
				gd, ok := d.(*ast.GenDecl)
				if !ok || gd.Tok != token.VAR {
					continue
				}
				for _, sp := range gd.Specs {
					vs, ok := sp.(*ast.ValueSpec)
					if !ok {
						continue
					}
					own := false
					if vs.Type != nil {
						t := x.src(vs.Type)
						own = strings.Contains(t, "rand.Rand") || strings.Contains(t, "rand.Source")
					}
					for _, v := range vs.Values {
						if _, isFn := v.(*ast.FuncLit); isFn {
							continue
						}
						ast.Inspect(v, func(n ast.Node) bool {
							if call, ok := n.(*ast.CallExpr); ok {
								if fn := x.src(call.Fun); fn == "rand.New" || strings.HasPrefix(fn, "rand.NewSource") || fn == "rand.NewPCG" || fn == "rand.NewChaCha8" || fn == "rand.NewZipf" {
									own = true
								}
							}
							return true
						})
					}
					if own {
						for _, n := range vs.Names {
							randVars = append(randVars, n.Name)
						}
					}
				}
			}
		}
		sort.Strings(randVars)
		x.defStrList("routeOwnGenerators", randVars)
		// what the identifier `rand` denotes in the package
		randImports := map[string]bool{}
		for _, f := range x.files("route") {
			for _, im := range f.Imports {
				path := strings.Trim(im.Path.Value, `"`)
				name := path[strings.LastIndex(path, "/")+1:]
				if name == "v2" {
					name = "rand"
				}
				if im.Name != nil {
					name = im.Name.Name
				}
				if name == "rand" {
					randImports[path] = true
				}
			}
		}
		var ri []string
		for p := range randImports {
			ri = append(ri, p)
		}
		sort.Strings(ri)
		x.defStrList("routeRandImports", ri)
		// (b) every call made by the function registered as route.Picker["rnd"], helpers and func-literal variables
		//     followed: the callee that yields the random number must be math/rand's top-level function
		if _, fd := c.pickerFunc("rnd"); fd != nil {
			x.defStrList("rndPickerCalls", c.externalCalls(fd))
		}

		// ---- GlobCache ----
		hasMutex := false
		for _, f := range x.files("route") {
			ast.Inspect(f, func(n ast.Node) bool {
				ts, ok := n.(*ast.TypeSpec)
				if !ok || ts.Name.Name != "GlobCache" {
					return true
				}
				if st, ok := ts.Type.(*ast.StructType); ok {
					for _, fl := range st.Fields.List {
						if s := x.src(fl.Type); s == "sync.Mutex" || s == "sync.RWMutex" {
							hasMutex = true
						}
					}
				}
				return false
			})
		}
		x.defBool("globHasMutex", hasMutex)
		lockedHelpers := map[types.Object]bool{}
		if fd := x.funcDecl("route", "GlobCache", "Get"); fd != nil {
			// ordered events of Get with the bodies of the in-package helpers it calls spliced in at the call
			// (extract / inline helper leaves the list unchanged)
			evs := c.globEvents(fd, 0, map[*ast.FuncDecl]bool{}, false, lockedHelpers)
			var unlocked, locked, after []string
			hasLock, deferred, isLocked, released := false, false, false, false
			for _, e := range evs {
				switch e {
				case "LOCK":
					hasLock, isLocked = true, true
				case "DEFER-UNLOCK":
					if isLocked {
						deferred = true
					}
				case "UNLOCK":
					isLocked, released = false, true
				default:
					if released && !isLocked {
						after = append(after, e)
					} else if isLocked {
						locked = append(locked, e)
					} else {
						unlocked = append(unlocked, e)
					}
				}
			}
			x.defStrList("globGetAfterUnlock", after)
			x.defBool("globGetLocks", hasLock)
			x.defBool("globGetUnlockDeferred", deferred)
			x.defStrList("globGetUnlocked", unlocked)
			x.defStrList("globGetLocked", locked)
		}
		// a helper spliced in under the lock must not be callable from anywhere else without it: every call site
		// lies in Get after the Lock or in another such helper
		for changed := true; changed; {
			changed = false
			for h := range lockedHelpers {
				for o, fd := range c.funcs {
					if lockedHelpers[o] {
						continue
					}
					lockPos, hasLock := c06LockPos(x, fd)
					ast.Inspect(fd.Body, func(n ast.Node) bool {
						if id, ok := n.(*ast.Ident); ok && c.info.Uses[id] == h {
							if !(c06FuncName(fd) == "GlobCache.Get" && hasLock && id.Pos() > lockPos) {
								delete(lockedHelpers, h)
								changed = true
							}
						}
						return true
					})
				}
			}
		}
		c.lockedHelpers = lockedHelpers
		// other functions that touch the cache's fields: anything but Get, the constructor and the helpers that
		// run only under Get's lock (reported by what they touch, not by their name)
		var strays []string
		for o, fd := range c.funcs {
			n := c06FuncName(fd)
			if n == "GlobCache.Get" || n == "NewGlobCache" || lockedHelpers[o] {
				continue
			}
			ast.Inspect(fd.Body, func(m ast.Node) bool {
				if se, ok := m.(*ast.SelectorExpr); ok {
					if d := c.describe(se); strings.HasPrefix(d, "GlobCache.") {
						strays = append(strays, d)
					}
				}
				return true
			})
		}
		sort.Strings(strays)
		x.defStrList("globOtherAccessors", strays)

		// ---- lookupWrites ----
		var roots []types.Object
		for _, rn := range [][2]string{{"Table", "Lookup"}, {"Table", "LookupHost"}} {
			if fd := x.funcDecl("route", rn[0], rn[1]); fd != nil {
				roots = append(roots, c.info.Defs[fd.Name])
			}
		}
		// the Target methods HTTPProxy.ServeHTTP calls on the target it was handed (before the hand-off)
		for _, m := range []string{"AccessDeniedHTTP", "Authorized"} {
			if fd := x.funcDecl("route", "Target", m); fd != nil {
				roots = append(roots, c.info.Defs[fd.Name])
			}
		}
		roots = append(roots, c.funcsInVar("route", "Picker")...)
		roots = append(roots, c.funcsInVar("route", "Matcher")...)
		// everything the other packages of the repository call on a table / route / target they did not build
		// themselves: exported methods of Table, Route and Target that are called (by name) from a file outside
		// package route which imports it — the lookup entry points again, the access gates of the TCP and gRPC
		// proxies, and the readers of the PUBLISHED table (main.go logs `t.Dump()` after `route.SetTable(t)`, the
		// admin API prints `route.GetTable().String()`). They run next to the lookups on the same memory.
		readers := c.externalMethodRoots()
		var readerNames []string
		for _, o := range readers {
			roots = append(roots, o)
			readerNames = append(readerNames, c06FuncName(c.funcs[o]))
		}
		sort.Strings(readerNames)
		x.defStrList("publishedReaders", readerNames)
		seen := map[types.Object]bool{}
		var order []types.Object
		var walk func(o types.Object)
		walk = func(o types.Object) {
			if o == nil || seen[o] {
				return
			}
			seen[o] = true
			order = append(order, o)
			for _, callee := range c.callees(c.funcs[o]) {
				walk(callee)
			}
		}
		for _, r := range roots {
			walk(r)
		}
		// methods whose receiver is a local copy at every call site on the lookup path
		recvLocal := map[types.Object]bool{}
		recvShared := map[types.Object]bool{}
		for _, o := range order {
			fd := c.funcs[o]
			ast.Inspect(fd.Body, func(n ast.Node) bool {
				call, ok := n.(*ast.CallExpr)
				if !ok {
					return true
				}
				se, ok := call.Fun.(*ast.SelectorExpr)
				if !ok {
					return true
				}
				callee := c.info.Uses[se.Sel]
				if cfd, isFn := c.funcs[callee]; isFn && cfd.Recv != nil {
					if id, ok := se.X.(*ast.Ident); ok && c.isLocalCopy(fd, id) {
						recvLocal[callee] = true
					} else {
						recvShared[callee] = true
					}
				}
				return true
			})
		}
		c.bindParams(order)
		var ws []c06Write
		var reach []string
		for _, o := range order {
			fd := c.funcs[o]
			reach = append(reach, c06FuncName(fd))
			ws = append(ws, c.writes(fd, recvLocal[o] && !recvShared[o])...)
		}
		sort.Strings(reach)
		x.defStrList("lookupReach", reach)
		x.defRaw(c06LeanTriples("lookupWrites", ws))
		// the same without the name of the function the write sits in (helpers may be extracted, inlined, renamed)
		seenKW := map[[2]string]bool{}
		var kws [][2]string
		for _, w := range ws {
			k := [2]string{w.kind, w.what}
			if !seenKW[k] {
				seenKW[k] = true
				kws = append(kws, k)
			}
		}
		sort.Slice(kws, func(i, j int) bool {
			if kws[i][0] != kws[j][0] {
				return kws[i][0] < kws[j][0]
			}
			return kws[i][1] < kws[j][1]
		})
		var kwParts []string
		for _, k := range kws {
			kwParts = append(kwParts, fmt.Sprintf("(%s, %s)", leanStr(k[0]), leanStr(k[1])))
		}
		x.defRaw(fmt.Sprintf("def lookupWriteKinds : List (String × String) := [%s]", strings.Join(kwParts, ",\n  ")))
		// both strategies of route.Picker are inside the analysed reach
		pickersIn := true
		for _, k := range []string{"rr", "rnd"} {
			if o, _ := c.pickerFunc(k); o == nil || !seen[o] {
				pickersIn = false
			}
		}
		x.defBool("pickersInReach", pickersIn)

		// ---- proxy.ServeHTTP: writes through the target ----
		var pw, pm, pc, pa, pcm []string
		if fd := x.funcDecl("proxy", "HTTPProxy", "ServeHTTP"); fd != nil {
			// the target variable: `t := p.Lookup(r)`
			tname := ""
			ast.Inspect(fd.Body, func(n ast.Node) bool {
				if as, ok := n.(*ast.AssignStmt); ok && len(as.Lhs) == 1 && len(as.Rhs) == 1 {
					if call, ok := as.Rhs[0].(*ast.CallExpr); ok && x.src(call.Fun) == "p.Lookup" {
						if id, ok := as.Lhs[0].(*ast.Ident); ok {
							tname = id.Name
						}
					}
				}
				return true
			})
			if tname == "" {
				x.fail("proxy.HTTPProxy.ServeHTTP: `t := p.Lookup(r)` not found")
			}
			ast.Inspect(fd.Body, func(n ast.Node) bool {
				switch v := n.(type) {
				case *ast.AssignStmt:
					for _, l := range v.Lhs {
						if _, plain := l.(*ast.Ident); plain {
							continue
						}
						if id := c06RootIdent(l); id != nil && id.Name == tname {
							pw = append(pw, x.src(l))
						}
					}
				case *ast.IncDecStmt:
					if id := c06RootIdent(v.X); id != nil && id.Name == tname {
						pw = append(pw, x.src(v.X))
					}
				case *ast.CallExpr:
					se, ok := v.Fun.(*ast.SelectorExpr)
					if !ok {
						return true
					}
					id := c06RootIdent(se.X)
					if id == nil || id.Name != tname {
						return true
					}
					if _, direct := se.X.(*ast.Ident); direct {
						pm = append(pm, "Target."+se.Sel.Name) // a method of route.Target: must be in lookupReach
					} else if !c06ReadOnly[se.Sel.Name] {
						call := "target" + strings.TrimPrefix(x.src(se), tname)
						if c06IsMetricsCall(c.metricsFields(), "Target"+strings.TrimPrefix(x.src(se), tname)) {
							pcm = append(pcm, call)
						} else {
							pc = append(pc, call)
						}
					}
				}
				return true
			})
			// aliases of the target's reference fields in ServeHTTP: `x := t.F` followed by x.M(...) / x.f = ...
			ast.Inspect(fd.Body, func(n ast.Node) bool {
				as, ok := n.(*ast.AssignStmt)
				if !ok || len(as.Lhs) != len(as.Rhs) {
					return true
				}
				for i, r := range as.Rhs {
					if _, isSel := r.(*ast.SelectorExpr); !isSel {
						continue
					}
					if id := c06RootIdent(r); id != nil && id.Name == tname {
						if _, ok := as.Lhs[i].(*ast.Ident); ok {
							pa = append(pa, "target"+strings.TrimPrefix(x.src(r), tname))
						}
					}
				}
				return true
			})
		}
		// ---- the active table is fetched per lookup ----
		// every call of Table.Lookup (6 arguments) / Table.LookupHost (2 arguments) outside package route: the text
		// of the receiver. The model's lookup starts with `tblSnap` = one route.GetTable() per lookup; a table captured
		// once outside the request path would keep answering from a replaced table (no stream drives main.go's closures).
		var recvs []string
		for _, dir := range []string{"", "proxy", "proxy/tcp"} {
			for _, f := range x.files(dir) {
				// innermost enclosing function (declaration or literal) of every node: a local that is assigned
				// `route.GetTable()` in the SAME function as the lookup is the table fetched for that lookup
				var stack []ast.Node
				ast.Inspect(f, func(n ast.Node) bool {
					if n == nil {
						stack = stack[:len(stack)-1]
						return true
					}
					stack = append(stack, n)
					call, ok := n.(*ast.CallExpr)
					if !ok {
						return true
					}
					se, ok := call.Fun.(*ast.SelectorExpr)
					if !ok {
						return true
					}
					if (se.Sel.Name == "Lookup" && len(call.Args) == 6) || (se.Sel.Name == "LookupHost" && len(call.Args) == 2) {
						recv := x.src(se.X)
						if id, ok := se.X.(*ast.Ident); ok {
							var fn ast.Node
							for i := len(stack) - 1; i >= 0 && fn == nil; i-- {
								switch stack[i].(type) {
								case *ast.FuncLit, *ast.FuncDecl:
									fn = stack[i]
								}
							}
							if fn != nil {
								ast.Inspect(fn, func(m ast.Node) bool {
									if lit, ok := m.(*ast.FuncLit); ok && m != fn && !(lit.Pos() <= call.Pos() && call.End() <= lit.End()) {
										return false
									}
									if as, ok := m.(*ast.AssignStmt); ok && len(as.Lhs) == 1 && len(as.Rhs) == 1 && as.Pos() < call.Pos() {
										if l, ok := as.Lhs[0].(*ast.Ident); ok && l.Name == id.Name && x.src(as.Rhs[0]) == "route.GetTable()" {
											recv = "route.GetTable()"
										}
									}
									return true
								})
							}
						}
						recvs = append(recvs, recv)
					}
					return true
				})
			}
		}
		sort.Strings(recvs)
		x.defStrList("tableLookupReceivers", recvs)
		// (kind, what) pairs: kind = plain | atomic | call | locked | metrics
		var ewParts []string
		for _, w := range c.externalWrites() {
			i := strings.Index(w, " ")
			ewParts = append(ewParts, fmt.Sprintf("(%s, %s)", leanStr(w[:i]), leanStr(w[i+1:])))
		}
		x.defRaw(fmt.Sprintf("def externalTableWrites : List (String × String) := [%s]", strings.Join(ewParts, ", ")))
		sort.Strings(pm)
		sort.Strings(pc)
		sort.Strings(pa)
		x.defStrList("proxyTargetWrites", pw)
		x.defStrList("proxyTargetMethods", pm)
		x.defStrList("proxyTargetCalls", pc) // non-read-only calls through the target on fields that are NOT metrics handles
		sort.Strings(pcm)
		x.defStrList("proxyTargetMetricsCalls", pcm)
		x.defStrList("proxyTargetAliases", pa)
		return nil
	})
}
