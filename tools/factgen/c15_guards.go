package main

import (
	"go/ast"
	"go/token"
	"strings"
)

// Index sites and the conditions that keep them in range (C15).
//
// For every index expression x[e] with an integer-like index (a literal, or arithmetic over loop counters) in
// config/load.go and config/flagset.go the extractor looks for the dominating guard, innermost first:
//   exit-if C     an earlier `if C { …; return/continue/break/panic }` in an enclosing statement list
//   after-case C  an earlier clause `case C: …; return` of the enclosing tagless switch
//   inside-if C   the site is in the body of `if C`
//   loop-while C  the site is in the body of `for …; C; …`
// where C mentions len(x) or compares x with "".  A site without such a condition is reported with guard "none".
// The (function, site, guard) list is pinned by an obligation, so weakening or removing a guard breaks it.

type c15Guard struct{ fn, site, guard string }

func c15IntLike(x *X, e ast.Expr, counters map[string]bool) bool {
	switch v := e.(type) {
	case *ast.BasicLit:
		return v.Kind == token.INT
	case *ast.Ident:
		return counters[v.Name]
	case *ast.BinaryExpr:
		return (v.Op == token.ADD || v.Op == token.SUB) && c15IntLike(x, v.X, counters) && c15IntLike(x, v.Y, counters)
	case *ast.ParenExpr:
		return c15IntLike(x, v.X, counters)
	}
	return false
}

func c15Exits(x *X, b *ast.BlockStmt) bool {
	if b == nil || len(b.List) == 0 {
		return false
	}
	return c15ExitStmt(x, b.List[len(b.List)-1])
}

func c15ExitStmt(x *X, s ast.Stmt) bool {
	switch v := s.(type) {
	case *ast.ReturnStmt:
		return true
	case *ast.BranchStmt:
		return v.Tok == token.CONTINUE || v.Tok == token.BREAK
	case *ast.ExprStmt:
		if c, ok := v.X.(*ast.CallExpr); ok {
			return x.src(c.Fun) == "panic"
		}
	}
	return false
}

func c15Mentions(x *X, cond ast.Expr, base string) bool {
	if cond == nil {
		return false
	}
	s := x.src(cond)
	return strings.Contains(s, "len("+base+")") || strings.Contains(s, base+` == ""`) || strings.Contains(s, base+` != ""`)
}

func c15IndexGuards(x *X, fd *ast.FuncDecl, fnName string) []c15Guard {
	var out []c15Guard
	counters := map[string]bool{}
	ast.Inspect(fd.Body, func(n ast.Node) bool {
		if f, ok := n.(*ast.ForStmt); ok {
			if as, ok := f.Init.(*ast.AssignStmt); ok && as.Tok == token.DEFINE {
				for _, l := range as.Lhs {
					if id, ok := l.(*ast.Ident); ok {
						counters[id.Name] = true
					}
				}
			}
		}
		return true
	})
	var stack []ast.Node
	ast.Inspect(fd.Body, func(n ast.Node) bool {
		if n == nil {
			stack = stack[:len(stack)-1]
			return true
		}
		stack = append(stack, n)
		ie, ok := n.(*ast.IndexExpr)
		if !ok || !c15IntLike(x, ie.Index, counters) {
			return true
		}
		base := x.src(ie.X)
		guard := "none"
		// walk outwards
	search:
		for k := len(stack) - 2; k >= 0; k-- {
			child := stack[k+1]
			switch anc := stack[k].(type) {
			case *ast.BlockStmt:
				if g := c15Earlier(x, anc.List, child, base); g != "" {
					guard = g
					break search
				}
			case *ast.CaseClause:
				if g := c15Earlier(x, anc.Body, child, base); g != "" {
					guard = g
					break search
				}
				// earlier clauses of the same tagless switch
				if k >= 2 {
					if sw, ok := stack[k-2].(*ast.SwitchStmt); ok && sw.Tag == nil {
						for _, cl := range sw.Body.List {
							cc := cl.(*ast.CaseClause)
							if cc == anc {
								break
							}
							for _, e := range cc.List {
								if c15Mentions(x, e, base) && len(cc.Body) > 0 && c15ExitStmt(x, cc.Body[len(cc.Body)-1]) {
									guard = "after-case " + x.src(e)
									break search
								}
							}
						}
					}
				}
			case *ast.IfStmt:
				if child == ast.Node(anc.Body) && c15Mentions(x, anc.Cond, base) {
					guard = "inside-if " + x.src(anc.Cond)
					break search
				}
			case *ast.ForStmt:
				if child == ast.Node(anc.Body) && c15Mentions(x, anc.Cond, base) {
					guard = "loop-while " + x.src(anc.Cond)
					break search
				}
			}
		}
		out = append(out, c15Guard{fnName, x.src(ie), guard})
		return true
	})
	return out
}

// c15Earlier looks, among the statements before the one containing the site, for the nearest early exit whose
// condition mentions the base.
func c15Earlier(x *X, list []ast.Stmt, child ast.Node, base string) string {
	idx := -1
	for i, s := range list {
		if ast.Node(s) == child {
			idx = i
		}
	}
	for i := idx - 1; i >= 0; i-- {
		if is, ok := list[i].(*ast.IfStmt); ok && is.Else == nil && c15Mentions(x, is.Cond, base) && c15Exits(x, is.Body) {
			return "exit-if " + x.src(is.Cond)
		}
	}
	return ""
}

func c15EmitIndexGuards(x *X) {
	var all []c15Guard
	for _, f := range x.files("config") {
		name := x.fset.Position(f.Pos()).Filename
		if !strings.HasSuffix(name, "/load.go") && !strings.HasSuffix(name, "/flagset.go") {
			continue
		}
		for _, d := range f.Decls {
			if fd, ok := d.(*ast.FuncDecl); ok && fd.Body != nil {
				fn := fd.Name.Name
				all = append(all, c15IndexGuards(x, fd, fn)...)
			}
		}
	}
	if len(all) == 0 {
		x.fail("config: no index sites found in load.go/flagset.go")
	}
	// stable order: by function then site then guard (positions differ between harmless edits)
	sortGuards(all)
	var rows []string
	for _, g := range all {
		rows = append(rows, "("+leanStr(g.fn)+", "+leanStr(g.site)+", "+leanStr(g.guard)+")")
	}
	x.defRaw("/-- (function, index site, dominating guard) for every integer-indexed expression in config/load.go and\nconfig/flagset.go -/\ndef indexGuards : List (String × String × String) := [\n  " + strings.Join(rows, ",\n  ") + "]")
}

func sortGuards(gs []c15Guard) {
	for i := 1; i < len(gs); i++ {
		for j := i; j > 0; j-- {
			a, b := gs[j-1], gs[j]
			if a.fn+"\x00"+a.site+"\x00"+a.guard > b.fn+"\x00"+b.site+"\x00"+b.guard {
				gs[j-1], gs[j] = b, a
			}
		}
	}
}
