package main

import (
	"go/ast"
	"go/token"
	"strconv"
	"strings"
)

// Index sites and the conditions that keep them in range (C15).
//
// For every index expression x[e] with an integer-like index (a literal, or arithmetic over loop counters) in
// the functions reachable from config.Load and FlagSet.ParseFlags (whatever they are called and whichever file
// they live in) the extractor looks for the dominating guard, innermost first:
//   exit-if C     an earlier `if C { …; return/continue/break/panic }` in an enclosing statement list
//   after-case C  an earlier clause `case C: …; return` of the enclosing tagless switch, or (the same thing
//                 after switch → if-chain normalisation) an earlier branch `if C { …; return } else …`
//   inside-if C   the site is in the body of `if C`
//   loop-while C  the site is in the body of `for …; C; …`
// where C mentions len(x) or compares x with "".  A site without such a condition is reported with guard "none".
// Variables are printed by ROLE, not by spelling: receiver `recv`, i-th parameter `p<i>`, i-th named result
// `r<i>`, a local assigned from a call `@<callee>` (`@<callee>.<k>` for the k-th of several results), a loop
// counter `@i`, range variables `@k`/`@v`, function-literal parameters `@a<i>`; any other local `@local`.
// The set of (site, guard) pairs — without function names — is pinned by an obligation, so weakening or
// removing a guard breaks it while renaming, extracting or inlining the code around it does not.

type c15Guard struct{ fn, site, guard string }

// c15Roles builds the variable → role map of one function.  Variables are identified by their declaration
// (ast.Object), not by their spelling, so a local that shadows a parameter is a different variable.
func c15Roles(x *X, fd *ast.FuncDecl) map[*ast.Object]string {
	ren := map[*ast.Object]string{}
	set := func(id *ast.Ident, role string) {
		if id != nil && id.Name != "_" && id.Obj != nil {
			if _, done := ren[id.Obj]; !done {
				ren[id.Obj] = role
			}
		}
	}
	if fd.Recv != nil {
		for _, f := range fd.Recv.List {
			for _, n := range f.Names {
				set(n, "recv")
			}
		}
	}
	if fd.Type.Params != nil {
		i := 0
		for _, p := range fd.Type.Params.List {
			for _, n := range p.Names {
				set(n, "p"+c15itoa(i))
				i++
			}
		}
	}
	if fd.Type.Results != nil {
		i := 0
		for _, r := range fd.Type.Results.List {
			for _, n := range r.Names {
				set(n, "r"+c15itoa(i))
				i++
			}
		}
	}
	ast.Inspect(fd.Body, func(n ast.Node) bool {
		switch v := n.(type) {
		case *ast.ForStmt:
			if as, ok := v.Init.(*ast.AssignStmt); ok && as.Tok == token.DEFINE {
				for _, l := range as.Lhs {
					if id, ok := l.(*ast.Ident); ok {
						set(id, "@i")
					}
				}
			}
		case *ast.RangeStmt:
			if id, ok := v.Key.(*ast.Ident); ok && v.Tok == token.DEFINE {
				set(id, "@k")
			}
			if id, ok := v.Value.(*ast.Ident); ok && v.Tok == token.DEFINE {
				set(id, "@v")
			}
		case *ast.FuncLit:
			i := 0
			if v.Type.Params != nil {
				for _, p := range v.Type.Params.List {
					for _, nm := range p.Names {
						set(nm, "@a"+c15itoa(i))
						i++
					}
				}
			}
		case *ast.AssignStmt:
			if v.Tok == token.DEFINE || v.Tok == token.ASSIGN {
				if len(v.Rhs) == 1 {
					if c, ok := v.Rhs[0].(*ast.CallExpr); ok {
						callee := x.src(c.Fun)
						if se, ok := c.Fun.(*ast.SelectorExpr); ok {
							if id, ok := se.X.(*ast.Ident); ok && id.Obj != nil {
								if role, ok := ren[id.Obj]; ok {
									callee = role + "." + se.Sel.Name
								}
							}
						}
						for k, l := range v.Lhs {
							if id, ok := l.(*ast.Ident); ok {
								if len(v.Lhs) == 1 {
									set(id, "@"+callee)
								} else {
									set(id, "@"+callee+"."+c15itoa(k))
								}
							}
						}
						return true
					}
				}
				if v.Tok == token.DEFINE {
					for _, l := range v.Lhs {
						if id, ok := l.(*ast.Ident); ok {
							set(id, "@local")
						}
					}
				}
			}
		case *ast.ValueSpec:
			for _, id := range v.Names {
				set(id, "@local")
			}
		}
		return true
	})
	return ren
}

// c15Print renders a node with every variable replaced by its role.
func c15Print(x *X, n ast.Node, ren map[*ast.Object]string) string {
	saved := map[*ast.Ident]string{}
	ast.Inspect(n, func(m ast.Node) bool {
		if id, ok := m.(*ast.Ident); ok && id.Obj != nil {
			if role, ok := ren[id.Obj]; ok {
				saved[id] = id.Name
				id.Name = role
			}
		}
		return true
	})
	out := x.src(n)
	for id, name := range saved {
		id.Name = name
	}
	return out
}

func c15itoa(i int) string { return strconv.Itoa(i) }


func c15IntLike(x *X, e ast.Expr, counters map[string]bool) bool {
	switch v := e.(type) {
	case *ast.BasicLit:
		return v.Kind == token.INT
	case *ast.Ident:
		return counters[v.Name]
	case *ast.BinaryExpr:
		return (v.Op == token.ADD || v.Op == token.SUB) && c15IntLike(x, v.X, counters) && c15IntLike(x, v.Y, counters)
	case *ast.ParenExpr:
		return c15IntLike(x, v.X, counters)
	}
	return false
}

func c15Exits(x *X, b *ast.BlockStmt) bool {
	if b == nil || len(b.List) == 0 {
		return false
	}
	return c15ExitStmt(x, b.List[len(b.List)-1])
}

func c15ExitStmt(x *X, s ast.Stmt) bool {
	switch v := s.(type) {
	case *ast.ReturnStmt:
		return true
	case *ast.BranchStmt:
		return v.Tok == token.CONTINUE || v.Tok == token.BREAK
	case *ast.ExprStmt:
		if c, ok := v.X.(*ast.CallExpr); ok {
			return x.src(c.Fun) == "panic"
		}
	}
	return false
}

func c15Mentions(x *X, cond ast.Expr, base string) bool {
	if cond == nil {
		return false
	}
	s := x.src(cond)
	return strings.Contains(s, "len("+base+")") || strings.Contains(s, base+` == ""`) || strings.Contains(s, base+` != ""`)
}

func c15IndexGuards(x *X, fd *ast.FuncDecl, fnName string) []c15Guard {
	var out []c15Guard
	ren := c15Roles(x, fd)
	pr := func(n ast.Node) string { return c15Print(x, n, ren) }
	counters := map[string]bool{}
	ast.Inspect(fd.Body, func(n ast.Node) bool {
		if f, ok := n.(*ast.ForStmt); ok {
			if as, ok := f.Init.(*ast.AssignStmt); ok && as.Tok == token.DEFINE {
				for _, l := range as.Lhs {
					if id, ok := l.(*ast.Ident); ok {
						counters[id.Name] = true
					}
				}
			}
		}
		return true
	})
	var stack []ast.Node
	ast.Inspect(fd.Body, func(n ast.Node) bool {
		if n == nil {
			stack = stack[:len(stack)-1]
			return true
		}
		stack = append(stack, n)
		ie, ok := n.(*ast.IndexExpr)
		if !ok || !c15IntLike(x, ie.Index, counters) {
			return true
		}
		base := x.src(ie.X)
		guard := "none"
		// walk outwards
	search:
		for k := len(stack) - 2; k >= 0; k-- {
			child := stack[k+1]
			switch anc := stack[k].(type) {
			case *ast.BlockStmt:
				if g := c15Earlier(x, pr, anc.List, child, base); g != "" {
					guard = g
					break search
				}
			case *ast.CaseClause:
				if g := c15Earlier(x, pr, anc.Body, child, base); g != "" {
					guard = g
					break search
				}
				// earlier clauses of the same tagless switch
				if k >= 2 {
					if sw, ok := stack[k-2].(*ast.SwitchStmt); ok && sw.Tag == nil {
						for _, cl := range sw.Body.List {
							cc := cl.(*ast.CaseClause)
							if cc == anc {
								break
							}
							for _, e := range cc.List {
								if c15Mentions(x, e, base) && len(cc.Body) > 0 && c15ExitStmt(x, cc.Body[len(cc.Body)-1]) {
									guard = "after-case " + pr(e)
									break search
								}
							}
						}
					}
				}
			case *ast.IfStmt:
				if child == ast.Node(anc.Body) && c15Mentions(x, anc.Cond, base) {
					guard = "inside-if " + pr(anc.Cond)
					break search
				}
				// an earlier branch of the same if / else-if chain that exits (a normalised `case C: return`)
				if anc.Else != nil && child == ast.Node(anc.Else) && c15Mentions(x, anc.Cond, base) && c15Exits(x, anc.Body) {
					guard = "after-case " + pr(anc.Cond)
					break search
				}
			case *ast.ForStmt:
				if child == ast.Node(anc.Body) && c15Mentions(x, anc.Cond, base) {
					guard = "loop-while " + pr(anc.Cond)
					break search
				}
			}
		}
		out = append(out, c15Guard{fnName, pr(ie), guard})
		return true
	})
	return out
}

// c15Earlier looks, among the statements before the one containing the site, for the nearest early exit whose
// condition mentions the base.
func c15Earlier(x *X, pr func(ast.Node) string, list []ast.Stmt, child ast.Node, base string) string {
	idx := -1
	for i, s := range list {
		if ast.Node(s) == child {
			idx = i
		}
	}
	for i := idx - 1; i >= 0; i-- {
		if is, ok := list[i].(*ast.IfStmt); ok && is.Else == nil && c15Mentions(x, is.Cond, base) && c15Exits(x, is.Body) {
			return "exit-if " + pr(is.Cond)
		}
	}
	return ""
}

func c15EmitIndexGuards(x *X, fds []*ast.FuncDecl) {
	var all []c15Guard
	done := map[*ast.FuncDecl]bool{}
	have := map[string]bool{}
	for _, fd := range fds {
		if fd == nil || fd.Body == nil || done[fd] {
			continue
		}
		done[fd] = true
		for _, g := range c15IndexGuards(x, fd, "") {
			key := g.site + "\x00" + g.guard
			if !have[key] {
				have[key] = true
				all = append(all, g)
			}
		}
	}
	if len(all) == 0 {
		x.fail("config: no index sites found on the path of Load / ParseFlags")
	}
	sortGuards(all)
	var rows []string
	for _, g := range all {
		rows = append(rows, "("+leanStr(g.site)+", "+leanStr(g.guard)+")")
	}
	x.defRaw("/-- (index site, dominating guard), variables printed by role, for every integer-indexed expression in the\nfunctions reachable from config.Load and FlagSet.ParseFlags (set, sorted) -/\ndef indexGuards : List (String × String) := [\n  " + strings.Join(rows, ",\n  ") + "]")
}

func sortGuards(gs []c15Guard) {
	for i := 1; i < len(gs); i++ {
		for j := i; j > 0; j-- {
			a, b := gs[j-1], gs[j]
			if a.fn+"\x00"+a.site+"\x00"+a.guard > b.fn+"\x00"+b.site+"\x00"+b.guard {
				gs[j-1], gs[j] = b, a
			}
		}
	}
}
