package main

import (
	"go/ast"
	"go/token"
	"sort"
	"strings"
)

// C11 facts. What is pinned is the MEANING the Lean model depends on, not the spelling of the source:
//
//   - variables are identified by role (i-th parameter, "assigned from the loader call", "the value sent on the
//     channel", "the field it selects"), never by name;
//   - ordered event lists are built over the function with calls into unexported same-package helpers followed
//     (x.WalkInlined / the small flow tracker below), so extracting or inlining a helper does not change them;
//   - the AST is normalised first (package constants inlined, switch -> if chains); constants whose value is not
//     a literal (minRefresh = time.Second) are resolved here;
//   - callee names are compared only where they are exported / standard library (time.Sleep, reflect.DeepEqual,
//     strings.ToLower, sort.Strings, atomic Load/Store) or referenced by the hook cert/verif_c11.go (watch,
//     getCertificate, loadCertificates, Store.certstore: renaming those breaks the harness build anyway).
func init() {
	register("C11", func(x *X) error {
		x.UseNormalizedAST()
		c11Watch(x)
		c11Handshake(x)
		c11Store(x)
		c11Load(x)
		c11Sources(x)
		c11Main(x)
		return nil
	})
}

const c11Dir = "cert"

// ---- small helpers -------------------------------------------------------------------------------------------

func c11ParamNames(fd *ast.FuncDecl) []string {
	var ps []string
	if fd.Type.Params != nil {
		for _, p := range fd.Type.Params.List {
			if len(p.Names) == 0 {
				ps = append(ps, "_")
			}
			for _, n := range p.Names {
				ps = append(ps, n.Name)
			}
		}
	}
	return ps
}

func c11IdentName(e ast.Expr) string {
	for {
		p, ok := e.(*ast.ParenExpr)
		if !ok {
			break
		}
		e = p.X
	}
	if id, ok := e.(*ast.Ident); ok {
		return id.Name
	}
	return ""
}

// c11Callee renders the callee of a call: "pkg.Func" for a selector on an identifier, ".Method" for any other
// selector (receiver spelling ignored), "name" for a plain identifier.
func c11Callee(c *ast.CallExpr) string {
	switch f := c.Fun.(type) {
	case *ast.Ident:
		return f.Name
	case *ast.SelectorExpr:
		if id, ok := f.X.(*ast.Ident); ok && id.Obj == nil && c11IsPkg(id.Name) {
			return id.Name + "." + f.Sel.Name
		}
		return "." + f.Sel.Name
	}
	return ""
}

func c11IsPkg(n string) bool {
	switch n {
	case "time", "reflect", "strings", "sort", "slices", "log", "tls", "x509", "errors", "fmt", "atomic", "filepath":
		return true
	}
	return false
}

// c11ResolveConst follows package-level constants of the package to their defining expression
// (minRefresh -> time.Second); anything else is returned unchanged.
func c11ResolveConst(x *X, e ast.Expr) ast.Expr {
	for depth := 0; depth < 6; depth++ {
		name := c11IdentName(e)
		if name == "" {
			return e
		}
		var val ast.Expr
		for _, f := range x.files(c11Dir) {
			for _, d := range f.Decls {
				gd, ok := d.(*ast.GenDecl)
				if !ok || gd.Tok != token.CONST {
					continue
				}
				for _, s := range gd.Specs {
					vs := s.(*ast.ValueSpec)
					for i, n := range vs.Names {
						if n.Name == name && i < len(vs.Values) {
							val = vs.Values[i]
						}
					}
				}
			}
		}
		if val == nil {
			return e
		}
		e = val
	}
	return e
}

// c11Flow tracks, along an inlined walk, where a local or a helper parameter got its value: `v := e` and the
// binding of a callee's parameters to the call's arguments (most recent definition wins; walk order is
// execution order for straight-line code).
type c11Flow struct {
	x   *X
	env map[string]ast.Expr
}

func (f *c11Flow) resolve(e ast.Expr) ast.Expr {
	for depth := 0; depth < 8; depth++ {
		switch v := e.(type) {
		case *ast.ParenExpr:
			e = v.X
			continue
		case *ast.Ident:
			r, ok := f.env[v.Name]
			if !ok {
				return e
			}
			if id, ok := r.(*ast.Ident); ok && id.Name == v.Name {
				return e
			}
			e = r
			continue
		}
		return e
	}
	return e
}

func (f *c11Flow) walk(fd *ast.FuncDecl, visit func(n ast.Node) bool) {
	f.x.WalkInlined(c11Dir, fd, func(n ast.Node) bool {
		switch v := n.(type) {
		case *ast.AssignStmt:
			if v.Tok == token.DEFINE {
				if len(v.Lhs) == len(v.Rhs) {
					for i, l := range v.Lhs {
						if name := c11IdentName(l); name != "" && name != "_" {
							f.env[name] = f.resolve(v.Rhs[i])
						}
					}
				} else if len(v.Rhs) == 1 {
					if name := c11IdentName(v.Lhs[0]); name != "" && name != "_" {
						f.env[name] = f.resolve(v.Rhs[0])
					}
				}
			}
		case *ast.CallExpr:
			name := ""
			switch fn := v.Fun.(type) {
			case *ast.Ident:
				name = fn.Name
			case *ast.SelectorExpr:
				name = fn.Sel.Name
			}
			if name != "" && !ast.IsExported(name) {
				if callee := f.x.anyFuncDecl(c11Dir, name); callee != nil {
					ps := c11ParamNames(callee)
					if len(ps) == len(v.Args) {
						for i, p := range ps {
							if p != "_" {
								f.env[p] = f.resolve(v.Args[i])
							}
						}
					}
				}
			}
		}
		return visit(n)
	})
}

// c11Describe names what an expression is, independent of local spelling: the selected field, the callee, a
// literal, or "?".
func c11Describe(x *X, e ast.Expr) string {
	switch v := e.(type) {
	case *ast.SelectorExpr:
		return "field:" + v.Sel.Name
	case *ast.CallExpr:
		return "call:" + c11Callee(v)
	case *ast.BasicLit:
		return x.src(v)
	}
	return "?"
}

// ---- watch ---------------------------------------------------------------------------------------------------

func c11Watch(x *X) {
	fd := x.funcDecl(c11Dir, "", "watch")
	if fd == nil {
		return
	}
	ps := c11ParamNames(fd)
	if len(ps) != 4 {
		x.fail("cert.watch: expected 4 parameters (channel, refresh, path, loader), found %d", len(ps))
		return
	}
	role := map[string]string{ps[0]: "ch", ps[1]: "refresh", ps[2]: "path", ps[3]: "loadFn"}
	is := func(e ast.Expr, r string) bool { n := c11IdentName(e); return n != "" && role[n] == r }

	// statements before the loop: the once flag and the floor, in this order
	var loop *ast.ForStmt
	onceExpr, floor := "", ""
	onceIdx, floorIdx := -1, -1
	for i, st := range fd.Body.List {
		if f, ok := st.(*ast.ForStmt); ok {
			loop = f
			break
		}
		switch s := st.(type) {
		case *ast.AssignStmt:
			if s.Tok == token.DEFINE && len(s.Lhs) == 1 && len(s.Rhs) == 1 {
				if be, ok := s.Rhs[0].(*ast.BinaryExpr); ok && is(be.X, "refresh") {
					role[c11IdentName(s.Lhs[0])] = "once"
					onceExpr = "refresh " + be.Op.String() + " " + x.src(c11ResolveConst(x, be.Y))
					onceIdx = i
				}
			}
			// refresh = max(refresh, X)
			if s.Tok == token.ASSIGN && len(s.Lhs) == 1 && len(s.Rhs) == 1 && is(s.Lhs[0], "refresh") {
				if c, ok := s.Rhs[0].(*ast.CallExpr); ok && c11Callee(c) == "max" && len(c.Args) == 2 {
					for k := 0; k < 2; k++ {
						if is(c.Args[k], "refresh") {
							floor, floorIdx = x.src(c11ResolveConst(x, c.Args[1-k])), i
						}
					}
				}
			}
		case *ast.IfStmt:
			// if refresh < X { refresh = X }
			be, ok := s.Cond.(*ast.BinaryExpr)
			if ok && s.Else == nil && s.Init == nil && len(s.Body.List) == 1 && be.Op == token.LSS && is(be.X, "refresh") {
				if as, ok := s.Body.List[0].(*ast.AssignStmt); ok && as.Tok == token.ASSIGN && len(as.Lhs) == 1 && len(as.Rhs) == 1 && is(as.Lhs[0], "refresh") {
					a, b := x.src(c11ResolveConst(x, be.Y)), x.src(c11ResolveConst(x, as.Rhs[0]))
					if a == b {
						floor, floorIdx = a, i
					}
				}
			}
		}
	}
	x.defStr("refreshFloor", floor)
	x.defStr("onceExpr", onceExpr)
	x.defBool("onceBeforeFloor", onceIdx >= 0 && floorIdx >= 0 && onceIdx < floorIdx)
	if loop == nil {
		x.fail("cert.watch: for loop not found")
		return
	}
	if loop.Cond != nil || loop.Init != nil || loop.Post != nil {
		x.fail("cert.watch: the loop is no longer `for {`")
	}

	// pass 1: roles of the locals of the loop
	for _, st := range loop.Body.List {
		as, ok := st.(*ast.AssignStmt)
		if !ok || len(as.Rhs) != 1 {
			continue
		}
		if c, ok := as.Rhs[0].(*ast.CallExpr); ok {
			switch {
			case is(c.Fun, "loadFn"):
				if len(as.Lhs) == 2 {
					role[c11IdentName(as.Lhs[0])] = "next"
				}
			case len(c.Args) == 1 && is(c.Args[0], "next") && len(as.Lhs) == 2:
				role[c11IdentName(as.Lhs[0])] = "certs"
			default:
				// one poll extracted into an unexported helper that is handed the loader: its results are named by
				// what the helper's own return statements put there (the loader's result, what was made from it)
				name := c11Callee(c)
				passesLoader := false
				for _, a := range c.Args {
					passesLoader = passesLoader || is(a, "loadFn")
				}
				if passesLoader && name != "" && !strings.Contains(name, ".") && !ast.IsExported(name) {
					if callee := x.anyFuncDecl(c11Dir, name); callee != nil {
						for i, r := range c11HelperResultRoles(callee) {
							if i < len(as.Lhs) && r != "" {
								role[c11IdentName(as.Lhs[i])] = r
							}
						}
					}
				}
			}
		} else if as.Tok == token.ASSIGN && len(as.Lhs) == 1 && is(as.Rhs[0], "next") {
			role[c11IdentName(as.Lhs[0])] = "last"
		}
	}

	// does a statement sleep for `refresh`? helpers are followed with the parameter bound to the argument
	var sleeps func(n ast.Node, refreshName string, depth int) string
	sleeps = func(n ast.Node, refreshName string, depth int) string {
		res := ""
		ast.Inspect(n, func(m ast.Node) bool {
			c, ok := m.(*ast.CallExpr)
			if !ok || res != "" {
				return res == ""
			}
			if c11Callee(c) == "time.Sleep" && len(c.Args) == 1 {
				if c11IdentName(c.Args[0]) == refreshName && refreshName != "" {
					res = "sleep"
				} else {
					res = "sleep(?)"
				}
				return false
			}
			name := c11Callee(c)
			if depth < 4 && name != "" && !strings.Contains(name, ".") && !ast.IsExported(name) {
				if callee := x.anyFuncDecl(c11Dir, name); callee != nil {
					cps := c11ParamNames(callee)
					bound := ""
					for i, a := range c.Args {
						if i < len(cps) && c11IdentName(a) == refreshName && refreshName != "" {
							bound = cps[i]
						}
					}
					if r := sleeps(callee.Body, bound, depth+1); r != "" {
						res = r
						return false
					}
				}
			}
			return true
		})
		return res
	}

	// guard kinds
	lastCall := ""
	errOf := map[string]string{} // error variable -> which call assigned it most recently
	var guard func(cond ast.Expr, depth int) string
	guard = func(cond ast.Expr, depth int) string {
		switch c := cond.(type) {
		case *ast.ParenExpr:
			return guard(c.X, depth)
		case *ast.Ident:
			if role[c.Name] == "once" {
				return "once"
			}
		case *ast.BinaryExpr:
			if c.Op == token.NEQ {
				a, b := c11IdentName(c.X), c11IdentName(c.Y)
				if b == "nil" && errOf[a] != "" {
					return errOf[a] + "-error"
				}
				if a == "nil" && errOf[b] != "" {
					return errOf[b] + "-error"
				}
			}
		case *ast.CallExpr:
			if c11Callee(c) == "reflect.DeepEqual" && len(c.Args) == 2 &&
				(is(c.Args[0], "next") && is(c.Args[1], "last") || is(c.Args[0], "last") && is(c.Args[1], "next")) {
				return "unchanged"
			}
			// an unexported helper that is just `return reflect.DeepEqual(p, q)` on its two parameters
			name := c11Callee(c)
			if depth < 2 && name != "" && !strings.Contains(name, ".") && len(c.Args) == 2 &&
				(is(c.Args[0], "next") && is(c.Args[1], "last") || is(c.Args[0], "last") && is(c.Args[1], "next")) {
				if callee := x.anyFuncDecl(c11Dir, name); callee != nil && len(callee.Body.List) == 1 {
					cps := c11ParamNames(callee)
					if rs, ok := callee.Body.List[0].(*ast.ReturnStmt); ok && len(rs.Results) == 1 && len(cps) == 2 {
						if rc, ok := rs.Results[0].(*ast.CallExpr); ok && c11Callee(rc) == "reflect.DeepEqual" && len(rc.Args) == 2 {
							a, b := c11IdentName(rc.Args[0]), c11IdentName(rc.Args[1])
							if a != b && (a == cps[0] || a == cps[1]) && (b == cps[0] || b == cps[1]) {
								return "unchanged"
							}
						}
					}
				}
			}
		}
		return "other"
	}

	// events of a block, in order
	var blockEvents func(b *ast.BlockStmt) []string
	var stmtEvents func(st ast.Stmt) []string
	stmtEvents = func(st ast.Stmt) []string {
		switch s := st.(type) {
		case *ast.ExprStmt:
			if c, ok := s.X.(*ast.CallExpr); ok {
				if strings.HasPrefix(c11Callee(c), "log.") {
					return nil
				}
				if r := sleeps(s, ps[1], 0); r != "" {
					return []string{r}
				}
			}
			return []string{"other"}
		case *ast.AssignStmt:
			if len(s.Rhs) == 1 {
				if c, ok := s.Rhs[0].(*ast.CallExpr); ok {
					switch {
					case is(c.Fun, "loadFn"):
						lastCall = "load"
						if len(s.Lhs) == 2 {
							errOf[c11IdentName(s.Lhs[1])] = "load"
						}
						if len(c.Args) == 1 && is(c.Args[0], "path") {
							return []string{"load"}
						}
						return []string{"load(?)"}
					case len(c.Args) == 1 && is(c.Args[0], "next") && len(s.Lhs) == 2 && is(s.Lhs[0], "certs"):
						lastCall = "make"
						errOf[c11IdentName(s.Lhs[1])] = "make"
						return []string{"make:" + c11Callee(c)}
					}
				}
				if s.Tok == token.ASSIGN && len(s.Lhs) == 1 && is(s.Lhs[0], "last") && is(s.Rhs[0], "next") {
					return []string{"remember"}
				}
			}
			return []string{"other"}
		case *ast.SendStmt:
			if is(s.Chan, "ch") && is(s.Value, "certs") {
				return []string{"send"}
			}
			return []string{"send(?)"}
		case *ast.BranchStmt:
			if s.Tok == token.CONTINUE && s.Label == nil {
				return []string{"continue"}
			}
			return []string{"other"}
		case *ast.ReturnStmt:
			return []string{"return"}
		case *ast.IfStmt:
			if s.Init != nil {
				return []string{"other"}
			}
			ev := "if " + guard(s.Cond, 0) + ": " + strings.Join(blockEvents(s.Body), " ")
			if s.Else != nil {
				if eb, ok := s.Else.(*ast.BlockStmt); ok {
					ev += " else: " + strings.Join(blockEvents(eb), " ")
				} else {
					ev += " else: other"
				}
			}
			return []string{ev}
		case *ast.BlockStmt:
			return blockEvents(s)
		case *ast.EmptyStmt:
			return nil
		}
		return []string{"other"}
	}
	blockEvents = func(b *ast.BlockStmt) []string {
		var out []string
		for _, st := range b.List {
			out = append(out, stmtEvents(st)...)
		}
		return out
	}
	_ = lastCall
	x.defStrList("watchLoopEvents", blockEvents(loop.Body))

	// how the made certificates leave the loop: every send statement of the function, those that are a case of a
	// select (a select with a default branch can drop a publication when the consumer is slow), whether the send
	// hands the value made from the loaded material to the channel parameter, and goroutines started by watch
	// Counted over watch with every unexported same-package callee followed (the name bound to the channel parameter
	// is carried along), so that moving the send into a helper hides nothing.
	sends, inSelect, goStmts := 0, 0, 0
	sendOK := false          // some send hands the value made from the loaded material to the channel parameter
	allOnParam := true       // every send is on the channel parameter
	var scan func(body ast.Node, chName string, top bool, depth int)
	scan = func(body ast.Node, chName string, top bool, depth int) {
		ast.Inspect(body, func(n ast.Node) bool {
			switch v := n.(type) {
			case *ast.SendStmt:
				sends++
				if c11IdentName(v.Chan) == "" || c11IdentName(v.Chan) != chName {
					allOnParam = false
				}
				if top && is(v.Chan, "ch") && is(v.Value, "certs") {
					sendOK = true
				}
			case *ast.CommClause:
				if _, ok := v.Comm.(*ast.SendStmt); ok {
					inSelect++
				}
			case *ast.GoStmt:
				goStmts++
			case *ast.CallExpr:
				name := c11Callee(v)
				if depth < 4 && name != "" && !strings.Contains(name, ".") && !ast.IsExported(name) {
					if callee := x.anyFuncDecl(c11Dir, name); callee != nil && callee != fd {
						cps := c11ParamNames(callee)
						bound := ""
						for i, a := range v.Args {
							if i < len(cps) && chName != "" && c11IdentName(a) == chName {
								bound = cps[i]
							}
						}
						scan(callee.Body, bound, false, depth+1)
					}
				}
			}
			return true
		})
	}
	scan(fd.Body, ps[0], true, 0)
	x.defNat("watchSends", uint64(sends))
	x.defNat("watchSendsInSelect", uint64(inSelect))
	x.defBool("watchSendsOnChannelParam", allOnParam)
	x.defBool("watchSendsMadeCertsOnChannelParam", sendOK)
	x.defNat("watchGoStmts", uint64(goStmts))
}

// c11HelperResultRoles says, for a helper that performs the poll of watch, which of its results is the loaded
// material ("next": assigned from a call of a func-typed parameter) and which the certificates made from it
// ("certs": assigned from a one-argument call on that material), judged by its last return statement.
func c11HelperResultRoles(fd *ast.FuncDecl) []string {
	funcParams := map[string]bool{}
	if fd.Type.Params != nil {
		for _, p := range fd.Type.Params.List {
			if _, ok := p.Type.(*ast.FuncType); ok {
				for _, n := range p.Names {
					funcParams[n.Name] = true
				}
			}
		}
	}
	role := map[string]string{}
	ast.Inspect(fd.Body, func(n ast.Node) bool {
		as, ok := n.(*ast.AssignStmt)
		if !ok || len(as.Rhs) != 1 {
			return true
		}
		if c, ok := as.Rhs[0].(*ast.CallExpr); ok && len(as.Lhs) == 2 {
			if funcParams[c11IdentName(c.Fun)] {
				role[c11IdentName(as.Lhs[0])] = "next"
			} else if len(c.Args) == 1 && role[c11IdentName(c.Args[0])] == "next" {
				role[c11IdentName(as.Lhs[0])] = "certs"
			}
		}
		return true
	})
	var last *ast.ReturnStmt
	ast.Inspect(fd.Body, func(n ast.Node) bool {
		if r, ok := n.(*ast.ReturnStmt); ok {
			last = r
		}
		return true
	})
	var out []string
	if last != nil {
		for _, e := range last.Results {
			out = append(out, role[c11IdentName(e)])
		}
	}
	return out
}

// ---- TLSConfig / GetCertificate closure / getCertificate --------------------------------------------------------

func c11Handshake(x *X) {
	fd := x.funcDecl(c11Dir, "", "TLSConfig")
	if fd == nil {
		return
	}
	var getCert *ast.FuncLit
	ast.Inspect(fd.Body, func(n ast.Node) bool {
		if kv, ok := n.(*ast.KeyValueExpr); ok && c11IdentName(kv.Key) == "GetCertificate" {
			if fl, ok := kv.Value.(*ast.FuncLit); ok {
				getCert = fl
			}
		}
		return true
	})
	if getCert == nil {
		x.fail("cert.TLSConfig: GetCertificate function literal not found")
	} else {
		// the closure with every unexported same-package callee followed: atomic loads and decision calls
		syn := &ast.FuncDecl{Name: ast.NewIdent("GetCertificate closure"), Type: getCert.Type, Body: getCert.Body}
		loads, decisions := 0, 0
		x.WalkInlined(c11Dir, syn, func(n ast.Node) bool {
			if c, ok := n.(*ast.CallExpr); ok {
				switch c11Callee(c) {
				case ".Load":
					loads++
				case "getCertificate":
					decisions++
				}
			}
			return true
		})
		x.defNat("handshakeAtomicLoads", uint64(loads))
		x.defNat("handshakeDecisionCalls", uint64(decisions))
	}
	// updates: exactly one place applies a set, inside the loop that receives from the source's channel - a
	// `for v := range src.Certificates()` or, equivalently, a `for { v, ok := <-ch; if !ok { return }; … }` over a
	// channel obtained from `src.Certificates()` (directly or through a local assigned from that call)
	fromSource := map[string]bool{} // locals assigned from a .Certificates() call
	ast.Inspect(fd.Body, func(n ast.Node) bool {
		if as, ok := n.(*ast.AssignStmt); ok && len(as.Lhs) == 1 && len(as.Rhs) == 1 {
			if c, ok := as.Rhs[0].(*ast.CallExpr); ok && c11Callee(c) == ".Certificates" {
				if name := c11IdentName(as.Lhs[0]); name != "" {
					fromSource[name] = true
				}
			}
		}
		return true
	})
	isSourceChan := func(e ast.Expr) bool {
		if c, ok := e.(*ast.CallExpr); ok && c11Callee(c) == ".Certificates" {
			return true
		}
		return fromSource[c11IdentName(e)]
	}
	countApply := func(b *ast.BlockStmt) int {
		k := 0
		ast.Inspect(b, func(m ast.Node) bool {
			if c, ok := m.(*ast.CallExpr); ok && c11Callee(c) == ".SetCertificates" {
				k++
			}
			return true
		})
		return k
	}
	apply, inRange := 0, 0
	ast.Inspect(fd.Body, func(n ast.Node) bool {
		switch v := n.(type) {
		case *ast.CallExpr:
			if c11Callee(v) == ".SetCertificates" {
				apply++
			}
		case *ast.RangeStmt:
			if isSourceChan(v.X) {
				inRange += countApply(v.Body)
			}
		case *ast.ForStmt:
			// an explicit receive loop: the body receives from the source's channel
			receives := false
			ast.Inspect(v.Body, func(m ast.Node) bool {
				if u, ok := m.(*ast.UnaryExpr); ok && u.Op == token.ARROW && isSourceChan(u.X) {
					receives = true
				}
				return true
			})
			if receives {
				inRange += countApply(v.Body)
			}
		}
		return true
	})
	x.defNat("tlsConfigApplySites", uint64(apply))
	x.defNat("tlsConfigApplySitesInReceiveLoopOverSource", uint64(inRange))

	// getCertificate (referenced by the hook): works on the value it is handed
	gc := x.funcDecl(c11Dir, "", "getCertificate")
	if gc == nil {
		return
	}
	shared := 0
	fl := &c11Flow{x: x, env: map[string]ast.Expr{}}
	var lowered []string
	fl.walk(gc, func(n ast.Node) bool {
		if c, ok := n.(*ast.CallExpr); ok {
			switch c11Callee(c) {
			case ".Load", ".Store", ".certstore", ".Swap", ".CompareAndSwap":
				shared++
			case "strings.ToLower":
				if len(c.Args) == 1 {
					lowered = append(lowered, c11Describe(x, fl.resolve(c.Args[0])))
				}
			}
		}
		return true
	})
	x.defNat("getCertificateSharedAccesses", uint64(shared))
	x.defStrList("requestLowered", lowered)
	// its first parameter is the (non-pointer) type that the store's loading method returns
	byValue := false
	if gc.Type.Params != nil && len(gc.Type.Params.List) > 0 {
		pt := gc.Type.Params.List[0].Type
		if _, ptr := pt.(*ast.StarExpr); !ptr {
			if m := x.funcDecl(c11Dir, "Store", "certstore"); m != nil && m.Type.Results != nil && len(m.Type.Results.List) == 1 {
				byValue = x.src(m.Type.Results.List[0].Type) == x.src(pt)
			}
		}
	}
	x.defBool("getCertificateTakesLoadedValue", byValue)
}

// ---- Store.SetCertificates / BuildNameToCertificate -----------------------------------------------------------

func c11Store(x *X) {
	if fd := x.funcDecl(c11Dir, "Store", "SetCertificates"); fd != nil {
		var order []string
		x.WalkInlined(c11Dir, fd, func(n ast.Node) bool {
			if c, ok := n.(*ast.CallExpr); ok {
				switch c11Callee(c) {
				case ".BuildNameToCertificate":
					order = append(order, "build-index")
				case ".Store", ".Swap", ".CompareAndSwap":
					order = append(order, "atomic-store")
				case "delete":
					order = append(order, "map-delete")
				}
			}
			if as, ok := n.(*ast.AssignStmt); ok {
				for _, l := range as.Lhs {
					if ix, ok := l.(*ast.IndexExpr); ok {
						if se, ok := ix.X.(*ast.SelectorExpr); ok && se.Sel.Name == "NameToCertificate" {
							order = append(order, "map-write")
						}
					}
				}
			}
			return true
		})
		// BuildNameToCertificate is exported, so WalkInlined does not enter it: its own writes are not listed
		x.defStrList("setCertificatesOrder", order)
	}
	// found by its (exported) method name, whatever the receiver type is called
	if fd := x.anyFuncDecl(c11Dir, "BuildNameToCertificate"); fd == nil {
		x.fail("cert: method BuildNameToCertificate not found")
	} else {
		fl := &c11Flow{x: x, env: map[string]ast.Expr{}}
		n, lowered := 0, 0
		fl.walk(fd, func(nd ast.Node) bool {
			as, ok := nd.(*ast.AssignStmt)
			if !ok {
				return true
			}
			for _, l := range as.Lhs {
				ix, ok := l.(*ast.IndexExpr)
				if !ok {
					continue
				}
				// the map: a field called NameToCertificate, or a helper parameter bound to that field
				m := fl.resolve(ix.X)
				se, ok := m.(*ast.SelectorExpr)
				if !ok || se.Sel.Name != "NameToCertificate" {
					continue
				}
				n++
				if c, ok := fl.resolve(ix.Index).(*ast.CallExpr); ok && c11Callee(c) == "strings.ToLower" {
					lowered++
				}
			}
			return true
		})
		if n == 0 {
			x.fail("cert.BuildNameToCertificate: no assignment into the NameToCertificate map found")
		}
		x.defNat("indexKeyWrites", uint64(n))
		x.defNat("indexKeyWritesLowered", uint64(lowered))
	}
}

// ---- loadCertificates ----------------------------------------------------------------------------------------

func c11Load(x *X) {
	fd := x.funcDecl(c11Dir, "", "loadCertificates")
	if fd == nil {
		return
	}
	// the slice that is sorted is the slice the result is built from, and it is sorted before
	sorted := map[string]token.Pos{}
	nsort := 0
	var suff []string
	x.WalkInlined(c11Dir, fd, func(n ast.Node) bool {
		if c, ok := n.(*ast.CallExpr); ok {
			switch c11Callee(c) {
			case "sort.Strings", "slices.Sort":
				nsort++
				if len(c.Args) == 1 {
					if name := c11IdentName(c.Args[0]); name != "" {
						sorted[name] = c.Pos()
					}
				}
			case "strings.HasSuffix":
				if len(c.Args) == 2 {
					if s, ok := x.strLit(c.Args[1]); ok {
						suff = append(suff, s)
					} else {
						suff = append(suff, "?")
					}
				}
			}
		}
		return true
	})
	built := false
	ast.Inspect(fd.Body, func(n ast.Node) bool {
		rs, ok := n.(*ast.RangeStmt)
		if !ok {
			return true
		}
		pos, ok := sorted[c11IdentName(rs.X)]
		if !ok || pos > rs.Pos() {
			return true
		}
		// the loop appends to what the function returns first
		ret := ""
		for _, st := range fd.Body.List {
			if r, ok := st.(*ast.ReturnStmt); ok && len(r.Results) >= 1 {
				ret = c11IdentName(r.Results[0])
			}
		}
		ast.Inspect(rs.Body, func(m ast.Node) bool {
			if as, ok := m.(*ast.AssignStmt); ok && len(as.Lhs) == 1 && len(as.Rhs) == 1 && ret != "" && c11IdentName(as.Lhs[0]) == ret {
				if c, ok := as.Rhs[0].(*ast.CallExpr); ok && c11Callee(c) == "append" {
					built = true
				}
			}
			return true
		})
		return true
	})
	x.defNat("loadCertificatesSortCalls", uint64(nsort))
	x.defBool("resultBuiltFromSortedFileNames", built)
	x.defStrList("loadCertificatesSuffixes", suff)
}

// ---- the sources hand their loader to watch / the fetch of loadURL ----------------------------------------------

func c11Sources(x *X) {
	describe := func(recv string) []string {
		fd := x.funcDecl(c11Dir, recv, "Certificates")
		if fd == nil {
			return []string{"?"}
		}
		fl := &c11Flow{x: x, env: map[string]ast.Expr{}}
		var out []string
		// locals first (path := makePath(...)), then the go statement
		fl.walk(fd, func(n ast.Node) bool { return true })
		ast.Inspect(fd.Body, func(n ast.Node) bool {
			g, ok := n.(*ast.GoStmt)
			if !ok || c11Callee(g.Call) != "watch" {
				return true
			}
			for i, a := range g.Call.Args {
				r := fl.resolve(a)
				switch {
				case i == 0:
					if c, ok := r.(*ast.CallExpr); ok && c11Callee(c) == "make" {
						out = append(out, "chan")
					} else {
						out = append(out, "?")
					}
				case c11IdentName(r) != "":
					out = append(out, "func:"+c11IdentName(r))
				default:
					out = append(out, c11Describe(x, r))
				}
			}
			return true
		})
		return out
	}
	x.defStrList("httpSourceWatchArgs", describe("HTTPSource"))
	x.defStrList("pathSourceWatchArgs", describe("PathSource"))
	// makePath: what it returns
	var rets []string
	if fd := x.funcDecl(c11Dir, "", "makePath"); fd != nil {
		ast.Inspect(fd.Body, func(n ast.Node) bool {
			if r, ok := n.(*ast.ReturnStmt); ok {
				for _, e := range r.Results {
					if c, ok := e.(*ast.CallExpr); ok {
						rets = append(rets, "call:"+c11Callee(c))
					} else {
						rets = append(rets, "?")
					}
				}
			}
			return true
		})
	}
	x.defStrList("makePathReturns", rets)
	// loadURL: the status test of its fetch
	var tests []string
	if fd := x.funcDecl(c11Dir, "", "loadURL"); fd != nil {
		ast.Inspect(fd.Body, func(n ast.Node) bool {
			be, ok := n.(*ast.BinaryExpr)
			if !ok {
				return true
			}
			for k, side := range []ast.Expr{be.X, be.Y} {
				if se, ok := side.(*ast.SelectorExpr); ok && se.Sel.Name == "StatusCode" {
					other := be.Y
					op := be.Op.String()
					if k == 1 {
						other = be.X
						op = "(flipped) " + op
					}
					tests = append(tests, op+" "+x.src(c11ResolveConst(x, other)))
				}
			}
			return true
		})
	}
	x.defStrList("loadURLStatusTests", tests)
}

// ---- main.makeTLSConfig ----------------------------------------------------------------------------------------

// c11Main describes how a listener gets its tls.Config: the calls into package cert made by main.makeTLSConfig, in
// order, each argument named by role (a field of the listener parameter, the result of an earlier call, …), and the
// package-level variables of package main the function touches (state shared between the listeners).
func c11Main(x *X) {
	const dir = "."
	fd := x.funcDecl(dir, "", "makeTLSConfig")
	if fd == nil {
		x.defStrList("makeTLSConfigCalls", []string{"?"})
		x.defStrList("makeTLSConfigPackageVars", []string{"?"})
		return
	}
	pkgVars := map[string]bool{}
	for _, f := range x.files(dir) {
		for _, d := range f.Decls {
			if gd, ok := d.(*ast.GenDecl); ok && gd.Tok == token.VAR {
				for _, sp := range gd.Specs {
					for _, n := range sp.(*ast.ValueSpec).Names {
						pkgVars[n.Name] = true
					}
				}
			}
		}
	}
	params := map[string]bool{}
	for _, p := range c11ParamNames(fd) {
		params[p] = true
	}
	// locals: name -> callee that produced it ("src" <- cert.NewSource)
	from := map[string]string{}
	locals := map[string]bool{}
	var calls []string
	var touched []string
	seen := map[string]bool{}
	ast.Inspect(fd.Body, func(n ast.Node) bool {
		switch v := n.(type) {
		case *ast.AssignStmt:
			for _, l := range v.Lhs {
				if name := c11IdentName(l); name != "" && v.Tok == token.DEFINE {
					locals[name] = true
				}
			}
			if len(v.Rhs) == 1 {
				if c, ok := v.Rhs[0].(*ast.CallExpr); ok {
					if se, ok := c.Fun.(*ast.SelectorExpr); ok && c11IdentName(se.X) == "cert" {
						if name := c11IdentName(v.Lhs[0]); name != "" {
							from[name] = "cert." + se.Sel.Name
						}
					}
				}
			}
		case *ast.CallExpr:
			se, ok := v.Fun.(*ast.SelectorExpr)
			if !ok || c11IdentName(se.X) != "cert" {
				return true
			}
			var args []string
			for _, a := range v.Args {
				switch e := a.(type) {
				case *ast.SelectorExpr:
					if params[c11IdentName(e.X)] {
						args = append(args, "listener."+e.Sel.Name)
					} else {
						args = append(args, "other."+e.Sel.Name)
					}
				case *ast.Ident:
					if f, ok := from[e.Name]; ok {
						args = append(args, "result:"+f)
					} else if params[e.Name] {
						args = append(args, "listener")
					} else {
						args = append(args, "?")
					}
				default:
					args = append(args, "?")
				}
			}
			calls = append(calls, "cert."+se.Sel.Name+"("+strings.Join(args, ", ")+")")
		case *ast.Ident:
			if pkgVars[v.Name] && !locals[v.Name] && !params[v.Name] && v.Obj == nil && !seen[v.Name] {
				seen[v.Name] = true
				touched = append(touched, v.Name)
			} else if pkgVars[v.Name] && v.Obj != nil {
				if _, isVar := v.Obj.Decl.(*ast.ValueSpec); isVar && !seen[v.Name] {
					seen[v.Name] = true
					touched = append(touched, v.Name)
				}
			}
		}
		return true
	})
	sort.Strings(touched)
	x.defStrList("makeTLSConfigCalls", calls)
	x.defStrList("makeTLSConfigPackageVars", touched)
}
