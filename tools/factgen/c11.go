package main

import (
	"go/ast"
	"go/token"
	"strings"
)

// C11 facts: the shape of the watch loop (every `continue` and whether a time.Sleep precedes it in its block,
// the one-second floor, the once flag), the single store load per handshake, the build-index-then-store order
// of SetCertificates, and which names are lower-cased in store.go.
func init() {
	register("C11", func(x *X) error {
		// ---- watch ----
		if fd := x.funcDecl("cert", "", "watch"); fd != nil {
			var loop *ast.ForStmt
			var floorCond, floorAssign, onceExpr string
			for _, st := range fd.Body.List {
				switch s := st.(type) {
				case *ast.ForStmt:
					if loop == nil {
						loop = s
					}
				case *ast.IfStmt:
					if loop == nil && len(s.Body.List) == 1 && s.Else == nil {
						floorCond, floorAssign = x.src(s.Cond), x.src(s.Body.List[0])
					}
				case *ast.AssignStmt:
					if len(s.Lhs) == 1 && x.src(s.Lhs[0]) == "once" && len(s.Rhs) == 1 {
						onceExpr = x.src(s.Rhs[0])
					}
				}
			}
			x.defStr("refreshFloorCond", floorCond)
			x.defStr("refreshFloorAssign", floorAssign)
			x.defStr("onceExpr", onceExpr)
			if loop == nil {
				x.fail("cert.watch: for loop not found")
			} else {
				if loop.Cond != nil || loop.Init != nil || loop.Post != nil {
					x.fail("cert.watch: the loop is no longer `for {`")
				}
				var conds []string
				var sleeps []bool
				var walk func(b *ast.BlockStmt, cond string)
				walk = func(b *ast.BlockStmt, cond string) {
					slept := false
					for _, st := range b.List {
						switch s := st.(type) {
						case *ast.ExprStmt:
							if c, ok := s.X.(*ast.CallExpr); ok && x.src(c.Fun) == "time.Sleep" {
								slept = true
							}
						case *ast.BranchStmt:
							if s.Tok == token.CONTINUE {
								conds = append(conds, cond)
								sleeps = append(sleeps, slept)
							}
						case *ast.IfStmt:
							walk(s.Body, x.src(s.Cond))
							if eb, ok := s.Else.(*ast.BlockStmt); ok {
								walk(eb, "else of "+x.src(s.Cond))
							}
						case *ast.BlockStmt:
							walk(s, cond)
						}
					}
				}
				walk(loop.Body, "")
				x.defStrList("continueConds", conds)
				bs := make([]string, len(sleeps))
				for i, b := range sleeps {
					bs[i] = "false"
					if b {
						bs[i] = "true"
					}
				}
				x.defRaw("def continueSleeps : List Bool := [" + strings.Join(bs, ", ") + "]")
				var args []string
				for _, c := range x.calls(loop.Body, "time.Sleep") {
					if len(c.Args) == 1 {
						args = append(args, x.src(c.Args[0]))
					}
				}
				x.defStrList("sleepArgs", args)
				// sends on the channel and what follows
				nsend := 0
				ast.Inspect(loop.Body, func(n ast.Node) bool {
					if s, ok := n.(*ast.SendStmt); ok {
						nsend++
						_ = s
					}
					return true
				})
				x.defNat("watchSends", uint64(nsend))
				x.defNat("watchLoaderCalls", uint64(len(x.calls(loop.Body, "loadFn"))))
				x.defNat("watchMakeCalls", uint64(len(x.calls(loop.Body, "loadCertificates"))))
			}
		}

		// ---- TLSConfig: one store load per handshake; the only SetCertificates call site ----
		if fd := x.funcDecl("cert", "", "TLSConfig"); fd != nil {
			var getCert *ast.FuncLit
			ast.Inspect(fd.Body, func(n ast.Node) bool {
				if kv, ok := n.(*ast.KeyValueExpr); ok && x.src(kv.Key) == "GetCertificate" {
					if fl, ok := kv.Value.(*ast.FuncLit); ok {
						getCert = fl
					}
				}
				return true
			})
			if getCert == nil {
				x.fail("cert.TLSConfig: GetCertificate function literal not found")
			} else {
				x.defNat("handshakeStoreLoads", uint64(len(x.calls(getCert, "store.certstore"))))
				gc := x.calls(getCert, "getCertificate")
				x.defNat("handshakeGetCertificateCalls", uint64(len(gc)))
				if len(gc) == 1 && len(gc[0].Args) == 3 {
					x.defStr("handshakeGetCertificateArg0", x.src(gc[0].Args[0]))
				} else {
					x.defStr("handshakeGetCertificateArg0", "")
				}
			}
			x.defNat("tlsConfigSetCertificatesCalls", uint64(len(x.calls(fd.Body, "store.SetCertificates"))))
		}
		if fd := x.funcDecl("cert", "Store", "certstore"); fd != nil {
			x.defNat("certstoreLoads", uint64(len(x.calls(fd.Body, "s.cs.Load"))))
		}
		if fd := x.funcDecl("cert", "", "getCertificate"); fd != nil {
			// the function works on the value it is given: no further load of shared state
			n := 0
			ast.Inspect(fd.Body, func(nd ast.Node) bool {
				if se, ok := nd.(*ast.SelectorExpr); ok && (se.Sel.Name == "Load" || se.Sel.Name == "certstore") {
					n++
				}
				return true
			})
			x.defNat("getCertificateSharedReads", uint64(n))
			if len(fd.Type.Params.List) > 0 {
				x.defStr("getCertificateParam0Type", x.src(fd.Type.Params.List[0].Type))
			}
			var low []string
			for _, c := range x.calls(fd.Body, "strings.ToLower") {
				if len(c.Args) == 1 {
					low = append(low, x.src(c.Args[0]))
				}
			}
			x.defStrList("requestLowered", low)
		}

		// ---- SetCertificates: index built before the single atomic store ----
		if fd := x.funcDecl("cert", "Store", "SetCertificates"); fd != nil {
			var order []string
			ast.Inspect(fd.Body, func(n ast.Node) bool {
				if c, ok := n.(*ast.CallExpr); ok {
					f := x.src(c.Fun)
					if f == "cs.BuildNameToCertificate" || f == "s.cs.Store" {
						order = append(order, f)
					}
				}
				return true
			})
			x.defStrList("setCertificatesOrder", order)
		}

		// ---- BuildNameToCertificate: the keys ----
		if fd := x.funcDecl("cert", "certstore", "BuildNameToCertificate"); fd != nil {
			var keys []string
			lowered := true
			ast.Inspect(fd.Body, func(n ast.Node) bool {
				as, ok := n.(*ast.AssignStmt)
				if !ok {
					return true
				}
				for _, l := range as.Lhs {
					ix, ok := l.(*ast.IndexExpr)
					if !ok || x.src(ix.X) != "c.NameToCertificate" {
						continue
					}
					keys = append(keys, x.src(ix.Index))
					c, ok := ix.Index.(*ast.CallExpr)
					if !ok || x.src(c.Fun) != "strings.ToLower" {
						lowered = false
					}
				}
				return true
			})
			if len(keys) == 0 {
				x.fail("cert.BuildNameToCertificate: no assignment into c.NameToCertificate found")
			}
			x.defStrList("indexKeys", keys)
			x.defBool("indexKeysLowered", lowered && len(keys) > 0)
		}

		// ---- loadCertificates: sorted by file name ----
		if fd := x.funcDecl("cert", "", "loadCertificates"); fd != nil {
			var args []string
			for _, c := range x.calls(fd.Body, "sort.Strings") {
				if len(c.Args) == 1 {
					args = append(args, x.src(c.Args[0]))
				}
			}
			x.defStrList("loadCertificatesSorts", args)
			var suff []string
			for _, c := range x.calls(fd.Body, "strings.HasSuffix") {
				if len(c.Args) == 2 {
					if s, ok := x.strLit(c.Args[1]); ok {
						suff = append(suff, s)
					}
				}
			}
			x.defStrList("loadCertificatesSuffixes", suff)
		}
		return nil
	})
}
