package main

import (
	"go/ast"
	"go/token"
	"regexp"
	"strconv"
)

// C10: the numeric limits and offsets of proxy/tcp/tls_clienthello.go and the way SNIProxy.ServeTCP uses the two
// functions (Peek(9), make([]byte, bufferSize), io.ReadFull, readServerName(data[5:])).
func init() {
	register("C10", func(x *X) error {
		const dir = "proxy/tcp"
		num := func(s string) (uint64, bool) {
			v, err := strconv.ParseUint(s, 0, 64)
			return v, err == nil
		}
		// conds returns the rendered conditions of all if statements and for loops of a function, in source order
		conds := func(fd *ast.FuncDecl) []string {
			var out []string
			ast.Inspect(fd.Body, func(n ast.Node) bool {
				switch s := n.(type) {
				case *ast.IfStmt:
					out = append(out, "if "+x.src(s.Cond))
				case *ast.ForStmt:
					if s.Cond != nil {
						out = append(out, "for "+x.src(s.Cond))
					} else {
						out = append(out, "for")
					}
				case *ast.CaseClause:
					c := "default"
					if len(s.List) > 0 {
						c = ""
						for i, e := range s.List {
							if i > 0 {
								c += ","
							}
							c += x.src(e)
						}
					}
					out = append(out, "case "+c)
				}
				return true
			})
			return out
		}
		// first regexp match over a list of strings; the sub-matches are numbers
		find := func(what string, list []string, re string, names ...string) {
			r := regexp.MustCompile(re)
			for _, s := range list {
				if m := r.FindStringSubmatch(s); m != nil {
					for i, n := range names {
						v, ok := num(m[i+1])
						if !ok {
							x.fail("%s: %q is not a number", what, m[i+1])
							return
						}
						x.defNat(n, v)
					}
					return
				}
			}
			x.fail("%s: no statement matches %s", what, re)
		}
		// assignments and returns rendered
		stmts := func(fd *ast.FuncDecl) []string {
			var out []string
			ast.Inspect(fd.Body, func(n ast.Node) bool {
				switch s := n.(type) {
				case *ast.AssignStmt:
					out = append(out, x.src(s))
				case *ast.ReturnStmt:
					out = append(out, x.src(s))
				}
				return true
			})
			return out
		}

		if fd := x.funcDecl(dir, "", "clientHelloBufferSize"); fd != nil {
			cs := conds(fd)
			x.defStrList("bufsizeConds", cs)
			find("clientHelloBufferSize", cs, `^if len\(data\) < (\w+)$`, "peekMin")
			find("clientHelloBufferSize", cs, `^if data\[(\w+)\] != (\w+)$`, "recTypeOff", "recTypeHandshake")
			find("clientHelloBufferSize", cs, `^if recordLength <= 0 \|\| recordLength > (\w+)$`, "maxRecordLen")
			find("clientHelloBufferSize", cs[3:], `^if data\[(\w+)\] != (\w+)$`, "hsTypeOff", "hsTypeClientHello")
			find("clientHelloBufferSize", cs, `^if handshakeLength <= 0 \|\| handshakeLength > recordLength-(\w+)$`, "hsHdrLen")
			ss := stmts(fd)
			find("clientHelloBufferSize", ss, `^recordLength := int\(data\[(\w+)\]\)<<(\w+) \| int\(data\[(\w+)\]\)$`, "recLenHiOff", "recLenShift", "recLenLoOff")
			find("clientHelloBufferSize", ss, `^handshakeLength := int\(data\[(\w+)\]\)<<(\w+) \| int\(data\[(\w+)\]\)<<(\w+) \| int\(data\[(\w+)\]\)$`,
				"hsLenOff0", "hsLenShift0", "hsLenOff1", "hsLenShift1", "hsLenOff2")
			find("clientHelloBufferSize", ss, `^return handshakeLength \+ (\w+), nil$`, "bufsizeAdd")
		}
		if e := x.valueSpec(dir, "extensionServerName"); e != nil {
			if v, ok := num(x.src(e)); ok {
				x.defNat("extensionServerName", v)
			} else {
				x.fail("extensionServerName is not a number: %s", x.src(e))
			}
		}
		if fd := x.funcDecl(dir, "clientHelloMsg", "unmarshal"); fd != nil {
			cs := conds(fd)
			x.defStrList("unmarshalConds", cs)
			ss := stmts(fd)
			find("unmarshal", cs, `^if len\(data\) < (\w+)$`, "minHelloLen")
			find("unmarshal", ss, `^m\.random = data\[(\w+):(\w+)\]$`, "randomOff", "randomEnd")
			find("unmarshal", ss, `^sessionIdLen := int\(data\[(\w+)\]\)$`, "sidLenOff")
			find("unmarshal", cs, `^if sessionIdLen > (\w+) \|\| len\(data\) < (\w+)\+sessionIdLen$`, "maxSidLen", "sidOff")
			find("unmarshal", ss, `^data = data\[(\w+)\+sessionIdLen:\]$`, "sidRebindOff")
			find("unmarshal", ss, `^data = data\[(\w+)\+cipherSuiteLen:\]$`, "cipherRebindOff")
			find("unmarshal", ss, `^data = data\[(\w+)\+compressionMethodsLen:\]$`, "compressionRebindOff")
			find("unmarshal", cs, `^if nameType == (\w+)$`, "nameTypeHost")
			// the only extension looked at is server_name: count the (uncommented) case clauses
			n := 0
			for _, c := range cs {
				if len(c) > 5 && c[:5] == "case " {
					n++
				}
			}
			x.defNat("unmarshalCaseClauses", uint64(n))
		}
		if fd := x.funcDecl(dir, "", "readServerName"); fd != nil {
			// it calls m.unmarshal on its argument unchanged
			cs := x.calls(fd, "m.unmarshal")
			ok := len(cs) == 1 && len(cs[0].Args) == 1 && len(fd.Type.Params.List) == 1 && len(fd.Type.Params.List[0].Names) == 1 &&
				x.src(cs[0].Args[0]) == fd.Type.Params.List[0].Names[0].Name
			x.defBool("readServerNamePassesArgument", ok)
		}
		if fd := x.funcDecl(dir, "SNIProxy", "ServeTCP"); fd != nil {
			// the sequence of the calls that matter, in source order, with their arguments
			var seq []string
			var pos []token.Pos
			want := map[string]bool{"bufio.NewReader": true, "tlsReader.Peek": true, "clientHelloBufferSize": true, "make": true,
				"io.ReadFull": true, "readServerName": true, "p.Lookup": true}
			ast.Inspect(fd.Body, func(n ast.Node) bool {
				if c, ok := n.(*ast.CallExpr); ok && want[x.src(c.Fun)] {
					seq = append(seq, x.src(c))
					pos = append(pos, c.Pos())
				}
				return true
			})
			if len(seq) > 7 {
				seq = seq[:7] // the errc channel's make(...) and later calls are not part of the hello handling
			}
			x.defStrList("serveTCPCalls", seq)
			for _, c := range x.calls(fd, "tlsReader.Peek") {
				if len(c.Args) == 1 {
					if v, ok := num(x.src(c.Args[0])); ok {
						x.defNat("peekArg", v)
					}
				}
			}
			for _, c := range x.calls(fd, "readServerName") {
				if len(c.Args) == 1 {
					if se, ok := c.Args[0].(*ast.SliceExpr); ok && se.High == nil && se.Low != nil {
						if v, ok := num(x.src(se.Low)); ok {
							x.defNat("recHdrSkip", v)
							x.defStr("readServerNameArgBase", x.src(se.X))
						}
					}
				}
			}
		}
		return nil
	})
}
