package main

import (
	"fmt"
	"go/ast"
	"go/token"
	"regexp"
	"sort"
	"strconv"
	"strings"
)

// C10: the numeric limits and offsets of proxy/tcp/tls_clienthello.go, the ordered checks of the two functions, and
// the way SNIProxy.ServeTCP uses them (Peek(9), make([]byte, size), io.ReadFull, readServerName(buf[5:]), Lookup).
//
// The facts pin MEANING, not spelling:
//   - the AST is normalised (package constants inlined, switch -> if chain) and integer constant expressions
//     (`tlsRecordHeaderLen + tlsHandshakeHeaderLen`) are folded here;
//   - a function is read as an ordered EVENT list through x.WalkInlined, so extracting or inlining an unexported
//     helper does not change it (an `if !helper(..) { return false }` wrapper is transparent);
//   - receivers, parameters and locals are printed as `_` (no variable name appears in any fact); the parser
//     function and the server-name field are found by ROLE (the unexported method readServerName hands its
//     parameter to; the field it returns), not by name;
//   - conditions are brought to a normal form: `>`/`>=` flipped to `<`/`<=`; on the (non-negative) lengths and
//     big-endian fields these functions compare, `x <= 0`, `x < 1` -> `x == 0` and `x > 0`, `x >= 1` -> `x != 0`;
//     `x%2 == 1`, `x%2 != 0`, `x&1 == 1` -> `x&1 != 0`; `s == ""` -> `len(s) == 0`; `a < b-c` -> `a+c < b`,
//     `a-c < b` -> `a < b+c`; operands of `+`, `==`, `!=` sorted (literals last); numbers in decimal.
//
// Names that remain pinned: clientHelloBufferSize, readServerName (referenced by the hook /repo/proxy/tcp/verif_c10.go:
// renaming them breaks the harness build anyway), SNIProxy.ServeTCP / Lookup (exported API), and the library calls
// bufio.NewReader, Peek, make, io.ReadFull.
func init() {
	register("C10", func(x *X) error {
		x.UseNormalizedAST()
		const dir = "proxy/tcp"
		c := &c10{x: x, dir: dir}

		// ---- the translated functions (xlate.go): the model regenerated from the source ----
		xlateEmit(x, dir+"/tls_clienthello.go", []xlSpec{
			{"", "clientHelloBufferSize", "XBufSize", nil, []string{"p0:Bytes:[]"}, "(Int × (Option String))"},
			// fuel of the two loops: the extension loop consumes >= 4 bytes of `data` per round, the name loop
			// >= 3 bytes of `d`; that len+1 rounds suffice is a theorem (no "fuel" panic), not an assumption
			{"clientHelloMsg", "unmarshal", "XUnmarshal", []string{"auto", "auto"}, []string{"p0:Bytes:[]", "m_serverName:Bytes:[]"}, "Bool"},
		})

		// ---- clientHelloBufferSize ----
		if fd := x.funcDecl(dir, "", "clientHelloBufferSize"); fd != nil {
			ev := c.events(fd, "")
			x.defStrList("bufsizeEvents", ev)
			c.find("clientHelloBufferSize", ev, 0, `^if len\(_\) < (\d+) ->`, "peekMin")
			i := c.find("clientHelloBufferSize", ev, 0, `^if _\[(\d+)\] != (\d+) ->`, "recTypeOff", "recTypeHandshake")
			c.find("clientHelloBufferSize", ev, 0, `^if _ == 0 \|\| (\d+) < _ ->`, "maxRecordLen")
			c.find("clientHelloBufferSize", ev, i+1, `^if _\[(\d+)\] != (\d+) ->`, "hsTypeOff", "hsTypeClientHello")
			c.find("clientHelloBufferSize", ev, 0, `^if _ == 0 \|\| _ < _\+(\d+) ->`, "hsHdrLen")
			c.find("clientHelloBufferSize", ev, 0, `^let \(int\(_\[(\d+)\]\)<<(\d+)\)\|int\(_\[(\d+)\]\)$`, "recLenHiOff", "recLenShift", "recLenLoOff")
			c.find("clientHelloBufferSize", ev, 0, `^let \(\(int\(_\[(\d+)\]\)<<(\d+)\)\|\(int\(_\[(\d+)\]\)<<(\d+)\)\)\|int\(_\[(\d+)\]\)$`,
				"hsLenOff0", "hsLenShift0", "hsLenOff1", "hsLenShift1", "hsLenOff2")
			// the successful return: `return <handshake length> + N, nil`
			var rets []string
			ast.Inspect(fd.Body, func(n ast.Node) bool {
				if r, ok := n.(*ast.ReturnStmt); ok && len(r.Results) == 2 && c.expr(r.Results[1]) == "nil" {
					rets = append(rets, "return "+c.expr(r.Results[0]))
				}
				return true
			})
			c.find("clientHelloBufferSize", rets, 0, `^return _\+(\d+)$`, "bufsizeAdd")
		}

		// ---- readServerName: which method parses, which field is returned ----
		var parser *ast.FuncDecl
		nameField := ""
		if fd := x.funcDecl(dir, "", "readServerName"); fd != nil {
			_, params, _ := x.LocalNames(fd)
			passes := false
			ast.Inspect(fd.Body, func(n ast.Node) bool {
				call, ok := n.(*ast.CallExpr)
				if !ok || len(call.Args) != 1 || len(params) != 1 {
					return true
				}
				if id, ok := call.Args[0].(*ast.Ident); !ok || id.Name != params[0] {
					return true
				}
				name := ""
				switch f := call.Fun.(type) {
				case *ast.Ident:
					name = f.Name
				case *ast.SelectorExpr:
					name = f.Sel.Name
				}
				if name != "" && !ast.IsExported(name) {
					if callee := x.anyFuncDecl(dir, name); callee != nil && parser == nil {
						parser, passes = callee, true
					}
				}
				return true
			})
			x.defBool("readServerNamePassesArgument", passes)
			// the last return statement's first result is `<msg>.<field>`
			ast.Inspect(fd.Body, func(n ast.Node) bool {
				if r, ok := n.(*ast.ReturnStmt); ok && len(r.Results) == 2 {
					if se, ok := r.Results[0].(*ast.SelectorExpr); ok && c.expr(r.Results[1]) == "true" {
						nameField = se.Sel.Name
					}
				}
				return true
			})
			if parser == nil {
				x.fail("readServerName: no unexported same-package function receives the parameter unchanged")
			}
			if nameField == "" {
				x.fail("readServerName: no `return <msg>.<field>, true`")
			}
		}

		// ---- the parser (clientHelloMsg.unmarshal, whatever it is called) ----
		if parser != nil && nameField != "" {
			ev := c.events(parser, nameField)
			x.defStrList("unmarshalEvents", ev)
			c.find("unmarshal", ev, 0, `^if len\(_\) < (\d+) -> return false$`, "minHelloLen")
			c.find("unmarshal", ev, 0, `^slice _\[(\d+):(\d+)\]$`, "randomOff", "randomEnd")
			c.find("unmarshal", ev, 0, `^let int\(_\[(\d+)\]\)$`, "sidLenOff")
			c.find("unmarshal", ev, 0, `^if (\d+) < _ \|\| len\(_\) < _\+(\d+) -> return false$`, "maxSidLen", "sidOff")
			i := c.find("unmarshal", ev, 0, `^advance _\[_\+(\d+):\]$`, "sidRebindOff")
			i = c.find("unmarshal", ev, i+1, `^advance _\[_\+(\d+):\]$`, "cipherRebindOff")
			c.find("unmarshal", ev, i+1, `^advance _\[_\+(\d+):\]$`, "compressionRebindOff")
			// the guards around the store of the server name: outermost = extension type, innermost = name type
			var guards []string
			for _, e := range ev {
				if strings.HasPrefix(e, "if ") && strings.Contains(e, "[name]") {
					guards = append(guards, e)
				}
			}
			x.defStrList("nameStoreGuards", guards)
			if len(guards) >= 2 {
				c.find("unmarshal", guards[:1], 0, `^if _ == (\d+) \[name\]`, "extensionServerName")
				c.find("unmarshal", guards[len(guards)-1:], 0, `^if _ == (\d+) \[name\]`, "nameTypeHost")
			} else {
				c.notes = append(c.notes, fmt.Sprintf("unmarshal: the store to .%s is not guarded by an extension-type and a name-type test", nameField))
			}
		}

		// ---- SNIProxy.ServeTCP: data flow from Peek to Lookup ----
		if fd := x.funcDecl(dir, "SNIProxy", "ServeTCP"); fd != nil {
			fl := c.flow(fd)
			x.defStrList("serveTCPFlow", fl)
			c.find("ServeTCP", fl, 0, `^hdr=reader\.Peek\((\d+)\)$`, "peekArg")
			c.find("ServeTCP", fl, 0, `^host=readServerName\(buf\[(\d+):\]\)$`, "recHdrSkip")
		}
		x.defStrList("shapeNotes", c.notes)
		return nil
	})
}

type c10 struct {
	x      *X
	dir    string
	locals map[string]bool
	// alias: locals that only name a pure integer expression over other stable locals and constants
	// (`end := 39 + sessionIdLen`, defined once, never assigned again): they are replaced by their defining
	// expression before an event is rendered, so hoisting a repeated offset into a local changes no fact.
	alias map[string]ast.Expr
	notes []string // shape patterns that were not found (see find)
	skip  map[ast.Node]bool
}

// c10pureArith: identifiers, literals, parentheses and integer arithmetic only (no index, slice, call).
func c10pureArith(e ast.Expr) bool {
	switch v := e.(type) {
	case *ast.Ident, *ast.BasicLit:
		return true
	case *ast.ParenExpr:
		return c10pureArith(v.X)
	case *ast.BinaryExpr:
		switch v.Op {
		case token.ADD, token.SUB, token.MUL, token.SHL, token.SHR, token.OR, token.AND:
			return c10pureArith(v.X) && c10pureArith(v.Y)
		}
	}
	return false
}

// collectAliases fills c.alias from the bodies of the given functions.
func (c *c10) collectAliases(fds []*ast.FuncDecl) {
	c.alias = map[string]ast.Expr{}
	writes := map[string]int{}
	cand := map[string]ast.Expr{}
	for _, fd := range fds {
		if fd.Body == nil {
			continue
		}
		ast.Inspect(fd.Body, func(n ast.Node) bool {
			switch s := n.(type) {
			case *ast.AssignStmt:
				for i, l := range s.Lhs {
					id, ok := l.(*ast.Ident)
					if !ok {
						continue
					}
					writes[id.Name]++
					if s.Tok == token.DEFINE && len(s.Lhs) == len(s.Rhs) && c10pureArith(s.Rhs[i]) {
						if _, isIdent := c10unparen(s.Rhs[i]).(*ast.Ident); !isIdent {
							if _, isLit := c10unparen(s.Rhs[i]).(*ast.BasicLit); !isLit {
								cand[id.Name] = s.Rhs[i]
							}
						}
					}
				}
			case *ast.IncDecStmt:
				if id, ok := s.X.(*ast.Ident); ok {
					writes[id.Name] += 2
				}
			case *ast.RangeStmt:
				for _, e := range []ast.Expr{s.Key, s.Value} {
					if id, ok := e.(*ast.Ident); ok {
						writes[id.Name] += 2
					}
				}
			}
			return true
		})
	}
	for name, rhs := range cand {
		if writes[name] != 1 {
			continue
		}
		stable := true
		ast.Inspect(rhs, func(n ast.Node) bool {
			if id, ok := n.(*ast.Ident); ok && writes[id.Name] > 1 {
				stable = false
			}
			return stable
		})
		if stable {
			c.alias[name] = rhs
		}
	}
}

// subst returns e with every alias replaced by its (parenthesised) defining expression; e itself is not modified.
func (c *c10) subst(e ast.Expr) ast.Expr { return c.substDepth(e, 0) }

func (c *c10) substDepth(e ast.Expr, depth int) ast.Expr {
	if e == nil || len(c.alias) == 0 || depth > 8 {
		return e
	}
	switch v := e.(type) {
	case *ast.Ident:
		if rhs, ok := c.alias[v.Name]; ok {
			return &ast.ParenExpr{X: c.substDepth(rhs, depth+1)}
		}
		return v
	case *ast.ParenExpr:
		return &ast.ParenExpr{X: c.substDepth(v.X, depth)}
	case *ast.BinaryExpr:
		return &ast.BinaryExpr{X: c.substDepth(v.X, depth), Op: v.Op, OpPos: v.OpPos, Y: c.substDepth(v.Y, depth)}
	case *ast.UnaryExpr:
		return &ast.UnaryExpr{Op: v.Op, OpPos: v.OpPos, X: c.substDepth(v.X, depth)}
	case *ast.CallExpr:
		n := *v
		n.Args = nil
		for _, a := range v.Args {
			n.Args = append(n.Args, c.substDepth(a, depth))
		}
		return &n
	case *ast.IndexExpr:
		return &ast.IndexExpr{X: v.X, Lbrack: v.Lbrack, Index: c.substDepth(v.Index, depth), Rbrack: v.Rbrack}
	case *ast.SliceExpr:
		n := *v
		n.Low, n.High, n.Max = c.substDepth(v.Low, depth), c.substDepth(v.High, depth), c.substDepth(v.Max, depth)
		return &n
	}
	return e
}

// constDecl finds the defining expression of a package-level constant (nil if there is none).
func (c *c10) constDecl(name string) ast.Expr {
	for _, f := range c.x.files(c.dir) {
		for _, d := range f.Decls {
			gd, ok := d.(*ast.GenDecl)
			if !ok || gd.Tok != token.CONST {
				continue
			}
			for _, s := range gd.Specs {
				vs := s.(*ast.ValueSpec)
				for i, n := range vs.Names {
					if n.Name == name && i < len(vs.Values) {
						return vs.Values[i]
					}
				}
			}
		}
	}
	return nil
}

// intConst evaluates an integer constant expression over literals and package-level constants.
func (c *c10) intConst(e ast.Expr, depth int) (int64, bool) {
	if depth > 8 {
		return 0, false
	}
	switch v := e.(type) {
	case *ast.BasicLit:
		if v.Kind == token.INT {
			n, err := strconv.ParseInt(v.Value, 0, 64)
			return n, err == nil
		}
	case *ast.ParenExpr:
		return c.intConst(v.X, depth+1)
	case *ast.Ident:
		if c.locals[v.Name] {
			return 0, false
		}
		if d := c.constDecl(v.Name); d != nil {
			return c.intConst(d, depth+1)
		}
	case *ast.BinaryExpr:
		a, ok1 := c.intConst(v.X, depth+1)
		b, ok2 := c.intConst(v.Y, depth+1)
		if ok1 && ok2 {
			switch v.Op {
			case token.ADD:
				return a + b, true
			case token.SUB:
				return a - b, true
			case token.MUL:
				return a * b, true
			case token.SHL:
				if b >= 0 && b < 62 {
					return a << uint(b), true
				}
			}
		}
	}
	return 0, false
}

func c10isNumber(s string) bool {
	if s == "" {
		return false
	}
	for _, r := range s {
		if r < '0' || r > '9' {
			return false
		}
	}
	return true
}

func c10paren(e ast.Expr, s string) string {
	for {
		p, ok := e.(*ast.ParenExpr)
		if !ok {
			break
		}
		e = p.X
	}
	if _, ok := e.(*ast.BinaryExpr); ok && !c10isNumber(s) {
		return "(" + s + ")"
	}
	return s
}

// expr prints an expression in the normal form described at the top of this file.
func (c *c10) expr(e ast.Expr) string {
	if e == nil {
		return ""
	}
	if n, ok := c.intConst(e, 0); ok {
		return strconv.FormatInt(n, 10)
	}
	switch v := e.(type) {
	case *ast.Ident:
		if c.locals[v.Name] {
			return "_"
		}
		return v.Name
	case *ast.BasicLit:
		return v.Value
	case *ast.ParenExpr:
		return c.expr(v.X)
	case *ast.CallExpr:
		var as []string
		for _, a := range v.Args {
			as = append(as, c.expr(a))
		}
		return c.expr(v.Fun) + "(" + strings.Join(as, ",") + ")"
	case *ast.IndexExpr:
		return c.expr(v.X) + "[" + c.expr(v.Index) + "]"
	case *ast.SliceExpr:
		return c.expr(v.X) + "[" + c.expr(v.Low) + ":" + c.expr(v.High) + "]"
	case *ast.SelectorExpr:
		return c.expr(v.X) + "." + v.Sel.Name
	case *ast.StarExpr:
		return "*" + c.expr(v.X)
	case *ast.UnaryExpr:
		return v.Op.String() + c10paren(v.X, c.expr(v.X))
	case *ast.ArrayType:
		return "[" + c.expr(v.Len) + "]" + c.expr(v.Elt)
	case *ast.BinaryExpr:
		return c.binary(v)
	}
	return c.x.src(e)
}

func (c *c10) sum(e ast.Expr, out *[]string) {
	for {
		p, ok := e.(*ast.ParenExpr)
		if !ok {
			break
		}
		e = p.X
	}
	if b, ok := e.(*ast.BinaryExpr); ok && b.Op == token.ADD {
		if _, isConst := c.intConst(b, 0); !isConst {
			c.sum(b.X, out)
			c.sum(b.Y, out)
			return
		}
	}
	*out = append(*out, c10paren(e, c.expr(e)))
}

func c10sortTerms(ts []string) {
	sort.SliceStable(ts, func(i, j int) bool {
		ni, nj := c10isNumber(ts[i]), c10isNumber(ts[j])
		if ni != nj {
			return !ni // literals last
		}
		return ts[i] < ts[j]
	})
}

func c10unparen(e ast.Expr) ast.Expr {
	for {
		p, ok := e.(*ast.ParenExpr)
		if !ok {
			return e
		}
		e = p.X
	}
}

func (c *c10) binary(b *ast.BinaryExpr) string {
	switch b.Op {
	case token.LOR, token.LAND:
		side := func(e ast.Expr) string {
			s := c.expr(e)
			if in, ok := c10unparen(e).(*ast.BinaryExpr); ok && (in.Op == token.LOR || in.Op == token.LAND) && in.Op != b.Op {
				return "(" + s + ")"
			}
			return s
		}
		return side(b.X) + " " + b.Op.String() + " " + side(b.Y)
	case token.ADD:
		var ts []string
		c.sum(b, &ts)
		c10sortTerms(ts)
		return strings.Join(ts, "+")
	case token.LSS, token.LEQ, token.GTR, token.GEQ, token.EQL, token.NEQ:
		return c.compare(b)
	}
	return c10paren(b.X, c.expr(b.X)) + b.Op.String() + c10paren(b.Y, c.expr(b.Y))
}

// plus renders `e + k` (k an expression) as a sorted sum.
func (c *c10) plus(e, k ast.Expr) string {
	var ts []string
	c.sum(e, &ts)
	c.sum(k, &ts)
	c10sortTerms(ts)
	return strings.Join(ts, "+")
}

func (c *c10) compare(b *ast.BinaryExpr) string {
	l, r, op := c10unparen(b.X), c10unparen(b.Y), b.Op
	if op == token.GTR {
		l, r, op = r, l, token.LSS
	} else if op == token.GEQ {
		l, r, op = r, l, token.LEQ
	}
	ls, rs := c.expr(l), c.expr(r)
	// parity
	par := func(e ast.Expr) (string, bool) {
		if m, ok := c10unparen(e).(*ast.BinaryExpr); ok {
			if k, isK := c.intConst(m.Y, 0); isK && ((m.Op == token.REM && k == 2) || (m.Op == token.AND && k == 1)) {
				return c10paren(m.X, c.expr(m.X)) + "&1", true
			}
		}
		return "", false
	}
	if op == token.EQL || op == token.NEQ {
		if p, ok := par(l); ok && c10isNumber(rs) {
			odd := (rs == "1") == (op == token.EQL)
			if rs == "0" || rs == "1" {
				if odd {
					return p + " != 0"
				}
				return p + " == 0"
			}
		}
		// string emptiness
		if rs == `""` {
			ls, rs = "len("+ls+")", "0"
		} else if ls == `""` {
			ls, rs = "len("+rs+")", "0"
		}
		if c10isNumber(ls) && !c10isNumber(rs) || (!c10isNumber(ls) && !c10isNumber(rs) && rs < ls) {
			ls, rs = rs, ls
		}
		return ls + " " + op.String() + " " + rs
	}
	// op is < or <=. Non-negative quantities against 0 and 1:
	switch {
	case op == token.LEQ && rs == "0", op == token.LSS && rs == "1":
		return ls + " == 0"
	case op == token.LSS && ls == "0", op == token.LEQ && ls == "1":
		return rs + " != 0"
	}
	// move a subtraction to the other side
	if m, ok := l.(*ast.BinaryExpr); ok && m.Op == token.SUB {
		if _, isConst := c.intConst(m, 0); !isConst {
			return c.expr(m.X) + " " + op.String() + " " + c.plus(r, m.Y)
		}
	}
	if m, ok := r.(*ast.BinaryExpr); ok && m.Op == token.SUB {
		if _, isConst := c.intConst(m, 0); !isConst {
			return c.plus(l, m.Y) + " " + op.String() + " " + c.expr(m.X)
		}
	}
	return ls + " " + op.String() + " " + rs
}

// inlinedCallee returns the unexported same-package function a call goes to (the one WalkInlined follows).
func (c *c10) inlinedCallee(e ast.Expr) *ast.FuncDecl {
	call, ok := c10unparen(e).(*ast.CallExpr)
	if !ok {
		return nil
	}
	name := ""
	switch f := call.Fun.(type) {
	case *ast.Ident:
		name = f.Name
	case *ast.SelectorExpr:
		name = f.Sel.Name
	}
	if name == "" || ast.IsExported(name) {
		return nil
	}
	return c.x.anyFuncDecl(c.dir, name)
}

// collectLocals gathers receiver, parameter and local names of fd and of everything WalkInlined follows.
func (c *c10) collectLocals(fd *ast.FuncDecl) {
	c.locals = map[string]bool{}
	add := func(f *ast.FuncDecl) {
		recv, params, locals := c.x.LocalNames(f)
		if recv != "" {
			c.locals[recv] = true
		}
		for _, n := range append(params, locals...) {
			c.locals[n] = true
		}
		if f.Type.Results != nil {
			for _, r := range f.Type.Results.List {
				for _, n := range r.Names {
					c.locals[n.Name] = true
				}
			}
		}
	}
	add(fd)
	seen := map[*ast.FuncDecl]bool{fd: true}
	all := []*ast.FuncDecl{fd}
	c.x.WalkInlined(c.dir, fd, func(n ast.Node) bool {
		if call, ok := n.(*ast.CallExpr); ok {
			if callee := c.inlinedCallee(call); callee != nil && !seen[callee] {
				seen[callee] = true
				add(callee)
				all = append(all, callee)
			}
		}
		return true
	})
	c.collectAliases(all)
}

// storesField reports whether the statements (with helpers inlined) assign to a field of that name.
func (c *c10) storesField(body *ast.BlockStmt, field string) bool {
	if field == "" || body == nil {
		return false
	}
	found := false
	synth := &ast.FuncDecl{Name: ast.NewIdent("\x00body"), Type: &ast.FuncType{}, Body: body}
	c.x.WalkInlined(c.dir, synth, func(n ast.Node) bool {
		if as, ok := n.(*ast.AssignStmt); ok {
			for _, l := range as.Lhs {
				if se, ok := l.(*ast.SelectorExpr); ok && se.Sel.Name == field {
					// a store of the zero value (`m.serverName = ""`, the reset) does not count
					if len(as.Rhs) == 1 && c.expr(as.Rhs[0]) != `""` {
						found = true
					}
				}
			}
		}
		return !found
	})
	return found
}

// outcome summarises how an if-body ends.
func (c *c10) outcome(body *ast.BlockStmt) string {
	if body == nil || len(body.List) == 0 {
		return ""
	}
	switch s := body.List[len(body.List)-1].(type) {
	case *ast.ReturnStmt:
		var rs []string
		for _, r := range s.Results {
			t := c.expr(r)
			if t == "true" || t == "false" || t == "nil" || c10isNumber(t) || t == `""` {
				rs = append(rs, t)
			} else {
				rs = append(rs, "…")
			}
		}
		return " -> return " + strings.Join(rs, ", ")
	case *ast.BranchStmt:
		return " -> " + s.Tok.String()
	}
	return ""
}

// events lists, in execution (source) order with unexported helpers inlined:
//
//	if <cond> [name] -> <how the body ends>   every if (`[name]`: the body stores the server-name field);
//	                                          an `if helper(..)` / `if !helper(..)` around an inlined helper is transparent
//	for <cond>                                every loop
//	let <expr>                                every `v := <expr>` that reads bytes (index expressions), not plain re-slicing
//	advance _[<low>:]                         every `v = v[low:]`
//	slice _[a:b]                              every slice expression with two constant bounds
func (c *c10) events(fd *ast.FuncDecl, nameField string) []string {
	c.collectLocals(fd)
	c.skip = map[ast.Node]bool{}
	var out []string
	c.x.WalkInlined(c.dir, fd, func(n ast.Node) bool {
		switch s := n.(type) {
		case *ast.FuncLit:
			return false
		case *ast.IfStmt:
			if c.skip[s] {
				return true
			}
			cond := c10unparen(s.Cond)
			if u, ok := cond.(*ast.UnaryExpr); ok && u.Op == token.NOT {
				cond = c10unparen(u.X)
			}
			if c.inlinedCallee(cond) != nil {
				return true // transparent wrapper around an inlined helper
			}
			tag := ""
			if c.storesField(s.Body, nameField) {
				tag = " [name]"
			}
			out = append(out, "if "+c.expr(c.subst(s.Cond))+tag+c.outcome(s.Body))
		case *ast.CallExpr:
			// a re-slice handed to an inlined helper (`return m.rest(data[n:])`) is the helper's `data = data[n:]`
			if c.inlinedCallee(s) != nil {
				for _, a := range s.Args {
					if se, ok := c10unparen(a).(*ast.SliceExpr); ok && se.Low != nil && se.High == nil {
						if base, ok := se.X.(*ast.Ident); ok && c.locals[base.Name] {
							out = append(out, "advance "+c.expr(c.subst(se)))
						}
					}
				}
			}
		case *ast.ForStmt:
			if s.Cond != nil {
				out = append(out, "for "+c.expr(c.subst(s.Cond)))
			} else if g := c10loopGuard(s); g != nil {
				// `for { if C { break }; … }` is `for !C { … }`
				out = append(out, "for "+c.expr(c.subst(c10negate(g.Cond))))
				c.skip[g] = true
			} else {
				out = append(out, "for")
			}
		case *ast.AssignStmt:
			if len(s.Lhs) == 1 && len(s.Rhs) == 1 {
				lhs, isId := s.Lhs[0].(*ast.Ident)
				rhs := c10unparen(s.Rhs[0])
				if se, ok := rhs.(*ast.SliceExpr); ok && isId && s.Tok == token.ASSIGN {
					if base, ok := se.X.(*ast.Ident); ok && base.Name == lhs.Name && se.High == nil {
						out = append(out, "advance "+c.expr(c.subst(se)))
					}
				} else if s.Tok == token.DEFINE && isId {
					if _, isSlice := rhs.(*ast.SliceExpr); !isSlice && c.inlinedCallee(rhs) == nil && c10hasIndex(rhs) {
						out = append(out, "let "+c.expr(c.subst(rhs)))
					}
				}
			}
		case *ast.SliceExpr:
			if s.Low != nil && s.High != nil {
				if _, ok := c.intConst(c.subst(s.Low), 0); ok {
					if _, ok := c.intConst(c.subst(s.High), 0); ok {
						out = append(out, "slice "+c.expr(c.subst(s)))
					}
				}
			}
		}
		return true
	})
	return out
}

// c10loopGuard: the leading `if C { break }` of a condition-less loop (no init, no else), or nil.
func c10loopGuard(f *ast.ForStmt) *ast.IfStmt {
	if f.Init != nil || f.Post != nil || f.Body == nil || len(f.Body.List) == 0 {
		return nil
	}
	g, ok := f.Body.List[0].(*ast.IfStmt)
	if !ok || g.Init != nil || g.Else != nil || len(g.Body.List) != 1 {
		return nil
	}
	if b, ok := g.Body.List[0].(*ast.BranchStmt); ok && b.Tok == token.BREAK && b.Label == nil {
		return g
	}
	return nil
}

// c10negate returns the negation of a condition, comparisons flipped.
func c10negate(e ast.Expr) ast.Expr {
	e = c10unparen(e)
	if b, ok := e.(*ast.BinaryExpr); ok {
		flip := map[token.Token]token.Token{token.EQL: token.NEQ, token.NEQ: token.EQL, token.LSS: token.GEQ,
			token.GEQ: token.LSS, token.GTR: token.LEQ, token.LEQ: token.GTR}
		if op, ok := flip[b.Op]; ok {
			return &ast.BinaryExpr{X: b.X, Op: op, Y: b.Y}
		}
	}
	if u, ok := e.(*ast.UnaryExpr); ok && u.Op == token.NOT {
		return u.X
	}
	return &ast.UnaryExpr{Op: token.NOT, X: &ast.ParenExpr{X: e}}
}

func c10hasIndex(e ast.Expr) bool {
	found := false
	ast.Inspect(e, func(n ast.Node) bool {
		if _, ok := n.(*ast.IndexExpr); ok {
			found = true
		}
		return !found
	})
	return found
}

// find applies a regexp to the events from index `from` on; the sub-matches are numbers that become Nat facts.
// It returns the index of the matching event (or len(list)).
func (c *c10) find(what string, list []string, from int, re string, names ...string) int {
	r := regexp.MustCompile(re)
	for i := from; i < len(list); i++ {
		if m := r.FindStringSubmatch(list[i]); m != nil {
			for k, n := range names {
				v, err := strconv.ParseUint(m[k+1], 10, 64)
				if err != nil {
					c.x.fail("%s: %q is not a number", what, m[k+1])
					return i
				}
				c.x.defNat(n, v)
			}
			return i
		}
	}
	if what == "ServeTCP" {
		// the data flow of ServeTCP is an obligation (Props/C10Facts.lean): not finding it breaks the tie
		c.x.fail("%s: no event matches %s", what, re)
	} else {
		// the shape of the two pure functions is a change detector (the pins in Props/C10Xlate.lean): the constant
		// stays undefined, the pins stop building, the streams run at the widened budget
		c.notes = append(c.notes, fmt.Sprintf("%s: no event matches %s", what, re))
	}
	return len(list)
}

// flow follows the data from the connection to Lookup in ServeTCP by ROLE: each variable is named after the
// call it was assigned from, so the list does not mention any identifier of the function.
func (c *c10) flow(fd *ast.FuncDecl) []string {
	c.collectLocals(fd)
	_, params, _ := c.x.LocalNames(fd)
	role := map[string]string{}
	for i, p := range params {
		role[p] = fmt.Sprintf("p%d", i)
	}
	arg := func(e ast.Expr) string {
		e = c10unparen(e)
		if id, ok := e.(*ast.Ident); ok {
			if r, ok := role[id.Name]; ok {
				return r
			}
		}
		if se, ok := e.(*ast.SliceExpr); ok {
			if id, ok := se.X.(*ast.Ident); ok {
				if r, ok := role[id.Name]; ok {
					return r + "[" + c.expr(se.Low) + ":" + c.expr(se.High) + "]"
				}
			}
		}
		return c.expr(e)
	}
	callName := func(call *ast.CallExpr) (string, string) { // (role-qualified name, bare name)
		switch f := call.Fun.(type) {
		case *ast.Ident:
			return f.Name, f.Name
		case *ast.SelectorExpr:
			if id, ok := f.X.(*ast.Ident); ok {
				if r, ok := role[id.Name]; ok {
					return r + "." + f.Sel.Name, f.Sel.Name
				}
				if c.locals[id.Name] {
					return "_." + f.Sel.Name, f.Sel.Name
				}
				return id.Name + "." + f.Sel.Name, f.Sel.Name
			}
			return "_." + f.Sel.Name, f.Sel.Name
		}
		return "", ""
	}
	want := map[string]string{"bufio.NewReader": "reader", "Peek": "hdr", "clientHelloBufferSize": "size", "make": "buf",
		"io.ReadFull": "", "readServerName": "host", "Lookup": ""}
	var out []string
	done := map[*ast.CallExpr]bool{}
	emit := func(call *ast.CallExpr, lhs ast.Expr) {
		if done[call] {
			return
		}
		full, bare := callName(call)
		key := bare
		if _, ok := want[full]; ok {
			key = full
		}
		newRole, ok := want[key]
		if !ok {
			return
		}
		if key == "make" && (len(call.Args) < 2 || role[c10identName(call.Args[1])] != "size") {
			return // some other make(...)
		}
		done[call] = true
		var as []string
		for _, a := range call.Args {
			as = append(as, arg(a))
		}
		s := full + "(" + strings.Join(as, ",") + ")"
		if newRole != "" {
			if id, ok := lhs.(*ast.Ident); ok && id.Name != "_" {
				role[id.Name] = newRole
				s = newRole + "=" + s
			}
		}
		out = append(out, s)
	}
	c.x.WalkInlined(c.dir, fd, func(n ast.Node) bool {
		switch s := n.(type) {
		case *ast.FuncLit:
			return false
		case *ast.AssignStmt:
			if len(s.Rhs) == 1 && len(s.Lhs) >= 1 {
				if call, ok := c10unparen(s.Rhs[0]).(*ast.CallExpr); ok {
					emit(call, s.Lhs[0])
				}
			}
		case *ast.CallExpr:
			emit(s, nil)
		}
		return true
	})
	return out
}

func c10identName(e ast.Expr) string {
	if id, ok := c10unparen(e).(*ast.Ident); ok {
		return id.Name
	}
	return ""
}
