package main

// xlate.go — a translator from a small imperative subset of Go to Lean 4 (the combinators of
// lean/Fabio/Xlate/Rt.lean).  It is the "model regenerated from the source" tie: the Lean definitions it
// writes into Generated/<P>.lean ARE what the code says now; `Props/<P>Xlate.lean` proves them equal to the
// hand-written model the property theorems are about, and is re-checked on every run.
//
// Subset: functions and methods with a pointer receiver over locals of type []byte, string, int, uintN, bool,
// error; statements: assignment (=, :=, op=, ++/--), var declaration, if/else (with init), for cond {} (no post
// statement together with continue), switch on a value (no fallthrough), break/continue without label, return;
// expressions: literals, constants (folded by go/types), locals, receiver fields, len, index, slice, integer
// arithmetic/shift/bit operations, comparisons, &&, || (short-circuit preserved), conversions between integer
// types, string([]byte), errors.New(lit).  Anything else is an error (the tie is reported broken).
//
// Integer model: `int` -> Lean `Int` guarded by an interval analysis (every int-typed expression must provably
// fit int64; `|`, `&`, `<<`, `>>` need non-negative operands and literal shift counts); uintN -> Lean UIntN.

import (
	"fmt"
	"go/ast"
	"go/constant"
	"go/importer"
	"go/parser"
	"go/token"
	"go/types"
	"math/big"
	"path/filepath"
	"sort"
	"strings"
)

type xlField struct {
	name, typ, zero string
	goName          string // what the source calls it (documentation only)
}

type xlFunc struct {
	x      *X
	fset   *token.FileSet
	info   *types.Info
	fd     *ast.FuncDecl
	name   string
	fields []xlField
	byObj  map[types.Object]string
	byRecv map[string]string // receiver field -> state field
	recv   types.Object
	used   map[string]bool
	fuel   []string // Lean expressions over `s`, one per loop in source order
	loopNo int
	tmpNo  int
	rho    string
	rhoZ   string
	results []types.Object
	assigns map[types.Object][]ast.Expr // for the interval analysis
	rngBusy map[types.Object]bool
	stubRho  string
	keep     []string       // fields the driver reads: present in a stub as well (name:type:zero)
	declKind string         // "p", "r" or "l": what is being declared now
	declNo   map[string]int
	hoisted []string // loop conditions and bodies as definitions of their own (inner loops first)
}

// xlateFile type-checks one file on its own (references to other files of the package stay unresolved and are
// ignored; a function that needs them is outside the subset anyway).
func xlateLoad(x *X, rel string) (*token.FileSet, *ast.File, *types.Info) {
	fset := token.NewFileSet()
	f, err := parser.ParseFile(fset, filepath.Join(x.repo, rel), nil, parser.ParseComments)
	if err != nil {
		x.fail("xlate: %v", err)
		return nil, nil, nil
	}
	info := &types.Info{Types: map[ast.Expr]types.TypeAndValue{}, Defs: map[*ast.Ident]types.Object{}, Uses: map[*ast.Ident]types.Object{}, Selections: map[*ast.SelectorExpr]*types.Selection{}}
	conf := types.Config{Importer: importer.ForCompiler(fset, "source", nil), Error: func(error) {}}
	conf.Check(f.Name.Name, fset, []*ast.File{f}, info)
	return fset, f, info
}

func xlateFind(f *ast.File, recv, name string) *ast.FuncDecl {
	for _, d := range f.Decls {
		fd, ok := d.(*ast.FuncDecl)
		if !ok || fd.Name.Name != name || fd.Body == nil {
			continue
		}
		r := ""
		if fd.Recv != nil && len(fd.Recv.List) == 1 {
			t := fd.Recv.List[0].Type
			if s, ok := t.(*ast.StarExpr); ok {
				t = s.X
			}
			if id, ok := t.(*ast.Ident); ok {
				r = id.Name
			}
		}
		if r == recv {
			return fd
		}
	}
	return nil
}

// Translate returns the Lean text (a namespace <leanName> with St, body, run) of one function.
func xlateFunc(x *X, fset *token.FileSet, info *types.Info, fd *ast.FuncDecl, leanName string, fuel []string, keep []string, rho string) (res string) {
	outp := &res
	t := &xlFunc{x: x, fset: fset, info: info, fd: fd, name: leanName, byObj: map[types.Object]string{}, byRecv: map[string]string{},
		used: map[string]bool{}, fuel: fuel, keep: keep, stubRho: rho, assigns: map[types.Object][]ast.Expr{}, rngBusy: map[types.Object]bool{}, declKind: "p", declNo: map[string]int{}}
	var out string
	defer func() {
		if r := recover(); r != nil {
			// Outside the subset: not an error of the tie by itself (the function is still compared with the model by the
			// correspondence streams). A stub with the same interface keeps the driver compiling; `translated = false`
			// tells it to skip the comparison, and the equivalence proofs (a change detector) no longer build.
			x.xlateNotes = append(x.xlateNotes, fmt.Sprintf("%s: %v", leanName, r))
			*outp = t.stub()
		}
	}()
	_ = out
	// receiver
	if fd.Recv != nil && len(fd.Recv.List) == 1 && len(fd.Recv.List[0].Names) == 1 {
		t.recv = info.Defs[fd.Recv.List[0].Names[0]]
	}
	// parameters and named results
	for _, p := range fd.Type.Params.List {
		for _, n := range p.Names {
			t.declare(info.Defs[n])
		}
	}
	var rts, rzs []string
	if fd.Type.Results != nil {
		for _, r := range fd.Type.Results.List {
			lt, z := t.leanType(info.Types[r.Type].Type)
			t.declKind = "r"
			if len(r.Names) == 0 {
				rts, rzs = append(rts, lt), append(rzs, z)
			}
			for _, n := range r.Names {
				t.declare(info.Defs[n])
				t.results = append(t.results, info.Defs[n])
				rts, rzs = append(rts, lt), append(rzs, z)
			}
		}
	}
	switch len(rts) {
	case 0:
		t.rho, t.rhoZ = "Unit", "()"
	case 1:
		t.rho, t.rhoZ = rts[0], rzs[0]
	default:
		t.rho, t.rhoZ = "("+strings.Join(rts, " × ")+")", "("+strings.Join(rzs, ", ")+")"
	}
	t.declKind = "l"
	t.collectAssigns(fd.Body)
	body := t.block(fd.Body.List, 1)
	if t.loopNo != len(t.fuel) {
		x.fail("xlate %s: %d loops but %d fuel expressions", leanName, t.loopNo, len(t.fuel))
	}
	var b strings.Builder
	fmt.Fprintf(&b, "namespace %s\n\n", leanName)
	fmt.Fprintf(&b, "/-- one field per parameter, result, local declaration and receiver field of `%s` -/\nstructure St where\n", t.goName())
	for _, f := range t.fields {
		fmt.Fprintf(&b, "  /-- `%s` -/\n  %s : %s := %s\n", f.goName, f.name, f.typ, f.zero)
	}
	if len(t.fields) == 0 {
		fmt.Fprintf(&b, "  unit : Unit := ()\n")
	}
	fmt.Fprintf(&b, "\nabbrev Rho := %s\n\n", t.rho)
	for _, h := range t.hoisted {
		fmt.Fprintf(&b, "%s\n\n", h)
	}
	fmt.Fprintf(&b, "def body : Stmt Rho St :=\n%s\n\n", body)
	bare := t.rhoZ
	if len(t.results) > 0 {
		var parts []string
		for _, r := range t.results {
			parts = append(parts, "s."+t.byObj[r])
		}
		bare = strings.Join(parts, ", ")
		if len(parts) > 1 {
			bare = "(" + bare + ")"
		}
	}
	fmt.Fprintf(&b, "def run (s : St) : V (Rho × St) := Fabio.Xlate.run body (fun s => %s) s\n\n", bare)
	fmt.Fprintf(&b, "/-- the function is inside the translated subset -/\ndef translated : Bool := true\n\n")
	fmt.Fprintf(&b, "end %s", leanName)
	return b.String()
}

// stub: same interface (St with the fields the driver uses, Rho, run), nothing translated.
func (t *xlFunc) stub() string {
	var b strings.Builder
	fmt.Fprintf(&b, "namespace %s\n\n/-- NOT TRANSLATED (outside the subset, see xlateNotes): interface stub -/\nstructure St where\n", t.name)
	for _, k := range t.keep {
		p := strings.SplitN(k, ":", 3)
		fmt.Fprintf(&b, "  %s : %s := %s\n", p[0], p[1], p[2])
	}
	rho := t.stubRho
	if rho == "" {
		rho = t.rho
	}
	if rho == "" {
		rho = "Unit"
	}
	fmt.Fprintf(&b, "\nabbrev Rho := %s\n\ndef run (_ : St) : V (Rho × St) := .panic \"not translated\"\n\ndef translated : Bool := false\n\nend %s", rho, t.name)
	return b.String()
}

func (t *xlFunc) goName() string {
	if t.fd.Recv != nil {
		return "(" + t.x.src(t.fd.Recv.List[0].Type) + ")." + t.fd.Name.Name
	}
	return t.fd.Name.Name
}

func (t *xlFunc) bad(n ast.Node, format string, a ...interface{}) {
	panic(fmt.Sprintf("%s: %s", t.fset.Position(n.Pos()), fmt.Sprintf(format, a...)))
}

func (t *xlFunc) leanType(ty types.Type) (string, string) {
	if ty == nil {
		panic("untyped expression (unresolved reference?)")
	}
	switch u := ty.Underlying().(type) {
	case *types.Basic:
		switch u.Kind() {
		case types.Int, types.UntypedInt:
			return "Int", "0"
		case types.Uint8:
			return "UInt8", "0"
		case types.Uint16:
			return "UInt16", "0"
		case types.Uint32:
			return "UInt32", "0"
		case types.Uint64:
			return "UInt64", "0"
		case types.Bool, types.UntypedBool:
			return "Bool", "false"
		case types.String, types.UntypedString:
			return "Bytes", "[]"
		}
	case *types.Slice:
		e, _ := t.leanType(u.Elem())
		if e == "UInt8" {
			return "Bytes", "[]"
		}
		return "(List " + e + ")", "[]"
	case *types.Interface:
		if ty.String() == "error" {
			return "(Option String)", "none"
		}
	}
	panic(fmt.Sprintf("type %s is outside the translated subset", ty))
}

func (t *xlFunc) fresh(base string) string {
	n := base
	for i := 2; t.used[n]; i++ {
		n = fmt.Sprintf("%s_%d", base, i)
	}
	t.used[n] = true
	return n
}

func (t *xlFunc) declare(obj types.Object) string {
	if obj == nil {
		panic("declaration without object")
	}
	if n, ok := t.byObj[obj]; ok {
		return n
	}
	// Fields are named by ROLE, not by the source's spelling, so that renaming a parameter, result or local leaves
	// the generated module (and the proofs about it) unchanged: p<i> parameters, r<i> named results, l<i> locals in
	// order of declaration. The Go name is kept as documentation.
	lt, z := t.leanType(obj.Type())
	n := t.fresh(fmt.Sprintf("%s%d", t.declKind, t.declNo[t.declKind]))
	t.declNo[t.declKind]++
	t.byObj[obj] = n
	t.fields = append(t.fields, xlField{n, lt, z, obj.Name()})
	return n
}

func leanIdent(s string) string {
	switch s {
	case "end", "from", "at", "do", "then", "else", "if", "fun", "let", "have", "show", "by", "in", "with", "match", "def", "theorem", "open", "namespace", "section", "structure", "where", "instance", "class", "type", "Type", "prefix", "infix", "macro", "syntax", "local", "set_option", "import", "deriving", "extends", "mutual", "partial", "unsafe", "private", "protected", "universe", "variable", "axiom", "example", "abbrev", "inductive", "s", "v":
		return s + "_"
	}
	return s
}

func (t *xlFunc) recvField(sel *ast.SelectorExpr) (string, bool) {
	id, ok := sel.X.(*ast.Ident)
	if !ok || t.recv == nil || t.info.Uses[id] != t.recv {
		return "", false
	}
	if n, ok := t.byRecv[sel.Sel.Name]; ok {
		return n, true
	}
	s := t.info.Selections[sel]
	if s == nil {
		t.bad(sel, "unresolved receiver field %s", sel.Sel.Name)
	}
	lt, z := t.leanType(s.Type())
	n := t.fresh(leanIdent("m_" + sel.Sel.Name))
	t.byRecv[sel.Sel.Name] = n
	t.fields = append(t.fields, xlField{n, lt, z, id.Name + "." + sel.Sel.Name})
	return n, true
}

// ---------------------------------------------------------------------------------------------------------
// expressions

type xlExpr struct {
	pre  []string // `let tK ← …` lines
	term string
}

func (t *xlFunc) tmp() string { t.tmpNo++; return fmt.Sprintf("t%d", t.tmpNo) }

func (e xlExpr) fn() string {
	if len(e.pre) == 0 {
		return "(fun s => .ok " + paren(e.term) + ")"
	}
	return "(fun s => do " + strings.Join(e.pre, "; ") + "; pure " + paren(e.term) + ")"
}

func (e xlExpr) inline() string { // a V-valued term (state `s` in scope)
	if len(e.pre) == 0 {
		return "pure " + paren(e.term)
	}
	return "do " + strings.Join(e.pre, "; ") + "; pure " + paren(e.term)
}

func paren(s string) string {
	if strings.ContainsAny(s, " ") && !(strings.HasPrefix(s, "(") && balanced(s)) {
		return "(" + s + ")"
	}
	return s
}

func balanced(s string) bool { // s starts with "(" : does that paren close at the very end?
	d := 0
	for i, c := range s {
		if c == '(' {
			d++
		} else if c == ')' {
			d--
			if d == 0 && i != len(s)-1 {
				return false
			}
		}
	}
	return d == 0
}

func (t *xlFunc) kind(e ast.Expr) string {
	if id, ok := e.(*ast.Ident); ok {
		if obj := t.info.Defs[id]; obj != nil {
			lt, _ := t.leanType(obj.Type())
			return lt
		}
	}
	tv, ok := t.info.Types[e]
	if !ok || tv.Type == nil {
		t.bad(e, "no type for %s", t.x.src(e))
	}
	lt, _ := t.leanType(tv.Type)
	return lt
}

func (t *xlFunc) constOf(e ast.Expr) (string, bool) {
	tv, ok := t.info.Types[e]
	if !ok || tv.Value == nil {
		return "", false
	}
	lt, _ := t.leanType(tv.Type)
	switch tv.Value.Kind() {
	case constant.Int:
		v := tv.Value.ExactString()
		if strings.HasPrefix(v, "-") {
			return "(" + v + " : " + lt + ")", true
		}
		return "(" + v + " : " + lt + ")", true
	case constant.Bool:
		return fmt.Sprint(constant.BoolVal(tv.Value)), true
	case constant.String:
		return bytesLit(constant.StringVal(tv.Value)), true
	}
	return "", false
}

func bytesLit(s string) string {
	if s == "" {
		return "([] : Bytes)"
	}
	var p []string
	for _, c := range []byte(s) {
		p = append(p, fmt.Sprint(c))
	}
	return "([" + strings.Join(p, ", ") + "] : Bytes)"
}

func (t *xlFunc) expr(e ast.Expr) xlExpr {
	if c, ok := t.constOf(e); ok {
		return xlExpr{nil, c}
	}
	switch n := e.(type) {
	case *ast.ParenExpr:
		return t.expr(n.X)
	case *ast.Ident:
		if n.Name == "nil" {
			tv := t.info.Types[n]
			_ = tv
			return xlExpr{nil, "NIL"} // replaced by the zero value of the target where it is used
		}
		obj := t.info.Uses[n]
		if obj == nil {
			obj = t.info.Defs[n]
		}
		if f, ok := t.byObj[obj]; ok {
			return xlExpr{nil, "s." + f}
		}
		t.bad(n, "identifier %s is not a local of the function", n.Name)
	case *ast.SelectorExpr:
		if f, ok := t.recvField(n); ok {
			return xlExpr{nil, "s." + f}
		}
		t.bad(n, "selector %s outside the subset", t.x.src(n))
	case *ast.IndexExpr:
		if t.kind(n.X) != "Bytes" {
			t.bad(n, "index into %s", t.kind(n.X))
		}
		a, i := t.expr(n.X), t.expr(n.Index)
		t.intRange(n.Index)
		v := t.tmp()
		pre := append(append([]string{}, a.pre...), i.pre...)
		pre = append(pre, fmt.Sprintf("let %s ← idx %s %s", v, paren(a.term), paren(t.asInt(n.Index, i.term))))
		return xlExpr{pre, v}
	case *ast.SliceExpr:
		if n.Slice3 || t.kind(n.X) != "Bytes" {
			t.bad(n, "slice expression outside the subset")
		}
		a := t.expr(n.X)
		pre := append([]string{}, a.pre...)
		var lo, hi string
		if n.Low != nil {
			l := t.expr(n.Low)
			t.intRange(n.Low)
			pre = append(pre, l.pre...)
			lo = paren(t.asInt(n.Low, l.term))
		}
		if n.High != nil {
			h := t.expr(n.High)
			t.intRange(n.High)
			pre = append(pre, h.pre...)
			hi = paren(t.asInt(n.High, h.term))
		}
		v := t.tmp()
		switch {
		case lo == "" && hi == "":
			return a
		case hi == "":
			pre = append(pre, fmt.Sprintf("let %s ← sliceFrom %s %s", v, paren(a.term), lo))
		case lo == "":
			pre = append(pre, fmt.Sprintf("let %s ← sliceTo %s %s", v, paren(a.term), hi))
		default:
			pre = append(pre, fmt.Sprintf("let %s ← slice %s %s %s", v, paren(a.term), lo, hi))
		}
		return xlExpr{pre, v}
	case *ast.UnaryExpr:
		a := t.expr(n.X)
		switch n.Op {
		case token.NOT:
			return xlExpr{a.pre, "!" + paren(a.term)}
		case token.SUB:
			if t.kind(n) == "Int" {
				t.intRange(n)
				return xlExpr{a.pre, "-" + paren(a.term)}
			}
		}
		t.bad(n, "unary %s outside the subset", n.Op)
	case *ast.BinaryExpr:
		return t.binary(n)
	case *ast.CallExpr:
		return t.call(n)
	}
	t.bad(e, "expression %s (%T) outside the subset", t.x.src(e), e)
	return xlExpr{}
}

// asInt: an index/bound expression of an unsigned type is used as Int
func (t *xlFunc) asInt(e ast.Expr, term string) string {
	switch t.kind(e) {
	case "Int":
		return term
	case "UInt8", "UInt16", "UInt32", "UInt64":
		return "Int.ofNat " + paren(term) + ".toNat"
	}
	t.bad(e, "index of type %s", t.kind(e))
	return ""
}

func (t *xlFunc) binary(n *ast.BinaryExpr) xlExpr {
	l, r := t.expr(n.X), t.expr(n.Y)
	switch n.Op {
	case token.LAND, token.LOR:
		if len(r.pre) == 0 {
			op := "&&"
			if n.Op == token.LOR {
				op = "||"
			}
			return xlExpr{l.pre, paren(l.term) + " " + op + " " + paren(r.term)}
		}
		// the right operand may panic: evaluate it only when Go does
		v := t.tmp()
		short := "true"
		cond := paren(l.term)
		if n.Op == token.LAND {
			short = "false"
			cond = "!" + cond
		}
		pre := append(append([]string{}, l.pre...), fmt.Sprintf("let %s ← (if %s then pure %s else (%s : V Bool))", v, cond, short, r.inline()))
		return xlExpr{pre, v}
	}
	pre := append(append([]string{}, l.pre...), r.pre...)
	lk := t.kind(n.X)
	rk := t.kind(n.Y)
	resk := t.kind(n)
	a, b := paren(l.term), paren(r.term)
	fix := func(term, k string, other ast.Expr) string { // nil against a slice / error
		if term == "NIL" {
			_, z := t.leanType(t.info.Types[other].Type)
			return z
		}
		return term
	}
	a, b = fix(a, lk, n.Y), fix(b, rk, n.X)
	switch n.Op {
	case token.EQL:
		return xlExpr{pre, a + " == " + b}
	case token.NEQ:
		return xlExpr{pre, a + " != " + b}
	case token.LSS, token.LEQ, token.GTR, token.GEQ:
		if lk == "Int" || rk == "Int" {
			f := map[token.Token]string{token.LSS: "ltI", token.LEQ: "leI", token.GTR: "gtI", token.GEQ: "geI"}[n.Op]
			return xlExpr{pre, f + " " + a + " " + b}
		}
		op := map[token.Token]string{token.LSS: "<", token.LEQ: "≤", token.GTR: ">", token.GEQ: "≥"}[n.Op]
		return xlExpr{pre, "decide (" + a + " " + op + " " + b + ")"}
	}
	if resk == "Int" {
		t.intRange(n)
		switch n.Op {
		case token.ADD:
			return xlExpr{pre, a + " + " + b}
		case token.SUB:
			return xlExpr{pre, a + " - " + b}
		case token.MUL:
			return xlExpr{pre, a + " * " + b}
		case token.QUO:
			return xlExpr{pre, "Int.tdiv " + a + " " + b}
		case token.REM:
			return xlExpr{pre, "Int.tmod " + a + " " + b}
		case token.OR:
			return xlExpr{pre, "orI " + a + " " + b}
		case token.AND:
			return xlExpr{pre, "andI " + a + " " + b}
		case token.SHL, token.SHR:
			k := t.shiftCount(n.Y, 63)
			if n.Op == token.SHL {
				return xlExpr{pre, fmt.Sprintf("shlI %s %d", a, k)}
			}
			return xlExpr{pre, fmt.Sprintf("shrI %s %d", a, k)}
		}
	}
	if strings.HasPrefix(resk, "UInt") {
		switch n.Op {
		case token.ADD:
			return xlExpr{pre, a + " + " + b}
		case token.SUB:
			return xlExpr{pre, a + " - " + b}
		case token.MUL:
			return xlExpr{pre, a + " * " + b}
		case token.OR:
			return xlExpr{pre, a + " ||| " + b}
		case token.AND:
			return xlExpr{pre, a + " &&& " + b}
		case token.XOR:
			return xlExpr{pre, a + " ^^^ " + b}
		case token.SHL, token.SHR:
			bits := map[string]int{"UInt8": 8, "UInt16": 16, "UInt32": 32, "UInt64": 64}[resk]
			k := t.shiftCount(n.Y, bits-1)
			op := "<<<"
			if n.Op == token.SHR {
				op = ">>>"
			}
			return xlExpr{pre, fmt.Sprintf("%s %s (%d : %s)", a, op, k, resk)}
		}
	}
	t.bad(n, "operator %s on %s outside the subset", n.Op, resk)
	return xlExpr{}
}

func (t *xlFunc) shiftCount(e ast.Expr, max int) int {
	tv := t.info.Types[e]
	if tv.Value == nil || tv.Value.Kind() != constant.Int {
		t.bad(e, "shift count is not a literal")
	}
	k, ok := constant.Int64Val(tv.Value)
	if !ok || k < 0 || int(k) > max {
		t.bad(e, "shift count %v out of range", tv.Value)
	}
	return int(k)
}

func (t *xlFunc) call(n *ast.CallExpr) xlExpr {
	// conversions
	if tv, ok := t.info.Types[n.Fun]; ok && tv.IsType() && len(n.Args) == 1 {
		to, _ := t.leanType(tv.Type)
		from := t.kind(n.Args[0])
		a := t.expr(n.Args[0])
		switch {
		case to == from:
			return a
		case to == "Int" && strings.HasPrefix(from, "UInt"):
			return xlExpr{a.pre, "Int.ofNat " + paren(a.term) + ".toNat"}
		case strings.HasPrefix(to, "UInt") && strings.HasPrefix(from, "UInt"):
			// widening keeps the value, narrowing truncates: both are .toUIntN in Lean
			return xlExpr{a.pre, paren(a.term) + ".to" + to}
		case to == "Bytes" && from == "Bytes":
			return a
		}
		t.bad(n, "conversion %s -> %s outside the subset", from, to)
	}
	if id, ok := n.Fun.(*ast.Ident); ok {
		switch id.Name {
		case "len":
			if t.kind(n.Args[0]) != "Bytes" {
				t.bad(n, "len of %s", t.kind(n.Args[0]))
			}
			a := t.expr(n.Args[0])
			return xlExpr{a.pre, "len " + paren(a.term)}
		}
	}
	if sel, ok := n.Fun.(*ast.SelectorExpr); ok {
		if pk, ok := sel.X.(*ast.Ident); ok && pk.Name == "errors" && sel.Sel.Name == "New" && len(n.Args) == 1 {
			if tv := t.info.Types[n.Args[0]]; tv.Value != nil && tv.Value.Kind() == constant.String {
				return xlExpr{nil, "some " + leanStr(constant.StringVal(tv.Value))}
			}
		}
	}
	t.bad(n, "call %s outside the subset", t.x.src(n))
	return xlExpr{}
}

// ---------------------------------------------------------------------------------------------------------
// interval analysis for `int`

var (
	minI64 = new(big.Int).Neg(new(big.Int).Lsh(big.NewInt(1), 63))
	maxI64 = new(big.Int).Sub(new(big.Int).Lsh(big.NewInt(1), 63), big.NewInt(1))
)

func (t *xlFunc) collectAssigns(body ast.Node) {
	ast.Inspect(body, func(n ast.Node) bool {
		switch s := n.(type) {
		case *ast.AssignStmt:
			if len(s.Lhs) == len(s.Rhs) {
				for i, l := range s.Lhs {
					if id, ok := l.(*ast.Ident); ok {
						obj := t.info.Defs[id]
						if obj == nil {
							obj = t.info.Uses[id]
						}
						if obj != nil {
							if s.Tok == token.ASSIGN || s.Tok == token.DEFINE {
								t.assigns[obj] = append(t.assigns[obj], s.Rhs[i])
							} else {
								t.assigns[obj] = append(t.assigns[obj], nil) // op-assign: unknown
							}
						}
					}
				}
			}
		case *ast.IncDecStmt:
			if id, ok := s.X.(*ast.Ident); ok {
				if obj := t.info.Uses[id]; obj != nil {
					t.assigns[obj] = append(t.assigns[obj], nil)
				}
			}
		}
		return true
	})
}

// intRange checks that the int-typed expression e fits int64 and returns its interval.
func (t *xlFunc) intRange(e ast.Expr) (*big.Int, *big.Int) {
	lo, hi := t.rng(e)
	if lo.Cmp(minI64) < 0 || hi.Cmp(maxI64) > 0 {
		t.bad(e, "int expression %s may leave int64 (%s..%s): not translated to unbounded Int", t.x.src(e), lo, hi)
	}
	return lo, hi
}

func (t *xlFunc) rng(e ast.Expr) (*big.Int, *big.Int) {
	full := func() (*big.Int, *big.Int) { return new(big.Int).Set(minI64), new(big.Int).Set(maxI64) }
	if tv, ok := t.info.Types[e]; ok && tv.Value != nil && tv.Value.Kind() == constant.Int {
		v, _ := new(big.Int).SetString(tv.Value.ExactString(), 10)
		return v, new(big.Int).Set(v)
	}
	switch n := e.(type) {
	case *ast.ParenExpr:
		return t.rng(n.X)
	case *ast.Ident:
		obj := t.info.Uses[n]
		if obj == nil || t.rngBusy[obj] {
			return full()
		}
		as, ok := t.assigns[obj]
		if !ok || len(as) == 0 {
			return full() // a parameter
		}
		for _, p := range t.fd.Type.Params.List {
			for _, pn := range p.Names {
				if t.info.Defs[pn] == obj {
					return full()
				}
			}
		}
		t.rngBusy[obj] = true
		defer func() { t.rngBusy[obj] = false }()
		var lo, hi *big.Int
		for _, a := range as {
			if a == nil {
				return full()
			}
			l, h := t.rng(a)
			if lo == nil || l.Cmp(lo) < 0 {
				lo = l
			}
			if hi == nil || h.Cmp(hi) > 0 {
				hi = h
			}
		}
		return lo, hi
	case *ast.CallExpr:
		if tv, ok := t.info.Types[n.Fun]; ok && tv.IsType() && len(n.Args) == 1 {
			from, _ := t.leanType(t.info.Types[n.Args[0]].Type)
			bits := map[string]uint{"UInt8": 8, "UInt16": 16, "UInt32": 32}[from]
			if bits > 0 {
				return big.NewInt(0), new(big.Int).Sub(new(big.Int).Lsh(big.NewInt(1), bits), big.NewInt(1))
			}
			if from == "Int" {
				return t.rng(n.Args[0])
			}
			return full()
		}
		if id, ok := n.Fun.(*ast.Ident); ok && id.Name == "len" {
			return big.NewInt(0), new(big.Int).Lsh(big.NewInt(1), 62)
		}
		return full()
	case *ast.UnaryExpr:
		if n.Op == token.SUB {
			l, h := t.rng(n.X)
			return new(big.Int).Neg(h), new(big.Int).Neg(l)
		}
	case *ast.BinaryExpr:
		l1, h1 := t.rng(n.X)
		switch n.Op {
		case token.SHL, token.SHR:
			k := uint(t.shiftCount(n.Y, 63))
			if l1.Sign() < 0 {
				t.bad(n, "shift of a possibly negative int")
			}
			if n.Op == token.SHL {
				return new(big.Int).Lsh(l1, k), new(big.Int).Lsh(h1, k)
			}
			return new(big.Int).Rsh(l1, k), new(big.Int).Rsh(h1, k)
		}
		l2, h2 := t.rng(n.Y)
		switch n.Op {
		case token.ADD:
			return new(big.Int).Add(l1, l2), new(big.Int).Add(h1, h2)
		case token.SUB:
			return new(big.Int).Sub(l1, h2), new(big.Int).Sub(h1, l2)
		case token.MUL:
			var lo, hi *big.Int
			for _, a := range []*big.Int{l1, h1} {
				for _, b := range []*big.Int{l2, h2} {
					p := new(big.Int).Mul(a, b)
					if lo == nil || p.Cmp(lo) < 0 {
						lo = p
					}
					if hi == nil || p.Cmp(hi) > 0 {
						hi = p
					}
				}
			}
			return lo, hi
		case token.OR, token.AND:
			if l1.Sign() < 0 || l2.Sign() < 0 {
				t.bad(n, "bit operation on a possibly negative int")
			}
			if n.Op == token.AND {
				if h1.Cmp(h2) < 0 {
					return big.NewInt(0), h1
				}
				return big.NewInt(0), h2
			}
			m := h1
			if h2.Cmp(m) > 0 {
				m = h2
			}
			return big.NewInt(0), new(big.Int).Sub(new(big.Int).Lsh(big.NewInt(1), uint(m.BitLen())), big.NewInt(1))
		case token.REM:
			if l2.Sign() > 0 {
				b := new(big.Int).Sub(h2, big.NewInt(1))
				if l1.Sign() >= 0 {
					return big.NewInt(0), b
				}
				return new(big.Int).Neg(b), b
			}
		case token.QUO:
			if l2.Sign() > 0 {
				a := new(big.Int).Abs(l1)
				if h := new(big.Int).Abs(h1); h.Cmp(a) > 0 {
					a = h
				}
				if l1.Sign() >= 0 {
					return big.NewInt(0), a
				}
				return new(big.Int).Neg(a), a
			}
		}
	}
	return full()
}

// ---------------------------------------------------------------------------------------------------------
// statements

func ind(n int) string { return strings.Repeat("  ", n) }

func (t *xlFunc) block(list []ast.Stmt, d int) string {
	if len(list) == 0 {
		return ind(d) + "skip"
	}
	var parts []string
	for _, s := range list {
		if p := t.stmt(s, d); p != "" {
			parts = append(parts, p)
		}
	}
	if len(parts) == 0 {
		return ind(d) + "skip"
	}
	// right-nested seq, one statement per line
	out := parts[len(parts)-1]
	for i := len(parts) - 2; i >= 0; i-- {
		out = ind(d) + "seq (\n" + parts[i] + ") (\n" + out + ")"
	}
	return out
}

func (t *xlFunc) stmt(s ast.Stmt, d int) string {
	switch n := s.(type) {
	case *ast.BlockStmt:
		return t.block(n.List, d)
	case *ast.EmptyStmt:
		return ""
	case *ast.DeclStmt:
		gd, ok := n.Decl.(*ast.GenDecl)
		if !ok || gd.Tok != token.VAR {
			t.bad(n, "declaration outside the subset")
		}
		var parts []string
		for _, sp := range gd.Specs {
			vs := sp.(*ast.ValueSpec)
			for i, id := range vs.Names {
				f := t.declare(t.info.Defs[id])
				var e xlExpr
				if i < len(vs.Values) {
					e = t.expr(vs.Values[i])
				} else {
					_, z := t.leanType(t.info.Defs[id].Type())
					e = xlExpr{nil, z}
				}
				parts = append(parts, fmt.Sprintf("%sassign %s (fun s v => { s with %s := v })", ind(d), e.fn(), f))
			}
		}
		return t.join(parts, d)
	case *ast.AssignStmt:
		return t.assign(n, d)
	case *ast.IncDecStmt:
		one := &ast.BasicLit{Kind: token.INT, Value: "1"}
		op := token.ADD_ASSIGN
		if n.Tok == token.DEC {
			op = token.SUB_ASSIGN
		}
		_ = one
		return t.opAssign(n.X, op, nil, d, n)
	case *ast.IfStmt:
		var pre string
		if n.Init != nil {
			pre = t.stmt(n.Init, d)
		}
		c := t.expr(n.Cond)
		a := t.block(n.Body.List, d+1)
		b := ind(d+1) + "skip"
		if n.Else != nil {
			b = t.stmt(n.Else, d+1)
			if b == "" {
				b = ind(d+1) + "skip"
			}
		}
		out := fmt.Sprintf("%sifS %s (\n%s) (\n%s)", ind(d), c.fn(), a, b)
		if pre != "" {
			out = ind(d) + "seq (\n" + pre + ") (\n" + out + ")"
		}
		return out
	case *ast.ForStmt:
		if n.Post != nil && xlHasContinue(n.Body) {
			t.bad(n, "for with post statement and continue")
		}
		var pre string
		if n.Init != nil {
			pre = t.stmt(n.Init, d)
		}
		c := xlExpr{nil, "true"}
		if n.Cond != nil {
			c = t.expr(n.Cond)
		}
		k := t.loopNo
		t.loopNo++
		fuel := "0"
		if k < len(t.fuel) {
			fuel = t.fuel[k]
		}
		if fuel == "auto" {
			// a loop `for len(x) <op> … {}`: one more round than x has elements (that this suffices is proved, not
			// assumed: running out of fuel is a panic value and the no-panic theorem covers it)
			fuel = ""
			if n.Cond != nil {
				ast.Inspect(n.Cond, func(m ast.Node) bool {
					if call, ok := m.(*ast.CallExpr); ok && fuel == "" {
						if id, ok := call.Fun.(*ast.Ident); ok && id.Name == "len" && len(call.Args) == 1 {
							if e := t.expr(call.Args[0]); len(e.pre) == 0 {
								fuel = paren(e.term) + ".length + 1"
							}
						}
					}
					return true
				})
			}
			if fuel == "" {
				t.bad(n, "no automatic fuel for this loop (its condition tests no len(x))")
			}
		}
		list := n.Body.List
		if n.Post != nil {
			list = append(append([]ast.Stmt{}, list...), n.Post)
		}
		body := t.block(list, 1)
		// condition and body become definitions of their own, so that the proofs can talk about one loop at a time
		t.hoisted = append(t.hoisted, fmt.Sprintf("/-- loop %d of `%s` (source order), condition -/\ndef loop%dCond : St → V Bool := %s\n\n/-- loop %d, body -/\ndef loop%dBody : Stmt Rho St :=\n%s",
			k, t.goName(), k, c.fn(), k, k, body))
		out := fmt.Sprintf("%sloop (fun s => %s) loop%dCond loop%dBody", ind(d), fuel, k, k)
		if pre != "" {
			out = ind(d) + "seq (\n" + pre + ") (\n" + out + ")"
		}
		return out
	case *ast.SwitchStmt:
		if n.Tag == nil {
			t.bad(n, "switch without tag")
		}
		var pre string
		if n.Init != nil {
			pre = t.stmt(n.Init, d)
		}
		tag := t.expr(n.Tag)
		// if-chain on equality, default last
		var def *ast.CaseClause
		type arm struct {
			cond xlExpr
			body string
		}
		var arms []arm
		for _, cs := range n.Body.List {
			cc := cs.(*ast.CaseClause)
			for _, st := range cc.Body {
				if b, ok := st.(*ast.BranchStmt); ok && b.Tok == token.FALLTHROUGH {
					t.bad(b, "fallthrough")
				}
			}
			if cc.List == nil {
				def = cc
				continue
			}
			var conds []string
			pre2 := append([]string{}, tag.pre...)
			for _, v := range cc.List {
				ve := t.expr(v)
				if len(ve.pre) > 0 {
					t.bad(v, "case expression with effects")
				}
				conds = append(conds, paren(tag.term)+" == "+paren(ve.term))
			}
			arms = append(arms, arm{xlExpr{pre2, strings.Join(conds, " || ")}, t.block(cc.Body, d+len(arms)+2)})
		}
		out := ind(d+len(arms)+1) + "skip"
		if def != nil {
			out = t.block(def.Body, d+len(arms)+1)
		}
		for i := len(arms) - 1; i >= 0; i-- {
			out = fmt.Sprintf("%sifS %s (\n%s) (\n%s)", ind(d+i+1), arms[i].cond.fn(), arms[i].body, out)
		}
		if xlHasBreakOutsideLoop(n.Body) {
			out = ind(d) + "catchBrk (\n" + out + ")"
		}
		if pre != "" {
			out = ind(d) + "seq (\n" + pre + ") (\n" + out + ")"
		}
		return out
	case *ast.ReturnStmt:
		if len(n.Results) == 0 {
			var parts []string
			for _, r := range t.results {
				parts = append(parts, "s."+t.byObj[r])
			}
			term := "()"
			if len(parts) == 1 {
				term = parts[0]
			} else if len(parts) > 1 {
				term = "(" + strings.Join(parts, ", ") + ")"
			}
			return fmt.Sprintf("%sret (fun s => .ok %s)", ind(d), term)
		}
		var pre, terms []string
		var rtypes []types.Type
		if t.fd.Type.Results != nil {
			for _, r := range t.fd.Type.Results.List {
				k := len(r.Names)
				if k == 0 {
					k = 1
				}
				for i := 0; i < k; i++ {
					rtypes = append(rtypes, t.info.Types[r.Type].Type)
				}
			}
		}
		for i, r := range n.Results {
			e := t.expr(r)
			pre = append(pre, e.pre...)
			term := e.term
			if term == "NIL" && i < len(rtypes) {
				_, term = t.leanType(rtypes[i])
			}
			terms = append(terms, term)
		}
		term := terms[0]
		if len(terms) > 1 {
			term = "(" + strings.Join(terms, ", ") + ")"
		}
		return ind(d) + "ret " + xlExpr{pre, term}.fn()
	case *ast.BranchStmt:
		if n.Label != nil {
			t.bad(n, "labelled branch")
		}
		switch n.Tok {
		case token.BREAK:
			return ind(d) + "brk"
		case token.CONTINUE:
			return ind(d) + "cont"
		}
	}
	t.bad(s, "statement %T outside the subset", s)
	return ""
}

func (t *xlFunc) join(parts []string, d int) string {
	if len(parts) == 0 {
		return ""
	}
	out := parts[len(parts)-1]
	for i := len(parts) - 2; i >= 0; i-- {
		out = ind(d) + "seq (\n" + parts[i] + ") (\n" + out + ")"
	}
	return out
}

func (t *xlFunc) lhsField(l ast.Expr, define bool) string {
	switch n := l.(type) {
	case *ast.Ident:
		if n.Name == "_" {
			return ""
		}
		if obj := t.info.Defs[n]; obj != nil && define {
			return t.declare(obj)
		}
		if f, ok := t.byObj[t.info.Uses[n]]; ok {
			return f
		}
		t.bad(n, "assignment to %s which is not a local", n.Name)
	case *ast.SelectorExpr:
		if f, ok := t.recvField(n); ok {
			return f
		}
	}
	t.bad(l, "assignment target %s outside the subset", t.x.src(l))
	return ""
}

func (t *xlFunc) assign(n *ast.AssignStmt, d int) string {
	if n.Tok != token.ASSIGN && n.Tok != token.DEFINE {
		if len(n.Lhs) != 1 {
			t.bad(n, "op-assignment with several targets")
		}
		return t.opAssign(n.Lhs[0], n.Tok, n.Rhs[0], d, n)
	}
	if len(n.Lhs) != len(n.Rhs) {
		t.bad(n, "assignment from a multi-value expression")
	}
	// evaluate every right-hand side first (Go's order), then store
	var pre, terms, fields []string
	for i, r := range n.Rhs {
		e := t.expr(r)
		pre = append(pre, e.pre...)
		f := t.lhsField(n.Lhs[i], n.Tok == token.DEFINE)
		term := e.term
		if term == "NIL" {
			for _, fl := range t.fields {
				if fl.name == f {
					term = fl.zero
				}
			}
		}
		if f == "" {
			continue
		}
		if lt := t.kind(n.Lhs[i]); lt == "Int" {
			t.intRange(r)
		}
		terms, fields = append(terms, term), append(fields, f)
	}
	if len(fields) == 0 {
		return fmt.Sprintf("%sassign %s (fun s _ => s)", ind(d), xlExpr{pre, "()"}.fn())
	}
	if len(fields) == 1 {
		return fmt.Sprintf("%sassign %s (fun s v => { s with %s := v })", ind(d), xlExpr{pre, terms[0]}.fn(), fields[0])
	}
	var upd []string
	for i, f := range fields {
		upd = append(upd, fmt.Sprintf("%s := v.%d", f, i+1))
	}
	// nested pairs: (a, b, c).1 = a, .2.1 = b, .2.2 = c
	for i := range fields {
		proj := ""
		for j := 0; j < i; j++ {
			proj += ".2"
		}
		if i < len(fields)-1 {
			proj += ".1"
		}
		upd[i] = fmt.Sprintf("%s := v%s", fields[i], proj)
	}
	return fmt.Sprintf("%sassign %s (fun s v => { s with %s })", ind(d), xlExpr{pre, "(" + strings.Join(terms, ", ") + ")"}.fn(), strings.Join(upd, ", "))
}

func (t *xlFunc) opAssign(lhs ast.Expr, tok token.Token, rhs ast.Expr, d int, at ast.Node) string {
	ops := map[token.Token]token.Token{token.ADD_ASSIGN: token.ADD, token.SUB_ASSIGN: token.SUB, token.MUL_ASSIGN: token.MUL, token.QUO_ASSIGN: token.QUO,
		token.REM_ASSIGN: token.REM, token.OR_ASSIGN: token.OR, token.AND_ASSIGN: token.AND, token.SHL_ASSIGN: token.SHL, token.SHR_ASSIGN: token.SHR}
	op, ok := ops[tok]
	if !ok {
		t.bad(at, "assignment operator %s", tok)
	}
	f := t.lhsField(lhs, false)
	l := t.expr(lhs)
	var r xlExpr
	if rhs == nil {
		r = xlExpr{nil, "(1 : " + t.kind(lhs) + ")"}
	} else {
		r = t.expr(rhs)
	}
	k := t.kind(lhs)
	var term string
	a, b := paren(l.term), paren(r.term)
	switch {
	case k == "Int" && op == token.ADD:
		term = a + " + " + b
	case k == "Int" && op == token.SUB:
		term = a + " - " + b
	case k == "Int" && op == token.MUL:
		term = a + " * " + b
	case k == "Int" && op == token.QUO:
		term = "Int.tdiv " + a + " " + b
	case k == "Int" && op == token.REM:
		term = "Int.tmod " + a + " " + b
	case strings.HasPrefix(k, "UInt") && op == token.ADD:
		term = a + " + " + b
	case strings.HasPrefix(k, "UInt") && op == token.SUB:
		term = a + " - " + b
	default:
		t.bad(at, "op-assignment %s on %s outside the subset", tok, k)
	}
	if k == "Int" {
		// the variable depends on itself: no interval can be derived
		t.bad(at, "self-dependent int variable %s: the interval analysis cannot bound it", t.x.src(lhs))
	}
	return fmt.Sprintf("%sassign %s (fun s v => { s with %s := v })", ind(d), xlExpr{append(l.pre, r.pre...), term}.fn(), f)
}

func xlHasContinue(n ast.Node) bool {
	found := false
	ast.Inspect(n, func(m ast.Node) bool {
		switch b := m.(type) {
		case *ast.ForStmt, *ast.RangeStmt:
			if m != n {
				return false
			}
		case *ast.BranchStmt:
			if b.Tok == token.CONTINUE {
				found = true
			}
		}
		return true
	})
	return found
}

func xlHasBreakOutsideLoop(n ast.Node) bool {
	found := false
	ast.Inspect(n, func(m ast.Node) bool {
		switch b := m.(type) {
		case *ast.ForStmt, *ast.RangeStmt, *ast.SwitchStmt, *ast.SelectStmt:
			if m != n {
				return false
			}
		case *ast.BranchStmt:
			if b.Tok == token.BREAK && b.Label == nil {
				found = true
			}
		}
		return true
	})
	return found
}

// xlateEmit translates the named functions of one file and appends them to the generated module.
type xlSpec struct {
	recv, name, lean string
	fuel             []string
	keep             []string // "field:type:zero" of the fields the driver reads (for the stub)
	rho              string   // result type as the driver expects it (for the stub)
}

func xlateEmit(x *X, rel string, specs []xlSpec) {
	fset, f, info := xlateLoad(x, rel)
	if f == nil {
		return
	}
	x.imports = append(x.imports, "Fabio.Xlate.Rt")
	x.opens = append(x.opens, "Fabio.Xlate")
	sort.Strings(x.imports)
	for _, sp := range specs {
		fd := xlateFind(f, sp.recv, sp.name)
		if fd == nil {
			x.fail("xlate: function %s.%s not found in %s", sp.recv, sp.name, rel)
			continue
		}
		x.defRaw(xlateFunc(x, fset, info, fd, sp.lean, sp.fuel, sp.keep, sp.rho))
	}
	var notes []string
	notes = append(notes, x.xlateNotes...)
	x.defStrList("xlateNotes", notes)
}
