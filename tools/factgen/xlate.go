package main

// xlate.go — a translator from a small imperative subset of Go to Lean 4 (the combinators of
// lean/Fabio/Xlate/Rt.lean).  It is the "model regenerated from the source" tie: the Lean definitions it
// writes into Generated/<P>.lean ARE what the code says now; `Props/<P>Xlate.lean` proves them equal to the
// hand-written model the property theorems are about, and is re-checked on every run.
//
// Subset: functions and methods with a pointer receiver over locals of type []byte, string, int, uintN, bool,
// error; statements: assignment (=, :=, op=, ++/--), var declaration, if/else (with init), for cond {} (no post
// statement together with continue), switch on a value (no fallthrough), break/continue without label, return;
// expressions: literals, constants (folded by go/types), locals, receiver fields, len, index, slice, integer
// arithmetic/shift/bit operations, comparisons, &&, || (short-circuit preserved), conversions between integer
// types, string([]byte), errors.New(lit).  Anything else is an error (the tie is reported broken).
//
// Integer model: `int`, `int64`, `int32`, … -> Lean `Int`. An interval analysis (a fixpoint over all assignments of
// the function, parameters at the full range of their type) bounds every signed expression; where the mathematical
// result provably fits the expression's type the plain `Int` operation is emitted, where it may not, the result is
// reduced with `wrapI <bits>` — Go defines signed overflow as two's-complement wrap-around, so this is the
// language's meaning, not an approximation (`int` is taken as 64 bits: amd64/arm64). `|`, `&`, `<<`, `>>` on
// signed values need provably non-negative operands and literal shift counts (refused otherwise); a division
// whose divisor may be zero is refused. uintN -> Lean UIntN.
//
// Round 4 additions: fixed-size arrays `[N]byte` (parameters, `var d [N]byte`, `[N]byte{}`) and freshly allocated
// `[]byte("…")` locals with index stores `d[i] = v` (checked; only for variables that provably have no alias);
// tuple assignment with index targets; package-level byte tables that are nowhere written in the package, read as
// constants; `for k, v := range <literal | local slice | table>` (structural recursion, no fuel);
// `b.Write/WriteString/WriteByte` on a `*bytes.Buffer` parameter as an output list; `strings.LastIndexByte` /
// `strings.IndexByte`; conversions between signed and unsigned integers.

import (
	"fmt"
	"go/ast"
	"go/constant"
	"go/importer"
	"go/parser"
	"go/token"
	"go/types"
	"math/big"
	"path/filepath"
	"sort"
	"strings"
)

type xlField struct {
	name, typ, zero string
	goName          string // what the source calls it (documentation only)
}

type xlFunc struct {
	x      *X
	fset   *token.FileSet
	info   *types.Info
	fd     *ast.FuncDecl
	name   string
	fields []xlField
	byObj  map[types.Object]string
	byRecv map[string]string // receiver field -> state field
	recv   types.Object
	used   map[string]bool
	fuel   []string // Lean expressions over `s`, one per loop in source order
	loopNo int
	tmpNo  int
	rho    string
	rhoZ   string
	results []types.Object
	assigns map[types.Object][]ast.Expr // for the interval analysis
	rngBusy map[types.Object]bool
	stubRho  string
	keep     []string       // fields the driver reads: present in a stub as well (name:type:zero)
	declKind string         // "p", "r" or "l": what is being declared now
	declNo   map[string]int
	hoisted []string // loop conditions and bodies as definitions of their own (inner loops first)
	rel     string   // file of the function, relative to the repo root
	file    *ast.File
	fuelNo  int // index into fuel: `for` loops only (range loops need none)
	srcs    map[types.Object][]xlSrc
	varRng  map[types.Object]ival
	solving bool
	parents map[ast.Node]ast.Node
	storeOK map[types.Object]bool
	globals map[types.Object]string // package-level table -> name of its Lean definition
	gdefs   []string
	closures map[types.Object]string // local `f := func(…) bool { return e }` -> name of its Lean definition
	lambda   map[types.Object]string // parameters of the closure being translated -> bound variable
}

// xlSrc is one way a variable gets a value (for the interval analysis)
type xlSrc struct {
	expr ast.Expr    // plain assignment from this expression; or
	op   token.Token // x op= rhs (rhs == nil: 1); or
	rhs  ast.Expr
	c    *ival // a constant interval (zero value, range key, range value)
}

type ival struct{ lo, hi *big.Int } // lo == nil: bottom (no value yet)

// xlateFile type-checks one file on its own (references to other files of the package stay unresolved and are
// ignored; a function that needs them is outside the subset anyway).
func xlateLoad(x *X, rel string) (*token.FileSet, *ast.File, *types.Info) {
	fset := token.NewFileSet()
	f, err := parser.ParseFile(fset, filepath.Join(x.repo, rel), nil, parser.ParseComments)
	if err != nil {
		x.fail("xlate: %v", err)
		return nil, nil, nil
	}
	info := &types.Info{Types: map[ast.Expr]types.TypeAndValue{}, Defs: map[*ast.Ident]types.Object{}, Uses: map[*ast.Ident]types.Object{}, Selections: map[*ast.SelectorExpr]*types.Selection{}}
	conf := types.Config{Importer: importer.ForCompiler(fset, "source", nil), Error: func(error) {}}
	conf.Check(f.Name.Name, fset, []*ast.File{f}, info)
	return fset, f, info
}

func xlateFind(f *ast.File, recv, name string) *ast.FuncDecl {
	for _, d := range f.Decls {
		fd, ok := d.(*ast.FuncDecl)
		if !ok || fd.Name.Name != name || fd.Body == nil {
			continue
		}
		r := ""
		if fd.Recv != nil && len(fd.Recv.List) == 1 {
			t := fd.Recv.List[0].Type
			if s, ok := t.(*ast.StarExpr); ok {
				t = s.X
			}
			if id, ok := t.(*ast.Ident); ok {
				r = id.Name
			}
		}
		if r == recv {
			return fd
		}
	}
	return nil
}

// Translate returns the Lean text (a namespace <leanName> with St, body, run) of one function.
func xlateFunc(x *X, fset *token.FileSet, info *types.Info, fd *ast.FuncDecl, leanName string, fuel []string, keep []string, rho string, rel string, file *ast.File) (res string) {
	outp := &res
	t := &xlFunc{x: x, fset: fset, info: info, fd: fd, name: leanName, byObj: map[types.Object]string{}, byRecv: map[string]string{},
		used: map[string]bool{}, fuel: fuel, keep: keep, stubRho: rho, assigns: map[types.Object][]ast.Expr{}, rngBusy: map[types.Object]bool{}, declKind: "p", declNo: map[string]int{},
		rel: rel, file: file, srcs: map[types.Object][]xlSrc{}, varRng: map[types.Object]ival{}, storeOK: map[types.Object]bool{}, globals: map[types.Object]string{},
		closures: map[types.Object]string{}, lambda: map[types.Object]string{}}
	var out string
	defer func() {
		if r := recover(); r != nil {
			// Outside the subset: not an error of the tie by itself (the function is still compared with the model by the
			// correspondence streams). A stub with the same interface keeps the driver compiling; `translated = false`
			// tells it to skip the comparison, and the equivalence proofs (a change detector) no longer build.
			x.xlateNotes = append(x.xlateNotes, fmt.Sprintf("%s: %v", leanName, r))
			*outp = t.stub()
		}
	}()
	_ = out
	// receiver
	if fd.Recv != nil && len(fd.Recv.List) == 1 && len(fd.Recv.List[0].Names) == 1 {
		t.recv = info.Defs[fd.Recv.List[0].Names[0]]
	}
	// parameters and named results
	for _, p := range fd.Type.Params.List {
		for _, n := range p.Names {
			t.declare(info.Defs[n])
		}
	}
	var rts, rzs []string
	if fd.Type.Results != nil {
		for _, r := range fd.Type.Results.List {
			lt, z := t.leanType(info.Types[r.Type].Type)
			t.declKind = "r"
			if len(r.Names) == 0 {
				rts, rzs = append(rts, lt), append(rzs, z)
			}
			for _, n := range r.Names {
				t.declare(info.Defs[n])
				t.results = append(t.results, info.Defs[n])
				rts, rzs = append(rts, lt), append(rzs, z)
			}
		}
	}
	switch len(rts) {
	case 0:
		t.rho, t.rhoZ = "Unit", "()"
	case 1:
		t.rho, t.rhoZ = rts[0], rzs[0]
	default:
		t.rho, t.rhoZ = "("+strings.Join(rts, " × ")+")", "("+strings.Join(rzs, ", ")+")"
	}
	t.declKind = "l"
	t.buildParents(fd.Body)
	t.collectAssigns(fd.Body)
	t.solveRanges()
	body := t.block(fd.Body.List, 1)
	if t.fuelNo != len(t.fuel) {
		x.fail("xlate %s: %d `for` loops but %d fuel expressions", leanName, t.fuelNo, len(t.fuel))
	}
	var b strings.Builder
	fmt.Fprintf(&b, "namespace %s\n\n", leanName)
	fmt.Fprintf(&b, "/-- one field per parameter, result, local declaration and receiver field of `%s` -/\nstructure St where\n", t.goName())
	for _, f := range t.fields {
		fmt.Fprintf(&b, "  /-- `%s` -/\n  %s : %s := %s\n", f.goName, f.name, f.typ, f.zero)
	}
	if len(t.fields) == 0 {
		fmt.Fprintf(&b, "  unit : Unit := ()\n")
	}
	fmt.Fprintf(&b, "\nabbrev Rho := %s\n\n", t.rho)
	for _, g := range t.gdefs {
		fmt.Fprintf(&b, "%s\n\n", g)
	}
	for _, h := range t.hoisted {
		fmt.Fprintf(&b, "%s\n\n", h)
	}
	fmt.Fprintf(&b, "def body : Stmt Rho St :=\n%s\n\n", body)
	bare := t.rhoZ
	if len(t.results) > 0 {
		var parts []string
		for _, r := range t.results {
			parts = append(parts, "s."+t.byObj[r])
		}
		bare = strings.Join(parts, ", ")
		if len(parts) > 1 {
			bare = "(" + bare + ")"
		}
	}
	fmt.Fprintf(&b, "def run (s : St) : V (Rho × St) := Fabio.Xlate.run body (fun s => %s) s\n\n", bare)
	fmt.Fprintf(&b, "/-- the function is inside the translated subset -/\ndef translated : Bool := true\n\n")
	fmt.Fprintf(&b, "end %s", leanName)
	return b.String()
}

// stub: same interface (St with the fields the driver uses, Rho, run), nothing translated.
func (t *xlFunc) stub() string {
	var b strings.Builder
	fmt.Fprintf(&b, "namespace %s\n\n/-- NOT TRANSLATED (outside the subset, see xlateNotes): interface stub -/\nstructure St where\n", t.name)
	for _, k := range t.keep {
		p := strings.SplitN(k, ":", 3)
		fmt.Fprintf(&b, "  %s : %s := %s\n", p[0], p[1], p[2])
	}
	rho := t.stubRho
	if rho == "" {
		rho = t.rho
	}
	if rho == "" {
		rho = "Unit"
	}
	fmt.Fprintf(&b, "\nabbrev Rho := %s\n\ndef run (_ : St) : V (Rho × St) := .panic \"not translated\"\n\ndef translated : Bool := false\n\nend %s", rho, t.name)
	return b.String()
}

func (t *xlFunc) goName() string {
	if t.fd.Recv != nil {
		return "(" + t.x.src(t.fd.Recv.List[0].Type) + ")." + t.fd.Name.Name
	}
	return t.fd.Name.Name
}

func (t *xlFunc) bad(n ast.Node, format string, a ...interface{}) {
	panic(fmt.Sprintf("%s: %s", t.fset.Position(n.Pos()), fmt.Sprintf(format, a...)))
}

func (t *xlFunc) leanType(ty types.Type) (string, string) {
	if ty == nil {
		panic("untyped expression (unresolved reference?)")
	}
	switch u := ty.Underlying().(type) {
	case *types.Basic:
		switch u.Kind() {
		case types.Int, types.UntypedInt, types.Int64, types.Int32, types.Int16, types.Int8, types.UntypedRune:
			return "Int", "0"
		case types.Uint8:
			return "UInt8", "0"
		case types.Uint16:
			return "UInt16", "0"
		case types.Uint32:
			return "UInt32", "0"
		case types.Uint64:
			return "UInt64", "0"
		case types.Bool, types.UntypedBool:
			return "Bool", "false"
		case types.String, types.UntypedString:
			return "Bytes", "[]"
		}
	case *types.Slice:
		e, _ := t.leanType(u.Elem())
		if e == "UInt8" {
			return "Bytes", "[]"
		}
		return "(List " + e + ")", "[]"
	case *types.Array:
		e, z := t.leanType(u.Elem())
		if e == "UInt8" {
			return "Bytes", fmt.Sprintf("(List.replicate %d (0 : UInt8))", u.Len())
		}
		return "(List " + e + ")", fmt.Sprintf("(List.replicate %d %s)", u.Len(), z)
	case *types.Pointer:
		if isBytesBuffer(ty) {
			return "Bytes", "[]" // what has been written to the buffer (an output list)
		}
	case *types.Interface:
		if ty.String() == "error" {
			return "(Option String)", "none"
		}
	}
	panic(fmt.Sprintf("type %s is outside the translated subset", ty))
}

func (t *xlFunc) fresh(base string) string {
	n := base
	for i := 2; t.used[n]; i++ {
		n = fmt.Sprintf("%s_%d", base, i)
	}
	t.used[n] = true
	return n
}

func (t *xlFunc) declare(obj types.Object) string {
	if obj == nil {
		panic("declaration without object")
	}
	if n, ok := t.byObj[obj]; ok {
		return n
	}
	// Fields are named by ROLE, not by the source's spelling, so that renaming a parameter, result or local leaves
	// the generated module (and the proofs about it) unchanged: p<i> parameters, r<i> named results, l<i> locals in
	// order of declaration. The Go name is kept as documentation.
	lt, z := t.leanType(obj.Type())
	n := t.fresh(fmt.Sprintf("%s%d", t.declKind, t.declNo[t.declKind]))
	t.declNo[t.declKind]++
	t.byObj[obj] = n
	t.fields = append(t.fields, xlField{n, lt, z, obj.Name()})
	return n
}

func leanIdent(s string) string {
	switch s {
	case "end", "from", "at", "do", "then", "else", "if", "fun", "let", "have", "show", "by", "in", "with", "match", "def", "theorem", "open", "namespace", "section", "structure", "where", "instance", "class", "type", "Type", "prefix", "infix", "macro", "syntax", "local", "set_option", "import", "deriving", "extends", "mutual", "partial", "unsafe", "private", "protected", "universe", "variable", "axiom", "example", "abbrev", "inductive", "s", "v":
		return s + "_"
	}
	return s
}

func (t *xlFunc) recvField(sel *ast.SelectorExpr) (string, bool) {
	id, ok := sel.X.(*ast.Ident)
	if !ok || t.recv == nil || t.info.Uses[id] != t.recv {
		return "", false
	}
	if n, ok := t.byRecv[sel.Sel.Name]; ok {
		return n, true
	}
	s := t.info.Selections[sel]
	if s == nil {
		t.bad(sel, "unresolved receiver field %s", sel.Sel.Name)
	}
	lt, z := t.leanType(s.Type())
	n := t.fresh(leanIdent("m_" + sel.Sel.Name))
	t.byRecv[sel.Sel.Name] = n
	t.fields = append(t.fields, xlField{n, lt, z, id.Name + "." + sel.Sel.Name})
	return n, true
}

// ---------------------------------------------------------------------------------------------------------
// expressions

type xlExpr struct {
	pre  []string // `let tK ← …` lines
	term string
}

func (t *xlFunc) tmp() string { t.tmpNo++; return fmt.Sprintf("t%d", t.tmpNo) }

func (e xlExpr) fn() string {
	if len(e.pre) == 0 {
		return "(fun s => .ok " + paren(e.term) + ")"
	}
	return "(fun s => do " + strings.Join(e.pre, "; ") + "; pure " + paren(e.term) + ")"
}

func (e xlExpr) inline() string { // a V-valued term (state `s` in scope)
	if len(e.pre) == 0 {
		return "pure " + paren(e.term)
	}
	return "do " + strings.Join(e.pre, "; ") + "; pure " + paren(e.term)
}

func paren(s string) string {
	if strings.ContainsAny(s, " ") && !(strings.HasPrefix(s, "(") && balanced(s)) {
		return "(" + s + ")"
	}
	return s
}

func balanced(s string) bool { // s starts with "(" : does that paren close at the very end?
	d := 0
	for i, c := range s {
		if c == '(' {
			d++
		} else if c == ')' {
			d--
			if d == 0 && i != len(s)-1 {
				return false
			}
		}
	}
	return d == 0
}

func (t *xlFunc) kind(e ast.Expr) string {
	if id, ok := e.(*ast.Ident); ok {
		if obj := t.info.Defs[id]; obj != nil {
			lt, _ := t.leanType(obj.Type())
			return lt
		}
	}
	tv, ok := t.info.Types[e]
	if !ok || tv.Type == nil {
		t.bad(e, "no type for %s", t.x.src(e))
	}
	lt, _ := t.leanType(tv.Type)
	return lt
}

func (t *xlFunc) constOf(e ast.Expr) (string, bool) {
	tv, ok := t.info.Types[e]
	if !ok || tv.Value == nil {
		return "", false
	}
	lt, _ := t.leanType(tv.Type)
	switch tv.Value.Kind() {
	case constant.Int:
		v := tv.Value.ExactString()
		if strings.HasPrefix(v, "-") {
			return "(" + v + " : " + lt + ")", true
		}
		return "(" + v + " : " + lt + ")", true
	case constant.Bool:
		return fmt.Sprint(constant.BoolVal(tv.Value)), true
	case constant.String:
		return bytesLit(constant.StringVal(tv.Value)), true
	}
	return "", false
}

func bytesLit(s string) string {
	if s == "" {
		return "([] : Bytes)"
	}
	var p []string
	for _, c := range []byte(s) {
		p = append(p, fmt.Sprint(c))
	}
	return "([" + strings.Join(p, ", ") + "] : Bytes)"
}

func (t *xlFunc) expr(e ast.Expr) xlExpr {
	if c, ok := t.constOf(e); ok {
		return xlExpr{nil, c}
	}
	switch n := e.(type) {
	case *ast.ParenExpr:
		return t.expr(n.X)
	case *ast.Ident:
		if n.Name == "nil" {
			tv := t.info.Types[n]
			_ = tv
			return xlExpr{nil, "NIL"} // replaced by the zero value of the target where it is used
		}
		obj := t.info.Uses[n]
		if obj == nil {
			obj = t.info.Defs[n]
		}
		if v, ok := t.lambda[obj]; ok {
			return xlExpr{nil, v}
		}
		if len(t.lambda) > 0 {
			t.bad(n, "the closure uses %s, which is not one of its parameters", n.Name)
		}
		if f, ok := t.byObj[obj]; ok {
			return xlExpr{nil, "s." + f}
		}
		if g, ok := t.global(n, obj); ok {
			return xlExpr{nil, g}
		}
		t.bad(n, "identifier %s is not a local of the function", n.Name)
	case *ast.SelectorExpr:
		if f, ok := t.recvField(n); ok {
			return xlExpr{nil, "s." + f}
		}
		t.bad(n, "selector %s outside the subset", t.x.src(n))
	case *ast.IndexExpr:
		if t.kind(n.X) != "Bytes" && t.kind(n.X) != "(List Int)" {
			t.bad(n, "index into %s", t.kind(n.X))
		}
		a, i := t.expr(n.X), t.expr(n.Index)
		t.intRange(n.Index)
		v := t.tmp()
		pre := append(append([]string{}, a.pre...), i.pre...)
		f := "idx"
		if t.kind(n.X) != "Bytes" {
			f = "lidx"
		}
		pre = append(pre, fmt.Sprintf("let %s ← %s %s %s", v, f, paren(a.term), paren(t.asInt(n.Index, i.term))))
		return xlExpr{pre, v}
	case *ast.SliceExpr:
		if n.Slice3 || (t.kind(n.X) != "Bytes" && t.kind(n.X) != "(List Int)") {
			t.bad(n, "slice expression outside the subset")
		}
		lp := ""
		if t.kind(n.X) != "Bytes" {
			lp = "l" // the list versions (lslice, lsliceFrom, lsliceTo) of the runtime
		}
		a := t.expr(n.X)
		pre := append([]string{}, a.pre...)
		var lo, hi string
		if n.Low != nil {
			l := t.expr(n.Low)
			t.intRange(n.Low)
			pre = append(pre, l.pre...)
			lo = paren(t.asInt(n.Low, l.term))
		}
		if n.High != nil {
			h := t.expr(n.High)
			t.intRange(n.High)
			pre = append(pre, h.pre...)
			hi = paren(t.asInt(n.High, h.term))
		}
		v := t.tmp()
		switch {
		case lo == "" && hi == "":
			return a
		case hi == "":
			pre = append(pre, fmt.Sprintf("let %s ← %ssliceFrom %s %s", v, lp, paren(a.term), lo))
		case lo == "":
			pre = append(pre, fmt.Sprintf("let %s ← %ssliceTo %s %s", v, lp, paren(a.term), hi))
		default:
			pre = append(pre, fmt.Sprintf("let %s ← %sslice %s %s %s", v, lp, paren(a.term), lo, hi))
		}
		return xlExpr{pre, v}
	case *ast.UnaryExpr:
		a := t.expr(n.X)
		switch n.Op {
		case token.NOT:
			return xlExpr{a.pre, "!" + paren(a.term)}
		case token.SUB:
			if t.kind(n) == "Int" {
				return xlExpr{a.pre, t.wrap(n, "(-"+paren(a.term)+")")}
			}
		}
		t.bad(n, "unary %s outside the subset", n.Op)
	case *ast.BinaryExpr:
		return t.binary(n)
	case *ast.CallExpr:
		return t.call(n)
	case *ast.CompositeLit:
		return xlExpr{nil, t.compositeLit(n)}
	}
	t.bad(e, "expression %s (%T) outside the subset", t.x.src(e), e)
	return xlExpr{}
}

// asInt: an index/bound expression of an unsigned type is used as Int
func (t *xlFunc) asInt(e ast.Expr, term string) string {
	switch t.kind(e) {
	case "Int":
		return term
	case "UInt8", "UInt16", "UInt32", "UInt64":
		return "Int.ofNat " + paren(term) + ".toNat"
	}
	t.bad(e, "index of type %s", t.kind(e))
	return ""
}

func (t *xlFunc) binary(n *ast.BinaryExpr) xlExpr {
	if n.Op == token.EQL || n.Op == token.NEQ {
		for _, pr := range [][2]ast.Expr{{n.X, n.Y}, {n.Y, n.X}} {
			if x, ok := t.runesVsConst(pr[0], pr[1]); ok {
				op := " == "
				if n.Op == token.NEQ {
					op = " != "
				}
				return xlExpr{x.pre, paren(x.term) + op + t.runesOfConst(pr[1])}
			}
		}
	}
	l, r := t.expr(n.X), t.expr(n.Y)
	switch n.Op {
	case token.LAND, token.LOR:
		if len(r.pre) == 0 {
			op := "&&"
			if n.Op == token.LOR {
				op = "||"
			}
			return xlExpr{l.pre, paren(l.term) + " " + op + " " + paren(r.term)}
		}
		// the right operand may panic: evaluate it only when Go does
		v := t.tmp()
		short := "true"
		cond := paren(l.term)
		if n.Op == token.LAND {
			short = "false"
			cond = "!" + cond
		}
		pre := append(append([]string{}, l.pre...), fmt.Sprintf("let %s ← (if %s then pure %s else (%s : V Bool))", v, cond, short, r.inline()))
		return xlExpr{pre, v}
	}
	pre := append(append([]string{}, l.pre...), r.pre...)
	lk := t.kind(n.X)
	rk := t.kind(n.Y)
	resk := t.kind(n)
	a, b := paren(l.term), paren(r.term)
	fix := func(term, k string, other ast.Expr) string { // nil against a slice / error
		if term == "NIL" {
			_, z := t.leanType(t.info.Types[other].Type)
			return z
		}
		return term
	}
	a, b = fix(a, lk, n.Y), fix(b, rk, n.X)
	switch n.Op {
	case token.EQL:
		return xlExpr{pre, a + " == " + b}
	case token.NEQ:
		return xlExpr{pre, a + " != " + b}
	case token.LSS, token.LEQ, token.GTR, token.GEQ:
		if lk == "Int" || rk == "Int" {
			f := map[token.Token]string{token.LSS: "ltI", token.LEQ: "leI", token.GTR: "gtI", token.GEQ: "geI"}[n.Op]
			return xlExpr{pre, f + " " + a + " " + b}
		}
		op := map[token.Token]string{token.LSS: "<", token.LEQ: "≤", token.GTR: ">", token.GEQ: "≥"}[n.Op]
		return xlExpr{pre, "decide (" + a + " " + op + " " + b + ")"}
	}
	if resk == "Int" {
		t.rawRng(n) // refuses what the subset excludes (possibly zero divisor, bit operation on a negative value)
		switch n.Op {
		case token.ADD:
			return xlExpr{pre, t.wrap(n, a+" + "+b)}
		case token.SUB:
			return xlExpr{pre, t.wrap(n, a+" - "+b)}
		case token.MUL:
			return xlExpr{pre, t.wrap(n, a+" * "+b)}
		case token.QUO:
			return xlExpr{pre, t.wrap(n, "Int.tdiv "+a+" "+b)}
		case token.REM:
			return xlExpr{pre, "Int.tmod " + a + " " + b}
		case token.OR:
			return xlExpr{pre, "orI " + a + " " + b}
		case token.AND:
			return xlExpr{pre, "andI " + a + " " + b}
		case token.SHL, token.SHR:
			k := t.shiftCount(n.Y, 63)
			if n.Op == token.SHL {
				return xlExpr{pre, fmt.Sprintf("shlI %s %d", a, k)}
			}
			return xlExpr{pre, fmt.Sprintf("shrI %s %d", a, k)}
		}
	}
	if strings.HasPrefix(resk, "UInt") {
		switch n.Op {
		case token.ADD:
			return xlExpr{pre, a + " + " + b}
		case token.SUB:
			return xlExpr{pre, a + " - " + b}
		case token.MUL:
			return xlExpr{pre, a + " * " + b}
		case token.OR:
			return xlExpr{pre, a + " ||| " + b}
		case token.AND:
			return xlExpr{pre, a + " &&& " + b}
		case token.XOR:
			return xlExpr{pre, a + " ^^^ " + b}
		case token.SHL, token.SHR:
			bits := map[string]int{"UInt8": 8, "UInt16": 16, "UInt32": 32, "UInt64": 64}[resk]
			k := t.shiftCount(n.Y, bits-1)
			op := "<<<"
			if n.Op == token.SHR {
				op = ">>>"
			}
			return xlExpr{pre, fmt.Sprintf("%s %s (%d : %s)", a, op, k, resk)}
		}
	}
	t.bad(n, "operator %s on %s outside the subset", n.Op, resk)
	return xlExpr{}
}

func (t *xlFunc) shiftCount(e ast.Expr, max int) int {
	tv := t.info.Types[e]
	if tv.Value == nil || tv.Value.Kind() != constant.Int {
		t.bad(e, "shift count is not a literal")
	}
	k, ok := constant.Int64Val(tv.Value)
	if !ok || k < 0 || int(k) > max {
		t.bad(e, "shift count %v out of range", tv.Value)
	}
	return int(k)
}

func (t *xlFunc) call(n *ast.CallExpr) xlExpr {
	// conversions
	if tv, ok := t.info.Types[n.Fun]; ok && tv.IsType() && len(n.Args) == 1 {
		to, _ := t.leanType(tv.Type)
		from := t.kind(n.Args[0])
		a := t.expr(n.Args[0])
		switch {
		case to == "Int" && from == "Int":
			return xlExpr{a.pre, t.wrap(n, a.term)} // between signed types: narrowing wraps
		case to == from:
			return a
		case to == "Int" && strings.HasPrefix(from, "UInt"):
			return xlExpr{a.pre, t.wrap(n, "Int.ofNat "+paren(a.term)+".toNat")}
		case strings.HasPrefix(to, "UInt") && from == "Int":
			// truncation to the low bits (two's complement), whatever the sign
			return xlExpr{a.pre, "toU" + strings.TrimPrefix(to, "UInt") + " " + paren(a.term)}
		case strings.HasPrefix(to, "UInt") && strings.HasPrefix(from, "UInt"):
			// widening keeps the value, narrowing truncates: both are .toUIntN in Lean
			return xlExpr{a.pre, paren(a.term) + ".to" + to}
		case to == "Bytes" && from == "Bytes":
			return a
		}
		t.bad(n, "conversion %s -> %s outside the subset", from, to)
	}
	if id, ok := n.Fun.(*ast.Ident); ok {
		switch id.Name {
		case "len":
			if t.kind(n.Args[0]) != "Bytes" && t.kind(n.Args[0]) != "(List Int)" {
				t.bad(n, "len of %s", t.kind(n.Args[0]))
			}
			a := t.expr(n.Args[0])
			if t.kind(n.Args[0]) != "Bytes" {
				return xlExpr{a.pre, "llen " + paren(a.term)}
			}
			return xlExpr{a.pre, "len " + paren(a.term)}
		}
		if fn, ok := t.closures[t.objOf(id)]; ok {
			pre := []string{}
			term := fn
			for _, a := range n.Args {
				e := t.expr(a)
				pre = append(pre, e.pre...)
				term += " " + paren(e.term)
			}
			return xlExpr{pre, term}
		}
	}
	if pk, name := t.pkgCall(n); pk == "strings" && (name == "LastIndexByte" || name == "IndexByte") && len(n.Args) == 2 {
		a, c := t.expr(n.Args[0]), t.expr(n.Args[1])
		if t.kind(n.Args[0]) != "Bytes" || t.kind(n.Args[1]) != "UInt8" {
			t.bad(n, "strings.%s on %s, %s", name, t.kind(n.Args[0]), t.kind(n.Args[1]))
		}
		f := "lastIndexByte"
		if name == "IndexByte" {
			f = "indexByte"
		}
		return xlExpr{append(append([]string{}, a.pre...), c.pre...), f + " " + paren(a.term) + " " + paren(c.term)}
	}
	if sel, ok := n.Fun.(*ast.SelectorExpr); ok {
		if pk, ok := sel.X.(*ast.Ident); ok && pk.Name == "errors" && sel.Sel.Name == "New" && len(n.Args) == 1 {
			if tv := t.info.Types[n.Args[0]]; tv.Value != nil && tv.Value.Kind() == constant.String {
				return xlExpr{nil, "some " + leanStr(constant.StringVal(tv.Value))}
			}
		}
	}
	t.bad(n, "call %s outside the subset", t.x.src(n))
	return xlExpr{}
}

// ---------------------------------------------------------------------------------------------------------
// interval analysis for signed integers

var (
	minI64 = new(big.Int).Neg(new(big.Int).Lsh(big.NewInt(1), 63))
	maxI64 = new(big.Int).Sub(new(big.Int).Lsh(big.NewInt(1), 63), big.NewInt(1))
)

func typeIval(bits int) ival {
	if bits <= 0 {
		bits = 64
	}
	return ival{new(big.Int).Neg(new(big.Int).Lsh(big.NewInt(1), uint(bits-1))), new(big.Int).Sub(new(big.Int).Lsh(big.NewInt(1), uint(bits-1)), big.NewInt(1))}
}

func constIval(a, b int64) ival { return ival{big.NewInt(a), big.NewInt(b)} }

func (a ival) bottom() bool { return a.lo == nil }

func (a ival) within(b ival) bool {
	return a.bottom() || (a.lo.Cmp(b.lo) >= 0 && a.hi.Cmp(b.hi) <= 0)
}

func (a ival) union(b ival) ival {
	if a.bottom() {
		return b
	}
	if b.bottom() {
		return a
	}
	r := ival{a.lo, a.hi}
	if b.lo.Cmp(r.lo) < 0 {
		r.lo = b.lo
	}
	if b.hi.Cmp(r.hi) > 0 {
		r.hi = b.hi
	}
	return r
}

func (a ival) eq(b ival) bool {
	if a.bottom() || b.bottom() {
		return a.bottom() == b.bottom()
	}
	return a.lo.Cmp(b.lo) == 0 && a.hi.Cmp(b.hi) == 0
}

func (t *xlFunc) buildParents(body ast.Node) {
	t.parents = map[ast.Node]ast.Node{}
	var stack []ast.Node
	ast.Inspect(body, func(n ast.Node) bool {
		if n == nil {
			stack = stack[:len(stack)-1]
			return true
		}
		if len(stack) > 0 {
			t.parents[n] = stack[len(stack)-1]
		}
		stack = append(stack, n)
		return true
	})
}

func (t *xlFunc) objOf(id *ast.Ident) types.Object {
	if obj := t.info.Defs[id]; obj != nil {
		return obj
	}
	return t.info.Uses[id]
}

func (t *xlFunc) collectAssigns(body ast.Node) {
	zero := constIval(0, 0)
	for _, r := range t.results {
		t.srcs[r] = append(t.srcs[r], xlSrc{c: &zero})
	}
	ast.Inspect(body, func(n ast.Node) bool {
		switch s := n.(type) {
		case *ast.AssignStmt:
			for i, l := range s.Lhs {
				id, ok := l.(*ast.Ident)
				if !ok {
					continue
				}
				obj := t.objOf(id)
				if obj == nil {
					continue
				}
				switch {
				case len(s.Lhs) != len(s.Rhs):
					full := typeIval(sbits(obj.Type()))
					t.srcs[obj] = append(t.srcs[obj], xlSrc{c: &full})
				case s.Tok == token.ASSIGN || s.Tok == token.DEFINE:
					t.srcs[obj] = append(t.srcs[obj], xlSrc{expr: s.Rhs[i]})
					t.assigns[obj] = append(t.assigns[obj], s.Rhs[i])
				default:
					t.srcs[obj] = append(t.srcs[obj], xlSrc{op: s.Tok, rhs: s.Rhs[i]})
					t.assigns[obj] = append(t.assigns[obj], nil)
				}
			}
		case *ast.IncDecStmt:
			if id, ok := s.X.(*ast.Ident); ok {
				if obj := t.objOf(id); obj != nil {
					op := token.ADD_ASSIGN
					if s.Tok == token.DEC {
						op = token.SUB_ASSIGN
					}
					t.srcs[obj] = append(t.srcs[obj], xlSrc{op: op})
					t.assigns[obj] = append(t.assigns[obj], nil)
				}
			}
		case *ast.DeclStmt:
			if gd, ok := s.Decl.(*ast.GenDecl); ok {
				for _, sp := range gd.Specs {
					if vs, ok := sp.(*ast.ValueSpec); ok {
						for i, id := range vs.Names {
							obj := t.info.Defs[id]
							if obj == nil {
								continue
							}
							if i < len(vs.Values) {
								t.srcs[obj] = append(t.srcs[obj], xlSrc{expr: vs.Values[i]})
								t.assigns[obj] = append(t.assigns[obj], vs.Values[i])
							} else {
								t.srcs[obj] = append(t.srcs[obj], xlSrc{c: &zero})
							}
						}
					}
				}
			}
		case *ast.RangeStmt:
			if id, ok := s.Key.(*ast.Ident); ok && id.Name != "_" {
				if obj := t.objOf(id); obj != nil {
					c := ival{big.NewInt(0), new(big.Int).Lsh(big.NewInt(1), 62)}
					if cl, ok := s.X.(*ast.CompositeLit); ok && len(cl.Elts) > 0 {
						c = constIval(0, int64(len(cl.Elts)-1))
					}
					t.srcs[obj] = append(t.srcs[obj], xlSrc{c: &c})
					t.assigns[obj] = append(t.assigns[obj], nil)
				}
			}
			if id, ok := s.Value.(*ast.Ident); ok && id.Name != "_" {
				if obj := t.objOf(id); obj != nil {
					c := typeIval(sbits(obj.Type()))
					if cl, ok := s.X.(*ast.CompositeLit); ok && len(cl.Elts) > 0 {
						var u ival
						for _, e := range cl.Elts {
							tv := t.info.Types[e]
							if tv.Value == nil || tv.Value.Kind() != constant.Int {
								u = ival{}
								break
							}
							v, _ := new(big.Int).SetString(tv.Value.ExactString(), 10)
							u = u.union(ival{v, v})
						}
						if !u.bottom() {
							c = u
						}
					}
					t.srcs[obj] = append(t.srcs[obj], xlSrc{c: &c})
					t.assigns[obj] = append(t.assigns[obj], nil)
				}
			}
		}
		return true
	})
}

func (t *xlFunc) isParam(obj types.Object) bool {
	for _, p := range t.fd.Type.Params.List {
		for _, pn := range p.Names {
			if t.info.Defs[pn] == obj {
				return true
			}
		}
	}
	return false
}

// solveRanges: least fixpoint of "the interval of a variable is the union of the intervals of everything assigned
// to it" (flow-insensitive; parameters start at the full range of their type). A variable whose interval keeps
// growing is widened to the full range of its type.
func (t *xlFunc) solveRanges() {
	t.solving = true
	defer func() { t.solving = false }()
	var objs []types.Object
	for obj := range t.srcs {
		if sbits(obj.Type()) > 0 && !t.isParam(obj) {
			objs = append(objs, obj)
		}
	}
	sort.Slice(objs, func(i, j int) bool { return objs[i].Pos() < objs[j].Pos() })
	round := func() bool {
		changed := false
		for _, obj := range objs {
			full := typeIval(sbits(obj.Type()))
			cur := t.varRng[obj]
			nw := cur
			for _, sc := range t.srcs[obj] {
				var v ival
				switch {
				case sc.c != nil:
					v = *sc.c
				case sc.expr != nil:
					v = t.rng(sc.expr)
				default:
					r := constIval(1, 1)
					if sc.rhs != nil {
						r = t.rng(sc.rhs)
					}
					ops := map[token.Token]token.Token{token.ADD_ASSIGN: token.ADD, token.SUB_ASSIGN: token.SUB, token.MUL_ASSIGN: token.MUL,
						token.QUO_ASSIGN: token.QUO, token.REM_ASSIGN: token.REM}
					if op, ok := ops[sc.op]; ok {
						v = t.arith(op, cur, r)
					} else if !cur.bottom() {
						v = full
					}
					if !v.within(full) {
						v = full
					}
				}
				if !v.within(full) {
					v = full
				}
				nw = nw.union(v)
			}
			if !nw.eq(cur) {
				t.varRng[obj] = nw
				changed = true
			}
		}
		return changed
	}
	for i := 0; i < 48; i++ {
		if !round() {
			return
		}
	}
	// widen what is still moving
	before := map[types.Object]ival{}
	for _, o := range objs {
		before[o] = t.varRng[o]
	}
	round()
	for _, o := range objs {
		if !before[o].eq(t.varRng[o]) {
			t.varRng[o] = typeIval(sbits(o.Type()))
		}
	}
	for i := 0; i < 200 && round(); i++ {
	}
}

// arith: interval of the mathematical result of `a op b` (bottom if an operand is bottom; the full int64 range
// when nothing better is known — callers clamp to the type).
func (t *xlFunc) arith(op token.Token, a, b ival) ival {
	if a.bottom() || b.bottom() {
		return ival{}
	}
	switch op {
	case token.ADD:
		return ival{new(big.Int).Add(a.lo, b.lo), new(big.Int).Add(a.hi, b.hi)}
	case token.SUB:
		return ival{new(big.Int).Sub(a.lo, b.hi), new(big.Int).Sub(a.hi, b.lo)}
	case token.MUL:
		var r ival
		for _, x := range []*big.Int{a.lo, a.hi} {
			for _, y := range []*big.Int{b.lo, b.hi} {
				p := new(big.Int).Mul(x, y)
				r = r.union(ival{p, p})
			}
		}
		return r
	case token.REM:
		// |a rem b| < |b| and the sign follows a
		m := new(big.Int).Abs(b.lo)
		if h := new(big.Int).Abs(b.hi); h.Cmp(m) > 0 {
			m = h
		}
		m = new(big.Int).Sub(m, big.NewInt(1))
		lo, hi := new(big.Int).Neg(m), m
		if a.lo.Sign() >= 0 {
			lo = big.NewInt(0)
		}
		if a.hi.Sign() <= 0 {
			hi = big.NewInt(0)
		}
		return ival{lo, hi}
	case token.QUO:
		// |a quo b| <= |a| (b != 0 is checked by the caller)
		m := new(big.Int).Abs(a.lo)
		if h := new(big.Int).Abs(a.hi); h.Cmp(m) > 0 {
			m = h
		}
		lo, hi := new(big.Int).Neg(m), m
		if b.lo.Sign() > 0 {
			// truncated division by a divisor >= b.lo > 0 shrinks towards zero
			lo, hi = new(big.Int).Quo(a.lo, b.lo), new(big.Int).Quo(a.hi, b.lo)
			if lo.Sign() > 0 {
				lo = big.NewInt(0)
			}
			if hi.Sign() < 0 {
				hi = big.NewInt(0)
			}
		}
		return ival{lo, hi}
	}
	return typeIval(64)
}

// rng: the interval of the Go value of e (always inside the range of e's type).
func (t *xlFunc) rng(e ast.Expr) ival {
	r := t.rawRng(e)
	if bits := sbits(t.typeOf(e)); bits > 0 && !r.within(typeIval(bits)) {
		return typeIval(bits)
	}
	return r
}

// needsWrap: may the mathematical value of the signed expression e lie outside its type?
func (t *xlFunc) needsWrap(e ast.Expr) bool {
	bits := sbits(t.typeOf(e))
	return bits > 0 && !t.rawRng(e).within(typeIval(bits))
}

// wrapBits: the width e is reduced to when it needs wrapping
func (t *xlFunc) wrap(e ast.Expr, term string) string {
	if t.needsWrap(e) {
		return fmt.Sprintf("wrapI %d %s", sbits(t.typeOf(e)), paren(term))
	}
	return term
}

// intRange: the interval of an index / bound / assigned expression (kept for its callers; overflow no longer
// refuses the function, it is translated as wrap-around where it can happen).
func (t *xlFunc) intRange(e ast.Expr) (*big.Int, *big.Int) {
	r := t.rng(e)
	if r.bottom() {
		r = typeIval(64)
	}
	return r.lo, r.hi
}

// rawRng: interval of the mathematical result of e, computed from the (clamped) intervals of its operands.
func (t *xlFunc) rawRng(e ast.Expr) ival {
	ty := t.typeOf(e)
	full := typeIval(sbits(ty))
	if tv, ok := t.info.Types[e]; ok && tv.Value != nil && tv.Value.Kind() == constant.Int {
		v, _ := new(big.Int).SetString(tv.Value.ExactString(), 10)
		return ival{v, new(big.Int).Set(v)}
	}
	if ub := ubits(ty); ub > 0 {
		return ival{big.NewInt(0), new(big.Int).Sub(new(big.Int).Lsh(big.NewInt(1), uint(ub)), big.NewInt(1))}
	}
	switch n := e.(type) {
	case *ast.ParenExpr:
		return t.rawRng(n.X)
	case *ast.Ident:
		obj := t.objOf(n)
		if obj == nil || t.isParam(obj) {
			return full
		}
		if r, ok := t.varRng[obj]; ok {
			return r
		}
		if t.solving {
			if _, ok := t.srcs[obj]; ok {
				return ival{} // bottom: nothing assigned yet in this round
			}
		}
		return full
	case *ast.CallExpr:
		if tv, ok := t.info.Types[n.Fun]; ok && tv.IsType() && len(n.Args) == 1 {
			return t.rng(n.Args[0]) // conversion: the operand's value (the caller wraps if it does not fit)
		}
		if id, ok := n.Fun.(*ast.Ident); ok && id.Name == "len" {
			return ival{big.NewInt(0), new(big.Int).Lsh(big.NewInt(1), 62)}
		}
		if pk, name := t.pkgCall(n); pk == "strings" && (name == "LastIndexByte" || name == "IndexByte") {
			return ival{big.NewInt(-1), new(big.Int).Lsh(big.NewInt(1), 62)}
		}
		return full
	case *ast.UnaryExpr:
		if n.Op == token.SUB {
			a := t.rng(n.X)
			if a.bottom() {
				return a
			}
			return ival{new(big.Int).Neg(a.hi), new(big.Int).Neg(a.lo)}
		}
		if n.Op == token.ADD {
			return t.rng(n.X)
		}
	case *ast.BinaryExpr:
		a := t.rng(n.X)
		switch n.Op {
		case token.SHL, token.SHR:
			if a.bottom() {
				return a
			}
			k := uint(t.shiftCount(n.Y, 63))
			if a.lo.Sign() < 0 {
				t.bad(n, "shift of a possibly negative int")
			}
			if n.Op == token.SHL {
				r := ival{new(big.Int).Lsh(a.lo, k), new(big.Int).Lsh(a.hi, k)}
				if !t.solving && !r.within(full) {
					t.bad(n, "int expression %s may overflow in a shift (%s..%s): outside the subset", t.x.src(n), r.lo, r.hi)
				}
				return r
			}
			return ival{new(big.Int).Rsh(a.lo, k), new(big.Int).Rsh(a.hi, k)}
		}
		b := t.rng(n.Y)
		if a.bottom() || b.bottom() {
			return ival{}
		}
		switch n.Op {
		case token.ADD, token.SUB, token.MUL:
			return t.arith(n.Op, a, b)
		case token.QUO, token.REM:
			if b.lo.Sign() <= 0 && b.hi.Sign() >= 0 {
				t.bad(n, "division by a possibly zero value %s: outside the subset", t.x.src(n.Y))
			}
			return t.arith(n.Op, a, b)
		case token.OR, token.AND:
			if a.lo.Sign() < 0 || b.lo.Sign() < 0 {
				t.bad(n, "bit operation on a possibly negative int")
			}
			if n.Op == token.AND {
				if a.hi.Cmp(b.hi) < 0 {
					return ival{big.NewInt(0), a.hi}
				}
				return ival{big.NewInt(0), b.hi}
			}
			m := a.hi
			if b.hi.Cmp(m) > 0 {
				m = b.hi
			}
			return ival{big.NewInt(0), new(big.Int).Sub(new(big.Int).Lsh(big.NewInt(1), uint(m.BitLen())), big.NewInt(1))}
		}
	}
	return full
}

// pkgCall: ("strings", "LastIndexByte") for a call of a function of an imported package
func (t *xlFunc) pkgCall(n *ast.CallExpr) (string, string) {
	sel, ok := n.Fun.(*ast.SelectorExpr)
	if !ok {
		return "", ""
	}
	id, ok := sel.X.(*ast.Ident)
	if !ok {
		return "", ""
	}
	if pn, ok := t.info.Uses[id].(*types.PkgName); ok {
		return pn.Imported().Path(), sel.Sel.Name
	}
	return "", ""
}

// ---------------------------------------------------------------------------------------------------------
// statements

func ind(n int) string { return strings.Repeat("  ", n) }

func (t *xlFunc) block(list []ast.Stmt, d int) string {
	if len(list) == 0 {
		return ind(d) + "skip"
	}
	var parts []string
	for _, s := range list {
		if p := t.stmt(s, d); p != "" {
			parts = append(parts, p)
		}
	}
	if len(parts) == 0 {
		return ind(d) + "skip"
	}
	// right-nested seq, one statement per line
	out := parts[len(parts)-1]
	for i := len(parts) - 2; i >= 0; i-- {
		out = ind(d) + "seq (\n" + parts[i] + ") (\n" + out + ")"
	}
	return out
}

func (t *xlFunc) stmt(s ast.Stmt, d int) string {
	switch n := s.(type) {
	case *ast.BlockStmt:
		return t.block(n.List, d)
	case *ast.EmptyStmt:
		return ""
	case *ast.DeclStmt:
		gd, ok := n.Decl.(*ast.GenDecl)
		if !ok || gd.Tok != token.VAR {
			t.bad(n, "declaration outside the subset")
		}
		var parts []string
		for _, sp := range gd.Specs {
			vs := sp.(*ast.ValueSpec)
			for i, id := range vs.Names {
				f := t.declare(t.info.Defs[id])
				var e xlExpr
				if i < len(vs.Values) {
					e = t.expr(vs.Values[i])
				} else {
					_, z := t.leanType(t.info.Defs[id].Type())
					e = xlExpr{nil, z}
				}
				parts = append(parts, fmt.Sprintf("%sassign %s (fun s v => { s with %s := v })", ind(d), e.fn(), f))
			}
		}
		return t.join(parts, d)
	case *ast.AssignStmt:
		return t.assign(n, d)
	case *ast.IncDecStmt:
		one := &ast.BasicLit{Kind: token.INT, Value: "1"}
		op := token.ADD_ASSIGN
		if n.Tok == token.DEC {
			op = token.SUB_ASSIGN
		}
		_ = one
		return t.opAssign(n.X, op, nil, d, n)
	case *ast.IfStmt:
		var pre string
		if n.Init != nil {
			pre = t.stmt(n.Init, d)
		}
		c := t.expr(n.Cond)
		a := t.block(n.Body.List, d+1)
		b := ind(d+1) + "skip"
		if n.Else != nil {
			b = t.stmt(n.Else, d+1)
			if b == "" {
				b = ind(d+1) + "skip"
			}
		}
		out := fmt.Sprintf("%sifS %s (\n%s) (\n%s)", ind(d), c.fn(), a, b)
		if pre != "" {
			out = ind(d) + "seq (\n" + pre + ") (\n" + out + ")"
		}
		return out
	case *ast.ForStmt:
		if n.Post != nil && xlHasContinue(n.Body) {
			t.bad(n, "for with post statement and continue")
		}
		var pre string
		if n.Init != nil {
			pre = t.stmt(n.Init, d)
		}
		c := xlExpr{nil, "true"}
		if n.Cond != nil {
			c = t.expr(n.Cond)
		}
		k := t.loopNo
		t.loopNo++
		fuel := "0"
		if t.fuelNo < len(t.fuel) {
			fuel = t.fuel[t.fuelNo]
		}
		t.fuelNo++
		if fuel == "auto" {
			// a loop `for len(x) <op> … {}`: one more round than x has elements (that this suffices is proved, not
			// assumed: running out of fuel is a panic value and the no-panic theorem covers it)
			fuel = ""
			if n.Cond != nil {
				ast.Inspect(n.Cond, func(m ast.Node) bool {
					if call, ok := m.(*ast.CallExpr); ok && fuel == "" {
						if id, ok := call.Fun.(*ast.Ident); ok && id.Name == "len" && len(call.Args) == 1 {
							if e := t.expr(call.Args[0]); len(e.pre) == 0 {
								fuel = paren(e.term) + ".length + 1"
							}
						}
					}
					return true
				})
			}
			if fuel == "" {
				t.bad(n, "no automatic fuel for this loop (its condition tests no len(x))")
			}
		}
		list := n.Body.List
		if n.Post != nil {
			list = append(append([]ast.Stmt{}, list...), n.Post)
		}
		body := t.block(list, 1)
		// condition and body become definitions of their own, so that the proofs can talk about one loop at a time
		t.hoisted = append(t.hoisted, fmt.Sprintf("/-- loop %d of `%s` (source order), condition -/\ndef loop%dCond : St → V Bool := %s\n\n/-- loop %d, body -/\ndef loop%dBody : Stmt Rho St :=\n%s",
			k, t.goName(), k, c.fn(), k, k, body))
		out := fmt.Sprintf("%sloop (fun s => %s) loop%dCond loop%dBody", ind(d), fuel, k, k)
		if pre != "" {
			out = ind(d) + "seq (\n" + pre + ") (\n" + out + ")"
		}
		return out
	case *ast.RangeStmt:
		return t.rangeStmt(n, d)
	case *ast.ExprStmt:
		return t.exprStmt(n, d)
	case *ast.SwitchStmt:
		var pre string
		if n.Init != nil {
			pre = t.stmt(n.Init, d)
		}
		tagless := n.Tag == nil
		tag := xlExpr{}
		if !tagless {
			tag = t.expr(n.Tag)
		}
		// if-chain on equality, default last
		var def *ast.CaseClause
		type arm struct {
			cond xlExpr
			body string
		}
		var arms []arm
		for _, cs := range n.Body.List {
			cc := cs.(*ast.CaseClause)
			for _, st := range cc.Body {
				if b, ok := st.(*ast.BranchStmt); ok && b.Tok == token.FALLTHROUGH {
					t.bad(b, "fallthrough")
				}
			}
			if cc.List == nil {
				def = cc
				continue
			}
			var conds []string
			pre2 := append([]string{}, tag.pre...)
			for _, v := range cc.List {
				ve := t.expr(v)
				if len(ve.pre) > 0 {
					t.bad(v, "case expression with effects")
				}
				if tagless { // `switch { case cond: … }`: the first true condition
					conds = append(conds, paren(ve.term))
				} else {
					conds = append(conds, paren(tag.term)+" == "+paren(ve.term))
				}
			}
			arms = append(arms, arm{xlExpr{pre2, strings.Join(conds, " || ")}, t.block(cc.Body, d+len(arms)+2)})
		}
		out := ind(d+len(arms)+1) + "skip"
		if def != nil {
			out = t.block(def.Body, d+len(arms)+1)
		}
		for i := len(arms) - 1; i >= 0; i-- {
			out = fmt.Sprintf("%sifS %s (\n%s) (\n%s)", ind(d+i+1), arms[i].cond.fn(), arms[i].body, out)
		}
		if xlHasBreakOutsideLoop(n.Body) {
			out = ind(d) + "catchBrk (\n" + out + ")"
		}
		if pre != "" {
			out = ind(d) + "seq (\n" + pre + ") (\n" + out + ")"
		}
		return out
	case *ast.ReturnStmt:
		if len(n.Results) == 0 {
			var parts []string
			for _, r := range t.results {
				parts = append(parts, "s."+t.byObj[r])
			}
			term := "()"
			if len(parts) == 1 {
				term = parts[0]
			} else if len(parts) > 1 {
				term = "(" + strings.Join(parts, ", ") + ")"
			}
			return fmt.Sprintf("%sret (fun s => .ok %s)", ind(d), term)
		}
		var pre, terms []string
		var rtypes []types.Type
		if t.fd.Type.Results != nil {
			for _, r := range t.fd.Type.Results.List {
				k := len(r.Names)
				if k == 0 {
					k = 1
				}
				for i := 0; i < k; i++ {
					rtypes = append(rtypes, t.info.Types[r.Type].Type)
				}
			}
		}
		for i, r := range n.Results {
			e := t.expr(r)
			pre = append(pre, e.pre...)
			term := e.term
			if term == "NIL" && i < len(rtypes) {
				_, term = t.leanType(rtypes[i])
			}
			terms = append(terms, term)
		}
		term := terms[0]
		if len(terms) > 1 {
			term = "(" + strings.Join(terms, ", ") + ")"
		}
		return ind(d) + "ret " + xlExpr{pre, term}.fn()
	case *ast.BranchStmt:
		if n.Label != nil {
			t.bad(n, "labelled branch")
		}
		switch n.Tok {
		case token.BREAK:
			return ind(d) + "brk"
		case token.CONTINUE:
			return ind(d) + "cont"
		}
	}
	t.bad(s, "statement %T outside the subset", s)
	return ""
}

func (t *xlFunc) join(parts []string, d int) string {
	if len(parts) == 0 {
		return ""
	}
	out := parts[len(parts)-1]
	for i := len(parts) - 2; i >= 0; i-- {
		out = ind(d) + "seq (\n" + parts[i] + ") (\n" + out + ")"
	}
	return out
}

func (t *xlFunc) lhsField(l ast.Expr, define bool) string {
	switch n := l.(type) {
	case *ast.Ident:
		if n.Name == "_" {
			return ""
		}
		if obj := t.info.Defs[n]; obj != nil && define {
			return t.declare(obj)
		}
		if f, ok := t.byObj[t.info.Uses[n]]; ok {
			return f
		}
		t.bad(n, "assignment to %s which is not a local", n.Name)
	case *ast.SelectorExpr:
		if f, ok := t.recvField(n); ok {
			return f
		}
	}
	t.bad(l, "assignment target %s outside the subset", t.x.src(l))
	return ""
}

func (t *xlFunc) assign(n *ast.AssignStmt, d int) string {
	if n.Tok != token.ASSIGN && n.Tok != token.DEFINE {
		if len(n.Lhs) != 1 {
			t.bad(n, "op-assignment with several targets")
		}
		return t.opAssign(n.Lhs[0], n.Tok, n.Rhs[0], d, n)
	}
	if len(n.Lhs) != len(n.Rhs) {
		t.bad(n, "assignment from a multi-value expression")
	}
	// Go: the index operands on the left and every right-hand side are evaluated first, then the stores happen left
	// to right. Expressions of the subset have no effects but panics, and a panic is a panic wherever it happens,
	// so: right-hand sides, then index operands, then the (checked) stores.
	var pre, terms, fields []string
	type store struct {
		field string
		idx   ast.Expr
		val   string
	}
	var stores []store
	seen := map[string]bool{}
	if len(n.Rhs) == 1 {
		if fl, ok := n.Rhs[0].(*ast.FuncLit); ok {
			return t.closure(n, fl, d)
		}
	}
	for i, r := range n.Rhs {
		e := t.expr(r)
		pre = append(pre, e.pre...)
		term := e.term
		if ix, ok := n.Lhs[i].(*ast.IndexExpr); ok {
			id, ok := ix.X.(*ast.Ident)
			if !ok || t.kind(ix.X) != "Bytes" {
				t.bad(ix, "index store into %s outside the subset", t.x.src(ix.X))
			}
			t.storable(id)
			f := t.lhsField(id, false)
			if seen[f] {
				t.bad(n, "two targets of one assignment are the same variable")
			}
			seen[f] = true
			if t.kind(r) != "UInt8" {
				t.bad(r, "stored value of type %s", t.kind(r))
			}
			stores = append(stores, store{f, ix.Index, term})
			continue
		}
		f := t.lhsField(n.Lhs[i], n.Tok == token.DEFINE)
		if term == "NIL" {
			for _, fl := range t.fields {
				if fl.name == f {
					term = fl.zero
				}
			}
		}
		if f == "" {
			continue
		}
		if seen[f] {
			t.bad(n, "two targets of one assignment are the same variable")
		}
		seen[f] = true
		terms, fields = append(terms, term), append(fields, f)
	}
	for _, st := range stores {
		ie := t.expr(st.idx)
		pre = append(pre, ie.pre...)
		v := t.tmp()
		pre = append(pre, fmt.Sprintf("let %s ← upd s.%s %s %s", v, st.field, paren(t.asInt(st.idx, ie.term)), paren(st.val)))
		terms, fields = append(terms, v), append(fields, st.field)
	}
	if len(fields) == 0 {
		return fmt.Sprintf("%sassign %s (fun s _ => s)", ind(d), xlExpr{pre, "()"}.fn())
	}
	if len(fields) == 1 {
		return fmt.Sprintf("%sassign %s (fun s v => { s with %s := v })", ind(d), xlExpr{pre, terms[0]}.fn(), fields[0])
	}
	upd := make([]string, len(fields))
	// nested pairs: (a, b, c).1 = a, .2.1 = b, .2.2 = c
	for i := range fields {
		proj := ""
		for j := 0; j < i; j++ {
			proj += ".2"
		}
		if i < len(fields)-1 {
			proj += ".1"
		}
		upd[i] = fmt.Sprintf("%s := v%s", fields[i], proj)
	}
	return fmt.Sprintf("%sassign %s (fun s v => { s with %s })", ind(d), xlExpr{pre, "(" + strings.Join(terms, ", ") + ")"}.fn(), strings.Join(upd, ", "))
}

// exprStmt: `b.Write(x)`, `b.WriteString(x)`, `b.WriteByte(c)` on a *bytes.Buffer (results ignored): the buffer is
// the list of bytes written to it.
func (t *xlFunc) exprStmt(n *ast.ExprStmt, d int) string {
	call, ok := n.X.(*ast.CallExpr)
	if !ok {
		t.bad(n, "expression statement outside the subset")
	}
	sel, ok := call.Fun.(*ast.SelectorExpr)
	if !ok || !isBytesBuffer(t.typeOf(sel.X)) || len(call.Args) != 1 {
		t.bad(n, "call statement %s outside the subset", t.x.src(call))
	}
	id, ok := sel.X.(*ast.Ident)
	if !ok {
		t.bad(n, "buffer %s is not a variable", t.x.src(sel.X))
	}
	f := t.lhsField(id, false)
	a := t.expr(call.Args[0])
	var term string
	switch sel.Sel.Name {
	case "Write", "WriteString":
		if t.kind(call.Args[0]) != "Bytes" {
			t.bad(n, "%s of %s", sel.Sel.Name, t.kind(call.Args[0]))
		}
		term = "s." + f + " ++ " + paren(a.term)
	case "WriteByte":
		if t.kind(call.Args[0]) != "UInt8" {
			t.bad(n, "WriteByte of %s", t.kind(call.Args[0]))
		}
		term = "s." + f + " ++ [" + a.term + "]"
	default:
		t.bad(n, "buffer method %s outside the subset", sel.Sel.Name)
	}
	return fmt.Sprintf("%sassign %s (fun s v => { s with %s := v })", ind(d), xlExpr{a.pre, term}.fn(), f)
}

// rangeStmt: `for k, v := range xs { … }` over a literal of constants, a local slice/array or a package-level
// table: structural recursion over the list (Go evaluates the range expression once). The body must not write the
// variable ranged over.
func (t *xlFunc) rangeStmt(n *ast.RangeStmt, d int) string {
	if n.Tok != token.DEFINE && (n.Key != nil || n.Value != nil) {
		t.bad(n, "range assigning to existing variables")
	}
	xt := t.typeOf(n.X)
	if xt == nil {
		t.bad(n, "range over an untyped expression")
	}
	var elem types.Type
	switch u := xt.Underlying().(type) {
	case *types.Slice:
		elem = u.Elem()
	case *types.Array:
		elem = u.Elem()
	default:
		t.bad(n, "range over %s outside the subset", xt)
	}
	et, _ := t.leanType(elem)
	xs := t.expr(n.X)
	if len(xs.pre) > 0 {
		t.bad(n.X, "range expression with effects")
	}
	if id, ok := n.X.(*ast.Ident); ok {
		obj := t.objOf(id)
		ast.Inspect(n.Body, func(m ast.Node) bool {
			switch st := m.(type) {
			case *ast.AssignStmt:
				for _, l := range st.Lhs {
					if r := rootIdent(l); r != nil && t.objOf(r) == obj {
						t.bad(st, "the body of the range loop writes %s", id.Name)
					}
				}
			case *ast.IncDecStmt:
				if r := rootIdent(st.X); r != nil && t.objOf(r) == obj {
					t.bad(st, "the body of the range loop writes %s", id.Name)
				}
			}
			return true
		})
	}
	var upd []string
	if id, ok := n.Key.(*ast.Ident); ok && id.Name != "_" {
		upd = append(upd, fmt.Sprintf("%s := Int.ofNat k", t.declare(t.info.Defs[id])))
	}
	if id, ok := n.Value.(*ast.Ident); ok && id.Name != "_" {
		upd = append(upd, fmt.Sprintf("%s := x", t.declare(t.info.Defs[id])))
	}
	bind := "(fun _ _ s => s)"
	if len(upd) > 0 {
		bind = fmt.Sprintf("(fun k x s => { s with %s })", strings.Join(upd, ", "))
		if len(upd) == 1 && strings.HasSuffix(upd[0], "Int.ofNat k") {
			bind = fmt.Sprintf("(fun k _ s => { s with %s })", upd[0])
		} else if len(upd) == 1 {
			bind = fmt.Sprintf("(fun _ x s => { s with %s })", upd[0])
		}
	}
	k := t.loopNo
	t.loopNo++
	body := t.block(n.Body.List, 1)
	t.hoisted = append(t.hoisted, fmt.Sprintf("/-- loop %d of `%s` (source order): a `range` loop, the list ranged over -/\ndef loop%dList : St → List %s := fun s => %s\n\n/-- loop %d, body -/\ndef loop%dBody : Stmt Rho St :=\n%s",
		k, t.goName(), k, et, xs.term, k, k, body))
	return fmt.Sprintf("%sforEach loop%dList %s loop%dBody", ind(d), k, bind, k)
}

func (t *xlFunc) opAssign(lhs ast.Expr, tok token.Token, rhs ast.Expr, d int, at ast.Node) string {
	ops := map[token.Token]token.Token{token.ADD_ASSIGN: token.ADD, token.SUB_ASSIGN: token.SUB, token.MUL_ASSIGN: token.MUL, token.QUO_ASSIGN: token.QUO,
		token.REM_ASSIGN: token.REM, token.OR_ASSIGN: token.OR, token.AND_ASSIGN: token.AND, token.SHL_ASSIGN: token.SHL, token.SHR_ASSIGN: token.SHR}
	op, ok := ops[tok]
	if !ok {
		t.bad(at, "assignment operator %s", tok)
	}
	f := t.lhsField(lhs, false)
	l := t.expr(lhs)
	var r xlExpr
	if rhs == nil {
		r = xlExpr{nil, "(1 : " + t.kind(lhs) + ")"}
	} else {
		r = t.expr(rhs)
	}
	k := t.kind(lhs)
	var term string
	a, b := paren(l.term), paren(r.term)
	switch {
	case k == "Int" && op == token.ADD:
		term = a + " + " + b
	case k == "Int" && op == token.SUB:
		term = a + " - " + b
	case k == "Int" && op == token.MUL:
		term = a + " * " + b
	case k == "Int" && op == token.QUO:
		term = "Int.tdiv " + a + " " + b
	case k == "Int" && op == token.REM:
		term = "Int.tmod " + a + " " + b
	case strings.HasPrefix(k, "UInt") && op == token.ADD:
		term = a + " + " + b
	case strings.HasPrefix(k, "UInt") && op == token.SUB:
		term = a + " - " + b
	default:
		t.bad(at, "op-assignment %s on %s outside the subset", tok, k)
	}
	if k == "Int" {
		bits := sbits(t.typeOf(lhs))
		rr := constIval(1, 1)
		if rhs != nil {
			rr = t.rng(rhs)
		}
		if (op == token.QUO || op == token.REM) && rr.lo.Sign() <= 0 && rr.hi.Sign() >= 0 {
			t.bad(at, "division by a possibly zero value: outside the subset")
		}
		if raw := t.arith(op, t.rng(lhs), rr); !raw.within(typeIval(bits)) && op != token.REM {
			term = fmt.Sprintf("wrapI %d %s", bits, paren(term))
		}
	}
	return fmt.Sprintf("%sassign %s (fun s v => { s with %s := v })", ind(d), xlExpr{append(l.pre, r.pre...), term}.fn(), f)
}

func xlHasContinue(n ast.Node) bool {
	found := false
	ast.Inspect(n, func(m ast.Node) bool {
		switch b := m.(type) {
		case *ast.ForStmt, *ast.RangeStmt:
			if m != n {
				return false
			}
		case *ast.BranchStmt:
			if b.Tok == token.CONTINUE {
				found = true
			}
		}
		return true
	})
	return found
}

func xlHasBreakOutsideLoop(n ast.Node) bool {
	found := false
	ast.Inspect(n, func(m ast.Node) bool {
		switch b := m.(type) {
		case *ast.ForStmt, *ast.RangeStmt, *ast.SwitchStmt, *ast.SelectStmt:
			if m != n {
				return false
			}
		case *ast.BranchStmt:
			if b.Tok == token.BREAK && b.Label == nil {
				found = true
			}
		}
		return true
	})
	return found
}

// xlateEmit translates the named functions of one file and appends them to the generated module.
type xlSpec struct {
	recv, name, lean string
	fuel             []string
	keep             []string // "field:type:zero" of the fields the driver reads (for the stub)
	rho              string   // result type as the driver expects it (for the stub)
}

func xlateEmit(x *X, rel string, specs []xlSpec) {
	xlateEmitFiles(x, []xlFileSpec{{rel, specs}})
}

type xlFileSpec struct {
	rel   string
	specs []xlSpec
}

// xlateEmitFiles translates functions of several files into one generated module (one `xlateNotes` for all).
func xlateEmitFiles(x *X, files []xlFileSpec) {
	x.imports = append(x.imports, "Fabio.Xlate.Rt")
	x.opens = append(x.opens, "Fabio.Xlate")
	sort.Strings(x.imports)
	for _, fs := range files {
		fset, f, info := xlateLoad(x, fs.rel)
		if f == nil {
			continue
		}
		for _, sp := range fs.specs {
			fd := xlateFind(f, sp.recv, sp.name)
			if fd == nil {
				x.fail("xlate: function %s.%s not found in %s", sp.recv, sp.name, fs.rel)
				continue
			}
			x.defRaw(xlateFunc(x, fset, info, fd, sp.lean, sp.fuel, sp.keep, sp.rho, fs.rel, f))
		}
	}
	var notes []string
	notes = append(notes, x.xlateNotes...)
	x.defStrList("xlateNotes", notes)
}

func isBytesBuffer(ty types.Type) bool {
	p, ok := ty.(*types.Pointer)
	if !ok {
		return false
	}
	n, ok := p.Elem().(*types.Named)
	return ok && n.Obj().Name() == "Buffer" && n.Obj().Pkg() != nil && n.Obj().Pkg().Path() == "bytes"
}

// sbits: width of a signed integer type (int = 64), 0 otherwise. ubits: width of an unsigned one.
func sbits(ty types.Type) int {
	if ty == nil {
		return 0
	}
	if b, ok := ty.Underlying().(*types.Basic); ok {
		switch b.Kind() {
		case types.Int, types.Int64, types.UntypedInt, types.UntypedRune:
			return 64
		case types.Int32:
			return 32
		case types.Int16:
			return 16
		case types.Int8:
			return 8
		}
	}
	return 0
}

func ubits(ty types.Type) int {
	if ty == nil {
		return 0
	}
	if b, ok := ty.Underlying().(*types.Basic); ok {
		switch b.Kind() {
		case types.Uint8:
			return 8
		case types.Uint16:
			return 16
		case types.Uint32:
			return 32
		case types.Uint64:
			return 64
		}
	}
	return 0
}

func (t *xlFunc) typeOf(e ast.Expr) types.Type {
	if id, ok := e.(*ast.Ident); ok {
		if obj := t.info.Defs[id]; obj != nil {
			return obj.Type()
		}
	}
	if tv, ok := t.info.Types[e]; ok {
		return tv.Type
	}
	return nil
}

// ---------------------------------------------------------------------------------------------------------
// package-level tables, composite literals, alias discipline for index stores

func rootIdent(e ast.Expr) *ast.Ident {
	for {
		switch n := e.(type) {
		case *ast.Ident:
			return n
		case *ast.ParenExpr:
			e = n.X
		case *ast.IndexExpr:
			e = n.X
		case *ast.SliceExpr:
			e = n.X
		case *ast.StarExpr:
			e = n.X
		default:
			return nil
		}
	}
}

// global: a package-level `var` of a byte-table type, initialised by a literal in this file and nowhere written,
// sliced, passed on or address-taken in the package (every use is `tbl[i]` on the reading side, `len(tbl)` or
// `range tbl`), is read as a constant.
func (t *xlFunc) global(id *ast.Ident, obj types.Object) (string, bool) {
	v, ok := obj.(*types.Var)
	if !ok || v.Pkg() == nil || v.Parent() != v.Pkg().Scope() {
		return "", false
	}
	if g, ok := t.globals[obj]; ok {
		return g, true
	}
	lt, _ := t.leanType(v.Type())
	if lt != "Bytes" {
		t.bad(id, "package-level %s of type %s is outside the subset", id.Name, v.Type())
	}
	var init ast.Expr
	for _, d := range t.file.Decls {
		gd, ok := d.(*ast.GenDecl)
		if !ok || gd.Tok != token.VAR {
			continue
		}
		for _, sp := range gd.Specs {
			vs := sp.(*ast.ValueSpec)
			for i, nm := range vs.Names {
				if t.info.Defs[nm] == obj && i < len(vs.Values) && len(vs.Names) == len(vs.Values) {
					init = vs.Values[i]
				}
			}
		}
	}
	if init == nil {
		t.bad(id, "package-level %s has no initialiser in %s", id.Name, t.rel)
	}
	var term string
	switch e := init.(type) {
	case *ast.CallExpr: // []byte("…")
		if tv, ok := t.info.Types[e.Fun]; ok && tv.IsType() && len(e.Args) == 1 {
			if av := t.info.Types[e.Args[0]]; av.Value != nil && av.Value.Kind() == constant.String {
				term = bytesLit(constant.StringVal(av.Value))
			}
		}
	case *ast.CompositeLit:
		term = t.compositeLit(e)
	}
	if term == "" {
		t.bad(id, "initialiser of package-level %s is not a byte-table literal", id.Name)
	}
	// read-only in the whole package (syntactic, by name: a local of the same name elsewhere refuses as well)
	for _, f := range t.x.files(filepath.Dir(t.rel)) {
		var stack []ast.Node
		ast.Inspect(f, func(n ast.Node) bool {
			if n == nil {
				stack = stack[:len(stack)-1]
				return true
			}
			stack = append(stack, n)
			u, ok := n.(*ast.Ident)
			if !ok || u.Name != id.Name || len(stack) < 2 {
				return true
			}
			par := stack[len(stack)-2]
			var grand ast.Node
			if len(stack) >= 3 {
				grand = stack[len(stack)-3]
			}
			okUse := false
			switch p := par.(type) {
			case *ast.ValueSpec: // its declaration
				for _, nm := range p.Names {
					if nm == u {
						okUse = true
					}
				}
			case *ast.IndexExpr:
				if p.X == u {
					okUse = true
					switch g := grand.(type) {
					case *ast.AssignStmt:
						for _, l := range g.Lhs {
							if l == ast.Expr(p) {
								okUse = false
							}
						}
					case *ast.IncDecStmt:
						okUse = false
					case *ast.UnaryExpr:
						if g.Op == token.AND {
							okUse = false
						}
					}
				} else {
					okUse = p.Index != ast.Expr(u) // an index named like the table: some other variable
				}
			case *ast.CallExpr:
				if f, ok := p.Fun.(*ast.Ident); ok && f.Name == "len" {
					okUse = true
				}
			case *ast.RangeStmt:
				okUse = p.X == ast.Expr(u)
			case *ast.SelectorExpr:
				okUse = p.Sel == u // a field or method of that name
			case *ast.KeyValueExpr:
				okUse = p.Key == ast.Expr(u)
			case *ast.Field:
				okUse = true
			}
			if !okUse {
				t.bad(id, "package-level %s is used other than by reading an element (%s): not read as a constant", id.Name, t.x.fset.Position(u.Pos()))
			}
			return true
		})
	}
	g := fmt.Sprintf("g%d", len(t.globals))
	t.globals[obj] = g
	t.gdefs = append(t.gdefs, fmt.Sprintf("/-- package-level `%s` (nowhere written in the package: read as a constant) -/\ndef %s : Bytes := %s", id.Name, g, term))
	return g, true
}

// compositeLit: `[N]byte{}` (zero value) or a slice/array literal of constants without keys
func (t *xlFunc) compositeLit(n *ast.CompositeLit) string {
	ty := t.typeOf(n)
	if ty == nil {
		t.bad(n, "composite literal without type")
	}
	lt, z := t.leanType(ty)
	var elem types.Type
	length := int64(-1)
	switch u := ty.Underlying().(type) {
	case *types.Array:
		elem, length = u.Elem(), u.Len()
	case *types.Slice:
		elem = u.Elem()
	default:
		t.bad(n, "composite literal of type %s outside the subset", ty)
	}
	if len(n.Elts) == 0 {
		if length >= 0 {
			return z
		}
		return "([] : " + lt + ")"
	}
	if length >= 0 && int64(len(n.Elts)) != length {
		t.bad(n, "array literal with %d of %d elements", len(n.Elts), length)
	}
	et, _ := t.leanType(elem)
	var parts []string
	for _, e := range n.Elts {
		tv := t.info.Types[e]
		if _, isKV := e.(*ast.KeyValueExpr); isKV || tv.Value == nil || tv.Value.Kind() != constant.Int {
			t.bad(e, "literal element %s is not an integer constant", t.x.src(e))
		}
		parts = append(parts, tv.Value.ExactString())
	}
	return "([" + strings.Join(parts, ", ") + "] : List " + et + ")"
}

// storable: may `v[i] = x` be translated as a functional update of the state field of v? Only if no other name can
// reach the same memory: v is a fixed-size array (a value) that is never address-taken and only sliced where the
// slice is consumed at once (string(v[a:b]), b.Write(v[a:])), or a slice that is only ever assigned fresh
// allocations ([]byte("…"), a literal) and only used as v[i], len(v), string(v).
func (t *xlFunc) storable(id *ast.Ident) {
	obj := t.objOf(id)
	if obj == nil {
		t.bad(id, "index store into %s: unresolved", id.Name)
	}
	if t.storeOK[obj] {
		return
	}
	if _, ok := t.byObj[obj]; !ok {
		t.bad(id, "index store into %s which is not a local", id.Name)
	}
	_, isArray := obj.Type().Underlying().(*types.Array)
	_, isSlice := obj.Type().Underlying().(*types.Slice)
	if !isArray && !isSlice {
		t.bad(id, "index store into %s of type %s", id.Name, obj.Type())
	}
	if isSlice {
		if t.isParam(obj) {
			t.bad(id, "index store into the slice parameter %s (the caller's memory)", id.Name)
		}
		for _, a := range t.assigns[obj] {
			fresh := false
			switch e := a.(type) {
			case *ast.CallExpr:
				if tv, ok := t.info.Types[e.Fun]; ok && tv.IsType() && len(e.Args) == 1 {
					if at := t.typeOf(e.Args[0]); at != nil {
						if b, ok := at.Underlying().(*types.Basic); ok && b.Info()&types.IsString != 0 {
							fresh = true // []byte(string) allocates
						}
					}
				}
			case *ast.CompositeLit:
				fresh = true
			}
			if !fresh {
				t.bad(id, "index store into %s which is assigned something that may be shared", id.Name)
			}
		}
	}
	consumed := func(n ast.Node) bool { // is the slice expression n consumed at once?
		p := t.parents[n]
		for {
			if pe, ok := p.(*ast.ParenExpr); ok {
				p = t.parents[pe]
				continue
			}
			break
		}
		call, ok := p.(*ast.CallExpr)
		if !ok {
			return false
		}
		if tv, ok := t.info.Types[call.Fun]; ok && tv.IsType() {
			if b, ok := tv.Type.Underlying().(*types.Basic); ok && b.Info()&types.IsString != 0 {
				return true // string(v[a:b]) copies
			}
			return false
		}
		if sel, ok := call.Fun.(*ast.SelectorExpr); ok {
			if isBytesBuffer(t.typeOf(sel.X)) && (sel.Sel.Name == "Write" || sel.Sel.Name == "WriteString") {
				return true // copies into the buffer
			}
		}
		if f, ok := call.Fun.(*ast.Ident); ok && f.Name == "len" {
			return true
		}
		return false
	}
	ast.Inspect(t.fd.Body, func(n ast.Node) bool {
		u, ok := n.(*ast.Ident)
		if !ok || t.objOf(u) != obj {
			return true
		}
		bad := ""
		switch p := t.parents[u].(type) {
		case *ast.IndexExpr:
			if p.X != ast.Expr(u) {
				bad = "used as an index"
			} else if g, ok := t.parents[p].(*ast.UnaryExpr); ok && g.Op == token.AND {
				bad = "address of an element taken"
			}
		case *ast.SliceExpr:
			if isSlice || !consumed(p) {
				bad = "sliced into a value that lives on"
			}
		case *ast.CallExpr:
			okc := false
			if f, ok := p.Fun.(*ast.Ident); ok && f.Name == "len" {
				okc = true
			}
			if tv, ok := t.info.Types[p.Fun]; ok && tv.IsType() {
				if b, ok := tv.Type.Underlying().(*types.Basic); ok && b.Info()&types.IsString != 0 {
					okc = true
				}
			}
			if !okc {
				bad = "passed to a call"
			}
		case *ast.AssignStmt:
			for _, r := range p.Rhs {
				if r == ast.Expr(u) && isSlice {
					bad = "assigned to another variable"
				}
			}
		case *ast.ValueSpec, *ast.RangeStmt:
			if rs, ok := p.(*ast.RangeStmt); ok && rs.X == ast.Expr(u) && isSlice {
				bad = "ranged over"
			}
		case *ast.UnaryExpr:
			if p.Op == token.AND {
				bad = "address taken"
			}
		default:
			bad = fmt.Sprintf("used in %T", p)
		}
		if bad != "" {
			t.bad(u, "index store into %s which is %s: it may have an alias", id.Name, bad)
		}
		return true
	})
	t.storeOK[obj] = true
}

// ---------------------------------------------------------------------------------------------------------
// closures that are pure predicates, []rune against a string constant

// closure: `f := func(a T, …) R { return e }` where e mentions nothing but the parameters and constants, and f is
// never assigned again: a Lean function of its own; calls `f(x)` apply it.
func (t *xlFunc) closure(n *ast.AssignStmt, fl *ast.FuncLit, d int) string {
	id, ok := n.Lhs[0].(*ast.Ident)
	if !ok || n.Tok != token.DEFINE {
		t.bad(n, "function literal assigned to something that is not a new variable")
	}
	obj := t.info.Defs[id]
	reassigned := false
	ast.Inspect(t.fd.Body, func(m ast.Node) bool {
		if as, ok := m.(*ast.AssignStmt); ok && as != n {
			for _, l := range as.Lhs {
				if li, ok := l.(*ast.Ident); ok && t.objOf(li) == obj {
					reassigned = true
				}
			}
		}
		if u, ok := m.(*ast.UnaryExpr); ok && u.Op == token.AND {
			if li, ok := u.X.(*ast.Ident); ok && t.objOf(li) == obj {
				reassigned = true
			}
		}
		return true
	})
	if reassigned {
		t.bad(n, "the closure %s is assigned again", id.Name)
	}
	if len(fl.Body.List) != 1 || fl.Type.Results == nil || len(fl.Type.Results.List) != 1 {
		t.bad(fl, "closure %s is not a single `return e` with one result", id.Name)
	}
	ret, ok := fl.Body.List[0].(*ast.ReturnStmt)
	if !ok || len(ret.Results) != 1 {
		t.bad(fl, "closure %s is not a single `return e`", id.Name)
	}
	var binders, types_ []string
	for _, p := range fl.Type.Params.List {
		lt, _ := t.leanType(t.info.Types[p.Type].Type)
		for _, pn := range p.Names {
			v := fmt.Sprintf("a%d", len(binders))
			t.lambda[t.info.Defs[pn]] = v
			binders = append(binders, v)
			types_ = append(types_, lt)
		}
	}
	if len(binders) == 0 {
		t.bad(fl, "closure without parameters")
	}
	rt, _ := t.leanType(t.info.Types[fl.Type.Results.List[0].Type].Type)
	e := t.expr(ret.Results[0])
	t.lambda = map[types.Object]string{}
	if len(e.pre) > 0 {
		t.bad(fl, "closure %s can panic: outside the subset", id.Name)
	}
	name := fmt.Sprintf("fn%d", len(t.closures))
	t.closures[obj] = name
	t.gdefs = append(t.gdefs, fmt.Sprintf("/-- the closure `%s` of `%s` (mentions only its parameters) -/\ndef %s : %s → %s := fun %s => %s",
		id.Name, t.goName(), name, strings.Join(types_, " → "), rt, strings.Join(binders, " "), e.term))
	return ""
}

// runesVsConst: is `a` the conversion string(x) of a []rune x and `c` a string constant that is valid UTF-8 without
// U+FFFD? Then string(x) == c exactly when x is the rune list of c (an invalid rune encodes as U+FFFD, which c does
// not contain).
func (t *xlFunc) runesVsConst(a, c ast.Expr) (xlExpr, bool) {
	call, ok := a.(*ast.CallExpr)
	if !ok || len(call.Args) != 1 {
		return xlExpr{}, false
	}
	tv, ok := t.info.Types[call.Fun]
	if !ok || !tv.IsType() {
		return xlExpr{}, false
	}
	if b, ok := tv.Type.Underlying().(*types.Basic); !ok || b.Info()&types.IsString == 0 {
		return xlExpr{}, false
	}
	at := t.typeOf(call.Args[0])
	if at == nil {
		return xlExpr{}, false
	}
	sl, ok := at.Underlying().(*types.Slice)
	if !ok {
		return xlExpr{}, false
	}
	if eb, ok := sl.Elem().Underlying().(*types.Basic); !ok || eb.Kind() != types.Int32 {
		return xlExpr{}, false
	}
	cv := t.info.Types[c]
	if cv.Value == nil || cv.Value.Kind() != constant.String {
		t.bad(a, "string([]rune) compared with something that is not a constant")
	}
	for _, r := range constant.StringVal(cv.Value) {
		if r == 0xFFFD {
			t.bad(c, "string constant with U+FFFD (or invalid UTF-8) compared with string([]rune)")
		}
	}
	return t.expr(call.Args[0]), true
}

func (t *xlFunc) runesOfConst(c ast.Expr) string {
	var parts []string
	for _, r := range constant.StringVal(t.info.Types[c].Value) {
		parts = append(parts, fmt.Sprint(int(r)))
	}
	return "([" + strings.Join(parts, ", ") + "] : List Int)"
}
