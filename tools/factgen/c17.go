package main

import (
	"go/ast"
	"go/token"
	"os"
	"path/filepath"
	"strings"
)

// C17: facts about proxy/gzip/gzip_handler.go that the model in Fabio/Model/C17.lean silently depends on.
func init() {
	register("C17", func(x *X) error {
		const dir = "proxy/gzip"
		// the header-name and encoding literals
		for _, c := range []string{"headerVary", "headerAccept", "headerAcceptEncoding", "headerContentEncoding",
			"headerContentType", "headerContentLength", "encodingGzip"} {
			if e := x.valueSpec(dir, c); e != nil {
				if s, ok := x.strLit(e); ok {
					x.defStr(c, s)
				} else {
					x.fail("%s is not a string literal", c)
				}
			}
		}
		if e := x.valueSpec(dir, "blacklistedAcceptContentTypes"); e != nil {
			var vs []string
			if cl, ok := e.(*ast.CompositeLit); ok {
				for _, el := range cl.Elts {
					if s, ok := x.strLit(el); ok {
						vs = append(vs, s)
					} else {
						x.fail("blacklistedAcceptContentTypes: non-literal element")
					}
				}
			} else {
				x.fail("blacklistedAcceptContentTypes is not a composite literal")
			}
			x.defStrList("blacklistedAccept", vs)
		}

		// calls (rendered) in source order inside a node, not descending into function literals
		callsIn := func(n ast.Node) []string {
			var out []string
			if n == nil {
				return out
			}
			ast.Inspect(n, func(m ast.Node) bool {
				if _, ok := m.(*ast.FuncLit); ok {
					return false
				}
				if c, ok := m.(*ast.CallExpr); ok {
					out = append(out, x.src(c))
				}
				return true
			})
			return out
		}
		// outermost calls of the statements of a block (expression statements, assignments, defers, returns)
		stmtCalls := func(b *ast.BlockStmt) []string {
			var out []string
			if b == nil {
				return out
			}
			for _, st := range b.List {
				switch s := st.(type) {
				case *ast.ExprStmt:
					out = append(out, x.src(s.X))
				case *ast.AssignStmt:
					for _, r := range s.Rhs {
						out = append(out, x.src(r))
					}
				case *ast.DeferStmt:
					out = append(out, "defer "+x.src(s.Call))
				case *ast.ReturnStmt:
					if len(s.Results) == 0 {
						out = append(out, "return")
					}
					for _, r := range s.Results {
						out = append(out, "return "+x.src(r))
					}
				case *ast.IfStmt:
					out = append(out, "if "+x.src(s.Cond))
				default:
					out = append(out, "other")
				}
			}
			return out
		}
		firstIf := func(b *ast.BlockStmt) *ast.IfStmt {
			if b == nil {
				return nil
			}
			for _, st := range b.List {
				if s, ok := st.(*ast.IfStmt); ok {
					return s
				}
			}
			return nil
		}

		lastIf := func(b *ast.BlockStmt) *ast.IfStmt {
			var l *ast.IfStmt
			for _, st := range b.List {
				if s, ok := st.(*ast.IfStmt); ok {
					l = s
				}
			}
			return l
		}
		// WriteHeader: guard, compress condition, what the compress branch does, the fallback, the final call
		if fd := x.funcDecl(dir, "GzipResponseWriter", "WriteHeader"); fd != nil {
			x.defStrList("writeHeaderStmts", stmtCalls(fd.Body))
			// the 1xx early return comes first; the decision guard is the if after it
			var ifs []*ast.IfStmt
			for _, st := range fd.Body.List {
				if s, ok := st.(*ast.IfStmt); ok {
					ifs = append(ifs, s)
				}
			}
			if len(ifs) == 2 {
				x.defStrList("informationalBranch", stmtCalls(ifs[0].Body))
			} else {
				x.fail("WriteHeader: expected the 1xx early return and the decision guard, found %d if statements", len(ifs))
			}
			if outer := lastIf(fd.Body); outer != nil {
				x.defStr("writeHeaderGuard", x.src(outer.Cond))
				if inner := firstIf(outer.Body); inner != nil {
					x.defStr("compressCond", x.src(inner.Cond))
					x.defStrList("compressBranch", stmtCalls(inner.Body))
					if eb, ok := inner.Else.(*ast.BlockStmt); ok {
						x.defStrList("plainBranch", stmtCalls(eb))
					} else {
						x.fail("WriteHeader: no else branch")
					}
				} else {
					x.fail("WriteHeader: inner if not found")
				}
			} else {
				x.fail("WriteHeader: guard not found")
			}
		}
		// Write
		if fd := x.funcDecl(dir, "GzipResponseWriter", "Write"); fd != nil {
			x.defStrList("writeStmts", stmtCalls(fd.Body))
			if outer := firstIf(fd.Body); outer != nil {
				x.defStrList("writeUndecided", stmtCalls(outer.Body))
				if sn := firstIf(outer.Body); sn != nil {
					x.defStr("sniffGuard", x.src(sn.Init)+"; "+x.src(sn.Cond))
					x.defStrList("sniffBranch", stmtCalls(sn.Body))
				} else {
					x.fail("Write: sniff guard not found")
				}
			}
		}
		// Close
		if fd := x.funcDecl(dir, "GzipResponseWriter", "Close"); fd != nil {
			x.defStrList("closeStmts", stmtCalls(fd.Body))
			if outer := firstIf(fd.Body); outer != nil {
				x.defStrList("closeBranch", stmtCalls(outer.Body))
			} else {
				x.fail("Close: guard not found")
			}
		}
		// NewGzipHandler: the closure
		if fd := x.funcDecl(dir, "", "NewGzipHandler"); fd != nil {
			var lit *ast.FuncLit
			ast.Inspect(fd.Body, func(n ast.Node) bool {
				if l, ok := n.(*ast.FuncLit); ok && lit == nil {
					lit = l
				}
				return lit == nil
			})
			if lit == nil {
				x.fail("NewGzipHandler: handler closure not found")
			} else {
				x.defStrList("handlerStmts", stmtCalls(lit.Body))
				if br := firstIf(lit.Body); br != nil {
					x.defStrList("handlerGzipBranch", stmtCalls(br.Body))
					if eb, ok := br.Else.(*ast.BlockStmt); ok {
						x.defStrList("handlerPlainBranch", stmtCalls(eb))
					}
				}
				nClose := 0
				for _, c := range callsIn(lit.Body) {
					if strings.HasSuffix(c, ".Close()") {
						nClose++
					}
				}
				x.defNat("handlerCloseCalls", uint64(nClose))
			}
		}
		// isCompressable, bodyAllowedForStatus, acceptsGzip, zeroWeight: statement skeletons
		for _, fn := range []string{"isCompressable", "bodyAllowedForStatus"} {
			if fd := x.funcDecl(dir, "", fn); fd != nil {
				x.defStrList(fn+"Stmts", stmtCalls(fd.Body))
				if br := firstIf(fd.Body); br != nil {
					x.defStrList(fn+"Branch", stmtCalls(br.Body))
				}
			}
		}
		for _, fn := range []string{"acceptsGzip", "zeroWeight"} {
			if fd := x.funcDecl(dir, "", fn); fd != nil {
				x.defStrList(fn+"Calls", callsIn(fd.Body))
				var rets []string
				ast.Inspect(fd.Body, func(n ast.Node) bool {
					if r, ok := n.(*ast.ReturnStmt); ok {
						for _, e := range r.Results {
							rets = append(rets, x.src(e))
						}
					}
					return true
				})
				x.defStrList(fn+"Returns", rets)
				var conds []string
				ast.Inspect(fd.Body, func(n ast.Node) bool {
					if s, ok := n.(*ast.IfStmt); ok {
						c := x.src(s.Cond)
						if s.Init != nil {
							c = x.src(s.Init) + "; " + c
						}
						conds = append(conds, c)
					}
					return true
				})
				x.defStrList(fn+"Conds", conds)
			}
		}
		// who touches the pool, in the whole package: Get and Put once each
		nGet, nPut := 0, 0
		var getIn, putIn []string
		for _, f := range x.files(dir) {
			for _, d := range f.Decls {
				fd, ok := d.(*ast.FuncDecl)
				if !ok || fd.Body == nil {
					continue
				}
				for _, c := range x.calls(fd.Body, "gzipWriterPool.Get") {
					_ = c
					nGet++
					getIn = append(getIn, fd.Name.Name)
				}
				for _, c := range x.calls(fd.Body, "gzipWriterPool.Put") {
					_ = c
					nPut++
					putIn = append(putIn, fd.Name.Name)
				}
			}
		}
		x.defStrList("poolGetIn", getIn)
		x.defStrList("poolPutIn", putIn)
		// assignments to grw.writer / grw.gzipWriter in the package (the decision is taken in one place)
		var assigns []string
		for _, f := range x.files(dir) {
			for _, d := range f.Decls {
				fd, ok := d.(*ast.FuncDecl)
				if !ok || fd.Body == nil {
					continue
				}
				ast.Inspect(fd.Body, func(n ast.Node) bool {
					if a, ok := n.(*ast.AssignStmt); ok && a.Tok == token.ASSIGN {
						for _, l := range a.Lhs {
							s := x.src(l)
							if s == "grw.writer" || s == "grw.gzipWriter" {
								assigns = append(assigns, fd.Name.Name+": "+x.src(a))
							}
						}
					}
					return true
				})
			}
		}
		x.defStrList("writerAssignments", assigns)

		// the method set of *GzipResponseWriter: declared methods plus what the embedded fields promote
		var methods []string
		for _, f := range x.files(dir) {
			for _, d := range f.Decls {
				fd, ok := d.(*ast.FuncDecl)
				if !ok || fd.Recv == nil || len(fd.Recv.List) != 1 {
					continue
				}
				t := fd.Recv.List[0].Type
				if st, ok := t.(*ast.StarExpr); ok {
					t = st.X
				}
				if id, ok := t.(*ast.Ident); ok && id.Name == "GzipResponseWriter" {
					methods = append(methods, fd.Name.Name)
				}
			}
		}
		x.defSortedStrList("writerMethods", methods)
		var fields, embedded []string
		for _, f := range x.files(dir) {
			ast.Inspect(f, func(n ast.Node) bool {
				ts, ok := n.(*ast.TypeSpec)
				if !ok || ts.Name.Name != "GzipResponseWriter" {
					return true
				}
				st, ok := ts.Type.(*ast.StructType)
				if !ok {
					x.fail("GzipResponseWriter is not a struct")
					return false
				}
				for _, fl := range st.Fields.List {
					if len(fl.Names) == 0 {
						embedded = append(embedded, x.src(fl.Type))
					}
					for _, nm := range fl.Names {
						fields = append(fields, nm.Name+" "+x.src(fl.Type))
					}
				}
				return false
			})
		}
		x.defStrList("writerFields", fields)
		x.defStrList("writerEmbedded", embedded)

		// proxy/http_proxy.go: the handler is wrapped iff GZIPContentTypes is configured
		if fd := x.funcDecl("proxy", "HTTPProxy", "ServeHTTP"); fd != nil {
			found := false
			ast.Inspect(fd.Body, func(n ast.Node) bool {
				s, ok := n.(*ast.IfStmt)
				if !ok || found {
					return true
				}
				if cs := x.calls(s.Body, "gzip.NewGzipHandler"); len(cs) == 1 {
					found = true
					x.defStr("proxyWrapCond", x.src(s.Cond))
					x.defStrList("proxyWrapBranch", stmtCalls(s.Body))
				}
				return true
			})
			if !found {
				x.fail("proxy.HTTPProxy.ServeHTTP: gzip.NewGzipHandler wrap not found")
			}
		}
		// the documented expression (the harness uses it as the main pattern)
		doc := ""
		if b, err := os.ReadFile(filepath.Join(x.repo, "docs/content/ref/proxy.gzip.contenttype.md")); err == nil {
			for _, ln := range strings.Split(string(b), "\n") {
				t := strings.TrimSpace(ln)
				if strings.HasPrefix(t, "proxy.gzip.contenttype = ^") {
					doc = strings.TrimPrefix(t, "proxy.gzip.contenttype = ")
				}
			}
		}
		if doc == "" {
			x.fail("documented proxy.gzip.contenttype expression not found")
		}
		x.defStr("docPattern", doc)
		if e := x.valueSpec("config", "defaultValues"); e != nil {
			has := false
			ast.Inspect(e, func(n ast.Node) bool {
				if kv, ok := n.(*ast.KeyValueExpr); ok && x.src(kv.Key) == "GZIPContentTypesValue" {
					has = true
				}
				return true
			})
			x.defBool("defaultSetsGzipPattern", has)
		}
		return nil
	})
}
