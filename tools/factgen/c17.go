package main

import (
	"go/ast"
	"go/token"
	"os"
	"path/filepath"
	"regexp"
	"sort"
	"strconv"
	"strings"
)

// C17: facts about proxy/gzip/gzip_handler.go that the model in Fabio/Model/C17.lean silently depends on.
//
// The facts are ORDERED, GUARDED EVENT LISTS ("traces") of the exported entry points (the handler closure of
// NewGzipHandler, GzipResponseWriter.WriteHeader/Write/Close), written in a canonical form that depends on what
// the code does and not on how it is spelled:
//
//   - x.UseNormalizedAST(): package constants are inlined, literal concatenations folded, switch -> if chains;
//   - calls to unexported functions/methods of the package are inlined with their arguments substituted (same
//     policy as x.WalkInlined: same package, has a body, depth <= 4, no recursion), in statement AND expression
//     position, so extracting/inlining/renaming an unexported helper does not change a trace;
//   - identifiers are printed by role: receiver -> recv, parameters -> p0.., closure parameters -> c0.., a local
//     assigned once -> the expression it was assigned from, any other local -> _, an unexported struct field ->
//     F[its type], an unexported package variable -> its initialiser (or V[type]);
//   - control flow: `if c { …; return }; rest` is read as `if c { … } else { rest }`; an if/else whose condition
//     is in negative form (top-level ||, !, !=, >, >=) is swapped with the De Morgan negation; conjunctions are
//     split into separate guards; a bare `return` at the end of a path is dropped;
//   - `len(e) > 0`, `len(e) != 0`, `len(e) >= 1` are read as `e != ""`, and `len(e) == 0`, `len(e) <= 0`,
//     `len(e) < 1` as `e == ""`.
//
// An event is `guard && guard => what`; what = a call (callee chain and canonical arguments), a store
// `lhs = rhs` to a field, `return e`, `defer call`.
type c17w struct {
	x          *X
	dir        string
	fieldRole  map[string]string
	pkgVarRole map[string]string
	imports    map[string]bool
	defID      map[string]string // body of an expression-inlined helper -> "@k"
	defs       []string
}

// ref names the (substituted) body of a helper that is inlined in expression position: the first distinct body
// is @1, the next @2, …; the bodies are emitted once in `inlinedDefs`.
func (w *c17w) ref(body string) string {
	if w.defID == nil {
		w.defID = map[string]string{}
	}
	if id, ok := w.defID[body]; ok {
		return id
	}
	id := "@" + strconv.Itoa(len(w.defs)+1)
	w.defID[body] = id
	w.defs = append(w.defs, id+" = {"+body+"}")
	return id
}

type c17scope struct {
	role   map[string]string
	nasg   map[string]int
	inFunc map[string]bool // unexported functions on the inlining stack
	depth  int
}

func (w *c17w) init() {
	w.fieldRole, w.pkgVarRole, w.imports = map[string]string{}, map[string]string{}, map[string]bool{}
	for _, f := range w.x.files(w.dir) {
		for _, im := range f.Imports {
			p, _ := strconv.Unquote(im.Path.Value)
			name := p[strings.LastIndex(p, "/")+1:]
			if im.Name != nil {
				name = im.Name.Name
			}
			w.imports[name] = true
		}
		for _, d := range f.Decls {
			gd, ok := d.(*ast.GenDecl)
			if !ok {
				continue
			}
			for _, s := range gd.Specs {
				switch v := s.(type) {
				case *ast.TypeSpec:
					st, ok := v.Type.(*ast.StructType)
					if !ok {
						continue
					}
					seen := map[string]int{}
					for _, fl := range st.Fields.List {
						t := w.x.src(fl.Type)
						for _, nm := range fl.Names {
							if ast.IsExported(nm.Name) {
								continue
							}
							seen[t]++
							r := "F[" + t + "]"
							if seen[t] > 1 {
								r = "F[" + t + "#" + strconv.Itoa(seen[t]) + "]"
							}
							w.fieldRole[nm.Name] = r
						}
					}
				case *ast.ValueSpec:
					if gd.Tok != token.VAR {
						continue
					}
					for i, nm := range v.Names {
						if ast.IsExported(nm.Name) {
							continue
						}
						r := "V[?]"
						if v.Type != nil {
							r = "V[" + w.x.src(v.Type) + "]"
						}
						if i < len(v.Values) {
							hasFunc := false
							ast.Inspect(v.Values[i], func(n ast.Node) bool {
								if _, ok := n.(*ast.FuncLit); ok {
									hasFunc = true
								}
								return true
							})
							if cl, ok := v.Values[i].(*ast.CompositeLit); ok && cl.Type != nil {
								r = "V[" + w.x.src(cl.Type) + "]"
							}
							if s := w.x.src(v.Values[i]); !hasFunc && len(s) <= 120 {
								r = s
							}
						}
						w.pkgVarRole[nm.Name] = r
					}
				}
			}
		}
	}
}

func (w *c17w) newScope(fd *ast.FuncType, body *ast.BlockStmt, recvName, recvRole string, params []string, parent *c17scope) *c17scope {
	sc := &c17scope{role: map[string]string{}, nasg: map[string]int{}, inFunc: map[string]bool{}}
	if parent != nil {
		for k, v := range parent.role {
			sc.role[k] = v
		}
		for k, v := range parent.nasg {
			sc.nasg[k] = v
		}
		for k, v := range parent.inFunc {
			sc.inFunc[k] = v
		}
		sc.depth = parent.depth
	}
	if recvName != "" {
		sc.role[recvName] = recvRole
	}
	i := 0
	if fd.Params != nil {
		for _, p := range fd.Params.List {
			for _, n := range p.Names {
				if i < len(params) {
					sc.role[n.Name] = params[i]
				}
				i++
			}
		}
	}
	// how often is each local assigned?
	bump := func(e ast.Expr) {
		if id, ok := e.(*ast.Ident); ok {
			sc.nasg[id.Name]++
		}
	}
	ast.Inspect(body, func(n ast.Node) bool {
		switch v := n.(type) {
		case *ast.FuncLit:
			return false
		case *ast.AssignStmt:
			for _, l := range v.Lhs {
				bump(l)
			}
		case *ast.IncDecStmt:
			bump(v.X)
			bump(v.X)
		case *ast.RangeStmt:
			if v.Key != nil {
				bump(v.Key)
			}
			if v.Value != nil {
				bump(v.Value)
			}
		case *ast.ValueSpec:
			for _, id := range v.Names {
				if len(v.Values) > 0 {
					sc.nasg[id.Name]++
				}
			}
		}
		return true
	})
	return sc
}

// ---- conditions ----

func c17isLen(e ast.Expr) (ast.Expr, bool) {
	c, ok := e.(*ast.CallExpr)
	if !ok || len(c.Args) != 1 {
		return nil, false
	}
	if id, ok := c.Fun.(*ast.Ident); ok && id.Name == "len" {
		return c.Args[0], true
	}
	return nil, false
}

func c17intLit(e ast.Expr) (int, bool) {
	if b, ok := e.(*ast.BasicLit); ok && b.Kind == token.INT {
		n, err := strconv.Atoi(b.Value)
		return n, err == nil
	}
	return 0, false
}

// normCond rewrites the len-forms of "is (not) empty" to comparisons with "".
func c17normCond(e ast.Expr) ast.Expr {
	switch v := e.(type) {
	case *ast.ParenExpr:
		return c17normCond(v.X)
	case *ast.UnaryExpr:
		if v.Op == token.NOT {
			return &ast.UnaryExpr{Op: token.NOT, X: c17normCond(v.X)}
		}
	case *ast.BinaryExpr:
		if v.Op == token.LAND || v.Op == token.LOR {
			return &ast.BinaryExpr{X: c17normCond(v.X), Op: v.Op, Y: c17normCond(v.Y)}
		}
		empty := &ast.BasicLit{Kind: token.STRING, Value: `""`}
		if a, ok := c17isLen(v.X); ok {
			if n, ok := c17intLit(v.Y); ok {
				switch {
				case n == 0 && (v.Op == token.GTR || v.Op == token.NEQ), n == 1 && v.Op == token.GEQ:
					return &ast.BinaryExpr{X: a, Op: token.NEQ, Y: empty}
				case n == 0 && (v.Op == token.EQL || v.Op == token.LEQ), n == 1 && v.Op == token.LSS:
					return &ast.BinaryExpr{X: a, Op: token.EQL, Y: empty}
				}
			}
		}
		if a, ok := c17isLen(v.Y); ok {
			if n, ok := c17intLit(v.X); ok {
				switch {
				case n == 0 && (v.Op == token.LSS || v.Op == token.NEQ), n == 1 && v.Op == token.LEQ:
					return &ast.BinaryExpr{X: a, Op: token.NEQ, Y: empty}
				case n == 0 && (v.Op == token.EQL || v.Op == token.GEQ), n == 1 && v.Op == token.GTR:
					return &ast.BinaryExpr{X: a, Op: token.EQL, Y: empty}
				}
			}
		}
	}
	return e
}

var c17flip = map[token.Token]token.Token{token.EQL: token.NEQ, token.NEQ: token.EQL, token.LSS: token.GEQ,
	token.GEQ: token.LSS, token.GTR: token.LEQ, token.LEQ: token.GTR}

func c17negCond(e ast.Expr) ast.Expr {
	switch v := e.(type) {
	case *ast.ParenExpr:
		return c17negCond(v.X)
	case *ast.UnaryExpr:
		if v.Op == token.NOT {
			return v.X
		}
	case *ast.BinaryExpr:
		switch v.Op {
		case token.LAND:
			return &ast.BinaryExpr{X: c17negCond(v.X), Op: token.LOR, Y: c17negCond(v.Y)}
		case token.LOR:
			return &ast.BinaryExpr{X: c17negCond(v.X), Op: token.LAND, Y: c17negCond(v.Y)}
		}
		if f, ok := c17flip[v.Op]; ok {
			return &ast.BinaryExpr{X: v.X, Op: f, Y: v.Y}
		}
	}
	return &ast.UnaryExpr{Op: token.NOT, X: e}
}

func c17negativeForm(e ast.Expr) bool {
	switch v := e.(type) {
	case *ast.ParenExpr:
		return c17negativeForm(v.X)
	case *ast.UnaryExpr:
		return v.Op == token.NOT
	case *ast.BinaryExpr:
		return v.Op == token.LOR || v.Op == token.NEQ || v.Op == token.GTR || v.Op == token.GEQ
	}
	return false
}

func c17conjuncts(e ast.Expr) []ast.Expr {
	switch v := e.(type) {
	case *ast.ParenExpr:
		return c17conjuncts(v.X)
	case *ast.BinaryExpr:
		if v.Op == token.LAND {
			return append(c17conjuncts(v.X), c17conjuncts(v.Y)...)
		}
	}
	return []ast.Expr{e}
}

// ---- expressions ----

func (w *c17w) callee(c *ast.CallExpr, sc *c17scope) (fd *ast.FuncDecl, recv ast.Expr) {
	if sc.depth >= 4 {
		return nil, nil
	}
	name := ""
	switch f := c.Fun.(type) {
	case *ast.Ident:
		if _, shadow := sc.role[f.Name]; shadow {
			return nil, nil
		}
		name = f.Name
	case *ast.SelectorExpr:
		if id, ok := f.X.(*ast.Ident); ok && w.imports[id.Name] {
			if _, shadow := sc.role[id.Name]; !shadow {
				return nil, nil
			}
		}
		name, recv = f.Sel.Name, f.X
	}
	if name == "" || ast.IsExported(name) || sc.inFunc[name] {
		return nil, nil
	}
	d := w.x.anyFuncDecl(w.dir, name)
	if d == nil || (d.Recv != nil) != (recv != nil) {
		return nil, nil
	}
	return d, recv
}

// inline renders the body of an unexported callee with its parameters substituted.
func (w *c17w) inline(fd *ast.FuncDecl, recv ast.Expr, args []ast.Expr, sc *c17scope, guards []string) []string {
	var ps []string
	for _, a := range args {
		ps = append(ps, w.canon(a, sc))
	}
	rn, rr := "", ""
	if recv != nil && len(fd.Recv.List) == 1 && len(fd.Recv.List[0].Names) == 1 {
		rn, rr = fd.Recv.List[0].Names[0].Name, w.canon(recv, sc)
	}
	inner := w.newScope(fd.Type, fd.Body, rn, rr, ps, nil)
	for k, v := range sc.inFunc {
		inner.inFunc[k] = v
	}
	inner.inFunc[fd.Name.Name] = true
	inner.depth = sc.depth + 1
	var out []string
	w.block(fd.Body.List, guards, inner, &out, true)
	return out
}

func (w *c17w) canon(e ast.Expr, sc *c17scope) string {
	switch v := e.(type) {
	case nil:
		return ""
	case *ast.BasicLit:
		return v.Value
	case *ast.Ident:
		if r, ok := sc.role[v.Name]; ok {
			return r
		}
		if r, ok := w.pkgVarRole[v.Name]; ok {
			return r
		}
		return v.Name
	case *ast.ParenExpr:
		if _, ok := v.X.(*ast.BinaryExpr); ok {
			return "(" + w.canon(v.X, sc) + ")"
		}
		return w.canon(v.X, sc)
	case *ast.SelectorExpr:
		if id, ok := v.X.(*ast.Ident); ok && w.imports[id.Name] {
			if _, shadow := sc.role[id.Name]; !shadow {
				return id.Name + "." + v.Sel.Name
			}
		}
		sel := v.Sel.Name
		if r, ok := w.fieldRole[sel]; ok {
			sel = r
		}
		return w.canon(v.X, sc) + "." + sel
	case *ast.CallExpr:
		if fd, recv := w.callee(v, sc); fd != nil {
			return w.ref(strings.Join(w.inline(fd, recv, v.Args, sc, nil), "; "))
		}
		var as []string
		for _, a := range v.Args {
			as = append(as, w.canon(a, sc))
		}
		return w.canon(v.Fun, sc) + "(" + strings.Join(as, ", ") + ")"
	case *ast.UnaryExpr:
		return v.Op.String() + w.canon(v.X, sc)
	case *ast.BinaryExpr:
		n := c17normCond(v)
		if b, ok := n.(*ast.BinaryExpr); ok {
			return w.canon(b.X, sc) + " " + b.Op.String() + " " + w.canon(b.Y, sc)
		}
		return w.canon(n, sc)
	case *ast.IndexExpr:
		return w.canon(v.X, sc) + "[" + w.canon(v.Index, sc) + "]"
	case *ast.StarExpr:
		return "*" + w.canon(v.X, sc)
	case *ast.TypeAssertExpr:
		return w.canon(v.X, sc) + ".(" + w.x.src(v.Type) + ")"
	case *ast.FuncLit:
		var ps []string
		n := 0
		if v.Type.Params != nil {
			for _, p := range v.Type.Params.List {
				for range p.Names {
					ps = append(ps, "c"+strconv.Itoa(n))
					n++
				}
			}
		}
		inner := w.newScope(v.Type, v.Body, "", "", ps, sc)
		var out []string
		w.block(v.Body.List, nil, inner, &out, true)
		return "func{" + strings.Join(out, "; ") + "}"
	case *ast.CompositeLit:
		var es []string
		for _, el := range v.Elts {
			if kv, ok := el.(*ast.KeyValueExpr); ok {
				es = append(es, w.x.src(kv.Key)+": "+w.canon(kv.Value, sc))
			} else {
				es = append(es, w.canon(el, sc))
			}
		}
		return w.x.src(v.Type) + "{" + strings.Join(es, ", ") + "}"
	}
	return w.x.src(e)
}

// ---- statements ----

func c17terminates(b *ast.BlockStmt) bool {
	if b == nil || len(b.List) == 0 {
		return false
	}
	_, ok := b.List[len(b.List)-1].(*ast.ReturnStmt)
	return ok
}

func (w *c17w) emit(out *[]string, guards []string, what string) {
	if len(guards) > 0 {
		gs := make([]string, len(guards))
		for i, g := range guards {
			if strings.Contains(g, " || ") {
				g = "(" + g + ")"
			}
			gs[i] = g
		}
		what = strings.Join(gs, " && ") + " => " + what
	}
	*out = append(*out, what)
}

func (w *c17w) bind(lhs []ast.Expr, rhs []ast.Expr, define bool, guards []string, sc *c17scope, out *[]string) {
	for i, l := range lhs {
		val := ""
		switch {
		case len(rhs) == len(lhs):
			val = w.canon(rhs[i], sc)
		case len(rhs) == 1:
			val = w.canon(rhs[0], sc) + "#" + strconv.Itoa(i)
		}
		id, isIdent := l.(*ast.Ident)
		if isIdent && id.Name == "_" {
			continue
		}
		if isIdent {
			if _, isPkg := w.pkgVarRole[id.Name]; !isPkg || define {
				sc.role[id.Name] = val // a local stands for the value it was last assigned (in source order)
				continue
			}
		}
		w.emit(out, guards, w.canon(l, sc)+" = "+val)
	}
}

func c17hasCall(e ast.Expr) bool {
	found := false
	ast.Inspect(e, func(n ast.Node) bool {
		if _, ok := n.(*ast.FuncLit); ok {
			return false
		}
		if c, ok := n.(*ast.CallExpr); ok {
			if id, ok := c.Fun.(*ast.Ident); !ok || (id.Name != "len" && id.Name != "cap") {
				found = true
			}
		}
		return true
	})
	return found
}

// block renders a statement list; last = nothing follows this list on its path (a bare return is dropped).
func (w *c17w) block(list []ast.Stmt, guards []string, sc *c17scope, out *[]string, last bool) {
	for i, st := range list {
		isLast := last && i == len(list)-1
		switch s := st.(type) {
		case *ast.ExprStmt:
			if c, ok := s.X.(*ast.CallExpr); ok {
				if fd, recv := w.callee(c, sc); fd != nil {
					*out = append(*out, w.inline(fd, recv, c.Args, sc, guards)...)
					continue
				}
			}
			w.emit(out, guards, w.canon(s.X, sc))
		case *ast.AssignStmt:
			// a call whose results only go into locals is still an event (its effects happen here)
			allLocal := true
			for _, l := range s.Lhs {
				if _, ok := l.(*ast.Ident); !ok {
					allLocal = false
				}
			}
			if allLocal && len(s.Rhs) == 1 && c17hasCall(s.Rhs[0]) && s.Tok != token.DEFINE {
				w.emit(out, guards, w.canon(s.Rhs[0], sc))
			}
			w.bind(s.Lhs, s.Rhs, s.Tok == token.DEFINE, guards, sc, out)
		case *ast.DeclStmt:
			if gd, ok := s.Decl.(*ast.GenDecl); ok {
				for _, sp := range gd.Specs {
					if vs, ok := sp.(*ast.ValueSpec); ok {
						var l []ast.Expr
						for _, n := range vs.Names {
							l = append(l, n)
						}
						if len(vs.Values) > 0 {
							w.bind(l, vs.Values, true, guards, sc, out)
						}
					}
				}
			}
		case *ast.DeferStmt:
			if fd, recv := w.callee(s.Call, sc); fd != nil {
				w.emit(out, guards, "defer "+w.ref(strings.Join(w.inline(fd, recv, s.Call.Args, sc, nil), "; ")))
			} else {
				w.emit(out, guards, "defer "+w.canon(s.Call, sc))
			}
		case *ast.ReturnStmt:
			if len(s.Results) == 0 {
				if !isLast {
					w.emit(out, guards, "return")
				}
				continue
			}
			var rs []string
			for _, r := range s.Results {
				rs = append(rs, w.canon(r, sc))
			}
			w.emit(out, guards, "return "+strings.Join(rs, ", "))
		case *ast.BlockStmt:
			w.block(s.List, guards, sc, out, isLast)
		case *ast.IfStmt:
			if s.Init != nil {
				w.block([]ast.Stmt{s.Init}, guards, sc, out, false)
			}
			cond := c17normCond(s.Cond)
			thenB, elseS := s.Body.List, s.Else
			var elseB []ast.Stmt
			consumed := false
			switch e := elseS.(type) {
			case *ast.BlockStmt:
				elseB = e.List
			case *ast.IfStmt:
				elseB = []ast.Stmt{e}
			case nil:
				// `if c { …; return }; rest`  ==  `if c { … } else { rest }`
				if c17terminates(s.Body) && i+1 < len(list) {
					elseB, consumed = list[i+1:], true
				}
			}
			tailLast := isLast || consumed && last
			if elseB != nil && c17negativeForm(cond) {
				cond, thenB, elseB = c17negCond(cond), elseB, thenB
			}
			g := append([]string(nil), guards...)
			for _, c := range c17conjuncts(cond) {
				g = append(g, w.canon(c, sc))
			}
			w.block(thenB, g, sc, out, tailLast)
			if elseB != nil {
				ng := append(append([]string(nil), guards...), w.canon(c17negCond(cond), sc))
				w.block(elseB, ng, sc, out, tailLast)
			}
			if consumed {
				return
			}
		case *ast.RangeStmt:
			xr := w.canon(s.X, sc)
			if id, ok := s.Key.(*ast.Ident); ok && id.Name != "_" {
				sc.role[id.Name] = "key(" + xr + ")"
			}
			if id, ok := s.Value.(*ast.Ident); ok && id.Name != "_" {
				sc.role[id.Name] = "elem(" + xr + ")"
			}
			w.block(s.Body.List, append(append([]string(nil), guards...), "range "+xr), sc, out, false)
		case *ast.ForStmt:
			if s.Init != nil {
				w.block([]ast.Stmt{s.Init}, guards, sc, out, false)
			}
			w.block(s.Body.List, append(append([]string(nil), guards...), "for "+w.canon(s.Cond, sc)), sc, out, false)
		case *ast.BranchStmt:
			w.emit(out, guards, s.Tok.String())
		case *ast.EmptyStmt:
		default:
			w.emit(out, guards, "stmt "+w.x.src(st))
		}
	}
}

// trace of a declared function or method.
func (w *c17w) traceDecl(fd *ast.FuncDecl) []string {
	rn := ""
	if fd.Recv != nil && len(fd.Recv.List) == 1 && len(fd.Recv.List[0].Names) == 1 {
		rn = fd.Recv.List[0].Names[0].Name
	}
	var ps []string
	n := 0
	if fd.Type.Params != nil {
		for _, p := range fd.Type.Params.List {
			for range p.Names {
				ps = append(ps, "p"+strconv.Itoa(n))
				n++
			}
		}
	}
	sc := w.newScope(fd.Type, fd.Body, rn, "recv", ps, nil)
	out := []string{}
	w.block(fd.Body.List, nil, sc, &out, true)
	return out
}

// ---- structured events ----
//
// An event string `g1 && g2 => what` read back into its parts, so that the obligations can be stated as relations
// between events (same guards, before/after, count) with string equality only:
//
//	kind   "defer" | "store" | "return" | "call" | "other"
//	recv   receiver/package part of the callee ("" for a plain function) — for a store: the left-hand side
//	name   method/function name — for a store: ""
//	args   canonical arguments — for a store: the right-hand side; for a return: the results
type c17event struct {
	guards           []string
	kind, recv, name string
	args             []string
}

// c17splitTop splits s at every occurrence of sep that is outside parentheses/brackets/braces and outside quotes.
func c17splitTop(s, sep string) []string {
	var out []string
	depth, start := 0, 0
	inq := false
	for i := 0; i < len(s); i++ {
		c := s[i]
		switch {
		case inq:
			if c == '\\' {
				i++
			} else if c == '"' {
				inq = false
			}
		case c == '"':
			inq = true
		case c == '(' || c == '[' || c == '{':
			depth++
		case c == ')' || c == ']' || c == '}':
			depth--
		case depth == 0 && strings.HasPrefix(s[i:], sep):
			out = append(out, s[start:i])
			start = i + len(sep)
			i += len(sep) - 1
		}
	}
	return append(out, s[start:])
}

func c17parseEvent(ev string) c17event {
	e := c17event{guards: []string{}, args: []string{}}
	what := ev
	if parts := c17splitTop(ev, " => "); len(parts) >= 2 {
		what = strings.Join(parts[1:], " => ")
		for _, g := range c17splitTop(parts[0], " && ") {
			if strings.HasPrefix(g, "(") && strings.HasSuffix(g, ")") && len(c17splitTop(g[1:len(g)-1], "\x00")) == 1 {
				if inner := g[1 : len(g)-1]; len(c17splitTop(inner, " || ")) > 1 {
					g = inner
				}
			}
			e.guards = append(e.guards, g)
		}
	}
	call := func(c string) bool {
		if !strings.HasSuffix(c, ")") {
			return false
		}
		// the opening parenthesis that matches the final one
		depth, open := 0, -1
		inq := false
		for i := 0; i < len(c); i++ {
			ch := c[i]
			switch {
			case inq:
				if ch == '\\' {
					i++
				} else if ch == '"' {
					inq = false
				}
			case ch == '"':
				inq = true
			case ch == '(' || ch == '[' || ch == '{':
				if depth == 0 && ch == '(' {
					open = i
				}
				depth++
			case ch == ')' || ch == ']' || ch == '}':
				depth--
			}
		}
		if open <= 0 || depth != 0 {
			return false
		}
		callee, argstr := c[:open], c[open+1:len(c)-1]
		if ps := c17splitTop(callee, "."); len(ps) > 1 {
			e.recv, e.name = strings.Join(ps[:len(ps)-1], "."), ps[len(ps)-1]
		} else {
			e.name = callee
		}
		if argstr != "" {
			e.args = c17splitTop(argstr, ", ")
		}
		return true
	}
	switch {
	case strings.HasPrefix(what, "defer "):
		e.kind = "defer"
		if !call(strings.TrimPrefix(what, "defer ")) {
			e.name = strings.TrimPrefix(what, "defer ")
		}
	case strings.HasPrefix(what, "return"):
		e.kind = "return"
		if r := strings.TrimSpace(strings.TrimPrefix(what, "return")); r != "" {
			e.args = c17splitTop(r, ", ")
		}
	default:
		if ps := c17splitTop(what, " = "); len(ps) == 2 {
			e.kind, e.recv, e.args = "store", ps[0], []string{ps[1]}
		} else if call(what) {
			e.kind = "call"
		} else {
			e.kind, e.name = "other", what
		}
	}
	return e
}

func (x *X) c17defEvents(name string, evs []string) {
	q := func(vs []string) string {
		qs := make([]string, len(vs))
		for i, v := range vs {
			qs[i] = leanStr(v)
		}
		return "[" + strings.Join(qs, ", ") + "]"
	}
	var rows []string
	for _, ev := range evs {
		e := c17parseEvent(ev)
		rows = append(rows, "("+q(e.guards)+", "+leanStr(e.kind)+", "+leanStr(e.recv)+", "+leanStr(e.name)+", "+q(e.args)+")")
	}
	x.defRaw("def " + name + " : List (List String × String × String × String × List String) := [" + strings.Join(rows, ",\n  ") + "]")
}

var c17handlerTrace []string

// c17statusPredicate: the function in the role of bodyAllowedForStatus — an unexported package-level function with
// one int parameter and one bool result, called from GzipResponseWriter.WriteHeader with that method's parameter as
// its only argument. Returns its name and the file (relative to the repo) that declares it.
func c17statusPredicate(x *X, dir string) (string, string) {
	wh := x.funcDecl(dir, "GzipResponseWriter", "WriteHeader")
	if wh == nil || wh.Body == nil || wh.Type.Params == nil || len(wh.Type.Params.List) != 1 || len(wh.Type.Params.List[0].Names) != 1 {
		return "", ""
	}
	param := wh.Type.Params.List[0].Names[0].Name
	isIdent := func(e ast.Expr, name string) bool {
		id, ok := e.(*ast.Ident)
		return ok && id.Name == name
	}
	found := ""
	ast.Inspect(wh.Body, func(n ast.Node) bool {
		c, ok := n.(*ast.CallExpr)
		if !ok || found != "" || len(c.Args) != 1 || !isIdent(c.Args[0], param) {
			return true
		}
		id, ok := c.Fun.(*ast.Ident)
		if !ok || ast.IsExported(id.Name) {
			return true
		}
		fd := x.anyFuncDecl(dir, id.Name)
		if fd == nil || fd.Recv != nil || fd.Body == nil || fd.Type.Params == nil || len(fd.Type.Params.List) != 1 ||
			len(fd.Type.Params.List[0].Names) != 1 || !isIdent(fd.Type.Params.List[0].Type, "int") ||
			fd.Type.Results == nil || len(fd.Type.Results.List) != 1 || len(fd.Type.Results.List[0].Names) > 1 ||
			!isIdent(fd.Type.Results.List[0].Type, "bool") {
			return true
		}
		found = id.Name
		return true
	})
	if found == "" {
		return "", ""
	}
	for _, f := range x.files(dir) {
		for _, d := range f.Decls {
			if fd, ok := d.(*ast.FuncDecl); ok && fd.Recv == nil && fd.Name.Name == found {
				return found, strings.TrimPrefix(strings.TrimPrefix(x.fset.Position(f.Pos()).Filename, x.repo), "/")
			}
		}
	}
	return "", ""
}

func init() {
	register("C17", func(x *X) error {
		c17handlerTrace = nil
		x.UseNormalizedAST()
		const dir = "proxy/gzip"
		w := &c17w{x: x, dir: dir}
		w.init()
		// the translated function (xlate.go): regenerated from the source on every run, proved equal to the model in
		// Props/C17Pins.lean. The function is found by ROLE, not by name or file: the unexported package-level
		// func(int) bool that GzipResponseWriter.WriteHeader calls with its status parameter, in whatever non-test,
		// non-verif file of the package it lives. When there is none (inlined into the caller, say) a stub with
		// `translated = false` is written: the change detector stops building, the streams decide at the widened budget.
		if name, rel := c17statusPredicate(x, dir); name != "" {
			xlateEmit(x, rel, []xlSpec{
				{"", name, "XBodyAllowed", nil, []string{"p0:Int:0"}, "Bool"},
			})
		} else {
			x.imports = append(x.imports, "Fabio.Xlate.Rt")
			x.opens = append(x.opens, "Fabio.Xlate")
			sort.Strings(x.imports)
			x.defRaw("namespace XBodyAllowed\n\n/-- NOT TRANSLATED (WriteHeader calls no package function func(int) bool with its status parameter any more): interface stub -/\nstructure St where\n  p0 : Int := 0\n\nabbrev Rho := Bool\n\ndef run (_ : St) : V (Rho × St) := .panic \"not translated\"\n\ndef translated : Bool := false\n\nend XBodyAllowed")
			x.defStrList("xlateNotes", []string{"no function in the role of bodyAllowedForStatus"})
		}
		if fd := x.funcDecl(dir, "", "NewGzipHandler"); fd != nil {
			var lit *ast.FuncLit
			ast.Inspect(fd.Body, func(n ast.Node) bool {
				if l, ok := n.(*ast.FuncLit); ok && lit == nil {
					lit = l
				}
				return lit == nil
			})
			if lit == nil {
				x.fail("NewGzipHandler: handler closure not found")
			} else {
				outer := w.newScope(fd.Type, fd.Body, "", "", []string{"p0", "p1"}, nil)
				var ps []string
				for i := 0; i < lit.Type.Params.NumFields(); i++ {
					ps = append(ps, "c"+strconv.Itoa(i))
				}
				inner := w.newScope(lit.Type, lit.Body, "", "", ps, outer)
				out := []string{}
				w.block(lit.Body.List, nil, inner, &out, true)
				x.defStrList("handlerTrace", out)
				x.c17defEvents("handlerEvents", out)
				c17handlerTrace = out
			}
		}
		entries := map[string][]string{}
		for _, m := range []string{"WriteHeader", "Write", "Close"} {
			if fd := x.funcDecl(dir, "GzipResponseWriter", m); fd != nil {
				entries[m] = w.traceDecl(fd)
				x.defStrList(strings.ToLower(m[:1])+m[1:]+"Trace", entries[m])
				x.c17defEvents(strings.ToLower(m[:1])+m[1:]+"Events", entries[m])
			}
		}

		x.defStrList("inlinedDefs", w.defs)

		// every string literal the traces mention (header names, encodings, separators)
		lits := map[string]bool{}
		for _, f := range x.files(dir) {
			for _, d := range f.Decls {
				fd, ok := d.(*ast.FuncDecl)
				if !ok || fd.Body == nil {
					continue
				}
				ast.Inspect(fd.Body, func(n ast.Node) bool {
					if b, ok := n.(*ast.BasicLit); ok && b.Kind == token.STRING {
						if s, err := strconv.Unquote(b.Value); err == nil {
							lits[s] = true
						}
					}
					return true
				})
			}
		}
		for _, f := range x.files(dir) { // package-level variable initialisers (the Accept blacklist)
			for _, d := range f.Decls {
				if gd, ok := d.(*ast.GenDecl); ok && gd.Tok == token.VAR {
					ast.Inspect(gd, func(n ast.Node) bool {
						if b, ok := n.(*ast.BasicLit); ok && b.Kind == token.STRING {
							if s, err := strconv.Unquote(b.Value); err == nil {
								lits[s] = true
							}
						}
						return true
					})
				}
			}
		}
		var ls []string
		for l := range lits {
			ls = append(ls, l)
		}
		x.defSortedStrList("stringLiterals", ls)

		// the method set of *GzipResponseWriter that matters for interface satisfaction: exported declared
		// methods, embedded fields, and the types of the named fields (names are free)
		var methods, fieldTypes, embedded []string
		for _, f := range x.files(dir) {
			for _, d := range f.Decls {
				switch v := d.(type) {
				case *ast.FuncDecl:
					if v.Recv == nil || len(v.Recv.List) != 1 || !ast.IsExported(v.Name.Name) {
						continue
					}
					t := v.Recv.List[0].Type
					if st, ok := t.(*ast.StarExpr); ok {
						t = st.X
					}
					if id, ok := t.(*ast.Ident); ok && id.Name == "GzipResponseWriter" {
						methods = append(methods, v.Name.Name)
					}
				case *ast.GenDecl:
					for _, sp := range v.Specs {
						ts, ok := sp.(*ast.TypeSpec)
						if !ok || ts.Name.Name != "GzipResponseWriter" {
							continue
						}
						st, ok := ts.Type.(*ast.StructType)
						if !ok {
							x.fail("GzipResponseWriter is not a struct")
							continue
						}
						for _, fl := range st.Fields.List {
							if len(fl.Names) == 0 {
								embedded = append(embedded, x.src(fl.Type))
							}
							for range fl.Names {
								fieldTypes = append(fieldTypes, x.src(fl.Type))
							}
						}
					}
				}
			}
		}
		x.defSortedStrList("writerMethods", methods)
		x.defSortedStrList("writerFieldTypes", fieldTypes)
		x.defSortedStrList("writerEmbedded", embedded)

		// which exported entry points reach Pool.Get / Pool.Put, and which store into the writer's fields
		// (x.WalkInlined: through unexported helpers)
		poolVar := ""
		for name, r := range w.pkgVarRole {
			if r == "V[sync.Pool]" {
				poolVar = name
			}
		}
		if poolVar == "" {
			x.fail("package-level sync.Pool not found")
		}
		var getIn, putIn, stores []string
		for _, f := range x.files(dir) {
			for _, d := range f.Decls {
				fd, ok := d.(*ast.FuncDecl)
				if !ok || fd.Body == nil || !ast.IsExported(fd.Name.Name) {
					continue
				}
				x.WalkInlined(dir, fd, func(n ast.Node) bool {
					switch v := n.(type) {
					case *ast.CallExpr:
						if se, ok := v.Fun.(*ast.SelectorExpr); ok {
							if id, ok := se.X.(*ast.Ident); ok && id.Name == poolVar {
								switch se.Sel.Name {
								case "Get":
									getIn = append(getIn, fd.Name.Name)
								case "Put":
									putIn = append(putIn, fd.Name.Name)
								}
							}
						}
					case *ast.AssignStmt:
						for _, l := range v.Lhs {
							if se, ok := l.(*ast.SelectorExpr); ok {
								if r, ok := w.fieldRole[se.Sel.Name]; ok {
									stores = append(stores, fd.Name.Name+": "+r)
								}
							}
						}
					}
					return true
				})
			}
		}
		sort.Strings(getIn)
		sort.Strings(putIn)
		x.defStrList("poolGetIn", getIn)
		x.defStrList("poolPutIn", putIn)
		x.defStrList("fieldStores", stores)

		// proxy/http_proxy.go: where gzip.NewGzipHandler is called (through helpers), under which guards, with
		// which expression
		pw := &c17w{x: x, dir: "proxy"}
		pw.init()
		var wraps []string
		if fd := x.funcDecl("proxy", "HTTPProxy", "ServeHTTP"); fd != nil {
			x.WalkInlined("proxy", fd, func(n ast.Node) bool {
				c, ok := n.(*ast.CallExpr)
				if !ok || x.src(c.Fun) != "gzip.NewGzipHandler" || len(c.Args) != 2 {
					return true
				}
				// the enclosing function and the conditions the call sits under
				for _, f := range x.files("proxy") {
					for _, d := range f.Decls {
						en, ok := d.(*ast.FuncDecl)
						if !ok || en.Body == nil || c.Pos() < en.Body.Pos() || c.End() > en.Body.End() {
							continue
						}
						rn := ""
						if en.Recv != nil && len(en.Recv.List) == 1 && len(en.Recv.List[0].Names) == 1 {
							rn = en.Recv.List[0].Names[0].Name
						}
						sc := pw.newScope(en.Type, en.Body, rn, "recv", nil, nil)
						var gs []string
						ast.Inspect(en.Body, func(m ast.Node) bool {
							is, ok := m.(*ast.IfStmt)
							if !ok {
								return true
							}
							if c.Pos() >= is.Body.Pos() && c.End() <= is.Body.End() {
								for _, cj := range c17conjuncts(c17normCond(is.Cond)) {
									gs = append(gs, pw.canon(cj, sc))
								}
							} else if is.Else != nil && c.Pos() >= is.Else.Pos() && c.End() <= is.Else.End() {
								gs = append(gs, pw.canon(c17negCond(c17normCond(is.Cond)), sc))
							}
							return true
						})
						wraps = append(wraps, strings.Join(gs, " && ")+" => gzip.NewGzipHandler(_, "+pw.canon(c.Args[1], sc)+")")
					}
				}
				return true
			})
		}
		x.defStrList("proxyWrap", wraps)

		// ---- what no stream can establish by running the code ----

		// package state: the types of ALL package-level variables, every store to one of them from a function body,
		// and every method called on one (the responses of one process are independent of each other only if the
		// pool is the only thing they share)
		pkgVarNames := map[string]bool{}
		var pkgVarTypes []string
		for _, f := range x.files(dir) {
			for _, d := range f.Decls {
				gd, ok := d.(*ast.GenDecl)
				if !ok || gd.Tok != token.VAR {
					continue
				}
				for _, sp := range gd.Specs {
					vs, ok := sp.(*ast.ValueSpec)
					if !ok {
						continue
					}
					for i, nm := range vs.Names {
						if nm.Name == "_" {
							continue
						}
						pkgVarNames[nm.Name] = true
						t := "?"
						switch {
						case vs.Type != nil:
							t = x.src(vs.Type)
						case i < len(vs.Values):
							switch v := vs.Values[i].(type) {
							case *ast.CompositeLit:
								if v.Type != nil {
									t = x.src(v.Type)
								}
							case *ast.UnaryExpr:
								if cl, ok := v.X.(*ast.CompositeLit); ok && cl.Type != nil {
									t = "&" + x.src(cl.Type)
								}
							case *ast.CallExpr:
								t = "call " + x.src(v.Fun)
							case *ast.BasicLit:
								t = strings.ToLower(v.Kind.String())
							}
						}
						pkgVarTypes = append(pkgVarTypes, t)
					}
				}
			}
		}
		x.defSortedStrList("pkgVarTypes", pkgVarTypes)
		rootIdent := func(e ast.Expr) string {
			for {
				switch v := e.(type) {
				case *ast.Ident:
					return v.Name
				case *ast.SelectorExpr:
					e = v.X
				case *ast.IndexExpr:
					e = v.X
				case *ast.StarExpr:
					e = v.X
				case *ast.ParenExpr:
					e = v.X
				default:
					return ""
				}
			}
		}
		var pkgStores, pkgCalls []string
		for _, f := range x.files(dir) {
			for _, d := range f.Decls {
				fd, ok := d.(*ast.FuncDecl)
				if !ok || fd.Body == nil {
					continue
				}
				// names shadowed by parameters/locals are not tracked: the package has no such shadowing today and a
				// shadowed name only makes this list longer (an alarm), never shorter
				ast.Inspect(fd.Body, func(n ast.Node) bool {
					switch v := n.(type) {
					case *ast.AssignStmt:
						if v.Tok == token.DEFINE {
							return true
						}
						for _, l := range v.Lhs {
							if r := rootIdent(l); pkgVarNames[r] {
								pkgStores = append(pkgStores, fd.Name.Name)
							}
						}
					case *ast.IncDecStmt:
						if r := rootIdent(v.X); pkgVarNames[r] {
							pkgStores = append(pkgStores, fd.Name.Name)
						}
					case *ast.UnaryExpr:
						if v.Op == token.AND { // address taken: could be stored through
							if r := rootIdent(v.X); pkgVarNames[r] {
								pkgStores = append(pkgStores, fd.Name.Name+" (address)")
							}
						}
					case *ast.CallExpr:
						if se, ok := v.Fun.(*ast.SelectorExpr); ok {
							if id, ok := se.X.(*ast.Ident); ok && pkgVarNames[id.Name] {
								role := w.pkgVarRole[id.Name]
								if role == "" || !strings.HasPrefix(role, "V[") {
									role = "V"
								}
								pkgCalls = append(pkgCalls, role+"."+se.Sel.Name)
							}
						}
					}
					return true
				})
			}
		}
		sort.Strings(pkgStores)
		x.defStrList("pkgVarStores", pkgStores)
		x.defSortedStrList("pkgVarCalls", pkgCalls)

		// the handler closure: stores to variables of the enclosing NewGzipHandler (state shared by all requests of
		// the handler value), and every way the request parameter is used (through inlined helpers): selector chains
		// up to a call; a bare `c1` = handed on
		var outerStores []string
		if fd := x.funcDecl(dir, "", "NewGzipHandler"); fd != nil {
			outer := map[string]bool{}
			if fd.Type.Params != nil {
				for _, p := range fd.Type.Params.List {
					for _, n := range p.Names {
						outer[n.Name] = true
					}
				}
			}
			var lit *ast.FuncLit
			ast.Inspect(fd.Body, func(n ast.Node) bool {
				switch v := n.(type) {
				case *ast.FuncLit:
					if lit == nil {
						lit = v
					}
					return false
				case *ast.AssignStmt:
					if v.Tok == token.DEFINE {
						for _, l := range v.Lhs {
							if id, ok := l.(*ast.Ident); ok {
								outer[id.Name] = true
							}
						}
					}
				case *ast.ValueSpec:
					for _, id := range v.Names {
						outer[id.Name] = true
					}
				}
				return true
			})
			if lit != nil {
				ast.Inspect(lit.Body, func(n ast.Node) bool {
					switch v := n.(type) {
					case *ast.AssignStmt:
						if v.Tok != token.DEFINE {
							for _, l := range v.Lhs {
								if r := rootIdent(l); outer[r] {
									outerStores = append(outerStores, x.src(l))
								}
							}
						}
					case *ast.IncDecStmt:
						if r := rootIdent(v.X); outer[r] {
							outerStores = append(outerStores, x.src(v.X))
						}
					}
					return true
				})
			}
		}
		x.defStrList("handlerSharedStores", outerStores)
		reqUse := regexp.MustCompile(`(\*?)\bc1((?:\.[A-Za-z_][A-Za-z0-9_]*)*)(\(?)(\s=[^=])?`)
		uses := map[string]bool{}
		var reqStores []string
		var handlerTr []string
		scan := func(ev string) {
			for _, m := range reqUse.FindAllStringSubmatch(ev, -1) {
				u := m[1] + "c1" + m[2] + m[3]
				uses[u] = true
				if m[4] != "" {
					reqStores = append(reqStores, u)
				}
			}
		}
		handlerTr = c17handlerTrace
		for _, ev := range handlerTr {
			scan(ev)
		}
		for _, d := range w.defs {
			scan(d)
		}
		var us []string
		for u := range uses {
			us = append(us, u)
		}
		x.defSortedStrList("requestUses", us)
		x.defStrList("requestStores", reqStores)

		// main.go: the proxy is given the loaded proxy configuration and fabio's own transport (no harness runs main)
		var mainCfg, mainTr []string
		for _, f := range x.files("") {
			for _, d := range f.Decls {
				fd, ok := d.(*ast.FuncDecl)
				if !ok || fd.Body == nil {
					continue
				}
				ptype := map[string]string{}
				if fd.Type.Params != nil {
					for _, p := range fd.Type.Params.List {
						for _, n := range p.Names {
							ptype[n.Name] = x.src(p.Type)
						}
					}
				}
				ast.Inspect(fd.Body, func(n ast.Node) bool {
					cl, ok := n.(*ast.CompositeLit)
					if !ok || cl.Type == nil || x.src(cl.Type) != "proxy.HTTPProxy" {
						return true
					}
					for _, el := range cl.Elts {
						kv, ok := el.(*ast.KeyValueExpr)
						if !ok {
							continue
						}
						switch x.src(kv.Key) {
						case "Config":
							v := x.src(kv.Value)
							if se, ok := kv.Value.(*ast.SelectorExpr); ok {
								if id, ok := se.X.(*ast.Ident); ok && ptype[id.Name] != "" {
									v = "param[" + ptype[id.Name] + "]." + se.Sel.Name
								}
							}
							mainCfg = append(mainCfg, v)
						case "Transport":
							mainTr = append(mainTr, x.src(kv.Value))
						}
					}
					return true
				})
			}
		}
		x.defStrList("mainProxyConfig", mainCfg)
		x.defStrList("mainProxyTransport", mainTr)

		// the documented expression (the harness uses it as the main pattern)
		doc := ""
		if b, err := os.ReadFile(filepath.Join(x.repo, "docs/content/ref/proxy.gzip.contenttype.md")); err == nil {
			for _, ln := range strings.Split(string(b), "\n") {
				t := strings.TrimSpace(ln)
				if strings.HasPrefix(t, "proxy.gzip.contenttype = ^") {
					doc = strings.TrimPrefix(t, "proxy.gzip.contenttype = ")
				}
			}
		}
		if doc == "" {
			x.fail("documented proxy.gzip.contenttype expression not found")
		}
		x.defStr("docPattern", doc)
		if e := x.valueSpec("config", "defaultValues"); e != nil {
			has := false
			ast.Inspect(e, func(n ast.Node) bool {
				if kv, ok := n.(*ast.KeyValueExpr); ok && x.src(kv.Key) == "GZIPContentTypesValue" {
					has = true
				}
				return true
			})
			x.defBool("defaultSetsGzipPattern", has)
		}
		return nil
	})
}
