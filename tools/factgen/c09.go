package main

import (
	"go/ast"
	"go/constant"
	"go/token"
	"go/types"
	"path/filepath"
)

// C09: constants and call shapes the tunnel model depends on.

// c09Const evaluates an integer constant expression made of literals (e.g. 32*1024).
func c09Const(x *X, e ast.Expr) (uint64, bool) {
	tv, err := types.Eval(token.NewFileSet(), nil, token.NoPos, x.src(e))
	if err != nil || tv.Value == nil {
		return 0, false
	}
	return constant.Uint64Val(constant.ToInt(tv.Value))
}

// c09Flatten returns the operands of a left-nested a + b + c chain, rendered.
func c09Flatten(x *X, e ast.Expr) []string {
	if b, ok := e.(*ast.BinaryExpr); ok && b.Op == token.ADD {
		return append(c09Flatten(x, b.X), c09Flatten(x, b.Y)...)
	}
	if s, ok := x.strLit(e); ok {
		return []string{"lit:" + s}
	}
	return []string{x.src(e)}
}

// c09Tunnel extracts, for one ServeTCP/handler body: the capacity of errc, the number of receives from
// it, the arguments of the two `go cp(dst, src, ...)` statements, and whether WriteProxyHeader is called.
func c09Tunnel(x *X, name string, body ast.Node) {
	var caps []uint64
	recvs := 0
	var cps []string
	ast.Inspect(body, func(n ast.Node) bool {
		switch v := n.(type) {
		case *ast.AssignStmt:
			if len(v.Lhs) == 1 && len(v.Rhs) == 1 && x.src(v.Lhs[0]) == "errc" {
				if c, ok := v.Rhs[0].(*ast.CallExpr); ok && x.src(c.Fun) == "make" && len(c.Args) == 2 {
					if k, ok := c09Const(x, c.Args[1]); ok {
						caps = append(caps, k)
					}
				}
			}
		case *ast.UnaryExpr:
			if v.Op == token.ARROW && x.src(v.X) == "errc" {
				recvs++
			}
		case *ast.GoStmt:
			if x.src(v.Call.Fun) == "cp" && len(v.Call.Args) >= 2 {
				cps = append(cps, x.src(v.Call.Args[0])+"<-"+x.src(v.Call.Args[1]))
			}
		}
		return true
	})
	if len(caps) != 1 {
		x.fail("%s: expected exactly one `errc := make(chan error, N)`", name)
		return
	}
	x.defNat(name+"ErrcCap", caps[0])
	x.defNat(name+"ErrcReceives", uint64(recvs))
	x.defStrList(name+"Copies", cps)
	x.defBool(name+"WritesProxyHeader", len(x.calls(body, "WriteProxyHeader")) > 0)
}

// c09SockOpts lists, in source order, every socket-option / deadline / half-close call in the given files
// of a package: "<file> <func>: <call>(<args>)" plus, when the call sits under an `if`, " if <cond>" of the
// innermost one. A tunnel handler that starts to set deadlines, linger, buffers or half-closes changes the
// transparency model and has to show up here.
var c09SockOptNames = map[string]bool{"SetLinger": true, "SetDeadline": true, "SetReadDeadline": true,
	"SetWriteDeadline": true, "SetNoDelay": true, "SetKeepAlive": true, "SetKeepAlivePeriod": true,
	"SetKeepAliveConfig": true, "CloseWrite": true, "CloseRead": true, "SetReadBuffer": true, "SetWriteBuffer": true}

func c09SockOpts(x *X, dir string, files map[string]bool) []string {
	var out []string
	for _, f := range x.files(dir) {
		name := filepath.Base(x.fset.Position(f.Pos()).Filename)
		if !files[name] {
			continue
		}
		for _, d := range f.Decls {
			fd, ok := d.(*ast.FuncDecl)
			if !ok || fd.Body == nil {
				continue
			}
			fn := fd.Name.Name
			if fd.Recv != nil && len(fd.Recv.List) == 1 {
				fn = x.src(fd.Recv.List[0].Type) + "." + fn
			}
			var ifs []*ast.IfStmt
			var walk func(n ast.Node)
			walk = func(n ast.Node) {
				ast.Inspect(n, func(m ast.Node) bool {
					switch v := m.(type) {
					case *ast.IfStmt:
						if v.Init != nil {
							walk(v.Init)
						}
						walk(v.Cond)
						ifs = append(ifs, v)
						walk(v.Body)
						ifs = ifs[:len(ifs)-1]
						if v.Else != nil {
							walk(v.Else)
						}
						return false
					case *ast.CallExpr:
						if sel, ok := v.Fun.(*ast.SelectorExpr); ok && c09SockOptNames[sel.Sel.Name] {
							e := name + " " + fn + ": " + x.src(v)
							if len(ifs) > 0 {
								e += " if " + x.src(ifs[len(ifs)-1].Cond)
							}
							out = append(out, e)
						}
					}
					return true
				})
			}
			walk(fd.Body)
		}
	}
	return out
}

func init() {
	register("C09", func(x *X) error {
		// socket options, deadlines and half-closes in the tunnel code paths
		x.defStrList("tcpSockOpts", c09SockOpts(x, "proxy/tcp", map[string]bool{"tcp_proxy.go": true, "sni_proxy.go": true,
			"tcp_dynamic_proxy.go": true, "proxy_proto.go": true, "copy_buffer.go": true}))
		x.defStrList("wsSockOpts", c09SockOpts(x, "proxy", map[string]bool{"ws_handler.go": true}))
		x.defStrList("serverSockOpts", c09SockOpts(x, "proxy/tcp", map[string]bool{"server.go": true}))

		// copyBuffer: buffer size, and the loop's shape (Read, Write, the three exits)
		if fd := x.funcDecl("proxy/tcp", "", "copyBuffer"); fd != nil {
			found := false
			for _, c := range x.calls(fd, "make") {
				if len(c.Args) == 2 && x.src(c.Args[0]) == "[]byte" {
					if k, ok := c09Const(x, c.Args[1]); ok {
						x.defNat("copyBufBytes", k)
						found = true
					}
				}
			}
			if !found {
				x.fail("copyBuffer: buffer allocation not found")
			}
			x.defNat("copyReads", uint64(len(x.calls(fd, "src.Read"))))
			x.defNat("copyWrites", uint64(len(x.calls(fd, "dst.Write"))))
			var conds []string
			ast.Inspect(fd, func(n ast.Node) bool {
				if s, ok := n.(*ast.IfStmt); ok {
					conds = append(conds, x.src(s.Cond))
				}
				return true
			})
			x.defStrList("copyConds", conds)
		}

		// SNIProxy.ServeTCP: Peek(9), data[5:], bufio.NewReader(in), order of the calls, copy source
		if fd := x.funcDecl("proxy/tcp", "SNIProxy", "ServeTCP"); fd != nil {
			connParam := ""
			if fd.Type.Params != nil && len(fd.Type.Params.List) == 1 && len(fd.Type.Params.List[0].Names) == 1 {
				connParam = fd.Type.Params.List[0].Names[0].Name
			}
			x.defStr("sniConnParam", connParam)
			bufVar, bufArgs := "", ""
			ast.Inspect(fd, func(n ast.Node) bool {
				if a, ok := n.(*ast.AssignStmt); ok && len(a.Lhs) == 1 && len(a.Rhs) == 1 {
					if c, ok := a.Rhs[0].(*ast.CallExpr); ok && (x.src(c.Fun) == "bufio.NewReader" || x.src(c.Fun) == "bufio.NewReaderSize") {
						bufVar = x.src(a.Lhs[0])
						bufArgs = x.src(c.Fun) + "("
						for i, arg := range c.Args {
							if i > 0 {
								bufArgs += ", "
							}
							bufArgs += x.src(arg)
						}
						bufArgs += ")"
					}
				}
				return true
			})
			x.defStr("sniBufReaderVar", bufVar)
			x.defStr("sniBufReaderCtor", bufArgs)
			if cs := x.calls(fd, bufVar+".Peek"); len(cs) == 1 && len(cs[0].Args) == 1 {
				if k, ok := c09Const(x, cs[0].Args[0]); ok {
					x.defNat("sniPeek", k)
				} else {
					x.fail("SNIProxy.ServeTCP: Peek argument is not a constant")
				}
			} else {
				x.fail("SNIProxy.ServeTCP: expected exactly one %s.Peek(n)", bufVar)
			}
			if cs := x.calls(fd, "readServerName"); len(cs) == 1 && len(cs[0].Args) == 1 {
				x.defStr("sniServerNameArg", x.src(cs[0].Args[0]))
			} else {
				x.fail("SNIProxy.ServeTCP: readServerName call not found")
			}
			if cs := x.calls(fd, "io.ReadFull"); len(cs) == 1 && len(cs[0].Args) == 2 {
				x.defStr("sniReadFullArgs", x.src(cs[0].Args[0])+", "+x.src(cs[0].Args[1]))
			} else {
				x.fail("SNIProxy.ServeTCP: io.ReadFull call not found")
			}
			// source order of the interesting calls
			interesting := map[string]bool{bufVar + ".Peek": true, "clientHelloBufferSize": true, "io.ReadFull": true,
				"readServerName": true, "p.Lookup": true, "net.DialTimeout": true, "WriteProxyHeader": true, "out.Write": true}
			var order []string
			ast.Inspect(fd.Body, func(n ast.Node) bool {
				switch v := n.(type) {
				case *ast.CallExpr:
					f := x.src(v.Fun)
					if interesting[f] {
						if f == "out.Write" && len(v.Args) == 1 {
							f += "(" + x.src(v.Args[0]) + ")"
						}
						order = append(order, f)
					}
				case *ast.GoStmt:
					if x.src(v.Call.Fun) == "cp" && len(v.Call.Args) >= 2 {
						order = append(order, "go cp("+x.src(v.Call.Args[0])+", "+x.src(v.Call.Args[1])+")")
					}
				}
				return true
			})
			x.defStrList("sniCallOrder", order)
			c09Tunnel(x, "sni", fd.Body)
		}
		if fd := x.funcDecl("proxy/tcp", "Proxy", "ServeTCP"); fd != nil {
			c09Tunnel(x, "tcp", fd.Body)
			var order []string
			ast.Inspect(fd.Body, func(n ast.Node) bool {
				switch v := n.(type) {
				case *ast.CallExpr:
					if f := x.src(v.Fun); f == "net.DialTimeout" || f == "WriteProxyHeader" {
						order = append(order, f)
					}
				case *ast.GoStmt:
					if x.src(v.Call.Fun) == "cp" && len(v.Call.Args) >= 2 {
						order = append(order, "go cp("+x.src(v.Call.Args[0])+", "+x.src(v.Call.Args[1])+")")
					}
				}
				return true
			})
			x.defStrList("tcpCallOrder", order)
		}
		if fd := x.funcDecl("proxy/tcp", "DynamicProxy", "ServeTCP"); fd != nil {
			c09Tunnel(x, "dyn", fd.Body)
		}
		if fd := x.funcDecl("proxy", "", "newWSHandler"); fd != nil {
			c09Tunnel(x, "ws", fd.Body)
			x.defNat("wsIoCopies", uint64(len(x.calls(fd, "io.Copy"))))
		}
		// the cp closure of the tcp proxies posts copyBuffer's result to errc
		for _, p := range []string{"Proxy", "SNIProxy", "DynamicProxy"} {
			if fd := x.funcDecl("proxy/tcp", p, "ServeTCP"); fd != nil {
				if len(x.calls(fd, "copyBuffer")) != 1 {
					x.fail("%s.ServeTCP: expected exactly one copyBuffer call (in the cp closure)", p)
				}
			}
		}

		// WriteProxyHeader: the concatenation and the family test
		if fd := x.funcDecl("proxy/tcp", "", "WriteProxyHeader"); fd != nil {
			var parts []string
			fam := ""
			ast.Inspect(fd, func(n ast.Node) bool {
				switch v := n.(type) {
				case *ast.AssignStmt:
					if len(v.Lhs) == 1 && x.src(v.Lhs[0]) == "header" && len(v.Rhs) == 1 {
						parts = c09Flatten(x, v.Rhs[0])
					}
				case *ast.IfStmt:
					if fam == "" {
						fam = x.src(v.Cond) + " ? " + x.src(v.Body) + " : " + x.src(v.Else)
					}
				}
				return true
			})
			if parts == nil {
				x.fail("WriteProxyHeader: `header := ...` not found")
			}
			x.defStrList("pxyHeaderParts", parts)
			x.defStr("pxyFamily", fam)
			var splits []string
			for _, c := range x.calls(fd, "net.SplitHostPort") {
				if len(c.Args) == 1 {
					splits = append(splits, x.src(c.Args[0]))
				}
			}
			x.defStrList("pxySplitArgs", splits)
		}
		return nil
	})
}
