package main

import (
	"go/ast"
	"go/constant"
	"go/token"
	"go/types"
	"sort"
	"strconv"
	"strings"
)

// C09: constants and call shapes the tunnel model depends on.
//
// The facts are EVENTS and ROLES, not source text (see design/C09.md, "Behaviour-preserving refactorings"):
//   - the AST is normalised first (package constants inlined, literal concatenations folded, switch -> if chain);
//   - a handler is walked in source order with calls into same-package functions and into local closures
//     FOLLOWED, parameters bound to the roles of the arguments, so extracting/inlining a helper or a closure
//     changes nothing;
//   - variables are identified by role: `client` (the handler's connection parameter / the result of Hijack),
//     `upstream` (assigned from the dial call), `bufreader` (assigned from bufio.NewReader*), `hello` (the buffer
//     handed to io.ReadFull), `header` (the result of Peek), `errc` (the error channel), `hsbuf` (the buffer of
//     the websocket handshake read); in copyBuffer: dst, src, counter (parameters by position), buf, nr, er, nw,
//     ew, result;
//   - what is pinned: the ordered list of events (peek, size, readfull, parse, lookup, dial, proxyheader, write,
//     copy dst<-src, recv, socket-option calls), channel capacity, the number of receives, constants.
// Names that are still looked up by spelling: exported API (ServeTCP, WriteProxyHeader, Serve, ServeHTTP, Lookup),
// `copyBuffer` (referenced by the hook /repo/proxy/tcp/verif_c09.go: renaming it breaks the harness build anyway)
// and `clientHelloBufferSize` / `readServerName` (referenced by C10's hook verif_c10.go, same remark).

// c09Const evaluates an integer constant expression made of literals (e.g. 32*1024).
func c09Const(x *X, e ast.Expr) (uint64, bool) {
	tv, err := types.Eval(token.NewFileSet(), nil, token.NoPos, x.src(e))
	if err != nil || tv.Value == nil {
		return 0, false
	}
	return constant.Uint64Val(constant.ToInt(tv.Value))
}

var c09SockOptNames = map[string]bool{"SetLinger": true, "SetDeadline": true, "SetReadDeadline": true,
	"SetWriteDeadline": true, "SetNoDelay": true, "SetKeepAlive": true, "SetKeepAlivePeriod": true,
	"SetKeepAliveConfig": true, "CloseWrite": true, "CloseRead": true, "SetReadBuffer": true, "SetWriteBuffer": true}

type c09env map[string]string

func (e c09env) with(k, v string) c09env {
	n := c09env{}
	for a, b := range e {
		n[a] = b
	}
	n[k] = v
	return n
}

// c09walker walks a handler in source order, following same-package calls and local closures.
type c09walker struct {
	x        *X
	dir      string
	events   []string
	caps     []uint64
	recvs    int
	closures map[string]*ast.FuncLit
	bufsize  map[string]uint64
	stack    map[string]bool
	inGo     int
	goRets   map[ast.Node]bool // return statements directly in the body of a function literal started with `go`
	lastRet  []string          // roles of the results of the package function followed last (by position)
}

func (w *c09walker) goPre() string {
	if w.inGo > 0 {
		return "go "
	}
	return ""
}

func (w *c09walker) render(e ast.Expr, env c09env) string {
	if se, ok := e.(*ast.SliceExpr); ok && se.Low != nil {
		if bl, ok := se.Low.(*ast.BasicLit); ok && bl.Value == "0" { // buf[0:n] == buf[:n]
			c := *se
			c.Low = nil
			return w.x.RenameLocals(&c, env)
		}
	}
	return w.x.RenameLocals(e, env)
}

// argClass classifies a deadline/option argument: now+<duration>, zero, or the rendered expression.
func (w *c09walker) argClass(c *ast.CallExpr, env c09env) string {
	var out []string
	for _, a := range c.Args {
		s := w.x.src(a)
		switch {
		case strings.HasPrefix(s, "time.Now().Add("):
			out = append(out, "now+d")
		case s == "time.Time{}":
			out = append(out, "zero")
		default:
			out = append(out, w.render(a, env))
		}
	}
	return strings.Join(out, ",")
}

func c09Callee(c *ast.CallExpr) (recv ast.Expr, name string) {
	switch f := c.Fun.(type) {
	case *ast.Ident:
		return nil, f.Name
	case *ast.SelectorExpr:
		return f.X, f.Sel.Name
	}
	return nil, ""
}

func (w *c09walker) role(e ast.Expr, env c09env) string {
	if id, ok := e.(*ast.Ident); ok {
		if r, ok := env[id.Name]; ok {
			return r
		}
	}
	return "other"
}

// bindParams: the callee's environment = base + its parameters bound to the roles the arguments have in env.
func (w *c09walker) bindParams(ft *ast.FuncType, args []ast.Expr, env, base c09env) c09env {
	n := c09env{}
	for k, v := range base {
		n[k] = v
	}
	i := 0
	if ft.Params != nil {
		for _, p := range ft.Params.List {
			for _, nm := range p.Names {
				if i < len(args) {
					delete(n, nm.Name)
					if r := w.role(args[i], env); r != "other" {
						n[nm.Name] = r
					}
				}
				i++
			}
		}
	}
	return n
}

func (w *c09walker) walk(node ast.Node, env c09env, depth int) {
	if node == nil || depth > 5 {
		return
	}
	ast.Inspect(node, func(n ast.Node) bool {
		switch v := n.(type) {
		case *ast.AssignStmt:
			if len(v.Rhs) == 1 {
				lhs0 := ""
				if id, ok := v.Lhs[0].(*ast.Ident); ok {
					lhs0 = id.Name
				}
				switch r := v.Rhs[0].(type) {
				case *ast.TypeAssertExpr:
					// `cw, ok := out.(interface{ CloseWrite() error })`: the same connection under another type
					if rr := w.role(r.X, env); rr != "other" && lhs0 != "" {
						env[lhs0] = rr
						return false
					}
				case *ast.FuncLit:
					if lhs0 != "" { // a local closure: walked where it is called / started
						w.closures[lhs0] = r
						return false
					}
				case *ast.CallExpr:
					recv, name := c09Callee(r)
					fsrc := w.x.src(r.Fun)
					switch {
					case fsrc == "net.DialTimeout" || fsrc == "net.Dial" || (recv == nil && env[name] == "dialfn"):
						w.events = append(w.events, "dial")
						env[lhs0] = "upstream"
						return false
					case fsrc == "bufio.NewReader" || fsrc == "bufio.NewReaderSize":
						ev := "bufreader(" + w.role(r.Args[0], env)
						if len(r.Args) > 1 {
							ev += "," + w.x.src(r.Args[1])
						}
						w.events = append(w.events, ev+")")
						env[lhs0] = "bufreader"
						return false
					case fsrc == "make" && len(r.Args) == 2 && strings.HasPrefix(w.x.src(r.Args[0]), "chan "):
						if k, ok := c09Const(w.x, r.Args[1]); ok {
							w.caps = append(w.caps, k)
						}
						env[lhs0] = "errc"
						return false
					case fsrc == "make" && len(r.Args) >= 2 && w.x.src(r.Args[0]) == "[]byte":
						if k, ok := c09Const(w.x, r.Args[1]); ok {
							w.bufsize[lhs0] = k
						}
						return false
					case name == "Hijack":
						w.events = append(w.events, "hijack")
						env[lhs0] = "client"
						return false
					case name == "Peek" && recv != nil && w.role(recv, env) == "bufreader":
						k, _ := c09Const(w.x, r.Args[0])
						w.events = append(w.events, "peek("+strconv.FormatUint(k, 10)+")")
						env[lhs0] = "header"
						return false
					default:
						// an extracted stage: `rd, data, err := readClientHello(in)` — the helper is followed and the
						// roles of what it returns (the buffered reader, the hello) go to the locals they are bound to
						if id, ok := r.Fun.(*ast.Ident); ok && w.closures[id.Name] == nil && w.x.anyFuncDecl(w.dir, id.Name) != nil {
							w.lastRet = nil
							w.call(r, env, depth, false)
							for i, l := range v.Lhs {
								if lid, ok := l.(*ast.Ident); ok && i < len(w.lastRet) && w.lastRet[i] != "" {
									env[lid.Name] = w.lastRet[i]
								}
							}
							return false
						}
					}
				}
			}
		case *ast.GoStmt:
			w.call(v.Call, env, depth, true)
			return false
		case *ast.UnaryExpr:
			if v.Op == token.ARROW && w.role(v.X, env) == "errc" {
				w.recvs++
				w.events = append(w.events, "recv")
			}
			if c, ok := v.X.(*ast.CallExpr); ok && v.Op == token.ARROW {
				// `<-conn.Done()`: blocks until that connection is closed
				if recv, name := c09Callee(c); recv != nil && name == "Done" && w.role(recv, env) != "other" {
					w.events = append(w.events, w.goPre()+"wait("+w.role(recv, env)+".Done)")
					return false
				}
			}
		case *ast.SendStmt:
			if w.role(v.Chan, env) == "errc" { // a copy direction reports its end
				w.walk(v.Value, env, depth)
				w.events = append(w.events, w.goPre()+"send")
				return false
			}
		case *ast.ReturnStmt:
			if w.goRets[v] { // a started goroutine ends without reporting
				for _, r := range v.Results {
					w.walk(r, env, depth)
				}
				w.events = append(w.events, "go return")
				return false
			}
		case *ast.CallExpr:
			return w.call(v, env, depth, false)
		}
		return true
	})
}

// call records the event of one call and follows it where it has a body in the package. Returns whether the
// surrounding Inspect should descend into the call's children.
func (w *c09walker) call(c *ast.CallExpr, env c09env, depth int, isGo bool) bool {
	recv, name := c09Callee(c)
	fsrc := w.x.src(c.Fun)
	pre := ""
	if isGo || w.inGo > 0 {
		pre = "go "
	}
	// arguments first (they are evaluated before the call)
	for _, a := range c.Args {
		if fl, ok := a.(*ast.FuncLit); ok {
			w.walk(fl.Body, env, depth+1)
		} else {
			w.walk(a, env, depth)
		}
	}
	switch {
	case recv != nil && c09SockOptNames[name]:
		w.events = append(w.events, w.role(recv, env)+"."+name+"("+w.argClass(c, env)+")")
	case fsrc == "io.ReadFull" && len(c.Args) == 2:
		if id, ok := c.Args[1].(*ast.Ident); ok {
			env[id.Name] = "hello"
		}
		w.events = append(w.events, "readfull("+w.role(c.Args[0], env)+")")
	case recv == nil && name == "clientHelloBufferSize" && len(c.Args) == 1:
		w.events = append(w.events, "size("+w.render(c.Args[0], env)+")")
	case recv == nil && name == "readServerName" && len(c.Args) == 1:
		w.events = append(w.events, "parse("+w.render(c.Args[0], env)+")")
	case recv != nil && name == "Lookup":
		w.events = append(w.events, "lookup")
	case recv == nil && name == "copyBuffer" && len(c.Args) >= 2:
		w.events = append(w.events, pre+"copy "+w.role(c.Args[0], env)+"<-"+w.role(c.Args[1], env))
	case fsrc == "io.Copy" && len(c.Args) == 2:
		w.events = append(w.events, pre+"copy "+w.role(c.Args[0], env)+"<-"+w.role(c.Args[1], env))
	case recv != nil && name == "Write" && len(c.Args) == 1:
		rr := w.role(recv, env)
		if rr == "upstream" || rr == "client" {
			w.events = append(w.events, "write("+rr+","+w.role(c.Args[0], env)+")")
		} else if ar := w.role(c.Args[0], env); ar == "upstream" || ar == "client" {
			w.events = append(w.events, "writeto("+ar+")")
		}
	case recv != nil && name == "Read" && len(c.Args) == 1:
		if rr := w.role(recv, env); rr == "upstream" || rr == "client" {
			sz := ""
			if id, ok := c.Args[0].(*ast.Ident); ok {
				if k, ok := w.bufsize[id.Name]; ok {
					sz = "," + strconv.FormatUint(k, 10)
				}
				env[id.Name] = "hsbuf"
			}
			w.events = append(w.events, "read("+rr+sz+")")
		}
	case fsrc == "bytes.HasPrefix" && len(c.Args) == 2:
		lit := w.x.src(c.Args[1])
		w.events = append(w.events, "hasprefix("+w.role(c.Args[0], env)+","+lit+")")
	case recv == nil && name == "WriteProxyHeader" && len(c.Args) == 2:
		w.events = append(w.events, "proxyheader("+w.role(c.Args[0], env)+","+w.role(c.Args[1], env)+")")
	}
	// follow: a local closure, a function literal, or a function/method of the package that has a body
	switch f := c.Fun.(type) {
	case *ast.FuncLit:
		if isGo {
			ast.Inspect(f.Body, func(n ast.Node) bool {
				switch r := n.(type) {
				case *ast.FuncLit:
					return false
				case *ast.ReturnStmt:
					w.goRets[r] = true
				}
				return true
			})
		}
		w.follow(f.Body, w.bindParams(f.Type, c.Args, env, env), depth+1, isGo)
		return false
	case *ast.Ident:
		if fl, ok := w.closures[f.Name]; ok && !w.stack["closure:"+f.Name] {
			w.stack["closure:"+f.Name] = true
			w.follow(fl.Body, w.bindParams(fl.Type, c.Args, env, env), depth+1, isGo)
			delete(w.stack, "closure:"+f.Name)
			return false
		}
	}
	// a plain function of the package, or a method called on the handler's own receiver
	if name != "" && name != "copyBuffer" && !w.stack[name] && (recv == nil || w.role(recv, env) == "self") {
		if _, isIdent := c.Fun.(*ast.Ident); isIdent || recv != nil {
			if fd := w.x.anyFuncDecl(w.dir, name); fd != nil && (recv == nil) == (fd.Recv == nil) {
				w.stack[name] = true
				nenv := w.bindParams(fd.Type, c.Args, env, c09env{})
				if fd.Recv != nil && len(fd.Recv.List) == 1 && len(fd.Recv.List[0].Names) == 1 {
					nenv[fd.Recv.List[0].Names[0].Name] = "self"
				}
				w.follow(fd.Body, nenv, depth+1, isGo)
				delete(w.stack, name)
				// roles of the results, by position (from any return statement that names a role-carrying variable)
				var rets []string
				ast.Inspect(fd.Body, func(n ast.Node) bool {
					switch r := n.(type) {
					case *ast.FuncLit:
						return false
					case *ast.ReturnStmt:
						for i, e := range r.Results {
							if rr := w.role(e, nenv); rr != "other" {
								for len(rets) <= i {
									rets = append(rets, "")
								}
								rets[i] = rr
							}
						}
					}
					return true
				})
				w.lastRet = rets
			}
		}
	}
	if recv != nil { // the receiver expression may itself contain calls (in.RemoteAddr().String())
		w.walk(recv, env, depth)
	}
	return false
}

// follow walks a callee's body; what runs under a `go` statement is marked.
func (w *c09walker) follow(body ast.Node, env c09env, depth int, isGo bool) {
	if isGo {
		w.inGo++
	}
	w.walk(body, env, depth)
	if isGo {
		w.inGo--
	}
}

func c09Handler(x *X, name, dir string, body *ast.BlockStmt, env c09env) {
	w := &c09walker{x: x, dir: dir, closures: map[string]*ast.FuncLit{}, bufsize: map[string]uint64{}, stack: map[string]bool{}, goRets: map[ast.Node]bool{}}
	w.walk(body, env, 0)
	if len(w.caps) != 1 {
		x.fail("%s: expected exactly one error channel `make(chan error, N)` on the handler's path, found %d", name, len(w.caps))
		return
	}
	x.defStrList(name+"Events", w.events)
	// derived here (string computations do not reduce in Lean's kernel): the socket-option / deadline /
	// half-close events among them, and whether a PROXY line is written
	so := []string{}
	pxy := false
	for _, e := range w.events {
		if i := strings.Index(e, "."); i > 0 && i < strings.Index(e+"(", "(") {
			if c09SockOptNames[e[i+1:strings.Index(e, "(")]] {
				so = append(so, e)
			}
		}
		if strings.HasPrefix(e, "proxyheader(") {
			pxy = true
		}
	}
	x.defStrList(name+"SockOpts", so)
	x.defBool(name+"WritesProxyHeader", pxy)
	x.defNat(name+"ErrcCap", w.caps[0])
	x.defNat(name+"ErrcReceives", uint64(w.recvs))
}

func c09FirstParam(fd *ast.FuncDecl) string {
	if fd.Type.Params != nil && len(fd.Type.Params.List) > 0 && len(fd.Type.Params.List[0].Names) > 0 {
		return fd.Type.Params.List[0].Names[0].Name
	}
	return ""
}

// atoms splits a condition on && (parentheses removed).
func c09Atoms(e ast.Expr) []ast.Expr {
	switch v := e.(type) {
	case *ast.ParenExpr:
		return c09Atoms(v.X)
	case *ast.BinaryExpr:
		if v.Op == token.LAND {
			return append(c09Atoms(v.X), c09Atoms(v.Y)...)
		}
	}
	return []ast.Expr{e}
}

func c09CopyBuffer(x *X) {
	fd := x.funcDecl("proxy/tcp", "", "copyBuffer")
	if fd == nil {
		return
	}
	env := c09env{}
	_, params, _ := x.LocalNames(fd)
	for i, p := range params {
		if i < 3 {
			env[p] = []string{"dst", "src", "counter"}[i]
		}
	}
	if fd.Type.Results != nil {
		for _, r := range fd.Type.Results.List {
			for _, n := range r.Names {
				env[n.Name] = "result"
			}
		}
	}
	w := &c09walker{x: x}
	var calls []string
	loops := 0
	found := false
	// pass 1: roles from the assignments
	ast.Inspect(fd.Body, func(n ast.Node) bool {
		if _, ok := n.(*ast.ForStmt); ok {
			loops++
		}
		a, ok := n.(*ast.AssignStmt)
		if !ok || len(a.Rhs) != 1 {
			return true
		}
		c, ok := a.Rhs[0].(*ast.CallExpr)
		if !ok {
			return true
		}
		recv, name := c09Callee(c)
		ids := func(i int) string {
			if i < len(a.Lhs) {
				if id, ok := a.Lhs[i].(*ast.Ident); ok {
					return id.Name
				}
			}
			return ""
		}
		switch {
		case x.src(c.Fun) == "make" && len(c.Args) == 2 && x.src(c.Args[0]) == "[]byte":
			if k, ok := c09Const(x, c.Args[1]); ok {
				x.defNat("copyBufBytes", k)
				found = true
			}
			env[ids(0)] = "buf"
		case recv != nil && name == "Read" && w.role(recv, env) == "src":
			env[ids(0)], env[ids(1)] = "nr", "er"
		case recv != nil && name == "Write" && w.role(recv, env) == "dst":
			env[ids(0)], env[ids(1)] = "nw", "ew"
		}
		return true
	})
	delete(env, "")
	if !found {
		x.fail("copyBuffer: buffer allocation not found")
	}
	// pass 2: calls in order, tests, results
	atomSet := map[string]bool{}
	var subjects []string
	results := map[string]bool{}
	ast.Inspect(fd.Body, func(n ast.Node) bool {
		switch v := n.(type) {
		case *ast.CallExpr:
			recv, name := c09Callee(v)
			if recv != nil {
				if r := w.role(recv, env); r == "src" || r == "dst" || r == "counter" {
					var args []string
					for _, a := range v.Args {
						args = append(args, w.render(a, env))
					}
					calls = append(calls, r+"."+name+"("+strings.Join(args, ",")+")")
				}
			}
		case *ast.IfStmt:
			for _, a := range c09Atoms(v.Cond) {
				s := w.render(a, env)
				if be, ok := a.(*ast.BinaryExpr); ok && (be.Op == token.EQL || be.Op == token.NEQ) {
					// polarity is a matter of how the branches are laid out
					l, r := w.render(be.X, env), w.render(be.Y, env)
					if r < l {
						l, r = r, l
					}
					s = "cmp(" + l + "," + r + ")"
				}
				atomSet[s] = true
				subj := s
				ast.Inspect(a, func(m ast.Node) bool {
					if id, ok := m.(*ast.Ident); ok && subj == s {
						if r, ok := env[id.Name]; ok {
							subj = r
						}
					}
					return true
				})
				if len(subjects) == 0 || subjects[len(subjects)-1] != subj {
					subjects = append(subjects, subj)
				}
			}
		case *ast.ReturnStmt:
			for _, r := range v.Results {
				if s := w.render(r, env); s != "result" && s != "nil" {
					results[s] = true
				}
			}
		case *ast.AssignStmt:
			if len(v.Lhs) == 1 && len(v.Rhs) == 1 && w.role(v.Lhs[0], env) == "result" {
				if s := w.render(v.Rhs[0], env); s != "nil" {
					results[s] = true
				}
			}
		}
		return true
	})
	keys := func(m map[string]bool) []string {
		var ks []string
		for k := range m {
			ks = append(ks, k)
		}
		sort.Strings(ks)
		return ks
	}
	x.defNat("copyLoops", uint64(loops))
	x.defStrList("copyCalls", calls)
	x.defStrList("copyTests", keys(atomSet))
	x.defStrList("copyTestOrder", subjects)
	x.defStrList("copyResults", keys(results))
	var so []string
	ast.Inspect(fd.Body, func(n ast.Node) bool {
		if c, ok := n.(*ast.CallExpr); ok {
			if _, name := c09Callee(c); c09SockOptNames[name] {
				so = append(so, name)
			}
		}
		return true
	})
	x.defStrList("copySockOpts", so)
}

func c09ProxyHeader(x *X) {
	fd := x.funcDecl("proxy/tcp", "", "WriteProxyHeader")
	if fd == nil {
		return
	}
	env := c09env{}
	_, params, _ := x.LocalNames(fd)
	for i, p := range params {
		if i < 2 {
			env[p] = []string{"upstream", "client"}[i]
		}
	}
	w := &c09walker{x: x}
	var splits []string
	splitPass := func(body ast.Node) {
		ast.Inspect(body, func(n ast.Node) bool {
			a, ok := n.(*ast.AssignStmt)
			if !ok || len(a.Rhs) != 1 {
				return true
			}
			c, ok := a.Rhs[0].(*ast.CallExpr)
			if !ok || x.src(c.Fun) != "net.SplitHostPort" || len(c.Args) != 1 || len(a.Lhs) < 2 {
				return true
			}
			arg := w.render(c.Args[0], env)
			splits = append(splits, arg)
			pre := "?"
			switch {
			case strings.Contains(arg, "RemoteAddr"):
				pre = "client"
			case strings.Contains(arg, "LocalAddr"):
				pre = "server"
			}
			if id, ok := a.Lhs[0].(*ast.Ident); ok {
				env[id.Name] = pre + "Addr"
			}
			if id, ok := a.Lhs[1].(*ast.Ident); ok {
				env[id.Name] = pre + "Port"
			}
			return true
		})
	}
	splitPass(fd.Body)
	// unexported helpers of the package that WriteProxyHeader calls are part of it: their parameters stand for the
	// arguments (so `client.String()` in a helper called with `in.RemoteAddr()` is `client.RemoteAddr().String()`)
	bodies := []ast.Node{fd.Body}
	ast.Inspect(fd.Body, func(n ast.Node) bool {
		c, ok := n.(*ast.CallExpr)
		if !ok {
			return true
		}
		id, ok := c.Fun.(*ast.Ident)
		if !ok {
			return true
		}
		h := x.anyFuncDecl("proxy/tcp", id.Name)
		if h == nil || h.Body == nil || h.Recv != nil || h == fd || len(bodies) > 4 {
			return true
		}
		i := 0
		if h.Type.Params != nil {
			for _, p := range h.Type.Params.List {
				for _, nm := range p.Names {
					if i < len(c.Args) {
						env[nm.Name] = w.render(c.Args[i], env)
					}
					i++
				}
			}
		}
		splitPass(h.Body)
		bodies = append(bodies, h.Body)
		return true
	})
	sort.Strings(splits) // which address is split first is layout
	// the family variable: the one a "TCP4"/"TCP6" literal is assigned to
	var fam []string
	var walk func(n ast.Node, cond string)
	record := func(lhs ast.Expr, rhs ast.Expr, cond string) {
		if s, ok := x.strLit(rhs); ok && (s == "TCP4" || s == "TCP6") {
			if id, ok := lhs.(*ast.Ident); ok {
				env[id.Name] = "family"
			}
			if cond == "" {
				fam = append(fam, s+" otherwise")
			} else {
				fam = append(fam, s+" if "+cond)
			}
		}
	}
	walk = func(n ast.Node, cond string) {
		ast.Inspect(n, func(m ast.Node) bool {
			switch v := m.(type) {
			case *ast.IfStmt:
				c := w.render(v.Cond, env)
				walk(v.Body, c)
				if v.Else != nil {
					walk(v.Else, "")
				}
				return false
			case *ast.AssignStmt:
				if len(v.Lhs) == 1 && len(v.Rhs) == 1 {
					record(v.Lhs[0], v.Rhs[0], cond)
				}
			case *ast.ValueSpec:
				if len(v.Names) == 1 && len(v.Values) == 1 {
					record(v.Names[0], v.Values[0], cond)
				}
			}
			return true
		})
	}
	for _, b := range bodies {
		walk(b, "")
	}
	sort.Strings(fam)
	x.defStrList("pxyFamily", fam)
	x.defStrList("pxySplitArgs", splits)
	// the concatenation that starts with "PROXY "
	var parts []string
	var flatten func(e ast.Expr) []string
	flatten = func(e ast.Expr) []string {
		if b, ok := e.(*ast.BinaryExpr); ok && b.Op == token.ADD {
			return append(flatten(b.X), flatten(b.Y)...)
		}
		if p, ok := e.(*ast.ParenExpr); ok {
			return flatten(p.X)
		}
		if s, ok := x.strLit(e); ok {
			return []string{"lit:" + s}
		}
		return []string{w.render(e, env)}
	}
	for _, body := range bodies {
		ast.Inspect(body, func(n ast.Node) bool {
			if b, ok := n.(*ast.BinaryExpr); ok && b.Op == token.ADD && parts == nil {
				if fl := flatten(b); len(fl) > 0 && strings.HasPrefix(fl[0], "lit:PROXY ") {
					parts = fl
					return false
				}
			}
			return true
		})
	}
	if parts == nil {
		x.fail("WriteProxyHeader: the concatenation starting with \"PROXY \" was not found")
	}
	// adjacent literals are one literal (how the line is cut into pieces is spelling)
	var merged []string
	for _, p := range parts {
		if len(merged) > 0 && strings.HasPrefix(p, "lit:") && strings.HasPrefix(merged[len(merged)-1], "lit:") {
			merged[len(merged)-1] += p[4:]
		} else {
			merged = append(merged, p)
		}
	}
	x.defStrList("pxyHeaderParts", merged)
}

// c09ConnWrapper: the type Server.Serve wraps accepted connections in, and the socket-option calls of its methods.
func c09ConnWrapper(x *X) {
	fd := x.funcDecl("proxy/tcp", "Server", "Serve")
	if fd == nil {
		return
	}
	typ := ""
	ast.Inspect(fd.Body, func(n ast.Node) bool {
		if cl, ok := n.(*ast.CompositeLit); ok && typ == "" {
			if id, ok := cl.Type.(*ast.Ident); ok && !ast.IsExported(id.Name) {
				typ = id.Name
			}
		}
		return true
	})
	if typ == "" {
		x.fail("Server.Serve: the connection wrapper type was not found")
		return
	}
	var out []string
	for _, f := range x.files("proxy/tcp") {
		for _, d := range f.Decls {
			m, ok := d.(*ast.FuncDecl)
			if !ok || m.Recv == nil || m.Body == nil || len(m.Recv.List) != 1 {
				continue
			}
			rt := m.Recv.List[0].Type
			if st, ok := rt.(*ast.StarExpr); ok {
				rt = st.X
			}
			if id, ok := rt.(*ast.Ident); !ok || id.Name != typ {
				continue
			}
			env := c09env{}
			recv, params, _ := x.LocalNames(m)
			if recv != "" {
				env[recv] = "recv"
			}
			for i, p := range params {
				env[p] = "p" + strconv.Itoa(i)
			}
			w := &c09walker{x: x}
			var ifs []*ast.IfStmt
			var walk func(n ast.Node)
			walk = func(n ast.Node) {
				ast.Inspect(n, func(k ast.Node) bool {
					switch v := k.(type) {
					case *ast.IfStmt:
						if v.Init != nil {
							walk(v.Init)
						}
						walk(v.Cond)
						ifs = append(ifs, v)
						walk(v.Body)
						ifs = ifs[:len(ifs)-1]
						if v.Else != nil {
							walk(v.Else)
						}
						return false
					case *ast.CallExpr:
						if _, name := c09Callee(v); c09SockOptNames[name] {
							var args []string
							for _, a := range v.Args {
								s := x.src(a)
								if strings.HasPrefix(s, "time.Now().Add(") {
									if ic, ok := a.(*ast.CallExpr); ok && len(ic.Args) == 1 {
										s = "now+" + w.render(ic.Args[0], env)
									}
								} else {
									s = w.render(a, env)
								}
								args = append(args, s)
							}
							e := m.Name.Name + ": " + name + "(" + strings.Join(args, ",") + ")"
							if len(ifs) > 0 {
								e += " if " + w.render(ifs[len(ifs)-1].Cond, env)
							}
							out = append(out, e)
						}
					}
					return true
				})
			}
			walk(m.Body)
		}
	}
	sort.Strings(out)
	x.defStrList("serverSockOpts", out)
}

func init() {
	register("C09", func(x *X) error {
		x.UseNormalizedAST()

		c09CopyBuffer(x)

		for _, h := range []struct{ name, typ string }{{"tcp", "Proxy"}, {"sni", "SNIProxy"}, {"dyn", "DynamicProxy"}} {
			if fd := x.funcDecl("proxy/tcp", h.typ, "ServeTCP"); fd != nil {
				env := c09env{c09FirstParam(fd): "client"}
				if r, _, _ := x.LocalNames(fd); r != "" {
					env[r] = "self"
				}
				c09Handler(x, h.name, "proxy/tcp", fd.Body, env)
			}
		}

		// the websocket handler: the function HTTPProxy.ServeHTTP calls in its websocket branch
		if fd := x.funcDecl("proxy", "HTTPProxy", "ServeHTTP"); fd != nil {
			names := map[string]bool{}
			ast.Inspect(fd.Body, func(n ast.Node) bool {
				if is, ok := n.(*ast.IfStmt); ok && strings.Contains(x.src(is.Cond), `"websocket"`) {
					ast.Inspect(is.Body, func(m ast.Node) bool {
						if c, ok := m.(*ast.CallExpr); ok {
							if id, ok := c.Fun.(*ast.Ident); ok && x.anyFuncDecl("proxy", id.Name) != nil {
								names[id.Name] = true
							}
						}
						return true
					})
					return false
				}
				return true
			})
			if len(names) != 1 {
				x.fail("HTTPProxy.ServeHTTP: expected exactly one handler constructor in the websocket branch, found %d", len(names))
			}
			for n := range names {
				ws := x.anyFuncDecl("proxy", n)
				env := c09env{}
				_, params, _ := x.LocalNames(ws)
				if len(params) >= 2 {
					env[params[1]] = "dialfn"
				}
				c09Handler(x, "ws", "proxy", ws.Body, env)
			}
		}

		c09ProxyHeader(x)
		c09ConnWrapper(x)
		return nil
	})
}
