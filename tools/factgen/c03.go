package main

import (
	"go/ast"
	"sort"
)

// C03 — request routing. Facts the model in lean/Fabio/Model/C03.lean silently depends on.
func init() {
	register("C03", func(x *X) error {
		// 1. the matcher table: key=function
		if e := x.valueSpec("route", "Matcher"); e != nil {
			var kv []string
			if cl, ok := e.(*ast.CompositeLit); ok {
				for _, el := range cl.Elts {
					if p, ok := el.(*ast.KeyValueExpr); ok {
						k, _ := x.strLit(p.Key)
						kv = append(kv, k+"="+x.src(p.Value))
					}
				}
			} else {
				x.fail("route.Matcher is not a composite literal")
			}
			sort.Strings(kv)
			x.defStrList("matcherTable", kv)
		}
		// 2. the three matchers: what they return
		for _, m := range []string{"prefixMatcher", "globMatcher", "iPrefixMatcher"} {
			if fd := x.funcDecl("route", "", m); fd != nil {
				x.defStrList(m+"Returns", x.returns(fd))
				x.defStrList(m+"Assigns", x.assigns(fd))
			}
		}
		// globMatch: g.Match(s) under a recover that turns a panic of the library into "no match"
		if fd := x.funcDecl("route", "", "globMatch"); fd != nil {
			x.defStrList("globMatchReturns", x.returns(fd))
			x.defStrList("globMatchAssigns", x.assigns(fd))
			x.defNat("globMatchRecovers", uint64(len(x.calls(fd, "recover"))))
		}
		// 3. the order of a host's routes
		if fd := x.funcDecl("route", "Routes", "Less"); fd != nil {
			x.defStrList("lessReturns", x.returns(fd))
			x.defStrList("lessAssigns", x.assigns(fd))
		}
		// 4. default ports: condition and literal of every HasSuffix test in normalizeHostNoLower
		if fd := x.funcDecl("route", "", "normalizeHostNoLower"); fd != nil {
			var conds []string
			ast.Inspect(fd, func(n ast.Node) bool {
				if is, ok := n.(*ast.IfStmt); ok {
					conds = append(conds, x.src(is.Cond))
				}
				return true
			})
			x.defStrList("defaultPortConds", conds)
			x.defStrList("defaultPortReturns", x.returns(fd))
		}
		if fd := x.funcDecl("route", "", "normalizeHost"); fd != nil {
			x.defStrList("normalizeHostReturns", x.returns(fd))
		}
		// 5. host selection: how the request host and the pattern are normalised, no MustCompile on the request path
		for _, m := range []string{"matchingHosts", "matchingHostNoGlob"} {
			if fd := x.funcDecl("route", "Table", m); fd != nil {
				x.defStrList(m+"Assigns", x.assigns(fd))
				x.defNat(m+"MustCompile", uint64(len(x.calls(fd, "glob.MustCompile"))))
				var conds []string
				ast.Inspect(fd, func(n ast.Node) bool {
					if is, ok := n.(*ast.IfStmt); ok {
						conds = append(conds, x.src(is.Cond))
					}
					return true
				})
				x.defStrList(m+"Conds", conds)
			}
		}
		// 6. the host order
		if fd := x.funcDecl("route", "", "sortHostsReverseHostPort"); fd != nil {
			x.defStrList("sortHostsReturns", x.returns(fd))
			x.defStrList("sortHostsAssigns", x.assigns(fd))
			var calls []string
			ast.Inspect(fd, func(n ast.Node) bool {
				if c, ok := n.(*ast.CallExpr); ok {
					f := x.src(c.Fun)
					if f == "sort.Slice" || f == "sort.SliceStable" || f == "sort.Sort" || f == "sort.Stable" || f == "sort.Strings" {
						calls = append(calls, f)
					}
				}
				return true
			})
			x.defStrList("sortHostsSortCalls", calls)
		}
		if fd := x.funcDecl("route", "", "isHostPattern"); fd != nil {
			x.defStrList("isHostPatternReturns", x.returns(fd))
		}
		// 7. Lookup: the "" fallback is appended once, after host selection, before the loop; lookup lower-cases
		if fd := x.funcDecl("route", "Table", "Lookup"); fd != nil {
			var appendPos, rangePos, selPos []int
			ast.Inspect(fd, func(n ast.Node) bool {
				switch v := n.(type) {
				case *ast.AssignStmt:
					s := x.src(v)
					if s == `hosts = append(hosts, "")` {
						appendPos = append(appendPos, int(v.Pos()))
					}
					if s == "hosts = t.matchingHostNoGlob(req)" || s == "hosts = t.matchingHosts(req, globCache)" {
						selPos = append(selPos, int(v.Pos()))
					}
				case *ast.RangeStmt:
					if x.src(v.X) == "hosts" {
						rangePos = append(rangePos, int(v.Pos()))
					}
				}
				return true
			})
			ok := len(appendPos) == 1 && len(rangePos) == 1 && len(selPos) == 2 &&
				selPos[0] < appendPos[0] && selPos[1] < appendPos[0] && appendPos[0] < rangePos[0]
			x.defBool("lookupFallbackAppendedLast", ok)
			var conds []string
			ast.Inspect(fd, func(n ast.Node) bool {
				if is, ok := n.(*ast.IfStmt); ok {
					c := x.src(is.Cond)
					if c == "globDisabled" || c == "!globDisabled" {
						conds = append(conds, c+" => "+x.src(is.Body.List[0]))
					}
				}
				return true
			})
			x.defStrList("lookupGlobSwitch", conds)
			var looks []string
			for _, c := range x.calls(fd, "t.lookup") {
				looks = append(looks, x.src(c))
			}
			x.defStrList("lookupCalls", looks)
		}
		if fd := x.funcDecl("route", "Table", "lookup"); fd != nil {
			first := ""
			if len(fd.Body.List) > 0 {
				first = x.src(fd.Body.List[0])
			}
			x.defStr("lookupFirstStmt", first)
			var rng []string
			ast.Inspect(fd, func(n ast.Node) bool {
				if r, ok := n.(*ast.RangeStmt); ok {
					rng = append(rng, x.src(r.X))
				}
				return true
			})
			x.defStrList("lookupRanges", rng)
		}
		if fd := x.funcDecl("route", "Table", "LookupHost"); fd != nil {
			x.defStrList("lookupHostReturns", x.returns(fd))
		}
		// 8. the callers hand Lookup the configured matcher, picker, cache and the glob switch
		var callers []string
		for _, dir := range []string{".", "proxy"} {
			for _, f := range x.files(dir) {
				ast.Inspect(f, func(n ast.Node) bool {
					if c, ok := n.(*ast.CallExpr); ok {
						if se, ok := c.Fun.(*ast.SelectorExpr); ok && se.Sel.Name == "Lookup" && len(c.Args) == 6 {
							var as []string
							for _, a := range c.Args[2:] {
								as = append(as, x.src(a))
							}
							callers = append(callers, x.src(se.X)+": "+joinComma(as))
						}
					}
					return true
				})
			}
		}
		sort.Strings(callers)
		x.defStrList("lookupCallers", callers)
		return nil
	})
}

func joinComma(as []string) string {
	s := ""
	for i, a := range as {
		if i > 0 {
			s += ", "
		}
		s += a
	}
	return s
}

// returns lists the rendered result expressions of every return statement of fd, in source order
// (function literals inside fd included).
func (x *X) returns(fd *ast.FuncDecl) []string {
	var out []string
	ast.Inspect(fd, func(n ast.Node) bool {
		if r, ok := n.(*ast.ReturnStmt); ok {
			s := ""
			for i, e := range r.Results {
				if i > 0 {
					s += ", "
				}
				s += x.src(e)
			}
			out = append(out, s)
		}
		return true
	})
	return out
}

// assigns lists the rendered assignment statements of fd, in source order.
func (x *X) assigns(fd *ast.FuncDecl) []string {
	var out []string
	ast.Inspect(fd, func(n ast.Node) bool {
		if a, ok := n.(*ast.AssignStmt); ok {
			out = append(out, x.src(a))
		}
		return true
	})
	return out
}
